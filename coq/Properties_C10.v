(* Properties_C10.v -- regex matches are genuine, leftmost, greedy/left-biased, right group spans.
   Statements only; proofs are in ReProps*.v. *)
From Coq Require Import List NArith ZArith.
From NV Require Import UcSpec.
From NV Require Import Bytes GenConsts ReSyntax ReParse ReEmit ReVM ReSem RsetDefs ReProps ReProps2 ReProps3 ReProps4 ReProps5 ReProps9 ReGroups ReGroups2 ReStrict ReStrict2.
Import ListNotations.

(* whatever the backtracking machine reports is a genuine run of the program (cut or no cut) *)
Theorem C10_vm_sound : forall St atom_step mark_step P d pc s cs r c,
  rec St atom_step mark_step P d pc s = (Found cs r, c) -> path St atom_step mark_step P pc s cs r.
Proof. exact rec_sound. Qed.
Print Assumptions C10_vm_sound.

(* when no depth cut happened (counter 0): Found is the lexicographically least successful choice
   list (greedy, left-biased), Fail means that no successful choice list exists *)
Theorem C10_vm_first : forall St atom_step mark_step P d pc s o,
  rec St atom_step mark_step P d pc s = (o, 0%N) ->
  match o with
  | Found cs r => path St atom_step mark_step P pc s cs r /\
                  forall cs' r', path St atom_step mark_step P pc s cs' r' -> lexle cs cs'
  | Fail => forall cs' r', ~ path St atom_step mark_step P pc s cs' r'
  | _ => True
  end.
Proof. exact rec_first'. Qed.
Print Assumptions C10_vm_first.

(* the emitted block of a regular expression: a run that stays inside the block and first reaches
   its end is exactly a derivation of the set semantics *)
Theorem C10_emit_sound : forall St atom_step mark_step P r b s cs s',
  code_at P b (emit r b) -> rin St atom_step mark_step P b (b + len r) b s cs s' -> M St atom_step mark_step r s s'.
Proof. exact emit_sound. Qed.
Print Assumptions C10_emit_sound.

Theorem C10_emit_complete : forall St atom_step mark_step P r s s',
  M St atom_step mark_step r s s' -> forall b, code_at P b (emit r b) -> exists cs, run St atom_step mark_step P b s cs (b + len r) s'.
Proof. exact emit_complete. Qed.
Print Assumptions C10_emit_complete.

(* the emitter of the model (mirror of rnode_emit, counted repetitions unrolled) produces literally
   the code of the regular expression tr t *)
Theorem C10_emit_is_tr : forall t, wf_node t -> forall b, emit_n t b = emit (tr t) b.
Proof. exact emit_n_tr. Qed.
Print Assumptions C10_emit_is_tr.

(* regexec's start-position loop on a program MARK 0; code of top; MARK 1; MATCH: a reported match is a
   derivation of the set semantics of top from one of the start positions the loop tries, between
   the two outer marks (groups are the marks of that derivation) *)
Theorem C10_sound : forall d P flg line top, code_at P 0 ([IMark 0] ++ emit top 1 ++ [IMark 1; IMatch]) ->
  forall k o s r c, re_loop d P flg line k o s = (Ok (Some r), c) ->
  exists p s1, In p (tried line k o s) /\ M st (atom_step flg line) mark_step top (mark_step 0 (init p)) s1 /\ r = mark_step 1 s1.
Proof. exact re_loop_sound. Qed.
Print Assumptions C10_sound.

(* with the cut counter 0: a failed search means that no tried start position has any derivation;
   a reported match comes from the first tried start that has one (leftmost) and is reached by the
   lexicographically least choice list (greedy, left-biased) *)
Theorem C10_leftmost_priority : forall d P flg line top, code_at P 0 ([IMark 0] ++ emit top 1 ++ [IMark 1; IMatch]) ->
  forall k o s x, re_loop d P flg line k o s = (Ok x, 0%N) ->
  match x with
  | None => forall p, In p (tried line k o s) -> forall s1, ~ M st (atom_step flg line) mark_step top (mark_step 0 (init p)) s1
  | Some r =>
    exists l1 p l2 cs, tried line k o s = l1 ++ p :: l2 /\
      (forall q, In q l1 -> forall s1, ~ M st (atom_step flg line) mark_step top (mark_step 0 (init q)) s1) /\
      path st (atom_step flg line) mark_step P 0 (init p) cs r /\
      (forall cs' r', path st (atom_step flg line) mark_step P 0 (init p) cs' r' -> lexle cs cs')
  end.
Proof. exact re_loop_leftmost. Qed.
Print Assumptions C10_leftmost_priority.

(* the program of every accepted pattern string has exactly that layout, with top = tr (numbered tree) *)
Theorem C10_regcomp_layout : forall pat p, regcomp pat = Ok (Some p) ->
  code p = [IMark 0] ++ emit (tr (tree p)) 1 ++ [IMark 1; IMatch].
Proof. exact regcomp_layout. Qed.
Print Assumptions C10_regcomp_layout.

(* the index rset_find returns is that of an alternative whose wrapper group grp[index] is set in
   regexec's answer; the groups handed back are that alternative's own, renumbered from 0.
   (_partial: that re_groupcount agrees with the parser's group numbering -- so that grp[] really
   points at the wrapper groups -- is corresponded, not proved.) *)
Theorem C10_rset_index_partial : forall d rs line n flg idx g c, rset_find_d d rs line n flg = (Ok (idx, g), c) -> (0 <= idx)%Z ->
  exists subs, regexec_d d (rs_prog rs) (rs_cflg rs) line (rs_grpcnt rs)
                 (Z.lor REG_NEWLINE (Z.lor (if has flg RE_NOTBOL then REG_NOTBOL else 0%Z) (if has flg RE_NOTEOL then REG_NOTEOL else 0%Z))) = (Ok (Some subs), c) /\
    (idx < Z.of_nat (length (firstn (rs_n rs) (rs_grp rs))))%Z /\
    let base := nth (Z.to_nat idx) (firstn (rs_n rs) (rs_grp rs)) (-1)%Z in
    (0 <= base)%Z /\ (0 <= fst (nth (Z.to_nat base) subs ((-1)%Z, (-1)%Z)))%Z /\
    g = map (fun i => if Nat.ltb i (nth (Z.to_nat idx) (rs_setgrpcnt rs) O + 1)
                      then nth (Z.to_nat (nth (Z.to_nat idx) (rs_grp rs) 0%Z) + i) subs ((-1)%Z, (-1)%Z) else ((-1)%Z, (-1)%Z)) (seq 0 n).
Proof. exact rset_index. Qed.
Print Assumptions C10_rset_index_partial.

(* C10_rset_index, the structural half: for every pattern set that passes the executable check rset_shape (the
   combined pattern is parsed completely into one outer group around the alternation of one wrapper group per
   non-NULL pattern, and each wrapper contains re_groupcount p groups) and that rset_make accepts: the compiled tree
   is the outer group 1 around the alternation; the wrapper of the i-th non-NULL pattern is the group numbered grp[i]
   (the non-negative entries of grp[0..n-1], in order), it contains exactly setgrpcnt[i] groups and they are numbered
   grp[i]+1 ... in pre-order (rnode_grpnum); grpcnt = grp[n] is one more than the number of groups of the tree.
   Together with C10_rset_index_partial: the index rset_find reports is that of an alternative whose OWN wrapper group
   took part in the match, and the groups handed back are that alternative's own.
   The hypothesis is decidable; tools/props/c10.py evaluates it (model request S) for every generated grammatical set and
   the corpus and reports a set that fails it.  Since the fixes 66f245a / 3139e7f it holds for every accepted set:
   C10_accepted_shape, C10_rset_index_all below.  (Before them the parser truncated malformed patterns silently --
   `(a)(b{3,1})`, `x(|)`, `a)(b` were accepted by rset_make and failed the check; before fix f534655 `[a[*](x)` and
   {`[[:space:]()]+`, `y`} failed it too.) *)
Theorem C10_rset_index : forall res flg rs, rset_shape res = true -> rset_make res flg = Ok (Some rs) ->
  exists body, tree (rs_prog rs) = NGrp body 1 1 1 /\
    wraps body (somes res) (map Z.to_nat (filter nonneg (firstn (rs_n rs) (rs_grp rs)))) /\
    map snd (filter (fun zs => nonneg (fst zs)) (combine (firstn (rs_n rs) (rs_grp rs)) (rs_setgrpcnt rs))) = map re_groupcount (somes res) /\
    rs_grpcnt rs = 1 + ngroups (tree (rs_prog rs)) /\ nth (rs_n rs) (rs_grp rs) 0%Z = Z.of_nat (rs_grpcnt rs) /\
    map Z.to_nat (filter nonneg (firstn (rs_n rs) (rs_grp rs))) = nums 2 (somes res).
Proof. exact rset_index_full. Qed.
Print Assumptions C10_rset_index.

(* C10_rset_index, the semantic half ("the reported index is that of the alternative that matched"): for a set that passes
   rset_shape, whenever rset_find reports index idx, the match regexec found is a derivation of the set semantics from a
   tried start position p that goes THROUGH the wrapper group G = grp[idx] of alternative idx -- M (RGrp G (tr x)) between
   the marks of the outer group -- and not through another alternative (the marks of a group are written only inside it,
   the group numbers of different alternatives are disjoint, all marks start at -1); the groups handed back are read from
   the final state r of exactly this derivation. *)
Theorem C10_rset_index_semantic : forall res flg rs d line n fl idx g c,
  rset_shape res = true -> rset_make res flg = Ok (Some rs) ->
  rset_find_d d rs line n fl = (Ok (idx, g), c) -> (0 <= idx)%Z ->
  let eflg := Z.lor REG_NEWLINE (Z.lor (if has fl RE_NOTBOL then REG_NOTBOL else 0%Z) (if has fl RE_NOTEOL then REG_NOTEOL else 0%Z)) in
  let f := Z.lor (rs_cflg rs) eflg in
  let G := Z.to_nat (nth (Z.to_nat idx) (firstn (rs_n rs) (rs_grp rs)) (-1)%Z) in
  exists body x p s2 r,
    tree (rs_prog rs) = NGrp body 1 1 1 /\ In (G, x) (wrappers body) /\
    In p (tried line (length line + 2) 0 0) /\
    M st (atom_step f line) mark_step (RGrp G (tr x)) (mark_step 2 (mark_step 0 (init p))) s2 /\
    r = mark_step 1 (mark_step 3 s2) /\
    regexec_d d (rs_prog rs) (rs_cflg rs) line (rs_grpcnt rs) eflg = (Ok (Some (psub_of (snd r) (rs_grpcnt rs))), c).
Proof. exact rset_index_semantic. Qed.
Print Assumptions C10_rset_index_semantic.

(* Since the fix commits 66f245a (regex.c: a malformed repetition, an empty or unclosed group, an unconsumed rest reject the
   pattern) and 3139e7f (rset.c: re_groupcount refuses a pattern that is not self-contained) the hypothesis rset_shape of
   C10_rset_index / C10_rset_index_semantic holds for EVERY pattern set rset_make accepts (with at least one non-NULL
   pattern), provided the bytes after the first byte of a character of the combined pattern are not special for the
   scanner (mbok: true for ASCII patterns -- C10_ascii_mbok -- and for valid UTF-8, whose continuation bytes are >= 128;
   an invalid lead byte directly before a parenthesis swallows it into a literal).  Proof (coq/ReStrict.v): re_groupcount's
   scanner gcount is used as the lexer; every clean call of a parser function consumes a segment that counts as many
   groups as the tree it returns has and never closes a group it did not open; a self-contained pattern is such a segment,
   whatever follows it; two segments that start together and are both followed by a closing parenthesis coincide. *)
Theorem C10_accepted_shape : forall res flg rs, rset_make res flg = Ok (Some rs) -> mbok (rset_pattern res) -> somes res <> [] ->
  rset_shape res = true.
Proof. exact accepted_shape. Qed.
Print Assumptions C10_accepted_shape.

Theorem C10_rset_index_all : forall res flg rs, rset_make res flg = Ok (Some rs) -> mbok (rset_pattern res) -> somes res <> [] ->
  exists body, tree (rs_prog rs) = NGrp body 1 1 1 /\
    wraps body (somes res) (map Z.to_nat (filter nonneg (firstn (rs_n rs) (rs_grp rs)))) /\
    map snd (filter (fun zs => nonneg (fst zs)) (combine (firstn (rs_n rs) (rs_grp rs)) (rs_setgrpcnt rs))) = map re_groupcount (somes res) /\
    rs_grpcnt rs = 1 + ngroups (tree (rs_prog rs)) /\ nth (rs_n rs) (rs_grp rs) 0%Z = Z.of_nat (rs_grpcnt rs) /\
    map Z.to_nat (filter nonneg (firstn (rs_n rs) (rs_grp rs))) = nums 2 (somes res).
Proof. exact rset_index_all. Qed.
Print Assumptions C10_rset_index_all.

Theorem C10_ascii_mbok : forall res, Forall (Forall (fun b => (b < 128)%N)) (somes res) -> somes res <> [] -> mbok (rset_pattern res).
Proof. exact ascii_patterns_mbok. Qed.
Print Assumptions C10_ascii_mbok.

(* valid UTF-8 pattern sets satisfy the side condition of C10_accepted_shape (continuation bytes are >= 128) *)
Theorem C10_valid_utf8_mbok : forall res pss, somes res = map chars pss -> Forall (Forall scalar) pss -> somes res <> [] -> mbok (rset_pattern res).
Proof. exact somes_valid_mbok. Qed.
Print Assumptions C10_valid_utf8_mbok.

(* "for a set of patterns the reported index is that of the alternative that matched", without the hypothesis rset_shape:
   for EVERY set rset_make accepts (mbok: ASCII or valid UTF-8 patterns), whenever rset_find reports idx the match is a
   derivation through the wrapper group grp[idx] of alternative idx *)
Theorem C10_rset_index_semantic_all : forall res flg rs d line n fl idx g c,
  rset_make res flg = Ok (Some rs) -> mbok (rset_pattern res) ->
  rset_find_d d rs line n fl = (Ok (idx, g), c) -> (0 <= idx)%Z ->
  let eflg := Z.lor REG_NEWLINE (Z.lor (if has fl RE_NOTBOL then REG_NOTBOL else 0%Z) (if has fl RE_NOTEOL then REG_NOTEOL else 0%Z)) in
  let f := Z.lor (rs_cflg rs) eflg in
  let G := Z.to_nat (nth (Z.to_nat idx) (firstn (rs_n rs) (rs_grp rs)) (-1)%Z) in
  exists body x p s2 r,
    tree (rs_prog rs) = NGrp body 1 1 1 /\ In (G, x) (wrappers body) /\
    In p (tried line (length line + 2) 0 0) /\
    M st (atom_step f line) mark_step (RGrp G (tr x)) (mark_step 2 (mark_step 0 (init p))) s2 /\
    r = mark_step 1 (mark_step 3 s2) /\
    regexec_d d (rs_prog rs) (rs_cflg rs) line (rs_grpcnt rs) eflg = (Ok (Some (psub_of (snd r) (rs_grpcnt rs))), c).
Proof. exact rset_index_semantic_all. Qed.
Print Assumptions C10_rset_index_semantic_all.

(* the documented backtracking depth is a constant of the specification; the engine's limit is generated *)
Theorem C10_documented_depth : (256 <= NDEPT)%Z.
Proof. exact documented_depth. Qed.
Print Assumptions C10_documented_depth.

Example C10_nonvacuous : exists r, fst (rset_find_d 300 r [120; 97; 98; 10]%N 2 0%Z) = Ok (0%Z, [(1%Z, 3%Z); ((-1)%Z, (-1)%Z)])
  /\ rset_make [Some [97; 98; 42]%N] 0%Z = Ok (Some r).
Proof. eexists. split; [|vm_compute; reflexivity]. vm_compute. reflexivity. Qed.

(* ---- the matcher is a function of (pattern set, flags, line): no state survives between calls ------------------------
   regex.c keeps one writable file-scope variable, the flag re_bad (ReStateDefs.v lists every file-scope variable of
   regex.c, rset.c, rstr.c).  ReStateDefs.v threads it through rset_make -> regcomp -> the parser and through whole
   processes: `session ops [] st` runs any interleaving of rset_make (OMake, result stored in the next slot), bare
   regcomp (OComp) and rset_find on an earlier slot (OFind), starting with the flag at st.
   For EVERY list of pattern sets and every initial flag, rset_make answers call by call as the pure function: *)
From NV Require Import ReStateDefs ReStateProps.
Theorem C10_rset_make_seq_pure : forall sets st,
  fst (rset_make_seq sets st) = map (fun a => rset_make (fst a) (snd a)) sets.
Proof. exact rset_make_seq_pure. Qed.
Print Assumptions C10_rset_make_seq_pure.

(* for EVERY operation list: the observations of the process are those computed from the pure functions *)
Theorem C10_session_is_pure : forall ops st, fst (session ops [] st) = session_pure ops [].
Proof. exact session_is_pure. Qed.
Print Assumptions C10_session_is_pure.

(* in particular every match request answers as rset_find on the pure compilation of the set its slot was made from,
   whatever was compiled (and rejected) before, in between and after: all theorems above about rset_make / rset_find
   (soundness, leftmost, priority, group spans, index) apply to every call of a process *)
Theorem C10_session_find_is_function : forall ops st i k line n flg,
  nth_error ops i = Some (OFind k line n flg) ->
  nth_error (fst (session ops [] st)) i =
  Some (match nth_error (makes (firstn i ops)) k with
        | Some (res, cflg) => find_obs depth (Some (rset_make res cflg)) line n flg
        | None => BNone
        end).
Proof. exact session_find_is_function. Qed.
Print Assumptions C10_session_find_is_function.

(* a rejected set, then a valid one, then a match with it, starting from a stale flag *)
Example C10_session_nonvacuous :
  exists rs c, fst (session [OMake [Some [97; 123; 50; 44; 49; 125]%N] 0%Z; OMake [Some [97; 43; 98]%N] 0%Z;
                             OFind 0 [97; 98; 10]%N 2 0%Z; OFind 1 [102; 97; 97; 98; 10]%N 2 0%Z] [] true)
    = [BMake (Ok None); BMake (Ok (Some rs)); BNone; BFind (Ok (0%Z, [(1%Z, 4%Z); ((-1)%Z, (-1)%Z)]), c)].
Proof. eexists. eexists. vm_compute. reflexivity. Qed.

(* ---- re_groupcount of rset.c (translated: GenCFuncs.F_re_groupcount) is the model RsetDefs.gcount, coq/TrRset.v ----------
   The theorems C10_rset_index_all / C10_accepted_shape above speak about the hand-written re_groupcount_opt; this one ties
   that model to the C TEXT: tools/c2clite.py prints clang's AST of re_groupcount as a CLite term (CLite.v fixes what the
   term means: checked loads, signed overflow an error, loops on fuel), and for EVERY NUL-free pattern string in memory
   (any bytes 1..255, the length inside int) running the term returns the model's count, or -1 where the model says None
   (a lone backslash at the end, an unclosed bracket expression, an unmatched ')' or an unclosed '('); the memory is
   unchanged; every load was inside the block of the string (bytes + terminator) -- a load outside is the error EOob, not a
   value -- and neither n++ / dep++ / --dep overflows.  The bracket expression is skipped with the statements of regex.c's
   brk_len (fix f534655), the escape rule is that of fix 3139e7f.
   (CLite is only Required, not Imported: its Ok / bind / do-notation would shadow ReSyntax's.) *)
From NV Require CLite CLiteProps GenCFuncs TrRset.
Theorem C10_tr_re_groupcount : forall m b (s : bytes) d fuel,
  CLiteProps.str_at m b s -> nonul s -> (Z.of_nat (length s) <= 2147483647)%Z -> length s < fuel ->
  CLite.callf GenCFuncs.cprog fuel (S d) GenCFuncs.F_re_groupcount [CLite.VPtr b 0] m
  = CLite.Ok (CLite.VInt (match re_groupcount_opt s with Some n => Z.of_nat n | None => (-1)%Z end), m).
Proof. exact TrRset.tr_re_groupcount. Qed.
Print Assumptions C10_tr_re_groupcount.

(* non-vacuity: the hypotheses hold and the translated function RUNS (vm_compute of the CLite interpreter) on the inputs of
   the two fixes:  [a[*](x)  (f534655: the bracket expression ends at the first ']', one group follows),  a)(b  (3139e7f: the
   ')' would close the wrapper group: -1),  \(  (an escaped parenthesis is not a group: 0),  and on a lone backslash (-1);
   one load past the terminator is the error EOob *)
Definition C10_tr_mem (s : bytes) : CLite.mem := [CLite.cstr_block (CLiteProps.zb s)].
Example C10_tr_nonvacuous :
  let p1 := [91; 97; 91; 42; 93; 40; 120; 41]%N in let p2 := [97; 41; 40; 98]%N in let p3 := [92; 40]%N in let p4 := [92]%N in
  CLiteProps.str_at (C10_tr_mem p1) 0 p1 /\ nonul p1 /\ nonul p2 /\ nonul p3 /\
  CLite.callf GenCFuncs.cprog 20 1 GenCFuncs.F_re_groupcount [CLite.VPtr 0 0] (C10_tr_mem p1) = CLite.Ok (CLite.VInt 1, C10_tr_mem p1) /\
  re_groupcount_opt p1 = Some 1 /\
  CLite.callf GenCFuncs.cprog 20 1 GenCFuncs.F_re_groupcount [CLite.VPtr 0 0] (C10_tr_mem p2) = CLite.Ok (CLite.VInt (-1), C10_tr_mem p2) /\
  re_groupcount_opt p2 = None /\
  CLite.callf GenCFuncs.cprog 20 1 GenCFuncs.F_re_groupcount [CLite.VPtr 0 0] (C10_tr_mem p3) = CLite.Ok (CLite.VInt 0, C10_tr_mem p3) /\
  re_groupcount_opt p3 = Some 0 /\
  CLite.callf GenCFuncs.cprog 20 1 GenCFuncs.F_re_groupcount [CLite.VPtr 0 0] (C10_tr_mem p4) = CLite.Ok (CLite.VInt (-1), C10_tr_mem p4) /\
  re_groupcount_opt p4 = None /\
  CLite.callf GenCFuncs.cprog 20 1 GenCFuncs.F_re_groupcount [CLite.VPtr 0 10] (C10_tr_mem p1) = CLite.Err CLite.EOob.
Proof.
  cbv zeta. split; [reflexivity|]. split; [repeat constructor|]. split; [repeat constructor|]. split; [repeat constructor|].
  repeat split; vm_compute; reflexivity.
Qed.

(* ---- the matcher itself: re_rec, re_recmatch and regexec of regex.c (translated: GenCFuncs.F_re_rec, F_re_recmatch, F_regexec) ARE the
   machine ReVM.rec, ReVM.re_recmatch and the start-position loop ReVM.re_loop of this file's theorems, coq/TrRegexRec.v --------------
   C10_vm_sound / C10_vm_first / C10_sound / C10_leftmost_priority above speak about the hand-written machine `rec d` (depth counter, loop
   fuel, fork = recursive call on the first target, then the second) and `re_loop`.  The three theorems below tie that machine to the C
   TEXT: tools/c2clite.py prints clang's AST of the three functions as CLite terms; for EVERY program in memory, EVERY line, state, flag
   word and depth, running the term gives what the model says.
   Memory layout (as c2clite.py lays structs out, one value per cell): struct regex = block bre of 3 cells (p, n, flg); the array re->p =
   block bp, 6 cells per struct rinst (ra.ra, ra.s, ri, a1, a2, mark), atom strings NUL-terminated in blocks of their own
   (TrRegexRec.prog_at); struct rstate = block br of 133 cells (s, o, mark[128], pc, flg, dep) = TrRegexRec.rs_cells bl p marks pc flg dep;
   the line = a C string in block bl (str_at).  RI_FORK's `struct rstate base = *rs` is a malloc'd block of 133 cells + memcpy, `*rs = base`
   the memcpy back; the term never frees the saved blocks, so the memory after a call is the initial one with the state block replaced
   and the saved states appended (`upd m br R' ++ extra`, TrRegexRec.post).
   Results are read as: Found -> 0 with the model's final state (position, marks) in the state block; Fail -> 1.  The model's other two
   results (Abort = loop fuel |P|+1 exhausted, OobO = an atom read outside the line) are excluded by hypothesis: C11_terminates /
   C11_atom_in_bounds show they do not occur for programs of regcomp.  The N component (number of depth cuts) is NOT observed: c2clite
   parses regex.c WITHOUT -DNEATVI_VERIF, so the term has no re_verif_depthcut counter; `rs->dep >= NDEPT -> return 1` is in the term and
   corresponds to `rec 0 = (Fail, 1)` (TrRegexRec.rec_spec_0).
   Call depth of the CLite interpreter: 7 + model depth (six levels below re_rec for ratom_match -> brk_match -> brk_match -> uc_dec ->
   uc_len); loop fuel: more than |P| (the model's own bound per activation), than the line, than every atom string + 13, cls_fuel. *)
From NV Require CLiteTac TrRegexRec.
Theorem C10_tr_re_rec : forall bre bp br bl P cflg flg (line : bytes) fuel,
  br <> bre -> br <> bp -> br <> bl -> length GenCFuncs.cglobals <= br -> CLiteProps.bytes_lt256 line ->
  (-2147483648 <= flg <= 2147483647)%Z -> length line < fuel -> TrRegexBrk.cls_fuel <= fuel ->
  (Z.of_nat (length line) < 2147483647)%Z -> (Z.of_nat (length P) < 2147483647)%Z -> TrRegexRec.prog_closed P -> length P < fuel ->
  forall dm e, dm <= 256 ->
  forall m pc p marks o c,
  TrRegexRec.frame bre bp br bl P cflg line fuel m -> pc < length P ->
  nth_error m br = Some (TrRegexRec.rs_cells bl p marks (Z.of_nat pc) flg (256 - Z.of_nat dm)%Z) -> length marks = 128 -> p <= length line ->
  rec st (atom_step flg line) mark_step P dm pc (p, marks) = (o, c) ->
  match o with Found _ _ | Fail => True | _ => False end ->
  exists m', CLite.callf GenCFuncs.cprog fuel (S (S (S (S (S (S (S (dm + e))))))) ) GenCFuncs.F_re_rec [CLite.VPtr bre 0; CLite.VPtr br 0] m
             = CLite.Ok (CLite.VInt (match o with Found _ _ => 0 | _ => 1 end)%Z, m') /\
    exists extra p' marks' pc' dep', m' = CLiteProps.upd m br (TrRegexRec.rs_cells bl p' marks' pc' flg dep') ++ extra /\ length marks' = 128 /\
      match o with Found _ s => s = (p', marks') | _ => True end.
Proof. exact TrRegexRec.tr_re_rec. Qed.
Print Assumptions C10_tr_re_rec.

(* re_recmatch: pc and dep reset, the marks below 2 * nsub set to -1 (the others keep what the previous start position left: they do not
   influence the run and are not read -- TrRegexRec.rec_agree), re_rec at depth NDEPT, on success psub[i] = (mark[2i], mark[2i+1]) or
   (-1, -1) beyond the mark array: the block of psub holds psub_of of the model's final marks *)
Theorem C10_tr_re_recmatch : forall bre bp br bl bps P cflg flg (line : bytes) fuel,
  br <> bre -> br <> bp -> br <> bl -> length GenCFuncs.cglobals <= br -> CLiteProps.bytes_lt256 line ->
  (-2147483648 <= flg <= 2147483647)%Z -> length line < fuel -> TrRegexBrk.cls_fuel <= fuel ->
  (Z.of_nat (length line) < 2147483647)%Z -> (Z.of_nat (length P) < 2147483647)%Z -> TrRegexRec.prog_closed P -> length P < fuel ->
  bps <> br -> 0 < length P -> 128 < fuel ->
  forall m p marks pc0 dep0 nsub pcells e o c,
  TrRegexRec.frame bre bp br bl P cflg line fuel m -> nth_error m br = Some (TrRegexRec.rs_cells bl p marks pc0 flg dep0) -> length marks = 128 ->
  p <= length line -> nth_error m bps = Some pcells -> (0 <= nsub)%Z -> (nsub * 2 <= 2147483647)%Z ->
  2 * Z.to_nat nsub <= length pcells -> Z.to_nat nsub < fuel ->
  re_recmatch 256 P flg line p = (o, c) -> match o with Found _ _ | Fail => True | _ => False end ->
  exists m', CLite.callf GenCFuncs.cprog fuel (S (S (S (S (S (S (S (S (256 + e))))))))) GenCFuncs.F_re_recmatch
               [CLite.VPtr bre 0; CLite.VPtr br 0; CLite.VInt nsub; CLite.VPtr bps 0] m
             = CLite.Ok (CLite.VInt (match o with Found _ _ => 0 | _ => 1 end)%Z, m') /\
  exists extra p' M' pc' dep', length M' = 128 /\
    match o with
    | Found _ r => p' = fst r /\ TrRegexRec.agree (Nat.min 128 (2 * Z.to_nat nsub)) (snd r) M' /\
        m' = CLiteProps.upd (CLiteProps.upd m br (TrRegexRec.rs_cells bl p' M' pc' flg dep') ++ extra) bps
               (CLiteTac.tab_block (psub_of (snd r) (Z.to_nat nsub)) ++ skipn (2 * Z.to_nat nsub) pcells)
    | _ => m' = CLiteProps.upd m br (TrRegexRec.rs_cells bl p' M' pc' flg dep') ++ extra
    end.
Proof. exact TrRegexRec.tr_re_recmatch. Qed.
Print Assumptions C10_tr_re_recmatch.

(* regexec: whenever the model's start-position loop answers (Ok x), the translated regexec returns 0 / 1 accordingly and, on a match,
   has written psub_of (the model's final marks) into the caller's psub[] (nothing with REG_NOSUB); its local struct rstate (a malloc'd
   block, memset 0, rs.flg = re->flg | flg, rs.o = s) and the states saved by the forks stay behind as garbage blocks *)
Theorem C10_tr_regexec : forall bre bp bl bps bpreg P cflg eflg (line : bytes) fuel (m : CLite.mem) nsub pcells e x c,
  let flg := Z.lor cflg eflg in
  let ns := Z.to_nat (if negb (Z.land eflg 2 =? 0)%Z then 0%Z else nsub) in
  nth_error m bpreg = Some [CLite.VPtr bre 0] ->
  TrRegexRec.prog_at m (length m) fuel bre bp P cflg -> CLiteProps.str_at m bl line -> CLiteTac.globals_at m -> nth_error m bps = Some pcells ->
  CLiteProps.bytes_lt256 line -> (-2147483648 <= flg <= 2147483647)%Z -> (-2147483648 <= cflg <= 2147483647)%Z ->
  (-2147483648 <= eflg <= 2147483647)%Z ->
  length line + 2 <= fuel -> TrRegexBrk.cls_fuel <= fuel -> (Z.of_nat (length line) < 2147483647)%Z -> (Z.of_nat (length P) < 2147483647)%Z ->
  TrRegexRec.prog_closed P -> length P < fuel -> 0 < length P -> 128 < fuel ->
  (0 <= nsub)%Z -> (nsub * 2 <= 2147483647)%Z -> 2 * Z.to_nat nsub <= length pcells -> Z.to_nat nsub < fuel ->
  re_loop 256 P flg line (length line + 2) 0 0 = (Ok x, c) ->
  exists m' blk extra,
    CLite.callf GenCFuncs.cprog fuel (S (S (S (S (S (S (S (S (S (256 + e)))))))))) GenCFuncs.F_regexec
      [CLite.VPtr bpreg 0; CLite.VPtr bl 0; CLite.VInt nsub; CLite.VPtr bps 0; CLite.VInt eflg] m
    = CLite.Ok (CLite.VInt (match x with Some _ => 0 | None => 1 end)%Z, m') /\
    m' = match x with
         | Some r => CLiteProps.upd m bps (CLiteTac.tab_block (psub_of (snd r) ns) ++ skipn (2 * ns) pcells) ++ blk :: extra
         | None => m ++ blk :: extra
         end.
Proof. exact TrRegexRec.tr_regexec. Qed.
Print Assumptions C10_tr_regexec.

(* the same for the model's regexec_d at the engine's depth, for a program with the static shape regcomp guarantees (C11_wf_prog) *)
Theorem C10_tr_regexec_model : forall bre bp bl bps bpreg (p : prog) cflg eflg (line : bytes) fuel (m : CLite.mem) nsub pcells e res c,
  nth_error m bpreg = Some [CLite.VPtr bre 0] ->
  TrRegexRec.prog_at m (length m) fuel bre bp (code p) cflg -> CLiteProps.str_at m bl line -> CLiteTac.globals_at m -> nth_error m bps = Some pcells ->
  CLiteProps.bytes_lt256 line -> (-2147483648 <= Z.lor cflg eflg <= 2147483647)%Z -> (-2147483648 <= cflg <= 2147483647)%Z ->
  (-2147483648 <= eflg <= 2147483647)%Z ->
  length line + 2 <= fuel -> TrRegexBrk.cls_fuel <= fuel -> (Z.of_nat (length line) < 2147483647)%Z -> (Z.of_nat (length (code p)) < 2147483647)%Z ->
  prog_wf (code p) -> length (code p) < fuel -> 128 < fuel ->
  (0 <= nsub)%Z -> (nsub * 2 <= 2147483647)%Z -> 2 * Z.to_nat nsub <= length pcells -> Z.to_nat nsub < fuel ->
  Z.land eflg 2 = 0%Z ->
  regexec_d 256 p cflg line (Z.to_nat nsub) eflg = (Ok res, c) ->
  exists m' blk extra,
    CLite.callf GenCFuncs.cprog fuel (S (S (S (S (S (S (S (S (S (256 + e)))))))))) GenCFuncs.F_regexec
      [CLite.VPtr bpreg 0; CLite.VPtr bl 0; CLite.VInt nsub; CLite.VPtr bps 0; CLite.VInt eflg] m
    = CLite.Ok (CLite.VInt (match res with Some _ => 0 | None => 1 end)%Z, m') /\
    m' = match res with
         | Some subs => CLiteProps.upd m bps (CLiteTac.tab_block subs ++ skipn (2 * Z.to_nat nsub) pcells) ++ blk :: extra
         | None => m ++ blk :: extra
         end.
Proof. exact TrRegexRec.tr_regexec_model. Qed.
Print Assumptions C10_tr_regexec_model.

(* non-vacuity: the program of `a*b` (what the model's regcomp emits: MARK 0; FORK 2 4; 'a'; FORK 2 4; 'b'; MARK 1; MATCH) laid out in
   memory behind the global blocks satisfies prog_at / frame, and the translated functions RUN on it (vm_compute of the CLite
   interpreter): re_rec from pc 0 on "aab" takes the choices the model takes and leaves s = line + 3, marks 0 and 3, three saved states;
   regexec finds (1, 4) in "xaab\n", nothing in "xaa"; too little call depth is the distinct error EFuel, a block that is too short for a
   struct rstate is EOob *)
Definition C10_rec_prog : list instr := [IMark 0; IFork 2 4; IAtom (AChr [97%N]); IFork 2 4; IAtom (AChr [98%N]); IMark 1; IMatch].
Definition C10_ri (ra : Z) (s : CLite.val) (ri a1 a2 mk : Z) : list CLite.val :=
  [CLite.VInt ra; s; CLite.VInt ri; CLite.VInt a1; CLite.VInt a2; CLite.VInt mk].
(* behind the G global blocks: G "a", G+1 "b", G+2 the program array, G+3 struct regex, G+4 the regex_t cell, G+5 the line, G+6 psub[2],
   G+7 a struct rstate at position 0 of the line with all marks -1 *)
Definition C10_G : nat := length GenCFuncs.cglobals.
Definition C10_rec_mem (line : list Z) : CLite.mem :=
  GenCFuncs.cglobals ++
  [CLite.cstr_block [97%Z]; CLite.cstr_block [98%Z];
   C10_ri 0 (CLite.VInt 0) 109 0 0 0 ++ C10_ri 0 (CLite.VInt 0) 102 2 4 0 ++ C10_ri 0 (CLite.VPtr C10_G 0) 0 0 0 0 ++
   C10_ri 0 (CLite.VInt 0) 102 2 4 0 ++ C10_ri 0 (CLite.VPtr (C10_G + 1) 0) 0 0 0 0 ++ C10_ri 0 (CLite.VInt 0) 109 0 0 1 ++ C10_ri 0 (CLite.VInt 0) 113 0 0 0;
   [CLite.VPtr (C10_G + 2) 0; CLite.VInt 7; CLite.VInt 0];
   [CLite.VPtr (C10_G + 3) 0];
   CLite.cstr_block line;
   [CLite.VInt 7; CLite.VInt 7; CLite.VInt 7; CLite.VInt 7];
   TrRegexRec.rs_cells (C10_G + 5) 0 (repeat (-1)%Z 128) 0 0 0].

Example C10_tr_rec_nonvacuous :
  regcomp [97; 42; 98]%N <> Ok None /\ (forall p, regcomp [97; 42; 98]%N = Ok (Some p) -> code p = C10_rec_prog) /\
  TrRegexRec.frame (C10_G + 3) (C10_G + 2) (C10_G + 7) (C10_G + 5) C10_rec_prog 0 [97; 97; 98]%N 200 (C10_rec_mem [97; 97; 98]%Z) /\
  TrRegexRec.prog_closed C10_rec_prog /\
  rec st (atom_step 0 [97; 97; 98]%N) mark_step C10_rec_prog 256 0 (0, repeat (-1)%Z 128)
    = (Found [false; false; true] (3, 0%Z :: 3%Z :: repeat (-1)%Z 126), 0%N) /\
  (exists m', CLite.callf GenCFuncs.cprog 200 270 GenCFuncs.F_re_rec [CLite.VPtr (C10_G + 3) 0; CLite.VPtr (C10_G + 7) 0] (C10_rec_mem [97; 97; 98]%Z)
              = CLite.Ok (CLite.VInt 0, m') /\
     nth_error m' (C10_G + 7) = Some (TrRegexRec.rs_cells (C10_G + 5) 3 (0%Z :: 3%Z :: repeat (-1)%Z 126) 6 0 2) /\
     length m' = length (C10_rec_mem [97; 97; 98]%Z) + 3) /\
  (exists m', CLite.callf GenCFuncs.cprog 200 270 GenCFuncs.F_regexec
                [CLite.VPtr (C10_G + 4) 0; CLite.VPtr (C10_G + 5) 0; CLite.VInt 2; CLite.VPtr (C10_G + 6) 0; CLite.VInt 0] (C10_rec_mem [120; 97; 97; 98; 10]%Z)
              = CLite.Ok (CLite.VInt 0, m') /\
     nth_error m' (C10_G + 6) = Some (CLiteTac.tab_block [(1, 4); (-1, -1)]%Z)) /\
  (exists m', CLite.callf GenCFuncs.cprog 200 270 GenCFuncs.F_regexec
                [CLite.VPtr (C10_G + 4) 0; CLite.VPtr (C10_G + 5) 0; CLite.VInt 2; CLite.VPtr (C10_G + 6) 0; CLite.VInt 0] (C10_rec_mem [120; 97; 97]%Z)
              = CLite.Ok (CLite.VInt 1, m') /\
     nth_error m' (C10_G + 6) = nth_error (C10_rec_mem [120; 97; 97]%Z) (C10_G + 6)) /\
  CLite.callf GenCFuncs.cprog 200 2 GenCFuncs.F_re_rec [CLite.VPtr (C10_G + 3) 0; CLite.VPtr (C10_G + 7) 0] (C10_rec_mem [97; 97; 98]%Z) = CLite.Err CLite.EFuel /\
  CLite.callf GenCFuncs.cprog 200 270 GenCFuncs.F_re_rec [CLite.VPtr (C10_G + 3) 0; CLite.VPtr (C10_G + 6) 0] (C10_rec_mem [97; 97; 98]%Z) = CLite.Err CLite.EOob.
Proof.
  split; [vm_compute; discriminate|]. split; [intros p H; vm_compute in H; injection H as <-; reflexivity|].
  split.
  { split; [|split; [vm_compute; reflexivity|split; [|vm_compute; repeat constructor]]].
    - eexists. split; [vm_compute; reflexivity|]. split; [vm_compute; reflexivity|]. intros k i Hk.
      do 7 (destruct k as [|k]; [injection Hk as <-; unfold TrRegexRec.instr_at; cbn [TrRegexRec.ri_code TrRegexAtom.ra_code TrRegexAtom.ra_str];
                                 repeat split; try (vm_compute; reflexivity); try (vm_compute; intros; discriminate);
                                 try (exists C10_G; repeat split; try (vm_compute; reflexivity); try (vm_compute; congruence); try (repeat constructor); intros sb E; discriminate);
                                 try (exists (C10_G + 1); repeat split; try (vm_compute; reflexivity); try (vm_compute; congruence); try (repeat constructor); intros sb E; discriminate)|]).
      destruct k; discriminate.
    - intros g blk Hn. unfold C10_rec_mem. rewrite nth_error_app1; [exact Hn|]. apply nth_error_Some. congruence. }
  split; [intros pc Hpc; do 7 (destruct pc as [|pc]; [vm_compute; repeat constructor|]); vm_compute in Hpc; exfalso; repeat apply le_S_n in Hpc; inversion Hpc|].
  split; [vm_compute; reflexivity|].
  split; [eexists; split; [vm_compute; reflexivity|]; split; vm_compute; reflexivity|].
  split; [eexists; split; [vm_compute; reflexivity|]; vm_compute; reflexivity|].
  split; [eexists; split; [vm_compute; reflexivity|]; vm_compute; reflexivity|].
  split; vm_compute; reflexivity.
Qed.

(* ---- the SET layer on the C text: rset_find and rset_make of rset.c (translated: GenCFuncs.F_rset_find, F_rset_make; whitelist
   tools/c2clite.d/96a_rsetfind.list) are RsetDefs.rset_find_d / rset_make, coq/TrRsetFind.v, TrRsetFindRx.v, TrRsetMake.v ---------------
   C10_rset_index_partial / C10_rset_index_all / C10_rset_index_semantic_all above speak about the hand-written rset_find_d and the tables
   of rset_make; the theorems below tie them to the C TEXT.
   Memory layout (c2clite: one value per cell): struct rset = block of 5 cells (regex_t regex = one pointer cell, n, grp, setgrpcnt, grpcnt);
   grp[] and setgrpcnt[] int arrays in blocks of their own; regmatch_t = 2 cells, subs = malloc(grpcnt * sizeof(subs[0])) a fresh block of
   2 * grpcnt cells (index length m); the caller's grps[] a block of at least 2 * n cells.

   C10_tr_rset_find -- "the reported index is that of the alternative that matched", RELATIVE to regexec: for EVERY struct rset in memory
   (tables inside subs[]: rset_tabs_ok), every line pointer, n, flag word, and EVERY answer of the one call
   regexec(&rs->regex, s, rs->grpcnt, subs, REG_NEWLINE | (RE_NOTBOL -> REG_NOTBOL) | (RE_NOTEOL -> REG_NOTEOL)) on the memory with the
   fresh subs block (regexec_ans: r == 0 and subs[] = grpcnt pairs of ints, or r != 0; older blocks unchanged): the translated rset_find
   returns the index the model picks from that answer (rset_answer = the body of rset_find_d behind its call of regexec_d:
   C10_rset_find_d_answer) -- the LAST i < n with grp[i] >= 0 and subs[grp[i]].rm_so >= 0 --, grps[] holds the groups of that alternative
   renumbered from 0 (-1 beyond setgrpcnt[set] + 1), subs is freed (its block is empty afterwards: a later access is EOob), every other block
   is as regexec left it; every load and store is inside its block, no int operation overflows. *)
From NV Require CLiteExt TrRsetFind TrRsetFindRx TrRsetMake.
From Coq Require Import Lia.
Theorem C10_rset_find_d_answer : forall d (rs : rset) line n flg,
  rset_find_d d rs line n flg =
  if Nat.leb (rs_grpcnt rs) 2 then (Ok ((-1)%Z, []), 0%N)
  else match regexec_d d (rs_prog rs) (rs_cflg rs) line (rs_grpcnt rs) (TrRsetFind.eflg_of flg) with
       | (Ok osubs, c) => (Ok (TrRsetFind.rset_answer (rs_n rs) (rs_grp rs) (rs_setgrpcnt rs) osubs n), c)
       | (OOB w, c) => (OOB w, c)
       | (NoFuel, c) => (NoFuel, c)
       end.
Proof. exact TrRsetFind.rset_find_d_answer. Qed.
Print Assumptions C10_rset_find_d_answer.

Theorem C10_tr_rset_find : forall (m : CLite.mem) rb bre bg bsg gb n_rs grpcnt grp sgc restg rests bl o n flg (gold : CLite.block) D fuel r osubs m2,
  nth_error m rb = Some [CLite.VPtr bre 0; CLite.VInt n_rs; CLite.VPtr bg 0; CLite.VPtr bsg 0; CLite.VInt grpcnt] ->
  nth_error m bg = Some (map CLite.VInt grp ++ restg) -> nth_error m bsg = Some (map CLite.VInt (map Z.of_nat sgc) ++ rests) ->
  nth_error m gb = Some gold -> gb <> rb -> gb <> bg -> gb <> bsg ->
  TrRsetFind.rset_tabs_ok n_rs grpcnt grp sgc -> (2 < grpcnt <= 2147483647)%Z ->
  (n * 2 <= 2147483647)%Z -> (grpcnt + n <= 2147483647)%Z -> 2 * Z.to_nat n <= length gold ->
  Z.to_nat n_rs < fuel -> Z.to_nat n < fuel ->
  let sb := length m in
  CLite.callf GenCFuncs.cprog fuel D GenCFuncs.F_regexec
    [CLite.VPtr rb 0; CLite.VPtr bl o; CLite.VInt grpcnt; CLite.VPtr sb 0; CLite.VInt (TrRsetFind.eflg_of flg)]
    (m ++ [repeat CLite.VUndef (Z.to_nat (2 * grpcnt))]) = CLite.Ok (CLite.VInt r, m2) ->
  TrRsetFind.regexec_ans m m2 sb grpcnt r osubs ->
  let R := TrRsetFind.rset_answer (Z.to_nat n_rs) grp sgc osubs (Z.to_nat n) in
  CLite.callf GenCFuncs.cprog fuel (S D) GenCFuncs.F_rset_find [CLite.VPtr rb 0; CLite.VPtr bl o; CLite.VInt n; CLite.VPtr gb 0; CLite.VInt flg] m
  = CLite.Ok (CLite.VInt (fst R),
              CLiteProps.upd (if (fst R <? 0)%Z then m2 else CLiteProps.upd m2 gb (CLiteTac.tab_block (snd R) ++ skipn (2 * Z.to_nat n) gold)) sb []).
Proof. exact TrRsetFind.tr_rset_find_rel. Qed.
Print Assumptions C10_tr_rset_find.

(* the empty set (rs->grpcnt <= 2): -1, nothing allocated, regexec not called *)
Theorem C10_tr_rset_find_empty : forall (m : CLite.mem) rb (blk : CLite.block) grpcnt sv nv gpv flg d fuel,
  nth_error m rb = Some blk -> nth_error blk 4 = Some (CLite.VInt grpcnt) -> (-2147483648 <= grpcnt <= 2)%Z ->
  CLite.callf GenCFuncs.cprog fuel (S d) GenCFuncs.F_rset_find [CLite.VPtr rb 0; sv; nv; gpv; CLite.VInt flg] m = CLite.Ok (CLite.VInt (-1), m).
Proof. exact TrRsetFind.tr_rset_find_empty. Qed.
Print Assumptions C10_tr_rset_find_empty.

(* composed with C10_tr_regexec_model (the translated regexec = regexec_d 256): UNCONDITIONALLY in the answer of regexec.  For a set of the
   model in memory (TrRsetFindRx.rset_at: the struct, grp[] = rs_grp, setgrpcnt[] = rs_setgrpcnt, the regex_t pointing to the compiled program
   laid out as TrRegexRec.prog_at says), its tables inside subs[] (C10_rset_make_tabs_ok: true for every set rset_make accepts), a program with
   the static shape regcomp guarantees (prog_wf), the line a C string at the start of its block: whenever the model answers (Ok (idx, g)),
   the translated rset_find returns idx, grps[] holds g (the first 2 * n cells; the block is untouched when idx < 0), the block of subs[] is
   freed, every other block that existed at the call is unchanged (regexec's local state and saved states stay behind as garbage blocks). *)
Theorem C10_tr_rset_find_model : forall (m : CLite.mem) fuel rb bre bp bg bsg gb bl (rs : rset) rests (line : bytes) n flg (gold : CLite.block) e idx g c,
  TrRsetFindRx.rset_at m fuel rb bre bp bg bsg rs rests ->
  TrRsetFind.rset_tabs_ok (Z.of_nat (rs_n rs)) (Z.of_nat (rs_grpcnt rs)) (rs_grp rs) (rs_setgrpcnt rs) ->
  CLiteProps.str_at m bl line -> CLiteTac.globals_at m -> nth_error m gb = Some gold -> gb <> rb -> gb <> bg -> gb <> bsg ->
  CLiteProps.bytes_lt256 line -> (-2147483648 <= rs_cflg rs <= 2147483647)%Z ->
  (-2147483648 <= Z.lor (rs_cflg rs) (TrRsetFind.eflg_of flg) <= 2147483647)%Z ->
  (Z.of_nat (rs_grpcnt rs) <= 1073741823)%Z -> (n * 2 <= 2147483647)%Z -> (Z.of_nat (rs_grpcnt rs) + n <= 2147483647)%Z ->
  2 * Z.to_nat n <= length gold ->
  length line + 2 <= fuel -> TrRegexBrk.cls_fuel <= fuel -> (Z.of_nat (length line) < 2147483647)%Z ->
  (Z.of_nat (length (code (rs_prog rs))) < 2147483647)%Z -> prog_wf (code (rs_prog rs)) -> length (code (rs_prog rs)) < fuel ->
  128 < fuel -> rs_grpcnt rs < fuel -> rs_n rs < fuel -> Z.to_nat n < fuel ->
  rset_find_d 256 rs line (Z.to_nat n) flg = (Ok (idx, g), c) ->
  exists m', CLite.callf GenCFuncs.cprog fuel (S (S (S (S (S (S (S (S (S (S (256 + e))))))))))) GenCFuncs.F_rset_find
               [CLite.VPtr rb 0; CLite.VPtr bl 0; CLite.VInt n; CLite.VPtr gb 0; CLite.VInt flg] m = CLite.Ok (CLite.VInt idx, m') /\
    nth_error m' gb = Some (if (idx <? 0)%Z then gold else CLiteTac.tab_block g ++ skipn (2 * Z.to_nat n) gold) /\
    (2 < rs_grpcnt rs -> nth_error m' (length m) = Some []) /\
    forall b, b < length m -> b <> gb -> nth_error m' b = nth_error m b.
Proof. exact TrRsetFindRx.tr_rset_find_model. Qed.
Print Assumptions C10_tr_rset_find_model.

Theorem C10_rset_make_tabs_ok : forall res flg rs, rset_make res flg = Ok (Some rs) ->
  (Z.of_nat (length res) <= 2147483647)%Z -> (Z.of_nat (rs_grpcnt rs) <= 2147483647)%Z ->
  TrRsetFind.rset_tabs_ok (Z.of_nat (rs_n rs)) (Z.of_nat (rs_grpcnt rs)) (rs_grp rs) (rs_setgrpcnt rs) /\ 2 <= rs_grpcnt rs.
Proof. exact TrRsetFind.rset_make_tabs_ok. Qed.
Print Assumptions C10_rset_make_tabs_ok.

(* C10_tr_rset_make -- rset_make on the C text, RELATIVE to the oracle of regcomp (CLiteExt.callx, X_regcomp; regcomp itself is tied to
   its model in TrRegexComp*.v).  re[] = a block of n cells, NULL or pointers to NUL-free C strings (TrRsetMake.re_at).  For every set the
   MODEL's rset_make accepts: at the call of regcomp the memory M holds the wrapper STRING "(" "(p0)" "|" "(p1)" ... ")" = rset_pattern res,
   NUL-terminated inside its block (built with the translated sbuf.c: TrSbuf.v), the struct with n and grpcnt, grp[] = rs_grp rs (n + 1
   ints, grp[n] = grpcnt), setgrpcnt[] = rs_setgrpcnt rs (filled through the translated re_groupcount: C10_tr_re_groupcount) -- the tables of
   C10_rset_index_all --, and the compile flags are REG_EXTENDED | rs_cflg rs.  Whatever the oracle answers (it must leave grp[], setgrpcnt[],
   the sbuf and cells 1..4 of the struct alone): 0 -> the struct is returned and the sbuf (struct and data block) is freed; non-zero -> NULL,
   and grp[], setgrpcnt[], the struct, the sbuf are all freed. *)
Theorem C10_tr_rset_make : forall (ext : nat -> list CLite.val -> CLite.mem -> CLite.res (CLite.val * CLite.mem)) fuel d (m0 : CLite.mem) ba n flg res rs,
  (0 <= n < 2147483647)%Z -> TrRsetMake.re_at m0 ba res -> Forall (fun p : bytes => length p < fuel) (somes res) -> Z.of_nat (length res) = n ->
  (TrRsetMake.pats_total res + 4 < 500000000)%Z -> length res < fuel -> rset_make res flg = Ok (Some rs) ->
  let rsb := length m0 in let psb := S (length m0) in let gb := length m0 + 2 in let sgb := length m0 + 3 in
  exists M bd rest,
    nth_error M bd = Some (map CLite.VInt (CLiteProps.zb (rset_pattern res)) ++ CLite.VInt 0 :: rest) /\ length m0 + 4 <= bd /\
    nth_error M rsb = Some [CLite.VInt 0; CLite.VInt (Z.of_nat (rs_n rs)); CLite.VPtr gb 0; CLite.VPtr sgb 0; CLite.VInt (Z.of_nat (rs_grpcnt rs))] /\
    nth_error M gb = Some (map CLite.VInt (rs_grp rs)) /\
    nth_error M sgb = Some (map CLite.VInt (map Z.of_nat (rs_setgrpcnt rs)) ++ [CLite.VUndef]) /\
    TrRsetMake.cflg_of flg = Z.lor 1 (rs_cflg rs) /\
    (forall b', b' < length m0 -> nth_error M b' = nth_error m0 b') /\
    forall r M', ext GenCFuncs.X_regcomp [CLite.VPtr rsb 0; CLite.VPtr bd 0; CLite.VInt (TrRsetMake.cflg_of flg)] M = CLite.Ok (CLite.VInt r, M') ->
      nth_error M' gb = nth_error M gb -> nth_error M' sgb = nth_error M sgb -> nth_error M' psb = nth_error M psb ->
      nth_error M' bd = nth_error M bd ->
      (exists c0, nth_error M' rsb = Some [c0; CLite.VInt n; CLite.VPtr gb 0; CLite.VPtr sgb 0; CLite.VInt (Z.of_nat (rs_grpcnt rs))]) ->
      exists m', CLiteExt.callx ext GenCFuncs.cprog fuel (S (S (S (S d)))) GenCFuncs.F_rset_make [CLite.VInt n; CLite.VPtr ba 0; CLite.VInt flg] m0
                 = CLite.Ok ((if (r =? 0)%Z then CLite.VPtr rsb 0 else CLite.VInt 0), m') /\
        nth_error m' psb = Some [] /\ nth_error m' bd = Some [] /\
        if (r =? 0)%Z then forall b', b' <> psb -> b' <> bd -> nth_error m' b' = nth_error M' b'
        else nth_error m' rsb = Some [] /\ nth_error m' gb = Some [] /\ nth_error m' sgb = Some [] /\
             forall b', b' <> rsb -> b' <> gb -> b' <> sgb -> b' <> psb -> b' <> bd -> nth_error m' b' = nth_error M' b'.
Proof. exact TrRsetMake.tr_rset_make_model. Qed.
Print Assumptions C10_tr_rset_make.

(* a set with a pattern that is not self-contained (re_groupcount == -1: the model's rset_make answers Ok None without calling regcomp) is
   rejected WITHOUT calling regcomp -- the theorem holds for every oracle --, and everything rset_make allocated that is still live is freed:
   the struct, grp[], setgrpcnt[], the sbuf struct and its data block; the caller's blocks are unchanged *)
Theorem C10_tr_rset_make_rejects : forall (ext : nat -> list CLite.val -> CLite.mem -> CLite.res (CLite.val * CLite.mem)) fuel d (m0 : CLite.mem) ba n flg,
  (0 <= n < 2147483647)%Z -> forall res, TrRsetMake.re_at m0 ba res -> Forall (fun p : bytes => length p < fuel) (somes res) ->
  Z.of_nat (length res) = n -> (TrRsetMake.pats_total res + 4 < 500000000)%Z -> length res < fuel -> TrRsetMake.any_bad res = true ->
  exists m' bd, CLiteExt.callx ext GenCFuncs.cprog fuel (S (S (S (S d)))) GenCFuncs.F_rset_make [CLite.VInt n; CLite.VPtr ba 0; CLite.VInt flg] m0
                = CLite.Ok (CLite.VInt 0, m') /\
    nth_error m' (length m0) = Some [] /\ nth_error m' (length m0 + 2) = Some [] /\ nth_error m' (length m0 + 3) = Some [] /\
    nth_error m' (S (length m0)) = Some [] /\ length m0 + 4 <= bd /\ nth_error m' bd = Some [] /\
    forall b', b' < length m0 -> nth_error m' b' = nth_error m0 b'.
Proof. exact TrRsetMake.tr_rset_make_bad. Qed.
Print Assumptions C10_tr_rset_make_rejects.

(* non-vacuity: the translated functions RUN (vm_compute of the CLite interpreter).
   rset_find: the set {a, b} -- the program the model's regcomp emits for ((a)|(b)), grp = {2, 3, 4}, setgrpcnt = {0, 0}, grpcnt = 4 -- laid
   out behind the global blocks; on "xb\n" the translated rset_find (with the translated regexec under it) returns index 1 and grps =
   {1, 2, -1, -1}, on "ab\n" index 0 and {0, 1, -1, -1}, on "x\n" -1 with grps[] untouched; subs (the first block allocated) is freed each
   time; the model agrees.
   rset_make with a table oracle for regcomp (accepts, checks the wrapper string and the flags it is handed): re[] = {"a(b)", NULL, "c"} gives
   the string "((a(b))|(c))", grp = {2, -1, 4, 5}, setgrpcnt = {1, 0, 0}, grpcnt = 5, the sbuf freed; {"a)"} is rejected under callf (no
   oracle at all: regcomp is not reached) with all five blocks freed; without an oracle an acceptable set stops at regcomp: EShape. *)
Definition C10_set_mem (line : list Z) : CLite.mem :=
  GenCFuncs.cglobals ++
  [CLite.cstr_block [97%Z]; CLite.cstr_block [98%Z];
   C10_ri 0 (CLite.VInt 0) 109 0 0 0 ++ C10_ri 0 (CLite.VInt 0) 109 0 0 2 ++ C10_ri 0 (CLite.VInt 0) 102 3 7 0 ++ C10_ri 0 (CLite.VInt 0) 109 0 0 4 ++
   C10_ri 0 (CLite.VPtr C10_G 0) 0 0 0 0 ++ C10_ri 0 (CLite.VInt 0) 109 0 0 5 ++ C10_ri 0 (CLite.VInt 0) 106 10 0 0 ++ C10_ri 0 (CLite.VInt 0) 109 0 0 6 ++
   C10_ri 0 (CLite.VPtr (C10_G + 1) 0) 0 0 0 0 ++ C10_ri 0 (CLite.VInt 0) 109 0 0 7 ++ C10_ri 0 (CLite.VInt 0) 109 0 0 3 ++ C10_ri 0 (CLite.VInt 0) 109 0 0 1 ++
   C10_ri 0 (CLite.VInt 0) 113 0 0 0;
   [CLite.VPtr (C10_G + 2) 0; CLite.VInt 13; CLite.VInt 0];
   [CLite.VPtr (C10_G + 3) 0; CLite.VInt 2; CLite.VPtr (C10_G + 5) 0; CLite.VPtr (C10_G + 6) 0; CLite.VInt 4];
   [CLite.VInt 2; CLite.VInt 3; CLite.VInt 4]; [CLite.VInt 0; CLite.VInt 0; CLite.VUndef];
   CLite.cstr_block line; [CLite.VUndef; CLite.VUndef; CLite.VUndef; CLite.VUndef]].
Definition C10_set_run (line : list Z) : option (CLite.val * option CLite.block * option CLite.block) :=
  match CLite.callf GenCFuncs.cprog 200 280 GenCFuncs.F_rset_find
          [CLite.VPtr (C10_G + 4) 0; CLite.VPtr (C10_G + 7) 0; CLite.VInt 2; CLite.VPtr (C10_G + 8) 0; CLite.VInt 0] (C10_set_mem line) with
  | CLite.Ok (v, m') => Some (v, nth_error m' (C10_G + 8), nth_error m' (C10_G + 9))
  | CLite.Err _ => None
  end.
Definition C10_val_eqb (a b : CLite.val) : bool :=
  match a, b with
  | CLite.VInt x, CLite.VInt y => (x =? y)%Z
  | CLite.VPtr p x, CLite.VPtr q y => andb (Nat.eqb p q) (x =? y)%Z
  | CLite.VUndef, CLite.VUndef => true
  | _, _ => false
  end.
(* regcomp as a table: succeeds (0, memory untouched) when it is handed this wrapper string and these flags, any other call is an error *)
Definition C10_ext_regcomp (pat : list Z) (cflg : Z) : nat -> list CLite.val -> CLite.mem -> CLite.res (CLite.val * CLite.mem) :=
  fun f args m =>
    if Nat.eqb f GenCFuncs.X_regcomp then
      match args with
      | [CLite.VPtr _ _; CLite.VPtr bd 0%Z; CLite.VInt cf] =>
          match nth_error m bd with
          | Some blk => if andb (andb (forallb (fun ab => C10_val_eqb (fst ab) (snd ab))
                                                  (combine (firstn (S (length pat)) blk) (map CLite.VInt pat ++ [CLite.VInt 0])))
                                         (Nat.leb (S (length pat)) (length blk))) (cf =? cflg)%Z
                        then CLite.Ok (CLite.VInt 0, m) else CLite.Err CLite.EType
          | None => CLite.Err CLite.EOob
          end
      | _ => CLite.Err CLite.EShape
      end
    else CLite.Err CLite.EShape.
Definition C10_make_mem : CLite.mem :=
  GenCFuncs.cglobals ++ [CLite.cstr_block [97; 40; 98; 41]%Z; CLite.cstr_block [99%Z]; [CLite.VPtr C10_G 0; CLite.VInt 0; CLite.VPtr (C10_G + 1) 0]].
Example C10_tr_rset_nonvacuous :
  C10_set_run [120; 98; 10]%Z = Some (CLite.VInt 1, Some [CLite.VInt 1; CLite.VInt 2; CLite.VInt (-1); CLite.VInt (-1)], Some []) /\
  C10_set_run [97; 98; 10]%Z = Some (CLite.VInt 0, Some [CLite.VInt 0; CLite.VInt 1; CLite.VInt (-1); CLite.VInt (-1)], Some []) /\
  C10_set_run [120; 10]%Z = Some (CLite.VInt (-1), Some [CLite.VUndef; CLite.VUndef; CLite.VUndef; CLite.VUndef], Some []) /\
  (exists r, rset_make [Some [97%N]; Some [98%N]] 0%Z = Ok (Some r) /\ code (rs_prog r) =
     [IMark 0; IMark 2; IFork 3 7; IMark 4; IAtom (AChr [97%N]); IMark 5; IJump 10; IMark 6; IAtom (AChr [98%N]); IMark 7; IMark 3; IMark 1; IMatch] /\
     rs_grp r = [2; 3; 4]%Z /\ rs_setgrpcnt r = [0; 0] /\ rs_grpcnt r = 4 /\
     fst (rset_find_d 256 r [120; 98; 10]%N 2 0%Z) = Ok (1%Z, [(1, 2); (-1, -1)]%Z) /\
     fst (rset_find_d 256 r [120; 10]%N 2 0%Z) = Ok ((-1)%Z, []) /\
     TrRsetFind.rset_tabs_ok (Z.of_nat (rs_n r)) (Z.of_nat (rs_grpcnt r)) (rs_grp r) (rs_setgrpcnt r)) /\
  (match CLiteExt.callx (C10_ext_regcomp [40; 40; 97; 40; 98; 41; 41; 124; 40; 99; 41; 41]%Z 1) GenCFuncs.cprog 100 8 GenCFuncs.F_rset_make
           [CLite.VInt 3; CLite.VPtr (C10_G + 2) 0; CLite.VInt 0] C10_make_mem with
   | CLite.Ok (v, m') => Some (v, skipn (length C10_make_mem) m')
   | CLite.Err _ => None
   end = Some (CLite.VPtr (C10_G + 3) 0,
               [[CLite.VInt 0; CLite.VInt 3; CLite.VPtr (C10_G + 5) 0; CLite.VPtr (C10_G + 6) 0; CLite.VInt 5]; [];
                [CLite.VInt 2; CLite.VInt (-1); CLite.VInt 4; CLite.VInt 5]; [CLite.VInt 1; CLite.VInt 0; CLite.VInt 0; CLite.VUndef]; []])) /\
  rset_pattern [Some [97; 40; 98; 41]%N; None; Some [99%N]] = [40; 40; 97; 40; 98; 41; 41; 124; 40; 99; 41; 41]%N /\
  (match CLite.callf GenCFuncs.cprog 100 8 GenCFuncs.F_rset_make [CLite.VInt 1; CLite.VPtr (C10_G + 1) 0; CLite.VInt 0]
           (GenCFuncs.cglobals ++ [CLite.cstr_block [97; 41]%Z; [CLite.VPtr C10_G 0]]) with
   | CLite.Ok (v, m') => Some (v, skipn (C10_G + 2) m')
   | CLite.Err _ => None
   end = Some (CLite.VInt 0, [[]; []; []; []; []])) /\
  TrRsetMake.any_bad [Some [97; 41]%N] = true /\
  CLite.callf GenCFuncs.cprog 100 8 GenCFuncs.F_rset_make [CLite.VInt 3; CLite.VPtr (C10_G + 2) 0; CLite.VInt 0] C10_make_mem = CLite.Err CLite.EShape.
Proof.
  split; [vm_compute; reflexivity|]. split; [vm_compute; reflexivity|]. split; [vm_compute; reflexivity|].
  split.
  { eexists. split; [vm_compute; reflexivity|]. split; [vm_compute; reflexivity|]. split; [vm_compute; reflexivity|].
    split; [vm_compute; reflexivity|]. split; [vm_compute; reflexivity|]. split; [vm_compute; reflexivity|]. split; [vm_compute; reflexivity|].
    apply (TrRsetFind.rset_make_tabs_ok [Some [97%N]; Some [98%N]] 0%Z); [vm_compute; reflexivity|vm_compute; discriminate|vm_compute; discriminate]. }
  split; [vm_compute; reflexivity|]. split; [vm_compute; reflexivity|]. split; [vm_compute; reflexivity|]. split; vm_compute; reflexivity.
Qed.

(* ---- 2026-10-02: regcomp tied by translation (coq/TrRegexComp.v ... TrRegexCompile.v, statements C11_tr_* in Properties_C11.v) and composed
   with the matcher (coq/TrRegexRun.v): the program array that C10_tr_regexec_model ASSUMES (TrRegexRec.prog_at for the model's
   regcomp pattern) is PRODUCED by the translated regcomp. *)
From NV Require TrRegexComp TrRegexParse TrRegexEmit2 TrRegexCompile TrRegexRun.

(* what regcomp leaves in memory (TrRegexCompile.compiled: *preg -> struct regex -> the array whose cells hold P, C11_tr_regcomp) is a
   program in the sense of the matcher theorems *)
Theorem C10_tr_regcomp_prog_at : forall (m' : CLite.mem) (bpreg : nat) (cflg : Z) (P : list instr) (lo : nat) (pat : bytes) (fuel : nat),
  TrRegexCompile.compiled m' bpreg cflg P lo -> Forall (TrRegexRun.instr_ok pat) P ->
  length pat + 13 <= fuel -> (Z.of_nat (length pat) < 2147483647)%Z ->
  exists bre bp, nth_error m' bpreg = Some [CLite.VPtr bre 0] /\ TrRegexRec.prog_at m' (length m') fuel bre bp P cflg.
Proof. exact TrRegexRun.compiled_prog_at. Qed.
Print Assumptions C10_tr_regcomp_prog_at.

(* regcomp followed by regexec on the translated C text = the model's regcomp + regexec_d 256: for EVERY pattern the model accepts,
   every previous value of the static flag re_bad, every line and every psub[] table in memory.  globals_but_bad: the global blocks
   (brk_classes, the string literals) are where the translator put them, re_bad may hold anything. *)
Theorem C10_tr_regcomp_regexec : forall (m : CLite.mem) (bl : nat) (pat : bytes) (bpreg : nat) (pv : CLite.val) (cflg : Z) (st0 : bool) (fuel bln : nat)
    (line : bytes) (bps : nat) (pcells : CLite.block) (nsub eflg : Z) (e : nat) (p : prog) (res : option (list (Z * Z))) (c : N),
  CLiteProps.str_at m bl pat -> nonul pat -> nth_error m bpreg = Some [pv] -> TrRegexParse.bad_at m st0 -> TrRegexRun.globals_but_bad m ->
  bl <> GenCFuncs.G_re_bad -> length GenCFuncs.cglobals <= bpreg -> TrRegexComp.i32 cflg -> (Z.of_nat (length pat) < 1073741820)%Z ->
  length pat + 13 <= fuel -> 130 < fuel ->
  CLiteProps.str_at m bln line -> bln <> bpreg -> bln <> GenCFuncs.G_re_bad -> nth_error m bps = Some pcells -> bps <> bpreg -> bps <> GenCFuncs.G_re_bad ->
  CLiteProps.bytes_lt256 line -> (-2147483648 <= Z.lor cflg eflg <= 2147483647)%Z -> (-2147483648 <= eflg <= 2147483647)%Z ->
  length line + 2 <= fuel -> TrRegexBrk.cls_fuel <= fuel -> (Z.of_nat (length line) < 2147483647)%Z ->
  length (code p) < fuel ->
  (0 <= nsub)%Z -> (nsub * 2 <= 2147483647)%Z -> 2 * Z.to_nat nsub <= length pcells -> Z.to_nat nsub < fuel -> Z.land eflg 2 = 0%Z ->
  regcomp pat = Ok (Some p) ->
  regexec_d 256 p cflg line (Z.to_nat nsub) eflg = (Ok res, c) ->
  exists m1 m2 blk extra,
    CLite.callf GenCFuncs.cprog fuel (4 * length pat + 12) GenCFuncs.F_regcomp [CLite.VPtr bpreg 0; CLite.VPtr bl 0; CLite.VInt cflg] m = CLite.Ok (CLite.VInt 0, m1) /\
    CLite.callf GenCFuncs.cprog fuel (S (S (S (S (S (S (S (S (S (256 + e)))))))))) GenCFuncs.F_regexec
      [CLite.VPtr bpreg 0; CLite.VPtr bln 0; CLite.VInt nsub; CLite.VPtr bps 0; CLite.VInt eflg] m1
    = CLite.Ok (CLite.VInt (match res with Some _ => 0 | None => 1 end)%Z, m2) /\
    m2 = match res with
         | Some subs => CLiteProps.upd m1 bps (CLiteTac.tab_block subs ++ skipn (2 * Z.to_nat nsub) pcells) ++ blk :: extra
         | None => m1 ++ blk :: extra
         end.
Proof. exact TrRegexRun.tr_regcomp_regexec. Qed.
Print Assumptions C10_tr_regcomp_regexec.

(* non-vacuity: the translated regcomp RUNS on "a{2,3}(b|c)*" inside Coq, then the translated regexec on a line; the results are the
   model's.  A malformed pattern ("a{3,2}(b)") is rejected with re_bad = 1 and every allocated block freed again. *)
Definition C10_rc_G : nat := length GenCFuncs.cglobals.
Definition C10_rc_pat : list Z := [97; 123; 50; 44; 51; 125; 40; 98; 124; 99; 41; 42]%Z.
Definition C10_rc_mem (line : list Z) : CLite.mem :=
  GenCFuncs.cglobals ++ [CLite.cstr_block C10_rc_pat; [CLite.VInt 0]; CLite.cstr_block line; repeat CLite.VUndef 4].
Definition C10_rc_run (line : list Z) : option (CLite.val * CLite.val * option CLite.block) :=
  match CLite.callf GenCFuncs.cprog 400 100 GenCFuncs.F_regcomp [CLite.VPtr (C10_rc_G + 1) 0; CLite.VPtr C10_rc_G 0; CLite.VInt 0] (C10_rc_mem line) with
  | CLite.Ok (v, m1) =>
      match CLite.callf GenCFuncs.cprog 400 300 GenCFuncs.F_regexec
              [CLite.VPtr (C10_rc_G + 1) 0; CLite.VPtr (C10_rc_G + 2) 0; CLite.VInt 2; CLite.VPtr (C10_rc_G + 3) 0; CLite.VInt 0] m1 with
      | CLite.Ok (w, m2) => Some (v, w, nth_error m2 (C10_rc_G + 3))
      | CLite.Err _ => None
      end
  | CLite.Err _ => None
  end.
Definition C10_rc_reject (p : list Z) : option (CLite.val * option CLite.block * list nat) :=
  match CLite.callf GenCFuncs.cprog 400 100 GenCFuncs.F_regcomp [CLite.VPtr (C10_rc_G + 1) 0; CLite.VPtr C10_rc_G 0; CLite.VInt 0]
          (GenCFuncs.cglobals ++ [CLite.cstr_block p; [CLite.VInt 0]]) with
  | CLite.Ok (v, m1) => Some (v, nth_error m1 GenCFuncs.G_re_bad, map (@length CLite.val) (skipn (C10_rc_G + 2) m1))
  | CLite.Err _ => None
  end.
Example C10_tr_regcomp_nonvacuous :
  C10_rc_run [120; 97; 97; 97; 98; 99; 99; 100; 10]%Z = Some (CLite.VInt 0, CLite.VInt 0, Some [CLite.VInt 1; CLite.VInt 7; CLite.VInt 6; CLite.VInt 7]) /\
  C10_rc_run [97; 97; 10]%Z = Some (CLite.VInt 0, CLite.VInt 0, Some [CLite.VInt 0; CLite.VInt 2; CLite.VInt (-1); CLite.VInt (-1)]) /\
  C10_rc_run [97; 98; 10]%Z = Some (CLite.VInt 0, CLite.VInt 1, Some [CLite.VUndef; CLite.VUndef; CLite.VUndef; CLite.VUndef]) /\
  (exists p, regcomp [97; 123; 50; 44; 51; 125; 40; 98; 124; 99; 41; 42]%N = Ok (Some p) /\
     code p = [IMark 0; IAtom (AChr [97%N]); IAtom (AChr [97%N]); IFork 4 5; IAtom (AChr [97%N]); IFork 6 13; IMark 2; IFork 8 10;
               IAtom (AChr [98%N]); IJump 11; IAtom (AChr [99%N]); IMark 3; IFork 6 13; IMark 1; IMatch] /\
     fst (regexec_d 256 p 0 [120; 97; 97; 97; 98; 99; 99; 100; 10]%N 2 0) = Ok (Some [(1, 7); (6, 7)]%Z) /\
     fst (regexec_d 256 p 0 [97; 98; 10]%N 2 0) = Ok None) /\
  C10_rc_reject [97; 123; 51; 44; 50; 125; 40; 98; 41]%Z = Some (CLite.VInt 1, Some [CLite.VInt 1], [1; 0; 0]) /\
  regcomp [97; 123; 51; 44; 50; 125; 40; 98; 41]%N = Ok None.
Proof.
  split; [vm_compute; reflexivity|]. split; [vm_compute; reflexivity|]. split; [vm_compute; reflexivity|].
  split. { eexists. split; [vm_compute; reflexivity|]. split; [vm_compute; reflexivity|]. split; vm_compute; reflexivity. }
  split; vm_compute; reflexivity.
Qed.
