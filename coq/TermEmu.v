(* TermEmu.v -- a terminal emulator for exactly the byte sequences neatvi writes (term.c, led.c):
   printable characters (UTF-8 decoded, one or two cells), CR, LF (scrolls the region when on its
   bottom row), CUP `ESC[r;cH`, EL `ESC[K`, IL `ESC[nL`, DL `ESC[nM`, DECSTBM `ESC[t;br` / `ESC[r`,
   CUF `ESC[nC`, CUB `ESC[nD`; SGR `ESC[...m` is ignored; DEL (0x7f) is ignored as a real terminal
   ignores it.  Anything else (the other C0 controls included) is counted in t_err (the
   check reports a stream with t_err > 0).  The model is executable and is extracted: it is the
   interpreter of the real `vi -v` stream in the C19 check.  No proofs here (see DrawProps.v). *)
From Coq Require Import List NArith ZArith Bool Arith.
From NV Require Import Bytes GenUcTables.
Import ListNotations.

(* ---------- list operations on rows of any type (used for the cell rows here and for the
   abstract rows of DrawDefs.v) ---------- *)
Section Lines.
Context {A : Type}.
Variable blank : A.

(* delete n lines at row r of the region [top, bot): the rows below move up, blank rows enter at
   the region's bottom; rows outside the region do not move *)
Definition del_lines (top bot r n : nat) (rows : list A) : list A :=
  if (top <=? r) && (r <? bot) then
    let k := Nat.min n (bot - r) in
    firstn r rows ++ skipn (r + k) (firstn bot rows) ++ repeat blank k ++ skipn bot rows
  else rows.

(* insert n blank lines at row r of the region: rows r.. move down, the last n fall off *)
Definition ins_lines (top bot r n : nat) (rows : list A) : list A :=
  if (top <=? r) && (r <? bot) then
    let k := Nat.min n (bot - r) in
    firstn r rows ++ repeat blank k ++ firstn (bot - r - k) (skipn r rows) ++ skipn bot rows
  else rows.

Definition set_nth (i : nat) (x : A) (l : list A) : list A :=
  if i <? length l then firstn i l ++ x :: skipn (S i) l else l.
End Lines.

(* ---------- cells ---------- *)
Definition BLANK : N := 32%N.
Definition WCONT : N := 0%N.          (* second cell of a double-width character *)

Definition in_ranges (tbl : list (Z * Z)) (c : Z) : bool :=
  existsb (fun p => (fst p <=? c)%Z && (c <=? snd p)%Z) tbl.
(* uc_wid of uc.c over the generated tables *)
Definition cp_wid (c : N) : nat :=
  if (c <? 768)%N then 1
  else let z := Z.of_N c in
       if in_ranges zwchars z then 0 else if in_ranges dwchars z then 2 else 1.

Inductive pstate :=
| Ground
| Esc
| Csi (done : list (option N)) (cur : option N)
| Utf (need : nat) (acc : N).

Record term := mkTerm {
  t_rows : nat; t_cols : nat;
  t_cells : list (list N);
  t_r : nat; t_c : nat;               (* cursor; t_c = t_cols is the pending-wrap position *)
  t_top : nat; t_bot : nat;           (* scroll region [t_top, t_bot) *)
  t_st : pstate;
  t_err : nat;
  t_attr : N;
  t_battr : N }.                      (* t_attr: digest of the last SGR sequence (0 = default); t_battr: what erased cells
                                         take: t_attr if it sets a background or reverse video, else 0 *)

Definition blank_row (cols : nat) : list N := repeat BLANK cols.
Definition term_new (rows cols : nat) : term :=
  mkTerm rows cols (repeat (blank_row cols) rows) 0 0 0 rows Ground 0 0%N 0%N.

Definition upd (t : term) cells r c top bot st err : term :=
  mkTerm (t_rows t) (t_cols t) cells r c top bot st err (t_attr t) (t_battr t).
Definition with_attr (t : term) (a b : N) : term :=
  mkTerm (t_rows t) (t_cols t) (t_cells t) (t_r t) (t_c t) (t_top t) (t_bot t) Ground (t_err t) a b.
(* a cell holds  code point + 2^21 * attribute ; the attribute is only compared between an
   incrementally drawn screen and a fully repainted one, never interpreted *)
(* does the sequence set a background colour or reverse video?  (erased cells take the background only) *)
Definition sgr_has_bg (ps : list (option N)) : bool :=
  existsb (fun p => match p with Some v => (v =? 7)%N || ((40 <=? v)%N && (v <=? 48)%N) | None => false end) ps.
Definition ATTR_SHIFT : N := 2097152%N.
Definition mkcell (cp attr : N) : N := (cp + ATTR_SHIFT * attr)%N.
(* every SGR sequence neatvi writes starts with an empty parameter (= reset), so the attribute is a
   function of the last sequence alone: a digest of its parameters after the leading resets *)
Fixpoint drop_reset (ps : list (option N)) : list (option N) :=
  match ps with
  | None :: r => drop_reset r
  | Some 0%N :: r => drop_reset r
  | _ => ps
  end.
Definition sgr_attr (ps : list (option N)) : N :=
  fold_left (fun a p => ((a * 256 + match p with Some v => v + 1 | None => 1 end) mod 4294967296)%N) (drop_reset ps) 0%N.
Definition with_st (t : term) st := upd t (t_cells t) (t_r t) (t_c t) (t_top t) (t_bot t) st (t_err t).
Definition with_err (t : term) := upd t (t_cells t) (t_r t) (t_c t) (t_top t) (t_bot t) Ground (S (t_err t)).
Definition with_cur (t : term) r c := upd t (t_cells t) r c (t_top t) (t_bot t) Ground (t_err t).
Definition with_cells (t : term) cells c := upd t cells (t_r t) c (t_top t) (t_bot t) Ground (t_err t).

(* write a character of width w (1 or 2) at column c of a row; halves of double-width characters
   that get overwritten are blanked *)
Definition put_row (row : list N) (c : nat) (cp : N) (w : nat) (attr : N) : list N :=
  let row := if (nth c row BLANK =? WCONT)%N then set_nth (c - 1) BLANK row else row in
  let row := set_nth c (mkcell cp attr) row in
  let row := if w =? 2 then set_nth (S c) WCONT row else row in
  if (nth (c + w) row BLANK =? WCONT)%N then set_nth (c + w) BLANK row else row.

Definition put (t : term) (cp : N) : term :=
  let w := cp_wid cp in
  if w =? 0 then with_st t Ground
  else if t_cols t <? t_c t + w then with_err t          (* neatvi never writes past the right margin *)
  else with_cells t (set_nth (t_r t) (put_row (nth (t_r t) (t_cells t) []) (t_c t) cp w (t_attr t)) (t_cells t)) (t_c t + w).

Definition erase_eol (row : list N) (c cols : nat) (attr : N) : list N :=
  let row := if (nth c row BLANK =? WCONT)%N then set_nth (c - 1) BLANK row else row in
  firstn c row ++ repeat (mkcell BLANK attr) (cols - c).      (* back-colour erase *)

Definition linefeed (t : term) : term :=
  if S (t_r t) =? t_bot t then
    with_cells t (del_lines (blank_row (t_cols t)) (t_top t) (t_bot t) (t_top t) 1 (t_cells t)) (t_c t)
  else if S (t_r t) <? t_rows t then with_cur t (S (t_r t)) (t_c t)
  else with_st t Ground.

Definition par (ps : list (option N)) (i : nat) (dflt : nat) : nat :=
  match nth i ps None with Some v => N.to_nat v | None => dflt end.
Definition par1 ps i := Nat.max 1 (par ps i 1).     (* a count: missing or 0 means 1 *)

Definition csi_final (t : term) (ps : list (option N)) (b : N) : term :=
  let cols := t_cols t in let rows := t_rows t in
  if (b =? 109)%N then with_attr t (sgr_attr ps) (if sgr_has_bg ps then sgr_attr ps else 0%N)                                    (* m  SGR *)
  else if (b =? 72)%N then                                                            (* H  CUP *)
    with_cur t (Nat.min (par1 ps 0 - 1) (rows - 1)) (Nat.min (par1 ps 1 - 1) (cols - 1))
  else if (b =? 75)%N then                                                            (* K  EL 0 *)
    if par ps 0 0 =? 0 then
      with_cells t (set_nth (t_r t) (erase_eol (nth (t_r t) (t_cells t) []) (t_c t) cols (t_battr t)) (t_cells t)) (t_c t)
    else with_err t
  else if (b =? 76)%N then                                                            (* L  IL *)
    with_cells t (ins_lines (blank_row cols) (t_top t) (t_bot t) (t_r t) (par1 ps 0) (t_cells t)) 0
  else if (b =? 77)%N then                                                            (* M  DL *)
    with_cells t (del_lines (blank_row cols) (t_top t) (t_bot t) (t_r t) (par1 ps 0) (t_cells t)) 0
  else if (b =? 67)%N then with_cur t (t_r t) (Nat.min (t_c t + par1 ps 0) (cols - 1))   (* C  CUF *)
  else if (b =? 68)%N then with_cur t (t_r t) (Nat.min (t_c t) (cols - 1) - par1 ps 0)   (* D  CUB *)
  else if (b =? 114)%N then                                                           (* r  DECSTBM *)
    let top := par1 ps 0 - 1 in
    let bot := par ps 1 rows in
    let bot := if bot =? 0 then rows else bot in
    if (S top <? bot) && (bot <=? rows) then upd t (t_cells t) 0 0 top bot Ground (t_err t)
    else if (S top =? bot) && (bot <=? rows) then with_st t Ground    (* a region needs two lines: ignored, as on a VT/xterm *)
    else with_err t
  else with_err t.

Definition is_digit (b : N) : bool := (48 <=? b)%N && (b <=? 57)%N.

Definition feed (t : term) (b : N) : term :=
  match t_st t with
  | Ground =>
    if (b =? 27)%N then with_st t Esc
    else if (b =? 13)%N then with_cur t (t_r t) 0
    else if (b =? 10)%N then linefeed t
    else if (b =? 127)%N then t           (* DEL: ignored, as on a VT/xterm (no cell, no cursor movement) -- a raw DEL sent for
                                             a character that the column mapping counts as one cell shifts the rest of the row *)
    else if (b <? 32)%N then with_err t   (* BEL BS HT VT FF SO SI ...: a real terminal acts on them; neatvi never writes them *)
    else if (b <? 128)%N then put t b
    else if (b <? 192)%N then with_err t
    else if (b <? 224)%N then with_st t (Utf 1 (N.land b 31))
    else if (b <? 240)%N then with_st t (Utf 2 (N.land b 15))
    else if (b <? 248)%N then with_st t (Utf 3 (N.land b 7))
    else with_err t
  | Esc => if (b =? 91)%N then with_st t (Csi [] None) else with_err t
  | Csi done cur =>
    if is_digit b then
      with_st t (Csi done (Some (match cur with Some v => v * 10 + (b - 48) | None => b - 48 end)%N))
    else if (b =? 59)%N then with_st t (Csi (cur :: done) None)
    else if (64 <=? b)%N && (b <=? 126)%N then csi_final t (rev (cur :: done)) b
    else with_err t
  | Utf need acc =>
    if (N.land b 192 =? 128)%N then
      let acc := (acc * 64 + N.land b 63)%N in
      match need with
      | S (S n) => with_st t (Utf (S n) acc)
      | _ => put t acc
      end
    else with_err t
  end.

Definition run (t : term) (s : list N) : term := fold_left feed s t.
(* the terminal after interpreting stream s on a fresh rows x cols screen *)
Definition interp (rows cols : nat) (s : list N) : term := run (term_new rows cols) s.
