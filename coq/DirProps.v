(* DirProps.v -- theorems about the model of dir.c (DirDefs.v): dir_reverse / dir_fix / dir_reorder. *)
From Coq Require Import List NArith ZArith Bool Arith Lia Permutation.
From NV Require Import Bytes UcDefs GenConf GenConsts DirDefs.
Import ListNotations.

(* ---------- list helpers ---------- *)
Lemma nth_firstn_lt {A} (l : list A) : forall n i d, i < n -> nth i (firstn n l) d = nth i l d.
Proof.
  induction l as [|x l IH]; intros n i d H.
  - rewrite firstn_nil. reflexivity.
  - destruct n as [|n]; [lia|]. destruct i as [|i]; cbn [firstn nth]; [reflexivity|]. apply IH. lia.
Qed.

Lemma nth_skipn_add {A} (l : list A) : forall n i d, nth i (skipn n l) d = nth (n + i) l d.
Proof.
  induction l as [|x l IH]; intros n i d.
  - rewrite skipn_nil. destruct i, n; reflexivity.
  - destruct n as [|n]; cbn [skipn plus nth]; [reflexivity|]. apply IH.
Qed.

(* ---------- 1. dir_reverse ---------- *)
Lemma dir_reverse_perm ord b e : Permutation (dir_reverse ord b e) ord.
Proof.
  unfold dir_reverse. destruct (b <? e) eqn:E; [|reflexivity].
  apply Nat.ltb_lt in E.
  rewrite <- (firstn_skipn b ord) at 4. apply Permutation_app_head.
  rewrite <- (firstn_skipn (e - b) (skipn b ord)) at 2. rewrite skipn_skipn.
  replace (b + (e - b)) with e by lia.
  apply Permutation_app_tail. symmetry. apply Permutation_rev.
Qed.

Lemma dir_reverse_length ord b e : length (dir_reverse ord b e) = length ord.
Proof. apply Permutation_length, dir_reverse_perm. Qed.

Lemma dir_reverse_outside ord b e i d :
  e <= length ord -> (i < b \/ e <= i) -> nth i (dir_reverse ord b e) d = nth i ord d.
Proof.
  intros He Hi. unfold dir_reverse. destruct (b <? e) eqn:E; [|reflexivity].
  apply Nat.ltb_lt in E.
  assert (Lb : length (firstn b ord) = b) by (rewrite firstn_length; lia).
  assert (Lr : length (rev (firstn (e - b) (skipn b ord))) = e - b)
    by (rewrite rev_length, firstn_length, skipn_length; lia).
  destruct Hi as [Hi|Hi].
  - rewrite app_nth1 by lia. apply nth_firstn_lt. exact Hi.
  - rewrite app_nth2 by lia. rewrite app_nth2 by lia. rewrite Lb, Lr.
    rewrite nth_skipn_add. f_equal. lia.
Qed.

Lemma dir_reverse_inside ord b e i d :
  b <= i < e -> e <= length ord -> nth i (dir_reverse ord b e) d = nth (b + e - 1 - i) ord d.
Proof.
  intros Hi He. unfold dir_reverse. destruct (b <? e) eqn:E; [|apply Nat.ltb_ge in E; lia].
  assert (Lb : length (firstn b ord) = b) by (rewrite firstn_length; lia).
  assert (Lf : length (firstn (e - b) (skipn b ord)) = e - b)
    by (rewrite firstn_length, skipn_length; lia).
  rewrite app_nth2 by lia. rewrite Lb.
  rewrite app_nth1 by (rewrite rev_length; lia).
  rewrite rev_nth by lia. rewrite Lf.
  rewrite nth_firstn_lt by lia. rewrite nth_skipn_add. f_equal. lia.
Qed.

Lemma dir_reverse_nth ord b e i d :
  e <= length ord ->
  nth i (dir_reverse ord b e) d = if (b <=? i) && (i <? e) then nth (b + e - 1 - i) ord d else nth i ord d.
Proof.
  intro He. destruct (b <=? i) eqn:E1; cbn [andb].
  - apply Nat.leb_le in E1. destruct (i <? e) eqn:E2.
    + apply Nat.ltb_lt in E2. apply dir_reverse_inside; lia.
    + apply Nat.ltb_ge in E2. apply dir_reverse_outside; [lia|]. right; lia.
  - apply Nat.leb_gt in E1. apply dir_reverse_outside; [lia|]. left; lia.
Qed.

(* ---------- the body of one loop iteration of dir_fix ---------- *)
Definition step1 (dir : Z) (m : mres) (ord : list nat) : list nat :=
  if (dir <? 0)%Z then dir_reverse ord (r_beg m) (r_end m) else ord.
Definition step2 (dir : Z) (m : mres) (ord : list nat) : list nat :=
  if (c_dir m <? 0)%Z then dir_reverse (step1 dir m ord) (c_beg m) (c_end m) else step1 dir m ord.
Definition cbeg (m : mres) : nat := if (c_beg m =? r_beg m)%nat then S (c_beg m) else c_beg m.

Definition span_ok (b e : nat) (m : mres) : Prop :=
  b <= r_beg m /\ r_beg m <= c_beg m /\ c_beg m <= c_end m /\ c_end m <= r_end m /\ r_end m <= e /\ b < r_end m.

Lemma step1_perm dir m ord : Permutation (step1 dir m ord) ord.
Proof. unfold step1. destruct (dir <? 0)%Z; [apply dir_reverse_perm|reflexivity]. Qed.
Lemma step2_perm dir m ord : Permutation (step2 dir m ord) ord.
Proof.
  unfold step2. destruct (c_dir m <? 0)%Z; [|apply step1_perm].
  etransitivity; [apply dir_reverse_perm|apply step1_perm].
Qed.
Lemma step1_length dir m ord : length (step1 dir m ord) = length ord.
Proof. apply Permutation_length, step1_perm. Qed.
Lemma step2_length dir m ord : length (step2 dir m ord) = length ord.
Proof. apply Permutation_length, step2_perm. Qed.

Lemma step1_outside dir m ord i d :
  r_end m <= length ord -> (i < r_beg m \/ r_end m <= i) -> nth i (step1 dir m ord) d = nth i ord d.
Proof. intros L H. unfold step1. destruct (dir <? 0)%Z; [apply dir_reverse_outside; assumption|reflexivity]. Qed.

Lemma step2_outside dir m ord i d :
  r_beg m <= c_beg m -> c_end m <= r_end m -> r_end m <= length ord ->
  (i < r_beg m \/ r_end m <= i) -> nth i (step2 dir m ord) d = nth i ord d.
Proof.
  intros B1 B2 L H. unfold step2. destruct (c_dir m <? 0)%Z; [|apply step1_outside; assumption].
  rewrite dir_reverse_outside; [apply step1_outside; assumption| rewrite step1_length; lia | lia].
Qed.

(* ---------- dir_fix, parametric in the matcher ---------- *)
Section FixProps.
Variable cm : nat -> nat -> Z -> option mres.

(* the matcher reports spans inside [b, e) and a non-empty whole match, for every call with e <= N *)
Definition cm_ok (N : nat) : Prop :=
  forall b e d m, b < e -> e <= N -> cm b e d = Some m -> span_ok b e m.
(* the unbounded form *)
Definition cm_ok_all : Prop := forall b e d m, cm b e d = Some m -> span_ok b e m.
Lemma cm_ok_all_ok N : cm_ok_all -> cm_ok N.
Proof. intros H b e d m _ _ C. exact (H b e d m C). Qed.

Definition rec_call (f : nat) (dir : Z) (m : mres) (ord : list nat) : option (list nat) :=
  if c_rec m then dir_fix cm f (step2 dir m ord) (c_dir m) (cbeg m) (c_end m) else Some (step2 dir m ord).

Lemma dir_fix_0 ord dir b e : dir_fix cm 0 ord dir b e = None.
Proof. reflexivity. Qed.

Lemma dir_fix_S f ord dir b e :
  dir_fix cm (S f) ord dir b e =
  if b <? e then
    match cm b e dir with
    | None => Some ord
    | Some m => match rec_call f dir m ord with
                | None => None
                | Some ord3 => dir_fix cm f ord3 dir (r_end m) e
                end
    end
  else Some ord.
Proof. reflexivity. Qed.

(* one-step unfolding, as an inversion *)
Lemma dir_fix_inv f ord dir b e ord' :
  dir_fix cm (S f) ord dir b e = Some ord' ->
  (e <= b /\ ord' = ord) \/
  (b < e /\ cm b e dir = None /\ ord' = ord) \/
  (exists m ord3, b < e /\ cm b e dir = Some m /\ rec_call f dir m ord = Some ord3 /\
                  dir_fix cm f ord3 dir (r_end m) e = Some ord').
Proof.
  intro H. rewrite dir_fix_S in H. destruct (b <? e) eqn:E.
  - apply Nat.ltb_lt in E. destruct (cm b e dir) as [m|] eqn:C.
    + right; right. destruct (rec_call f dir m ord) as [ord3|] eqn:R; [|discriminate].
      exists m, ord3. auto.
    + right; left. injection H as H. auto.
  - apply Nat.ltb_ge in E. left. injection H as H. auto.
Qed.

(* the one-step unfolding lemma for the Some-match case *)
Lemma dir_fix_step f ord dir b e m :
  b < e -> cm b e dir = Some m ->
  dir_fix cm (S f) ord dir b e =
  match rec_call f dir m ord with None => None | Some ord3 => dir_fix cm f ord3 dir (r_end m) e end.
Proof.
  intros H C. rewrite dir_fix_S. apply Nat.ltb_lt in H. rewrite H, C. reflexivity.
Qed.

(* 2. whatever the matcher answers, the result is a permutation of the input *)
Theorem dir_fix_perm : forall fuel ord dir b e ord',
  dir_fix cm fuel ord dir b e = Some ord' -> Permutation ord' ord.
Proof.
  induction fuel as [|f IH]; intros ord dir b e ord' H.
  - rewrite dir_fix_0 in H. discriminate.
  - apply dir_fix_inv in H. destruct H as [[_ ->]|[(_ & _ & ->)|(m & ord3 & _ & _ & R & H)]]; try reflexivity.
    apply IH in H. etransitivity; [exact H|].
    unfold rec_call in R. destruct (c_rec m).
    + apply IH in R. etransitivity; [exact R|apply step2_perm].
    + injection R as <-. apply step2_perm.
Qed.

Lemma dir_fix_length fuel ord dir b e ord' :
  dir_fix cm fuel ord dir b e = Some ord' -> length ord' = length ord.
Proof. intro H. apply Permutation_length. eapply dir_fix_perm. exact H. Qed.

Lemma cbeg_bounds b e m : span_ok b e m -> b <= cbeg m /\ r_beg m <= cbeg m /\ (b < e -> c_end m - cbeg m < e - b).
Proof.
  unfold span_ok, cbeg. intros H. destruct (c_beg m =? r_beg m) eqn:E.
  - apply Nat.eqb_eq in E. lia.
  - apply Nat.eqb_neq in E. lia.
Qed.

(* 3. enough fuel: e - b < fuel *)
Theorem dir_fix_terminates N : cm_ok N -> forall fuel ord dir b e,
  e <= N -> e - b < fuel -> exists ord', dir_fix cm fuel ord dir b e = Some ord'.
Proof.
  intro OK. induction fuel as [|f IH]; intros ord dir b e HN HF; [lia|].
  rewrite dir_fix_S. destruct (b <? e) eqn:E; [|eauto].
  apply Nat.ltb_lt in E. destruct (cm b e dir) as [m|] eqn:C; [|eauto].
  pose proof (OK b e dir m E HN C) as S. pose proof (cbeg_bounds b e m S) as (B1 & B2 & B3).
  specialize (B3 E). unfold span_ok in S.
  assert (R : exists ord3, rec_call f dir m ord = Some ord3).
  { unfold rec_call. destruct (c_rec m); [|eauto]. apply IH; lia. }
  destruct R as [ord3 ->]. apply IH; lia.
Qed.

(* 5. no match: nothing moves *)
Theorem dir_fix_identity fuel ord dir b e :
  (b < e -> cm b e dir = None) -> 0 < fuel -> dir_fix cm fuel ord dir b e = Some ord.
Proof.
  intros H F. destruct fuel as [|f]; [lia|]. rewrite dir_fix_S.
  destruct (b <? e) eqn:E; [|reflexivity]. apply Nat.ltb_lt in E. rewrite (H E). reflexivity.
Qed.

(* 4. nothing outside [b, e) moves *)
Theorem dir_fix_outside N : cm_ok N -> forall fuel ord dir b e ord',
  e <= N -> e <= length ord -> dir_fix cm fuel ord dir b e = Some ord' ->
  length ord' = length ord /\ forall i d, (i < b \/ e <= i) -> nth i ord' d = nth i ord d.
Proof.
  intro OK. induction fuel as [|f IH]; intros ord dir b e ord' HN HL H.
  - rewrite dir_fix_0 in H. discriminate.
  - split; [eapply dir_fix_length; exact H|].
    apply dir_fix_inv in H. destruct H as [[_ ->]|[(_ & _ & ->)|(m & ord3 & E & C & R & H)]]; try reflexivity.
    pose proof (OK b e dir m E HN C) as S. pose proof (cbeg_bounds b e m S) as (B1 & B2 & _).
    unfold span_ok in S. intros i d Hi.
    assert (R3 : length ord3 = length ord /\ nth i ord3 d = nth i ord d).
    { unfold rec_call in R. destruct (c_rec m).
      - apply IH in R; [|lia|rewrite step2_length; lia]. destruct R as [L R].
        rewrite step2_length in L. split; [exact L|]. rewrite R by lia.
        apply step2_outside; lia.
      - injection R as <-. split; [apply step2_length|]. apply step2_outside; lia. }
    destruct R3 as [L3 <-]. apply IH in H; [|lia|lia]. destruct H as [_ H]. apply H. lia.
Qed.

(* ---------- 6. the top-level matches met by the loop, and what happens to their spans ---------- *)
Definition agree (lo hi : nat) (l1 l2 : list nat) : Prop :=
  forall i d, lo <= i < hi -> nth i l1 d = nth i l2 d.
Definition seg (lo hi : nat) (l : list nat) : list nat := firstn (hi - lo) (skipn lo l).

Lemma dir_reverse_agree lo hi l1 l2 b e :
  agree lo hi l1 l2 -> lo <= b -> e <= hi -> hi <= length l1 -> hi <= length l2 ->
  agree lo hi (dir_reverse l1 b e) (dir_reverse l2 b e).
Proof.
  intros A Hb He L1 L2 i d Hi. rewrite !dir_reverse_nth by lia.
  destruct (b <=? i) eqn:E1; destruct (i <? e) eqn:E2; cbn [andb]; apply A; lia.
Qed.

Lemma step2_agree dir m l1 l2 :
  agree (r_beg m) (r_end m) l1 l2 -> r_beg m <= c_beg m -> c_end m <= r_end m ->
  r_end m <= length l1 -> r_end m <= length l2 ->
  agree (r_beg m) (r_end m) (step2 dir m l1) (step2 dir m l2).
Proof.
  intros A B1 B2 L1 L2.
  assert (A1 : agree (r_beg m) (r_end m) (step1 dir m l1) (step1 dir m l2)).
  { unfold step1. destruct (dir <? 0)%Z; [|exact A]. apply dir_reverse_agree; auto. }
  unfold step2. destruct (c_dir m <? 0)%Z; [|exact A1].
  apply dir_reverse_agree; auto; rewrite step1_length; assumption.
Qed.

Lemma seg_length lo hi l : hi <= length l -> length (seg lo hi l) = hi - lo.
Proof. intro H. unfold seg. rewrite firstn_length, skipn_length. lia. Qed.

Lemma seg_agree lo hi l1 l2 :
  agree lo hi l1 l2 -> hi <= length l1 -> hi <= length l2 -> seg lo hi l1 = seg lo hi l2.
Proof.
  intros A L1 L2. apply (nth_ext _ _ 0 0).
  - rewrite !seg_length by assumption. reflexivity.
  - intros n Hn. rewrite seg_length in Hn by assumption. unfold seg.
    rewrite !nth_firstn_lt by lia. rewrite !nth_skipn_add. apply A. lia.
Qed.

Lemma split3 lo hi (l : list nat) : lo <= hi -> l = firstn lo l ++ seg lo hi l ++ skipn hi l.
Proof.
  intro H. rewrite <- (firstn_skipn lo l) at 1. f_equal.
  rewrite <- (firstn_skipn (hi - lo) (skipn lo l)) at 1. unfold seg. f_equal.
  rewrite skipn_skipn. f_equal. lia.
Qed.

Lemma seg_perm lo hi l' l :
  Permutation l' l -> (forall i d, i < lo \/ hi <= i -> nth i l' d = nth i l d) ->
  lo <= hi -> hi <= length l -> Permutation (seg lo hi l') (seg lo hi l).
Proof.
  intros P O H L. pose proof (Permutation_length P) as LL.
  assert (F : firstn lo l' = firstn lo l).
  { apply (nth_ext _ _ 0 0).
    - rewrite !firstn_length. lia.
    - intros n Hn. rewrite firstn_length in Hn. rewrite !nth_firstn_lt by lia. apply O. lia. }
  assert (S : skipn hi l' = skipn hi l).
  { apply (nth_ext _ _ 0 0).
    - rewrite !skipn_length. lia.
    - intros n Hn. rewrite !nth_skipn_add. apply O. lia. }
  rewrite (split3 lo hi l' H), (split3 lo hi l H) in P. rewrite F, S in P.
  apply Permutation_app_inv_l in P. apply Permutation_app_inv_r in P. exact P.
Qed.

Inductive top (dir : Z) (e : nat) : nat -> mres -> Prop :=
| top_here b m : b < e -> cm b e dir = Some m -> top dir e b m
| top_next b m m' : b < e -> cm b e dir = Some m -> top dir e (r_end m) m' -> top dir e b m'.

(* top matches of [b, e) lie in [b, e) *)
Lemma top_span N dir e : cm_ok N -> e <= N -> forall b m, top dir e b m -> span_ok b e m.
Proof.
  intros OK HN b m T. induction T as [b m E C|b m m' E C T IH].
  - exact (OK b e dir m E HN C).
  - pose proof (OK b e dir m E HN C) as S. unfold span_ok in *. lia.
Qed.

(* distinct top matches have disjoint spans lying left to right *)
Lemma top_later N dir e b m m' : cm_ok N -> e <= N ->
  b < e -> cm b e dir = Some m -> top dir e (r_end m) m' -> r_end m <= r_beg m'.
Proof. intros OK HN E C T. pose proof (top_span N dir e OK HN _ _ T) as S. unfold span_ok in S. lia. Qed.

(* what the body of one iteration (the reversals and the recursive call) does to the array *)
Lemma rec_call_frame N f dir m ord ord3 b e :
  cm_ok N -> e <= N -> e <= length ord -> span_ok b e m -> rec_call f dir m ord = Some ord3 ->
  length ord3 = length ord /\ Permutation ord3 ord /\
  (forall i d, i < r_beg m \/ r_end m <= i -> nth i ord3 d = nth i ord d) /\
  (c_rec m = false -> ord3 = step2 dir m ord).
Proof.
  intros OK HN HL S R. pose proof (cbeg_bounds b e m S) as (B1 & B2 & _). unfold span_ok in S.
  unfold rec_call in R. destruct (c_rec m).
  - pose proof (dir_fix_perm _ _ _ _ _ _ R) as P.
    apply (dir_fix_outside N OK) in R; [|lia|rewrite step2_length; lia]. destruct R as [L R].
    rewrite step2_length in L. split; [exact L|]. split; [etransitivity; [exact P|apply step2_perm]|].
    split; [|discriminate]. intros i d Hi. rewrite R by lia. apply step2_outside; lia.
  - injection R as <-. split; [apply step2_length|]. split; [apply step2_perm|].
    split; [|reflexivity]. intros i d Hi. apply step2_outside; lia.
Qed.

(* (a) positions in no top-level span do not move *)
Theorem dir_fix_runs_a N : cm_ok N -> forall fuel ord dir b e ord',
  e <= N -> e <= length ord -> dir_fix cm fuel ord dir b e = Some ord' ->
  forall i d, (forall m, top dir e b m -> ~ (r_beg m <= i < r_end m)) -> nth i ord' d = nth i ord d.
Proof.
  intro OK. induction fuel as [|f IH]; intros ord dir b e ord' HN HL H i d HT.
  - rewrite dir_fix_0 in H. discriminate.
  - apply dir_fix_inv in H. destruct H as [[_ ->]|[(_ & _ & ->)|(m & ord3 & E & C & R & H)]]; try reflexivity.
    pose proof (OK b e dir m E HN C) as S.
    destruct (rec_call_frame N f dir m ord ord3 b e OK HN HL S R) as (L3 & _ & O3 & _).
    unfold span_ok in S. pose proof (HT m (top_here dir e b m E C)) as Hm.
    rewrite <- (O3 i d) by lia.
    destruct (Nat.lt_ge_cases i (r_end m)) as [Hi|Hi].
    + apply (dir_fix_outside N OK) in H; [|lia|lia]. destruct H as [_ H]. apply H. lia.
    + apply (IH ord3 dir (r_end m) e ord'); [lia|lia|exact H|].
      intros m' T'. apply HT. exact (top_next dir e b m m' E C T').
Qed.

(* (b) a top-level match without nested group: its span is the result of the two reversals *)
Theorem dir_fix_runs_b N : cm_ok N -> forall dir e, e <= N -> forall b m, top dir e b m ->
  forall fuel ord ord', e <= length ord -> dir_fix cm fuel ord dir b e = Some ord' ->
  c_rec m = false ->
  forall i d, r_beg m <= i < r_end m -> nth i ord' d = nth i (step2 dir m ord) d.
Proof.
  intros OK dir e HN b m T.
  induction T as [b m E C|b m m' E C T IH]; intros fuel ord ord' HL H NR i d Hi.
  - destruct fuel as [|f]; [rewrite dir_fix_0 in H; discriminate|].
    apply dir_fix_inv in H. destruct H as [[? _]|[(_ & C' & _)|(m1 & ord3 & _ & C' & R & H)]];
      [lia|congruence|].
    rewrite C in C'. injection C' as <-.
    pose proof (OK b e dir m E HN C) as S.
    destruct (rec_call_frame N f dir m ord ord3 b e OK HN HL S R) as (L3 & _ & _ & E3).
    unfold span_ok in S. rewrite <- (E3 NR).
    apply (dir_fix_outside N OK) in H; [|lia|lia]. destruct H as [_ H]. apply H. lia.
  - destruct fuel as [|f]; [rewrite dir_fix_0 in H; discriminate|].
    apply dir_fix_inv in H. destruct H as [[? _]|[(_ & C' & _)|(m1 & ord3 & _ & C' & R & H)]];
      [lia|congruence|].
    rewrite C in C'. injection C' as <-.
    pose proof (OK b e dir m E HN C) as S.
    destruct (rec_call_frame N f dir m ord ord3 b e OK HN HL S R) as (L3 & _ & O3 & _).
    pose proof (top_span N dir e OK HN _ _ T) as S'. unfold span_ok in S, S'.
    rewrite (IH f ord3 ord') by (assumption || lia).
    apply step2_agree; try lia. intros j dj Hj. apply O3. lia.
Qed.

Lemma step2_mark dir m ord i d :
  c_beg m = r_beg m -> c_end m = r_end m -> r_end m <= length ord -> r_beg m <= i < r_end m ->
  nth i (step2 dir m ord) d =
  if xorb (dir <? 0)%Z (c_dir m <? 0)%Z then nth (r_beg m + r_end m - 1 - i) ord d else nth i ord d.
Proof.
  intros B1 B2 L Hi. unfold step2, step1. rewrite B1, B2.
  destruct (dir <? 0)%Z; destruct (c_dir m <? 0)%Z; cbn [xorb].
  - rewrite dir_reverse_inside by (rewrite ?dir_reverse_length; lia).
    rewrite dir_reverse_inside by lia. f_equal. lia.
  - apply dir_reverse_inside; lia.
  - apply dir_reverse_inside; lia.
  - reflexivity.
Qed.

(* a plain mark (no nested group, the context is the whole match): the run is mirrored in place when
   its direction is opposite to the surrounding one, and left alone otherwise *)
Corollary dir_fix_runs_mark N : cm_ok N -> forall dir e, e <= N -> forall b m, top dir e b m ->
  forall fuel ord ord', e <= length ord -> dir_fix cm fuel ord dir b e = Some ord' ->
  c_rec m = false -> c_beg m = r_beg m -> c_end m = r_end m ->
  forall i d, r_beg m <= i < r_end m ->
  nth i ord' d =
  if xorb (dir <? 0)%Z (c_dir m <? 0)%Z then nth (r_beg m + r_end m - 1 - i) ord d else nth i ord d.
Proof.
  intros OK dir e HN b m T fuel ord ord' HL H NR B1 B2 i d Hi.
  rewrite (dir_fix_runs_b N OK dir e HN b m T fuel ord ord' HL H NR i d Hi).
  pose proof (top_span N dir e OK HN _ _ T) as S. unfold span_ok in S.
  apply step2_mark; try assumption. lia.
Qed.

(* (c) every top-level span (also one with a recursive call) is mapped onto itself *)
Theorem dir_fix_runs_c N : cm_ok N -> forall dir e, e <= N -> forall b m, top dir e b m ->
  forall fuel ord ord', e <= length ord -> dir_fix cm fuel ord dir b e = Some ord' ->
  Permutation (firstn (r_end m - r_beg m) (skipn (r_beg m) ord'))
              (firstn (r_end m - r_beg m) (skipn (r_beg m) ord)).
Proof.
  intros OK dir e HN b m T.
  induction T as [b m E C|b m m' E C T IH]; intros fuel ord ord' HL H.
  - destruct fuel as [|f]; [rewrite dir_fix_0 in H; discriminate|].
    apply dir_fix_inv in H. destruct H as [[? _]|[(_ & C' & _)|(m1 & ord3 & _ & C' & R & H)]];
      [lia|congruence|].
    rewrite C in C'. injection C' as <-.
    pose proof (OK b e dir m E HN C) as S.
    destruct (rec_call_frame N f dir m ord ord3 b e OK HN HL S R) as (L3 & P3 & O3 & _).
    unfold span_ok in S.
    pose proof (dir_fix_length _ _ _ _ _ _ H) as L'.
    apply (dir_fix_outside N OK) in H; [|lia|lia]. destruct H as [_ H].
    change (Permutation (seg (r_beg m) (r_end m) ord') (seg (r_beg m) (r_end m) ord)).
    rewrite (seg_agree (r_beg m) (r_end m) ord' ord3); [|intros j dj Hj; apply H; lia|lia|lia].
    apply seg_perm; [exact P3|exact O3|lia|lia].
  - destruct fuel as [|f]; [rewrite dir_fix_0 in H; discriminate|].
    apply dir_fix_inv in H. destruct H as [[? _]|[(_ & C' & _)|(m1 & ord3 & _ & C' & R & H)]];
      [lia|congruence|].
    rewrite C in C'. injection C' as <-.
    pose proof (OK b e dir m E HN C) as S.
    destruct (rec_call_frame N f dir m ord ord3 b e OK HN HL S R) as (L3 & _ & O3 & _).
    pose proof (top_span N dir e OK HN _ _ T) as S'. unfold span_ok in S, S'.
    etransitivity; [apply (IH f ord3 ord'); [lia|exact H]|].
    change (Permutation (seg (r_beg m') (r_end m') ord3) (seg (r_beg m') (r_end m') ord)).
    rewrite (seg_agree (r_beg m') (r_end m') ord3 ord); [reflexivity| |lia|lia].
    intros j dj Hj. apply O3. lia.
Qed.

End FixProps.

(* ---------- 7. dir_reorder ---------- *)
Lemma upd_nth_same {A} (l : list A) : forall i d, upd l i (nth i l d) = l.
Proof.
  induction l as [|x l IH]; intros i d; [reflexivity|].
  destruct i as [|i]; cbn [upd nth]; [reflexivity|]. f_equal. apply IH.
Qed.

Lemma upd_seq_last n : 0 < n -> upd (seq 0 n) (n - 1) (n - 1) = seq 0 n.
Proof.
  intro H. pose proof (upd_nth_same (seq 0 n) (n - 1) 0) as U.
  rewrite seq_nth in U by lia. exact U.
Qed.

Theorem dir_reorder_spec s xtd ctxfound raw ord :
  dir_reorder s xtd ctxfound raw (seq 0 (uc_slen s)) = Some ord ->
  Permutation ord (seq 0 (uc_slen s)) /\
  (((0 <? uc_slen s)%nat && (nthb s (nth (uc_slen s - 1) (uc_chop s) 0%nat) =? 10)%N = true) ->
   cm_ok (dir_match s (uc_chop s) raw) (uc_slen s) ->
   nth (uc_slen s - 1) ord 0 = uc_slen s - 1).
Proof.
  intro H. unfold dir_reorder in H. cbv zeta in H.
  destruct ((0 <? uc_slen s)%nat && (nthb s (nth (uc_slen s - 1) (uc_chop s) 0%nat) =? 10)%N) eqn:NL.
  - apply andb_prop in NL. destruct NL as [NZ _]. apply Nat.ltb_lt in NZ.
    rewrite upd_seq_last in H by exact NZ. split.
    + eapply dir_fix_perm. exact H.
    + intros _ OK.
      apply (dir_fix_outside _ _ OK) in H; [|lia|rewrite seq_length; lia].
      destruct H as [_ H]. rewrite H by lia. rewrite seq_nth by lia. reflexivity.
  - split; [eapply dir_fix_perm; exact H|discriminate].
Qed.

(* with a well-behaved matcher the fuel given by dir_reorder suffices *)
Theorem dir_reorder_total s xtd ctxfound raw ord0 :
  cm_ok (dir_match s (uc_chop s) raw) (uc_slen s) ->
  exists ord, dir_reorder s xtd ctxfound raw ord0 = Some ord.
Proof.
  intro OK. unfold dir_reorder. cbv zeta.
  apply (dir_fix_terminates _ _ OK); destruct (_ && _); lia.
Qed.

Print Assumptions dir_reverse_perm.
Print Assumptions dir_reverse_length.
Print Assumptions dir_reverse_outside.
Print Assumptions dir_reverse_inside.
Print Assumptions dir_fix_step.
Print Assumptions dir_fix_perm.
Print Assumptions dir_fix_terminates.
Print Assumptions dir_fix_outside.
Print Assumptions dir_fix_identity.
Print Assumptions top_span.
Print Assumptions top_later.
Print Assumptions dir_fix_runs_a.
Print Assumptions dir_fix_runs_b.
Print Assumptions dir_fix_runs_mark.
Print Assumptions dir_fix_runs_c.
Print Assumptions dir_reorder_spec.
Print Assumptions dir_reorder_total.

(* ---- packaged statements cited by Properties_C18.v ---- *)
Lemma marks_not_nullable : forallb (fun m : Z * Z * Z * list N => negb (pat_nullable (snd m))) dirmarks = true.
Proof. vm_compute. reflexivity. Qed.

Theorem dr_of_perm : forall xtd ctxfound raw s,
  Permutation (dr_of xtd ctxfound raw s (seq 0 (uc_slen s))) (seq 0 (uc_slen s)).
Proof.
  intros. unfold dr_of. destruct (dir_reorder s xtd ctxfound raw (seq 0 (uc_slen s))) as [r|] eqn:E; [|reflexivity].
  apply (dir_reorder_spec _ _ _ _ _ E).
Qed.

Theorem dir_reorder_identity : forall s xtd ctxfound raw,
  (forall b e ctx flg, raw b e ctx flg = None) ->
  dir_reorder s xtd ctxfound raw (seq 0 (uc_slen s)) = Some (seq 0 (uc_slen s)).
Proof.
  intros s xtd cf raw H. unfold dir_reorder.
  set (nl := (0 <? uc_slen s)%nat && (nthb s (nth (uc_slen s - 1) (uc_chop s) 0%nat) =? 10)%N).
  assert (E : (if nl then upd (seq 0 (uc_slen s)) (uc_slen s - 1) (uc_slen s - 1)%nat else seq 0 (uc_slen s)) = seq 0 (uc_slen s)).
  { destruct nl eqn:N; [|reflexivity]. apply upd_seq_last. unfold nl in N. apply andb_prop in N. destruct N as [N _].
    apply Nat.ltb_lt in N. exact N. }
  rewrite E. apply dir_fix_identity; [|lia].
  intros _. unfold dir_match. rewrite H. reflexivity.
Qed.

Theorem dir_fix_runs : forall cm N, cm_ok cm N ->
  forall fuel ord dir b e ord', (e <= N)%nat -> (e <= length ord)%nat -> dir_fix cm fuel ord dir b e = Some ord' ->
  (forall i d, (forall m, top cm dir e b m -> ~ (r_beg m <= i < r_end m)%nat) -> nth i ord' d = nth i ord d) /\
  (forall m, top cm dir e b m -> c_rec m = false -> c_beg m = r_beg m -> c_end m = r_end m ->
     forall i d, (r_beg m <= i < r_end m)%nat ->
     nth i ord' d = if xorb (dir <? 0)%Z (c_dir m <? 0)%Z then nth (r_beg m + r_end m - 1 - i) ord d else nth i ord d) /\
  (forall m, top cm dir e b m ->
     Permutation (firstn (r_end m - r_beg m) (skipn (r_beg m) ord')) (firstn (r_end m - r_beg m) (skipn (r_beg m) ord))).
Proof.
  intros cm N Hok fuel ord dir b e ord' He Hl Hf. split; [|split].
  - intros i d Hi. eapply dir_fix_runs_a; eauto.
  - intros m Ht Hr Hb Hee i d Hi. eapply dir_fix_runs_mark; eauto.
  - intros m Ht. eapply dir_fix_runs_c; eauto.
Qed.

(* ---------- the recorded matcher: the hypothesis cm_ok, checked by evaluation ---------- *)
Lemma span_okb_ok b e m : span_okb b e m = true -> span_ok b e m.
Proof.
  unfold span_okb, span_ok. rewrite !andb_true_iff, !Nat.leb_le, Nat.ltb_lt. tauto.
Qed.

Lemma raw_of_in tr : forall b e c flg a, raw_of tr b e c flg = Some a -> In (b, e, c, Some a) tr.
Proof.
  induction tr as [|[[[b' e'] c'] a'] tr IH]; intros b e c flg a H; cbn [raw_of] in H; [discriminate|].
  destruct ((b =? b')%nat && (e =? e')%nat && (c =? c')%Z) eqn:E.
  - apply andb_prop in E. destruct E as [E E3]. apply andb_prop in E. destruct E as [E1 E2].
    apply Nat.eqb_eq in E1, E2. apply Z.eqb_eq in E3. subst. left. reflexivity.
  - right. eapply IH. exact H.
Qed.

Theorem matcher_ok_cm_ok s tr : matcher_ok s tr = true -> cm_ok_all (dir_match s (uc_chop s) (raw_of tr)).
Proof.
  intros H b e d m M. unfold matcher_ok in H. rewrite forallb_forall in H.
  assert (A : exists a, raw_of tr b e d (dm_flags s (uc_chop s) b e) = Some a).
  { unfold dir_match in M. destruct (raw_of tr b e d (dm_flags s (uc_chop s) b e)); [eexists; reflexivity|discriminate]. }
  destruct A as [a A]. apply raw_of_in in A. specialize (H _ A). cbv beta iota in H.
  rewrite M in H. apply span_okb_ok. exact H.
Qed.

Theorem matcher_checked : forall s tr N, matcher_ok s tr = true -> cm_ok (dir_match s (uc_chop s) (raw_of tr)) N.
Proof. intros s tr N H. apply cm_ok_all_ok. apply matcher_ok_cm_ok. exact H. Qed.

Theorem dir_reorder_checked : forall s xtd ctxfound tr,
  matcher_ok s tr = true ->
  exists ord, dir_reorder s xtd ctxfound (raw_of tr) (seq 0 (uc_slen s)) = Some ord /\
    Permutation ord (seq 0 (uc_slen s)) /\
    (((0 <? uc_slen s)%nat && (nthb s (nth (uc_slen s - 1) (uc_chop s) 0%nat) =? 10)%N = true) ->
     nth (uc_slen s - 1) ord 0%nat = (uc_slen s - 1)%nat).
Proof.
  intros s xtd ctxfound tr H. pose proof (matcher_checked s tr (uc_slen s) H) as OK.
  destruct (dir_reorder_total s xtd ctxfound (raw_of tr) (seq 0 (uc_slen s)) OK) as [ord E].
  exists ord. split; [exact E|]. destruct (dir_reorder_spec _ _ _ _ _ E) as [P L].
  split; [exact P|intro NL; exact (L NL OK)].
Qed.

Print Assumptions marks_not_nullable.
Print Assumptions dr_of_perm.
Print Assumptions dir_reorder_identity.
Print Assumptions dir_fix_runs.
