(* IoTableProps.v -- the overwrite guards over the buffer table (C03): proofs for IoTableDefs.v. *)
From Coq Require Import List NArith ZArith Bool Arith Lia Permutation.
From NV Require Import Bytes GenConsts IoDefs IoProps IoFaultProps IoLinkDefs IoLinkProps IoTableDefs.
Import ListNotations.

(* ------------------------------------------------------------------ refused = the guard, exactly *)
Lemma lbuf_save_l_refuses_true now lines b e lk path force ts fs sch :
  refuses force ts (mtime_of lk fs path) = true ->
  lbuf_save_l now lines b e lk path force ts fs sch = (SRefused, fs, sch).
Proof.
  unfold lbuf_save_l, mtime_of, target. destruct (resolve lk path) as [q|].
  - intro H. apply lbuf_save_refused. exact H.
  - intro H. rewrite H. reflexivity.
Qed.

Lemma lbuf_save_not_refused now lines b e path force ts fs sch st fs' r :
  refuses force ts (fs_mtime fs path) = false ->
  lbuf_save now lines b e path force ts fs sch = (st, fs', r) -> st <> SRefused.
Proof.
  intros R H. destruct (lbuf_save_spec _ _ _ _ _ _ _ _ _ _ _ _ H) as [_ [u [_ [A _]]]].
  intro X. destruct (A X) as [R' _]. congruence.
Qed.

Lemma lbuf_save_l_refuses_false now lines b e lk path force ts fs sch st fs' r :
  refuses force ts (mtime_of lk fs path) = false ->
  lbuf_save_l now lines b e lk path force ts fs sch = (st, fs', r) -> st <> SRefused.
Proof.
  unfold lbuf_save_l, mtime_of, target. destruct (resolve lk path) as [q|].
  - exact (lbuf_save_not_refused now lines b e q force ts fs sch st fs' r).
  - intros R H. rewrite R in H. inversion H; subst. discriminate.
Qed.

(* ec_write on one buffer: the status is `refused` exactly when the guard of lbuf_save fires for the stamp
   chosen by the own-path test, and then nothing at all has happened *)
Lemma ec_write_l_refused_iff now isx force rng lk path bf fs sch st bf' fs' r :
  skips isx bf = false ->
  ec_write_l now isx force rng lk path bf fs sch = (st, bf', fs', r) ->
  (st = SRefused <-> refuses force (if Nat.eqb (b_path bf) path then b_mtime bf else 0%Z) (mtime_of lk fs path) = true) /\
  (st = SRefused -> bf' = bf /\ fs' = fs /\ r = sch).
Proof.
  intros SK. unfold ec_write_l. fold (skips isx bf). rewrite SK.
  destruct (match rng with Some r0 => r0 | None => (0, length (b_lines bf)) end) as [b e].
  set (ts := if Nat.eqb (b_path bf) path then b_mtime bf else 0%Z).
  destruct (refuses force ts (mtime_of lk fs path)) eqn:R.
  - rewrite (lbuf_save_l_refuses_true now (b_lines bf) b e lk path force ts fs sch R).
    intro H. inversion H; subst. split; [split; reflexivity | intros _; repeat split].
  - destruct (lbuf_save_l now (b_lines bf) b e lk path force ts fs sch) as [[st0 fs0] r0] eqn:E.
    pose proof (lbuf_save_l_refuses_false _ _ _ _ _ _ _ _ _ _ _ _ _ R E) as NR.
    destruct st0; intro H; inversion H; subst; try congruence;
      (split; [split; [discriminate | discriminate] | discriminate]).
Qed.

(* ------------------------------------------------------------------ the table *)
Lemma bufs_find_some : forall bufs p i, bufs_find bufs p = Some i ->
  exists b, nth_error bufs i = Some b /\ b_path b = p.
Proof.
  induction bufs as [|b r IH]; intros p i; cbn [bufs_find]; [discriminate|].
  destruct (Nat.eqb_spec (b_path b) p) as [P|P].
  - intro H. inversion H; subst. exists b. split; reflexivity.
  - destruct (bufs_find r p) as [j|] eqn:F; [|discriminate]. intro H. inversion H; subst.
    destruct (IH p j F) as [b' [N Q]]. exists b'. split; assumption.
Qed.

Lemma bufs_find_none : forall bufs p, bufs_find bufs p = None -> forall b, In b bufs -> b_path b <> p.
Proof.
  induction bufs as [|b r IH]; intros p H b' I; [destruct I|]. cbn [bufs_find] in H.
  destruct (Nat.eqb_spec (b_path b) p) as [P|P]; [discriminate|].
  destruct (bufs_find r p) eqn:F; [discriminate|]. destruct I as [I|I]; [subst; exact P | exact (IH p F b' I)].
Qed.

Lemma bufs_switch_perm bufs i : Permutation (bufs_switch bufs i) bufs.
Proof.
  unfold bufs_switch. destruct (nth_error bufs i) as [b|] eqn:N; [|apply Permutation_refl].
  destruct (nth_error_split bufs i N) as [l1 [l2 [E L]]]. subst bufs i.
  rewrite firstn_app, firstn_all, Nat.sub_diag. cbn [firstn]. rewrite app_nil_r.
  replace (skipn (S (length l1)) (l1 ++ b :: l2)) with l2.
  - apply Permutation_middle.
  - change (S (length l1)) with (1 + length l1). rewrite Nat.add_comm.
    rewrite <- skipn_skipn. rewrite skipn_app, skipn_all, Nat.sub_diag. reflexivity.
Qed.

(* the lookup through bufs_find gives the same stamp as the own-path test exactly for the current path and
   for paths that are open nowhere else *)
Lemma stamp_by_find_agrees b0 rest path :
  path = b_path b0 \/ bufs_find rest path = None ->
  stamp_by_find (b0 :: rest) path = excuse_stamp (b0 :: rest) path.
Proof.
  unfold stamp_by_find, excuse_stamp. cbn [bufs_find].
  destruct (Nat.eqb_spec (b_path b0) path) as [P|P]; [reflexivity|].
  intros [H|H]; [congruence|]. rewrite H. reflexivity.
Qed.

(* ------------------------------------------------------------------ ec_write over the table *)
(* for ANY table: `refused` <=> the guard with the CURRENT slot's stamp (own path) or 0 (any other path, open
   in another slot or not); a refusal changes nothing; no slot but slot 0 is ever touched *)
Lemma write_t_char now isx force rng lk a b0 rest fs sch path st bufs' fs' r :
  path_of_arg (b0 :: rest) a = Some path -> skips isx b0 = false ->
  ec_write_t now isx force rng lk a (b0 :: rest) fs sch = (st, bufs', fs', r) ->
  (st = SRefused <-> refuses force (excuse_stamp (b0 :: rest) path) (mtime_of lk fs path) = true) /\
  (st = SRefused -> bufs' = b0 :: rest /\ fs' = fs /\ r = sch) /\
  tl bufs' = rest.
Proof.
  intros PA SK. unfold ec_write_t. fold (skips isx b0). rewrite SK, PA.
  destruct (ec_write_l now isx force rng lk path b0 fs sch) as [[[st0 b0'] fs0] r0] eqn:E.
  destruct (ec_write_l_refused_iff _ _ _ _ _ _ _ _ _ _ _ _ _ SK E) as [A B].
  intro H. inversion H; subst. split; [exact A|]. split; [|reflexivity].
  intro X. destruct (B X) as [B1 [B2 B3]]. subst. repeat split.
Qed.

(* the guard clause over the table: without `!`, a target that exists and is not the current buffer's own
   path -- whatever else the table holds --, or is the own path with a newer stamp, or the own path recorded
   as absent, is refused with nothing consumed and nothing changed *)
Lemma guard_table now isx rng lk a b0 rest fs sch path c m :
  path_of_arg (b0 :: rest) a = Some path ->
  target lk fs path = Some (c, m) -> (0 <= m)%Z ->
  (path <> b_path b0 \/ (m > b_mtime b0)%Z \/ b_mtime b0 = (-1)%Z) -> skips isx b0 = false ->
  ec_write_t now isx false rng lk a (b0 :: rest) fs sch = (SRefused, b0 :: rest, fs, sch).
Proof.
  intros PA G H0 H SK. unfold ec_write_t. fold (skips isx b0). rewrite SK, PA.
  rewrite (guard_write_l now isx rng lk path b0 fs sch c m G H0 H SK). reflexivity.
Qed.

(* in particular a target that is open in ANOTHER slot, by name or as `#`: the stamp that slot remembers
   (b_mtime bi, not constrained here: it may well equal the file's) does not excuse anything *)
Lemma guard_table_other_slot now isx rng lk b0 rest fs sch i bi c m :
  nth_error rest i = Some bi -> b_path bi <> b_path b0 ->
  target lk fs (b_path bi) = Some (c, m) -> (0 <= m)%Z -> skips isx b0 = false ->
  ec_write_t now isx false rng lk (AName (b_path bi)) (b0 :: rest) fs sch = (SRefused, b0 :: rest, fs, sch) /\
  (i = 0 -> ec_write_t now isx false rng lk AAlt (b0 :: rest) fs sch = (SRefused, b0 :: rest, fs, sch)).
Proof.
  intros N P G H0 SK. split.
  - exact (guard_table now isx rng lk (AName (b_path bi)) b0 rest fs sch (b_path bi) c m eq_refl G H0 (or_introl P) SK).
  - intro I. subst i. destruct rest as [|b1 rest']; [discriminate|]. cbn in N. inversion N; subst b1.
    exact (guard_table now isx rng lk AAlt b0 (bi :: rest') fs sch (b_path bi) c m eq_refl G H0 (or_introl P) SK).
Qed.

(* wq / x / xa [path] without `!`: no quit, the refusal is shown, table and directory untouched *)
Lemma guard_quit_table now isx all lk a b0 rest fs sch path c m :
  path_of_arg (b0 :: rest) a = Some path ->
  target lk fs path = Some (c, m) -> (0 <= m)%Z ->
  (path <> b_path b0 \/ (m > b_mtime b0)%Z \/ b_mtime b0 = (-1)%Z) -> skips isx b0 = false ->
  ec_quit_t now true isx all false lk a (b0 :: rest) fs sch = (false, SRefused, b0 :: rest, fs, sch).
Proof.
  intros PA G H0 H SK. unfold ec_quit_t.
  rewrite (guard_table now isx None lk a b0 rest fs sch path c m PA G H0 H SK). reflexivity.
Qed.

(* with one buffer and no argument the table functions are the functions over names *)
Lemma ec_write_t_single now isx force rng lk bf fs sch :
  ec_write_t now isx force rng lk ANone [bf] fs sch =
  let '(st, bf', fs', r) := ec_write_l now isx force rng lk (b_path bf) bf fs sch in (st, [bf'], fs', r).
Proof.
  unfold ec_write_t. cbn [path_of_arg]. destruct (isx && negb (b_dirty bf)) eqn:SK; [|reflexivity].
  unfold ec_write_l. rewrite SK. reflexivity.
Qed.
Lemma ec_quit_t_none now wr isx all bang lk b0 rest fs sch :
  ec_quit_t now wr isx all bang lk ANone (b0 :: rest) fs sch = ec_quit_l now wr isx all bang lk (b0 :: rest) fs sch.
Proof.
  unfold ec_quit_t, ec_quit_l, ec_write_t. cbn [path_of_arg]. destruct wr; [|reflexivity].
  destruct (isx && negb (b_dirty b0)) eqn:SK.
  - unfold ec_write_l. rewrite SK. reflexivity.
  - destruct (ec_write_l now isx bang None lk (b_path b0) b0 fs sch) as [[[st b0'] fs'] r]. destruct st; reflexivity.
Qed.

(* ------------------------------------------------------------------ ec_edit over the table *)
(* :e[!] path / % / #: the path becomes the current slot's; a buffer that was open keeps its record (lines,
   recorded stamp, dirty flag: nothing is read again), a new one records mtime() of the name; the other
   slots are kept (up to the capacity of the table) *)
Lemma edit_t_current bang lk fs a bufs p bufs' :
  a <> ANone -> path_of_arg bufs a = Some p ->
  ec_edit_t bang lk fs a bufs = (SOk, bufs') ->
  exists b0 rest, bufs' = b0 :: rest /\ b_path b0 = p /\
    (forall i, bufs_find bufs p = Some i -> nth_error bufs i = Some b0 /\ Permutation bufs' bufs) /\
    (bufs_find bufs p = None -> b0 = ec_edit_l lk fs p /\ b_mtime b0 = mtime_of lk fs p /\
                                (length bufs < NB -> rest = bufs)).
Proof.
  intros NA PA. unfold ec_edit_t.
  destruct (match bufs with b0 :: _ => negb bang && b_dirty b0 | [] => false end); [discriminate|].
  match goal with |- ?L = _ -> _ => assert (L = match bufs_find bufs p with Some i => (SOk, bufs_switch bufs i) | None => (SOk, bufs_push bufs (ec_edit_l lk fs p)) end) as -> end.
  { destruct a; try congruence; rewrite ?PA; destruct bufs; try reflexivity; rewrite PA; reflexivity. }
  destruct (bufs_find bufs p) as [i|] eqn:F; intro H; inversion H; subst bufs'; clear H.
  - destruct (bufs_find_some bufs p i F) as [b [N Q]]. unfold bufs_switch. rewrite N.
    exists b, (firstn i bufs ++ skipn (S i) bufs). split; [reflexivity|]. split; [exact Q|]. split; [|discriminate].
    intros j J. inversion J; subst j. split; [exact N|].
    pose proof (bufs_switch_perm bufs i) as PM. unfold bufs_switch in PM. rewrite N in PM. exact PM.
  - unfold bufs_push. eexists; eexists. split; [reflexivity|]. split; [reflexivity|]. split; [discriminate|].
    intros _. split; [reflexivity|]. split; [reflexivity|]. intro L.
    destruct (Nat.leb_spec NB (length bufs)); [lia | reflexivity].
Qed.

(* :e[!] without argument: the current buffer records mtime() of its own name again and is clean *)
Lemma edit_t_reload lk fs b0 rest :
  exists b0', ec_edit_t true lk fs ANone (b0 :: rest) = (SOk, b0' :: rest) /\
    b_path b0' = b_path b0 /\ b_mtime b0' = mtime_of lk fs (b_path b0) /\ b_dirty b0' = false.
Proof. unfold ec_edit_t. cbn [negb andb]. eexists. split; [reflexivity|]. repeat split. Qed.
