(* Properties_C09.v -- C09: repeat, macro and count.  Statements only; every proof is `exact <lemma>`.
   The model (coq/InputQueue.v) is the input side of term.c / vi.c for keys of any type K and ANY command
   interpreter `exec` that obtains its keys by reading a prefix of the pending input (it is handed the
   stream ibuf ++ terminal input and says how many keys it read: prefix_consuming by construction) and
   answers with a request: nothing, "I was a change command", "repeat" (N.), or "run these keys" (N@r).
   `run` is the loop of vi() until the input is used up; None = a push did not fit into ibuf (pending
   input above 4 KiB: outside the property's quantifier) or out of fuel. *)
From Coq Require Import List NArith ZArith Bool Arith.
From NV Require Import GenConsts InputQueue RepeatProps.
Import ListNotations.
Local Open Scope nat_scope.

(* after a change command the repeat buffer holds exactly the keys that command read (count and
   register prefix included: they are read after the record was cut), if shorter than the buffers *)
Theorem C09_record_faithful : forall K E (exec : E -> list K -> E * nat * act K) (s : st K E) e1 k,
  exec (ed s) (stream (q s)) = (e1, k, AChange) -> k <= length (stream (q s)) -> S k < REPSZ -> k <= ICMD ->
  rep (step exec s) = firstn k (stream (q s)) /\ ed (step exec s) = e1 /\
  stream (q (step exec s)) = skipn k (stream (q s)).
Proof. exact record_faithful. Qed.
Print Assumptions C09_record_faithful.

(* `N.` : the rest of the session ends exactly as if the recorded keys had been typed at the terminal
   max(1,N) times in place of `N.` -- in EVERY state of the queue (also inside a running macro), provided
   the push is not clipped (`fits`: the keys pushed since the queue was last empty total at most IBUFSZ) *)
Theorem C09_dot_is_retyping : forall K E (exec : E -> list K -> E * nat * act K) (s : st K E) e1 k n fuel r,
  exec (ed s) (stream (q s)) = (e1, k, ADot n) -> fits exec s = true ->
  run exec fuel (step exec s) = Some r ->
  run exec fuel (retyped K E s e1 k (rpt K (Nat.max 1 n) (rep s))) = Some r.
Proof. exact dot_is_retyping. Qed.
Print Assumptions C09_dot_is_retyping.

(* `N@r` : as if the register's contents had been typed max(1,N) times *)
Theorem C09_exec_is_typing : forall K E (exec : E -> list K -> E * nat * act K) (s : st K E) e1 k b n fuel r,
  exec (ed s) (stream (q s)) = (e1, k, APush b n) -> fits exec s = true ->
  run exec fuel (step exec s) = Some r ->
  run exec fuel (retyped K E s e1 k (rpt K (Nat.max 1 n) b)) = Some r.
Proof. exact exec_is_typing. Qed.
Print Assumptions C09_exec_is_typing.

(* the two queues behave as the single stream ibuf ++ terminal input *)
Theorem C09_queue_is_stream : forall K E (exec : E -> list K -> E * nat * act K) (s : st K E) fuel r,
  run exec fuel s = Some r ->
  run exec fuel {| q := {| used := 0; ibuf := []; tin := stream (q s); icmd := [] |}; rep := rep s; ed := ed s |} = Some r.
Proof. exact queue_is_stream. Qed.
Print Assumptions C09_queue_is_stream.

(* pushes are clipped to the room left, sizeof(ibuf) - ibuf_cnt, where ibuf_cnt (`filled`) counts the keys
   pushed since the queue was last empty, read or not: the buffer never exceeds its size, and a push
   that fits is stored whole in front of the unread keys *)
Theorem C09_capacity : forall K (qq : tq K) s n, filled qq <= IBUF ->
  filled (push_n n qq s) <= IBUF /\
  filled (term_push qq s) = Nat.min (filled qq + length s) IBUF /\
  (n * length s <= IBUF - filled qq ->
   ibuf (push_n n qq s) = rpt K n s ++ ibuf qq /\ tin (push_n n qq s) = tin qq /\ used (push_n n qq s) = used qq).
Proof. intros K qq s n H. split; [now apply push_n_capacity|]. split; [now apply term_push_clip|]. apply push_n_fits. Qed.
Print Assumptions C09_capacity.

(* the behaviour before /repo d3797a0 / 098bcee (append behind the unread keys) does not have the stream property *)
Theorem C09_nested_push_refuted :
  exists (qq : tq nat) (s : list nat),
    stream (term_push_append qq s) <> s ++ stream qq /\ stream (term_push qq s) = s ++ stream qq.
Proof. exact append_push_refuted. Qed.
Print Assumptions C09_nested_push_refuted.

(* non-vacuity: the token instance runs a program with a change, `2.`, a macro containing a nested `.`,
   and `@@`; what reaches the interpreter is the retyped program *)
Example C09_nonvacuous :
  let m := fun r => if (r =? 109)%N then Some [TKeys [119]; TDot 0; TChange [114; 90]]%N else None in
  tok_run 100 m [TChange [120]; TDot 2; TExec 0 109; TExec 2 64]%N
  = Some [120; 120; 120; 119; 120; 114; 90; 119; 114; 90; 114; 90; 119; 114; 90; 114; 90]%N.
Proof. vm_compute. reflexivity. Qed.

(* ====================================================================================================== *)
(* The same statements with NO interpreter left abstract: keys are the raw bytes of a vi session, the   *)
(* interpreter is ViKeys.vi_exec = the tokenizer of the vi key grammar (coq/ViKeys.v, mirror of vi(),   *)
(* vi_prefix, vc_motion, vi_motion, vc_insert / led_line of /repo) followed by ViDefs.exec1 (C08) on the *)
(* state (text, cursor, registers).  [vis] = that state (None = a key outside the modelled command set   *)
(* was met) + the `static int reg` of vc_execute.                                                        *)
(* ====================================================================================================== *)
From NV Require Import Bytes MotDefs RegDefs ViDefs ViKeys ViKeysProps RepeatVi.

(* (a) + (b) the tokenizer consumes a non-empty PREFIX of the pending keys and never looks beyond it:
   the same prefix followed by anything else is the same command (so a recorded command is read as that
   one command again wherever it is replayed) *)
Theorem C09_tokenizer_prefix_local : forall s c rest, next_command s = Some (c, rest) ->
  exists pre, s = pre ++ rest /\ 1 <= length pre /\ forall t, next_command (pre ++ t) = Some (c, t).
Proof. exact next_command_local. Qed.
Print Assumptions C09_tokenizer_prefix_local.

(* (b) the interpreter reads at least one and at most all pending keys, and its result does not depend on
   the keys behind the ones it consumed *)
Theorem C09_vi_exec_prefix_consuming : forall rows v s v' k a, vi_exec rows v s = (v', k, a) ->
  k <= length s /\ (s <> [] -> 1 <= k) /\
  (vi_est v' <> None -> forall t, vi_exec rows v (firstn k s ++ t) = (v', k, a)).
Proof.
  intros rows v s v' k a H. destruct (vi_exec_bound _ _ _ _ _ _ H) as [A B]. split; [exact A|]. split; [exact B|].
  intros N t. now apply vi_exec_local.
Qed.
Print Assumptions C09_vi_exec_prefix_consuming.

(* (b) syntax-directed consumption: the keys of one command are consumed as exactly that command in EVERY
   editor state and context -- unless it is a `c` whose motion fails in that state (next theorem) *)
Theorem C09_vi_exec_syntax_directed : forall rows v e pre c t, vi_est v = Some e -> next_command pre = Some (c, []) ->
  failing_change rows e c = false ->
  vi_exec rows v (pre ++ t) = (fst (apply_cmd rows v e c), length pre, snd (apply_cmd rows v e c)).
Proof. exact vi_exec_syntax_directed. Qed.
Print Assumptions C09_vi_exec_syntax_directed.

(* (b) a program without `.` and `@` whose `c` motions all succeed, run through the loop of vi() on the
   input queue, ends exactly as ViDefs.exec folded over its tokenisation *)
Theorem C09_run_is_exec_vi : forall rows fuel keys ks cs e (s : st N vis) lr n,
  tokens fuel keys = Some ks -> cmds_of ks = Some cs -> changes_ok rows cs e = true ->
  stream (q s) = keys -> ed s = mk_vis (Some e) lr -> length keys <= n ->
  InputQueue.run (vi_exec rows) n s = Some (mk_vis (exec rows cs e) lr).
Proof. exact run_is_exec. Qed.
Print Assumptions C09_run_is_exec_vi.

(* (c) the exception, as vc_motion behaves: after `c` + a motion that fails in the current state only the
   head (register, counts, c, motion) is consumed and recorded; the text typed after it is still in the
   queue and runs as commands *)
Theorem C09_failing_change_vi : forall rows (s : st N vis) e y a1 a2 t hd rest,
  vi_est (ed s) = Some e -> stream (q s) = hd ++ rest -> scan P0 hd = Some (HChange y a1 a2 t, []) ->
  target_fails rows e a1 a2 t = true -> S (length hd) < REPSZ -> length hd <= ICMD ->
  rep (InputQueue.step (vi_exec rows) s) = hd /\ stream (q (InputQueue.step (vi_exec rows) s)) = rest /\
  ed (InputQueue.step (vi_exec rows) s) = mk_vis (exec1 rows (COp y a1 Oc a2 t []) e) (vi_lastreg (ed s)).
Proof. exact record_failing_change_vi. Qed.
Print Assumptions C09_failing_change_vi.

(* after a command of the repeatable set the repeat buffer holds exactly the keys of that command *)
Theorem C09_record_faithful_vi : forall rows (s : st N vis) e c pre rest,
  vi_est (ed s) = Some e -> stream (q s) = pre ++ rest -> next_command pre = Some (c, []) ->
  is_change c = true -> failing_change rows e c = false -> S (length pre) < REPSZ -> length pre <= ICMD ->
  rep (InputQueue.step (vi_exec rows) s) = pre /\ ed (InputQueue.step (vi_exec rows) s) = fst (apply_cmd rows (ed s) e c) /\
  stream (q (InputQueue.step (vi_exec rows) s)) = rest.
Proof. exact record_vi. Qed.
Print Assumptions C09_record_faithful_vi.

(* `N.` met in ANY state of the queue (typed at the terminal or inside a running macro), no push clipped:
   the session ends in the same state (text, cursor, registers) as if the recorded keys had been typed
   max(1,N) times in its place *)
Theorem C09_dot_is_retyping_vi : forall rows (s : st N vis) e n pre rest fuel r,
  vi_est (ed s) = Some e -> stream (q s) = pre ++ rest -> next_command pre = Some (KDot n, []) ->
  fits (vi_exec rows) s = true -> InputQueue.run (vi_exec rows) fuel (InputQueue.step (vi_exec rows) s) = Some r ->
  InputQueue.run (vi_exec rows) fuel (typed_at (rpt N (Nat.max 1 (cnt_of n)) (rep s) ++ rest) (rep s)
                                    (mk_vis (Some (nop rows e)) (vi_lastreg (ed s)))) = Some r.
Proof. exact dot_is_retyping_vi. Qed.
Print Assumptions C09_dot_is_retyping_vi.

(* `N@x` (x named, or the last executed register for @@): as if the register's contents had been typed max(1,N) times *)
Theorem C09_exec_is_typing_vi : forall rows (s : st N vis) e n r0 x txt ln pre rest fuel r,
  vi_est (ed s) = Some e -> stream (q s) = pre ++ rest -> next_command pre = Some (KExec n r0, []) ->
  (if (r0 =? 64)%N then vi_lastreg (ed s) else Some r0) = Some x -> reg_get (s_regs e) x = Some (txt, ln) ->
  fits (vi_exec rows) s = true -> InputQueue.run (vi_exec rows) fuel (InputQueue.step (vi_exec rows) s) = Some r ->
  InputQueue.run (vi_exec rows) fuel (typed_at (rpt N (Nat.max 1 (cnt_of n)) txt ++ rest) (rep s) (mk_vis (Some (nop rows e)) (Some x))) = Some r.
Proof. exact exec_is_typing_vi. Qed.
Print Assumptions C09_exec_is_typing_vi.

(* the property as typed: a change command (any prefix, count, text) followed by `N.` = that command's
   keystrokes typed 1 + max(1,N) times *)
Theorem C09_change_then_dot_vi : forall rows (s : st N vis) e e1 c pre n dot rest fuel r,
  vi_est (ed s) = Some e -> stream (q s) = pre ++ dot ++ rest ->
  next_command pre = Some (c, []) -> is_change c = true -> failing_change rows e c = false ->
  S (length pre) < REPSZ -> length pre <= ICMD ->
  vi_est (fst (apply_cmd rows (ed s) e c)) = Some e1 ->
  next_command dot = Some (KDot n, []) ->
  fits (vi_exec rows) (InputQueue.step (vi_exec rows) s) = true ->
  InputQueue.run (vi_exec rows) fuel (InputQueue.step (vi_exec rows) (InputQueue.step (vi_exec rows) s)) = Some r ->
  InputQueue.run (vi_exec rows) fuel (typed_at (rpt N (Nat.max 1 (cnt_of n)) pre ++ rest) pre
        (mk_vis (Some (nop rows e1)) (vi_lastreg (fst (apply_cmd rows (ed s) e c))))) = Some r.
Proof. exact change_then_dot_vi. Qed.
Print Assumptions C09_change_then_dot_vi.

(* non-vacuity on raw keys: a file of two lines, the second is xw; the keys j, yank-to-end into register a, k
   load register a with xw; then 2dw into register b, the dot command, at-a, at-at: the session equals the
   retyped one (2dw twice, then xw xw), and both stay inside the model *)
Example C09_vi_nonvacuous :
  let file := buf_of_bytes [97;98;32;99;100;32;101;102;32;103;104;32;105;32;106;32;107;10;120;119;10]%N in
  let show := fun o => match o with Some v => match vi_est v with Some e => Some (s_buf e, v_row (s_vs e), v_off (s_vs e)) | None => None end | None => None end in
  show (vi_session 23 100 file [106;34;97;121;36;107; 34;98;50;100;119; 46; 64;97; 64;64]%N) =
  show (vi_session 23 100 file [106;34;97;121;36;107; 34;98;50;100;119; 34;98;50;100;119; 120;119; 120;119]%N) /\
  show (vi_session 23 100 file [106;34;97;121;36;107; 34;98;50;100;119; 46; 64;97; 64;64]%N) <> None.
Proof. vm_compute. split; [reflexivity|discriminate]. Qed.

(* ====================================================================================================== *)
(* The queue as C TEXT.  tools/c2clite.py translates term_push, term_read and term_cmd of /repo's term.c  *)
(* and the statics ibuf, ibuf_pos, ibuf_cnt, icmd, icmd_pos into terms of the checked C semantics         *)
(* CLite.v (GenCFuncs.v); coq/TrTerm.v proves that running them moves the queue read off the memory       *)
(* (TrTerm.queue_of: used = ibuf_pos, ibuf = the cells ibuf[ibuf_pos .. ibuf_cnt), icmd = the cells       *)
(* icmd[0 .. icmd_pos)) exactly as the model term_push / term_read / term_cmd of InputQueue.v -- about     *)
(* which C09_capacity, C09_queue_is_stream and the retyping theorems speak -- says.  A change of the C     *)
(* functions changes the terms, hence the statements that have to be proved.                              *)
(* ====================================================================================================== *)
From NV Require CLite CLiteProps GenCFuncs TrTerm.

(* term_push(s, n) in EVERY memory whose statics satisfy 0 <= ibuf_pos <= ibuf_cnt <= sizeof(ibuf) (TrTerm.term_at),
   for every source of n >= 0 cells in another block: the call returns (so the memmove and the memcpy stayed inside
   ibuf and inside s), the invariant holds again with ibuf_cnt + min(n, sizeof(ibuf) - ibuf_cnt), and the queue is the
   model's: the pushed keys, clipped to the room left, stand in FRONT of the unread ones (after /repo d3797a0,
   098bcee), the read position is not moved *)
Theorem C09_tr_term_push : forall (m : CLite.mem) pos cnt ib ip ic bs os (sblk : CLite.block) n d fuel (tin : list CLite.val),
  TrTerm.term_at m pos cnt ib ip ic -> nth_error m bs = Some sblk -> bs <> GenCFuncs.G_ibuf ->
  (0 <= n <= 2147483647)%Z -> (0 <= os)%Z -> (os + n <= Z.of_nat (length sblk))%Z ->
  let k := Z.min n (IBUFSZ - cnt) in
  let s := firstn (Z.to_nat n) (skipn (Z.to_nat os) sblk) in
  exists m' ib',
    CLite.callf GenCFuncs.cprog fuel (S d) GenCFuncs.F_term_push [CLite.VPtr bs os; CLite.VInt n] m = CLite.Ok (CLite.VUndef, m') /\
    TrTerm.term_at m' pos (cnt + k)%Z ib' ip ic /\
    TrTerm.queue_of pos (cnt + k)%Z ib' ip ic tin = term_push (TrTerm.queue_of pos cnt ib ip ic tin) s /\
    TrTerm.unread pos (cnt + k)%Z ib' = firstn (Z.to_nat k) s ++ TrTerm.unread pos cnt ib.
Proof.
  intros m pos cnt ib ip ic bs os sblk n d fuel tin H1 H2 H3 H4 H5 H6 k s.
  destruct (TrTerm.term_push_refines m pos cnt ib ip ic bs os sblk n d fuel tin H1 H2 H3 H4 H5 H6)
    as (m' & ib' & A & B & C & D & _). exists m', ib'. split; [exact A|]. split; [exact B|]. split; [exact C|exact D].
Qed.
Print Assumptions C09_tr_term_push.

(* term_read() while a key is queued (the other path calls poll/read: outside the translated subset): the head of the
   model's queue is returned as unsigned char, the queue and the record move as the model's term_read says *)
Theorem C09_tr_term_read_queued : forall (m : CLite.mem) pos cnt ib ip ic z d fuel (tin : list CLite.val),
  TrTerm.term_at m pos cnt ib ip ic -> (pos < cnt)%Z -> nth_error ib (Z.to_nat pos) = Some (CLite.VInt z) -> (-128 <= z <= 127)%Z ->
  let ip' := if (ip <? ICMDSZ)%Z then (ip + 1)%Z else ip in
  let ic' := if (ip <? ICMDSZ)%Z then CLiteProps.upd ic (Z.to_nat ip) (CLite.VInt z) else ic in
  exists m',
    CLite.callf GenCFuncs.cprog fuel (S d) GenCFuncs.F_term_read [] m = CLite.Ok (CLite.VInt (z mod 256), m') /\
    TrTerm.term_at m' (pos + 1)%Z cnt ib ip' ic' /\
    term_read (TrTerm.queue_of pos cnt ib ip ic tin) = Some (CLite.VInt z, TrTerm.queue_of (pos + 1)%Z cnt ib ip' ic' tin).
Proof.
  intros m pos cnt ib ip ic z d fuel tin H1 H2 H3 H4 ip' ic'.
  destruct (TrTerm.term_read_refines m pos cnt ib ip ic z d fuel tin None H1 H2 H3 H4) as (m' & A & B & C & _).
  exists m'. split; [exact A|]. split; [exact B|exact C].
Qed.
Print Assumptions C09_tr_term_read_queued.

(* term_cmd(&n): *n = the length of the model's record, the array returned holds the record in its first *n cells,
   the record restarts empty; the queue is untouched *)
Theorem C09_tr_term_cmd : forall (m : CLite.mem) pos cnt ib ip ic bn on (nblk : CLite.block) d fuel (tin : list CLite.val),
  TrTerm.term_at m pos cnt ib ip ic -> nth_error m bn = Some nblk ->
  bn <> GenCFuncs.G_ibuf -> bn <> GenCFuncs.G_ibuf_pos -> bn <> GenCFuncs.G_ibuf_cnt -> bn <> GenCFuncs.G_icmd -> bn <> GenCFuncs.G_icmd_pos ->
  (0 <= on < Z.of_nat (length nblk))%Z ->
  exists m',
    CLite.callf GenCFuncs.cprog fuel (S d) GenCFuncs.F_term_cmd [CLite.VPtr bn on] m = CLite.Ok (CLite.VPtr GenCFuncs.G_icmd 0%Z, m') /\
    TrTerm.term_at m' pos cnt ib 0%Z ic /\ CLite.load m' bn on = CLite.Ok (CLite.VInt ip) /\
    term_cmd (TrTerm.queue_of pos cnt ib ip ic tin) = (firstn (Z.to_nat ip) ic, TrTerm.queue_of pos cnt ib 0%Z ic tin).
Proof.
  intros m pos cnt ib ip ic bn on nblk d fuel tin H1 H2 N1 N2 N3 N4 N5 H3.
  destruct (TrTerm.term_cmd_refines m pos cnt ib ip ic bn on nblk d fuel tin H1 H2 N1 N2 N3 N4 N5 H3) as (m' & A & B & C & D & _).
  exists m'. split; [exact A|]. split; [exact B|]. split; [exact C|exact D].
Qed.
Print Assumptions C09_tr_term_cmd.

(* non-vacuity: the program's zero-initialised statics satisfy the invariant, and the translated functions RUN on
   that memory: push "abc", push "xy" -- the second push lands in front of the first: ibuf = x y a b c --, a read
   returns 'x' and records it, a third push "abc" goes between the read key and the unread ones: x|a b c y a b c;
   term_cmd hands out the record of length 1.  The last line: a push of sizeof(ibuf) + 904 cells into the empty queue is
   clipped to sizeof(ibuf) *)
Example C09_tr_term_push_runs :
  let G := length GenCFuncs.cglobals in
  let m0 := GenCFuncs.cglobals ++ [map CLite.VInt [97; 98; 99]%Z; map CLite.VInt [120; 121]%Z; [CLite.VUndef]; repeat (CLite.VInt 65%Z) (Z.to_nat (IBUFSZ + 904))] in
  let run f args m := CLite.callf GenCFuncs.cprog 10 1 f args m in
  TrTerm.term_at m0 0%Z 0%Z GenCFuncs.gb_ibuf 0%Z GenCFuncs.gb_icmd /\
  match run GenCFuncs.F_term_push [CLite.VPtr G 0%Z; CLite.VInt 3%Z] m0 with
  | CLite.Ok (_, m1) =>
    match run GenCFuncs.F_term_push [CLite.VPtr (G + 1) 0%Z; CLite.VInt 2%Z] m1 with
    | CLite.Ok (_, m2) =>
      TrTerm.peek m2 GenCFuncs.G_ibuf 6 = map CLite.VInt [120; 121; 97; 98; 99; 0]%Z /\
      TrTerm.peek1 m2 GenCFuncs.G_ibuf_pos = Some 0%Z /\ TrTerm.peek1 m2 GenCFuncs.G_ibuf_cnt = Some 5%Z /\
      match run GenCFuncs.F_term_read [] m2 with
      | CLite.Ok (c, m3) =>
        c = CLite.VInt 120%Z /\ TrTerm.peek1 m3 GenCFuncs.G_ibuf_pos = Some 1%Z /\
        match run GenCFuncs.F_term_push [CLite.VPtr G 0%Z; CLite.VInt 3%Z] m3 with
        | CLite.Ok (_, m4) =>
          TrTerm.peek m4 GenCFuncs.G_ibuf 9 = map CLite.VInt [120; 97; 98; 99; 121; 97; 98; 99; 0]%Z /\
          TrTerm.peek1 m4 GenCFuncs.G_ibuf_pos = Some 1%Z /\ TrTerm.peek1 m4 GenCFuncs.G_ibuf_cnt = Some 8%Z /\
          match run GenCFuncs.F_term_cmd [CLite.VPtr (G + 2) 0%Z] m4 with
          | CLite.Ok (p, m5) =>
            p = CLite.VPtr GenCFuncs.G_icmd 0%Z /\ TrTerm.peek m5 (G + 2) 1 = [CLite.VInt 1%Z] /\
            TrTerm.peek m5 GenCFuncs.G_icmd 1 = [CLite.VInt 120%Z] /\ TrTerm.peek1 m5 GenCFuncs.G_icmd_pos = Some 0%Z
          | _ => False end
        | _ => False end
      | _ => False end
    | _ => False end
  | _ => False end /\
  match run GenCFuncs.F_term_push [CLite.VPtr (G + 3) 0%Z; CLite.VInt (IBUFSZ + 904)%Z] m0 with
  | CLite.Ok (_, m1) => TrTerm.peek1 m1 GenCFuncs.G_ibuf_cnt = Some IBUFSZ /\ TrTerm.peek m1 GenCFuncs.G_ibuf (Z.to_nat (IBUFSZ + 904)) = repeat (CLite.VInt 65%Z) (Z.to_nat IBUFSZ)
  | _ => False end.
Proof. cbv zeta. split; [exact (TrTerm.term_at_start _)|]. vm_compute. repeat split; reflexivity. Qed.

(* ---------------------------------------------------------------------------------------------- *)
(* TIE TO THE C TEXT, part 2 (coq/TrRepeat.v, TrRepeat2.v, TrRepeat3.v; tools/c2clite.d/99zzzzz_repeat.list): the key source of vi.c --
   vi_read / vi_back (the push-back stack vi_buf), the refill path of term_read (poll(2) / read(2) answered by a kernel oracle whose
   pending terminal bytes are a memory block), vi_yankbuf, vi_prefix, vc_repeat -- as translated by tools/c2clite.py.  `src` is the state of
   the source read off the memory (stack, ibuf_pos, ibuf_cnt, ibuf, icmd_pos, icmd, terminal bytes), `keys` the stream vi_read() delivers. *)
From NV Require CLiteExt TrRepeat TrRepeat2 TrRepeat3.
Import CLite CLiteProps GenCFuncs CLiteExt TrTerm TrRepeat TrRepeat2 TrRepeat3.
Local Open Scope Z_scope.

(* term_read() with nothing queued: one byte c from the terminal; ibuf_cnt = ibuf_pos = 1, c recorded in icmd when there is room *)
Theorem C09_tr_term_read_refill : forall ext kt (m : mem) pos cnt (ib : block) ip (ic : block) c rest d fuel,
  kernel_ext ext kt ->
  cell_at m G_ibuf_pos pos -> cell_at m G_ibuf_cnt cnt -> nth_error m G_ibuf = Some ib -> (0 < length ib)%nat ->
  cnt <= pos -> -2147483648 <= cnt -> pos <= 2147483647 ->
  tin_at m kt (c :: rest) ->
  kt <> G_ibuf -> kt <> G_ibuf_pos -> kt <> G_ibuf_cnt -> kt <> G_icmd -> kt <> G_icmd_pos ->
  cell_at m G_icmd_pos ip -> nth_error m G_icmd = Some ic -> Z.of_nat (length ic) = ICMDSZ -> 0 <= ip <= ICMDSZ ->
  callx ext cprog fuel (S (S d)) F_term_read [] m = Ok (VInt c, refill_mem m kt ib ip ic c rest).
Proof. exact tr_term_read_refill. Qed.
Print Assumptions C09_tr_term_read_refill.

(* ... and at the end of the terminal's input: -1, nothing recorded, the queue untouched *)
Theorem C09_tr_term_read_eof : forall ext kt (m : mem) pos cnt d fuel,
  kernel_ext ext kt -> cell_at m G_ibuf_pos pos -> cell_at m G_ibuf_cnt cnt ->
  cnt <= pos -> -2147483648 <= cnt -> pos <= 2147483647 -> tin_at m kt [] ->
  callx ext cprog fuel (S (S d)) F_term_read [] m = Ok (VInt (-1), m ++ [ufds_blk]).
Proof. exact tr_term_read_eof. Qed.
Print Assumptions C09_tr_term_read_eof.

(* vi_read(): a pushed-back key first *)
Theorem C09_tr_vi_read_stack : forall ext (m : mem) k stk (vb : block) d fuel,
  vibuf_at m (k :: stk) vb ->
  callx ext cprog fuel (S d) F_vi_read [] m = Ok (VInt k, upd m G_vi_buflen [VInt (Z.of_nat (length stk))]).
Proof. exact tr_vi_read_stack. Qed.
Print Assumptions C09_tr_vi_read_stack.

(* vi_back(c): one more key on the stack (depth below the 128 ints of vi_buf; the C text's guard says sizeof = 512) *)
Theorem C09_tr_vi_back : forall ext (m : mem) c stk (vb : block) d fuel,
  vibuf_at m stk vb -> (length stk < VIBUF)%nat -> -2147483648 <= c <= 2147483647 ->
  callx ext cprog fuel (S d) F_vi_back [VInt c] m
  = Ok (VUndef, upd (upd m G_vi_buflen [VInt (Z.of_nat (S (length stk)))]) G_vi_buf (upd vb (length stk) (VInt c))).
Proof. exact tr_vi_back. Qed.
Print Assumptions C09_tr_vi_back.

(* one vi_read() on the C text over the kernel, in EVERY state of the source: the key and the state of the model vi_read_m (stack, else
   queue head -- recorded --, else one terminal byte -- recorded --, else -1), everything outside the eight blocks of the source kept *)
Theorem C09_tr_vi_read : forall ext kt (m : mem) (s : src) d fuel, kernel_ext ext kt -> kt_fresh kt -> src_at kt m s ->
  exists m', callx ext cprog fuel (S (S (S d))) F_vi_read [] m = Ok (VInt (fst (vi_read_m s)), m') /\
             src_at kt m' (snd (vi_read_m s)) /\ keeps kt m m'.
Proof. exact read_step. Qed.
Print Assumptions C09_tr_vi_read.

(* the source is a stream: a read takes the head of `keys` (or answers -1 at its end), a push-back conses *)
Theorem C09_tr_vi_read_keys : forall kt (m : mem) (s : src), src_at kt m s ->
  fst (vi_read_m s) = hd (-1) (keys s) /\ keys (snd (vi_read_m s)) = tl (keys s).
Proof. exact vi_read_keys. Qed.
Print Assumptions C09_tr_vi_read_keys.

(* the oracle that links X_vi_read / X_vi_back (the calls written in vi.c) to the translated vi_read / vi_back over the kernel satisfies
   the hypotheses of the theorems below *)
Theorem C09_tr_link : forall ext kt fuel d, kernel_ext ext kt -> kt_fresh kt ->
  reads_ok (link ext fuel (S (S (S d)))) kt /\ back_ok (link ext fuel (S (S (S d)))) kt.
Proof. intros ext kt fuel d Hk Hf. split; [exact (link_reads_ok ext kt fuel d Hk Hf)|exact (link_back_ok ext kt fuel d Hf)]. Qed.
Print Assumptions C09_tr_link.

(* vi_yankbuf(): the register prefix *)
Theorem C09_tr_vi_yankbuf : forall (ext : oracle) kt, reads_ok ext kt -> back_ok ext kt -> forall (m : mem) (s : src) d fuel, src_at kt m s ->
  exists m', callx ext cprog fuel (S (S d)) F_vi_yankbuf [] m = Ok (VInt (fst (vi_yankbuf_m s)), m') /\
             src_at kt m' (snd (vi_yankbuf_m s)) /\ keeps kt m m'.
Proof. exact tr_vi_yankbuf. Qed.
Print Assumptions C09_tr_vi_yankbuf.

(* vi_prefix(): the count, for digit strings of ANY length (the C text saturates below 10^9: no signed overflow is reached) *)
Theorem C09_tr_vi_prefix : forall (ext : oracle) kt, reads_ok ext kt -> back_ok ext kt -> forall (m : mem) (s : src) d fuel,
  src_at kt m s -> (S (S (length (keys s))) < fuel)%nat ->
  exists m', callx ext cprog fuel (S (S d)) F_vi_prefix [] m = Ok (VInt (fst (vi_prefix_m s)), m') /\
             src_at kt m' (snd (vi_prefix_m s)) /\ keeps kt m m' /\ 0 <= fst (vi_prefix_m s) < 1000000000.
Proof. exact tr_vi_prefix. Qed.
Print Assumptions C09_tr_vi_prefix.
(* its digit step is the step of the key automaton of ViKeys.v (PCnt / POpCnt) *)
Theorem C09_tr_digit_step : forall n (c : N), (48 <= c <= 57)%N -> digit_step n (Z.of_N c) = ViKeys.add_digit n c.
Proof. exact digit_step_add. Qed.
Print Assumptions C09_tr_digit_step.

(* vc_repeat(): max(1, vi_arg1) times term_push(rep_cmd, rep_len), for EVERY count *)
Theorem C09_tr_vc_repeat : forall (ext : oracle) kt, kt_fresh kt -> forall a1 rl (rb : block),
  -2147483648 <= a1 <= 2147483647 -> 0 <= rl <= Z.of_nat (length rb) -> rl <= 2147483647 -> chars_ok (firstn (Z.to_nat rl) rb) ->
  ~ src_block kt G_vi_arg1 -> ~ src_block kt G_rep_len -> ~ src_block kt G_rep_cmd ->
  forall (m : mem) (s : src) d fuel, src_at kt m s ->
  cell_at m G_vi_arg1 a1 -> cell_at m G_rep_len rl -> nth_error m G_rep_cmd = Some rb -> (Z.to_nat (Z.max 1 a1) < fuel)%nat ->
  exists m', callx ext cprog fuel (S (S d)) F_vc_repeat [] m = Ok (VUndef, m') /\
             src_at kt m' (push_n_m (Z.to_nat (Z.max 1 a1)) (firstn (Z.to_nat rl) rb) s) /\ keeps kt m m'.
Proof. exact tr_vc_repeat. Qed.
Print Assumptions C09_tr_vc_repeat.

(* the copies fit: afterwards vi_read() delivers the recorded keys N times, then what was pending ("N. = retyping N times") *)
Theorem C09_tr_push_n_keys : forall cells n (s : src), src_ok s -> Z.of_nat n * Z.of_nat (length cells) <= IBUFSZ - s_cnt s ->
  keys (push_n_m n cells s) = s_stk s ++ TrRepeat3.rpt n (map cell_key cells) ++ rest_keys s.
Proof. exact push_n_keys. Qed.
Print Assumptions C09_tr_push_n_keys.
(* the copies do NOT fit: the queue is full and holds sizeof(ibuf) - ibuf_cnt of the pushed cells: the tail of the repetition is dropped *)
Theorem C09_tr_push_n_clipped : forall cells n (s : src), src_ok s -> IBUFSZ - s_cnt s < Z.of_nat n * Z.of_nat (length cells) ->
  s_cnt (push_n_m n cells s) = IBUFSZ /\
  Z.of_nat (length (rest_keys (push_n_m n cells s))) = Z.of_nat (length (rest_keys s)) + (IBUFSZ - s_cnt s).
Proof. exact push_n_clipped. Qed.
Print Assumptions C09_tr_push_n_clipped.


(* non-vacuity: the program's zero-initialised statics plus a terminal block satisfy src_at (for every terminal input), the linked oracle
   over the kernel satisfies reads_ok / back_ok, and the translated functions RUN: with the terminal holding `12x`, vi_prefix() returns 12
   and leaves x pushed back (vi_buflen = 1, vi_buf[0] = 'x', the three keys recorded in icmd); the next vi_read() returns 'x'; with
   rep_cmd = "dw", rep_len = 2, vi_arg1 = 3 vc_repeat() leaves d w d w d w in ibuf, ibuf_cnt = 6 *)
Example C09_tr_repeat_nonvacuous : forall tin, Forall (fun c => 0 <= c < 256) tin ->
  src_at (length cglobals) (cglobals ++ [map VInt tin]) (mkSrc [] 0 0 gb_ibuf 0 gb_icmd tin) /\ kt_fresh (length cglobals) /\
  reads_ok (link (kern (length cglobals)) 50 5) (length cglobals) /\ back_ok (link (kern (length cglobals)) 50 5) (length cglobals).
Proof.
  intros tin H. split; [exact (src_at_start tin H)|]. split; [exact kt_fresh_start|].
  split; [exact (link_reads_ok _ _ 50 2 (kern_is_kernel _) kt_fresh_start)|exact (link_back_ok _ _ 50 2 kt_fresh_start)].
Qed.
Example C09_tr_repeat_runs :
  let kt := length cglobals in
  let m0 := cglobals ++ [map VInt [49; 50; 120]] in
  let ext := link (kern kt) 50 5 in
  match callx ext cprog 50 3 F_vi_prefix [] m0 with
  | Ok (v, m1) =>
    v = VInt 12 /\ peek1 m1 G_vi_buflen = Some 1 /\ peek m1 G_vi_buf 1 = [VInt 120] /\
    peek1 m1 G_icmd_pos = Some 3 /\ peek m1 G_icmd 3 = map VInt [49; 50; 120] /\
    match callx (kern kt) cprog 50 5 F_vi_read [] m1 with
    | Ok (c, m2) => c = VInt 120 /\ peek1 m2 G_vi_buflen = Some 0
    | _ => False end
  | _ => False end /\
  let mr a1 := upd (upd (upd m0 G_rep_cmd (VInt 100 :: VInt 119 :: skipn 2 gb_rep_cmd)) G_rep_len [VInt 2]) G_vi_arg1 [VInt a1] in
  match callx (kern kt) cprog 50 3 F_vc_repeat [] (mr 3) with
  | Ok (_, m1) => peek m1 G_ibuf 7 = map VInt [100; 119; 100; 119; 100; 119; 0] /\ peek1 m1 G_ibuf_cnt = Some 6 /\ peek1 m1 G_ibuf_pos = Some 0
  | _ => False end.
Proof. vm_compute. repeat split; reflexivity. Qed.

(* ---------------------------------------------------------------------------------------------- *)
(* KNOWN FINDING KF-PUSH-CLIP (KNOWN_FINDINGS.txt; design.d/C09.md): "N. = retyping N times" does NOT hold for all counts.
   C09_push_clip_refuted: there is a state of the key source (the one right after the keys `x` `4096` `.` were typed: ibuf_pos = ibuf_cnt = 1,
   nothing pending), a recorded command shorter than the 4 KiB buffers (the one key `x`) and a count N = 4096 such that the keys delivered after
   vc_repeat's pushes -- push_n_m, which C09_tr_vc_repeat proves is what the translated C text of vc_repeat() leaves for EVERY count -- are NOT
   the recorded keys N times followed by what was pending (4095 keys arrive).  So the full statement of the property,
       forall s cells n, src_ok s -> keys (push_n_m n cells s) = s_stk s ++ rpt n (map cell_key cells) ++ rest_keys s,
   is false for the faithful model and for the C text; what is proved is the PARTIAL statement under the hypothesis "the copies fit":
   C09_tr_push_n_keys above (n * length cells <= sizeof(ibuf) - ibuf_cnt), and on the abstract queue C09_dot_is_retyping / C09_exec_is_typing
   (hypothesis `fits`) with their _vi instances.  Those names are kept (tools and notes refer to them); read them as `_partial` in this sense.
   C09_tr_push_n_clipped says what happens instead: exactly sizeof(ibuf) - ibuf_cnt cells of the N-fold text arrive. *)
Theorem C09_push_clip_refuted : exists (s : src) (cells : list val) (n : nat),
  src_ok s /\ (length cells < Z.to_nat IBUFSZ)%nat /\
  keys (push_n_m n cells s) <> s_stk s ++ TrRepeat3.rpt n (map cell_key cells) ++ rest_keys s.
Proof. exact push_clip_refuted. Qed.
Print Assumptions C09_push_clip_refuted.

(* the same on the translated C text, run by vm_compute: ibuf_pos = ibuf_cnt = 1, rep_cmd = 2000 x `x`, rep_len = 2000, vi_arg1 = 3: the translated
   vc_repeat() leaves ibuf_cnt = 4096 = sizeof(ibuf) -- 4095 cells pushed, not 6000 -- and returns without any sign of the loss *)
Example C09_tr_push_clip_runs :
  let kt := length cglobals in
  let m0 := cglobals ++ [[]] in
  let m := upd (upd (upd (upd (upd m0 G_rep_cmd (repeat (VInt 120) 2000 ++ skipn 2000 gb_rep_cmd)) G_rep_len [VInt 2000]) G_vi_arg1 [VInt 3]) G_ibuf_pos [VInt 1]) G_ibuf_cnt [VInt 1] in
  match callx (kern kt) cprog 50 3 F_vc_repeat [] m with
  | Ok (_, m1) => peek1 m1 G_ibuf_cnt = Some 4096 /\ peek1 m1 G_ibuf_pos = Some 1 /\ peek m1 G_ibuf 2 = [VInt 0; VInt 120] /\
                  skipn 4090 (peek m1 G_ibuf 4096) = repeat (VInt 120) 6
  | _ => False end.
Proof. vm_compute. repeat split; reflexivity. Qed.

From NV Require TrRepeat4.

(* ---------------------------------------------------------------------------------------------- *)
(* vc_execute (`@r`, `@@`, `@\x`) on the translated C text (coq/TrRepeat4.v), for every oracle answering vi_read() as the source model says and
   reg_get() as regget_ok says (the register's text: char cells and a terminator in a block outside the key source; the key source, vi_arg1 and
   the static `reg` left alone).  c = the key after `@` (exec_key: after a backslash the next key with bit 7 set), not ESC / ^C / end of input;
   `@` stands for the register of the last execution (the static reg, r0); the register r is set: reg = r is stored and the register's cells are
   pushed max(1, vi_arg1) times -- so by C09_tr_push_n_keys the keys delivered next are the register's text N times and then what was pending when
   the copies fit (C09_push_clip_refuted / KF-PUSH-CLIP when they do not) *)
Theorem C09_tr_vc_execute : forall (ext : oracle) kt, kt_fresh kt -> reads_ok ext kt -> forall a1, -2147483648 <= a1 <= 2147483647 ->
  ~ src_block kt G_vi_arg1 -> forall r0, -2147483648 <= r0 <= 2147483647 -> ~ src_block kt G_vc_execute__reg ->
  forall (m : mem) (s : src) rb cells d fuel,
  src_at kt m s -> cell_at m G_vi_arg1 a1 -> cell_at m G_vc_execute__reg r0 ->
  let c := fst (TrRepeat4.exec_key s) in let s1 := snd (TrRepeat4.exec_key s) in
  0 <= c -> c <> 27 -> c <> 3 ->
  let r := if c =? 64 then r0 else c in
  0 <= r -> TrRepeat4.regget_ok ext kt r (Some (rb, cells)) a1 -> TrRepeat4.nz_chars cells -> Z.of_nat (length cells) <= 2147483647 -> rb <> G_vi_arg1 ->
  (Z.to_nat (Z.max 1 a1) < fuel)%nat ->
  exists m', callx ext cprog fuel (S (S d)) F_vc_execute [] m = Ok (VUndef, m') /\
             src_at kt m' (push_n_m (Z.to_nat (Z.max 1 a1)) cells s1) /\ cell_at m' G_vc_execute__reg r.
Proof. exact TrRepeat4.tr_vc_execute_push. Qed.
Print Assumptions C09_tr_vc_execute.

(* the translated vc_execute RUNS: the terminal holds `a`, register a is "dw" (an oracle for reg_get that answers with a block holding d w 0),
   vi_arg1 = 2: ibuf = d w d w, ibuf_cnt = 5 (the typed `a` left ibuf_cnt = 1), ibuf_pos = 1, the static reg = 'a'; a following `@@` (terminal `@`)
   pushes the same register again in front *)
Example C09_tr_vc_execute_runs :
  let kt := length cglobals in
  let m0 := upd (cglobals ++ [map VInt [97; 64]; map VInt [100; 119; 0]]) G_vi_arg1 [VInt 2] in
  let ext : oracle := fun f args m => if Nat.eqb f X_reg_get then Ok (VPtr (S kt) 0, m) else link (kern kt) 50 5 f args m in
  match callx ext cprog 50 3 F_vc_execute [] m0 with
  | Ok (_, m1) =>
    peek1 m1 G_ibuf_cnt = Some 5 /\ peek1 m1 G_ibuf_pos = Some 1 /\ peek m1 G_ibuf 5 = map VInt [97; 100; 119; 100; 119] /\
    peek1 m1 G_vc_execute__reg = Some 97 /\
    match callx ext cprog 50 3 F_vc_execute [] (upd (upd m1 G_ibuf_pos [VInt 5]) G_vi_arg1 [VInt 0]) with
    | Ok (_, m2) => peek1 m2 G_ibuf_cnt = Some 3 /\ peek m2 G_ibuf 3 = map VInt [64; 100; 119] /\ peek1 m2 G_vc_execute__reg = Some 97
    | _ => False end
  | _ => False end.
Proof. vm_compute. repeat split; reflexivity. Qed.
