(* Properties_C09.v -- C09: repeat, macro and count.  Statements only; every proof is `exact <lemma>`.
   The model (coq/InputQueue.v) is the input side of term.c / vi.c for keys of any type K and ANY command
   interpreter `exec` that obtains its keys by reading a prefix of the pending input (it is handed the
   stream ibuf ++ terminal input and says how many keys it read: prefix_consuming by construction) and
   answers with a request: nothing, "I was a change command", "repeat" (N.), or "run these keys" (N@r).
   `run` is the loop of vi() until the input is used up; None = a push did not fit into ibuf (pending
   input above 4 KiB: outside the property's quantifier) or out of fuel. *)
From Coq Require Import List NArith ZArith Bool Arith.
From NV Require Import GenConsts InputQueue RepeatProps.
Import ListNotations.
Local Open Scope nat_scope.

(* after a change command the repeat buffer holds exactly the keys that command read (count and
   register prefix included: they are read after the record was cut), if shorter than the buffers *)
Theorem C09_record_faithful : forall K E (exec : E -> list K -> E * nat * act K) (s : st K E) e1 k,
  exec (ed s) (stream (q s)) = (e1, k, AChange) -> k <= length (stream (q s)) -> S k < REPSZ -> k <= ICMD ->
  rep (step exec s) = firstn k (stream (q s)) /\ ed (step exec s) = e1 /\
  stream (q (step exec s)) = skipn k (stream (q s)).
Proof. exact record_faithful. Qed.
Print Assumptions C09_record_faithful.

(* `N.` : the rest of the session ends exactly as if the recorded keys had been typed at the terminal
   max(1,N) times in place of `N.` -- in EVERY state of the queue (also inside a running macro), provided
   the push is not clipped (`fits`: the keys pushed since the queue was last empty total at most IBUFSZ) *)
Theorem C09_dot_is_retyping : forall K E (exec : E -> list K -> E * nat * act K) (s : st K E) e1 k n fuel r,
  exec (ed s) (stream (q s)) = (e1, k, ADot n) -> fits exec s = true ->
  run exec fuel (step exec s) = Some r ->
  run exec fuel (retyped K E s e1 k (rpt K (Nat.max 1 n) (rep s))) = Some r.
Proof. exact dot_is_retyping. Qed.
Print Assumptions C09_dot_is_retyping.

(* `N@r` : as if the register's contents had been typed max(1,N) times *)
Theorem C09_exec_is_typing : forall K E (exec : E -> list K -> E * nat * act K) (s : st K E) e1 k b n fuel r,
  exec (ed s) (stream (q s)) = (e1, k, APush b n) -> fits exec s = true ->
  run exec fuel (step exec s) = Some r ->
  run exec fuel (retyped K E s e1 k (rpt K (Nat.max 1 n) b)) = Some r.
Proof. exact exec_is_typing. Qed.
Print Assumptions C09_exec_is_typing.

(* the two queues behave as the single stream ibuf ++ terminal input *)
Theorem C09_queue_is_stream : forall K E (exec : E -> list K -> E * nat * act K) (s : st K E) fuel r,
  run exec fuel s = Some r ->
  run exec fuel {| q := {| used := 0; ibuf := []; tin := stream (q s); icmd := [] |}; rep := rep s; ed := ed s |} = Some r.
Proof. exact queue_is_stream. Qed.
Print Assumptions C09_queue_is_stream.

(* pushes are clipped to the room left, sizeof(ibuf) - ibuf_cnt, where ibuf_cnt (`filled`) counts the keys
   pushed since the queue was last empty, read or not: the buffer never exceeds its size, and a push
   that fits is stored whole in front of the unread keys *)
Theorem C09_capacity : forall K (qq : tq K) s n, filled qq <= IBUF ->
  filled (push_n n qq s) <= IBUF /\
  filled (term_push qq s) = Nat.min (filled qq + length s) IBUF /\
  (n * length s <= IBUF - filled qq ->
   ibuf (push_n n qq s) = rpt K n s ++ ibuf qq /\ tin (push_n n qq s) = tin qq /\ used (push_n n qq s) = used qq).
Proof. intros K qq s n H. split; [now apply push_n_capacity|]. split; [now apply term_push_clip|]. apply push_n_fits. Qed.
Print Assumptions C09_capacity.

(* the behaviour before /repo d3797a0 / 098bcee (append behind the unread keys) does not have the stream property *)
Theorem C09_nested_push_refuted :
  exists (qq : tq nat) (s : list nat),
    stream (term_push_append qq s) <> s ++ stream qq /\ stream (term_push qq s) = s ++ stream qq.
Proof. exact append_push_refuted. Qed.
Print Assumptions C09_nested_push_refuted.

(* non-vacuity: the token instance runs a program with a change, `2.`, a macro containing a nested `.`,
   and `@@`; what reaches the interpreter is the retyped program *)
Example C09_nonvacuous :
  let m := fun r => if (r =? 109)%N then Some [TKeys [119]; TDot 0; TChange [114; 90]]%N else None in
  tok_run 100 m [TChange [120]; TDot 2; TExec 0 109; TExec 2 64]%N
  = Some [120; 120; 120; 119; 120; 114; 90; 119; 114; 90; 114; 90; 119; 114; 90; 114; 90]%N.
Proof. vm_compute. reflexivity. Qed.
