(* placeholder until RepeatProps.v is written *)
From NV Require Import InputQueue.
