(* ExProps.v -- lemmas and proofs about the ex model (C06). *)
From Coq Require Import List NArith ZArith Bool Lia.
From NV Require Import Bytes ExDefs ExSpec.
Import ListNotations.
Local Open Scope Z_scope.

(* ---------------------------------------------------------------------------------------- *)
(* lists *)

Lemma firstn_split {A} : forall (b b' : nat) (l : list A), (b <= b')%nat ->
  firstn b' l = firstn b l ++ firstn (b' - b) (skipn b l).
Proof.
  induction b as [|b IH]; intros b' l H.
  - cbn. rewrite Nat.sub_0_r. reflexivity.
  - destruct b' as [|b']; [lia|]. destruct l as [|x l]; [cbn; rewrite firstn_nil; reflexivity|].
    cbn [firstn skipn app]. rewrite (IH b' l) by lia. reflexivity.
Qed.

Lemma skipn_split {A} (e' e : nat) (l : list A) : (e' <= e)%nat ->
  skipn e' l = firstn (e - e') (skipn e' l) ++ skipn e l.
Proof.
  intro H. rewrite <- (firstn_skipn (e - e') (skipn e' l)) at 1. f_equal.
  rewrite skipn_skipn. f_equal. lia.
Qed.

Lemma splice_widen {A} (b b' e' e : nat) (new l : list A) : (b <= b')%nat -> (e' <= e)%nat ->
  exists new', splice b' e' new l = splice b e new' l.
Proof.
  intros H1 H2. unfold splice.
  exists (firstn (b' - b) (skipn b l) ++ new ++ firstn (e - e') (skipn e' l)).
  rewrite (firstn_split b b' l H1). rewrite <- !app_assoc. do 3 f_equal. apply skipn_split; exact H2.
Qed.

Lemma Forall_upd {A} (P : A -> Prop) : forall (l : list A) k v, Forall P l -> P v -> Forall P (upd k v l).
Proof.
  induction l as [|x l IH]; intros k v H Hv; [destruct k; constructor|]. inversion H; subst.
  destruct k; cbn [upd]; constructor; auto.
Qed.

Lemma Forall_nth_d {A} (P : A -> Prop) (l : list A) k d : Forall P l -> P d -> P (nth k l d).
Proof.
  intros H Hd. revert k. induction H; intro k; destruct k; cbn; auto.
Qed.

Lemma mknew_length : forall t old nid, length (mknew old t nid) = length t.
Proof. induction t as [|x t IH]; intros old nid; [reflexivity|]. destruct old; cbn [mknew length]; rewrite IH; reflexivity. Qed.

Lemma mknew_texts : forall t old nid, map ltxt (mknew old t nid) = t.
Proof. induction t as [|x t IH]; intros old nid; [reflexivity|]. destruct old; cbn [mknew map ltxt]; rewrite IH; reflexivity. Qed.

(* ---------------------------------------------------------------------------------------- *)
(* the line buffer *)

Lemma lbuf_mark_lns l m p : lns (lbuf_mark l m p) = lns l.
Proof. unfold lbuf_mark. destruct (markidx m); reflexivity. Qed.
Lemma lbuf_mark_hist l m p : hist (lbuf_mark l m p) = hist l.
Proof. unfold lbuf_mark. destruct (markidx m); reflexivity. Qed.
Lemma lbuf_mark_nextid l m p : nextid (lbuf_mark l m p) = nextid l.
Proof. unfold lbuf_mark. destruct (markidx m); reflexivity. Qed.

Definition new_of (s : option bytes) (pos n_del : nat) (l : lbuf) : list line :=
  mknew (firstn n_del (skipn pos (lns l))) (match s with Some b => split_lines b | None => [] end) (nextid l).

Lemma lbuf_replace_lns s pos n_del l :
  lns (lbuf_replace s pos n_del l) = splice pos (pos + n_del) (new_of s pos n_del l) (lns l).
Proof. unfold lbuf_replace. rewrite !lbuf_mark_lns. reflexivity. Qed.

Lemma lbuf_opt_lns s pos n_del l : lns (lbuf_opt s pos n_del l) = lns l.
Proof. reflexivity. Qed.
Lemma lbuf_opt_nextid s pos n_del l : nextid (lbuf_opt s pos n_del l) = nextid l.
Proof. reflexivity. Qed.

(* the text of lbuf_edit: one splice of [b,e) *)
Lemma lbuf_edit_lns s (b e : nat) l : (b <= e)%nat -> (e <= length (lns l))%nat ->
  lns (lbuf_edit s b e l) = splice b e (new_of s b (e - b) l) (lns l).
Proof.
  intros H1 H2. unfold lbuf_edit. rewrite !Nat.min_l by lia.
  destruct ((b =? e)%nat && match s with None => true | Some _ => false end) eqn:E.
  - apply andb_prop in E. destruct E as [E1 E2]. apply Nat.eqb_eq in E1. subst e.
    destruct s; [discriminate|]. unfold new_of, splice. cbn [mknew app]. rewrite firstn_skipn. reflexivity.
  - rewrite lbuf_replace_lns. unfold new_of. rewrite lbuf_opt_lns, lbuf_opt_nextid.
    replace (b + (e - b))%nat with e by lia. reflexivity.
Qed.

(* ---------------------------------------------------------------------------------------- *)
(* marks keep designating the same identity *)

Lemma mark_ok_none ids r : mark_ok ids (r, None).
Proof. intros i H. discriminate. Qed.

Lemma mark_ok_ghost_at l pos : mark_ok (map lid l) (pos, ghost_at l pos).
Proof.
  intros i H. cbn [fst snd] in *. unfold ghost_at in H.
  destruct ((0 <=? pos) && (pos <? Z.of_nat (length l))) eqn:E; [|discriminate].
  apply andb_prop in E. destruct E as [E1 E2]. apply Z.leb_le in E1.
  split; [exact E1|]. rewrite nth_error_map. destruct (nth_error l (Z.to_nat pos)); [|discriminate].
  cbn. inversion H; reflexivity.
Qed.

Lemma marks_agree_mark l m p : marks_agree l -> marks_agree (lbuf_mark l m p).
Proof.
  unfold marks_agree, lbuf_mark. intro H. destruct (markidx m); [|exact H]. cbn [lns marks].
  apply Forall_upd; [exact H | apply mark_ok_ghost_at].
Qed.

Lemma nth_error_firstn' {A} : forall (n r : nat) (l : list A), (r < n)%nat -> nth_error (firstn n l) r = nth_error l r.
Proof.
  induction n as [|n IH]; intros r l H; [lia|]. destruct l; [destruct r; reflexivity|].
  destruct r; cbn; [reflexivity|]. apply IH. lia.
Qed.

Lemma nth_error_skipn' {A} : forall (n r : nat) (l : list A), nth_error (skipn n l) r = nth_error l (n + r).
Proof. induction n as [|n IH]; intros r l; [reflexivity|]. destruct l; [destruct r; reflexivity|]. cbn. apply IH. Qed.

Lemma nth_error_splice_lo {A} (pos e : nat) (new l : list A) (r : nat) : (r < pos)%nat -> (r < length l)%nat ->
  nth_error (splice pos e new l) r = nth_error l r.
Proof.
  intros H1 H2. unfold splice. rewrite nth_error_app1 by (rewrite firstn_length; lia).
  apply nth_error_firstn'. lia.
Qed.

Lemma nth_error_splice_hi {A} (pos e : nat) (new l : list A) (r : nat) : (pos <= e)%nat -> (e <= r)%nat -> (r < length l)%nat ->
  nth_error (splice pos e new l) (r + length new + pos - e) = nth_error l r.
Proof.
  intros H0 H1 H2. unfold splice.
  rewrite nth_error_app2 by (rewrite firstn_length; lia). rewrite firstn_length, Nat.min_l by lia.
  rewrite nth_error_app2 by lia. rewrite nth_error_skipn'. f_equal. lia.
Qed.

Lemma shift_mark_ok (nul : bool) (pos n_del : nat) (new l : list nat) (m : Z * option nat) :
  mark_ok l m ->
  mark_ok (splice pos (pos + n_del) new l) (shift_mark nul (Z.of_nat pos) (Z.of_nat n_del) (Z.of_nat (length new)) m).
Proof.
  destruct m as [r g]. intros H. unfold shift_mark.
  destruct (nul && (Z.of_nat pos <=? r) && (r <? Z.of_nat pos + Z.of_nat n_del)); [apply mark_ok_none|].
  destruct (Z.of_nat pos + Z.of_nat n_del <=? r) eqn:E1.
  - apply Z.leb_le in E1. intros i Hi. cbn [fst snd] in *. destruct (H i Hi) as [H1 H2]. cbn [fst] in *.
    assert (Hr : (Z.to_nat r < length l)%nat) by (apply nth_error_Some; rewrite H2; discriminate).
    split; [lia|].
    replace (Z.to_nat (r + Z.of_nat (length new) - Z.of_nat n_del))
      with (Z.to_nat r + length new + pos - (pos + n_del))%nat by lia.
    rewrite nth_error_splice_hi by lia. exact H2.
  - destruct (Z.of_nat pos + Z.of_nat (length new) <=? r); [apply mark_ok_none|].
    destruct (Z.of_nat pos <=? r) eqn:E3; [apply mark_ok_none|].
    apply Z.leb_gt in E3. intros i Hi. cbn [fst snd] in *. destruct (H i Hi) as [H1 H2]. cbn [fst] in *.
    split; [exact H1|]. rewrite nth_error_splice_lo; [exact H2 | lia | apply nth_error_Some; rewrite H2; discriminate].
Qed.

Lemma map_lid_mknew_len old t nid : length (map lid (mknew old t nid)) = length t.
Proof. rewrite map_length. apply mknew_length. Qed.

Lemma map_splice {A B} (f : A -> B) b e new l : map f (splice b e new l) = splice b e (map f new) (map f l).
Proof. unfold splice. rewrite !map_app, firstn_map, skipn_map. reflexivity. Qed.

Lemma marks_agree_replace s pos n_del l : marks_agree l -> marks_agree (lbuf_replace s pos n_del l).
Proof.
  intro H. unfold lbuf_replace.
  apply marks_agree_mark. apply marks_agree_mark. unfold marks_agree. cbn [lns marks].
  set (t := match s with Some b => split_lines b | None => [] end).
  change (firstn pos (lns l) ++ mknew (firstn n_del (skipn pos (lns l))) t (nextid l) ++ skipn (pos + n_del) (lns l))
    with (splice pos (pos + n_del) (mknew (firstn n_del (skipn pos (lns l))) t (nextid l)) (lns l)).
  rewrite map_splice. apply Forall_forall. intros m Hm. apply in_map_iff in Hm. destruct Hm as (m0 & E & Hm0).
  subst m. rewrite <- (map_lid_mknew_len (firstn n_del (skipn pos (lns l))) t (nextid l)).
  apply shift_mark_ok. unfold marks_agree in H. rewrite Forall_forall in H. apply H. exact Hm0.
Qed.

Lemma marks_agree_opt s pos n_del l : marks_agree l -> marks_agree (lbuf_opt s pos n_del l).
Proof.
  unfold marks_agree, lbuf_opt, markcopy. cbn [lns marks]. intro H.
  apply Forall_upd; [exact H|]. apply Forall_nth_d; [exact H | apply mark_ok_none].
Qed.

Lemma marks_agree_edit s b e l : marks_agree l -> marks_agree (lbuf_edit s b e l).
Proof.
  intro H. unfold lbuf_edit. destruct (_ && _); [exact H|].
  apply marks_agree_replace, marks_agree_opt, H.
Qed.

(* ---------------------------------------------------------------------------------------- *)
(* undo, global marks, bookkeeping keep marks_agree *)

Lemma marks_agree_same l l' : map lid (lns l') = map lid (lns l) -> marks l' = marks l -> marks_agree l -> marks_agree l'.
Proof. unfold marks_agree. intros E1 E2 H. rewrite E1, E2. exact H. Qed.

Lemma marks_agree_loadmarks ids : forall sv mk, Forall (mark_ok ids) mk -> Forall (mark_ok ids) (loadmarks sv mk).
Proof.
  induction sv as [|[k r] sv IH]; intros mk H; [exact H|]. cbn [loadmarks]. apply IH.
  apply Forall_upd; [exact H | apply mark_ok_none].
Qed.

Lemma marks_agree_undo_loop : forall n sq l, marks_agree l -> marks_agree (undo_loop n sq l).
Proof.
  induction n as [|n IH]; intros sq l H; [exact H|]. cbn [undo_loop].
  destruct (nth_error (hist l) n) as [lo|]; [|exact H]. destruct (o_seq lo =? sq); [|exact H].
  apply IH.
  set (l0 := mklb (lns l) (marks l) (hist l) n (useq l) (useq_zero l) (useq_last l) (nextid l)).
  assert (H0 : marks_agree l0) by exact H.
  pose proof (marks_agree_replace (o_del lo) (o_pos lo) (o_nins lo) l0 H0) as H1.
  unfold marks_agree in *. cbn [lns marks].
  apply marks_agree_loadmarks. unfold markcopy. apply Forall_upd.
  - apply Forall_upd; [exact H1 | apply mark_ok_none].
  - apply Forall_nth_d; [apply Forall_upd; [exact H1 | apply mark_ok_none] | apply mark_ok_none].
Qed.

Lemma marks_agree_undo l : marks_agree l -> marks_agree (fst (lbuf_undo l)).
Proof.
  intro H. unfold lbuf_undo. destruct (hist_u l); [exact H|].
  destruct (nth_error (hist l) n); [|exact H]. cbn [fst]. apply marks_agree_undo_loop, H.
Qed.

Lemma map_lid_upd_line f : (forall x, lid (f x) = lid x) -> forall l k, map lid (upd_line k f l) = map lid l.
Proof.
  intros Hf. induction l as [|x l IH]; intro k; [destruct k; reflexivity|].
  destruct k; cbn [upd_line map]; [rewrite Hf; reflexivity | rewrite IH; reflexivity].
Qed.

Lemma marks_agree_globset l pos dep : marks_agree l -> marks_agree (lbuf_globset l pos dep).
Proof. apply marks_agree_same; [|reflexivity]. cbn. apply map_lid_upd_line. reflexivity. Qed.

Lemma marks_agree_globget l pos dep : marks_agree l -> marks_agree (fst (lbuf_globget l pos dep)).
Proof.
  unfold lbuf_globget. destruct (nth_error (lns l) pos); [|trivial]. cbn [fst].
  apply marks_agree_same; [|reflexivity]. cbn. apply map_lid_upd_line. reflexivity.
Qed.

Lemma marks_agree_globset_range : forall n i dep l, marks_agree l -> marks_agree (globset_range n i dep l).
Proof. induction n; intros i dep l H; [exact H|]. cbn. apply IHn, marks_agree_globset, H. Qed.

Lemma marks_agree_globclear : forall n i dep l, marks_agree l -> marks_agree (globclear n i dep l).
Proof. induction n; intros i dep l H; [exact H|]. cbn. apply IHn, marks_agree_globget, H. Qed.

Lemma scan_l_lid : forall L i dep, map lid (snd (scan_l i dep L)) = map lid L.
Proof.
  induction L as [|x L IH]; intros i dep; [reflexivity|]. destruct i as [|i]; cbn [scan_l].
  - destruct (glob_marked dep x); [reflexivity|]. specialize (IH 0%nat dep). destruct (scan_l 0 dep L). cbn [snd map] in *. rewrite IH. reflexivity.
  - specialize (IH i dep). destruct (scan_l i dep L). cbn [snd map] in *. rewrite IH. reflexivity.
Qed.

Lemma marks_agree_glob_scan i dep l : marks_agree l -> marks_agree (snd (glob_scan i dep l)).
Proof.
  unfold glob_scan. pose proof (scan_l_lid (lns l) i dep) as E. destruct (scan_l i dep (lns l)) as [j L2]. cbn [snd] in *.
  apply marks_agree_same; [exact E | reflexivity].
Qed.

Lemma marks_agree_modified l : marks_agree l -> marks_agree (fst (lbuf_modified l)).
Proof. intro H. exact H. Qed.

Lemma marks_agree_saved0 l : marks_agree l -> marks_agree (lbuf_saved0 l).
Proof. intro H. exact H. Qed.

(* ---------------------------------------------------------------------------------------- *)
(* the editor state *)

Definition sagree (s : st) : Prop := marks_agree (lb s).

Section ExP.
Variable rvalid : bytes -> bool.
Variable rfind : bytes -> bytes -> bool -> option (nat * nat).
Variable filter : bytes -> bytes -> option bytes.
Variable readfile : bytes -> option bytes.
Variable curpath : bytes.

Lemma kwdset_if_lb s p d : lb (kwdset_if s p d) = lb s.
Proof. destruct p as [[|c p]|]; reflexivity. Qed.

Lemma ex_search_lb s pat : lb (snd (ex_search rvalid rfind s pat)) = lb s.
Proof.
  unfold ex_search. destruct (re_read pat) as [kw rest].
  destruct (kwddir _ =? 0); [apply kwdset_if_lb|]. destruct (negb _); apply kwdset_if_lb.
Qed.

Lemma ex_lineno_lb s num : lb (snd (ex_lineno rvalid rfind s num)) = lb s.
Proof.
  unfold ex_lineno.
  assert (F : forall n rest s', lb s' = lb s ->
    lb (snd (let '(n', rest') := offsets (S (length rest)) rest n in (n', rest', s'))) = lb s).
  { intros n rest s' E. destruct (offsets _ rest n). exact E. }
  destruct num as [|c rest]; [apply F; reflexivity|].
  destruct (c =? 46)%N; [apply F; reflexivity|]. destruct (c =? 36)%N; [apply F; reflexivity|].
  destruct (c =? 39)%N; [destruct (lbuf_jump _ _); [apply F|]; reflexivity|].
  destruct (_ || _)%bool.
  - pose proof (ex_search_lb s (c :: rest)) as E. destruct (ex_search rvalid rfind s (c :: rest)) as [[n rest'] s']. cbn [snd] in E.
    destruct (n <? 0); [exact E | apply F; exact E].
  - destruct (isdigit c); apply F; reflexivity.
Qed.

Lemma region_loop_lb : forall fuel loc first b e s,
  lb (snd (region_loop rvalid rfind fuel loc first b e s)) = lb s.
Proof.
  induction fuel as [|f IH]; intros loc first b e s; [reflexivity|]. cbn [region_loop].
  destruct loc as [|c loc]; [reflexivity|].
  pose proof (ex_lineno_lb s (c :: loc)) as E. destruct (ex_lineno rvalid rfind s (c :: loc)) as [[n rest] s1]. cbn [snd] in E.
  destruct (n + 1 <? 0); [exact E|]. destruct (skip_to_sep rest) as [|c2 rest']; [exact E|].
  rewrite IH. destruct (c2 =? 59)%N; exact E.
Qed.

Lemma ex_region_lb loc s : lb (snd (ex_region rvalid rfind loc s)) = lb s.
Proof.
  unfold ex_region. destruct (bytes_eqb loc [37%N]); [reflexivity|]. destruct loc as [|c loc]; [reflexivity|].
  pose proof (region_loop_lb (S (length (c :: loc))) (c :: loc) true 0 0 s) as E.
  destruct (region_loop _ _ _ _ _ _ _ s) as [[[bad b] e] s1]. cbn [snd] in E.
  destruct bad; [exact E|]. repeat match goal with |- context [if ?x then _ else _] => destruct x end; exact E.
Qed.

Lemma region_sagree loc s bad b e s1 : ex_region rvalid rfind loc s = (bad, b, e, s1) -> sagree s -> sagree s1.
Proof. intros E H. pose proof (ex_region_lb loc s) as L. rewrite E in L. cbn [snd] in L. unfold sagree. rewrite L. exact H. Qed.

Lemma sagree_edit s t b e : sagree s -> sagree (edit s t b e).
Proof. unfold sagree, edit. cbn [lb set_lb]. apply marks_agree_edit. Qed.

Lemma print_lines_lb : forall l s, lb (print_lines l s) = lb s.
Proof. induction l; intro s; [reflexivity|]. cbn [print_lines]. rewrite IHl. reflexivity. Qed.

Ltac reg_destruct loc s :=
  let E := fresh "E" in
  destruct (ex_region rvalid rfind loc s) as [[[?bad ?b] ?e] ?s1] eqn:E;
  let H1 := fresh "Hs1" in
  match goal with H : sagree s |- _ => pose proof (region_sagree _ _ _ _ _ _ E H) as H1 end.

Lemma sagree_insert loc cmd txt s : sagree s -> sagree (fst (ec_insert rvalid rfind loc cmd txt s)).
Proof.
  intro H. unfold ec_insert. reg_destruct loc s. destruct (_ && _); [exact Hs1|]. cbn [fst].
  unfold sagree. cbn [lb set_xrow]. apply sagree_edit, Hs1.
Qed.

Lemma sagree_print loc cmd s : sagree s -> sagree (fst (ec_print rvalid rfind loc cmd s)).
Proof.
  intro H. unfold ec_print. destruct (_ && _); [exact H|]. reg_destruct loc s. destruct (_ || _); [exact Hs1|].
  cbn [fst]. unfold sagree. cbn [lb set_xrow]. rewrite print_lines_lb. exact Hs1.
Qed.

Lemma sagree_null loc cmd s : sagree s -> sagree (fst (ec_null rvalid rfind loc cmd s)).
Proof. intro H. unfold ec_null. apply sagree_print. exact H. Qed.

Lemma sagree_delete loc arg s : sagree s -> sagree (fst (ec_delete rvalid rfind loc arg s)).
Proof.
  intro H. unfold ec_delete. reg_destruct loc s. destruct (_ || _); [exact Hs1|]. cbn [fst].
  unfold sagree. cbn [lb set_xrow]. apply sagree_edit. exact Hs1.
Qed.

Lemma sagree_yank loc arg s : sagree s -> sagree (fst (ec_yank rvalid rfind loc arg s)).
Proof. intro H. unfold ec_yank. reg_destruct loc s. destruct (_ || _); exact Hs1. Qed.

Lemma sagree_put loc arg s : sagree s -> sagree (fst (ec_put rvalid rfind loc arg s)).
Proof.
  intro H. unfold ec_put. destruct (reg_special _); [exact H|]. destruct (reg_get s _); [|exact H].
  reg_destruct loc s. destruct (_ && _); [exact Hs1|]. cbn [fst]. unfold sagree. cbn [lb set_xrow]. apply sagree_edit, Hs1.
Qed.

Lemma sagree_lnum loc s : sagree s -> sagree (fst (ec_lnum rvalid rfind loc s)).
Proof. intro H. unfold ec_lnum. reg_destruct loc s. destruct (_ || _); exact Hs1. Qed.

Lemma sagree_mark loc arg s : sagree s -> sagree (fst (ec_mark rvalid rfind loc arg s)).
Proof.
  intro H. unfold ec_mark. reg_destruct loc s. destruct (_ || _); [exact Hs1|]. cbn [fst]. unfold sagree. cbn [lb set_lb].
  apply marks_agree_mark, Hs1.
Qed.

Lemma sagree_undo s : sagree s -> sagree (fst (ec_undo s)).
Proof.
  intro H. unfold ec_undo. pose proof (marks_agree_undo (lb s) H) as U. destruct (lbuf_undo (lb s)). exact U.
Qed.

Lemma sagree_read loc arg s : sagree s -> sagree (fst (ec_read rvalid rfind readfile curpath loc arg s)).
Proof.
  intro H. unfold ec_read. destruct (_ || _); [exact H|]. reg_destruct loc s. destruct (_ && _); [exact Hs1|].
  destruct (readfile _); [|exact Hs1]. cbn [fst]. unfold sagree. cbn [lb emit set_xrow]. apply sagree_edit, Hs1.
Qed.

Lemma sagree_exec loc arg s : sagree s -> sagree (fst (ec_exec rvalid rfind filter loc arg s)).
Proof.
  intro H. unfold ec_exec.
  assert (H0 : sagree (fst (if xwa s then (s, false) else bufs_modified s))).
  { destruct (xwa s); [exact H|]. unfold bufs_modified. destruct (lbuf_modified (lb s)) as [l m] eqn:E.
    assert (marks_agree l) by (pose proof (marks_agree_modified (lb s) H) as M; rewrite E in M; exact M).
    destruct m; exact H0. }
  destruct (if xwa s then (s, false) else bufs_modified s) as [s0 m]. cbn [fst] in H0.
  destruct m; [exact H0|]. destruct (negb _); [exact H0|]. destruct loc as [|c loc]; [exact H0|].
  reg_destruct (c :: loc) s0. destruct (_ || _); [exact Hs1|]. destruct (filter _ _); [|exact Hs1].
  cbn [fst]. apply sagree_edit, Hs1.
Qed.

Lemma sagree_write loc arg s : sagree s -> sagree (fst (ec_write rvalid rfind loc arg s)).
Proof.
  intro H. unfold ec_write. destruct loc; [|exact H]. destruct arg; [|exact H].
  reg_destruct (@nil N) s. destruct bad; [exact Hs1|]. exact Hs1.
Qed.

Lemma sagree_subst_rows : forall n i pat rep g s, sagree s -> sagree (subst_rows rfind n i pat rep g s).
Proof.
  induction n as [|n IH]; intros i pat rep g s H; [exact H|]. cbn [subst_rows]. apply IH.
  destruct (line_at s i); [|exact H]. destruct (subst_line _ _ _ _ _ _ _) as [[r|] rest]; [|exact H].
  apply sagree_edit, H.
Qed.

Lemma sagree_substitute loc arg s : sagree s -> sagree (fst (ec_substitute rvalid rfind loc arg s)).
Proof.
  intro H. unfold ec_substitute. reg_destruct loc s. destruct bad; [exact Hs1|].
  destruct (re_read arg) as [pat rest].
  assert (H2 : sagree (kwdset_if s1 pat 1)) by (unfold sagree; rewrite kwdset_if_lb; exact Hs1).
  destruct pat as [p|]; [|exact H2]. destruct rest as [|c rest]; [exact H2|].
  destruct (re_read _) as [rep flags]. destruct (negb _); [exact H2|]. destruct (kwddir _ =? 0); [exact H2|].
  destruct (negb _); [exact H2|]. cbn [fst]. apply sagree_subst_rows, H2.
Qed.

Lemma sagree_simple a loc cmd arg txt s : sagree s ->
  sagree (fst (ex_simple rvalid rfind filter readfile curpath a loc cmd arg txt s)).
Proof.
  intro H. unfold ex_simple.
  repeat match goal with |- context [if ?c then _ else _] => destruct c end;
    first [ apply sagree_insert | apply sagree_delete | apply sagree_mark | apply sagree_print | apply sagree_put
          | apply sagree_read | apply sagree_substitute | apply sagree_undo | apply sagree_write | apply sagree_yank
          | apply sagree_exec | apply sagree_lnum | apply sagree_null | exact H | idtac ]; try exact H.
  all: unfold ec_rs; destruct txt; exact H.
Qed.

(* commands that run command lists *)
Section Rec.
Variable exec : bytes -> st -> st * Z.
Hypothesis exec_ok : forall ln s, sagree s -> sagree (fst (exec ln s)).

Lemma sagree_glob_loop : forall fuel i pat body not dep s, sagree s -> sagree (glob_loop rfind exec fuel i pat body not dep s).
Proof.
  induction fuel as [|f IH]; intros i pat body not dep s H; [exact H|]. cbn [glob_loop].
  destruct (nth_error (lns (lb s)) i) as [x|]; [|exact H].
  set (run := Bool.eqb _ not).
  assert (H1 : sagree (fst (if run then exec body (set_xrow s (Z.of_nat i)) else (s, 0)))).
  { destruct run; [apply exec_ok; exact H | exact H]. }
  destruct (if run then exec body (set_xrow s (Z.of_nat i)) else (s, 0)) as [s1 r]. cbn [fst] in H1.
  destruct (run && negb (r =? 0)); [exact H1|].
  set (i1 := if run then _ else i).
  pose proof (marks_agree_glob_scan i1 dep (lb s1) H1) as H2.
  destruct (glob_scan i1 dep (lb s1)) as [j l]. cbn [snd] in H2. apply IH. exact H2.
Qed.

Lemma sagree_glob fuel loc cmd arg s : sagree s -> sagree (fst (ec_glob rvalid rfind exec fuel loc cmd arg s)).
Proof.
  intro H. unfold ec_glob. destruct (GDEPMAX <=? xgdep s)%nat; [exact H|].
  set (loc' := match loc, xgdep s with [], O => [37%N] | _, _ => loc end).
  reg_destruct loc' s. destruct (_ || _); [exact Hs1|].
  destruct (re_read arg) as [pat body].
  assert (H2 : sagree (kwdset_if s1 pat 1)) by (unfold sagree; rewrite kwdset_if_lb; exact Hs1).
  destruct (kwddir _ =? 0); [exact H2|]. destruct (negb _); [exact H2|]. cbn [fst].
  unfold sagree. cbn [lb set_gdep set_lb]. apply marks_agree_globclear.
  apply sagree_glob_loop. unfold sagree. cbn [lb set_lb set_gdep]. apply marks_agree_globset_range. exact H2.
Qed.

Lemma sagree_at loc arg s : sagree s -> sagree (fst (ec_at rvalid rfind exec loc arg s)).
Proof.
  intro H. unfold ec_at. destruct (reg_special _); [exact H|]. destruct (reg_get s _) as [buf|]; [|exact H].
  reg_destruct loc s. destruct (_ || _); [exact Hs1|].
  pose proof (exec_ok buf (set_xrow s1 b) Hs1) as H2. destruct (exec buf (set_xrow s1 b)) as [s2 r]. exact H2.
Qed.
End Rec.

Lemma sagree_ex_txt src a s : sagree s -> sagree (snd (ex_txt src a s)).
Proof.
  intro H. unfold ex_txt.
  destruct ((hd0 a =? 114)%N && (hd0 (tl a) =? 115)%N); destruct src;
    repeat match goal with
           | |- context [let '(_, _) := ?x in _] => destruct x
           | |- context [if ?c then _ else _] => destruct c
           end; exact H.
Qed.

Theorem sagree_ex_exec : forall fuel ret ln s, sagree s ->
  sagree (fst (ex_exec rvalid rfind filter readfile curpath fuel ret ln s)).
Proof.
  induction fuel as [|f IH]; intros ret ln s H; [exact H|]. cbn [ex_exec].
  destruct ln as [|c ln]; [exact H|].
  destruct (ex_loc (c :: ln)) as [ln1 loc]. destruct (ex_cmd ln1) as [ln2 cmd].
  set (abbr := match ex_idx cmd with Some a => a | None => _ end).
  destruct (ex_arg ln2 abbr) as [ln3 arg].
  pose proof (sagree_ex_txt ln3 abbr s H) as H1. destruct (ex_txt ln3 abbr s) as [[ln4 txt] s1]. cbn [snd] in H1.
  match goal with |- context [let '(s2, ret2) := ?x in _] =>
    assert (H2 : sagree (fst x)); [| destruct x as [s2 ret2]; cbn [fst] in H2; apply IH; exact H2] end.
  destruct (ex_idx cmd) as [a|].
  - destruct (_ || _); [apply sagree_glob; [intros; apply IH; assumption | exact H1]|].
    destruct (hd0 a =? 64)%N; [apply sagree_at; [intros; apply IH; assumption | exact H1]|].
    apply sagree_simple, H1.
  - destruct (is_other cmd); exact H1.
Qed.

Theorem sagree_ex_main : forall n fuel s, sagree s ->
  sagree (ex_main rvalid rfind filter readfile curpath n fuel s).
Proof.
  induction n as [|n IH]; intros fuel s H; [exact H|]. cbn [ex_main].
  destruct (xquit s); [exact H|]. destruct (inp s) as [|ln rest]; [exact H|].
  unfold ex_command.
  pose proof (sagree_ex_exec fuel 0 ln (set_inp s rest) H) as H1.
  destruct (ex_exec _ _ _ _ _ fuel 0 ln (set_inp s rest)) as [s1 r]. cbn [fst] in H1. apply IH. exact H1.
Qed.

End ExP.

Lemma sagree_init data input wa : sagree (init_st data input wa).
Proof.
  unfold sagree, init_st, init_lbuf. cbn [lb].
  set (l0 := mklb [] (repeat (-1, None) NMARKS) [] 0 1 0 0 0).
  assert (H0 : marks_agree l0).
  { unfold marks_agree. cbn [lns marks l0]. apply Forall_forall. intros m Hm. apply repeat_spec in Hm. subst m. apply mark_ok_none. }
  exact (marks_agree_edit (Some data) 0 0 l0 H0).
Qed.

(* ---------------------------------------------------------------------------------------- *)
(* address resolution, frame, rejection *)

Lemma bytes_eqb_eq : forall a b, bytes_eqb a b = true -> a = b.
Proof.
  induction a as [|x a IH]; intros [|y b] H; try discriminate; [reflexivity|].
  cbn in H. apply andb_prop in H. destruct H as [H1 H2]. apply N.eqb_eq in H1. subst. f_equal. apply IH, H2.
Qed.

Section ExQ0.
Variable rvalid : bytes -> bool.
Variable rfind : bytes -> bytes -> bool -> option (nat * nat).

Lemma region_slen loc s bad b e s1 : ex_region rvalid rfind loc s = (bad, b, e, s1) -> lb s1 = lb s.
Proof. intro E. pose proof (ex_region_lb rvalid rfind loc s) as L. rewrite E in L. exact L. Qed.

Theorem region_bounds loc s b e s1 : ex_region rvalid rfind loc s = (false, b, e, s1) ->
  0 <= b <= e /\ e <= slen s1 /\ (b < slen s1 \/ (b = e /\ (loc = [] \/ loc = [37%N]))).
Proof.
  intro E. pose proof (region_slen _ _ _ _ _ _ E) as L. unfold slen. rewrite L. clear L.
  unfold ex_region in E. destruct (bytes_eqb loc [37%N]) eqn:P.
  - apply bytes_eqb_eq in P. inversion E; subst. unfold slen, llen.
    split; [lia|]. split; [lia|]. destruct (length (lns (lb s1))) eqn:N0; [right; split; [reflexivity | right; reflexivity] | left; lia].
  - destruct loc as [|c loc].
    + unfold slen, llen in *.
      destruct (xrow s <? 0) eqn:A; destruct (Z.of_nat (length (lns (lb s))) <? xrow s) eqn:B; cbn [orb] in E; try discriminate.
      destruct (xrow s =? Z.of_nat (length (lns (lb s)))) eqn:C; inversion E; subst; (split; [lia|]); (split; [lia|]);
        [right; split; [lia | left; reflexivity] | left; lia].
    + pose proof (region_loop_lb rvalid rfind (S (length (c :: loc))) (c :: loc) true 0 0 s) as L.
      destruct (region_loop _ _ _ _ _ _ _ s) as [[[bad b0] e0] s2]. cbn [snd] in L.
      destruct bad; [discriminate|]. unfold slen in E. rewrite L in E.
      destruct ((if (b0 <? 0) && (e0 =? 0) then 0 else b0) <? 0) eqn:A; cbn [orb] in E; [discriminate|].
      destruct (llen (lb s) <=? (if (b0 <? 0) && (e0 =? 0) then 0 else b0)) eqn:B; [discriminate|].
      destruct (e0 <? (if (b0 <? 0) && (e0 =? 0) then 0 else b0)) eqn:C; cbn [orb] in E; [discriminate|].
      destruct (llen (lb s) <? e0) eqn:D; [discriminate|]. inversion E; subst. lia.
Qed.

End ExQ0.

Lemma frame_refl (b e : Z) (l : list line) : 0 <= b <= e -> frame b e l l.
Proof.
  intros H. exists (firstn (Z.to_nat e - Z.to_nat b) (skipn (Z.to_nat b) l)). unfold splice.
  rewrite app_assoc. rewrite <- firstn_split by lia. rewrite firstn_skipn. reflexivity.
Qed.

Lemma edit_frame s t (b e b' e' : Z) : 0 <= b -> b <= b' -> b' <= e' -> e' <= e -> e <= slen s ->
  frame b e (lns (lb s)) (lns (lb (edit s t b' e'))).
Proof.
  intros H0 H1 H2 H3 H4. unfold edit. cbn [lb set_lb]. unfold slen, llen in H4.
  rewrite lbuf_edit_lns by lia. unfold frame. apply splice_widen; lia.
Qed.

Section ExQ.
Variable rvalid : bytes -> bool.
Variable rfind : bytes -> bytes -> bool -> option (nat * nat).
Variable filter : bytes -> bytes -> option bytes.
Variable readfile : bytes -> option bytes.
Variable curpath : bytes.

Definition frame_cmds : list bytes :=
  [[97]; [105]; [99]; [100]; [107]; [112]; [112; 117]; [114]; [121]; [33]; [61]]%N.

Ltac pick_cmd := unfold ex_simple, is; cbn [bytes_eqb N.eqb Pos.eqb andb orb].

Theorem frame_simple a loc cmd arg txt s b e s1 : In a frame_cmds -> xwa s = true ->
  ex_region rvalid rfind loc s = (false, b, e, s1) ->
  frame b e (lns (lb s)) (lns (lb (fst (ex_simple rvalid rfind filter readfile curpath a loc cmd arg txt s)))).
Proof.
  intros Ha Hw E. pose proof (region_bounds _ _ _ _ _ _ _ E) as (B1 & B2 & B3). pose proof (region_slen _ _ _ _ _ _ _ _ E) as L.
  assert (FR : frame b e (lns (lb s)) (lns (lb s1))) by (rewrite L; apply frame_refl; lia).
  assert (ED : forall t b' e', b <= b' -> b' <= e' -> e' <= e -> frame b e (lns (lb s)) (lns (lb (edit s1 t b' e')))).
  { intros. rewrite <- L. apply edit_frame; lia. }
  cbn [frame_cmds In] in Ha.
  repeat (destruct Ha as [Ha|Ha]; [subst a; pick_cmd|]); [..|contradiction].
  - unfold ec_insert. rewrite E. cbn [andb fst lb set_xrow]. apply ED; repeat match goal with |- context [if ?c then _ else _] => destruct c eqn:? end; lia.
  - unfold ec_insert. rewrite E. cbn [andb fst lb set_xrow]. apply ED; repeat match goal with |- context [if ?c then _ else _] => destruct c eqn:? end; lia.
  - unfold ec_insert. rewrite E. cbn [andb fst lb set_xrow]. apply ED; repeat match goal with |- context [if ?c then _ else _] => destruct c eqn:? end; lia.
  - unfold ec_delete. rewrite E. cbn [orb]. destruct (_ || _); [exact FR|]. cbn [fst lb set_xrow]. unfold ex_yank.
    change (lb (set_regs s1 ?r)) with (lb s1). apply (ED None b e); lia.
  - unfold ec_mark. rewrite E. cbn [orb]. destruct (ex_zero _ _ _); [exact FR|]. cbn [fst lb set_lb]. rewrite lbuf_mark_lns. exact FR.
  - unfold ec_print. destruct (_ && _); [apply frame_refl; lia|]. rewrite E. cbn [orb]. destruct (ex_zero _ _ _); [exact FR|].
    cbn [fst lb set_xrow]. rewrite print_lines_lb. exact FR.
  - unfold ec_put. destruct (reg_special _); [apply frame_refl; lia|]. destruct (reg_get s _); [|apply frame_refl; lia].
    rewrite E. cbn [andb fst lb set_xrow]. apply ED; lia.
  - unfold ec_read. destruct (_ || _); [apply frame_refl; lia|]. rewrite E. cbn [andb]. destruct (readfile _); [|exact FR].
    cbn [fst lb set_xrow emit]. destruct (slen s1 =? 0) eqn:Z0; apply ED; lia.
  - unfold ec_yank. rewrite E. cbn [orb]. destruct (_ || _); exact FR.
  - unfold ec_exec. rewrite Hw. destruct (negb _); [apply frame_refl; lia|]. destruct loc as [|c loc]; [apply frame_refl; lia|].
    rewrite E. cbn [orb]. destruct (ex_zero _ _ _); [exact FR|]. destruct (filter _ _); [|exact FR]. cbn [fst]. apply ED; lia.
  - unfold ec_lnum. rewrite E. cbn [orb]. destruct (ex_zero _ _ _); exact FR.
Qed.

(* a command whose address does not resolve leaves the line buffer (lines, marks, undo history) untouched;
   the (0,0) outcome is what the text-adding commands a/i/c accept as "before the first line" *)
Theorem rejected_simple a loc cmd arg txt s b e s1 : In a frame_cmds -> xwa s = true ->
  ex_region rvalid rfind loc s = (true, b, e, s1) ->
  (In a [[97]; [105]; [99]; [112; 117]; [114]]%N -> b <> 0 \/ e <> 0) ->
  lb (fst (ex_simple rvalid rfind filter readfile curpath a loc cmd arg txt s)) = lb s /\
  snd (ex_simple rvalid rfind filter readfile curpath a loc cmd arg txt s) = 1.
Proof.
  intros Ha Hw E Hz. pose proof (region_slen _ _ _ _ _ _ _ _ E) as L.
  assert (X : In a [[97]; [105]; [99]; [112; 117]; [114]]%N -> negb (b =? 0) || negb (e =? 0) = true).
  { intro I. destruct (Hz I) as [Hz'|Hz']; [apply Z.eqb_neq in Hz'; rewrite Hz'; reflexivity | apply Z.eqb_neq in Hz'; rewrite Hz'; apply orb_true_r]. }
  cbn [frame_cmds In] in Ha.
  repeat (destruct Ha as [Ha|Ha]; [subst a; pick_cmd|]); [..|contradiction].
  - unfold ec_insert. rewrite E. rewrite X by (cbn; repeat (first [left; reflexivity | right])). cbn [andb fst snd]. auto.
  - unfold ec_insert. rewrite E. rewrite X by (cbn; repeat (first [left; reflexivity | right])). cbn [andb fst snd]. auto.
  - unfold ec_insert. rewrite E. rewrite X by (cbn; repeat (first [left; reflexivity | right])). cbn [andb fst snd]. auto.
  - unfold ec_delete. rewrite E. cbn [orb fst snd]. auto.
  - unfold ec_mark. rewrite E. cbn [orb fst snd]. auto.
  - unfold ec_print. destruct (_ && _); [cbn [fst snd]; auto|]. rewrite E. cbn [orb fst snd]. auto.
  - unfold ec_put. destruct (reg_special _); [cbn [fst snd flag lb]; auto|]. destruct (reg_get s _); [|cbn [fst snd]; auto].
    rewrite E. rewrite X by (cbn; repeat (first [left; reflexivity | right])). cbn [andb fst snd]. auto.
  - unfold ec_read. destruct (negb (plain_arg arg) || _); [cbn [fst snd flag lb]; auto|]. rewrite E. rewrite X by (cbn; repeat (first [left; reflexivity | right])). cbn [andb fst snd]. auto.
  - unfold ec_yank. rewrite E. cbn [orb fst snd]. auto.
  - unfold ec_exec. rewrite Hw. destruct (negb (plain_arg arg)); [cbn [fst snd flag lb]; auto|]. destruct loc as [|c loc]; [cbn [fst snd flag lb]; auto|].
    rewrite E. cbn [orb fst snd]. auto.
  - unfold ec_lnum. rewrite E. cbn [orb fst snd]. auto.
Qed.

End ExQ.

(* ---------------------------------------------------------------------------------------- *)
(* the commands against the reference semantics of ExSpec.v (texts and current line) *)

Lemma shift_mark_outside nul pos ndel nins r g : 0 <= nins -> (r < pos \/ pos + ndel <= r) ->
  snd (shift_mark nul pos ndel nins (r, g)) = g.
Proof.
  intros Hn H. unfold shift_mark.
  destruct (nul && (pos <=? r) && (r <? pos + ndel)) eqn:A.
  - apply andb_prop in A. destruct A as [A A2]. apply andb_prop in A. destruct A as [_ A1]. lia.
  - destruct (pos + ndel <=? r) eqn:B; [reflexivity|]. destruct (pos + nins <=? r) eqn:C; [lia|].
    destruct (pos <=? r) eqn:D; [lia | reflexivity].
Qed.

Lemma splice_length {A} (b e : nat) (t l : list A) : (b <= e)%nat -> (e <= length l)%nat ->
  length (splice b e t l) = (length l - (e - b) + length t)%nat.
Proof. intros. unfold splice. rewrite !app_length, firstn_length, skipn_length. lia. Qed.

Lemma texts_edit s t (b e : Z) : 0 <= b <= e -> e <= slen s ->
  texts (edit s t b e) = splice (Z.to_nat b) (Z.to_nat e) (match t with Some x => split_lines x | None => [] end) (texts s).
Proof.
  intros H1 H2. unfold texts, edit. cbn [lb set_lb]. unfold slen, llen in H2.
  rewrite lbuf_edit_lns by lia. rewrite map_splice. unfold new_of. rewrite mknew_texts. reflexivity.
Qed.

Lemma slen_texts s : slen s = Z.of_nat (length (texts s)).
Proof. unfold slen, llen, texts. rewrite map_length. reflexivity. Qed.

Section ExR.
Variable rvalid : bytes -> bool.
Variable rfind : bytes -> bytes -> bool -> option (nat * nat).

Lemma region_texts loc s bad b e s1 : ex_region rvalid rfind loc s = (bad, b, e, s1) -> texts s1 = texts s.
Proof. intro E. unfold texts. rewrite (region_slen _ _ _ _ _ _ _ _ E). reflexivity. Qed.

Theorem delete_refines loc arg s b e s1 : ex_region rvalid rfind loc s = (false, b, e, s1) -> slen s <> 0 -> ex_zero loc b e = false ->
  let s' := fst (ec_delete rvalid rfind loc arg s) in
  (texts s', xrow s') = ref_delete (texts s) b e.
Proof.
  intros E Hn Hz. pose proof (region_bounds _ _ _ _ _ _ _ E) as (B1 & B2 & B3). pose proof (region_texts _ _ _ _ _ _ E) as T.
  assert (L : slen s1 = slen s) by (unfold slen; rewrite (region_slen _ _ _ _ _ _ _ _ E); reflexivity).
  unfold ec_delete. rewrite E, Hz. cbn [orb]. rewrite L. destruct (slen s =? 0) eqn:Z0; [lia|]. cbn [fst].
  unfold ref_delete. cbn [xrow set_xrow].
  assert (TE : texts (edit (ex_yank s1 (REG arg) b e) None b e) = splice (Z.to_nat b) (Z.to_nat e) [] (texts s)).
  { rewrite texts_edit; [rewrite <- T; reflexivity | lia | unfold ex_yank, slen; cbn [lb set_regs]; fold (slen s1); lia]. }
  change (texts (set_xrow ?x ?r)) with (texts x). rewrite TE. f_equal.
  rewrite slen_texts, TE. unfold clampz. lia.
Qed.

Theorem insert_refines loc cmd txt s b e s1 : ex_region rvalid rfind loc s = (false, b, e, s1) ->
  let s' := fst (ec_insert rvalid rfind loc cmd (Some txt) s) in
  (texts s', xrow s') =
    (if (hd0 cmd =? 99)%N then ref_change (texts s) (if (hd0 cmd =? 97)%N && (b <? e) then b + 1 else b) e (split_lines txt)
     else if (hd0 cmd =? 97)%N then ref_append (texts s) b e (split_lines txt)
     else ref_insert (texts s) b e (split_lines txt)).
Proof.
  intros E. pose proof (region_bounds _ _ _ _ _ _ _ E) as (B1 & B2 & B3). pose proof (region_texts _ _ _ _ _ _ E) as T.
  unfold ec_insert. rewrite E. cbn [andb fst xrow set_xrow].
  change (texts (set_xrow ?x ?r)) with (texts x).
  assert (K : (b + 1 <=? slen s1) = true \/ (b <? e) = false) by (destruct (b <? e) eqn:X; [left; apply Z.leb_le; lia | right; reflexivity]).
  set (b' := if (hd0 cmd =? 97)%N && (b <? e) && (b + 1 <=? slen s1) then b + 1 else b).
  assert (Hb' : b' = if (hd0 cmd =? 97)%N && (b <? e) then b + 1 else b).
  { unfold b'. destruct (hd0 cmd =? 97)%N; [|reflexivity]. destruct K as [K|K]; rewrite K; cbn [andb]; [rewrite andb_true_r|]; reflexivity. }
  clearbody b'.
  assert (Rb : b <= b' <= e) by (rewrite Hb'; destruct (hd0 cmd =? 97)%N; cbn [andb]; [destruct (b <? e) eqn:X|]; lia).
  set (e' := if (hd0 cmd =? 99)%N then e else b').
  assert (Re : b' <= e' <= e) by (unfold e'; destruct (hd0 cmd =? 99)%N; lia).
  assert (TE : texts (edit s1 (Some txt) b' e') = splice (Z.to_nat b') (Z.to_nat e') (split_lines txt) (texts s)).
  { rewrite texts_edit by lia. rewrite T. reflexivity. }
  rewrite TE. rewrite !slen_texts, TE, T.
  assert (LEN : Z.of_nat (length (splice (Z.to_nat b') (Z.to_nat e') (split_lines txt) (texts s))) =
                Z.of_nat (length (texts s)) - (e' - b') + Z.of_nat (length (split_lines txt))).
  { assert (Hlen : e <= Z.of_nat (length (texts s))) by (rewrite <- T, <- slen_texts; exact B2).
    rewrite splice_length; lia. }
  unfold e' in *. destruct (hd0 cmd =? 99)%N eqn:C.
  - unfold ref_change. rewrite <- Hb'. f_equal. unfold clampz. rewrite LEN. lia.
  - destruct (hd0 cmd =? 97)%N eqn:A.
    + unfold ref_append. cbn [andb] in Hb'. rewrite <- Hb'. f_equal. unfold clampz. rewrite LEN. lia.
    + unfold ref_insert. cbn [andb] in Hb'. subst b'. f_equal. unfold clampz. rewrite LEN. lia.
Qed.

Theorem print_refines loc cmd s b e s1 : ex_region rvalid rfind loc s = (false, b, e, s1) -> (cmd <> [] \/ loc <> []) -> ex_zero loc b e = false ->
  let s' := fst (ec_print rvalid rfind loc cmd s) in
  texts s' = texts s /\ xrow s' = snd (ref_print (texts s) b e) /\
  out s' = rev (map OLine (fst (ref_print (texts s) b e))) ++ out s1.
Proof.
  intros E Hc Hz. unfold ec_print.
  assert (X : (match cmd, loc with [], [] => true | _, _ => false end) = false) by (destruct cmd; destruct loc; try reflexivity; destruct Hc; congruence).
  rewrite X. cbn [andb]. rewrite E, Hz. cbn [orb fst xrow set_xrow]. change (texts (set_xrow ?x ?r)) with (texts x).
  assert (P : forall l s0, texts (print_lines l s0) = texts s0 /\ out (print_lines l s0) = rev (map OLine (map ltxt l)) ++ out s0).
  { induction l as [|x l IH]; intro s0; [split; reflexivity|]. cbn [print_lines map rev]. destruct (IH (emit s0 (OLine (ltxt x)))) as [I1 I2].
    split; [rewrite I1; reflexivity | rewrite I2; cbn [out emit]; rewrite <- app_assoc; reflexivity]. }
  destruct (P (firstn (Z.to_nat (e - b)) (skipn (Z.to_nat b) (lns (lb s1)))) s1) as [P1 P2].
  split; [rewrite P1; apply (region_texts _ _ _ _ _ _ E)|]. split; [reflexivity|].
  change (out (set_xrow ?x ?r)) with (out x). rewrite P2. unfold ref_print. cbn [fst]. unfold texts.
  rewrite <- (region_slen _ _ _ _ _ _ _ _ E). rewrite skipn_map, firstn_map. reflexivity.
Qed.

Lemma cp_range l (b e : Z) : 0 <= b <= e -> lbuf_cp l (Z.to_nat b) (Z.to_nat e) = ref_range (map ltxt (lns l)) b e.
Proof.
  intro H. unfold lbuf_cp, ref_range. rewrite skipn_map, firstn_map. replace (Z.to_nat e - Z.to_nat b)%nat with (Z.to_nat (e - b)) by lia.
  reflexivity.
Qed.

Theorem put_refines loc arg s b e s1 buf : ex_region rvalid rfind loc s = (false, b, e, s1) ->
  reg_special (REG arg) = false -> reg_get s (REG arg) = Some buf ->
  let s' := fst (ec_put rvalid rfind loc arg s) in
  (texts s', xrow s') = ref_put (texts s) b e (split_lines buf).
Proof.
  intros E Hsp Hg. pose proof (region_bounds _ _ _ _ _ _ _ E) as (B1 & B2 & B3). pose proof (region_texts _ _ _ _ _ _ E) as T.
  assert (L : slen s1 = slen s) by (unfold slen; rewrite (region_slen _ _ _ _ _ _ _ _ E); reflexivity).
  unfold ec_put. rewrite Hsp, Hg, E. cbn [andb fst xrow set_xrow]. change (texts (set_xrow ?x ?r)) with (texts x).
  assert (TE : texts (edit s1 (Some buf) e e) = splice (Z.to_nat e) (Z.to_nat e) (split_lines buf) (texts s)).
  { rewrite texts_edit by lia. rewrite T. reflexivity. }
  rewrite TE. unfold ref_put. f_equal. rewrite !slen_texts, TE.
  assert (Hlen : e <= Z.of_nat (length (texts s))) by (rewrite <- T, <- slen_texts; exact B2).
  unfold clampz. rewrite splice_length by lia. lia.
Qed.

Theorem read_refines (readfile : bytes -> option bytes) (curpath : bytes) loc arg s b e s1 data :
  ex_region rvalid rfind loc s = (false, b, e, s1) ->
  negb (plain_arg arg) || (hd0 arg =? 33)%N = false ->
  readfile (match arg with [] => curpath | _ => arg end) = Some data ->
  let s' := fst (ec_read rvalid rfind readfile curpath loc arg s) in
  (texts s', xrow s') = ref_read (texts s) b e (split_lines data) /\ out s' = OMsg M_READ :: out s1.
Proof.
  intros E Hp Hr. pose proof (region_bounds _ _ _ _ _ _ _ E) as (B1 & B2 & B3). pose proof (region_texts _ _ _ _ _ _ E) as T.
  assert (L : slen s1 = slen s) by (unfold slen; rewrite (region_slen _ _ _ _ _ _ _ _ E); reflexivity).
  unfold ec_read. rewrite Hp, E, Hr. cbn [andb fst xrow set_xrow emit out].
  change (texts (emit ?x ?o)) with (texts x). change (texts (set_xrow ?x ?r)) with (texts x).
  set (pos := if slen s1 =? 0 then 0 else e).
  assert (Hpos : 0 <= pos <= slen s1) by (unfold pos; destruct (slen s1 =? 0) eqn:Z0; lia).
  assert (TE : texts (edit s1 (Some data) pos pos) = splice (Z.to_nat pos) (Z.to_nat pos) (split_lines data) (texts s)).
  { rewrite texts_edit by lia. rewrite T. reflexivity. }
  split; [|reflexivity]. rewrite TE. unfold ref_read. rewrite <- slen_texts, <- L. fold pos. f_equal.
  assert (Hlen : pos <= Z.of_nat (length (texts s))) by (rewrite <- T, <- slen_texts; lia).
  rewrite !slen_texts, TE, T. rewrite splice_length by lia. lia.
Qed.

Theorem yank_refines loc arg s b e s1 : ex_region rvalid rfind loc s = (false, b, e, s1) -> slen s <> 0 -> ex_zero loc b e = false ->
  let s' := fst (ec_yank rvalid rfind loc arg s) in
  texts s' = texts s /\ xrow s' = xrow s1 /\ regs s' = reg_put (regs s1) (REG arg) (ref_range (texts s) b e).
Proof.
  intros E Hn Hz. pose proof (region_bounds _ _ _ _ _ _ _ E) as (B1 & B2 & B3). pose proof (region_texts _ _ _ _ _ _ E) as T.
  assert (L : slen s1 = slen s) by (unfold slen; rewrite (region_slen _ _ _ _ _ _ _ _ E); reflexivity).
  unfold ec_yank. rewrite E, Hz, L. cbn [orb]. destruct (slen s =? 0) eqn:Z0; [lia|]. cbn [fst].
  unfold ex_yank. split; [exact T|]. split; [reflexivity|]. cbn [regs set_regs]. rewrite cp_range by lia. rewrite <- T. reflexivity.
Qed.

(* delete also stores what it removes *)
Theorem delete_regs loc arg s b e s1 : ex_region rvalid rfind loc s = (false, b, e, s1) -> slen s <> 0 -> ex_zero loc b e = false ->
  regs (fst (ec_delete rvalid rfind loc arg s)) = reg_put (regs s1) (REG arg) (ref_range (texts s) b e).
Proof.
  intros E Hn Hz. pose proof (region_bounds _ _ _ _ _ _ _ E) as (B1 & B2 & B3). pose proof (region_texts _ _ _ _ _ _ E) as T.
  assert (L : slen s1 = slen s) by (unfold slen; rewrite (region_slen _ _ _ _ _ _ _ _ E); reflexivity).
  unfold ec_delete. rewrite E, Hz, L. cbn [orb]. destruct (slen s =? 0) eqn:Z0; [lia|]. cbn [fst].
  unfold ex_yank, edit. cbn [regs set_xrow set_lb set_regs lb]. rewrite cp_range by lia. rewrite <- T. reflexivity.
Qed.

Lemma nth_upd_same {A} : forall (l : list A) k v d, (k < length l)%nat -> nth k (upd k v l) d = v.
Proof. induction l as [|x l IH]; intros k v d H; [cbn in H; lia|]. destruct k; cbn [upd nth]; [reflexivity | apply IH; cbn in H; lia]. Qed.

Theorem mark_refines loc arg s b e s1 k : ex_region rvalid rfind loc s = (false, b, e, s1) -> ex_zero loc b e = false ->
  markidx (hd0 arg) = Some k -> (k < length (marks (lb s)))%nat ->
  let s' := fst (ec_mark rvalid rfind loc arg s) in
  texts s' = texts s /\ xrow s' = xrow s1 /\ nth k (marks (lb s')) (-1, None) = (e - 1, ghost_at (lns (lb s)) (e - 1)).
Proof.
  intros E Hz Hk Hl. pose proof (region_slen _ _ _ _ _ _ _ _ E) as R.
  unfold ec_mark. rewrite E, Hz. cbn [orb fst]. unfold texts. cbn [lb set_lb xrow]. rewrite lbuf_mark_lns, R.
  split; [reflexivity|]. split; [reflexivity|]. unfold lbuf_mark. rewrite Hk. cbn [marks]. apply nth_upd_same. exact Hl.
Qed.

(* the filter command: the addressed lines (each with its newline) are the filter's input, its output replaces them;
   the current line NUMBER is left alone *)
Theorem filter_refines (filter : bytes -> bytes -> option bytes) loc arg s b e s1 rep :
  xwa s = true -> plain_arg arg = true -> loc <> [] ->
  ex_region rvalid rfind loc s = (false, b, e, s1) -> ex_zero loc b e = false ->
  filter arg (ref_range (texts s) b e) = Some rep ->
  let s' := fst (ec_exec rvalid rfind filter loc arg s) in
  texts s' = splice (Z.to_nat b) (Z.to_nat e) (split_lines rep) (texts s) /\ xrow s' = xrow s1.
Proof.
  intros Hw Hp Hl E Hz Hf. pose proof (region_bounds _ _ _ _ _ _ _ E) as (B1 & B2 & B3). pose proof (region_texts _ _ _ _ _ _ E) as T.
  unfold ec_exec. rewrite Hw, Hp. cbn [negb]. destruct loc as [|c loc]; [congruence|]. rewrite E, Hz. cbn [orb].
  rewrite cp_range by lia. fold (texts s1). rewrite T, Hf. cbn [fst]. split; [|reflexivity].
  rewrite texts_edit by lia. rewrite T. reflexivity.
Qed.

Theorem lnum_refines loc s b e s1 : ex_region rvalid rfind loc s = (false, b, e, s1) -> ex_zero loc b e = false ->
  let s' := fst (ec_lnum rvalid rfind loc s) in
  texts s' = texts s /\ xrow s' = xrow s1 /\ out s' = ONum e :: out s1.
Proof.
  intros E Hz. unfold ec_lnum. rewrite E, Hz. cbn [orb fst]. split; [apply (region_texts _ _ _ _ _ _ E)|]. split; reflexivity.
Qed.
End ExR.

Lemma marks_track_main rvalid rfind filter readfile curpath data input wa n fuel :
  marks_agree (lb (ex_main rvalid rfind filter readfile curpath n fuel (init_st data input wa))).
Proof. apply sagree_ex_main. apply sagree_init. Qed.
