(* TrCmp18Dir.v -- dir_match / dir_fix / dir_context / dir_reorder (TrDirBase.v, TrDirMatch.v, TrDir.v) once more, for an oracle
   hypothesis that only speaks about the memories that extend a base memory m0 outside a set W of blocks (oracle_on,
   ctx_oracle_on): what an oracle that needs its own data intact in memory (the translated rset_find: its struct rset) can
   satisfy.  The proofs are those of the three files with the invariant mem_ext m0 _ W carried along. *)
From Coq Require Import List ZArith NArith Bool Lia Permutation.
From NV Require Import Bytes UcDefs GenConf GenConsts DirDefs DirProps IoDefs IoProps CLite CLiteProps GenCFuncs CLiteTac CLiteExt TrUc TrRen TrSbuf TrRen2 TrRenPos TrDirBase TrDirMatch TrDir.
Import ListNotations.
Local Open Scope Z_scope.

Definition oracle_on (m0 : mem) (W : list nat) (ext : nat -> list val -> mem -> res (val * mem)) (s : bytes) (chrs : list nat) (rslr rsrl : val)
    (raw : nat -> nat -> Z -> Z -> option rawres) : Prop :=
  forall (m : mem) b e ctx strb gb gblk,
    mem_ext m0 m W -> (length m0 <= strb)%nat -> (length m0 <= gb)%nat ->
    (b <= e < length chrs)%nat -> is_null (rs_of rslr rsrl ctx) = false ->
    pstr_at m strb (substr s chrs b e) -> nth_error m gb = Some gblk -> length gblk = 32%nat -> gb <> strb ->
    exists m',
      ext X_rset_find [rs_of rslr rsrl ctx; VPtr strb 0; VInt 16; VPtr gb 0; VInt (dm_flags s chrs b e)] m
      = Ok (VInt (match raw b e ctx (dm_flags s chrs b e) with Some (found, _) => Z.of_nat found | None => -1 end), m') /\
      mem_ext m m' [gb] /\
      nth_error m' gb = Some (match raw b e ctx (dm_flags s chrs b e) with
                              | Some (_, subs) => map VInt (subs_cells subs) | None => gblk end).
(* i.e. TrDirBase.oracle_ok with three more premises *)
Lemma oracle_ok_on m0 W ext s chrs rslr rsrl raw : oracle_ok ext s chrs rslr rsrl raw -> oracle_on m0 W ext s chrs rslr rsrl raw.
Proof. intros H m b e ctx strb gb gblk _ _ _. apply H. Qed.

Definition ctx_oracle_on (m0 : mem) (W : list nat) (ext : nat -> list val -> mem -> res (val * mem)) (rsctx : val) (sb : nat) (s : bytes) (cf : Z) : Prop :=
  int_ok cf /\ (is_null rsctx = true -> cf = -1) /\
  (is_null rsctx = false -> forall (m : mem), mem_ext m0 m W -> str_at m sb s ->
     exists m2, ext X_rset_find [rsctx; VPtr sb 0; VInt 0; VInt 0; VInt 0] m = Ok (VInt cf, m2) /\ mem_ext m m2 []).
Lemma ctx_oracle_ok_on m0 W ext rsctx sb s cf : ctx_oracle_ok ext rsctx sb s cf -> ctx_oracle_on m0 W ext rsctx sb s cf.
Proof. intros (H1 & H2 & H3). split; [exact H1|]. split; [exact H2|]. intros Hn m _. apply H3. exact Hn. Qed.

(* the invariant: a memory that extends m0 outside W still does after a step that changes only blocks of W or blocks m0 has not *)
Lemma mem_ext_on (m0 m m' : mem) W bs : mem_ext m0 m W -> mem_ext m m' bs ->
  (forall b, In b bs -> (b < length m0)%nat -> In b W) -> mem_ext m0 m' W.
Proof. intros H1 H2 H3. apply (mem_ext_trans m0 m m' W bs W H1 H2 (incl_refl _) H3). Qed.

(* ------------------------------------------------------------------ TrDirBase.dm_find_ok *)
Lemma dm_find_on m0 W ext fuel d (m mc : mem) sb s cb chrs rslr rsrl raw b e ctx prec prb pre pcb pce pdir sz bd :
  dir_world m sb s cb chrs rslr rsrl -> (b <= e < length chrs)%nat ->
  oracle_on m0 W ext s chrs rslr rsrl raw -> raw_ok rslr rsrl raw -> mem_ext m0 m W ->
  let L := length m in
  let call := callx ext cprog fuel (S (S (S d))) in
  let outs := dm_outs prec prb pre pcb pce pdir in
  let str := substr s chrs b e in
  let flg := dm_flags s chrs b e in
  let r := raw b e ctx flg in
  mstate m mc outs [] (repeat VUndef 32) VUndef (zb str) sz bd ->
  exists mc' sz' bd',
    exec call fuel (seq_drop 7 dm_body) (mkst (dm_args cb b e ctx prec prb pre pcb pce pdir ++ dm_locals L (rs_of rslr rsrl ctx) flg (-1) VUndef) mc)
    = exec call fuel (seq_drop 8 dm_body)
        (mkst (dm_args cb b e ctx prec prb pre pcb pce pdir ++ dm_locals L (rs_of rslr rsrl ctx) flg (raw_found r) VUndef) mc') /\
    mstate m mc' outs [] (match r with Some (_, subs) => map VInt (subs_cells subs) | None => repeat VUndef 32 end) VUndef (zb str) sz' bd'.
Proof.
  intros Wd Hbe Hor Hraw H0m L call outs str flg r MS. subst call.
  pose proof Wd as [Hs Hnn Hc Hcok Hlr Plr Hrl Prl Htab Hsize].
  pose proof (rs_of_ptr rslr rsrl ctx Plr Prl) as Prs.
  destruct (Hraw b e ctx flg) as [Hnull _]. fold r in Hnull.
  unfold dm_args, dm_locals. cbn [seq_drop dm_body fn_body cf_dir_match app].
  change (SSeq (SIf (EAndAlso _ _) _ _) _) with (seq_drop 8 dm_body).
  set (rs := rs_of rslr rsrl ctx) in *.
  destruct Prs as [E0|[rb [ro E0]]]; rewrite E0 in *; xs.
  - (* no rset for this side *)
    rewrite (Hnull eq_refl). exists mc, sz, bd. split; [reflexivity|exact MS].
  - pose proof (ms_len _ _ _ _ _ _ _ _ _ MS) as Hlen.
    destruct (tr_sbuf_buf mc (S L) (zb str) sz (S d) fuel (ms_rep _ _ _ _ _ _ _ _ _ MS)) as [b5 [m5 [rest [E5 [R5 [D5 [Hd5 [_ [_ [S5 _]]]]]]]]]].
    rewrite (callx_mono ext _ _ _ _ _ _ _ E5). xs.
    pose proof (ms_step _ _ _ _ _ _ _ _ _ _ _ _ _ MS S5 R5 D5) as MS5.
    pose proof (pstr_of_buf m5 b5 str rest Hd5) as P5.
    change (wrap U64 2) with 2. xs. change (wrap I32 16) with 16.
    rewrite callx_S, x_rset_find_none.
    assert (Hl0 : (length m0 <= L)%nat) by (destruct H0m as [X _]; exact X).
    pose proof (ms_bd _ _ _ _ _ _ _ _ _ MS5) as Hb5. fold L in Hb5.
    destruct (Hor m5 b e ctx b5 L (repeat VUndef 32)) as [m6 [E6 [X6 H6]]].
    + apply (mem_ext_on m0 m m5 W [] H0m (ms_ext _ _ _ _ _ _ _ _ _ MS5)). intros ? [].
    + lia.
    + exact Hl0.
    + exact Hbe.
    + fold rs. rewrite E0. reflexivity.
    + exact P5.
    + exact (ms_subs _ _ _ _ _ _ _ _ _ MS5).
    + apply repeat_length.
    + lia.
    + fold rs flg r in E6, H6. rewrite E0 in E6. rewrite E6. xs.
      exists m6, (sb_sz (IoDefs.sbuf_buf (sb_model (zb str) sz))), b5. split; [reflexivity|].
      apply (ms_extL _ _ _ _ _ _ _ _ _ _ _ MS5 X6). fold L. rewrite H6. destruct r as [[f subs]|]; reflexivity.
Qed.

(* ------------------------------------------------------------------ TrDirMatch.tr_dir_match *)
Theorem tr_dir_match_on m0 W ext fuel d (m : mem) sb s cb chrs rslr rsrl raw b e ctx prec prb pre pcb pce pdir :
  dir_world m sb s cb chrs rslr rsrl -> (b <= e < length chrs)%nat ->
  outs_ok m sb cb (dm_outs prec prb pre pcb pce pdir) ->
  oracle_on m0 W ext s chrs rslr rsrl raw -> raw_ok rslr rsrl raw -> (length s < fuel)%nat -> mem_ext m0 m W ->
  exists m',
    callx ext cprog fuel (S (S (S (S d)))) F_dir_match (dm_args cb b e ctx prec prb pre pcb pce pdir) m
    = Ok (VInt (match dir_match s chrs raw b e ctx with Some _ => 0 | None => 1 end), m') /\
    match dir_match s chrs raw b e ctx with
    | Some res => mem_ext m m' (dm_outs prec prb pre pcb pce pdir) /\ res_cells m' prec prb pre pcb pce pdir res
    | None => mem_ext m m' []
    end.
Proof.
  intros Wd Hbe Hout Hor Hraw Hf H0m.
  rewrite callx_S. change (nth_error cprog F_dir_match) with (Some cf_dir_match). cbv iota beta.
  change (fn_nparams cf_dir_match) with 10%nat. change (fn_nlocals cf_dir_match) with 17%nat.
  change (fn_body cf_dir_match) with dm_body. unfold dm_args. cbn [length Nat.eqb Nat.sub].
  destruct (dm_setup_ok ext fuel d m sb s cb chrs rslr rsrl b e ctx prec prb pre pcb pce pdir Wd Hbe Hout) as [m1 [sz1 [bd1 [E1 MS1]]]].
  unfold dm_args in E1. rewrite E1. clear E1.
  destruct (dm_find_on m0 W ext fuel d m m1 sb s cb chrs rslr rsrl raw b e ctx prec prb pre pcb pce pdir sz1 bd1 Wd Hbe Hor Hraw H0m MS1)
    as [m2 [sz2 [bd2 [E2 MS2]]]].
  unfold dm_args, dm_locals in E2. unfold dm_locals. rewrite E2. clear E2.
  destruct (Hraw b e ctx (dm_flags s chrs b e)) as [_ Hsome].
  destruct (raw b e ctx (dm_flags s chrs b e)) as [[found subs]|] eqn:Hr.
  - destruct (Hsome found subs eq_refl) as (Hfound & Hint & H0 & H1).
    destruct (dm_conv_ok ext fuel d m m2 sb s cb chrs rslr rsrl raw b e ctx prec prb pre pcb pce pdir sz2 bd2 found subs
                Wd Hbe Hout Hr Hfound Hint H0 H1 Hf MS2) as (m3 & sz3 & bd3 & sv & gv & chg & res & E3 & MS3 & Hchg & DM & RC).
    unfold dm_args, dm_locals in E3. cbn [raw_found]. rewrite E3. clear E3.
    destruct (dm_tail_ok ext fuel d m m3 _ _ _ _ _ _ _ (dm_args cb b e ctx prec prb pre pcb pce pdir) (length m)
                (rs_of rslr rsrl ctx) (dm_flags s chrs b e) (Z.of_nat found) sv MS3 eq_refl eq_refl) as (m4 & E4 & X4 & O4).
    unfold dm_args, dm_locals in E4. rewrite E4. clear E4. cbn [memm].
    exists m4. rewrite DM. split; [destruct (Z.ltb_spec (Z.of_nat found) 0); [lia|reflexivity]|]. split.
    + apply (mem_ext_weaken' _ _ _ _ X4). intros q Hq Hl. destruct (Hchg q Hq) as [X| ->]; [exact X|exfalso; lia].
    + destruct RC as (R1 & R2 & R3 & R4 & R5 & R6). unfold res_cells.
      rewrite !O4 by (unfold dm_outs; cbn [In]; auto 10). auto 10.
  - assert (DM : dir_match s chrs raw b e ctx = None) by (unfold dir_match; rewrite Hr; reflexivity).
    (* found = -1: the conversion is skipped *)
    assert (E3 : forall st, exec (callx ext cprog fuel (S (S (S d)))) fuel (seq_drop 8 dm_body)
                   (mkst (dm_args cb b e ctx prec prb pre pcb pce pdir ++ dm_locals (length m) (rs_of rslr rsrl ctx) (dm_flags s chrs b e) (-1) VUndef) st)
                 = exec (callx ext cprog fuel (S (S (S d)))) fuel (seq_drop 9 dm_body)
                   (mkst (dm_args cb b e ctx prec prb pre pcb pce pdir ++ dm_locals (length m) (rs_of rslr rsrl ctx) (dm_flags s chrs b e) (-1) VUndef) st)).
    { intros st. unfold dm_args, dm_locals. cbn [seq_drop dm_body fn_body cf_dir_match app].
      change (SSeq (SExpr (ECall F_sbuf_free _)) _) with (seq_drop 9 dm_body). xs. reflexivity. }
    cbn [raw_found]. unfold dm_args, dm_locals in E3. rewrite (E3 m2). clear E3.
    destruct (dm_tail_ok ext fuel d m m2 _ _ _ _ _ _ _ (dm_args cb b e ctx prec prb pre pcb pce pdir) (length m)
                (rs_of rslr rsrl ctx) (dm_flags s chrs b e) (-1) VUndef MS2 eq_refl eq_refl) as (m4 & E4 & X4 & O4).
    unfold dm_args, dm_locals in E4. rewrite E4. clear E4. cbn [memm].
    exists m4. rewrite DM. split; [reflexivity|exact X4].
Qed.

(* ------------------------------------------------------------------ TrDir.v: dir_fix *)
Definition fix_call_spec_on (m0 : mem) (W : list nat) (ext : nat -> list val -> mem -> res (val * mem)) (FUEL f : nat) : Prop :=
  forall d (m : mem) sb s cb chrs rslr rsrl raw g ord dir b e N ord',
    dir_world m sb s cb chrs rslr rsrl -> oracle_on m0 W ext s chrs rslr rsrl raw -> raw_ok rslr rsrl raw ->
    cm_ok (dir_match s chrs raw) N -> (e <= N)%nat -> (N < length chrs)%nat -> (N <= length ord)%nat ->
    int_arr_at m g (map Z.of_nat ord) -> ints_ok (map Z.of_nat ord) -> ~ In g (world_blocks sb cb) ->
    mem_ext m0 m W -> In g W ->
    (f < FUEL)%nat -> (length s < FUEL)%nat -> (N < FUEL)%nat ->
    dir_fix (dir_match s chrs raw) f ord dir b e = Some ord' ->
    exists m', callx ext cprog FUEL (S (S (S (S (S (f + d)))))) F_dir_fix
                 [VPtr cb 0; VPtr g 0; VInt dir; VInt (Z.of_nat b); VInt (Z.of_nat e)] m = Ok (VUndef, m') /\
      mem_ext m m' [g] /\ int_arr_at m' g (map Z.of_nat ord').

Lemma dfix_body_on m0 W ext FUEL f' d Fl (m1 : mem) sb s cb chrs rslr rsrl raw g ord dir b e N prec prb pre pcb pce pdir r ord3 :
  fix_call_spec_on m0 W ext FUEL f' ->
  let outs := dm_outs prec prb pre pcb pce pdir in
  let cm := dir_match s chrs raw in
  fix_inv m1 sb s cb chrs rslr rsrl g ord outs ->
  res_cells m1 prec prb pre pcb pce pdir r -> span_ok b e r -> int_ok (c_dir r) ->
  oracle_on m0 W ext s chrs rslr rsrl raw -> raw_ok rslr rsrl raw -> cm_ok cm N ->
  (e <= N)%nat -> (N < length chrs)%nat -> (N <= length ord)%nat ->
  mem_ext m0 m1 W -> In g W -> (forall p, In p (dm_outs prec prb pre pcb pce pdir) -> (length m0 <= p)%nat) ->
  (f' < FUEL)%nat -> (length s < FUEL)%nat -> (N < FUEL)%nat ->
  rec_call cm f' dir r ord = Some ord3 ->
  exists m2,
    exec (callx ext cprog FUEL (S (S (S (S (S (f' + d))))))) Fl dfix_body (mkst (fix_locals cb g dir b e prec prb pre pcb pce pdir) m1)
    = ONormal (mkst (fix_locals cb g dir (r_end r) e prec prb pre pcb pce pdir) m2) /\
    fix_inv m2 sb s cb chrs rslr rsrl g ord3 outs /\ mem_ext m1 m2 (g :: outs).
Proof.
  intros Hrec outs cm FI RC Hsp Icd Hor Hraw Hcm HeN HNc HNo H0m HgW Hge Hf1 Hf2 Hf3 Hrc.
  pose proof FI as [Wd Ho Hi Hgw Hgo [Hnd Hout]].
  pose proof (nodup6h _ _ _ _ _ _ Hnd) as HN.
  pose proof (dw_size _ _ _ _ _ _ _ Wd) as Hsize.
  destruct Hsp as (B1 & B2 & B3 & B4 & B5 & B6).
  destruct RC as (Rrb & Rre & Rcb & Rce & Rdir & Rrec).
  set (rb := r_beg r) in *. set (re := r_end r) in *. set (cbg := c_beg r) in *. set (ce := c_end r) in *.
  set (cdir := c_dir r) in *. set (crec := c_rec r) in *.
  assert (Og : forall p, In p outs -> p <> g) by (intros p Hp ->; exact (Hgo Hp)).
  assert (In_rec : In prec outs) by (left; reflexivity).
  assert (In_rb : In prb outs) by (right; left; reflexivity).
  assert (In_re : In pre outs) by (right; right; left; reflexivity).
  assert (In_cb : In pcb outs) by (right; right; right; left; reflexivity).
  assert (In_ce : In pce outs) by (right; right; right; right; left; reflexivity).
  assert (In_dir : In pdir outs) by (right; right; right; right; right; left; reflexivity).
  assert (Hgl : (g < length m1)%nat) by (apply nth_error_Some; unfold int_arr_at in Ho; congruence).
  set (call := callx ext cprog FUEL (S (S (S (S (S (f' + d))))))).
  set (loc := fix_locals cb g dir b e prec prb pre pcb pce pdir).
  set (o1 := step1 dir r ord). set (o2 := step2 dir r ord).
  assert (Lo1 : length o1 = length ord) by apply step1_length.
  assert (Lo2 : length o2 = length ord) by apply step2_length.
  assert (Io1 : ints_ok (map Z.of_nat o1)) by (apply (ints_ok_perm ord); [apply step1_perm|exact Hi]).
  assert (Io2 : ints_ok (map Z.of_nat o2)) by (apply (ints_ok_perm ord); [apply step2_perm|exact Hi]).
  (* if (dir < 0) dir_reverse(ord, r_beg, r_end) *)
  set (ma := upd m1 g (map VInt (map Z.of_nat o1))).
  assert (A1 : exec call Fl (seq_nth 0 dfix_body) (mkst loc m1) = ONormal (mkst loc ma)).
  { unfold dfix_body, dfix_loop, loc, fix_locals, ma, o1, step1. cbn [seq_nth fn_body cf_dir_fix]. rewrite exec_if. xs.
    destruct (dir <? 0); xs.
    - rewrite (ld_cell _ _ _ Rrb). xs. rewrite (ld_cell _ _ _ Rre). xs. rewrite !wrap_I32_id by lia. unfold call.
      rewrite (callx_mono ext _ _ _ _ _ _ _ (tr_dir_reverse m1 g ord rb re _ FUEL Ho Hi ltac:(lia) ltac:(lia) ltac:(lia) ltac:(lia))). reflexivity.
    - rewrite (int_arr_upd_self m1 g _ Ho). reflexivity. }
  assert (Hoa : int_arr_at ma g (map Z.of_nat o1)) by (apply (int_arr_at_upd m1 g _ _ Ho)).
  assert (Ea : mem_ext m1 ma [g]) by (apply mem_ext_upd; left; reflexivity).
  assert (Ga : forall p blk, In p outs -> nth_error m1 p = Some blk -> nth_error ma p = Some blk).
  { intros p blk Hp Hb. apply (mem_ext_get _ _ _ _ _ Ea Hb). intros [X|[]]. exact (Og p Hp (eq_sym X)). }
  (* if (c_dir < 0) dir_reverse(ord, c_beg, c_end) *)
  set (mb := upd m1 g (map VInt (map Z.of_nat o2))).
  assert (A2 : exec call Fl (seq_nth 1 dfix_body) (mkst loc ma) = ONormal (mkst loc mb)).
  { unfold dfix_body, dfix_loop, loc, fix_locals. cbn [seq_nth fn_body cf_dir_fix]. rewrite exec_if. xs.
    rewrite (ld_cell _ _ _ (Ga _ _ In_dir Rdir)). xs. rewrite (wrap_int_ok _ Icd).
    unfold mb, o2, step2. fold cdir o1. destruct (cdir <? 0); xs.
    - rewrite (ld_cell _ _ _ (Ga _ _ In_cb Rcb)). xs. rewrite (ld_cell _ _ _ (Ga _ _ In_ce Rce)). xs. rewrite !wrap_I32_id by lia. unfold call.
      rewrite (callx_mono ext _ _ _ _ _ _ _ (tr_dir_reverse ma g o1 cbg ce _ FUEL Hoa Io1 ltac:(lia) ltac:(lia) ltac:(lia) ltac:(lia))).
      unfold ma. rewrite (int_arr_upd_upd m1 g _ _ _ Ho). reflexivity.
    - reflexivity. }
  assert (Hob : int_arr_at mb g (map Z.of_nat o2)) by (apply (int_arr_at_upd m1 g _ _ Ho)).
  assert (Eb : mem_ext m1 mb [g]) by (apply mem_ext_upd; left; reflexivity).
  assert (Gb : forall p blk, In p outs -> nth_error m1 p = Some blk -> nth_error mb p = Some blk).
  { intros p blk Hp Hb. apply (mem_ext_get _ _ _ _ _ Eb Hb). intros [X|[]]. exact (Og p Hp (eq_sym X)). }
  assert (Hlb : length mb = length m1) by (unfold mb; apply upd_length; exact Hgl).
  (* if (c_beg == r_beg) c_beg++ *)
  set (cb' := cbeg r).
  set (mc := upd mb pcb [VInt (Z.of_nat cb')]).
  assert (Hpl : forall p, In p outs -> (p < length mb)%nat).
  { intros p Hp. destruct (proj1 (Hout p Hp)) as [v Hv]. apply nth_error_Some. rewrite (Gb _ _ Hp Hv). discriminate. }
  assert (A3 : exec call Fl (seq_nth 2 dfix_body) (mkst loc mb) = ONormal (mkst loc mc)).
  { unfold dfix_body, dfix_loop, loc, fix_locals. cbn [seq_nth fn_body cf_dir_fix]. rewrite exec_if. xs.
    rewrite (ld_cell _ _ _ (Gb _ _ In_cb Rcb)). xs. rewrite (ld_cell _ _ _ (Gb _ _ In_rb Rrb)). xs. rewrite !wrap_I32_id by lia.
    unfold mc, cb', cbeg. fold cbg rb.
    destruct (Nat.eqb_spec cbg rb) as [E|E]; (destruct (Z.eqb_spec (Z.of_nat cbg) (Z.of_nat rb)); try lia); xs.
    - rewrite (ld_cell _ _ _ (Gb _ _ In_cb Rcb)). xs. rewrite wrap_I32_id by lia. rewrite chk_I32 by lia. xs. cbn [fst snd].
      rewrite (st_cell mb pcb _ _ (Gb _ _ In_cb Rcb)). xs. replace (Z.of_nat cbg + 1) with (Z.of_nat (S cbg)) by lia. reflexivity.
    - rewrite (upd_self mb pcb _ (Gb _ _ In_cb Rcb)). reflexivity. }
  assert (Ec : mem_ext m1 mc (g :: outs)).
  { apply (mem_ext_trans m1 mb mc [g] [pcb] _ Eb); [apply mem_ext_upd; left; reflexivity| |].
    - intros x [<-|[]]. left. reflexivity.
    - intros x [<-|[]] _. right. exact In_cb. }
  assert (Ngc : g <> pcb) by (intro X; exact (Og pcb In_cb (eq_sym X))).
  assert (Hoc : int_arr_at mc g (map Z.of_nat o2)).
  { unfold int_arr_at, mc. rewrite mem_upd_other by (try apply Hpl; auto). exact Hob. }
  assert (Gc : forall p blk, In p outs -> p <> pcb -> nth_error m1 p = Some blk -> nth_error mc p = Some blk).
  { intros p blk Hp Hne Hb. unfold mc. rewrite mem_upd_other by (try apply Hpl; auto). exact (Gb _ _ Hp Hb). }
  assert (Hcbc : nth_error mc pcb = Some [VInt (Z.of_nat cb')]) by (unfold mc; apply mem_upd_same; apply Hpl; exact In_cb).
  assert (Hcells_c : forall p, In p outs -> exists v, nth_error mc p = Some [v]).
  { intros p Hp. destruct (Nat.eq_dec p pcb) as [->|Hne]; [eexists; exact Hcbc|].
    destruct (proj1 (Hout p Hp)) as [v Hv]. exists v. exact (Gc _ _ Hp Hne Hv). }
  assert (FIc : fix_inv mc sb s cb chrs rslr rsrl g o2 outs).
  { apply (fix_inv_ext m1 mc (g :: outs) _ _ _ _ _ _ _ ord o2 _ FI Ec); [|exact Hoc|apply step2_perm|exact Hcells_c].
    intros x [<-|Hx]; [left; reflexivity|right; exact Hx]. }
  assert (H0c : mem_ext m0 mc W).
  { apply (mem_ext_on m0 m1 mc W (g :: outs) H0m Ec). intros x [<-|Hx] Hl; [exact HgW|]. exfalso. specialize (Hge x Hx). lia. }
  (* if (c_rec) dir_fix(chrs, ord, c_dir, c_beg, c_end) *)
  assert (A4 : exists m2, exec call Fl (seq_nth 3 dfix_body) (mkst loc mc) = ONormal (mkst loc m2) /\
                 mem_ext mc m2 [g] /\ int_arr_at m2 g (map Z.of_nat ord3)).
  { unfold dfix_body, dfix_loop, loc, fix_locals. cbn [seq_nth fn_body cf_dir_fix]. rewrite exec_if. xs.
    assert (N1 : prec <> pcb) by (destruct HN as [HN']; decompose [and] HN'; auto).
    assert (N2 : pdir <> pcb) by (destruct HN as [HN']; decompose [and] HN'; auto).
    assert (N3 : pce <> pcb) by (destruct HN as [HN']; decompose [and] HN'; auto).
    rewrite (ld_cell _ _ _ (Gc _ _ In_rec N1 Rrec)). xs. fold crec.
    replace (wrap I32 (b2z crec)) with (b2z crec) by (destruct crec; reflexivity). rewrite nb2z.
    unfold rec_call in Hrc. fold crec cdir ce o2 cb' in Hrc.
    destruct crec; xs.
    - rewrite (ld_cell _ _ _ (Gc _ _ In_dir N2 Rdir)). xs. rewrite (ld_cell _ _ _ Hcbc). xs.
      rewrite (ld_cell _ _ _ (Gc _ _ In_ce N3 Rce)). xs. fold cdir ce. rewrite (wrap_int_ok _ Icd). rewrite !wrap_I32_id by (unfold cb', cbeg; fold cbg rb; destruct (cbg =? rb)%nat; lia).
      destruct (Hrec d mc sb s cb chrs rslr rsrl raw g o2 cdir cb' ce N ord3 (fi_w _ _ _ _ _ _ _ _ _ _ FIc) Hor Hraw Hcm ltac:(lia) HNc ltac:(lia)
                  Hoc Io2 Hgw H0c HgW Hf1 Hf2 Hf3 Hrc) as [m2 [E2 [X2 O2]]].
      unfold call. rewrite E2. xs. exists m2. auto.
    - injection Hrc as <-. exists mc. split; [reflexivity|]. split; [apply mem_ext_refl|exact Hoc]. }
  destruct A4 as [m2 [A4 [E2 O2]]].
  assert (G2 : forall p blk, In p outs -> nth_error mc p = Some blk -> nth_error m2 p = Some blk).
  { intros p blk Hp Hb. apply (mem_ext_get _ _ _ _ _ E2 Hb). intros [X|[]]. exact (Og p Hp (eq_sym X)). }
  exists m2. split.
  - unfold dfix_body, dfix_loop. cbn [fn_body cf_dir_fix].
    change (SIf (EBin OLt I32 (ELocal 2) (EConst 0)) _ _) with (seq_nth 0 dfix_body).
    change (SIf (EBin OLt I32 (ELoad (Some I32) (ELocal 9)) (EConst 0)) _ _) with (seq_nth 1 dfix_body).
    change (SIf (EBin OEq I32 _ _) _ _) with (seq_nth 2 dfix_body).
    change (SIf (ELoad (Some I32) (ELocal 10)) _ _) with (seq_nth 3 dfix_body).
    rewrite exec_seq, A1, exec_seq, A2, exec_seq, A3, exec_seq, A4.
    unfold loc, fix_locals. xs.
    assert (N4 : pre <> pcb) by (destruct HN as [HN']; decompose [and] HN'; auto).
    rewrite (ld_cell _ _ _ (G2 _ _ In_re (Gc _ _ In_re N4 Rre))). xs. rewrite wrap_I32_id by lia. reflexivity.
  - assert (P3 : Permutation ord3 ord).
    { unfold rec_call in Hrc. destruct (c_rec r).
      - etransitivity; [exact (dir_fix_perm _ _ _ _ _ _ _ Hrc)|apply step2_perm].
      - injection Hrc as <-. apply step2_perm. }
    assert (E12 : mem_ext m1 m2 (g :: outs)).
    { apply (mem_ext_trans m1 mc m2 _ [g] _ Ec E2); [apply incl_refl|]. intros x [<-|[]] _. left. reflexivity. }
    split; [|exact E12].
    apply (fix_inv_ext m1 m2 (g :: outs) _ _ _ _ _ _ _ ord ord3 _ FI E12); [|exact O2|exact P3|].
    + intros x [<-|Hx]; [left; reflexivity|right; exact Hx].
    + intros p Hp. destruct (Hcells_c p Hp) as [v Hv]. exists v. exact (G2 _ _ Hp Hv).
Qed.

Definition fix_loop_spec_on (m0 : mem) (W : list nat) (ext : nat -> list val -> mem -> res (val * mem)) (FUEL f : nat) : Prop :=
  forall d Fl (mi : mem) sb s cb chrs rslr rsrl raw g ord dir b e N ord' prec prb pre pcb pce pdir,
    fix_inv mi sb s cb chrs rslr rsrl g ord (dm_outs prec prb pre pcb pce pdir) ->
    oracle_on m0 W ext s chrs rslr rsrl raw -> raw_ok rslr rsrl raw -> cm_ok (dir_match s chrs raw) N ->
    (e <= N)%nat -> (N < length chrs)%nat -> (N <= length ord)%nat ->
    mem_ext m0 mi W -> In g W -> (forall p, In p (dm_outs prec prb pre pcb pce pdir) -> (length m0 <= p)%nat) ->
    (f <= Fl)%nat -> (f < FUEL)%nat -> (length s < FUEL)%nat -> (N < FUEL)%nat ->
    dir_fix (dir_match s chrs raw) f ord dir b e = Some ord' ->
    exists mi' loc',
      exec (callx ext cprog FUEL (S (S (S (S (f + d)))))) Fl dfix_loop (mkst (fix_locals cb g dir b e prec prb pre pcb pce pdir) mi)
      = ONormal (mkst loc' mi') /\
      mem_ext mi mi' (g :: dm_outs prec prb pre pcb pce pdir) /\ int_arr_at mi' g (map Z.of_nat ord').

Lemma fix_call_of_loop_on m0 W ext FUEL f : fix_loop_spec_on m0 W ext FUEL f -> fix_call_spec_on m0 W ext FUEL f.
Proof.
  intros HL d m sb s cb chrs rslr rsrl raw g ord dir b e N ord' Wd Hor Hraw Hcm HeN HNc HNo Ho Hi Hgw H0m HgW Hf1 Hf2 Hf3 Hfix.
  set (L := length m).
  set (m6 := (((((m ++ [[VUndef]]) ++ [[VUndef]]) ++ [[VUndef]]) ++ [[VUndef]]) ++ [[VUndef]]) ++ [[VUndef]]).
  assert (E6 : mem_ext m m6 []).
  { unfold m6. repeat apply mem_ext_app_r. apply mem_ext_refl. }
  assert (L6 : length m6 = (L + 6)%nat) by (unfold m6; rewrite !app_length; cbn [length]; fold L; lia).
  assert (Hgl : (g < L)%nat) by (apply nth_error_Some; unfold int_arr_at in Ho; congruence).
  assert (C6 : forall k, (k < 6)%nat -> nth_error m6 (L + k) = Some [VUndef]).
  { intros k Hk. unfold m6. destruct k as [|[|[|[|[|[|k]]]]]]; try lia;
      repeat (first [ apply nth_app_chain; rewrite ?app_length; cbn [length]; fold L; lia
                    | rewrite nth_error_app_old by (rewrite ?app_length; cbn [length]; fold L; lia) ]). }
  assert (Wb : forall x, In x (world_blocks sb cb) -> (x < L)%nat).
  { destruct Wd as [H1 _ H3 _ H5 _ H7 _ H9 _]. unfold str_at in H1. unfold world_blocks. intros x Hx. cbn [In] in Hx.
    decompose [or] Hx; subst; try tauto; apply nth_error_Some; congruence. }
  assert (FI : fix_inv m6 sb s cb chrs rslr rsrl g ord (dm_outs (L + 5) L (L + 1) (L + 2) (L + 3) (L + 4))).
  { constructor.
    - apply (world_ext m m6 [] _ _ _ _ _ _ Wd E6). intros ? [].
    - apply (mem_ext_get _ _ _ _ _ E6 Ho). intros [].
    - exact Hi.
    - exact Hgw.
    - unfold dm_outs. cbn [In]. lia.
    - split.
      + unfold dm_outs. repeat constructor; cbn [In]; lia.
      + intros p Hp. unfold dm_outs in Hp. cbn [In] in Hp.
        assert (Hk : exists k, (k < 6)%nat /\ p = (L + k)%nat).
        { decompose [or] Hp; subst; try tauto; [exists 5%nat|exists 0%nat|exists 1%nat|exists 2%nat|exists 3%nat|exists 4%nat]; lia. }
        destruct Hk as [k [Hk ->]]. split; [exists VUndef; apply C6; exact Hk|]. intro X. specialize (Wb _ X). lia. }
  assert (H06 : mem_ext m0 m6 W) by (apply (mem_ext_on m0 m m6 W [] H0m E6); intros ? []).
  assert (Hge : forall p, In p (dm_outs (L + 5) L (L + 1) (L + 2) (L + 3) (L + 4)) -> (length m0 <= p)%nat).
  { destruct H0m as [Hl0 _]. fold L in Hl0. intros p Hp. unfold dm_outs in Hp. cbn [In] in Hp. lia. }
  destruct (HL d FUEL m6 sb s cb chrs rslr rsrl raw g ord dir b e N ord' _ _ _ _ _ _ FI Hor Hraw Hcm HeN HNc HNo H06 HgW Hge ltac:(lia) Hf1 Hf2 Hf3 Hfix)
    as [m' [loc' [E [X O]]]].
  rewrite callx_S. change (nth_error cprog F_dir_fix) with (Some cf_dir_fix). cbv iota beta.
  change (fn_nparams cf_dir_fix) with 5%nat. change (fn_nlocals cf_dir_fix) with 11%nat. cbn [length Nat.eqb Nat.sub repeat app].
  cbn [fn_body cf_dir_fix]. change (SWhile _ _) with dfix_loop.
  xs. rewrite malloc_ok by lia. xs. rewrite malloc_ok by lia. xs. rewrite malloc_ok by lia. xs. rewrite malloc_ok by lia. xs.
  rewrite malloc_ok by lia. xs. rewrite malloc_ok by lia. xs. change (Z.to_nat 1) with 1%nat. cbn [repeat].
  rewrite !app_length. cbn [length]. fold L. fold m6.
  replace (L + 1 + 1)%nat with (L + 2)%nat by lia. replace (L + 2 + 1)%nat with (L + 3)%nat by lia.
  replace (L + 3 + 1)%nat with (L + 4)%nat by lia. replace (L + 4 + 1)%nat with (L + 5)%nat by lia.
  unfold fix_locals in E. replace (VPtr L 0) with (VPtr (L + 0) 0) in E by (f_equal; lia).
  replace (VPtr L 0) with (VPtr (L + 0) 0) by (f_equal; lia).
  rewrite E. exists m'. split; [reflexivity|]. split; [|exact O].
  apply (mem_ext_trans m m6 m' [] _ [g] E6 X); [intros ? []|].
  intros x [<-|Hx] Hl; [left; reflexivity|]. exfalso. unfold dm_outs in Hx. cbn [In] in Hx. fold L in Hl. lia.
Qed.

Lemma fix_loop_all_on m0 W ext FUEL : forall f, fix_loop_spec_on m0 W ext FUEL f.
Proof.
  induction f as [|f' IH]; intros d Fl mi sb s cb chrs rslr rsrl raw g ord dir b e N ord' prec prb pre pcb pce pdir
    FI Hor Hraw Hcm HeN HNc HNo H0m HgW Hge HFl Hf1 Hf2 Hf3 Hfix.
  - rewrite dir_fix_0 in Hfix. discriminate.
  - pose proof FI as [Wd Ho Hi Hgw Hgo Hout].
    pose proof (dw_size _ _ _ _ _ _ _ Wd) as Hsize.
    destruct Fl as [|Fl']; [lia|].
    set (outs := dm_outs prec prb pre pcb pce pdir) in *.
    change (S f' + d)%nat with (S (f' + d)).
    set (call := callx ext cprog FUEL (S (S (S (S (S (f' + d))))))).
    unfold dfix_loop. cbn [fn_body cf_dir_fix]. rewrite exec_while.
    change (SWhile _ _) with dfix_loop.
    match goal with |- context [exec call (S Fl') ?bd _] => change bd with dfix_body end.
    unfold fix_locals at 1. xs.
    apply dir_fix_inv in Hfix. destruct Hfix as [[Hbe ->]|[(Hbe & Hc & ->)|(r & ord3 & Hbe & Hc & Hrc & Hfix)]].
    + (* beg >= end *)
      destruct (Z.ltb_spec (Z.of_nat b) (Z.of_nat e)); [lia|]. xs.
      eexists mi, _. split; [reflexivity|]. split; [apply mem_ext_refl|exact Ho].
    + (* no mark matches *)
      destruct (Z.ltb_spec (Z.of_nat b) (Z.of_nat e)); [|lia]. xs.
      destruct (tr_dir_match_on m0 W ext FUEL (S (f' + d)) mi sb s cb chrs rslr rsrl raw b e dir prec prb pre pcb pce pdir Wd ltac:(lia) Hout Hor Hraw Hf2 H0m)
        as [m1 [E1 X1]]. rewrite Hc in E1, X1. unfold dm_args in E1. unfold call. rewrite E1. xs.
      eexists m1, _. split; [reflexivity|]. split; [apply (mem_ext_weaken _ _ _ _ X1); intros ? []|].
      apply (mem_ext_get _ _ _ _ _ X1 Ho). intros [].
    + (* a mark: one iteration, then the loop from r_end *)
      destruct (Z.ltb_spec (Z.of_nat b) (Z.of_nat e)); [|lia]. xs.
      destruct (tr_dir_match_on m0 W ext FUEL (S (f' + d)) mi sb s cb chrs rslr rsrl raw b e dir prec prb pre pcb pce pdir Wd ltac:(lia) Hout Hor Hraw Hf2 H0m)
        as [m1 [E1 X1]]. rewrite Hc in E1, X1. destruct X1 as [X1 RC1]. unfold dm_args in E1. unfold call at 1. rewrite E1. xs.
      pose proof (Hcm b e dir r Hbe HeN Hc) as Hsp.
      assert (FI1 : fix_inv m1 sb s cb chrs rslr rsrl g ord outs).
      { apply (fix_inv_ext mi m1 outs _ _ _ _ _ _ _ ord ord _ FI X1); [intros x Hx; right; exact Hx| |reflexivity|].
        - apply (mem_ext_get _ _ _ _ _ X1 Ho). exact Hgo.
        - destruct RC1 as (R1 & R2 & R3 & R4 & R5 & R6). intros p Hp. unfold outs, dm_outs in Hp. cbn [In] in Hp.
          decompose [or] Hp; subst; try tauto; eexists; eassumption. }
      assert (H01 : mem_ext m0 m1 W).
      { apply (mem_ext_on m0 mi m1 W outs H0m X1). intros x Hx Hl. exfalso. specialize (Hge x Hx). lia. }
      destruct (dfix_body_on m0 W ext FUEL f' d (S Fl') m1 sb s cb chrs rslr rsrl raw g ord dir b e N prec prb pre pcb pce pdir r ord3
                  (fix_call_of_loop_on m0 W ext FUEL f' IH) FI1 RC1 Hsp (dir_match_cdir _ _ _ _ _ _ _ Hc) Hor Hraw Hcm HeN HNc HNo
                  H01 HgW Hge ltac:(lia) Hf2 Hf3 Hrc) as [m2 [E2 [FI2 X2]]].
      assert (H02 : mem_ext m0 m2 W).
      { apply (mem_ext_on m0 m1 m2 W (g :: outs) H01 X2). intros x [<-|Hx] Hl; [exact HgW|]. exfalso. specialize (Hge x Hx). lia. }
      fold call in E2. unfold fix_locals in E2. rewrite E2.
      assert (P3 : Permutation ord3 ord).
      { unfold rec_call in Hrc. destruct (c_rec r).
        - etransitivity; [exact (dir_fix_perm _ _ _ _ _ _ _ Hrc)|apply step2_perm].
        - injection Hrc as <-. apply step2_perm. }
      destruct Hsp as (B1 & B2 & B3 & B4 & B5 & B6).
      destruct (IH (S d) Fl' m2 sb s cb chrs rslr rsrl raw g ord3 dir (r_end r) e N ord' prec prb pre pcb pce pdir FI2 Hor Hraw Hcm HeN HNc
                  ltac:(rewrite (Permutation_length P3); exact HNo) H02 HgW Hge ltac:(lia) ltac:(lia) Hf2 Hf3 Hfix) as [m3 [loc3 [E3 [X3 O3]]]].
      unfold call. replace (S (f' + d)) with (f' + S d)%nat by lia. unfold fix_locals in E3. rewrite E3.
      eexists m3, _. split; [reflexivity|]. split; [|exact O3].
      apply (mem_ext_trans mi m2 m3 (g :: outs) (g :: outs) _); [|exact X3|apply incl_refl|intros x Hx _; exact Hx].
      apply (mem_ext_trans mi m1 m2 outs (g :: outs) _ X1 X2); [apply incl_tl, incl_refl|intros x Hx _; exact Hx].
Qed.

(* dir_fix(chrs, ord, dir, beg, end), for EVERY oracle that answers rset_find as the matcher function `raw` says, every
   character-pointer array and every order array: when the model's dir_fix returns ord' within fuel f, the call returns within
   that many iterations and nested calls, the order array then holds ord', no other block that existed has changed, and every
   load and store was inside its block *)
Theorem tr_dir_fix_on m0 W ext FUEL f : fix_call_spec_on m0 W ext FUEL f.
Proof. apply fix_call_of_loop_on, fix_loop_all_on. Qed.

(* ------------------------------------------------------------------ TrDir.v: dir_context *)
Theorem tr_dir_context_on m0 W ext (m : mem) sb s xtd rsctx cf d fuel : ctx_world m sb s xtd rsctx -> ctx_oracle_on m0 W ext rsctx sb s cf ->
  mem_ext m0 m W ->
  exists m', callx ext cprog fuel (S (S d)) F_dir_context [VPtr sb 0] m = Ok (VInt (dir_context s xtd cf), m') /\ mem_ext m m' [].
Proof.
  intros CW (Icf & Hnull & Hor) H0m. destruct (ctx_fast s xtd) eqn:Ef.
  - exists (m ++ [[VUndef]]). split; [apply (tr_dir_context_fast ext m sb s xtd rsctx cf (S d) fuel CW Ef)|apply mem_ext_app].
  - destruct (is_null rsctx) eqn:En.
    + apply (tr_dir_context_slow ext m sb s xtd rsctx cf m d fuel CW Ef); [intros _; apply Hnull; reflexivity|rewrite En; discriminate].
    + assert (Hs1 : str_at (m ++ [[VUndef]]) sb s).
      { destruct CW as [Hs _ _ _ _ _ _]. unfold str_at in *. rewrite nth_error_app_old; [exact Hs|]. apply nth_error_Some. congruence. }
      assert (H01 : mem_ext m0 (m ++ [[VUndef]]) W) by (apply (mem_ext_on m0 m _ W [] H0m (mem_ext_app m [VUndef] [])); intros ? []).
      destruct (Hor eq_refl _ H01 Hs1) as [m2 [E2 X2]].
      apply (tr_dir_context_slow ext m sb s xtd rsctx cf m2 d fuel CW Ef); [rewrite En; discriminate|]. intros _. auto.
Qed.

(* ------------------------------------------------------------------ TrDir.v: dir_reorder *)
Theorem tr_dir_reorder_on m0 W ext FUEL d (m : mem) sb s xtd rsctx rslr rsrl cf raw g ord ord' :
  reorder_world m sb s xtd rsctx rslr rsrl ->
  int_arr_at m g (map Z.of_nat ord) -> ints_ok (map Z.of_nat ord) -> ~ In g (reorder_blocks sb) ->
  (uc_slen s <= length ord)%nat ->
  ctx_oracle_on m0 W ext rsctx sb s cf -> oracle_on m0 W ext s (uc_chop s) rslr rsrl raw -> raw_ok rslr rsrl raw ->
  cm_ok (dir_match s (uc_chop s) raw) (uc_slen s) ->
  mem_ext m0 m W -> In g W ->
  (S (S (length s)) < FUEL)%nat ->
  dir_reorder s xtd cf raw ord = Some ord' ->
  exists m', callx ext cprog FUEL (S (S (S (S (S (S (S (uc_slen s) + d))))))) F_dir_reorder [VPtr sb 0; VPtr g 0] m = Ok (VUndef, m') /\
    mem_ext m m' [g] /\ int_arr_at m' g (map Z.of_nat ord').
Proof.
  intros RW Ho Hi Hgw Hno Hcor Hor Hraw Hcm H0m HgW HF Hre.
  pose proof RW as [Hs Hnn Hx Ix Hrc Prc Hct Hlr Plr Hrl Prl Htab Hsize].
  pose proof (nonul_lt256 s Hnn) as H256.
  destruct (uc_chop_ok s) as [Hcok Hcl]. pose proof (uc_slen_le s) as Hnle.
  set (n := uc_slen s) in *. set (chrs := uc_chop s) in *. set (L := length m).
  assert (Hgl : (g < L)%nat) by (apply nth_error_Some; unfold int_arr_at in Ho; congruence).
  assert (Wb : forall x, In x (reorder_blocks sb) -> (x < L)%nat).
  { unfold str_at in Hs. unfold reorder_blocks. intros x Hx'. cbn [In] in Hx'.
    decompose [or] Hx'; subst; try tauto; apply nth_error_Some; congruence. }
  set (call := callx ext cprog FUEL (S (S (S (S (S (S n + d))))))).
  (* int n; chrs = uc_chop(s, &n) *)
  set (m1 := m ++ [[VUndef]]).
  assert (Hs1 : str_at m1 sb s) by (unfold str_at, m1 in *; rewrite nth_error_app_old; [exact Hs|apply Wb; left; reflexivity]).
  assert (Hn1 : nth_error m1 L = Some [VUndef]) by (unfold m1; apply nth_error_app_new).
  assert (Lm1 : length m1 = S L) by (unfold m1; rewrite app_length; cbn [length]; fold L; lia).
  pose proof (tr_uc_chop m1 sb s L [VUndef] 0 (S (S (S n + d))) FUEL Hs1 Hnn Hn1 ltac:(cbn [length]; lia)
                ltac:(specialize (Wb sb (or_introl eq_refl)); lia) ltac:(lia) ltac:(lia)) as Echop.
  change (Z.to_nat 0) with 0%nat in Echop. change (CLiteProps.upd [VUndef] 0 (VInt (Z.of_nat (uc_slen s)))) with [VInt (Z.of_nat n)] in Echop.
  rewrite Lm1 in Echop. fold chrs in Echop.
  set (m2 := CLiteProps.upd m1 L [VInt (Z.of_nat n)] ++ [map (TrRenPos.cptr sb) chrs]) in *.
  assert (Lm2 : length m2 = S (S L)) by (unfold m2; rewrite app_length, upd_length by lia; cbn [length]; lia).
  assert (E02 : mem_ext m m2 []).
  { unfold m2. apply mem_ext_app_r. apply (mem_ext_trans m m1 _ [] [L] []); [apply mem_ext_app|apply mem_ext_upd; left; reflexivity|apply incl_refl|].
    intros x [<-|[]] Hl. exfalso. fold L in Hl. lia. }
  assert (Hc2 : nth_error m2 (S L) = Some (map (TrDirBase.cptr sb) chrs)).
  { unfold m2. apply nth_app_chain. rewrite upd_length by lia. lia. }
  assert (Hn2 : nth_error m2 L = Some [VInt (Z.of_nat n)]).
  { unfold m2. rewrite nth_error_app_old by (rewrite upd_length by lia; lia). apply mem_upd_same. lia. }
  (* dir = dir_context(s) *)
  assert (RW2 : reorder_world m2 sb s xtd rsctx rslr rsrl) by (apply (reorder_world_ext m m2 [] _ _ _ _ _ _ RW E02); intros ? []).
  assert (CW2 : ctx_world m2 sb s xtd rsctx) by (destruct RW2; constructor; assumption).
  assert (H02 : mem_ext m0 m2 W) by (apply (mem_ext_on m0 m m2 W [] H0m E02); intros ? []).
  destruct (tr_dir_context_on m0 W ext m2 sb s xtd rsctx cf (S (S (S (S n + d)))) FUEL CW2 Hcor H02) as [m3 [Ectx X23]].
  set (dir := dir_context s xtd cf) in *.
  assert (E03 : mem_ext m m3 []) by (apply (mem_ext_trans m m2 m3 [] [] [] E02 X23); [apply incl_refl|intros ? []]).
  assert (Hc3 : nth_error m3 (S L) = Some (map (TrDirBase.cptr sb) chrs)) by (apply (mem_ext_get _ _ _ _ _ X23 Hc2); intros []).
  assert (Hn3 : nth_error m3 L = Some [VInt (Z.of_nat n)]) by (apply (mem_ext_get _ _ _ _ _ X23 Hn2); intros []).
  assert (Ho3 : int_arr_at m3 g (map Z.of_nat ord)) by (apply (mem_ext_get _ _ _ _ _ E03 Ho); intros []).
  assert (RW3 : reorder_world m3 sb s xtd rsctx rslr rsrl) by (apply (reorder_world_ext m m3 [] _ _ _ _ _ _ RW E03); intros ? []).
  assert (Lm3 : (S (S L) <= length m3)%nat) by (destruct X23 as [X _]; lia).
  (* if (n && chrs[n - 1][0] == '\n') { ord[n - 1] = n - 1; n--; } *)
  set (nl := (0 <? n)%nat && (nthb s (nth (n - 1) chrs 0%nat) =? 10)%N).
  set (ord1 := if nl then DirDefs.upd ord (n - 1) (n - 1)%nat else ord).
  set (n1 := if nl then (n - 1)%nat else n).
  set (loc := [VPtr sb 0; VPtr g 0; VPtr L 0; VPtr (S L) 0; VInt dir]).
  assert (Aif : exists m5, exec call FUEL dr_if (mkst loc m3) = ONormal (mkst loc m5) /\ mem_ext m3 m5 [g; L] /\
                  int_arr_at m5 g (map Z.of_nat ord1) /\ nth_error m5 L = Some [VInt (Z.of_nat n1)] /\ length ord1 = length ord /\
                  ints_ok (map Z.of_nat ord1)).
  { unfold dr_if, loc. cbn [seq_nth fn_body cf_dir_reorder]. rewrite exec_if. xs.
    rewrite (ld_cell _ _ _ Hn3). xs. rewrite wrap_I32_id by lia.
    unfold ord1, n1, nl. destruct (Nat.ltb_spec 0 n) as [Hpos|Hpos]; (destruct (Z.eqb_spec (Z.of_nat n) 0); try lia); xs.
    - rewrite (ld_cell _ _ _ Hn3). xs. rewrite wrap_I32_id by lia. rewrite chk_I32 by lia. xs.
      replace (Z.of_nat n - 1) with (Z.of_nat (n - 1)) by lia.
      rewrite (load_chrs m3 (S L) sb chrs (n - 1) Hc3) by lia. xs.
      assert (Hs3 : str_at m3 sb s) by (destruct RW3; assumption).
      destruct Hcok as [_ Hcb]. rewrite (load_str m3 sb s _ (nth (n - 1) chrs 0%nat) Hs3) by (try lia; apply Hcb; lia). xs.
      rewrite (cc_eq10 _ (nthb_lt256 s _ H256)).
      destruct (nthb s (nth (n - 1) chrs 0%nat) =? 10)%N; xs.
      + rewrite (ld_cell _ _ _ Hn3). xs. rewrite wrap_I32_id by lia. rewrite chk_I32 by lia. xs.
        rewrite (ld_cell _ _ _ Hn3). xs. rewrite wrap_I32_id by lia. rewrite chk_I32 by lia. xs.
        replace (0 + 1 * (Z.of_nat n - 1)) with (Z.of_nat (n - 1)) by lia. replace (Z.of_nat n - 1) with (Z.of_nat (n - 1)) by lia.
        rewrite wrap_I32_id by lia.
        rewrite (store_int_arr m3 g _ _ _ Ho3) by (rewrite map_length; lia). xs. rewrite Nat2Z.id.
        set (m4 := CLiteProps.upd m3 g _).
        assert (Hn4 : nth_error m4 L = Some [VInt (Z.of_nat n)]) by (unfold m4; rewrite mem_upd_other by (try lia; destruct X23; lia); exact Hn3).
        rewrite (ld_cell _ _ _ Hn4). xs. rewrite wrap_I32_id by lia. rewrite chk_I32 by lia. xs. cbn [fst snd].
        rewrite (st_cell m4 L _ _ Hn4). xs. replace (Z.of_nat n + -1) with (Z.of_nat (n - 1)) by lia.
        eexists. split; [reflexivity|].
        assert (Hl4 : length m4 = length m3) by (unfold m4; apply upd_length; destruct X23; lia).
        split; [|split; [|split; [apply mem_upd_same; lia|]]].
        * apply (mem_ext_trans m3 m4 _ [g] [L] _); [apply mem_ext_upd; left; reflexivity|apply mem_ext_upd; left; reflexivity| |].
          -- intros x [<-|[]]. left. reflexivity.
          -- intros x [<-|[]] _. right. left. reflexivity.
        * unfold int_arr_at. rewrite mem_upd_other by lia. unfold m4. rewrite mem_upd_same by (destruct X23; lia).
          rewrite dirdefs_upd by lia. rewrite !map_upd. reflexivity.
        * rewrite dirdefs_upd by lia. split; [apply upd_length; lia|]. rewrite map_upd. apply ints_ok_upd; [exact Hi|lia].
      + eexists. split; [reflexivity|]. split; [apply mem_ext_refl|]. auto.
    - assert (n = 0)%nat by lia. eexists. split; [reflexivity|]. split; [apply mem_ext_refl|]. auto. }
  destruct Aif as (m5 & Aif & X35 & Ho5 & Hn5 & Lo1 & Io1).
  assert (E05 : mem_ext m m5 [g]).
  { apply (mem_ext_trans m m3 m5 [] [g; L] [g] E03 X35); [intros ? []|]. intros x [<-|[<-|[]]] Hl; [left; reflexivity|exfalso; fold L in Hl; lia]. }
  assert (H05 : mem_ext m0 m5 W) by (apply (mem_ext_on m0 m m5 W [g] H0m E05); intros x [<-|[]] _; exact HgW).
  assert (Hc5 : nth_error m5 (S L) = Some (map (TrDirBase.cptr sb) chrs)).
  { apply (mem_ext_get _ _ _ _ _ X35 Hc3). intros [X|[X|[]]]; lia. }
  assert (RW5 : reorder_world m5 sb s xtd rsctx rslr rsrl).
  { apply (reorder_world_ext m m5 [g] _ _ _ _ _ _ RW E05). intros p [<-|[]]. exact Hgw. }
  assert (W5 : dir_world m5 sb s (S L) chrs rslr rsrl).
  { destruct RW5. constructor; try assumption. rewrite Hcl. lia. }
  (* dir_fix(chrs, ord, dir, 0, n) *)
  assert (Hn1n : (n1 <= n)%nat) by (unfold n1; destruct nl; lia).
  unfold dir_reorder in Hre. fold n chrs dir nl ord1 n1 in Hre.
  assert (Hgw5 : ~ In g (world_blocks sb (S L))).
  { unfold world_blocks. cbn [In]. intros [X|[X|X]]; [apply Hgw; left; exact X|lia|apply Hgw; unfold reorder_blocks; cbn [In]; tauto]. }
  assert (Hcm1 : cm_ok (dir_match s chrs raw) n1) by (intros b0 e0 d0 r0 Hb0 He0; apply Hcm; lia).
  assert (Efix : exists m6, call F_dir_fix [VPtr (S L) 0; VPtr g 0; VInt dir; VInt 0; VInt (Z.of_nat n1)] m5 = Ok (VUndef, m6) /\
                   mem_ext m5 m6 [g] /\ int_arr_at m6 g (map Z.of_nat ord')).
  { unfold call. replace (S n + d)%nat with (S n1 + (n - n1 + d))%nat by lia. change (VInt 0) with (VInt (Z.of_nat 0)).
    apply (tr_dir_fix_on m0 W ext FUEL (S n1) (n - n1 + d)%nat m5 sb s (S L) chrs rslr rsrl raw g ord1 dir 0%nat n1 n1 ord' W5 Hor Hraw Hcm1); try assumption; try lia. }
  destruct Efix as (m6 & Efix & X56 & Ho6).
  assert (Hc6 : nth_error m6 (S L) = Some (map (TrDirBase.cptr sb) chrs)).
  { apply (mem_ext_get _ _ _ _ _ X56 Hc5). intros [X|[]]. lia. }
  (* the whole body *)
  rewrite callx_S. change (nth_error cprog F_dir_reorder) with (Some cf_dir_reorder). cbv iota beta.
  change (fn_nparams cf_dir_reorder) with 2%nat. change (fn_nlocals cf_dir_reorder) with 5%nat. cbn [length Nat.eqb Nat.sub repeat app].
  fold call. cbn [fn_body cf_dir_reorder].
  change (SIf (EAndAlso (ELoad (Some I32) (ELocal 2)) _) _ _) with dr_if.
  xs. rewrite malloc_ok by lia. xs. change (Z.to_nat 1) with 1%nat. cbn [repeat]. fold L. fold m1.
  unfold call at 1. rewrite (callx_mono ext _ _ _ _ _ _ _ Echop). xs.
  unfold call at 1. rewrite Ectx. xs. fold loc. rewrite Aif. unfold loc. xs.
  rewrite (ld_cell _ _ _ Hn5). xs. rewrite wrap_I32_id by lia.
  rewrite Efix. xs.
  rewrite (free_ok m6 (S L) _ Hc6) by (unfold chrs, uc_chop; cbn [uc_chop_f map]; discriminate). xs.
  eexists. split; [reflexivity|]. split.
  - apply (mem_ext_trans m m6 _ [g] [S L] [g]); [|apply mem_ext_upd; left; reflexivity|apply incl_refl|].
    + apply (mem_ext_trans m m5 m6 [g] [g] [g] E05 X56); [apply incl_refl|intros x Hxg _; exact Hxg].
    + intros x [<-|[]] Hl. exfalso. fold L in Hl. lia.
  - unfold int_arr_at. rewrite mem_upd_other by (try lia; destruct X56, X35, X23; lia). exact Ho6.
Qed.

Theorem tr_dir_fix_total_on m0 W ext FUEL d (m : mem) sb s cb chrs rslr rsrl raw g ord dir b e N :
  dir_world m sb s cb chrs rslr rsrl -> oracle_on m0 W ext s chrs rslr rsrl raw -> raw_ok rslr rsrl raw ->
  cm_ok (dir_match s chrs raw) N -> (e <= N)%nat -> (N < length chrs)%nat -> (N <= length ord)%nat ->
  int_arr_at m g (map Z.of_nat ord) -> ints_ok (map Z.of_nat ord) -> ~ In g (world_blocks sb cb) ->
  mem_ext m0 m W -> In g W ->
  (S (e - b) < FUEL)%nat -> (length s < FUEL)%nat -> (N < FUEL)%nat ->
  exists ord' m',
    dir_fix (dir_match s chrs raw) (S (e - b)) ord dir b e = Some ord' /\ Permutation ord' ord /\
    callx ext cprog FUEL (S (S (S (S (S (S (e - b) + d)))))) F_dir_fix
      [VPtr cb 0; VPtr g 0; VInt dir; VInt (Z.of_nat b); VInt (Z.of_nat e)] m = Ok (VUndef, m') /\
    mem_ext m m' [g] /\ int_arr_at m' g (map Z.of_nat ord').
Proof.
  intros Wd Hor Hraw Hcm HeN HNc HNo Ho Hi Hgw H0m HgW Hf1 Hf2 Hf3.
  destruct (dir_fix_terminates _ N Hcm (S (e - b)) ord dir b e HeN ltac:(lia)) as [ord' Hfix].
  destruct (tr_dir_fix_on m0 W ext FUEL (S (e - b)) d m sb s cb chrs rslr rsrl raw g ord dir b e N ord' Wd Hor Hraw Hcm HeN HNc HNo Ho Hi Hgw H0m HgW Hf1 Hf2 Hf3 Hfix)
    as [m' [E [X O]]].
  exists ord', m'. split; [exact Hfix|]. split; [exact (dir_fix_perm _ _ _ _ _ _ _ Hfix)|]. auto.
Qed.

(* ------------------------------------------------------------------ the base memory is the memory of the call, W the order array *)
Corollary tr_dir_reorder_self ext FUEL d (m : mem) sb s xtd rsctx rslr rsrl cf raw g ord ord' :
  reorder_world m sb s xtd rsctx rslr rsrl -> int_arr_at m g (map Z.of_nat ord) -> ints_ok (map Z.of_nat ord) -> ~ In g (reorder_blocks sb) ->
  (uc_slen s <= length ord)%nat ->
  ctx_oracle_on m [g] ext rsctx sb s cf -> oracle_on m [g] ext s (uc_chop s) rslr rsrl raw -> raw_ok rslr rsrl raw ->
  cm_ok (dir_match s (uc_chop s) raw) (uc_slen s) -> (S (S (length s)) < FUEL)%nat -> dir_reorder s xtd cf raw ord = Some ord' ->
  exists m', callx ext cprog FUEL (S (S (S (S (S (S (S (uc_slen s) + d))))))) F_dir_reorder [VPtr sb 0; VPtr g 0] m = Ok (VUndef, m') /\
    mem_ext m m' [g] /\ int_arr_at m' g (map Z.of_nat ord').
Proof.
  intros RW Ho Hi Hgw Hno Hcor Hor Hraw Hcm HF Hre.
  apply (tr_dir_reorder_on m [g] ext FUEL d m sb s xtd rsctx rslr rsrl cf raw g ord ord' RW Ho Hi Hgw Hno Hcor Hor Hraw Hcm
           (mem_ext_refl m [g]) (or_introl eq_refl) HF Hre).
Qed.

Print Assumptions tr_dir_reorder_self.
