(* ReZlen.v -- the emitted length computed in Z (ReEmit.zlen, used by the driver for compile-only requests near
   NINST, where the Peano length would be too slow) is the emitted length nlen, for every tree with well-formed counts. *)
From Coq Require Import List Arith Lia Bool ZArith NArith ZifyBool ZifyNat.
From NV Require Import Bytes GenConsts ReSyntax ReParse ReEmit ReVM ReSem ReProps ReProps2 ReProps3.
Import ListNotations.

Lemma zrep_len_nat n mn mx : wf_rep mn mx -> zrep_len (Z.of_nat n) mn mx = Z.of_nat (rep_len n mn mx).
Proof.
  unfold wf_rep, zrep_len, rep_len. intros [H0 H1].
  destruct ((mn =? 0)%Z && (mx =? 0)%Z); [reflexivity|].
  destruct ((mn =? 1)%Z && (mx =? 1)%Z); [reflexivity|].
  destruct (Nat.eqb (Z.to_nat mn) 0) eqn:E0; destruct (mn =? 0)%Z eqn:E1; try lia; destruct (mx <? 0)%Z eqn:E2; nia.
Qed.

Theorem zlen_nlen t : wf_node t -> zlen t = Z.of_nat (nlen t).
Proof.
  induction t; cbn [wf_node zlen nlen]; intro W.
  - reflexivity.
  - change 1%Z with (Z.of_nat 1). apply zrep_len_nat. exact W.
  - destruct W as [W1 W2]. rewrite (IHt W2). replace (Z.of_nat (nlen t) + 2)%Z with (Z.of_nat (nlen t + 2)) by lia. apply zrep_len_nat. exact W1.
  - destruct W as [W1 W2]. rewrite (IHt1 W1), (IHt2 W2). lia.
  - destruct W as [W1 W2]. rewrite (IHt1 W1), (IHt2 W2). lia.
Qed.

Corollary parse_zlen f s t s' : rnode_parse f s = Ok (Some t, s') -> zlen t = Z.of_nat (nlen t).
Proof. intro H. apply zlen_nlen. eapply rnode_parse_wf; eauto. Qed.
Print Assumptions zlen_nlen.
