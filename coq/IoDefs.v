(* IoDefs.v -- executable model of reading and writing files (C01, C03).
   Mirrors sbuf.c (sbuf_mem/sbuf_buf, NEXTSZ/ALIGN), lbuf.c (lbuf_rd, linelength/linecount,
   lbuf_replace incl. the line-table growth loop, lbuf_wr, write_fully) and ex.c (mtime guard of
   lbuf_save, ec_write, ec_quit for wq/x/xa).  No proofs here. *)
From Coq Require Import List NArith ZArith Bool Arith.
From NV Require Import Bytes GenConsts.
Import ListNotations.

Definition NL : N := 10%N.
Definition is_nl (c : N) : bool := N.eqb c NL.

(* ------------------------------------------------------------------ spec vocabulary *)
Definition slice {A} (b e : nat) (l : list A) : list A := firstn (e - b) (skipn b l).
Definition want (lines : list bytes) (b e : nat) : bytes := concat (slice b e lines).
(* the file plus one newline iff it is non-empty and does not end in one *)
Definition norm (s : bytes) : bytes :=
  match rev s with
  | [] => []
  | c :: _ => if is_nl c then s else s ++ [NL]
  end.
Definition no_nl (l : bytes) : Prop := forall c, In c l -> is_nl c = false.
Definition line_wf (l : bytes) : Prop := exists body, l = body ++ [NL] /\ no_nl body.

(* ------------------------------------------------------------------ sbuf.c *)
Record sbuf := { sb_data : bytes; sb_n : Z; sb_sz : Z }.
Definition sbuf_make : sbuf := {| sb_data := []; sb_n := 0; sb_sz := 0 |}.
Definition ALIGN (n a : Z) : Z := Z.land (n + a - 1) (Z.lnot (a - 1)).
Definition NEXTSZ (o r : Z) : Z := ALIGN (Z.max (o * 2) (o + r)) SBUFSZ.
(* sbuf_mem(sb, s, len) *)
Definition sbuf_mem (sb : sbuf) (s : bytes) : sbuf :=
  let len := Z.of_nat (length s) in
  let sz := if (sb_n sb + len + 1 >=? sb_sz sb)%Z then NEXTSZ (sb_sz sb) (len + 1) else sb_sz sb in
  {| sb_data := sb_data sb ++ s; sb_n := (sb_n sb + len)%Z; sb_sz := sz |}.
(* sbuf_chr(sb, c) *)
Definition sbuf_chr (sb : sbuf) (c : N) : sbuf :=
  let sz := if (sb_n sb + 2 >=? sb_sz sb)%Z then NEXTSZ (sb_sz sb) 1 else sb_sz sb in
  {| sb_data := sb_data sb ++ [c]; sb_n := (sb_n sb + 1)%Z; sb_sz := sz |}.
(* sbuf_buf: allocates one byte if nothing was ever stored, then writes the terminator at s[s_n] *)
Definition sbuf_buf (sb : sbuf) : sbuf :=
  if (sb_sz sb =? 0)%Z then {| sb_data := sb_data sb; sb_n := sb_n sb; sb_sz := 1 |} else sb.

(* ------------------------------------------------------------------ line splitting of lbuf_replace *)
(* cur: bytes of the line being collected, reversed.  Every line is re-terminated with one NL. *)
Fixpoint split_aux (cur s : bytes) : list bytes :=
  match s with
  | [] => match cur with [] => [] | _ => [rev cur ++ [NL]] end
  | c :: s' => if is_nl c then (rev cur ++ [NL]) :: split_aux [] s' else split_aux (c :: cur) s'
  end.
Definition split_lines (s : bytes) : list bytes := split_aux [] s.
(* linecount(s): inl = "inside a line that has no newline yet" *)
Fixpoint linecount_aux (inl : bool) (s : bytes) : nat :=
  match s with
  | [] => if inl then 1 else 0
  | c :: s' => if is_nl c then S (linecount_aux false s') else linecount_aux true s'
  end.
Definition linecount (s : bytes) : nat := linecount_aux false s.

(* ------------------------------------------------------------------ the line table *)
Record lbuf := { ln : list bytes; ln_sz : Z }.
Definition lbuf_make : lbuf := {| ln := []; ln_sz := 0 |}.
(* while (need >= sz) sz += sz ? sz : LN_INIT;   None = out of fuel *)
Fixpoint grow (fuel : nat) (need sz : Z) : option Z :=
  match fuel with
  | O => None
  | S f => if (need >=? sz)%Z then grow f need (sz + (if (sz =? 0)%Z then LN_INIT else sz))%Z else Some sz
  end.
Definition grow_fuel (need : Z) : nat := S (S (Z.to_nat need)).
(* lbuf_replace(lb, s, pos, n_del) *)
Definition lbuf_replace (lb : lbuf) (s : bytes) (pos n_del : nat) : option lbuf :=
  let n_ins := linecount s in
  let need := (Z.of_nat (length (ln lb)) + Z.of_nat n_ins - Z.of_nat n_del)%Z in
  match grow (grow_fuel need) need (ln_sz lb) with
  | None => None
  | Some sz => Some {| ln := firstn pos (ln lb) ++ split_lines s ++ skipn (pos + n_del) (ln lb); ln_sz := sz |}
  end.
(* lbuf_edit(lb, buf, beg, end) with buf != NULL *)
Definition lbuf_edit (lb : lbuf) (s : bytes) (b e : nat) : option lbuf :=
  let n := length (ln lb) in
  let b := Nat.min b n in
  let e := Nat.min e n in
  lbuf_replace lb s b (e - b).
(* lbuf_rd: the chunks are what successive read(2) calls return (each non-empty), then 0 *)
Definition rd_sbuf (chunks : list bytes) : sbuf := sbuf_buf (fold_left sbuf_mem chunks sbuf_make).
Definition lbuf_rd (lb : lbuf) (chunks : list bytes) (b e : nat) : option lbuf :=
  lbuf_edit lb (sb_data (rd_sbuf chunks)) b e.

(* ------------------------------------------------------------------ lbuf_wr *)
(* pend = buf[0..buf_len); outp = payloads of the write_fully calls so far; wsz = sz;
   ovf = some memcpy into buf would have gone past sizeof(buf) *)
Record wst := { pend : bytes; outp : list bytes; wsz : nat; ovf : bool }.
Definition wst0 : wst := {| pend := []; outp := []; wsz := 0; ovf := false |}.
Definition wr_line (B : nat) (w : wst) (l : bytes) : wst :=
  let nl := length l in
  let w1 := if (0 <? length (pend w)) && (B <? length (pend w) + nl)
            then {| pend := []; outp := outp w ++ [pend w]; wsz := wsz w; ovf := ovf w |} else w in
  if B <=? nl
  then {| pend := pend w1; outp := outp w1 ++ [l]; wsz := wsz w1 + nl; ovf := ovf w1 |}
  else {| pend := pend w1 ++ l; outp := outp w1; wsz := wsz w1 + nl;
          ovf := ovf w1 || (B <? length (pend w1) + nl) |}.
Definition wr_finish (w : wst) : wst :=
  if 0 <? length (pend w) then {| pend := []; outp := outp w ++ [pend w]; wsz := wsz w; ovf := ovf w |} else w.
Definition lbuf_wr_gen (B : nat) (lines : list bytes) (b e : nat) : wst :=
  wr_finish (fold_left (wr_line B) (slice b e lines) wst0).
Definition BATCH : nat := Z.to_nat WR_BATCH.
Definition lbuf_wr := lbuf_wr_gen BATCH.

(* ------------------------------------------------------------------ the file *)
(* write(2) of p at file offset off (a hole is zero-filled) *)
Definition pwrite (off : nat) (p f : bytes) : bytes :=
  firstn off f ++ repeat 0%N (off - length f) ++ p ++ skipn (off + length p) f.
Fixpoint write_seq (f : bytes) (off : nat) (ps : list bytes) : bytes :=
  match ps with
  | [] => f
  | p :: ps' => write_seq (pwrite off p f) (off + length p) ps'
  end.
Definition ftrunc (n : nat) (f : bytes) : bytes := firstn n f ++ repeat 0%N (n - length f).
(* a fault-free :b,ew over a target that holds old (open without O_TRUNC, offset 0) *)
Definition save_file (lines : list bytes) (b e : nat) (old : bytes) : bytes :=
  let w := lbuf_wr lines b e in ftrunc (wsz w) (write_seq old 0 (outp w)).
(* read a file delivered in the given chunks into an empty buffer, write it all out over old *)
Definition read_then_write (chunks : list bytes) (old : bytes) : option bytes :=
  match lbuf_rd lbuf_make chunks 0 0 with
  | None => None
  | Some lb => Some (save_file (ln lb) 0 (length (ln lb)) old)
  end.

(* ================================================================== C03: saving under faults *)
(* One outcome per open/write/close system call on the target, in program order.  When the
   schedule is exhausted every further call succeeds in full.  OShort k: a write that accepts only
   k bytes (k is clipped to the size asked for; for open/close it means success). *)
Inductive outcome := OOk | OErr | OShort (k : nat).

(* write_fully(fd, buf, sz): returns the bytes that reached the file, nc >= 0, the unused schedule *)
Fixpoint write_fully (p : bytes) (sch : list outcome) {struct sch} : bytes * bool * list outcome :=
  match p with
  | [] => ([], true, sch)                                   (* while (nw < sz ...: not entered *)
  | _ :: _ =>
    match sch with
    | [] => (p, true, [])
    | OOk :: s => (p, true, s)
    | OErr :: s => ([], false, s)                           (* nc < 0: return -1 *)
    | OShort k :: s =>
      let k' := Nat.min k (length p) in
      let '(w, ok, r) := write_fully (skipn k' p) s in (firstn k' p ++ w, ok, r)
    end
  end.
(* the write_fully calls of lbuf_wr, in order; stops at the first failure (return 1) *)
Fixpoint write_all (ps : list bytes) (sch : list outcome) : bytes * bool * list outcome :=
  match ps with
  | [] => ([], true, sch)
  | p :: ps' =>
    let '(w, ok, r) := write_fully p sch in
    if ok then let '(w2, ok2, r2) := write_all ps' r in (w ++ w2, ok2, r2) else (w, false, r)
  end.

(* the file system: path -> (content, mtime); an absent file has mtime -1 *)
Definition file := (bytes * Z)%type.
Definition fsys := list (nat * file).
Fixpoint fs_get (fs : fsys) (p : nat) : option file :=
  match fs with [] => None | (q, f) :: r => if Nat.eqb q p then Some f else fs_get r p end.
Definition fs_set (fs : fsys) (p : nat) (f : file) : fsys := (p, f) :: fs.
Definition fs_mtime (fs : fsys) (p : nat) : Z := match fs_get fs p with Some (_, m) => m | None => (-1)%Z end.
Definition fs_content (fs : fsys) (p : nat) : option bytes := match fs_get fs p with Some (c, _) => Some c | None => None end.

Inductive status := SOk | SRefused | SFailed.
(* bytes d written from offset 0 over old *)
Definition overwrite (old d : bytes) : bytes := d ++ skipn (length d) old.

(* lbuf_save after a successful open(O_WRONLY | O_CREAT): lbuf_wr, close.  now = the time stamp a modified file gets *)
Definition save_opened (now : Z) (lines : list bytes) (b e : nat) (path : nat) (fs : fsys) (s : list outcome)
  : status * fsys * list outcome :=
  let old := match fs_content fs path with Some c => c | None => [] end in
  let fs0 := match fs_get fs path with Some _ => fs | None => fs_set fs path ([], now) end in   (* O_CREAT *)
  let w := lbuf_wr lines b e in
  let '(d, ok, r) := write_all (outp w) s in
  if ok then
    let fs1 := fs_set fs0 path (ftrunc (wsz w) (overwrite old d), now) in
    match r with
    | OErr :: r' => (SFailed, fs1, r')                                (* close() != 0; the second close is on a dead fd *)
    | _ => (SOk, fs1, tl r)
    end
  else
    (* lbuf_wr returned 1: no ftruncate; close(fd) in the error branch, result ignored *)
    (SFailed, (match d with [] => fs0 | _ => fs_set fs0 path (overwrite old d, now) end), tl r).
(* the guards of lbuf_save; `mtime > 0` in the C text tests the function mtime, i.e. is always true *)
Definition refuses (force : bool) (ts m : Z) : bool :=
  negb force && ((m >? ts)%Z                          (* "file changed" *)
                 || ((ts <=? 0)%Z && (m >=? 0)%Z)).   (* "file exists" *)
(* lbuf_save(lb, beg, end, path, force, ts) *)
Definition lbuf_save (now : Z) (lines : list bytes) (b e : nat) (path : nat) (force : bool) (ts : Z)
                     (fs : fsys) (sch : list outcome) : status * fsys * list outcome :=
  if refuses force ts (fs_mtime fs path) then (SRefused, fs, sch)
  else
    match sch with
    | OErr :: s => (SFailed, fs, s)                                      (* open() < 0: "cannot create file" *)
    | _ => save_opened now lines b e path fs (tl sch)
    end.

(* one entry of bufs[] *)
Record buf := { b_lines : list bytes; b_path : nat; b_mtime : Z; b_dirty : bool }.

(* ec_write for `:b,e w[!] path`, `:w`, and the write part of wq / x:
   whole = no address given; isx = the command starts with x *)
Definition ec_write (now : Z) (isx force : bool) (rng : option (nat * nat)) (path : nat) (bf : buf)
                    (fs : fsys) (sch : list outcome) : status * buf * fsys * list outcome :=
  if isx && negb (b_dirty bf) then (SOk, bf, fs, sch)
  else
    let n := length (b_lines bf) in
    let '(b, e) := match rng with Some r => r | None => (0, n) end in
    let own := Nat.eqb (b_path bf) path in
    let ts := if own then b_mtime bf else 0%Z in
    let '(st, fs', r) := lbuf_save now (b_lines bf) b e path force ts fs sch in
    match st with
    | SOk =>
      let bf' := if own
                 then {| b_lines := b_lines bf; b_path := b_path bf; b_mtime := fs_mtime fs' path;
                         b_dirty := negb (Nat.eqb b 0 && Nat.eqb e n) |}      (* lbuf_saved / lbuf_unsaved *)
                 else bf in
      (SOk, bf', fs', r)
    | _ => (st, bf, fs', r) end.

(* the loop of ec_quit over bufs[]: returns quit?, status shown, file system, unused schedule *)
Fixpoint quit_loop (now : Z) (all bang : bool) (bufs : list buf) (fs : fsys) (sch : list outcome)
  : bool * status * fsys * list outcome :=
  match bufs with
  | [] => (true, SOk, fs, sch)
  | bf :: rest =>
    if negb all && negb bang && b_dirty bf then (false, SRefused, fs, sch)         (* "buffer modified" *)
    else if all then
      let '(st, fs', r) := lbuf_save now (b_lines bf) 0 (length (b_lines bf)) (b_path bf) bang (b_mtime bf) fs sch in
      match st with
      | SOk => quit_loop now all bang rest fs' r
      | _ => (false, st, fs', r)
      end
    else quit_loop now all bang rest fs sch
  end.
(* the records of bufs[] after that loop (ex.c since 37c81b2): in the `a` loop a save that returned no error is followed by
   lbuf_saved(b->lb, 0); b->mtime = mtime(b->path); -- and only then; where the loop stops everything is as it was *)
Fixpoint quit_marks (now : Z) (all bang : bool) (bufs : list buf) (fs : fsys) (sch : list outcome) : list buf :=
  match bufs with
  | [] => []
  | bf :: rest =>
    if negb all && negb bang && b_dirty bf then bufs
    else if all then
      let '(st, fs', r) := lbuf_save now (b_lines bf) 0 (length (b_lines bf)) (b_path bf) bang (b_mtime bf) fs sch in
      match st with
      | SOk => {| b_lines := b_lines bf; b_path := b_path bf; b_mtime := fs_mtime fs' (b_path bf); b_dirty := false |}
               :: quit_marks now all bang rest fs' r
      | _ => bufs
      end
    else bf :: quit_marks now all bang rest fs sch
  end.
(* ec_quit for q, q!, wq, wq!, x, x!, xa, xa!  (wr = cmd[0] is w or x) *)
Definition ec_quit (now : Z) (wr isx all bang : bool) (bufs : list buf) (fs : fsys) (sch : list outcome)
  : bool * status * list buf * fsys * list outcome :=
  match bufs with
  | [] => (true, SOk, bufs, fs, sch)
  | b0 :: rest =>
    if wr then
      let '(st, b0', fs', r) := ec_write now isx bang None (b_path b0) b0 fs sch in
      match st with
      | SOk => let '(q, st2, fs2, r2) := quit_loop now all bang (b0' :: rest) fs' r in
               (q, st2, quit_marks now all bang (b0' :: rest) fs' r, fs2, r2)
      | _ => (false, st, bufs, fs', r)
      end
    else let '(q, st2, fs2, r2) := quit_loop now all bang bufs fs sch in (q, st2, quit_marks now all bang bufs fs sch, fs2, r2)
  end.
