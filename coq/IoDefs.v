(* IoDefs.v -- executable model of reading and writing files (C01, C03).
   Mirrors sbuf.c (sbuf_mem/sbuf_buf, NEXTSZ/ALIGN), lbuf.c (lbuf_rd, linelength/linecount,
   lbuf_replace incl. the line-table growth loop, lbuf_wr, write_fully) and ex.c (mtime guard of
   lbuf_save, ec_write, ec_quit for wq/x/xa).  No proofs here. *)
From Coq Require Import List NArith ZArith Bool Arith.
From NV Require Import Bytes GenConsts.
Import ListNotations.

Definition NL : N := 10%N.
Definition is_nl (c : N) : bool := N.eqb c NL.

(* ------------------------------------------------------------------ spec vocabulary *)
Definition slice {A} (b e : nat) (l : list A) : list A := firstn (e - b) (skipn b l).
Definition want (lines : list bytes) (b e : nat) : bytes := concat (slice b e lines).
(* the file plus one newline iff it is non-empty and does not end in one *)
Definition norm (s : bytes) : bytes :=
  match rev s with
  | [] => []
  | c :: _ => if is_nl c then s else s ++ [NL]
  end.
Definition no_nl (l : bytes) : Prop := forall c, In c l -> is_nl c = false.
Definition line_wf (l : bytes) : Prop := exists body, l = body ++ [NL] /\ no_nl body.

(* ------------------------------------------------------------------ sbuf.c *)
Record sbuf := { sb_data : bytes; sb_n : Z; sb_sz : Z }.
Definition sbuf_make : sbuf := {| sb_data := []; sb_n := 0; sb_sz := 0 |}.
Definition ALIGN (n a : Z) : Z := Z.land (n + a - 1) (Z.lnot (a - 1)).
Definition NEXTSZ (o r : Z) : Z := ALIGN (Z.max (o * 2) (o + r)) SBUFSZ.
(* sbuf_mem(sb, s, len) *)
Definition sbuf_mem (sb : sbuf) (s : bytes) : sbuf :=
  let len := Z.of_nat (length s) in
  let sz := if (sb_n sb + len + 1 >=? sb_sz sb)%Z then NEXTSZ (sb_sz sb) (len + 1) else sb_sz sb in
  {| sb_data := sb_data sb ++ s; sb_n := (sb_n sb + len)%Z; sb_sz := sz |}.
(* sbuf_chr(sb, c) *)
Definition sbuf_chr (sb : sbuf) (c : N) : sbuf :=
  let sz := if (sb_n sb + 2 >=? sb_sz sb)%Z then NEXTSZ (sb_sz sb) 1 else sb_sz sb in
  {| sb_data := sb_data sb ++ [c]; sb_n := (sb_n sb + 1)%Z; sb_sz := sz |}.
(* sbuf_buf: allocates one byte if nothing was ever stored, then writes the terminator at s[s_n] *)
Definition sbuf_buf (sb : sbuf) : sbuf :=
  if (sb_sz sb =? 0)%Z then {| sb_data := sb_data sb; sb_n := sb_n sb; sb_sz := 1 |} else sb.

(* ------------------------------------------------------------------ line splitting of lbuf_replace *)
(* cur: bytes of the line being collected, reversed.  Every line is re-terminated with one NL. *)
Fixpoint split_aux (cur s : bytes) : list bytes :=
  match s with
  | [] => match cur with [] => [] | _ => [rev cur ++ [NL]] end
  | c :: s' => if is_nl c then (rev cur ++ [NL]) :: split_aux [] s' else split_aux (c :: cur) s'
  end.
Definition split_lines (s : bytes) : list bytes := split_aux [] s.
(* linecount(s): inl = "inside a line that has no newline yet" *)
Fixpoint linecount_aux (inl : bool) (s : bytes) : nat :=
  match s with
  | [] => if inl then 1 else 0
  | c :: s' => if is_nl c then S (linecount_aux false s') else linecount_aux true s'
  end.
Definition linecount (s : bytes) : nat := linecount_aux false s.

(* ------------------------------------------------------------------ the line table *)
Record lbuf := { ln : list bytes; ln_sz : Z }.
Definition lbuf_make : lbuf := {| ln := []; ln_sz := 0 |}.
(* while (need >= sz) sz += sz ? sz : LN_INIT;   None = out of fuel *)
Fixpoint grow (fuel : nat) (need sz : Z) : option Z :=
  match fuel with
  | O => None
  | S f => if (need >=? sz)%Z then grow f need (sz + (if (sz =? 0)%Z then LN_INIT else sz))%Z else Some sz
  end.
Definition grow_fuel (need : Z) : nat := S (S (Z.to_nat need)).
(* lbuf_replace(lb, s, pos, n_del) *)
Definition lbuf_replace (lb : lbuf) (s : bytes) (pos n_del : nat) : option lbuf :=
  let n_ins := linecount s in
  let need := (Z.of_nat (length (ln lb)) + Z.of_nat n_ins - Z.of_nat n_del)%Z in
  match grow (grow_fuel need) need (ln_sz lb) with
  | None => None
  | Some sz => Some {| ln := firstn pos (ln lb) ++ split_lines s ++ skipn (pos + n_del) (ln lb); ln_sz := sz |}
  end.
(* lbuf_edit(lb, buf, beg, end) with buf != NULL *)
Definition lbuf_edit (lb : lbuf) (s : bytes) (b e : nat) : option lbuf :=
  let n := length (ln lb) in
  let b := Nat.min b n in
  let e := Nat.min e n in
  lbuf_replace lb s b (e - b).
(* lbuf_rd: the chunks are what successive read(2) calls return (each non-empty), then 0 *)
Definition rd_sbuf (chunks : list bytes) : sbuf := sbuf_buf (fold_left sbuf_mem chunks sbuf_make).
Definition lbuf_rd (lb : lbuf) (chunks : list bytes) (b e : nat) : option lbuf :=
  lbuf_edit lb (sb_data (rd_sbuf chunks)) b e.

(* ------------------------------------------------------------------ lbuf_wr *)
(* pend = buf[0..buf_len); outp = payloads of the write_fully calls so far; wsz = sz;
   ovf = some memcpy into buf would have gone past sizeof(buf) *)
Record wst := { pend : bytes; outp : list bytes; wsz : nat; ovf : bool }.
Definition wst0 : wst := {| pend := []; outp := []; wsz := 0; ovf := false |}.
Definition wr_line (B : nat) (w : wst) (l : bytes) : wst :=
  let nl := length l in
  let w1 := if (0 <? length (pend w)) && (B <? length (pend w) + nl)
            then {| pend := []; outp := outp w ++ [pend w]; wsz := wsz w; ovf := ovf w |} else w in
  if B <=? nl
  then {| pend := pend w1; outp := outp w1 ++ [l]; wsz := wsz w1 + nl; ovf := ovf w1 |}
  else {| pend := pend w1 ++ l; outp := outp w1; wsz := wsz w1 + nl;
          ovf := ovf w1 || (B <? length (pend w1) + nl) |}.
Definition wr_finish (w : wst) : wst :=
  if 0 <? length (pend w) then {| pend := []; outp := outp w ++ [pend w]; wsz := wsz w; ovf := ovf w |} else w.
Definition lbuf_wr_gen (B : nat) (lines : list bytes) (b e : nat) : wst :=
  wr_finish (fold_left (wr_line B) (slice b e lines) wst0).
Definition BATCH : nat := Z.to_nat WR_BATCH.
Definition lbuf_wr := lbuf_wr_gen BATCH.

(* ------------------------------------------------------------------ the file *)
(* write(2) of p at file offset off (a hole is zero-filled) *)
Definition pwrite (off : nat) (p f : bytes) : bytes :=
  firstn off f ++ repeat 0%N (off - length f) ++ p ++ skipn (off + length p) f.
Fixpoint write_seq (f : bytes) (off : nat) (ps : list bytes) : bytes :=
  match ps with
  | [] => f
  | p :: ps' => write_seq (pwrite off p f) (off + length p) ps'
  end.
Definition ftrunc (n : nat) (f : bytes) : bytes := firstn n f ++ repeat 0%N (n - length f).
(* a fault-free :b,ew over a target that holds old (open without O_TRUNC, offset 0) *)
Definition save_file (lines : list bytes) (b e : nat) (old : bytes) : bytes :=
  let w := lbuf_wr lines b e in ftrunc (wsz w) (write_seq old 0 (outp w)).
(* read a file delivered in the given chunks into an empty buffer, write it all out over old *)
Definition read_then_write (chunks : list bytes) (old : bytes) : option bytes :=
  match lbuf_rd lbuf_make chunks 0 0 with
  | None => None
  | Some lb => Some (save_file (ln lb) 0 (length (ln lb)) old)
  end.
