(* ExDirty.v -- C02 at the ex interface: with the abstraction of ExUndo.v (plus the two saved-state numbers) every
   command line of the ex model is a list of DirtyDefs operations; on top of ExDefs.v the remaining saved-state
   commands (partial write to the own path, write elsewhere, e!, q without !) are modelled on the ExDefs line
   buffer exactly as DirtyDefs models them on the UndoDefs line buffer.  Conclusion: after any script, when the
   model's q (no !) goes through, the text equals the ghost disk content. *)
From Coq Require Import List Arith NArith ZArith Bool Lia.
From NV Require Import Bytes ExDefs ExSpec ExProps ExSim ExUndo.
From NV Require UndoDefs UndoProps DirtyDefs DirtyProps.
Import ListNotations.
Module D := DirtyDefs.
Module DP := DirtyProps.

Definition Rlz (l : lbuf) (u : U.lbuf) : Prop :=
  Rl l u /\ U.useq_zero u = useq_zero l /\ U.useq_last u = useq_last l.

Lemma Rlz_core l l' u : lbcore l' = lbcore l -> Rlz l u -> Rlz l' u.
Proof.
  intros E (R & Z & L). split; [apply (Rl_core _ _ _ E R)|]. unfold lbcore in E. inversion E as [[E1 E2 E3 E4 E5 E6]].
  rewrite E5, E6. auto.
Qed.

Lemma Rlz_edit l u t b e : Rlz l u -> Rlz (lbuf_edit t b e l) (U.lbuf_edit u t b e).
Proof.
  intros (R & Z & L). split; [apply Rl_edit, R|]. unfold lbuf_edit, U.lbuf_edit.
  destruct (_ && _); destruct (_ && _); try (split; assumption);
    try (destruct (lbuf_replace_fields t (Nat.min b (length (lns l))) (Nat.min e (length (lns l)) - Nat.min b (length (lns l)))
                    (lbuf_opt t (Nat.min b (length (lns l))) (Nat.min e (length (lns l)) - Nat.min b (length (lns l))) l))
           as (_ & _ & _ & F4 & F5); rewrite ?F4, ?F5; cbn; auto).
Qed.

Lemma Rlz_bump l u : Rlz l u -> Rlz (fst (lbuf_modified l)) (U.bump u).
Proof. intros (R & Z & L). split; [apply Rl_bump, R | cbn; auto]. Qed.

Lemma undo_loop_zl q : forall n l, useq_zero (undo_loop n q l) = useq_zero l /\ useq_last (undo_loop n q l) = useq_last l.
Proof.
  induction n as [|n IH]; intro l; [auto|]. cbn [undo_loop].
  destruct (nth_error (hist l) n) as [lo|]; [|auto]. destruct (Z.eqb (o_seq lo) q); [|auto].
  match goal with |- context [undo_loop n q ?x] => destruct (IH x) as [A B]; rewrite A, B end.
  cbn [useq_zero useq_last].
  match goal with |- context [lbuf_replace ?a ?b ?c ?d] => destruct (lbuf_replace_fields a b c d) as (_ & _ & _ & F4 & F5); rewrite F4, F5 end.
  cbn. auto.
Qed.

Lemma Rlz_undo l u : Rlz l u ->
  match U.lbuf_undo u with
  | None => lbuf_undo l = (l, 1%Z)
  | Some u' => snd (lbuf_undo l) = 0%Z /\ Rlz (fst (lbuf_undo l)) u'
  end.
Proof.
  intros (R & Z & L). pose proof (Rl_undo _ _ R) as X. unfold U.lbuf_undo in *.
  destruct (Nat.eqb (U.hist_u u) 0); [exact X|]. destruct X as [X1 X2]. split; [exact X1|]. split; [exact X2|].
  destruct (DP.undo_loop_ctrs (U.seq_at (U.hist u) (U.hist_u u - 1)) (U.hist_u u) u) as (_ & C2 & C3). rewrite C2, C3.
  unfold lbuf_undo. destruct (hist_u l); [cbn; auto|]. destruct (nth_error (hist l) n); [|cbn; auto]. cbn [fst].
  destruct (undo_loop_zl (o_seq l0) (S n) l) as [A B]. rewrite A, B. auto.
Qed.

Lemma seq_eq l u : Rlz l u -> lbuf_seq l = U.lbuf_seq u.
Proof.
  intros ((Ln & H & HU & LE & SQ) & Z & L). unfold lbuf_seq, U.lbuf_seq. rewrite HU.
  destruct (hist_u l) as [|k] eqn:E; [symmetry; exact L|].
  destruct (nth_error (hist l) k) as [lo|] eqn:N; [|apply nth_error_None in N; lia].
  pose proof (Forall2_nth_hrel _ _ _ _ H N) as (_ & _ & _ & _ & P5). unfold U.seq_at. rewrite P5. reflexivity.
Qed.

Lemma flag_eq l u : Rlz l u -> snd (lbuf_modified l) = U.modified_flag u.
Proof.
  intro R. pose proof (seq_eq _ _ R) as S. destruct R as (_ & Z & _). unfold lbuf_modified, U.modified_flag. cbn [snd].
  change (lbuf_seq (mklb (lns l) (marks l) (hist l) (hist_u l) (useq l + 1) (useq_zero l) (useq_last l) (nextid l))) with (lbuf_seq l).
  cbn [useq_zero]. rewrite S, Z. reflexivity.
Qed.

Lemma Rlz_saved0 l u : Rlz l u -> Rlz (lbuf_saved0 l) (U.lbuf_saved u false).
Proof.
  intro R. pose proof (seq_eq _ _ R) as S. destruct R as (R & Z & L). split; [apply Rl_saved0, R|].
  unfold lbuf_saved0, lbuf_modified, U.lbuf_saved, U.bump, U.set_zero. cbn. auto.
Qed.

(* lbuf_unsaved *)
Definition lbuf_unsaved0 (l : lbuf) : lbuf :=
  mklb (lns l) (marks l) (hist l) (hist_u l) (useq l) (-1) (useq_last l) (nextid l).

Lemma Rlz_unsaved l u : Rlz l u -> Rlz (lbuf_unsaved0 l) (U.lbuf_unsaved u).
Proof. intros ((Ln & H & HU & LE & SQ) & Z & L). unfold Rlz, Rl, lbuf_unsaved0, U.lbuf_unsaved, U.set_zero, utext. cbn. auto 10. Qed.

(* ---------------------------------------------------------------------------------------- *)
(* the instance of ExSim for DirtyDefs *)
Definition dop_of (a : act) : D.dop :=
  match a with AEdit t b e => D.DEdit t b e | ABump => D.DBump | AUndo => D.DUndo | ASave => D.DSaveWhole end.
Definition drun1 (e : D.ebuf) (a : act) : D.ebuf := D.run_dop e (dop_of a).

Lemma run_dops_snoc : forall ops e o, D.run_dops e (ops ++ [o]) = D.run_dop (D.run_dops e ops) o.
Proof. induction ops as [|x ops IH]; intros e o; [reflexivity|]. cbn [app D.run_dops]. apply IH. Qed.

Section Dirty.
Variable data : bytes.          (* the file the buffer was opened on *)

Definition reach (e : D.ebuf) : Prop := exists dops, e = D.run_dops (D.ebuf_open data) dops.

Lemma reach_step e o : reach e -> reach (D.run_dop e o).
Proof. intros (dops & ->). exists (dops ++ [o]). symmetry. apply run_dops_snoc. Qed.

Lemma reach_wf e : reach e -> Forall U.line_wf (U.ln (D.lb e)).
Proof.
  intros (dops & ->). destruct (DP.reachable_inv data dops) as (g0 & DI).
  destruct (DP.d_inv _ _ _ DI) as (_ & _ & _ & W). exact W.
Qed.

Section Line.
Variable d0 : U.text.           (* the ghost disk when the command line starts *)

Definition DRel (s : st) (e : D.ebuf) : Prop :=
  reach e /\ Rlz (lb s) (D.lb e) /\ D.disk e = match written s with Some w => U.lines_of w | None => d0 end.

Lemma DRel_same s s' e : wcore s' = wcore s -> DRel s e -> DRel s' e.
Proof.
  intros E (RE & R & DK). pose proof (f_equal fst E) as E1. pose proof (f_equal snd E) as E2. cbn [fst snd wcore] in E1, E2.
  split; [exact RE|]. split; [apply (Rlz_core _ _ _ E1 R) | rewrite E2; exact DK].
Qed.
Lemma DRel_edit s e txt b en : DRel s e -> DRel (set_lb s (lbuf_edit txt b en (lb s))) (drun1 e (AEdit txt b en)).
Proof. intros (RE & R & DK). split; [apply reach_step, RE|]. split; [apply Rlz_edit, R | exact DK]. Qed.
Lemma DRel_bump s e : DRel s e -> DRel (set_lb s (fst (lbuf_modified (lb s)))) (drun1 e ABump).
Proof. intros (RE & R & DK). split; [apply reach_step, RE|]. split; [apply Rlz_bump, R | exact DK]. Qed.
Lemma DRel_undo s e : DRel s e -> DRel (set_lb s (fst (lbuf_undo (lb s)))) (drun1 e AUndo).
Proof.
  intros (RE & R & DK). split; [apply reach_step, RE|]. unfold drun1. cbn [dop_of D.run_dop lb set_lb written].
  pose proof (Rlz_undo _ _ R) as X. destruct (U.lbuf_undo (D.lb e)) as [u'|].
  - destruct X as [_ X]. split; [exact X | exact DK].
  - rewrite X. split; [exact R | exact DK].
Qed.

Lemma cp_whole l : lbuf_cp l 0 (length (lns l)) = concat (utext l).
Proof. unfold lbuf_cp, join_lines, utext. rewrite Nat.sub_0_r. cbn [skipn]. rewrite firstn_all. reflexivity. Qed.

Lemma DRel_save s e : DRel s e ->
  DRel (set_lb (set_written s (lbuf_cp (lb s) 0 (length (lns (lb s))))) (lbuf_saved0 (lb s))) (drun1 e ASave).
Proof.
  intros (RE & R & DK). split; [apply reach_step, RE|]. unfold drun1. cbn [dop_of D.run_dop].
  unfold D.write_own. cbn [Nat.eqb andb]. rewrite Nat.eqb_refl. cbn [D.lb D.disk lb set_lb written set_written].
  split; [apply Rlz_saved0, R|]. rewrite cp_whole. pose proof (reach_wf e RE) as W.
  destruct R as ((Ln & _) & _). rewrite Ln in *. symmetry. apply UP.lines_of_concat, W.
Qed.

End Line.

(* ---------------------------------------------------------------------------------------- *)
(* the saved-state commands on top of the ex model; every one is a top-level command line (closing bump) *)
Inductive xcmd :=
| XLine (ln : bytes)          (* a command line of the ex model (ex_command); a `w` inside it writes the whole buffer to its own path *)
| XWriteOwn (b e : nat)       (* b,ew  : lines b..e-1 to the own path *)
| XWriteOther                 (* w other / b,ew other *)
| XReload (content : bytes)   (* e! *)
| XEdit (content : bytes)     (* e without a file name and without !: the guard; only if it passes, the re-read of e! *)
| XQuit.                      (* q without ! *)

Record xst := mkx { xs : st; xdisk : U.text }.       (* xdisk: ghost, the lines the file holds *)

Definition clear_written (s : st) : st :=
  mkst (lb s) (xrow s) (regs s) (kwd s) (kwddir s) (out s) (inp s) (xquit s) (xwa s) (xgdep s) None (flags s).

Section Run.
Variable rvalid : bytes -> bool.
Variable rfind : bytes -> bytes -> bool -> option (nat * nat).
Variable filter : bytes -> bytes -> option bytes.
Variable readfile : bytes -> option bytes.
Variable curpath : bytes.
Variable fuel : nat.

(* the tail of ec_write for the own path; ec_edit's reload; ec_quit *)
Definition x_write_own (b e : nat) (s : st) : st :=
  set_lb s (if (b =? 0) && (e =? length (lns (lb s))) then lbuf_saved0 (lb s) else lbuf_unsaved0 (lb s)).
Definition x_reload (c : bytes) (s : st) : st :=
  set_lb s (lbuf_saved0 (lbuf_edit (Some c) 0 (length (lns (lb s))) (lb s))).
Definition x_quit (s : st) : st :=
  let '(s1, m) := bufs_modified s in if m then s1 else set_quit s1.

Definition xstep (x : xst) (c : xcmd) : xst :=
  match c with
  | XLine ln =>
    let s1 := fst (ex_command rvalid rfind filter readfile curpath fuel ln (clear_written (xs x))) in
    mkx s1 (match written s1 with Some w => U.lines_of w | None => xdisk x end)
  | XWriteOwn b e =>
    mkx (bump (x_write_own b e (xs x)))
        (if (b =? 0) && (e =? length (lns (lb (xs x)))) then utext (lb (xs x)) else U.slice (utext (lb (xs x))) b (e - b))
  | XWriteOther => mkx (bump (xs x)) (xdisk x)
  | XReload c => mkx (bump (x_reload c (xs x))) (U.lines_of c)
  | XEdit c =>
    let '(s1, m) := bufs_modified (xs x) in            (* ec_edit starts with the guard, before it looks at its argument *)
    if m then mkx (bump s1) (xdisk x) else mkx (bump (x_reload c s1)) (U.lines_of c)
  | XQuit => mkx (bump (x_quit (xs x))) (xdisk x)
  end.

Definition xrun (x : xst) (cs : list xcmd) : xst := fold_left xstep cs x.

Definition xinit (input : list bytes) (wa : bool) : xst := mkx (init_st data input wa) (U.lines_of data).

(* the invariant: the ex state is related to a REACHABLE DirtyDefs buffer with the same ghost disk *)
Definition XInv (x : xst) : Prop := exists e, reach e /\ Rlz (lb (xs x)) (D.lb e) /\ D.disk e = xdisk x.

Lemma drun_acts : forall acts e, run_acts D.ebuf drun1 e acts = D.run_dops e (map dop_of acts).
Proof. induction acts as [|a acts IH]; intro e; [reflexivity|]. cbn [map D.run_dops]. unfold run_acts in *. cbn [fold_left]. apply IH. Qed.

Lemma XInv_step x c : XInv x -> XInv (xstep x c).
Proof.
  intros (e & RE & R & DK). destruct c as [ln|b en| |c|c|]; cbn [xstep].
  - (* a command line of the ex model *)
    assert (H0 : DRel (xdisk x) (clear_written (xs x)) e) by (split; [exact RE|]; split; [exact R | exact DK]).
    destruct (step_ex_command D.ebuf (DRel (xdisk x)) drun1 (DRel_same _) (DRel_edit _) (DRel_bump _) (DRel_undo _) (DRel_save _)
                any_act (fun _ _ _ => eq_refl) rvalid rfind filter readfile curpath fuel ln _ e (line_ok_any fuel ln) H0) as (acts & (RE1 & R1 & DK1) & _).
    eexists. split; [exact RE1|]. split; [exact R1 | exact DK1].
  - (* write to the own path *)
    exists (D.run_dop (D.run_dop e (D.DSaveOwn b en)) D.DBump). split; [apply reach_step, reach_step, RE|].
    cbn [D.run_dop D.lb D.disk xs xdisk]. unfold D.write_own, x_write_own.
    assert (LEN : length (U.ln (D.lb e)) = length (lns (lb (xs x)))) by (destruct R as ((Ln & _) & _); rewrite Ln; apply utext_length).
    rewrite LEN. pose proof R as ((Ln & _) & _).
    destruct ((b =? 0) && (en =? length (lns (lb (xs x))))); cbn [D.lb D.disk lb bump set_lb].
    + split; [apply Rlz_bump, Rlz_saved0, R | exact Ln].
    + split; [apply Rlz_bump, Rlz_unsaved, R | rewrite Ln; reflexivity].
  - exists (D.run_dop (D.run_dop e D.DSaveOther) D.DBump). split; [apply reach_step, reach_step, RE|].
    cbn [D.run_dop D.lb D.disk xs xdisk lb bump set_lb]. split; [apply Rlz_bump, R | exact DK].
  - exists (D.run_dop (D.run_dop e (D.DReload c)) D.DBump). split; [apply reach_step, reach_step, RE|].
    cbn [D.run_dop D.lb D.disk xs xdisk]. unfold x_reload. cbn [lb bump set_lb].
    assert (LEN : length (U.ln (D.lb e)) = length (lns (lb (xs x)))) by (destruct R as ((Ln & _) & _); rewrite Ln; apply utext_length).
    rewrite LEN. split; [apply Rlz_bump, Rlz_saved0, Rlz_edit, R | reflexivity].
  - (* e without !: refused = two bumps; otherwise bump, reload, bump *)
    unfold bufs_modified. pose proof (Rlz_bump _ _ R) as RB. destruct (lbuf_modified (lb (xs x))) as [l m]. cbn [fst] in RB.
    destruct m.
    + exists (D.run_dop (D.run_dop e D.DBump) D.DBump). split; [apply reach_step, reach_step, RE|].
      cbn [D.run_dop D.lb D.disk xs xdisk lb bump set_lb emit]. split; [apply Rlz_bump, RB | exact DK].
    + exists (D.run_dop (D.run_dop (D.run_dop e D.DBump) (D.DReload c)) D.DBump).
      split; [apply reach_step, reach_step, reach_step, RE|].
      cbn [D.run_dop D.lb D.disk xs xdisk]. unfold x_reload. cbn [lb bump set_lb].
      assert (LEN : length (U.ln (U.bump (D.lb e))) = length (lns l)) by (destruct RB as ((Ln & _) & _); rewrite Ln; apply utext_length).
      change (fst (U.lbuf_modified (D.lb e))) with (U.bump (D.lb e)). rewrite LEN.
      split; [apply Rlz_bump, Rlz_saved0, Rlz_edit, RB | reflexivity].
  - exists (D.run_dop (D.run_dop e D.DBump) D.DBump). split; [apply reach_step, reach_step, RE|].
    cbn [D.run_dop D.lb D.disk xs xdisk]. unfold x_quit, bufs_modified.
    pose proof (Rlz_bump _ _ R) as RB. destruct (lbuf_modified (lb (xs x))) as [l m]. cbn [fst] in RB.
    destruct m; cbn [lb bump set_lb emit set_quit]; (split; [apply Rlz_bump, RB | exact DK]).
Qed.

Lemma XInv_run : forall cs x, XInv x -> XInv (xrun x cs).
Proof. induction cs as [|c cs IH]; intros x H; [exact H|]. unfold xrun in *. cbn [fold_left]. apply IH, XInv_step, H. Qed.

Lemma Rlz_init : Rlz (init_lbuf data) (D.lb (D.run_dop (D.ebuf_open data) D.DBump)).
Proof.
  split.
  - pose proof (Rl_init rvalid rfind filter readfile data) as (Ln & _). unfold Rl. cbn. split; [|repeat split; auto].
    cbn in Ln. rewrite <- Ln. rewrite app_nil_r. reflexivity.
  - cbn. auto.
Qed.

Lemma XInv_init input wa : XInv (xinit input wa).
Proof.
  exists (D.run_dop (D.ebuf_open data) D.DBump). split; [exists [D.DBump]; reflexivity|].
  split; [apply Rlz_init | reflexivity].
Qed.

(* every script maps onto a DirtyDefs history of the buffer opened on the same file, with the same ghost disk *)
Theorem ex_script_history input wa cs :
  let x := xrun (xinit input wa) cs in
  exists dops, Rlz (lb (xs x)) (D.lb (D.run_dops (D.ebuf_open data) dops)) /\ D.disk (D.run_dops (D.ebuf_open data) dops) = xdisk x.
Proof. cbv zeta. destruct (XInv_run cs _ (XInv_init input wa)) as (e & (dops & ->) & R & DK). exists dops. auto. Qed.

(* the dirty test of the model (what q, e, b ask) never reports clean while text and ghost disk differ *)
Lemma XInv_clean x : XInv x -> snd (lbuf_modified (lb (xs x))) = false -> utext (lb (xs x)) = xdisk x.
Proof.
  intros (e & (dops & ->) & R & DK) M.
  rewrite (flag_eq _ _ R) in M. pose proof (DP.dirty_sound data dops M) as S. cbv zeta in S.
  destruct R as ((Ln & _) & _). rewrite <- Ln, <- DK. exact S.
Qed.

Theorem ex_clean_sound input wa cs :
  let x := xrun (xinit input wa) cs in
  snd (lbuf_modified (lb (xs x))) = false -> utext (lb (xs x)) = xdisk x.
Proof. cbv zeta. apply XInv_clean, XInv_run, XInv_init. Qed.

(* the guard of the filter command `!` (the ex model's own ec_exec, without writeany): on a buffer reported modified it is
   refused with the text untouched; it filters only a buffer whose text equals the ghost disk *)
Theorem ex_filter_guard input wa cs loc arg :
  let x := xrun (xinit input wa) cs in
  xwa (xs x) = false ->
  let res := ec_exec rvalid rfind filter loc arg (xs x) in
  (snd (lbuf_modified (lb (xs x))) = true -> snd res = 1%Z /\ texts (fst res) = texts (xs x)) /\
  (snd (lbuf_modified (lb (xs x))) = false -> utext (lb (xs x)) = xdisk x).
Proof.
  cbv zeta. intro W. split.
  - intro M. unfold ec_exec. rewrite W. unfold bufs_modified.
    destruct (lbuf_modified (lb (xs (xrun (xinit input wa) cs)))) as [l m] eqn:E. cbn [snd] in M. subst m.
    unfold lbuf_modified in E. inversion E; subst. cbn. auto.
  - apply XInv_clean, XInv_run, XInv_init.
Qed.

(* q without ! after any script: it goes through only when the text equals the ghost disk *)
Theorem ex_quit_sound input wa cs :
  let x := xrun (xinit input wa) cs in
  xquit (xs x) = false -> xquit (xs (xstep x XQuit)) = true -> utext (lb (xs x)) = xdisk x.
Proof.
  cbv zeta. intros Q0 Q1. apply ex_clean_sound. cbn [xstep xs] in Q1. unfold x_quit, bufs_modified in Q1.
  destruct (lbuf_modified (lb (xs (xrun (xinit input wa) cs)))) as [l m]. cbn [snd].
  destruct m; [|reflexivity]. cbn in Q1. congruence.
Qed.

(* and it is refused -- nothing but the command counter and the message changes -- when the test reports modified *)
Theorem ex_quit_refused (x : xst) :
  snd (lbuf_modified (lb (xs x))) = true ->
  xquit (xs (xstep x XQuit)) = xquit (xs x) /\ texts (xs (xstep x XQuit)) = texts (xs x) /\
  hist (lb (xs (xstep x XQuit))) = hist (lb (xs x)) /\ hist_u (lb (xs (xstep x XQuit))) = hist_u (lb (xs x)) /\
  xdisk (xstep x XQuit) = xdisk x.
Proof.
  intro M. cbn [xstep xs xdisk]. unfold x_quit, bufs_modified. destruct (lbuf_modified (lb (xs x))) as [l m] eqn:E.
  cbn [snd] in M. subst m. unfold lbuf_modified in E. inversion E; subst. cbn. auto.
Qed.

(* e without a file name and without ! : on a buffer reported modified it is refused -- text, undo history, undo position and
   ghost disk as before, only the command counter and the message move *)
Theorem ex_edit_refused (x : xst) c :
  snd (lbuf_modified (lb (xs x))) = true ->
  texts (xs (xstep x (XEdit c))) = texts (xs x) /\
  hist (lb (xs (xstep x (XEdit c)))) = hist (lb (xs x)) /\ hist_u (lb (xs (xstep x (XEdit c)))) = hist_u (lb (xs x)) /\
  xdisk (xstep x (XEdit c)) = xdisk x /\ snd (lbuf_modified (lb (xs (xstep x (XEdit c))))) = true.
Proof.
  intro M. cbn [xstep xs xdisk]. unfold bufs_modified. destruct (lbuf_modified (lb (xs x))) as [l m] eqn:E.
  cbn [snd] in M. subst m. unfold lbuf_modified in E. inversion E; subst. cbn. repeat split.
Qed.

(* after ANY script it goes through only when the text equals the ghost disk, and then the text is the file's, the ghost disk is
   the text and the dirty test reports clean *)
Theorem ex_edit_sound input wa cs c :
  let x := xrun (xinit input wa) cs in
  snd (lbuf_modified (lb (xs x))) = false ->
  utext (lb (xs x)) = xdisk x /\
  utext (lb (xs (xstep x (XEdit c)))) = U.lines_of c /\ xdisk (xstep x (XEdit c)) = U.lines_of c /\
  snd (lbuf_modified (lb (xs (xstep x (XEdit c))))) = false.
Proof.
  cbv zeta. intro M. split; [apply ex_clean_sound, M|].
  pose proof (XInv_step _ (XEdit c) (XInv_run cs _ (XInv_init input wa))) as I.
  set (x := xrun (xinit input wa) cs) in *.
  assert (DKx : xdisk (xstep x (XEdit c)) = U.lines_of c).
  { cbn [xstep]. unfold bufs_modified. destruct (lbuf_modified (lb (xs x))) as [l m]. cbn [snd] in M. subst m. reflexivity. }
  assert (F : snd (lbuf_modified (lb (xs (xstep x (XEdit c))))) = false).
  { cbn [xstep]. unfold bufs_modified. destruct (lbuf_modified (lb (xs x))) as [l m]. cbn [snd] in M. subst m.
    cbn [xs]. unfold x_reload. cbn [lb bump set_lb].
    match goal with |- snd (lbuf_modified (fst (lbuf_modified (lbuf_saved0 ?q)))) = false => generalize q end.
    intro q. unfold lbuf_saved0, lbuf_modified. cbn. apply negb_false_iff, Z.eqb_refl. }
  split; [|split; [exact DKx | exact F]].
  rewrite <- DKx. apply XInv_clean; assumption.
Qed.

End Run.
End Dirty.

(* ---------------------------------------------------------------------------------------- *)
(* several buffers: the table of ex.c (slot 0 = the current buffer), each buffer with its own file; bufs_switch, the guard
   of e / b, and the scan of ec_quit are those of DirtyDefs (switch_to, guard_current, quit_scan) on ex-level buffers *)
Section Table.
Variable rvalid : bytes -> bool.
Variable rfind : bytes -> bytes -> bool -> option (nat * nat).
Variable filter : bytes -> bytes -> option bytes.
Variable readfile : bytes -> option bytes.
Variable curpath : bytes.
Variable fuel : nat.

Definition x_bump (x : xst) : xst := mkx (bump (xs x)) (xdisk x).
Definition x_flag (x : xst) : bool := snd (lbuf_modified (lb (xs x))).
(* bufs_modified(idx): lbuf_modified bumps, the answer is the flag *)
Definition x_bufs_modified (x : xst) : xst * bool := (x_bump x, x_flag x).

Definition x_switch_to (pre : list xst) (b : xst) (r : list xst) : list xst :=
  match pre with
  | [] => x_bump b :: r
  | y :: p => b :: x_bump y :: p ++ r
  end.

Fixpoint x_quit_scan (pre l : list xst) : list xst * bool :=
  match l with
  | [] => (rev pre, true)
  | b :: r => let '(b', m) := x_bufs_modified b in
              if m then (x_switch_to (rev pre) b' r, false) else x_quit_scan (b' :: pre) r
  end.

Inductive tcmd :=
| TCur (c : xcmd)                                (* a command on the current buffer (XQuit here is the one-buffer q) *)
| TSwitch (force : bool) (k : nat)               (* b k / e <open file>, with or without ! *)
| TOpen (force : bool) (data : bytes) (input : list bytes) (wa : bool).     (* e <new file> *)

Fixpoint split_at {A} (k : nat) (l : list A) : option (list A * A * list A) :=
  match l with
  | [] => None
  | x :: l' => match k with O => Some ([], x, l') | S k' => match split_at k' l' with Some (p, y, r) => Some (x :: p, y, r) | None => None end end
  end.

Definition tstep (t : list xst) (c : tcmd) : list xst :=
  match t with
  | [] => match c with TOpen _ data input wa => [xinit data input wa] | _ => [] end
  | cur :: rest =>
    match c with
    | TCur xc => xstep rvalid rfind filter readfile curpath fuel cur xc :: rest
    | TSwitch force k =>
      if negb force && x_flag cur then x_bump cur :: rest               (* refused: "buffer modified" *)
      else match split_at k (cur :: rest) with
           | Some (pre, b, r) => x_switch_to pre b r
           | None => cur :: rest
           end
    | TOpen force data input wa =>
      if negb force && x_flag cur then x_bump cur :: rest
      else xinit data input wa :: x_bump cur :: rest
    end
  end.

Definition trun (t : list xst) (cs : list tcmd) : list xst := fold_left tstep cs t.

Definition TInv (t : list xst) : Prop := Forall (fun x => exists data, XInv data x) t.

Lemma XInv_bump data x : XInv data x -> XInv data (x_bump x).
Proof. intro H. exact (XInv_step data rvalid rfind filter readfile curpath fuel x XWriteOther H). Qed.

Lemma split_at_Forall {A} (P : A -> Prop) : forall k l p y r, split_at k l = Some (p, y, r) -> Forall P l -> Forall P p /\ P y /\ Forall P r.
Proof.
  induction k as [|k IH]; intros l p y r H F; destruct l as [|x l]; try discriminate; cbn [split_at] in H.
  - inversion H; subst. inversion F; subst. auto.
  - destruct (split_at k l) as [[[p' y'] r']|] eqn:E; [|discriminate]. inversion H; subst. inversion F; subst.
    destruct (IH _ _ _ _ E H3) as (A1 & A2 & A3). auto.
Qed.

Lemma TInv_switch pre b r : TInv pre -> (exists data, XInv data b) -> TInv r -> TInv (x_switch_to pre b r).
Proof.
  intros P (d & B) R. unfold x_switch_to, TInv in *. destruct pre as [|y p].
  - constructor; [exists d; apply XInv_bump, B | exact R].
  - inversion P as [|? ? (dy & Y) P']; subst. constructor; [exists d; exact B|]. constructor; [exists dy; apply XInv_bump, Y|].
    apply Forall_app. auto.
Qed.

Lemma TInv_step t c : TInv t -> TInv (tstep t c).
Proof.
  intro H. unfold tstep. destruct t as [|cur rest].
  - destruct c; try constructor; [eexists; exact (XInv_init _ rvalid rfind filter readfile _ _) | constructor].
  - inversion H as [|? ? (d & C) R]; subst. destruct c as [xc|force k|force data input wa].
    + constructor; [exists d; apply XInv_step, C | exact R].
    + destruct (negb force && x_flag cur); [constructor; [exists d; apply XInv_bump, C | exact R]|].
      destruct (split_at k (cur :: rest)) as [[[pre b] r]|] eqn:E; [|exact H].
      destruct (split_at_Forall _ _ _ _ _ _ E H) as (A1 & A2 & A3). apply TInv_switch; assumption.
    + destruct (negb force && x_flag cur); [constructor; [exists d; apply XInv_bump, C | exact R]|].
      constructor; [eexists; exact (XInv_init _ rvalid rfind filter readfile _ _)|]. constructor; [exists d; apply XInv_bump, C | exact R].
Qed.

Lemma TInv_run : forall cs t, TInv t -> TInv (trun t cs).
Proof. induction cs as [|c cs IH]; intros t H; [exact H|]. unfold trun in *. cbn [fold_left]. apply IH, TInv_step, H. Qed.

Lemma x_flag_bump x : x_flag (x_bump x) = x_flag x.
Proof. reflexivity. Qed.

(* the scan of ec_quit says "exit" only when no buffer is reported modified *)
Lemma x_quit_scan_true : forall l pre, snd (x_quit_scan pre l) = true -> Forall (fun x => x_flag x = false) l.
Proof.
  induction l as [|b r IH]; intros pre H; [constructor|]. cbn [x_quit_scan x_bufs_modified] in H.
  destruct (x_flag b) eqn:F; [discriminate|]. constructor; [exact F | apply (IH _ H)].
Qed.

(* ... and when it refuses, the buffer it makes current is one that is reported modified *)
Lemma x_quit_scan_false : forall l pre, snd (x_quit_scan pre l) = false ->
  exists cur rest, fst (x_quit_scan pre l) = cur :: rest /\ x_flag cur = true.
Proof.
  induction l as [|b r IH]; intros pre H; [discriminate|]. cbn [x_quit_scan x_bufs_modified] in *.
  destruct (x_flag b) eqn:F; [|apply IH, H]. cbn [fst]. unfold x_switch_to. destruct (rev pre); eexists; eexists; split; try reflexivity; exact F.
Qed.

(* q without ! over ANY table reached by ANY table script: it exits only if EVERY buffer's text equals its ghost disk *)
Theorem ex_table_quit_sound data input wa cs :
  let t := trun [xinit data input wa] cs in
  snd (x_quit_scan [] t) = true -> Forall (fun x => utext (lb (xs x)) = xdisk x) t.
Proof.
  cbv zeta. intro Q. pose proof (x_quit_scan_true _ _ Q) as F.
  assert (I : TInv (trun [xinit data input wa] cs)) by (apply TInv_run; constructor; [eexists; exact (XInv_init _ rvalid rfind filter readfile _ _) | constructor]).
  revert F I. generalize (trun [xinit data input wa] cs). induction l as [|x l IH]; intros F I; [constructor|].
  inversion F; subst. inversion I as [|? ? (d & X) I']; subst. constructor; [apply (XInv_clean d x X); assumption | apply IH; assumption].
Qed.

(* a switch / open without ! is refused (only the command counter moves) while the current buffer is reported modified,
   and goes through only when its text equals its ghost disk *)
Theorem ex_table_guard data input wa cs c :
  let t := trun [xinit data input wa] cs in
  (exists k, c = TSwitch false k) \/ (exists d i w, c = TOpen false d i w) ->
  match t with
  | [] => True
  | cur :: rest =>
    (x_flag cur = true -> tstep t c = x_bump cur :: rest) /\
    (x_flag cur = false -> utext (lb (xs cur)) = xdisk cur)
  end.
Proof.
  cbv zeta. intro HC.
  assert (I : TInv (trun [xinit data input wa] cs)) by (apply TInv_run; constructor; [eexists; exact (XInv_init _ rvalid rfind filter readfile _ _) | constructor]).
  destruct (trun [xinit data input wa] cs) as [|cur rest]; [exact Logic.I|].
  inversion I as [|? ? (d & X) I']; subst. split.
  - intro F. destruct HC as [(k & ->)|(d' & i & w & ->)]; cbn [tstep negb andb]; rewrite F; reflexivity.
  - intro F. apply (XInv_clean d cur X F).
Qed.

End Table.
