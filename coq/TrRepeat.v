(* TrRepeat.v -- C09: the key source of vi.c / term.c as C TEXT, part 1.
   (term_push, term_cmd and the queued path of term_read are coq/TrTerm.v; this file adds what was missing there.)

     tr_term_read_refill   term_read() when no key is queued (ibuf_pos >= ibuf_cnt): poll(2) and read(2) are calls to the untranslated
                    indices X_poll / X_read, answered by an ORACLE (CLiteExt.callx) in the style of coq/TrWrite.v: the bytes the terminal
                    will still deliver are the cells of a memory block kt; read(0, ibuf, 1) takes the first one, stores it (as a char) in
                    ibuf[0] and returns 1, or returns 0 when the block is empty.  Proved for EVERY oracle that answers the two calls as
                    that kernel does: one byte c is taken, ibuf_cnt = 1, ibuf_pos = 1, c is recorded in icmd[icmd_pos++] when there
                    is room, c is returned; at the end of input -1 is returned and nothing is recorded.
     tr_vi_read_stack / tr_vi_read_term   vi_read(): the top of the push-back stack vi_buf when vi_buflen != 0, else term_read().
     tr_vi_back     vi_back(c): vi_buf[vi_buflen++] = c.  The C text guards with `vi_buflen < sizeof(vi_buf)` = 512 BYTES while the array
                    has 128 ints: the theorem asks vi_buflen < 128 (a store to vi_buf[128..511] is out of bounds, the error EOob of the
                    checked semantics); vi() never has more than two keys pushed back, so the difference is not reachable.
   The refinement statements (term_read_refill_refines, vi_read_m ...) relate the memory to InputQueue's queue as coq/TrTerm.v does. *)
From Coq Require Import List ZArith NArith Bool Lia.
From NV Require Import Bytes GenConsts CLite CLiteProps GenCFuncs CLiteTac CLiteExt TrTerm.
From NV Require InputQueue.
Import ListNotations.
Local Open Scope Z_scope.

Ltac enterx f cf :=
  rewrite callx_S; cbn [nth_error cprog f cf fn_nparams fn_nlocals fn_body length Nat.eqb Nat.sub repeat app].

Lemma x_poll_none : nth_error cprog X_poll = None. Proof. vm_compute. reflexivity. Qed.
Lemma x_read_none : nth_error cprog X_read = None. Proof. vm_compute. reflexivity. Qed.
Lemma x_vi_read_none : nth_error cprog X_vi_read = None. Proof. vm_compute. reflexivity. Qed.
Lemma x_vi_back_none : nth_error cprog X_vi_back = None. Proof. vm_compute. reflexivity. Qed.
Lemma x_reg_get_none : nth_error cprog X_reg_get = None. Proof. vm_compute. reflexivity. Qed.

(* ------------------------------------------------------------------ the kernel: poll(2) and read(2) on the terminal *)
(* poll(ufds, 1, -1) with ufds[0] = { fd 0, events POLLIN }: the terminal is ready (also at the end of input: POLLHUP) *)
Definition kern_poll (args : list val) (m : mem) : res (val * mem) :=
  match args with
  | [VPtr b 0; VInt 1; VInt _] =>
      match nth_error m b with
      | Some (VInt 0 :: VInt 1 :: _) => Ok (VInt 1, m)
      | _ => Err EOob
      end
  | _ => Err EShape
  end.
Definition is_key (c : Z) : bool := (0 <=? c) && (c <? 256).
(* read(0, p, 1): the cells of block kt are the bytes still to come; the byte is stored as a char *)
Definition kern_read (kt : nat) (args : list val) (m : mem) : res (val * mem) :=
  match args with
  | [VInt 0; VPtr b o; VInt 1] =>
      match nth_error m kt with
      | Some [] => Ok (VInt 0, m)
      | Some (VInt c :: rest) =>
          if is_key c then (do m1 <- store m b o (VInt (wrap I8 c)); Ok (VInt 1, upd m1 kt rest)) else Err EUndef
      | _ => Err EOob
      end
  | _ => Err EShape
  end.
(* the oracle: poll and read are the kernel, any other untranslated function is still an error *)
Definition kern (kt : nat) : nat -> list val -> mem -> res (val * mem) :=
  fun f args m => if Nat.eqb f X_poll then kern_poll args m else if Nat.eqb f X_read then kern_read kt args m else Err EShape.
Definition kernel_ext (ext : nat -> list val -> mem -> res (val * mem)) (kt : nat) : Prop :=
  forall args m, ext X_poll args m = kern_poll args m /\ ext X_read args m = kern_read kt args m.
Lemma kern_is_kernel kt : kernel_ext (kern kt) kt.
Proof. intros args m. split; reflexivity. Qed.

(* the terminal's pending bytes *)
Definition tin_at (m : mem) (kt : nat) (tin : list Z) : Prop :=
  nth_error m kt = Some (map VInt tin) /\ Forall (fun c => 0 <= c < 256) tin.

Ltac Zify.zify_post_hook ::= Z.div_mod_to_equations.
Lemma key_as_char c : 0 <= c < 256 -> -128 <= wrap I8 c <= 127 /\ (wrap I8 c) mod 256 = c.
Proof.
  intro H. unfold wrap. cbn [ity_bits ity_signed andb]. change (2 ^ 8) with 256. change (2 ^ (8 - 1)) with 128.
  rewrite Z.mod_small by lia. destruct (Z.leb_spec 128 c); lia.
Qed.
Ltac Zify.zify_post_hook ::= idtac.

(* ------------------------------------------------------------------ term_read: the statements behind the refill block *)
Definition read_tail : stmt := match fn_body cf_term_read with SSeq _ (SSeq _ t) => t | _ => SSkip end.
Definition tail_mem (m : mem) (pos ip : Z) (ic : block) (z : Z) : mem :=
  let m1 := upd m G_ibuf_pos [VInt (pos + 1)] in
  if ip <? ICMDSZ then upd (upd m1 G_icmd_pos [VInt (ip + 1)]) G_icmd (upd ic (Z.to_nat ip) (VInt z)) else m1.

Lemma read_tail_ok call fuel l0 l1 l2 m pos cnt ib ip ic z :
  cell_at m G_ibuf_pos pos -> cell_at m G_ibuf_cnt cnt -> nth_error m G_ibuf = Some ib ->
  0 <= pos < cnt -> cnt <= 2147483647 ->
  nth_error ib (Z.to_nat pos) = Some (VInt z) -> -128 <= z <= 127 ->
  cell_at m G_icmd_pos ip -> nth_error m G_icmd = Some ic -> Z.of_nat (length ic) = ICMDSZ -> 0 <= ip <= ICMDSZ ->
  exec call fuel read_tail (mkst [l0; l1; l2] m)
  = OReturn (VInt (z mod 256)) (mkst [l0; l1; VInt (z mod 256)] (tail_mem m pos ip ic z)).
Proof.
  intros Hpos0 Hcnt0 Hib0 Hpc Hc Hz Hzr Hip0 Hic0 Hicl Hipr.
  unfold tail_mem, ICMDSZ in *. set (m0 := m) in *.
  assert (Lpos : (G_ibuf_pos < length m0)%nat) by (apply nth_error_Some; unfold cell_at in Hpos0; congruence).
  assert (Lip : (G_icmd_pos < length m0)%nat) by (apply nth_error_Some; unfold cell_at in Hip0; congruence).
  assert (Lic : (G_icmd < length m0)%nat) by (apply nth_error_Some; congruence).
  unfold read_tail. cbn [fn_body cf_term_read]. xstep.
  rewrite (load_cell m0 G_ibuf_pos pos Hpos0). xstep. rewrite (wrap_I32_id pos) by lia.
  rewrite (load_cell m0 G_ibuf_cnt cnt Hcnt0). xstep. rewrite (wrap_I32_id cnt) by lia.
  destruct (Z.ltb_spec pos cnt); [|lia]. xstep.
  rewrite (load_cell m0 G_ibuf_pos pos Hpos0). xstep. rewrite (wrap_I32_id pos) by lia.
  rewrite (chk_I32 (pos + 1)) by lia. xstep. cbn [fst snd].
  rewrite (store_cell m0 G_ibuf_pos pos _ Hpos0). xstep.
  set (m1 := upd m0 G_ibuf_pos [VInt (pos + 1)]).
  assert (Hib1 : nth_error m1 G_ibuf = Some ib) by (unfold m1; rewrite mem_upd_other; [exact Hib0|exact Lpos|discriminate]).
  assert (Hip1 : cell_at m1 G_icmd_pos ip) by (apply cell_at_upd_other; [exact Lpos|discriminate|exact Hip0]).
  assert (Hic1 : nth_error m1 G_icmd = Some ic) by (unfold m1; rewrite mem_upd_other; [exact Hic0|exact Lpos|discriminate]).
  assert (Hld : load m1 G_ibuf (0 + 1 * pos) = Ok (VInt z)).
  { unfold load. rewrite Hib1. replace (0 + 1 * pos) with pos by lia. destruct (Z.ltb_spec pos 0); [lia|]. rewrite Hz. reflexivity. }
  rewrite Hld. xstep. rewrite (char_as_uchar z Hzr).
  rewrite (load_cell m1 G_icmd_pos ip Hip1). xstep. rewrite (wrap_I32_id ip), (wrap_U64_id ip) by lia.
  destruct (Z.ltb_spec ip 4096) as [Hlt|Hge]; xstep; [|reflexivity].
  rewrite (load_cell m1 G_icmd_pos ip Hip1). xstep. rewrite (wrap_I32_id ip) by lia.
  rewrite (chk_I32 (ip + 1)) by lia. xstep. cbn [fst snd].
  rewrite (store_cell m1 G_icmd_pos ip _ Hip1). xstep.
  set (m2 := upd m1 G_icmd_pos [VInt (ip + 1)]).
  assert (L1 : (G_icmd_pos < length m1)%nat) by (unfold m1; rewrite upd_length; assumption).
  assert (Hic2 : nth_error m2 G_icmd = Some ic) by (unfold m2; rewrite mem_upd_other; [exact Hic1|exact L1|discriminate]).
  rewrite (uchar_as_char z Hzr). replace (0 + 1 * ip) with ip by lia.
  rewrite (store_ok m2 G_icmd ic) by (try exact Hic2; lia). xstep. reflexivity.
Qed.

(* ------------------------------------------------------------------ term_read, the refill path *)
(* the block of the local `struct pollfd ufds[1]` after ufds[0].fd = 0; ufds[0].events = POLLIN (revents never written) *)
Definition ufds_blk : block := [VInt 0; VInt 1; VUndef].
(* one byte c taken from the terminal *)
Definition refill_mem (m : mem) (kt : nat) (ib : block) (ip : Z) (ic : block) (c : Z) (rest : list Z) : mem :=
  let m1 := upd (upd (m ++ [ufds_blk]) G_ibuf (upd ib 0 (VInt (wrap I8 c)))) kt (map VInt rest) in
  tail_mem (upd (upd m1 G_ibuf_cnt [VInt 1]) G_ibuf_pos [VInt 0]) 0 ip ic (wrap I8 c).

Lemma nth_upd2 (m : mem) a x b y g : (a < length m)%nat -> (b < length m)%nat -> g <> a -> g <> b ->
  nth_error (upd (upd m a x) b y) g = nth_error m g.
Proof. intros La Lb Ha Hb. rewrite mem_upd_other; [|rewrite upd_length; assumption|exact Hb]. apply mem_upd_other; assumption. Qed.
Lemma len_upd2 (m : mem) a x b y : (a < length m)%nat -> (b < length m)%nat -> length (upd (upd m a x) b y) = length m.
Proof. intros La Lb. rewrite upd_length by (rewrite upd_length; assumption). apply upd_length. exact La. Qed.
Lemma cell_lt m g v : cell_at m g v -> (g < length m)%nat.
Proof. intro H. apply nth_error_Some. unfold cell_at in H. congruence. Qed.

Definition read_head : stmt := match fn_body cf_term_read with SSeq h _ => h | _ => SSkip end.
Definition read_refill : stmt := match fn_body cf_term_read with SSeq _ (SSeq r _) => r | _ => SSkip end.
Lemma term_read_shape : fn_body cf_term_read = SSeq read_head (SSeq read_refill read_tail).
Proof. reflexivity. Qed.
Ltac enter_read :=
  rewrite callx_S; cbn [nth_error cprog F_term_read]; cbn [cf_term_read fn_nparams fn_nlocals length Nat.eqb Nat.sub repeat app];
  fold cf_term_read; rewrite term_read_shape; rewrite !exec_seq; unfold read_head, read_refill; cbn [fn_body cf_term_read].

Theorem tr_term_read_refill ext kt m pos cnt ib ip ic c rest d fuel :
  kernel_ext ext kt ->
  cell_at m G_ibuf_pos pos -> cell_at m G_ibuf_cnt cnt -> nth_error m G_ibuf = Some ib -> (0 < length ib)%nat ->
  cnt <= pos -> -2147483648 <= cnt -> pos <= 2147483647 ->
  tin_at m kt (c :: rest) ->
  kt <> G_ibuf -> kt <> G_ibuf_pos -> kt <> G_ibuf_cnt -> kt <> G_icmd -> kt <> G_icmd_pos ->
  cell_at m G_icmd_pos ip -> nth_error m G_icmd = Some ic -> Z.of_nat (length ic) = ICMDSZ -> 0 <= ip <= ICMDSZ ->
  callx ext cprog fuel (S (S d)) F_term_read [] m = Ok (VInt c, refill_mem m kt ib ip ic c rest).
Proof.
  intros Hk Hpos Hcnt Hib Hibl Hpc Hc1 Hc2 [Hkt Hkb] N1 N2 N3 N4 N5 Hip Hic Hicl Hipr.
  assert (Lpos : (G_ibuf_pos < length m)%nat) by (apply nth_error_Some; unfold cell_at in Hpos; congruence).
  assert (Lcnt : (G_ibuf_cnt < length m)%nat) by (apply nth_error_Some; unfold cell_at in Hcnt; congruence).
  assert (Lip : (G_icmd_pos < length m)%nat) by (apply nth_error_Some; unfold cell_at in Hip; congruence).
  assert (Lic : (G_icmd < length m)%nat) by (apply nth_error_Some; congruence).
  assert (Lib : (G_ibuf < length m)%nat) by (apply nth_error_Some; congruence).
  assert (Lkt : (kt < length m)%nat) by (apply nth_error_Some; congruence).
  enter_read. xstep.
  cbn [do_builtin_m Z.ltb Z.compare]. change (Z.to_nat 3) with 3%nat. xstep.
  set (m0 := m ++ [repeat VUndef 3]).
  assert (G0 : forall g blk, nth_error m g = Some blk -> nth_error m0 g = Some blk).
  { intros g blk H. unfold m0. rewrite nth_error_app1; [exact H|]. apply nth_error_Some. congruence. }
  pose proof (G0 _ _ Hpos) as Hpos0. pose proof (G0 _ _ Hcnt) as Hcnt0.
  rewrite (load_cell m0 G_ibuf_pos pos Hpos0). xstep. rewrite (wrap_I32_id pos) by lia.
  rewrite (load_cell m0 G_ibuf_cnt cnt Hcnt0). xstep. rewrite (wrap_I32_id cnt) by lia.
  destruct (Z.leb_spec cnt pos); [|lia]. xstep.
  (* ufds[0].fd = 0; ufds[0].events = POLLIN *)
  assert (Hu0 : nth_error m0 (length m) = Some (repeat VUndef 3)) by apply nth_error_app_new.
  change (0 + 3 * 0) with 0. change (wrap I32 0) with 0.
  rewrite (store_ok m0 (length m) _ 0 _ Hu0) by (cbn; lia). xstep.
  unfold m0 at 1. rewrite upd_app_new. cbn [repeat upd Z.to_nat firstn skipn app].
  set (ma := m ++ [[VInt 0; VUndef; VUndef]]).
  assert (Hu1 : nth_error ma (length m) = Some [VInt 0; VUndef; VUndef]) by apply nth_error_app_new.
  change (0 + 3 * 0 + 1 * 1) with 1. change (wrap I16 (wrap I16 1)) with 1.
  rewrite (store_ok ma (length m) _ 1 _ Hu1) by (cbn; lia). xstep.
  unfold ma at 1. rewrite upd_app_new. change (Z.to_nat 1) with 1%nat. cbn [upd firstn skipn app].
  fold ufds_blk. set (mu := m ++ [ufds_blk]).
  assert (GU : forall g blk, nth_error m g = Some blk -> nth_error mu g = Some blk).
  { intros g blk Hg. unfold mu. rewrite nth_error_app1; [exact Hg|]. apply nth_error_Some. congruence. }
  assert (LU : forall g, (g < length m)%nat -> (g < length mu)%nat) by (intros g Hg; unfold mu; rewrite app_length; lia).
  (* poll(ufds, 1, -1) *)
  rewrite (chk_I32 (- (1))) by lia. xstep. change (wrap U64 1) with 1.
  rewrite callx_S, x_poll_none, (proj1 (Hk _ _)). unfold kern_poll.
  replace (nth_error mu (length m)) with (Some ufds_blk) by (symmetry; apply nth_error_app_new).
  unfold ufds_blk at 1. xstep.
  (* read(0, ibuf, 1) *)
  rewrite callx_S, x_read_none, (proj2 (Hk _ _)). unfold kern_read.
  rewrite (GU _ _ Hkt). cbn [map]. inversion Hkb as [|c0 r0 Hcb Hrb]; subst c0 r0.
  unfold is_key. destruct (Z.leb_spec 0 c); [|lia]. destruct (Z.ltb_spec c 256); [|lia]. cbn [andb].
  rewrite (store_ok mu G_ibuf ib 0 _ (GU _ _ Hib)) by lia. cbn [bind]. change (wrap U64 1) with 1. xstep. change (wrap I32 1) with 1. xstep.
  change (Z.to_nat 0) with 0%nat.
  set (ib1 := upd ib 0 (VInt (wrap I8 c))). set (m1 := upd (upd mu G_ibuf ib1) kt (map VInt rest)).
  assert (K1 : forall g, g <> G_ibuf -> g <> kt -> nth_error m1 g = nth_error mu g).
  { intros g Hg1 Hg2. unfold m1. apply nth_upd2; auto. }
  assert (Hcnt1 : cell_at m1 G_ibuf_cnt cnt) by (unfold cell_at; rewrite K1 by (try discriminate; congruence); exact (GU _ _ Hcnt)).
  assert (Hpos1 : cell_at m1 G_ibuf_pos pos) by (unfold cell_at; rewrite K1 by (try discriminate; congruence); exact (GU _ _ Hpos)).
  rewrite (store_cell m1 G_ibuf_cnt cnt _ Hcnt1). xstep.
  set (m2 := upd m1 G_ibuf_cnt [VInt 1]).
  assert (L1 : forall g, (g < length m)%nat -> (g < length m1)%nat) by (intros g Hg; unfold m1; rewrite len_upd2 by auto; auto).
  assert (Hpos2 : cell_at m2 G_ibuf_pos pos) by (apply cell_at_upd_other; [apply L1; exact Lcnt|discriminate|exact Hpos1]).
  change (wrap I32 0) with 0. rewrite (store_cell m2 G_ibuf_pos pos _ Hpos2). xstep.
  set (m3 := upd m2 G_ibuf_pos [VInt 0]).
  assert (L2 : forall g, (g < length m)%nat -> (g < length m2)%nat) by (intros g Hg; unfold m2; rewrite upd_length; auto).
  assert (K3 : forall g, g <> G_ibuf_cnt -> g <> G_ibuf_pos -> nth_error m3 g = nth_error m1 g).
  { intros g Hg1 Hg2. unfold m3, m2. apply nth_upd2; auto. }
  destruct (key_as_char c Hcb) as [Hzr Hzm].
  rewrite (read_tail_ok _ fuel _ _ _ m3 0 1 ib1 ip ic (wrap I8 c)); try lia.
  - rewrite Hzm. reflexivity.
  - apply cell_at_upd_same. apply L2. exact Lpos.
  - apply cell_at_upd_other; [apply L2; exact Lpos|discriminate|]. apply cell_at_upd_same. apply L1. exact Lcnt.
  - rewrite K3 by discriminate. unfold m1. rewrite mem_upd_other; [|rewrite upd_length; auto|congruence]. apply mem_upd_same. auto.
  - unfold ib1. apply nth_error_upd_same. exact Hibl.
  - unfold cell_at. rewrite K3 by discriminate. rewrite K1 by (try discriminate; congruence). exact (GU _ _ Hip).
  - rewrite K3 by discriminate. rewrite K1 by (try discriminate; congruence). exact (GU _ _ Hic).
Qed.

(* the end of the terminal's input: read(2) returns 0, term_read() returns -1, nothing is recorded, the queue is untouched *)
Theorem tr_term_read_eof ext kt m pos cnt d fuel :
  kernel_ext ext kt ->
  cell_at m G_ibuf_pos pos -> cell_at m G_ibuf_cnt cnt ->
  cnt <= pos -> -2147483648 <= cnt -> pos <= 2147483647 ->
  tin_at m kt [] ->
  callx ext cprog fuel (S (S d)) F_term_read [] m = Ok (VInt (-1), m ++ [ufds_blk]).
Proof.
  intros Hk Hpos Hcnt Hpc Hc1 Hc2 [Hkt Hkb].
  enter_read. xstep.
  cbn [do_builtin_m Z.ltb Z.compare]. change (Z.to_nat 3) with 3%nat. xstep.
  set (m0 := m ++ [repeat VUndef 3]).
  assert (G0 : forall g blk, nth_error m g = Some blk -> nth_error m0 g = Some blk).
  { intros g blk H. unfold m0. rewrite nth_error_app1; [exact H|]. apply nth_error_Some. congruence. }
  pose proof (G0 _ _ Hpos) as Hpos0. pose proof (G0 _ _ Hcnt) as Hcnt0.
  rewrite (load_cell m0 G_ibuf_pos pos Hpos0). xstep. rewrite (wrap_I32_id pos) by lia.
  rewrite (load_cell m0 G_ibuf_cnt cnt Hcnt0). xstep. rewrite (wrap_I32_id cnt) by lia.
  destruct (Z.leb_spec cnt pos); [|lia]. xstep.
  assert (Hu0 : nth_error m0 (length m) = Some (repeat VUndef 3)) by apply nth_error_app_new.
  change (0 + 3 * 0) with 0. change (wrap I32 0) with 0.
  rewrite (store_ok m0 (length m) _ 0 _ Hu0) by (cbn; lia). xstep.
  unfold m0 at 1. rewrite upd_app_new. cbn [repeat upd Z.to_nat firstn skipn app].
  set (ma := m ++ [[VInt 0; VUndef; VUndef]]).
  assert (Hu1 : nth_error ma (length m) = Some [VInt 0; VUndef; VUndef]) by apply nth_error_app_new.
  change (0 + 3 * 0 + 1 * 1) with 1. change (wrap I16 (wrap I16 1)) with 1.
  rewrite (store_ok ma (length m) _ 1 _ Hu1) by (cbn; lia). xstep.
  unfold ma at 1. rewrite upd_app_new. change (Z.to_nat 1) with 1%nat. cbn [upd firstn skipn app].
  fold ufds_blk. set (mu := m ++ [ufds_blk]).
  assert (GU : forall g blk, nth_error m g = Some blk -> nth_error mu g = Some blk).
  { intros g blk Hg. unfold mu. rewrite nth_error_app1; [exact Hg|]. apply nth_error_Some. congruence. }
  rewrite (chk_I32 (- (1))) by lia. xstep. change (wrap U64 1) with 1.
  rewrite callx_S, x_poll_none, (proj1 (Hk _ _)). unfold kern_poll.
  replace (nth_error mu (length m)) with (Some ufds_blk) by (symmetry; apply nth_error_app_new).
  unfold ufds_blk at 1. xstep.
  rewrite callx_S, x_read_none, (proj2 (Hk _ _)). unfold kern_read.
  rewrite (GU _ _ Hkt). cbn [map]. change (wrap U64 1) with 1. xstep. change (wrap I32 0) with 0. xstep.
  rewrite (chk_I32 (- (1))) by lia. xstep. reflexivity.
Qed.

(* ------------------------------------------------------------------ vi_read, vi_back: the push-back stack vi_buf *)
(* vi_buf[0 .. vi_buflen) holds the pushed-back keys, the one to be read next last; stk lists them in reading order *)
Definition VIBUF : nat := length gb_vi_buf.
Definition vibuf_at (m : mem) (stk : list Z) (vb : block) : Prop :=
  cell_at m G_vi_buflen (Z.of_nat (length stk)) /\ nth_error m G_vi_buf = Some vb /\ length vb = VIBUF /\
  firstn (length stk) vb = map VInt (rev stk) /\ (length stk <= VIBUF)%nat /\ Forall (fun k => -2147483648 <= k <= 2147483647) stk.

Lemma vibuf_top m k stk vb : vibuf_at m (k :: stk) vb -> nth_error vb (length stk) = Some (VInt k).
Proof.
  intros (_ & _ & Hl & Hf & Hle & _). cbn [length rev] in *.
  rewrite <- (nth_error_firstn_lt vb (S (length stk)) (length stk)) by lia. rewrite Hf, map_app.
  rewrite nth_error_app2 by (rewrite map_length, rev_length; lia). rewrite map_length, rev_length, Nat.sub_diag. reflexivity.
Qed.

(* a pushed-back key is read first: vi_buf[--vi_buflen] *)
Theorem tr_vi_read_stack ext m k stk vb d fuel :
  vibuf_at m (k :: stk) vb ->
  callx ext cprog fuel (S d) F_vi_read [] m = Ok (VInt k, upd m G_vi_buflen [VInt (Z.of_nat (length stk))]).
Proof.
  intros H. pose proof (vibuf_top _ _ _ _ H) as Ht. destruct H as (Hl & Hb & Hvl & Hf & Hle & Hr).
  unfold VIBUF in *. cbn [length] in *. change (length gb_vi_buf) with 128%nat in *.
  inversion Hr as [|k0 s0 Hk Hs]; subst k0 s0.
  enterx F_vi_read cf_vi_read. xstep.
  rewrite (load_cell m G_vi_buflen _ Hl). xstep. rewrite wrap_I32_id by lia.
  destruct (Z.eqb_spec (Z.of_nat (S (length stk))) 0); [lia|]. xstep.
  rewrite (load_cell m G_vi_buflen _ Hl). xstep. rewrite wrap_I32_id by lia.
  rewrite chk_I32 by lia. xstep. cbn [fst snd].
  rewrite (store_cell m G_vi_buflen _ _ Hl). xstep.
  replace (Z.of_nat (S (length stk)) + -1) with (Z.of_nat (length stk)) by lia.
  set (m1 := upd m G_vi_buflen _).
  assert (Hb1 : nth_error m1 G_vi_buf = Some vb) by (unfold m1; rewrite mem_upd_other; [exact Hb|exact (cell_lt _ _ _ Hl)|discriminate]).
  assert (Hld : load m1 G_vi_buf (0 + 1 * Z.of_nat (length stk)) = Ok (VInt k)).
  { unfold load. rewrite Hb1. replace (0 + 1 * Z.of_nat (length stk)) with (Z.of_nat (length stk)) by lia.
    destruct (Z.ltb_spec (Z.of_nat (length stk)) 0); [lia|]. rewrite Nat2Z.id, Ht. reflexivity. }
  rewrite Hld. xstep. rewrite wrap_I32_id by lia. reflexivity.
Qed.

(* nothing pushed back: vi_read() is term_read() *)
Theorem tr_vi_read_term ext m vb r d fuel :
  vibuf_at m [] vb -> callx ext cprog fuel (S d) F_term_read [] m = Ok r ->
  callx ext cprog fuel (S (S d)) F_vi_read [] m = Ok r.
Proof.
  intros (Hl & _) Hr. enterx F_vi_read cf_vi_read. xstep.
  rewrite (load_cell m G_vi_buflen _ Hl). xstep. change (wrap I32 0) with 0. xstep. rewrite Hr. destruct r. reflexivity.
Qed.

(* vi_back(c) pushes c: vi_buf[vi_buflen++] = c.  The guard of the C text compares with sizeof(vi_buf) = 512 bytes, the array has
   VIBUF = 128 ints: a push at depth 128 .. 511 is a store outside the array (the error EOob here), see the head of the file *)
Theorem tr_vi_back ext m c stk vb d fuel :
  vibuf_at m stk vb -> (length stk < VIBUF)%nat -> -2147483648 <= c <= 2147483647 ->
  callx ext cprog fuel (S d) F_vi_back [VInt c] m
  = Ok (VUndef, upd (upd m G_vi_buflen [VInt (Z.of_nat (S (length stk)))]) G_vi_buf (upd vb (length stk) (VInt c))).
Proof.
  intros (Hl & Hb & Hvl & Hf & Hle & Hr) Hlt Hc. unfold VIBUF in *. change (length gb_vi_buf) with 128%nat in *.
  enterx F_vi_back cf_vi_back. xstep.
  rewrite (load_cell m G_vi_buflen _ Hl). xstep. rewrite wrap_I32_id, wrap_U64_id by lia.
  destruct (Z.ltb_spec (Z.of_nat (length stk)) 512); [|lia]. xstep.
  rewrite (load_cell m G_vi_buflen _ Hl). xstep. rewrite wrap_I32_id by lia. rewrite chk_I32 by lia. xstep. cbn [fst snd].
  rewrite (store_cell m G_vi_buflen _ _ Hl). xstep.
  set (m1 := upd m G_vi_buflen _).
  assert (Hb1 : nth_error m1 G_vi_buf = Some vb) by (unfold m1; rewrite mem_upd_other; [exact Hb|exact (cell_lt _ _ _ Hl)|discriminate]).
  replace (0 + 1 * Z.of_nat (length stk)) with (Z.of_nat (length stk)) by lia.
  rewrite (store_ok m1 G_vi_buf vb) by (try exact Hb1; lia). xstep. rewrite wrap_I32_id by lia. rewrite Nat2Z.id.
  unfold m1. replace (Z.of_nat (length stk) + 1) with (Z.of_nat (S (length stk))) by lia. reflexivity.
Qed.

(* ------------------------------------------------------------------ memory bookkeeping *)
Lemma upd_other_some {A} (l : list A) n k x y : k <> n -> nth_error l k = Some y -> nth_error (upd l n x) k = Some y.
Proof.
  intros Hne H. assert (Hk : (k < length l)%nat) by (apply nth_error_Some; congruence).
  destruct (lt_dec n (length l)) as [L|L]; [rewrite nth_error_upd_other by assumption; exact H|].
  unfold upd. rewrite firstn_all2, skipn_all2 by lia. rewrite nth_error_app1 by exact Hk. exact H.
Qed.
Lemma upd_same_some {A} (l : list A) n x y : nth_error l n = Some y -> nth_error (upd l n x) n = Some x.
Proof. intro H. apply nth_error_upd_same. apply nth_error_Some. congruence. Qed.
Lemma app_some {A} (l r : list A) k y : nth_error l k = Some y -> nth_error (l ++ r) k = Some y.
Proof. intro H. rewrite nth_error_app1; [exact H|]. apply nth_error_Some. congruence. Qed.
Lemma upd_length_ge {A} (l : list A) n x : (length l <= length (upd l n x))%nat.
Proof.
  destruct (lt_dec n (length l)) as [L|L]; [rewrite upd_length by exact L; lia|].
  unfold upd. rewrite firstn_all2, skipn_all2 by lia. rewrite app_length. lia.
Qed.
Lemma upd_other_lt {A} (l : list A) n k x : k <> n -> (k < length l)%nat -> nth_error (upd l n x) k = nth_error l k.
Proof.
  intros Hne Hk. destruct (nth_error l k) as [y|] eqn:E; [apply upd_other_some; assumption|].
  apply nth_error_None in E. lia.
Qed.
(* block g of a memory built by upd / ++ from one in which the blocks are known *)
Ltac neq := solve [discriminate | congruence | assumption | (apply not_eq_sym; assumption)].
Ltac blk :=
  unfold cell_at in *;
  repeat first [ eassumption
               | apply upd_other_some; [neq|]
               | eapply upd_same_some
               | apply app_some ].

(* ------------------------------------------------------------------ the key source as a whole: vi_buf, ibuf / icmd, the terminal *)
Definition key_ok (k : Z) : Prop := -1 <= k <= 255.
Record src := mkSrc { s_stk : list Z;                       (* keys pushed back with vi_back, the next one first *)
                      s_pos : Z; s_cnt : Z; s_ib : block;   (* ibuf_pos, ibuf_cnt, ibuf *)
                      s_ip : Z; s_ic : block;               (* icmd_pos, icmd: the record of the command being read *)
                      s_tin : list Z }.                     (* the bytes the terminal will still deliver *)
Definition chars_ok (l : list val) : Prop := Forall (fun v => exists z, v = VInt z /\ -128 <= z <= 127) l.
Definition kt_fresh (kt : nat) : Prop :=
  kt <> G_vi_buflen /\ kt <> G_vi_buf /\ kt <> G_ibuf /\ kt <> G_ibuf_pos /\ kt <> G_ibuf_cnt /\ kt <> G_icmd /\ kt <> G_icmd_pos.
Definition src_at (kt : nat) (m : mem) (s : src) : Prop :=
  (exists vb, vibuf_at m (s_stk s) vb) /\ term_at m (s_pos s) (s_cnt s) (s_ib s) (s_ip s) (s_ic s) /\ tin_at m kt (s_tin s) /\
  chars_ok (unread (s_pos s) (s_cnt s) (s_ib s)) /\ Forall key_ok (s_stk s).

(* the record: icmd[icmd_pos++] = c while there is room *)
Definition rec_ip (ip : Z) : Z := if ip <? ICMDSZ then ip + 1 else ip.
Definition rec_ic (ip : Z) (ic : block) (z : Z) : block := if ip <? ICMDSZ then upd ic (Z.to_nat ip) (VInt z) else ic.
(* vi_read(): a pushed-back key, else the head of the queue, else one byte from the terminal (recorded in the last two cases), else -1 *)
Definition vi_read_m (s : src) : Z * src :=
  match s_stk s with
  | k :: st => (k, mkSrc st (s_pos s) (s_cnt s) (s_ib s) (s_ip s) (s_ic s) (s_tin s))
  | [] =>
    if s_pos s <? s_cnt s then
      match nth_error (s_ib s) (Z.to_nat (s_pos s)) with
      | Some (VInt z) => (z mod 256, mkSrc [] (s_pos s + 1) (s_cnt s) (s_ib s) (rec_ip (s_ip s)) (rec_ic (s_ip s) (s_ic s) z) (s_tin s))
      | _ => (-1, s)
      end
    else match s_tin s with
      | c :: r => (c, mkSrc [] 1 1 (upd (s_ib s) 0 (VInt (wrap I8 c))) (rec_ip (s_ip s)) (rec_ic (s_ip s) (s_ic s) (wrap I8 c)) r)
      | [] => (-1, s)
      end
  end.
Definition vi_back_m (c : Z) (s : src) : src := mkSrc (c :: s_stk s) (s_pos s) (s_cnt s) (s_ib s) (s_ip s) (s_ic s) (s_tin s).

(* the keys vi_read() will deliver, in order *)
Definition cell_key (v : val) : Z := match v with VInt z => z mod 256 | _ => 0 end.
Definition keys (s : src) : list Z := s_stk s ++ map cell_key (unread (s_pos s) (s_cnt s) (s_ib s)) ++ s_tin s.

(* what a call leaves alone: every block of the memory before it other than the eight blocks of the key source *)
Definition src_block (kt g : nat) : Prop :=
  g = kt \/ g = G_vi_buflen \/ g = G_vi_buf \/ g = G_ibuf \/ g = G_ibuf_pos \/ g = G_ibuf_cnt \/ g = G_icmd \/ g = G_icmd_pos.
Definition keeps (kt : nat) (m m' : mem) : Prop :=
  (length m <= length m')%nat /\ forall g, (g < length m)%nat -> ~ src_block kt g -> nth_error m' g = nth_error m g.
Lemma keeps_refl kt m : keeps kt m m.
Proof. split; [lia|reflexivity]. Qed.
Lemma keeps_trans kt m1 m2 m3 : keeps kt m1 m2 -> keeps kt m2 m3 -> keeps kt m1 m3.
Proof. intros [L1 K1] [L2 K2]. split; [lia|]. intros g Hg Hn. rewrite K2 by (try lia; exact Hn). apply K1; assumption. Qed.
Lemma keeps_upd kt m m' g x : keeps kt m m' -> src_block kt g -> keeps kt m (upd m' g x).
Proof.
  intros [L K] Hs. split; [pose proof (upd_length_ge m' g x); lia|]. intros g' Hg' Hn.
  rewrite upd_other_lt; [apply K; assumption| |lia]. intro E. subst g'. exact (Hn Hs).
Qed.
Lemma keeps_app kt m x : keeps kt m (m ++ x).
Proof. split; [rewrite app_length; lia|]. intros g Hg _. apply nth_error_app1. exact Hg. Qed.

Lemma unread_cons pos cnt ib v : 0 <= pos < cnt -> nth_error ib (Z.to_nat pos) = Some v ->
  unread pos cnt ib = v :: unread (pos + 1) cnt ib.
Proof.
  intros H Hv. unfold unread. rewrite (skipn_cons_nth_error ib _ _ Hv).
  replace (Z.to_nat (cnt - pos)) with (S (Z.to_nat (cnt - (pos + 1)))) by lia. cbn [firstn].
  replace (Z.to_nat (pos + 1)) with (S (Z.to_nat pos)) by lia. reflexivity.
Qed.
Lemma unread_head pos cnt ib : 0 <= pos < cnt -> cnt <= Z.of_nat (length ib) -> chars_ok (unread pos cnt ib) ->
  exists z, nth_error ib (Z.to_nat pos) = Some (VInt z) /\ -128 <= z <= 127.
Proof.
  intros H Hl Hc. destruct (nth_error ib (Z.to_nat pos)) as [v|] eqn:E; [|apply nth_error_None in E; lia].
  rewrite (unread_cons pos cnt ib v H E) in Hc. inversion Hc as [|v0 l0 (z & -> & Hz) _]. exists z. split; [reflexivity|exact Hz].
Qed.
Lemma unread_empty pos cnt ib : cnt <= pos -> unread pos cnt ib = [].
Proof. intro H. unfold unread. replace (Z.to_nat (cnt - pos)) with 0%nat by lia. reflexivity. Qed.

(* the keys as a stream: a read takes the head (or answers -1 at the end), a push-back conses *)
Lemma vi_read_keys kt m s : src_at kt m s ->
  fst (vi_read_m s) = hd (-1) (keys s) /\ keys (snd (vi_read_m s)) = tl (keys s).
Proof.
  destruct s as [stk pos cnt ib ip ic tin]. intros (_ & T & _ & Hc & _). destruct T as (_ & _ & _ & Hlen & Hpc & Hcl & _).
  unfold vi_read_m, keys. cbn [s_stk s_pos s_cnt s_ib s_ip s_ic s_tin] in *. destruct stk as [|k st]; [|split; reflexivity]. cbn [app].
  destruct (Z.ltb_spec pos cnt) as [Hlt|Hge].
  - assert (Hl2 : cnt <= Z.of_nat (length ib)) by lia.
    destruct (unread_head _ _ _ (conj (proj1 Hpc) Hlt) Hl2 Hc) as (z & Hz & _). rewrite Hz.
    rewrite (unread_cons _ _ _ _ (conj (proj1 Hpc) Hlt) Hz). cbn [fst snd s_stk s_pos s_cnt s_ib s_tin map app hd tl cell_key]. split; reflexivity.
  - rewrite (unread_empty _ _ _ Hge). cbn [map app]. destruct tin as [|c r]; cbn [fst snd s_stk s_pos s_cnt s_ib s_tin hd tl app].
    + rewrite (unread_empty _ _ _ Hge). split; reflexivity.
    + rewrite unread_empty by lia. split; reflexivity.
Qed.
Lemma vi_back_keys c s : keys (vi_back_m c s) = c :: keys s.
Proof. reflexivity. Qed.

(* ------------------------------------------------------------------ one vi_read() / vi_back() on the C text moves the source as the model says *)
Ltac open_src H :=
  let V := fresh "V" in let T := fresh "T" in let K := fresh "K" in let C := fresh "C" in let O := fresh "O" in
  destruct H as (V & T & K & C & O);
  let vb := fresh "vb" in destruct V as (vb & Vl & Vb & Vn & Vf & Vle & Vr);
  destruct T as (Tpos & Tcnt & Tib & Tlen & Tpc & Tc & Tip & Tic & Ticl & Tipr);
  destruct K as (Kt & Kb).
Ltac open_fresh H := destruct H as (F1 & F2 & F3 & F4 & F5 & F6 & F7).

Theorem read_step ext kt m s d fuel : kernel_ext ext kt -> kt_fresh kt -> src_at kt m s ->
  exists m', callx ext cprog fuel (S (S (S d))) F_vi_read [] m = Ok (VInt (fst (vi_read_m s)), m') /\
             src_at kt m' (snd (vi_read_m s)) /\ keeps kt m m'.
Proof.
  intros Hk Hf Hs. destruct s as [stk pos cnt ib ip ic tin].
  pose proof Hs as Hs0. open_src Hs. open_fresh Hf. cbn [s_stk s_pos s_cnt s_ib s_ip s_ic s_tin] in *.
  unfold vi_read_m. cbn [s_stk s_pos s_cnt s_ib s_ip s_ic s_tin].
  destruct stk as [|k st].
  2:{ (* a pushed-back key *)
    exists (upd m G_vi_buflen [VInt (Z.of_nat (length st))]). cbn [fst snd].
    split; [apply (tr_vi_read_stack ext m k st vb); repeat split; assumption|].
    split; [|apply keeps_upd; [apply keeps_refl|unfold src_block; tauto]].
    unfold src_at. cbn [s_stk s_pos s_cnt s_ib s_ip s_ic s_tin]. cbn [length rev] in *.
    inversion O as [|k0 s0 Ok1 Os]; subst k0 s0. inversion Vr as [|k0 s0 Vk Vs]; subst k0 s0.
    repeat split; try assumption; try lia.
    - exists vb. repeat split; try assumption; try lia; [blk|blk|].
      replace (firstn (length st) vb) with (firstn (length st) (firstn (S (length st)) vb)) by (rewrite firstn_firstn; f_equal; lia).
      rewrite Vf, map_app, firstn_app.
      rewrite map_length, rev_length, Nat.sub_diag. cbn [firstn]. rewrite app_nil_r. apply firstn_all2. rewrite map_length, rev_length. lia.
    - blk.
    - blk.
    - blk.
    - blk.
    - blk.
    - blk. }
  cbn [length] in *.
  destruct (Z.ltb_spec pos cnt) as [Hlt|Hge].
  - (* the head of the queue *)
    assert (Hl2 : cnt <= Z.of_nat (length ib)) by lia.
    destruct (unread_head _ _ _ (conj (proj1 Tpc) Hlt) Hl2 C) as (z & Hz & Hzr). rewrite Hz. cbn [fst snd].
    exists (read_mem m pos ip ic z).
    split.
    { apply (tr_vi_read_term ext m vb); [repeat split; assumption|]. apply callx_mono.
      apply (tr_term_read_queued m pos cnt ib ip ic z); try assumption; unfold IBUFSZ in *; lia. }
    rewrite (unread_cons _ _ _ _ (conj (proj1 Tpc) Hlt) Hz) in C. inversion C as [|v0 l0 _ C1]; subst v0 l0.
    unfold read_mem, rec_ip, rec_ic. destruct (Z.ltb_spec ip ICMDSZ) as [Hl|Hl].
    + split.
      * unfold src_at, term_at, tin_at. cbn [s_stk s_pos s_cnt s_ib s_ip s_ic s_tin length].
        repeat split; try assumption; try lia; try (rewrite upd_length by lia; assumption); try blk.
        exists vb. repeat split; try assumption; try lia; blk.
      * repeat apply keeps_upd; try apply keeps_app; unfold src_block; tauto.
    + split.
      * unfold src_at, term_at, tin_at. cbn [s_stk s_pos s_cnt s_ib s_ip s_ic s_tin length].
        repeat split; try assumption; try lia; try blk.
        exists vb. repeat split; try assumption; try lia; blk.
      * repeat apply keeps_upd; try apply keeps_app; unfold src_block; tauto.
  - destruct tin as [|c r]; cbn [fst snd].
    + (* the end of the input *)
      exists (m ++ [ufds_blk]). split.
      { apply (tr_vi_read_term ext m vb); [repeat split; assumption|].
        apply (tr_term_read_eof ext kt m pos cnt); try assumption; try lia; [unfold IBUFSZ in *; lia|split; assumption]. }
      split; [|apply keeps_app].
      unfold src_at, term_at, tin_at. cbn [s_stk s_pos s_cnt s_ib s_ip s_ic s_tin length].
      repeat split; try assumption; try lia; try blk.
      exists vb. repeat split; try assumption; try lia; blk.
    + (* one byte from the terminal *)
      exists (refill_mem m kt ib ip ic c r). split.
      { apply (tr_vi_read_term ext m vb); [repeat split; assumption|].
        apply (tr_term_read_refill ext kt m pos cnt ib ip ic c r); try assumption; try lia; try (unfold IBUFSZ in *; lia).
        split; assumption. }
      inversion Kb as [|c0 r0 Kc Kr]; subst c0 r0. destruct (key_as_char c Kc) as [Hzr Hzm].
      assert (Hib0 : (0 < length ib)%nat) by (unfold IBUFSZ in *; lia).
      unfold refill_mem, tail_mem, rec_ip, rec_ic. change (0 + 1) with 1. destruct (Z.ltb_spec ip ICMDSZ) as [Hl|Hl].
      * split.
        -- unfold src_at, term_at, tin_at. cbn [s_stk s_pos s_cnt s_ib s_ip s_ic s_tin length].
           rewrite unread_empty by lia.
           repeat split; try assumption; try lia; try (rewrite upd_length by lia; assumption); try (unfold IBUFSZ in *; lia); try blk.
           ++ exists vb. repeat split; try assumption; try lia; blk.
           ++ constructor.
        -- repeat apply keeps_upd; try apply keeps_app; unfold src_block; tauto.
      * split.
        -- unfold src_at, term_at, tin_at. cbn [s_stk s_pos s_cnt s_ib s_ip s_ic s_tin length].
           rewrite unread_empty by lia.
           repeat split; try assumption; try lia; try (rewrite upd_length by lia; assumption); try (unfold IBUFSZ in *; lia); try blk.
           ++ exists vb. repeat split; try assumption; try lia; blk.
           ++ constructor.
        -- repeat apply keeps_upd; try apply keeps_app; unfold src_block; tauto.
Qed.

Theorem back_step ext kt m s c d fuel : kt_fresh kt -> src_at kt m s -> (length (s_stk s) < VIBUF)%nat -> key_ok c ->
  exists m', callx ext cprog fuel (S d) F_vi_back [VInt c] m = Ok (VUndef, m') /\ src_at kt m' (vi_back_m c s) /\ keeps kt m m'.
Proof.
  intros Hf Hs Hlt Hc. destruct s as [stk pos cnt ib ip ic tin].
  open_src Hs. open_fresh Hf. cbn [s_stk s_pos s_cnt s_ib s_ip s_ic s_tin] in *. unfold key_ok in Hc.
  exists (upd (upd m G_vi_buflen [VInt (Z.of_nat (S (length stk)))]) G_vi_buf (upd vb (length stk) (VInt c))).
  split; [apply (tr_vi_back ext m c stk vb); try lia; repeat split; assumption|].
  split; [|repeat apply keeps_upd; try apply keeps_refl; unfold src_block; tauto].
  unfold VIBUF in *. change (length gb_vi_buf) with 128%nat in *.
  unfold src_at, vi_back_m, term_at, tin_at. cbn [s_stk s_pos s_cnt s_ib s_ip s_ic s_tin length].
  repeat split; try assumption; try lia; try blk.
  - exists (upd vb (length stk) (VInt c)). unfold vibuf_at. cbn [length rev].
    repeat split; try lia; try blk.
    + rewrite upd_length by lia. exact Vn.
    + unfold upd. rewrite firstn_app, firstn_firstn, Nat.min_r, firstn_length, Nat.min_l by lia.
      replace (S (length stk) - length stk)%nat with 1%nat by lia. cbn [firstn]. rewrite Vf, map_app. reflexivity.
    + constructor; [lia|exact Vr].
  - constructor; [exact Hc|exact O].
Qed.

(* ------------------------------------------------------------------ oracles for the calls of vi_read / vi_back written in vi.c *)
(* the calls of vi_read() / vi_back() in vi.c are calls to X_vi_read / X_vi_back (tools/c2clite.d/99zzzzz_repeat.list, @extern); the
   theorems about vi_prefix, vi_yankbuf, vc_execute are stated for EVERY oracle that answers the two as the model says: *)
Definition oracle := nat -> list val -> mem -> res (val * mem).
Definition reads_ok (ext : oracle) (kt : nat) : Prop :=
  forall m s, src_at kt m s ->
  exists m', ext X_vi_read [] m = Ok (VInt (fst (vi_read_m s)), m') /\ src_at kt m' (snd (vi_read_m s)) /\ keeps kt m m'.
Definition back_ok (ext : oracle) (kt : nat) : Prop :=
  forall m s c, src_at kt m s -> (length (s_stk s) < VIBUF)%nat -> key_ok c ->
  exists m', ext X_vi_back [VInt c] m = Ok (VUndef, m') /\ src_at kt m' (vi_back_m c s) /\ keeps kt m m'.
(* ... and the oracle that LINKS the two indices to the translated vi_read / vi_back over the kernel is one of them *)
Definition link (ext : oracle) (fuel d : nat) : oracle :=
  fun f args m => if Nat.eqb f X_vi_read then callx ext cprog fuel d F_vi_read args m
                  else if Nat.eqb f X_vi_back then callx ext cprog fuel d F_vi_back args m else ext f args m.
Theorem link_reads_ok ext kt fuel d : kernel_ext ext kt -> kt_fresh kt -> reads_ok (link ext fuel (S (S (S d)))) kt.
Proof. intros Hk Hf m s Hs. exact (read_step ext kt m s d fuel Hk Hf Hs). Qed.
Theorem link_back_ok ext kt fuel d : kt_fresh kt -> back_ok (link ext fuel (S (S (S d)))) kt.
Proof. intros Hf m s c Hs Hl Hc. exact (back_step ext kt m s c (S (S d)) fuel Hf Hs Hl Hc). Qed.
Lemma link_other ext fuel d f args m : f <> X_vi_read -> f <> X_vi_back -> link ext fuel d f args m = ext f args m.
Proof. intros H1 H2. unfold link. rewrite (proj2 (Nat.eqb_neq _ _) H1), (proj2 (Nat.eqb_neq _ _) H2). reflexivity. Qed.

(* after a read there is room on the stack for one push-back (the pattern of vi_yankbuf, vi_prefix: read, then back) *)
Lemma read_room kt m s : src_at kt m s -> (length (s_stk (snd (vi_read_m s))) < VIBUF)%nat.
Proof.
  intros ((vb & _ & _ & _ & _ & Hle & _) & _). unfold vi_read_m. destruct (s_stk s) as [|k st] eqn:E; cbn [length] in *.
  - assert (0 < VIBUF)%nat by (vm_compute; lia).
    destruct (s_pos s <? s_cnt s); [destruct (nth_error _ _) as [[|z0|b0 o0]|]|destruct (s_tin s)]; cbn [snd s_stk length]; try rewrite E; cbn [length]; lia.
  - cbn [snd s_stk]. lia.
Qed.
Lemma read_key_ok kt m s : src_at kt m s -> key_ok (fst (vi_read_m s)).
Proof.
  intros Hs. destruct s as [stk pos cnt ib ip ic tin]. open_src Hs. cbn [s_stk s_pos s_cnt s_ib s_ip s_ic s_tin] in *.
  unfold vi_read_m, key_ok. cbn [s_stk s_pos s_cnt s_ib s_ip s_ic s_tin].
  destruct stk as [|k st]; [|inversion O; assumption].
  destruct (Z.ltb_spec pos cnt).
  - destruct (nth_error ib (Z.to_nat pos)) as [[|z|b0 o0]|]; cbn [fst]; try lia.
  - destruct tin as [|c r]; cbn [fst]; [lia|]. inversion Kb; lia.
Qed.
