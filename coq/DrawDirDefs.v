(* DrawDirDefs.v -- C19, the text direction: the option `td` (xtd) as state, dir.c dir_context() (the base direction of a
   line under it), led.c led_pos() / vi.c vi_pos() (screen cell of a visual position for either base direction), the cell
   array led_render() fills (off[]), and led_prompt(): the prompt line is edited under td = +2 and the option is put back
   on every way out -- answered (Enter) or cancelled (ESC, ^C, end of input).  The row image of DrawDefs.v (`f i`) becomes
   a function of (td, xleft, xcols, line i): a partial redraw and the full repaint draw the same rows exactly when they run
   under the same td.  Executable; no proofs here (DrawDirProps.v). *)
From Coq Require Import List Arith ZArith NArith Bool.
From NV Require Import TermEmu DrawDefs.
Import ListNotations.
Local Open Scope Z_scope.

(* dir.c dir_context(s) under xtd = td.  hi = the first byte of s has its high bit set; m = the direction of the first
   pattern of conf.h dircontexts[] that matches s (rset_find + conf_dircontext), None if none does.
     if (xtd > +1) return +1;  if (xtd < -1) return -1;
     if (xtd == 0 && ~((unsigned char) *s) & 0x80) return +1;
     if (dir_rsctx) found = rset_find(dir_rsctx, s, 0, NULL, 0);
     if (!conf_dircontext(found, NULL, &dir)) return dir;
     return xtd < 0 ? -1 : +1; *)
Definition dir_context (td : Z) (hi : bool) (m : option Z) : Z :=
  if 1 <? td then 1
  else if td <? -1 then -1
  else if (td =? 0) && negb hi then 1
  else match m with Some d => d | None => if td <? 0 then -1 else 1 end.

(* led.c led_pos(dir, pos, beg, end) *)
Definition led_pos (dir pos beg en : Z) : Z := if 0 <=? dir then pos - beg else en - pos - 1.
(* vi.c vi_pos(s, pos) with ctx = dir_context(s): the terminal column of visual position pos *)
Definition vi_pos (ctx pos xleft xcols : Z) : Z := if 0 <=? ctx then pos - xleft else xleft + xcols - pos - 1.

Section Rows.
Variable G : Type.       (* what a cell shows (the character; its attribute) *)

(* a buffer line as led_render() sees it: the two inputs of dir_context and, per character, ren_position()'s visual position,
   ren_cwid()'s width and the glyph *)
Record rline := mkLine { l_hi : bool; l_match : option Z; l_chars : list (Z * Z * G) }.
Definition line_dir (td : Z) (l : rline) : Z := dir_context td (l_hi l) (l_match l).

(* led_render(), "initialise off[] using pos[]": a character whose first and last cell are inside [cbeg, cend) takes the
   cells led_pos(ctx, pos + j) for j < wid *)
Definition place (ctx cbeg cend : Z) (cells : list (option G)) (c : Z * Z * G) : list (option G) :=
  let '(p, w, g) := c in
  let n := cend - cbeg in
  let b := led_pos ctx p cbeg cend in
  let e := led_pos ctx (p + w - 1) cbeg cend in
  if (0 <=? b) && (b <? n) && (0 <=? e) && (e <? n)
  then fold_left (fun cs j => set_nth (Z.to_nat (led_pos ctx (p + Z.of_nat j) cbeg cend)) (Some g) cs) (seq 0 (Z.to_nat w)) cells
  else cells.
(* the row led_print(s, row, xleft, ..) draws under td: cell -> the character shown there *)
Definition render_row (td xleft xcols : Z) (l : rline) : list (option G) :=
  fold_left (place (line_dir td l) xleft (xleft + xcols)) (l_chars l) (repeat None (Z.to_nat xcols)).
(* vi_drawrow(i) under td: the row image `f` of DrawDefs.v *)
Definition row_img (td xleft xcols : Z) (lines : nat -> rline) : nat -> list (option G) :=
  fun i => render_row td xleft xcols (lines i).
End Rows.

(* ---------- the prompt ---------- *)
(* the editor state a prompt can touch: the option and the pending input *)
Record ed := mkEd { e_td : Z; e_keys : list N }.

(* led.c td_set(): set xtd and return its old value *)
Definition td_set (s : ed) (v : Z) : Z * ed := (e_td s, mkEd v (e_keys s)).

(* led_line(): characters are appended until Enter ('\n' or '\r' mapped to it), ESC or ^C (TK_INT), or the input ends
   (term_read() < 0, also TK_INT); returns the text, the key that ended the line, the rest of the input *)
Fixpoint led_line_keys (acc keys : list N) : list N * N * list N :=
  match keys with
  | [] => (acc, 0%N, [])
  | k :: r => if ((k =? 10) || (k =? 13))%N then (acc, 10%N, r)
              else if ((k =? 27) || (k =? 3))%N then (acc, k, r)
              else led_line_keys (acc ++ [k]) r
  end.
Definition led_line (s : ed) : ed * list N * N :=
  let '(txt, key, rest) := led_line_keys [] (e_keys s) in (mkEd (e_td s) rest, txt, key).

(* led_prompt(pref, post, ..):
     int td = td_set(+2);
     char *s = led_line(pref, post, "", 0, &left, &key, kmap, syn, hist, NULL);
     td_set(td);
     if (key == '\n') { ... return pref + s + post; }
     return NULL; *)
Definition led_prompt (pref post : list N) (s : ed) : ed * option (list N) :=
  let '(td, s1) := td_set s 2 in
  let '(s2, txt, key) := led_line s1 in
  let '(_, s3) := td_set s2 td in
  if (key =? 10)%N then (s3, Some (pref ++ txt ++ post)) else (s3, None).
(* NOT led.c: the restructured variant with an early return for the cancelled prompt placed before the option is put
   back -- here because the theorems say where it goes wrong *)
Definition led_prompt_early (pref post : list N) (s : ed) : ed * option (list N) :=
  let '(td, s1) := td_set s 2 in
  let '(s2, txt, key) := led_line s1 in
  if negb (key =? 10)%N then (s2, None)
  else let '(_, s3) := td_set s2 td in (s3, Some (pref ++ txt ++ post)).

(* the base direction the prompt's own line is edited and drawn in (led_printparts under td = +2) *)
Definition prompt_line_dir (hi : bool) (m : option Z) : Z := dir_context 2 hi m.

(* a session of prompts: `:` `/` `?` `!` and "[enter to continue]" all go through led_prompt *)
Fixpoint prompts (n : nat) (s : ed) : ed :=
  match n with
  | O => s
  | S n => prompts n (fst (led_prompt [] [] s))
  end.
