(* Properties_C18.v -- C18: bidi reordering is a permutation reversing exactly the opposite-direction
   runs; letter shaping.  Statements only; every proof is `exact <lemma>`; Print Assumptions under
   each.  Model: DirDefs.v (dir.c), ShapeDefs.v (shaping of uc.c) over the GENERATED tables.
   The pattern matcher is a parameter: `cm b e dir` at the level of character spans (dir_fix),
   `raw b e ctx flg` = the answer of rset_find at the level of dir_match / dir_reorder.  What the
   theorems need of it is `cm_ok`: the spans are in bounds and the match is not empty. *)
From Coq Require Import List NArith ZArith Bool Permutation.
From NV Require Import Bytes UcDefs UcSpec GenUcTables GenConf GenConsts DirDefs RenDefs ShapeDefs DirProps ShapeProps.
From NV Require Import ReSyntax ReParse ReVM ReSem ReProps8 ReNullable.      (* the regex model of C10/C11, for the two theorems on the marks *)
Import ListNotations.

(* for every line, option setting and matcher whatsoever: the visual order is a permutation of
   0..n-1; and the line terminator stays last (the latter needs the spans to be in bounds) *)
Theorem C18_permutation : forall s xtd ctxfound raw ord,
  dir_reorder s xtd ctxfound raw (seq 0 (uc_slen s)) = Some ord ->
  Permutation ord (seq 0 (uc_slen s)) /\
  (((0 <? uc_slen s)%nat && (nthb s (nth (uc_slen s - 1) (uc_chop s) 0%nat) =? 10)%N = true) ->
   cm_ok (dir_match s (uc_chop s) raw) (uc_slen s) ->
   nth (uc_slen s - 1) ord 0%nat = (uc_slen s - 1)%nat).
Proof. exact dir_reorder_spec. Qed.
Print Assumptions C18_permutation.

(* the same for the loop itself, from any array, with no hypothesis on the matcher *)
Theorem C18_permutation_fix : forall cm fuel ord dir b e ord',
  dir_fix cm fuel ord dir b e = Some ord' -> Permutation ord' ord.
Proof. exact dir_fix_perm. Qed.
Print Assumptions C18_permutation_fix.

(* ren_position's use of dir_reorder: the hypothesis of the C17 theorems holds for the model of dir.c *)
Theorem C18_ren_hypothesis : forall xtd ctxfound raw s,
  Permutation (dr_of xtd ctxfound raw s (seq 0 (uc_slen s))) (seq 0 (uc_slen s)).
Proof. exact dr_of_perm. Qed.
Print Assumptions C18_ren_hypothesis.

(* the hypothesis cm_ok, discharged by evaluation: `tr` is the list of answers of rset_find that
   harness/probe_ren.c recorded for a line, raw_of tr the matcher the model is run with.  If the
   executable check matcher_ok s tr returns true -- the driver evaluates it on every case of the
   correspondence run and reports MATCHER-NOT-OK otherwise -- then cm_ok holds for that matcher, and
   the reordering of the line terminates, is a permutation and keeps the terminator last with no
   hypothesis left *)
Theorem C18_matcher_checked : forall s tr N,
  matcher_ok s tr = true -> cm_ok (dir_match s (uc_chop s) (raw_of tr)) N.
Proof. exact matcher_checked. Qed.
Print Assumptions C18_matcher_checked.

Theorem C18_permutation_checked : forall s xtd ctxfound tr,
  matcher_ok s tr = true ->
  exists ord, dir_reorder s xtd ctxfound (raw_of tr) (seq 0 (uc_slen s)) = Some ord /\
    Permutation ord (seq 0 (uc_slen s)) /\
    (((0 <? uc_slen s)%nat && (nthb s (nth (uc_slen s - 1) (uc_chop s) 0%nat) =? 10)%N = true) ->
     nth (uc_slen s - 1) ord 0%nat = (uc_slen s - 1)%nat).
Proof. exact dir_reorder_checked. Qed.
Print Assumptions C18_permutation_checked.

(* termination: when every match is in bounds and non-empty the loop and its recursion finish
   within the fuel dir_reorder passes (out-of-fuel is unreachable) *)
Theorem C18_terminates : forall s xtd ctxfound raw ord0,
  cm_ok (dir_match s (uc_chop s) raw) (uc_slen s) -> exists ord, dir_reorder s xtd ctxfound raw ord0 = Some ord.
Proof. exact dir_reorder_total. Qed.
Print Assumptions C18_terminates.

Theorem C18_terminates_fix : forall cm N, cm_ok cm N -> forall fuel ord dir b e, (e <= N)%nat -> (e - b < fuel)%nat ->
  exists ord', dir_fix cm fuel ord dir b e = Some ord'.
Proof. exact dir_fix_terminates. Qed.
Print Assumptions C18_terminates_fix.

(* no configured mark matches syntactically without consuming a character (checked on the generated
   patterns by a nullable analysis of the ERE syntax) *)
Theorem C18_marks_not_nullable : forallb (fun m : Z * Z * Z * list N => negb (pat_nullable (snd m))) dirmarks = true.
Proof. exact marks_not_nullable. Qed.
Print Assumptions C18_marks_not_nullable.

(* the same through the regex model (coq/ReNullable.v, C10/C11's group): the tree the model's parser builds of every
   configured mark is not nullable by the tree-level analysis tnull, which IS proved sound against the set semantics
   of the regex model (ReNullable.tnull_sound), and the string-level pat_nullable above agrees with it on every
   configured mark.  pat_nullable is claimed on the generated table only: it is not sound for every pattern
   (ReNullable.pat_nullable_refuted: "[[:alpha:]]*" -- its bracket scanner does not know [:class:] items) *)
Theorem C18_marks_not_nullable_sound :
  forallb (fun m : Z * Z * Z * list N =>
             match mark_tree (snd m) with
             | Some x => negb (tnull x) && Bool.eqb (pat_nullable (snd m)) (tnull x)
             | None => false
             end) dirmarks = true.
Proof. exact dirmarks_not_nullable. Qed.
Print Assumptions C18_marks_not_nullable_sound.

(* hence every derivation of a configured mark in the regex model consumes at least one byte: the non-empty-match
   half of the hypothesis cm_ok of C18_terminates / C18_runs_reversed, for the configured marks, from a sound analysis *)
Theorem C18_marks_advance : forall m x flg line s s', In m dirmarks -> mark_tree (snd m) = Some x ->
  ReSem.M st (atom_step flg line) mark_step (tr x) s s' -> Jm line s -> (fst s < fst s')%nat.
Proof. exact dirmarks_advance. Qed.
Print Assumptions C18_marks_advance.

(* identity: if no mark of the line's context matches, the order is the logical one *)
Theorem C18_identity : forall s xtd ctxfound raw,
  (forall b e ctx flg, raw b e ctx flg = None) ->
  dir_reorder s xtd ctxfound raw (seq 0 (uc_slen s)) = Some (seq 0 (uc_slen s)).
Proof. exact dir_reorder_identity. Qed.
Print Assumptions C18_identity.

Theorem C18_identity_fix : forall cm fuel ord dir b e,
  ((b < e)%nat -> cm b e dir = None) -> (0 < fuel)%nat -> dir_fix cm fuel ord dir b e = Some ord.
Proof. exact dir_fix_identity. Qed.
Print Assumptions C18_identity_fix.

(* runs: with `top dir e b m` = "m is one of the successive matches the loop meets in [b,e)",
   (a) a position covered by no match keeps its entry;
   (b) a match without nested group (c_rec = false) whose group span is the whole match is
       reversed in place exactly when its direction is opposite to the context's, else untouched;
   (c) every match span, nested or not, is mapped onto itself *)
Theorem C18_runs_reversed : forall cm N, cm_ok cm N ->
  forall fuel ord dir b e ord', (e <= N)%nat -> (e <= length ord)%nat -> dir_fix cm fuel ord dir b e = Some ord' ->
  (forall i d, (forall m, top cm dir e b m -> ~ (r_beg m <= i < r_end m)%nat) -> nth i ord' d = nth i ord d) /\
  (forall m, top cm dir e b m -> c_rec m = false -> c_beg m = r_beg m -> c_end m = r_end m ->
     forall i d, (r_beg m <= i < r_end m)%nat ->
     nth i ord' d = if xorb (dir <? 0)%Z (c_dir m <? 0)%Z then nth (r_beg m + r_end m - 1 - i) ord d else nth i ord d) /\
  (forall m, top cm dir e b m ->
     Permutation (firstn (r_end m - r_beg m) (skipn (r_beg m) ord')) (firstn (r_end m - r_beg m) (skipn (r_beg m) ord))).
Proof. exact dir_fix_runs. Qed.
Print Assumptions C18_runs_reversed.

(* shaping, for ALL code points cur prev next: the lookup is the row of the generated table (the
   bisection never runs out of fuel); a character outside the table is returned unchanged; a
   letter becomes the medial / final / initial form of its OWN row, or stays itself, exactly by
   whether it joins its previous and next neighbour; joining is decided by the two rows *)
Theorem C18_shape : forall cur prev next,
  find_achar_o cur = Some (lookup_achar cur) /\
  (lookup_achar cur = None -> uc_cshape cur prev next = cur) /\
  (forall r, lookup_achar cur = Some r ->
     let jp := can_join prev cur in let jn := can_join cur next in
     let form := if jp then (if jn then a_m r else a_f r) else (if jn then a_i r else a_c r) in
     uc_cshape cur prev next = (if (form =? 0)%Z then cur else form) /\ a_c r = cur) /\
  can_join prev cur = match lookup_achar prev, lookup_achar cur with
                      | Some a1, Some a2 => (nz (a_i a1) || nz (a_m a1)) && (nz (a_f a2) || nz (a_m a2))
                      | _, _ => false
                      end /\
  (uc_cshape cur prev next = cur \/ lookup_achar (uc_cshape cur prev next) = None).
Proof. exact shape_spec. Qed.
Print Assumptions C18_shape.

(* the generated table: a non-zero form belongs to one row only and is not another letter of the table *)
Theorem C18_forms_own_letter : forall r f, In r achars -> In f [a_s r; a_i r; a_m r; a_f r] -> f <> 0%Z ->
  (lookup_achar f = None \/ f = a_c r) /\
  (forall r', In r' achars -> In f [a_s r'; a_i r'; a_m r'; a_f r'] -> r' = r).
Proof. exact achars_forms_ok. Qed.
Print Assumptions C18_forms_own_letter.

(* the neighbours are the nearest characters that are not diacritics, on both sides (valid UTF-8) *)
Theorem C18_shape_skips_diacritics : forall pre x ds1 c0 ds2 y rest,
  scalar x -> uc_acomb (Z.of_N x) = false -> Forall scalar ds1 -> Forall (fun d => uc_acomb (Z.of_N d) = true) ds1 ->
  scalar c0 -> Forall scalar ds2 -> Forall (fun d => uc_acomb (Z.of_N d) = true) ds2 ->
  scalar y -> uc_acomb (Z.of_N y) = false ->
  uc_shape (chars (pre ++ x :: ds1) ++ chars (c0 :: ds2 ++ y :: rest)) (length (chars (pre ++ x :: ds1))) =
  if uc_r2l (Z.of_N c0) then ShOut (uc_cput (Z.to_N (uc_cshape (Z.of_N c0) (Z.of_N x) (Z.of_N y)))) else ShNone.
Proof. exact uc_shape_neighbours. Qed.
Print Assumptions C18_shape_skips_diacritics.

(* the hypotheses are satisfiable and the functions compute: the matcher that never matches is
   cm_ok; "a سلام b" with the right-to-left mark (row 1 of dirmarks) matching bytes 2..10 *)
Example C18_nonvacuous :
  cm_ok (fun _ _ _ => None) 8 /\
  dir_reorder [97; 32; 216; 179; 217; 132; 216; 167; 217; 133; 32; 98]%N 0%Z (-2)%Z
    (fun b _ _ _ => if (b =? 0)%nat then Some (1%nat, [2; 10; -1; -1]%Z) else None) (seq 0 8)
  = Some [0; 1; 5; 4; 3; 2; 6; 7]%nat /\
  matcher_ok [97; 32; 216; 179; 217; 132; 216; 167; 217; 133; 32; 98]%N
    [(0, 8, 1%Z, Some (1, [2; 10; -1; -1]%Z)); (6, 8, 1%Z, None)]%nat = true /\
  matcher_ok [97; 32; 216; 179; 217; 132; 216; 167; 217; 133; 32; 98]%N       (* an empty match is rejected *)
    [(0, 8, 1%Z, Some (1, [0; 0; -1; -1]%Z))]%nat = false.
Proof. split; [intros b e d m _ _ H; discriminate | vm_compute; repeat split; reflexivity]. Qed.

(* ---------------------------------------------------------------------------------------------
   THE RANGE REVERSAL IS THE C TEXT.  dir_reverse of dir.c (the only place where dir_fix writes the order
   array; DirDefs.dir_reverse is what C18_permutation, C18_identity and C18_runs_reversed speak about) is
   translated by tools/c2clite.py on every run (GenCFuncs.v, a term of the deep embedding CLite.v).  For
   EVERY order array in memory and every beg, end: after the call the block holds the model's reversal
   (mirror image inside [beg, end), every other cell unchanged, same length), and every load and store
   was inside the array.  The precondition is exactly what the C text needs: beg and end are ints and,
   when at least one swap happens (beg + 1 < end), end <= length (0 <= beg by its type here). *)
From NV Require Import CLite CLiteProps GenCFuncs CLiteTac TrRen.

Theorem C18_tr_dir_reverse : forall m g ord b e d fuel,
  int_arr_at m g (map Z.of_nat ord) -> ints_ok (map Z.of_nat ord) ->
  (Z.of_nat b <= 2147483647)%Z -> (Z.of_nat e <= 2147483647)%Z -> (S b < e -> e <= length ord)%nat -> (e - b < fuel)%nat ->
  callf cprog fuel (S d) F_dir_reverse [VPtr g 0%Z; VInt (Z.of_nat b); VInt (Z.of_nat e)] m
  = Ok (VUndef, CLiteProps.upd m g (map VInt (map Z.of_nat (dir_reverse ord b e)))).
Proof. exact tr_dir_reverse. Qed.
Print Assumptions C18_tr_dir_reverse.

(* what the model's reversal is, cell by cell *)
Theorem C18_dir_reverse_cells : forall (ord : list nat) b e i d, (e <= length ord)%nat ->
  length (dir_reverse ord b e) = length ord /\
  nth i (dir_reverse ord b e) d = if (b <=? i)%nat && (i <? e)%nat then nth (b + e - 1 - i) ord d else nth i ord d.
Proof. exact dir_reverse_cells. Qed.
Print Assumptions C18_dir_reverse_cells.

(* the translated function RUNS: the reversal of C18_nonvacuous (characters 2..5 of eight); an empty and a
   one-cell range store nothing; a range that ends beyond the array is a checked error *)
Example C18_tr_nonvacuous :
  let ord := seq 0 8 in
  let g := length cglobals in
  let m := cglobals ++ [map VInt (map Z.of_nat ord)] in
  int_arr_at m g (map Z.of_nat ord) /\ ints_ok (map Z.of_nat ord) /\
  callf cprog 10 1 F_dir_reverse [VPtr g 0%Z; VInt 2%Z; VInt 6%Z] m
    = Ok (VUndef, cglobals ++ [map VInt [0; 1; 5; 4; 3; 2; 6; 7]%Z]) /\
  dir_reverse ord 2 6 = [0; 1; 5; 4; 3; 2; 6; 7]%nat /\
  callf cprog 10 1 F_dir_reverse [VPtr g 0%Z; VInt 3%Z; VInt 3%Z] m = Ok (VUndef, m) /\
  callf cprog 10 1 F_dir_reverse [VPtr g 0%Z; VInt 7%Z; VInt 8%Z] m = Ok (VUndef, m) /\
  callf cprog 10 1 F_dir_reverse [VPtr g 0%Z; VInt 2%Z; VInt 9%Z] m = Err EOob.
Proof.
  cbv zeta. split; [reflexivity|]. split; [apply ints_ok_dec; reflexivity|].
  vm_compute. repeat split; reflexivity.
Qed.

(* ---------------------------------------------------------------------------------------------
   THE SHAPING MODEL IS THE C TEXT.  find_achar, can_join, uc_cshape and uc_cput of uc.c are translated by
   tools/c2clite.py on every run (GenCFuncs.v, terms of the deep embedding CLite.v; the struct array achars[]
   becomes the global block gb_achars, five cells c s i m f per row).  For ALL ints the translated functions
   return what ShapeDefs.v (the model C18_shape speaks about) says; the memory is not written; no load leaves
   its block, no signed operation overflows, no fuel runs out.  Proofs: coq/TrShape.v.  (uc_shape itself --
   the neighbour search that feeds uc_cshape and uc_cput -- follows further down: C18_tr_uc_shape.) *)
From NV Require Import TrShape.

(* the block the translator read from the initializer of achars[] is the table translate.py generated *)
Theorem C18_tr_achars_table : gb_achars = flat_map (fun r => [VInt (a_c r); VInt (a_s r); VInt (a_i r); VInt (a_m r); VInt (a_f r)]) achars.
Proof. exact gb_achars_eq. Qed.
Print Assumptions C18_tr_achars_table.

(* find_achar(c), every int c (the comparisons `achars[m].c == c`, `c < achars[m].c` are unsigned in C: for a
   negative c the bisection takes another path than the model's and still ends at NULL): a pointer to cell
   5 * i of the table when row i has the letter c, NULL when no row has it; row i is the model's find_achar c,
   which is the linear lookup *)
Theorem C18_tr_find_achar : forall m c d fuel, globals_at m -> int_ok c -> (length achars < fuel)%nat ->
  callf cprog fuel (S d) F_find_achar [VInt c] m
  = Ok (match row_index c with Some i => VPtr G_achars (5 * Z.of_nat i) | None => VInt 0%Z end, m) /\
  option_map (fun i => nth i achars arow0) (row_index c) = find_achar c /\
  find_achar c = lookup_achar c /\
  (forall i, row_index c = Some i -> (i < length achars)%nat /\ a_c (nth i achars arow0) = c).
Proof. exact tr_find_achar_spec. Qed.
Print Assumptions C18_tr_find_achar.

Theorem C18_tr_can_join : forall m c1 c2 d fuel, globals_at m -> int_ok c1 -> int_ok c2 -> (length achars < fuel)%nat ->
  callf cprog fuel (S (S d)) F_can_join [VInt c1; VInt c2] m = Ok (VInt (b2z (can_join c1 c2)), m).
Proof. exact tr_can_join. Qed.
Print Assumptions C18_tr_can_join.

Theorem C18_tr_uc_cshape : forall m cur prev next d fuel,
  globals_at m -> int_ok cur -> int_ok prev -> int_ok next -> (length achars < fuel)%nat ->
  callf cprog fuel (S (S (S d))) F_uc_cshape [VInt cur; VInt prev; VInt next] m
  = Ok (VInt (uc_cshape cur prev next), m).
Proof. exact tr_uc_cshape. Qed.
Print Assumptions C18_tr_uc_cshape.

(* uc_cput(d, c), every c with 0 <= c <= INT_MAX (all the C text needs: the shifts and the conversions to char
   are defined for every int; the model is on N) and every destination with room for the encoding and the
   terminator: cells d[0..n-1] receive the bytes of UcDefs.uc_cput c as (signed) chars -- wrap I8 of the byte,
   i.e. the byte modulo 256, see C18_tr_uc_cput_cells --, d[n] receives 0, no other cell of any block changes *)
Theorem C18_tr_uc_cput : forall m b blk o c d fuel, nth_error m b = Some blk -> (c <= 2147483647)%N ->
  (o + length (uc_cput c) + 1 <= length blk)%nat -> (4 <= fuel)%nat ->
  callf cprog fuel (S d) F_uc_cput [VPtr b (Z.of_nat o); VInt (Z.of_N c)] m
  = Ok (VUndef, CLiteProps.upd m b (firstn o blk ++ (map (fun x => VInt (wrap I8 (Z.of_N x))) (uc_cput c) ++ [VInt 0%Z])
                                     ++ skipn (o + length (map (fun x => VInt (wrap I8 (Z.of_N x))) (uc_cput c) ++ [VInt 0%Z])) blk)).
Proof. exact tr_uc_cput. Qed.
Print Assumptions C18_tr_uc_cput.

Theorem C18_tr_uc_cput_cells : forall m b blk o c d fuel, nth_error m b = Some blk -> (c <= 2147483647)%N ->
  (o + length (uc_cput c) + 1 <= length blk)%nat -> (4 <= fuel)%nat ->
  exists m', callf cprog fuel (S d) F_uc_cput [VPtr b (Z.of_nat o); VInt (Z.of_N c)] m = Ok (VUndef, m') /\
    (forall k, (k < length (uc_cput c))%nat ->
       exists z, load m' b (Z.of_nat (o + k)) = Ok (VInt z) /\ (z mod 256 = Z.of_N (nthb (uc_cput c) k) mod 256)%Z) /\
    load m' b (Z.of_nat (o + length (uc_cput c))) = Ok (VInt 0%Z) /\
    (forall k, (k < o \/ o + length (uc_cput c) < k)%nat -> load m' b (Z.of_nat k) = load m b (Z.of_nat k)) /\
    (forall b' p, b' <> b -> load m' b' p = load m b' p).
Proof. exact tr_uc_cput_cells. Qed.
Print Assumptions C18_tr_uc_cput_cells.

(* ... and the bytes of the model are bytes (so `mod 256` above is the byte itself) for every c < 2^26, in
   particular for every code point up to 0x10ffff *)
Theorem C18_uc_cput_bytes : forall c, (c < 67108864)%N -> Forall (fun x => (x < 256)%N) (uc_cput c).
Proof. exact uc_cput_lt256. Qed.
Print Assumptions C18_uc_cput_bytes.

(* the translated functions RUN, on the program's own globals: beh (U+0628) between lam and meem becomes its
   medial form U+FE92, after lam at the end of a word its final form U+FE90, before meem its initial form
   U+FE91, alone it stays; `a` is not a letter of the table; tatweel (U+0640) has no final form: after beh at
   the end of a word it stays itself (the `c ? c : cur` fallback), and beh does join a following tatweel (through
   `a2->f || a2->m`); find_achar returns &achars[7] for beh, NULL for `a` and for -1; uc_cput writes EF BA 92 00
   (as signed chars) at d = buf + 1 and nothing else, and is a checked error when the buffer is too short *)
Example C18_tr_shape_nonvacuous :
  let m := cglobals ++ [repeat VUndef 8] in
  let buf := length cglobals in
  globals_at m /\
  callf cprog 100 3 F_uc_cshape [VInt 1576; VInt 1604; VInt 1605]%Z m = Ok (VInt 65170%Z, m) /\
  uc_cshape 1576 1604 1605 = 65170%Z /\
  callf cprog 100 3 F_uc_cshape [VInt 1576; VInt 1604; VInt 0]%Z m = Ok (VInt 65168%Z, m) /\
  callf cprog 100 3 F_uc_cshape [VInt 1576; VInt 0; VInt 1605]%Z m = Ok (VInt 65169%Z, m) /\
  callf cprog 100 3 F_uc_cshape [VInt 1576; VInt 0; VInt 0]%Z m = Ok (VInt 1576%Z, m) /\
  callf cprog 100 3 F_uc_cshape [VInt 97; VInt 1604; VInt 1605]%Z m = Ok (VInt 97%Z, m) /\
  callf cprog 100 3 F_uc_cshape [VInt 1600; VInt 1576; VInt 0]%Z m = Ok (VInt 1600%Z, m) /\
  callf cprog 100 3 F_uc_cshape [VInt 1576; VInt 0; VInt 1600]%Z m = Ok (VInt 65169%Z, m) /\
  callf cprog 100 2 F_can_join [VInt 1576; VInt 1600]%Z m = Ok (VInt 1%Z, m) /\
  callf cprog 100 2 F_can_join [VInt 1575; VInt 1576]%Z m = Ok (VInt 0%Z, m) /\
  callf cprog 100 1 F_find_achar [VInt 1576%Z] m = Ok (VPtr G_achars 35%Z, m) /\
  callf cprog 100 1 F_find_achar [VInt 97%Z] m = Ok (VInt 0%Z, m) /\
  callf cprog 100 1 F_find_achar [VInt (-1)%Z] m = Ok (VInt 0%Z, m) /\
  callf cprog 4 1 F_uc_cput [VPtr buf 1%Z; VInt 65170%Z] m
    = Ok (VUndef, cglobals ++ [[VUndef; VInt (-17); VInt (-70); VInt (-110); VInt 0; VUndef; VUndef; VUndef]%Z]) /\
  uc_cput 65170 = [239; 186; 146]%N /\
  callf cprog 4 1 F_uc_cput [VPtr buf 5%Z; VInt 65170%Z] m = Err EOob.
Proof.
  cbv zeta. split; [intros g blk H; rewrite nth_error_app1; [exact H|apply nth_error_Some; rewrite H; discriminate]|].
  repeat (split; [vm_compute; reflexivity|]). vm_compute; reflexivity.
Qed.

(* ---------------------------------------------------------------------------------------------
   uc_shape ITSELF IS THE C TEXT TOO (coq/TrUcShape.v; c2clite.py turns the `static char out[16]` into the global
   block G_uc_shape__out).  For every string without NUL in which every lead byte has its continuation bytes
   before the terminator (code_fits: otherwise uc_code reads past the end of the string) and whose character at
   s = beg + off is below 0x110000: the translated uc_shape returns NULL exactly when the model says ShNone;
   otherwise it returns the static buffer, which then holds the bytes of the model's answer (as chars) and the
   terminator, and no other cell of the memory has changed.  The macro UC_R2L is the generated truth table
   r2l_ranges on 0 .. 0x10ffff (C18_r2l_macro; above that the macro still looks at the low 16 bits only while the
   table says "no": uc_code returns such values only on malformed input).  The model never runs out of fuel. *)
From NV Require Import TrUcShape.

Theorem C18_r2l_macro : forall c, (0 <= c < 1114112)%Z ->
  ((Z.land c 65280 =? 1536) || (Z.land c 65532 =? 8204) || (Z.land c 65280 =? 64256) ||
   (Z.land c 65280 =? 64512) || (Z.land c 65280 =? 65024))%Z = uc_r2l c.
Proof. exact r2l_macro_model. Qed.
Print Assumptions C18_r2l_macro.

Theorem C18_tr_uc_shape : forall m b s off outblk d fuel,
  str_at m b s -> nonul s ->
  (forall o, (o <= length s)%nat -> (o + uc_len_b (nthb s o) - 1 <= length s)%nat) ->
  (off <= length s)%nat -> nth_error m G_achars = Some gb_achars ->
  nth_error m G_uc_shape__out = Some outblk -> (5 <= length outblk)%nat ->
  (Z.of_N (uc_code (skipn off s)) < 1114112)%Z ->
  (length s < fuel)%nat -> (length achars < fuel)%nat -> (4 <= fuel)%nat ->
  match uc_shape s off with
  | ShNone => callf cprog fuel (S (S (S (S d)))) F_uc_shape [VPtr b 0%Z; VPtr b (Z.of_nat off)] m = Ok (VInt 0%Z, m)
  | ShOut bs => callf cprog fuel (S (S (S (S d)))) F_uc_shape [VPtr b 0%Z; VPtr b (Z.of_nat off)] m
                = Ok (VPtr G_uc_shape__out 0%Z,
                      CLiteProps.upd m G_uc_shape__out
                        (CLiteProps.put_cells outblk 0 (map (fun x => VInt (wrap I8 (Z.of_N x))) bs ++ [VInt 0%Z])))
  | ShFuel => True
  end.
Proof. exact tr_uc_shape. Qed.
Print Assumptions C18_tr_uc_shape.

Theorem C18_uc_shape_total : forall s off, nonul s -> (off <= length s)%nat -> uc_shape s off <> ShFuel.
Proof. exact uc_shape_total. Qed.
Print Assumptions C18_uc_shape_total.

(* the translated uc_shape RUNS: in lam beh meem (d9 84 d8 a8 d9 85) the beh at offset 2 becomes ef ba 92 (U+FE92) in
   the static buffer; at the terminator (offset 6) the answer is NULL and nothing is written *)
Example C18_tr_uc_shape_nonvacuous :
  let s := [217; 132; 216; 168; 217; 133]%N in
  let m := cglobals ++ [cstr_block (zb s)] in
  let b := length cglobals in
  str_at m b s /\ nonul s /\
  (exists m', callf cprog 100 4 F_uc_shape [VPtr b 0%Z; VPtr b 2%Z] m = Ok (VPtr G_uc_shape__out 0%Z, m') /\
     nth_error m' G_uc_shape__out = Some ([VInt (-17); VInt (-70); VInt (-110); VInt 0] ++ repeat (VInt 0) 12)%Z) /\
  uc_shape s 2 = ShOut [239; 186; 146]%N /\
  callf cprog 100 4 F_uc_shape [VPtr b 0%Z; VPtr b 6%Z] m = Ok (VInt 0%Z, m) /\
  uc_shape s 6 = ShNone.
Proof.
  cbv zeta. split; [reflexivity|]. split; [repeat constructor|].
  split; [eexists; split; [vm_compute; reflexivity|vm_compute; reflexivity]|].
  repeat (split; [vm_compute; reflexivity|]). vm_compute; reflexivity.
Qed.

(* ---------------------------------------------------------------------------------------------
   LINELIMIT COUNTS CHARACTERS.  ren_position (ren.c) hands a line to dir_reorder only if it is "not longer than
   linelimit" -- RenDefs.use_reorder: uc_slen s <= xlim, i.e. the number of CHARACTERS (the terminator counts),
   never the number of bytes; the byte count enters only as `multibyte s` = uc_slen s < length s (order 1 reorders
   only lines with a multi-byte sequence).  RenOrdDefs.ren_order dr o s = the order array ren_position lays the line
   out with (dir_reorder's result on the reordering path, the identity on the fast path); the probe records that
   very array (`rord=`: what ren.c's own call of dir_reorder left in it) and the driver prints the extracted
   ren_order.  Proofs: coq/RenOrdProps.v; on the translated C text: coq/TrRenGate.v. *)
From NV Require Import RenProps RenOrdDefs RenOrdProps.

(* the gate spelled out *)
Theorem C18_linelimit_gate : forall o s,
  use_reorder o s = (Z.of_nat (uc_slen s) <=? xlim o)%Z && ((xorder o =? 2)%Z || ((xorder o =? 1)%Z && multibyte s)).
Proof. exact use_reorder_chars. Qed.
Print Assumptions C18_linelimit_gate.

(* a line within the limit in CHARACTERS is reordered (order 2; order 1 if it has a multi-byte sequence) however
   many bytes it has -- in particular with more bytes than linelimit (second statement); a line over the limit in
   characters is not; two lines with the same number of characters are gated alike whatever their byte counts *)
Theorem C18_linelimit_characters : forall o s,
  ((Z.of_nat (uc_slen s) <= xlim o)%Z -> xorder o = 2%Z \/ (xorder o = 1%Z /\ multibyte s = true) -> use_reorder o s = true) /\
  ((Z.of_nat (uc_slen s) <= xlim o < Z.of_nat (length s))%Z -> xorder o = 1%Z \/ xorder o = 2%Z -> use_reorder o s = true) /\
  ((xlim o < Z.of_nat (uc_slen s))%Z -> use_reorder o s = false) /\
  (forall s', uc_slen s = uc_slen s' -> multibyte s = multibyte s' -> use_reorder o s = use_reorder o s').
Proof.
  exact (fun o s => conj (limit_counts_characters o s) (conj (limit_not_bytes o s) (conj (limit_exceeded o s)
           (fun s' => limit_bytes_irrelevant o s s')))).
Qed.
Print Assumptions C18_linelimit_characters.

(* a line of single-byte characters has as many characters as bytes (so order 1 leaves it alone) *)
Theorem C18_single_byte_line : forall s, Forall (fun b => bit b 128 = false) s -> uc_slen s = length s /\ multibyte s = false.
Proof. exact (fun s H => conj (ascii_slen s H) (ascii_not_multibyte s H)). Qed.
Print Assumptions C18_single_byte_line.

(* the order array of ren_position: within the limit in characters it is dir_reorder's result on the identity -- for
   the model of dir.c: the permutation C18_permutation / C18_runs_reversed / C18_identity speak about --, and the
   columns are those of the reordering path, laid out along its inverse (C17_tiling); otherwise (order 0, over the
   limit, a single-byte line with order 1) it is the identity and the columns are those of the fast path *)
Theorem C18_linelimit_order : forall dr o s,
  ((Z.of_nat (uc_slen s) <= xlim o)%Z -> xorder o = 2%Z \/ (xorder o = 1%Z /\ multibyte s = true) ->
     ren_order dr o s = dr s (seq 0 (uc_slen s))) /\
  (use_reorder o s = true ->
     ren_order dr o s = the_ord dr o s /\ ren_position dr o s = ren_position_reorder dr o s /\
     vis_order dr o s = inverse (ren_order dr o s) (uc_slen s)) /\
  (use_reorder o s = false ->
     ren_order dr o s = seq 0 (uc_slen s) /\ ren_position dr o s = ren_fast (uc_slen s) s 0%Z /\ vis_order dr o s = seq 0 (uc_slen s)) /\
  (xorder o = 0%Z \/ (xlim o < Z.of_nat (uc_slen s))%Z \/ (xorder o = 1%Z /\ multibyte s = false) \/ (xorder o <> 1%Z /\ xorder o <> 2%Z) ->
     ren_order dr o s = seq 0 (uc_slen s)).
Proof.
  exact (fun dr o s => conj (ren_order_within_limit dr o s) (conj (ren_order_reordered dr o s)
           (conj (ren_order_fast dr o s) (ren_order_identity dr o s)))).
Qed.
Print Assumptions C18_linelimit_order.

Theorem C18_linelimit_dir : forall xtd ctxfound raw o s ord, (Z.of_nat (uc_slen s) <= xlim o)%Z ->
  xorder o = 2%Z \/ (xorder o = 1%Z /\ multibyte s = true) ->
  dir_reorder s xtd ctxfound raw (seq 0 (uc_slen s)) = Some ord ->
  ren_order (dr_of xtd ctxfound raw) o s = ord.
Proof. exact ren_order_dir. Qed.
Print Assumptions C18_linelimit_dir.

(* four two-byte letters (8 bytes), dr = reversal of the whole array: reordered with linelimit 4 (orders 1 and 2),
   not with linelimit 3 nor with order 0; the columns follow; a single-byte line of 4 characters is reordered with
   order 2 only; eight characters are over linelimit 4 *)
Example C18_linelimit_nonvacuous :
  uc_slen ex_line = 4%nat /\ length ex_line = 8%nat /\ multibyte ex_line = true /\
  use_reorder {| xorder := 1; xlim := 4 |} ex_line = true /\
  ren_order ex_dr {| xorder := 1; xlim := 4 |} ex_line = [3; 2; 1; 0]%nat /\
  ren_order ex_dr {| xorder := 2; xlim := 4 |} ex_line = [3; 2; 1; 0]%nat /\
  ren_order ex_dr {| xorder := 1; xlim := 3 |} ex_line = [0; 1; 2; 3]%nat /\
  ren_order ex_dr {| xorder := 0; xlim := 4 |} ex_line = [0; 1; 2; 3]%nat /\
  ren_position ex_dr {| xorder := 1; xlim := 4 |} ex_line = [3; 2; 1; 0; 4]%Z /\
  ren_position ex_dr {| xorder := 1; xlim := 3 |} ex_line = [0; 1; 2; 3; 4]%Z /\
  ren_order ex_dr {| xorder := 1; xlim := 4 |} [97; 98; 99; 100]%N = [0; 1; 2; 3]%nat /\
  ren_order ex_dr {| xorder := 2; xlim := 4 |} [97; 98; 99; 100]%N = [3; 2; 1; 0]%nat /\
  ren_order ex_dr {| xorder := 2; xlim := 4 |} (ex_line ++ ex_line) = seq 0 8.
Proof. exact limit_nonvacuous. Qed.

(* THE GATE ON THE C TEXT.  ren_position is translated on every run (cf_ren_position); ren_position_reorder is an
   extern of the translated program (it calls the regex engine).  The body of ren_position is executed with an
   ARBITRARY call function of which only two answers are given: uc_slen(s) = the model's uc_slen (TrUc.tr_uc_slen
   for the translated uc_slen) and ren_position_reorder(s) = r.  With use_reorder o s = true -- in particular
   (second theorem) with uc_slen s <= xlim < strlen(s) and order 1 or 2 -- the translated ren_position returns exactly
   r (the memory r leaves; an error of r as that error): the line goes to ren_position_reorder whatever its number
   of bytes.  The other half -- use_reorder o s = false: the columns of the fast path, no call of
   ren_position_reorder -- is C17_tr_ren_position_fast.  Third: in the translated program itself, where the extern
   has no body, the call is the error EShape. *)
From NV Require Import TrUc TrRenGate.

Theorem C18_tr_linelimit_gate : forall (call : nat -> list val -> mem -> res (val * mem)) o m b s fuel r,
  str_at m b s -> nonul s -> (Z.of_nat (length s) < 2147483647)%Z ->
  cell_at m G_xlim (xlim o) -> cell_at m G_xorder (xorder o) -> int_ok (xlim o) -> int_ok (xorder o) ->
  call F_uc_slen [VPtr b 0%Z] m = Ok (VInt (Z.of_nat (uc_slen s)), m) ->
  call X_ren_position_reorder [VPtr b 0%Z] m = r ->
  use_reorder o s = true ->
  exec call fuel (fn_body cf_ren_position) (mkst [VPtr b 0%Z; VUndef; VUndef; VUndef; VUndef] m)
  = gate_result r [VPtr b 0%Z; VInt 0%Z; VUndef; VUndef; VInt (Z.of_nat (uc_slen s))].
Proof. exact tr_ren_position_gate. Qed.
Print Assumptions C18_tr_linelimit_gate.

Theorem C18_tr_linelimit_chars : forall (call : nat -> list val -> mem -> res (val * mem)) o m b s fuel r,
  str_at m b s -> nonul s -> (Z.of_nat (length s) < 2147483647)%Z ->
  cell_at m G_xlim (xlim o) -> cell_at m G_xorder (xorder o) -> int_ok (xlim o) -> int_ok (xorder o) ->
  call F_uc_slen [VPtr b 0%Z] m = Ok (VInt (Z.of_nat (uc_slen s)), m) ->
  call X_ren_position_reorder [VPtr b 0%Z] m = r ->
  (Z.of_nat (uc_slen s) <= xlim o < Z.of_nat (length s))%Z -> xorder o = 1%Z \/ xorder o = 2%Z ->
  exec call fuel (fn_body cf_ren_position) (mkst [VPtr b 0%Z; VUndef; VUndef; VUndef; VUndef] m)
  = gate_result r [VPtr b 0%Z; VInt 0%Z; VUndef; VUndef; VInt (Z.of_nat (uc_slen s))].
Proof. exact tr_ren_position_gate_chars. Qed.
Print Assumptions C18_tr_linelimit_chars.

Theorem C18_tr_linelimit_cprog : forall o m b s d fuel,
  str_at m b s -> nonul s -> (Z.of_nat (length s) < 2147483647)%Z -> (length s < fuel)%nat ->
  cell_at m G_xlim (xlim o) -> cell_at m G_xorder (xorder o) -> int_ok (xlim o) -> int_ok (xorder o) ->
  use_reorder o s = true ->
  callf cprog fuel (S (S (S (S (S d))))) F_ren_position [VPtr b 0%Z] m = Err EShape.
Proof. exact tr_ren_position_gate_cprog. Qed.
Print Assumptions C18_tr_linelimit_cprog.

(* the translated ren_position RUNS on the four two-byte letters of C18_linelimit_nonvacuous, the options in the
   program's own global cells: with linelimit 4 (4 characters, 8 bytes) it reaches the call of ren_position_reorder,
   with linelimit 3 it returns the columns 0 1 2 3 4 of the fast path in a fresh block; the hypotheses of the gate
   theorem hold for that memory *)
Example C18_tr_linelimit_nonvacuous :
  let b := length cglobals in
  let mem_of lim := CLiteProps.upd (CLiteProps.upd cglobals G_xlim [VInt lim]) G_xorder [VInt 1%Z] ++ [cstr_block (map Z.of_N ex_line)] in
  str_at (mem_of 4%Z) b ex_line /\ nonul ex_line /\ cell_at (mem_of 4%Z) G_xlim 4%Z /\ cell_at (mem_of 4%Z) G_xorder 1%Z /\
  use_reorder {| xorder := 1; xlim := 4 |} ex_line = true /\ use_reorder {| xorder := 1; xlim := 3 |} ex_line = false /\
  callf cprog 100 9 F_ren_position [VPtr b 0%Z] (mem_of 4%Z) = Err EShape /\
  match callf cprog 100 9 F_ren_position [VPtr b 0%Z] (mem_of 3%Z) with
  | Ok (VPtr g 0%Z, M) => g = S b /\ nth_error M g = Some (map VInt [0; 1; 2; 3; 4]%Z)
  | _ => False
  end.
Proof.
  cbv zeta. split; [reflexivity|]. split; [repeat constructor; discriminate|].
  split; [vm_compute; reflexivity|]. split; [vm_compute; reflexivity|].
  split; [vm_compute; reflexivity|]. split; [vm_compute; reflexivity|].
  split; [vm_compute; reflexivity|].
  vm_compute. split; reflexivity.
Qed.

(* ---------------------------------------------------------------------------------------------
   THE REORDERING ITSELF IS THE C TEXT, RELATIVE TO A MATCHER ORACLE.  dir_context, dir_match, dir_fix, dir_reorder of dir.c and
   conf_dirmark, conf_dircontext of conf.c are translated by tools/c2clite.py on every run (GenCFuncs.v; whitelist
   tools/c2clite.d/99zzz_dir.list).  rset_find -- the pattern matcher over the configured marks -- is NOT translated: a call to it
   is answered by an oracle `ext` (CLiteExt.callx), exactly as the model DirDefs.v has the matcher as a parameter (`raw b e ctx flg`
   = the answer of rset_find for the text between chrs[b] and chrs[e]; `ctxfound` for the context patterns).  Every theorem below
   is stated for EVERY oracle whose answers are described by the model's matcher function (TrDirBase.oracle_ok: the index of the
   mark or -1 is returned, the 2 * 16 offsets are stored into the array handed over, no other block that existed changes) and for
   every matcher function with raw_ok (no rset: no match; the index is a row of dirmarks; offsets are ints, the whole match has
   offsets >= 0); cm_ok (spans inside the searched range, non-empty match: the hypothesis of C18_terminates / C18_runs_reversed)
   is what makes the order array accesses stay inside the array.  Locals whose address is taken (subs[32], grp, r_beg ... c_rec)
   are blocks of their own in CLite, so the memory after a call is the old memory with blocks appended: mem_ext m m' bs = no block
   of m other than those in bs has changed.  Every load and store of the run was inside a live block (an access outside is
   Err EOob in CLite, and the calls return Ok).  Proofs: coq/TrDirBase.v, coq/TrDirMatch.v, coq/TrDir.v. *)
From Coq Require Import Lia.
From NV Require Import CLiteExt TrDirBase TrDirMatch TrDir.

(* the rows of the translated tables are the rows of the generated tables the model reads *)
Theorem C18_tr_dirmarks_table : forall i, (i < length dirmarks)%nat ->
  nth_error gb_dirmarks (4 * i) = Some (VInt (dm_ctx i)) /\ nth_error gb_dirmarks (4 * i + 1) = Some (VInt (dm_dir i)) /\
  nth_error gb_dirmarks (4 * i + 2) = Some (VInt (dm_grp i)) /\ int_ok (dm_ctx i) /\ int_ok (dm_dir i) /\ int_ok (dm_grp i) /\
  (0 <= dm_grp i <= 15)%Z.
Proof. exact gb_dirmarks_rows. Qed.
Print Assumptions C18_tr_dirmarks_table.

(* dir_context: the fast paths (xtd > 1, xtd < -1, xtd == 0 and an ASCII first byte) never reach the matcher: for EVERY oracle
   the result is the model's, which then does not depend on ctxfound *)
Theorem C18_tr_dir_context_fast : forall ext m sb s xtd rsctx cf d fuel, ctx_world m sb s xtd rsctx -> ctx_fast s xtd = true ->
  callx ext cprog fuel (S d) F_dir_context [VPtr sb 0%Z] m = Ok (VInt (dir_context s xtd cf), m ++ [[VUndef]]).
Proof. exact tr_dir_context_fast. Qed.
Print Assumptions C18_tr_dir_context_fast.

(* ... and on every path: the model's dir_context for the index the oracle answers (-1 when there is no rset) *)
Theorem C18_tr_dir_context : forall ext (m : mem) sb s xtd rsctx cf d fuel, ctx_world m sb s xtd rsctx -> ctx_oracle_ok ext rsctx sb s cf ->
  exists m', callx ext cprog fuel (S (S d)) F_dir_context [VPtr sb 0%Z] m = Ok (VInt (dir_context s xtd cf), m') /\ mem_ext m m' [].
Proof. exact tr_dir_context. Qed.
Print Assumptions C18_tr_dir_context.

(* dir_match: 0 is returned exactly when the model finds a mark; the six result cells then hold the model's spans (the byte
   offsets converted to character indices with uc_off on the copy of the text that was cut at chrs[end]), direction, nesting flag *)
Theorem C18_tr_dir_match : forall ext fuel d (m : mem) sb s cb chrs rslr rsrl raw b e ctx prec prb pre pcb pce pdir,
  dir_world m sb s cb chrs rslr rsrl -> (b <= e < length chrs)%nat ->
  outs_ok m sb cb (dm_outs prec prb pre pcb pce pdir) ->
  oracle_ok ext s chrs rslr rsrl raw -> raw_ok rslr rsrl raw -> (length s < fuel)%nat ->
  exists m',
    callx ext cprog fuel (S (S (S (S d)))) F_dir_match (dm_args cb b e ctx prec prb pre pcb pce pdir) m
    = Ok (VInt (match dir_match s chrs raw b e ctx with Some _ => 0 | None => 1 end)%Z, m') /\
    match dir_match s chrs raw b e ctx with
    | Some res => mem_ext m m' (dm_outs prec prb pre pcb pce pdir) /\ res_cells m' prec prb pre pcb pce pdir res
    | None => mem_ext m m' []
    end.
Proof. exact tr_dir_match. Qed.
Print Assumptions C18_tr_dir_match.

(* dir_fix: whenever the model's dir_fix returns ord' within fuel f, the translated dir_fix returns (within f iterations and
   nested calls) and leaves exactly ord' in the order array; nothing else that existed changes *)
Theorem C18_tr_dir_fix : forall ext FUEL f d (m : mem) sb s cb chrs rslr rsrl raw g ord dir b e N ord',
  dir_world m sb s cb chrs rslr rsrl -> oracle_ok ext s chrs rslr rsrl raw -> raw_ok rslr rsrl raw ->
  cm_ok (dir_match s chrs raw) N -> (e <= N)%nat -> (N < length chrs)%nat -> (N <= length ord)%nat ->
  int_arr_at m g (map Z.of_nat ord) -> ints_ok (map Z.of_nat ord) -> ~ In g (world_blocks sb cb) ->
  (f < FUEL)%nat -> (length s < FUEL)%nat -> (N < FUEL)%nat ->
  dir_fix (dir_match s chrs raw) f ord dir b e = Some ord' ->
  exists m', callx ext cprog FUEL (S (S (S (S (S (f + d)))))) F_dir_fix
               [VPtr cb 0%Z; VPtr g 0%Z; VInt dir; VInt (Z.of_nat b); VInt (Z.of_nat e)] m = Ok (VUndef, m') /\
    mem_ext m m' [g] /\ int_arr_at m' g (map Z.of_nat ord').
Proof. exact (fun ext FUEL f => tr_dir_fix ext FUEL f). Qed.
Print Assumptions C18_tr_dir_fix.

(* ... hence, under cm_ok, it TERMINATES within the fuel the model states (S (end - beg)) and the array it leaves is a
   permutation of the array it found (C18_terminates_fix + C18_permutation_fix carried to the C text) *)
Theorem C18_tr_dir_fix_terminates_permutes : forall ext FUEL d (m : mem) sb s cb chrs rslr rsrl raw g ord dir b e N,
  dir_world m sb s cb chrs rslr rsrl -> oracle_ok ext s chrs rslr rsrl raw -> raw_ok rslr rsrl raw ->
  cm_ok (dir_match s chrs raw) N -> (e <= N)%nat -> (N < length chrs)%nat -> (N <= length ord)%nat ->
  int_arr_at m g (map Z.of_nat ord) -> ints_ok (map Z.of_nat ord) -> ~ In g (world_blocks sb cb) ->
  (S (e - b) < FUEL)%nat -> (length s < FUEL)%nat -> (N < FUEL)%nat ->
  exists ord' m',
    dir_fix (dir_match s chrs raw) (S (e - b)) ord dir b e = Some ord' /\ Permutation ord' ord /\
    callx ext cprog FUEL (S (S (S (S (S (S (e - b) + d)))))) F_dir_fix
      [VPtr cb 0%Z; VPtr g 0%Z; VInt dir; VInt (Z.of_nat b); VInt (Z.of_nat e)] m = Ok (VUndef, m') /\
    mem_ext m m' [g] /\ int_arr_at m' g (map Z.of_nat ord').
Proof. exact tr_dir_fix_total. Qed.
Print Assumptions C18_tr_dir_fix_terminates_permutes.

(* dir_reorder: uc_chop, dir_context, the line terminator kept last, dir_fix over the rest, free(chrs) *)
Theorem C18_tr_dir_reorder : forall ext FUEL d (m : mem) sb s xtd rsctx rslr rsrl cf raw g ord ord',
  reorder_world m sb s xtd rsctx rslr rsrl ->
  int_arr_at m g (map Z.of_nat ord) -> ints_ok (map Z.of_nat ord) -> ~ In g (reorder_blocks sb) ->
  (uc_slen s <= length ord)%nat ->
  ctx_oracle_ok ext rsctx sb s cf -> oracle_ok ext s (uc_chop s) rslr rsrl raw -> raw_ok rslr rsrl raw ->
  cm_ok (dir_match s (uc_chop s) raw) (uc_slen s) ->
  (S (S (length s)) < FUEL)%nat ->
  dir_reorder s xtd cf raw ord = Some ord' ->
  exists m', callx ext cprog FUEL (S (S (S (S (S (S (S (uc_slen s) + d))))))) F_dir_reorder [VPtr sb 0%Z; VPtr g 0%Z] m = Ok (VUndef, m') /\
    mem_ext m m' [g] /\ int_arr_at m' g (map Z.of_nat ord').
Proof. exact tr_dir_reorder. Qed.
Print Assumptions C18_tr_dir_reorder.

(* a table oracle satisfies the oracle hypothesis, for every table: the hypotheses above are not idle *)
Theorem C18_tr_table_oracle : forall tab s chrs rslr rsrl, nonul s ->
  oracle_ok (tab_ext tab) s chrs rslr rsrl (tab_raw tab rslr rsrl s chrs) /\
  (Forall tab_entry_ok tab -> raw_ok rslr rsrl (tab_raw tab rslr rsrl s chrs)).
Proof. intros tab s chrs rslr rsrl H. split; [exact (tab_oracle_ok tab s chrs rslr rsrl H)|exact (tab_raw_ok tab s chrs rslr rsrl)]. Qed.
Print Assumptions C18_tr_table_oracle.

(* the translated dir_fix RUNS, with a table oracle for two marks, on the six-character line abcdef in a left-to-right context:
   the oracle finds mark 1 (a right-to-left run, no group) at bytes 1..3 of "abcdef", then mark 0 (a left-to-right mark with a
   nested group, bytes 1..3 of the match) on "def", and inside that group mark 1 on "ef".  Characters 1,2 are swapped, dir_fix
   recurses into 4..6 and swaps 4,5: ord = 0 2 1 3 5 4, which is what the model computes with the matcher function of the same
   table; the hypotheses of C18_tr_dir_fix hold for this memory, oracle and matcher (so the theorem applies to this run). *)
Definition C18_ex_tab : list (list Z * rawres) :=
  [([97; 98; 99; 100; 101; 102]%Z, (1%nat, [1; 3]%Z)); ([100; 101; 102]%Z, (0%nat, [0; 3; 1; 3]%Z)); ([101; 102]%Z, (1%nat, [0; 2]%Z))].
Definition C18_ex_s : bytes := [97; 98; 99; 100; 101; 102]%N.
Definition C18_ex_lr : val := VPtr G_dir_rslr 0%Z.
Definition C18_ex_mem : mem :=
  CLiteProps.upd cglobals G_dir_rslr [C18_ex_lr] ++
  [cstr_block (zb C18_ex_s); map (TrDirBase.cptr (length cglobals)) (uc_chop C18_ex_s); map VInt [0; 1; 2; 3; 4; 5]%Z].
Definition C18_ex_raw := tab_raw C18_ex_tab C18_ex_lr (VInt 0%Z) C18_ex_s (uc_chop C18_ex_s).

Example C18_tr_dir_nonvacuous :
  let sb := length cglobals in let cb := S sb in let g := S (S sb) in
  dir_world C18_ex_mem sb C18_ex_s cb (uc_chop C18_ex_s) C18_ex_lr (VInt 0%Z) /\
  oracle_ok (tab_ext C18_ex_tab) C18_ex_s (uc_chop C18_ex_s) C18_ex_lr (VInt 0%Z) C18_ex_raw /\
  raw_ok C18_ex_lr (VInt 0%Z) C18_ex_raw /\
  cm_ok (dir_match C18_ex_s (uc_chop C18_ex_s) C18_ex_raw) 6 /\
  int_arr_at C18_ex_mem g (map Z.of_nat (seq 0 6)) /\ ints_ok (map Z.of_nat (seq 0 6)) /\ ~ In g (world_blocks sb cb) /\
  dir_fix (dir_match C18_ex_s (uc_chop C18_ex_s) C18_ex_raw) 7 (seq 0 6) 1%Z 0 6 = Some [0; 2; 1; 3; 5; 4]%nat /\
  (exists m', callx (tab_ext C18_ex_tab) cprog 50 12 F_dir_fix [VPtr cb 0%Z; VPtr g 0%Z; VInt 1%Z; VInt 0%Z; VInt 6%Z] C18_ex_mem = Ok (VUndef, m') /\
     nth_error m' g = Some (map VInt [0; 2; 1; 3; 5; 4]%Z) /\ firstn g m' = firstn g C18_ex_mem) /\
  (* with no rset on either side nothing matches and nothing is written: the identity *)
  (exists m', callx (tab_ext C18_ex_tab) cprog 50 12 F_dir_fix [VPtr cb 0%Z; VPtr g 0%Z; VInt 1%Z; VInt 0%Z; VInt 6%Z]
                (cglobals ++ skipn (length cglobals) C18_ex_mem) = Ok (VUndef, m') /\
     nth_error m' g = Some (map VInt [0; 1; 2; 3; 4; 5]%Z)).
Proof.
  cbv zeta.
  assert (Hnn : nonul C18_ex_s) by (repeat constructor; vm_compute; try discriminate; reflexivity).
  split.
  { constructor; try (vm_compute; reflexivity); try exact Hnn.
    - exact (proj1 (uc_chop_ok C18_ex_s)).
    - right. eexists _, _. reflexivity.
    - left. reflexivity.
    - vm_compute. discriminate. }
  split; [exact (tab_oracle_ok _ _ _ _ _ Hnn)|].
  split.
  { apply tab_raw_ok. unfold C18_ex_tab. repeat (apply Forall_cons; [|]); [| | |apply Forall_nil];
      (split; [vm_compute; lia|split; [|split; vm_compute; discriminate]]);
      (apply Forall_forall; intros x Hx; apply in_map_iff in Hx; destruct Hx as [k [<- Hk]]; apply in_seq in Hk;
       do 32 (destruct k as [|k]; [vm_compute; split; discriminate|]); lia). }
  split.
  { intros b e dd r Hb He Hd. apply span_okb_ok.
    assert (Hd' : dir_match C18_ex_s (uc_chop C18_ex_s) C18_ex_raw b e (if (dd <? 0)%Z then (-1)%Z else 0%Z) = Some r).
    { rewrite <- Hd. unfold dir_match, C18_ex_raw, tab_raw, rs_of. destruct (dd <? 0)%Z; reflexivity. }
    clear Hd.
    assert (Hall : forallb (fun b0 => forallb (fun e0 => forallb (fun d0 =>
              match dir_match C18_ex_s (uc_chop C18_ex_s) C18_ex_raw b0 e0 d0 with Some r0 => span_okb b0 e0 r0 | None => true end)
              [(-1)%Z; 0%Z]) (seq 0 7)) (seq 0 7) = true) by (vm_compute; reflexivity).
    rewrite forallb_forall in Hall. specialize (Hall b ltac:(apply in_seq; lia)).
    rewrite forallb_forall in Hall. specialize (Hall e ltac:(apply in_seq; lia)).
    rewrite forallb_forall in Hall. specialize (Hall (if (dd <? 0)%Z then (-1)%Z else 0%Z) ltac:(destruct (dd <? 0)%Z; cbn; auto)).
    rewrite Hd' in Hall. exact Hall. }
  split; [vm_compute; reflexivity|]. split; [apply ints_ok_dec; vm_compute; reflexivity|].
  split; [vm_compute; intuition discriminate|].
  split; [vm_compute; reflexivity|].
  split; [eexists; split; [vm_compute; reflexivity|split; vm_compute; reflexivity]|].
  eexists; split; [vm_compute; reflexivity|vm_compute; reflexivity].
Qed.

(* ---------------------------------------------------------------------------------------------
   THE TWO HALVES COMPOSED: THE ORACLE IS THE TRANSLATED rset_find ITSELF.  Above, rset_find is an oracle; C10 proves the translated
   rset_find (with the translated regexec under it) equal to RsetDefs.rset_find_d 256 (C10_tr_rset_find_model).  Here the oracle is
   instantiated: `ext_is_find ext fuelR e` says ext X_rset_find args m = callf cprog fuelR (find_depth e) F_rset_find args m (ext_find is
   such an oracle), and the model's matcher parameters are instantiated by C10's model: find_raw lr rl s chrs b e ctx flg =
   rset_find_d 256 (the set of the context's side) (text between chrs[b] and chrs[e]) 16 flg, find_ctx rc s = rset_find_d 256 rc s 0 0.
   Proofs: coq/TrCmp18.v; pieces: coq/TrCmp18Dir.v (dir.c's theorems once more for an oracle hypothesis restricted to the memories
   of the run -- oracle_ok / ctx_oracle_ok quantify over ALL memories, which no real rset_find satisfies: its set must be in memory,
   intact), coq/TrCmp18Brk/Rec/Rx.v (C10's regexec / rset_find tie once more with globals_at weakened to the blocks the regex engine
   reads: in C18's memories dir_rslr / dir_rsrl / dir_rsctx / xtd do not hold their initializers; and rset_find with n = 0, grps = NULL,
   as dir_context calls it), coq/CLiteSim.v (a run that returns Ok does not depend on cells appended behind its blocks: dir_match hands
   rset_find the start of the sbuf's buffer, a block LONGER than the string, C10's theorem wants the string to fill its block).
   sets_world m hi fuelR ...: the three sets of dir_init (struct rset, grp[], setgrpcnt[], struct regex, program array, atom strings:
   TrCmp18Rx.rset_at) lie in the first hi blocks of the memory, behind the pointers in dir_rsctx / dir_rslr / dir_rsrl (NULL: no set), the
   class table of the regex engine is in place; each set's program was made by regcomp (so the model never answers OOB / NoFuel on a
   NUL-free text and reports -1/-1 or 0 <= so <= eo <= |text|), its tables are rset_make's (rset_tabs_ok), sizes inside int, fuel.
   SIDE CONDITIONS THAT REMAIN: sets_world; the order array is a later block than the sets (hi <= g); length s + 2 <= fuelR, fuel
   of dir.c's loops; cm_ok on the MODEL's matcher (non-empty matches inside the searched range: the hypothesis of C18_terminates).
   The engine's depth limit 256 is NOT a side condition: the model cuts where the C text cuts (its cut count is the second
   component of rset_find_d, whatever it is). *)
From NV Require Import TrCmp18Dir TrCmp18 TrCmp18Ex.

(* the oracle hypotheses of dir.c's theorems HOLD for the translated rset_find: the marks ... *)
Theorem C18_tr_find_is_oracle : forall (m0 : mem) hi fuelR e g ext s chrs rslr rsrl lr rl,
  ext_is_find ext fuelR e -> (hi <= length m0)%nat -> (hi <= g)%nat -> TrCmp18Brk.globals_at (firstn hi m0) ->
  nonul s -> chrs_ok s chrs -> (length s + 2 <= fuelR)%nat -> (Z.of_nat (length s) < 2147483647)%Z -> (16 < fuelR)%nat ->
  set_in (firstn hi m0) fuelR rslr lr -> set_in (firstn hi m0) fuelR rsrl rl ->
  (forall rs, lr = Some rs -> set_ok fuelR rs) -> (forall rs, rl = Some rs -> set_ok fuelR rs) ->
  oracle_on m0 [g] ext s chrs rslr rsrl (find_raw lr rl s chrs).
Proof. intros m0 hi fuelR e g ext s chrs rslr rsrl lr rl H1 H2 H3 H4. exact (find_oracle_on m0 hi fuelR e g ext H1 H2 H3 H4 s chrs rslr rsrl lr rl). Qed.
Print Assumptions C18_tr_find_is_oracle.

(* ... and the context *)
Theorem C18_tr_find_is_ctx_oracle : forall (m0 : mem) hi fuelR e g ext sb s rsctx rc,
  ext_is_find ext fuelR e -> (hi <= length m0)%nat -> (hi <= g)%nat -> TrCmp18Brk.globals_at (firstn hi m0) ->
  nonul s -> (length s + 2 <= fuelR)%nat -> (Z.of_nat (length s) < 2147483647)%Z ->
  set_in (firstn hi m0) fuelR rsctx rc -> (forall rs, rc = Some rs -> set_ok fuelR rs) ->
  ctx_oracle_on m0 [g] ext rsctx sb s (find_ctx rc s).
Proof. intros m0 hi fuelR e g ext sb s rsctx rc H1 H2 H3 H4. exact (find_ctx_oracle_on m0 hi fuelR e g ext H1 H2 H3 H4 sb s rsctx rc). Qed.
Print Assumptions C18_tr_find_is_ctx_oracle.

(* the model's matcher satisfies raw_ok (no set: no match; the index is a row of dirmarks; offsets are ints, the whole match has
   offsets >= 0): nothing is assumed of it any more *)
Theorem C18_find_raw_ok : forall (M : mem) fuel rslr rsrl lr rl s chrs,
  set_in M fuel rslr lr -> set_in M fuel rsrl rl ->
  (forall rs, lr = Some rs -> set_ok fuel rs /\ (RsetDefs.rs_n rs <= length dirmarks)%nat) ->
  (forall rs, rl = Some rs -> set_ok fuel rs /\ (RsetDefs.rs_n rs <= length dirmarks)%nat) ->
  chrs_ok s chrs -> (Z.of_nat (length s) <= 2147483647)%Z -> (forall b e, length (substr s chrs b e) <= length s)%nat ->
  raw_ok rslr rsrl (find_raw lr rl s chrs).
Proof. exact find_raw_ok. Qed.
Print Assumptions C18_find_raw_ok.

Theorem C18_tr_dir_context_full : forall ext fuelR e (m : mem) hi sb s xtd rsctx rslr rsrl rc lr rl d fuel,
  ext_is_find ext fuelR e -> ctx_world m sb s xtd rsctx -> nonul s -> sets_world m hi fuelR rsctx rslr rsrl rc lr rl ->
  (length s + 2 <= fuelR)%nat -> (Z.of_nat (length s) < 2147483647)%Z ->
  exists m', callx ext cprog fuel (S (S d)) F_dir_context [VPtr sb 0%Z] m = Ok (VInt (dir_context s xtd (find_ctx rc s)), m') /\ mem_ext m m' [].
Proof. exact tr_dir_context_full. Qed.
Print Assumptions C18_tr_dir_context_full.

Theorem C18_tr_dir_match_full : forall ext fuelR e fuel d (m : mem) hi sb s cb chrs rsctx rslr rsrl rc lr rl b e' ctx prec prb pre pcb pce pdir,
  ext_is_find ext fuelR e -> dir_world m sb s cb chrs rslr rsrl -> (b <= e' < length chrs)%nat ->
  outs_ok m sb cb (dm_outs prec prb pre pcb pce pdir) -> sets_world m hi fuelR rsctx rslr rsrl rc lr rl ->
  (length s + 2 <= fuelR)%nat -> (length s < fuel)%nat ->
  let raw := find_raw lr rl s chrs in
  exists m',
    callx ext cprog fuel (S (S (S (S d)))) F_dir_match (dm_args cb b e' ctx prec prb pre pcb pce pdir) m
    = Ok (VInt (match dir_match s chrs raw b e' ctx with Some _ => 0 | None => 1 end)%Z, m') /\
    match dir_match s chrs raw b e' ctx with
    | Some res => mem_ext m m' (dm_outs prec prb pre pcb pce pdir) /\ res_cells m' prec prb pre pcb pce pdir res
    | None => mem_ext m m' []
    end.
Proof. exact tr_dir_match_full. Qed.
Print Assumptions C18_tr_dir_match_full.

(* THE REORDERING ON THE C TEXT, NO ORACLE LEFT FOR THE MATCHER: the translated dir_reorder, with the translated rset_find and the
   translated regexec under it, leaves in the order array what DirDefs.dir_reorder computes with C10's model of the matcher on the sets
   in memory; no other block that existed changes *)
Theorem C18_tr_dir_reorder_full : forall ext fuelR e FUEL d (m : mem) hi sb s xtd rsctx rslr rsrl rc lr rl g ord ord',
  ext_is_find ext fuelR e ->
  reorder_world m sb s xtd rsctx rslr rsrl -> sets_world m hi fuelR rsctx rslr rsrl rc lr rl -> (hi <= g)%nat ->
  int_arr_at m g (map Z.of_nat ord) -> ints_ok (map Z.of_nat ord) -> ~ In g (reorder_blocks sb) -> (uc_slen s <= length ord)%nat ->
  (length s + 2 <= fuelR)%nat ->
  let raw := find_raw lr rl s (uc_chop s) in
  cm_ok (dir_match s (uc_chop s) raw) (uc_slen s) ->
  (S (S (length s)) < FUEL)%nat ->
  dir_reorder s xtd (find_ctx rc s) raw ord = Some ord' ->
  exists m', callx ext cprog FUEL (S (S (S (S (S (S (S (uc_slen s) + d))))))) F_dir_reorder [VPtr sb 0%Z; VPtr g 0%Z] m = Ok (VUndef, m') /\
    mem_ext m m' [g] /\ int_arr_at m' g (map Z.of_nat ord').
Proof. exact tr_dir_reorder_full. Qed.
Print Assumptions C18_tr_dir_reorder_full.

(* non-vacuity: the three sets of dir_init for the dirmarks / dircontexts patterns of conf.h (GenConf.v), compiled by the model's
   rset_make / regcomp and laid out behind the global blocks; the line "ab " U+0628 U+0629 " cd" (8 characters, 10 bytes) and its
   order array appended; xtd = 1.  Every hypothesis of C18_tr_dir_reorder_full holds for that memory (the sets are checked by the
   boolean checker TrCmp18Ex.rset_atb, sound: rset_atb_ok), the context set finds the left-to-right context, the model swaps the
   two Arabic letters, and the translated dir_reorder RUN by vm_compute with the translated rset_find / regexec under it (ext_find)
   leaves the same order 0 1 2 4 3 5 6 7 *)
Example C18_tr_full_nonvacuous :
  ext_is_find (ext_find ex_fuel 0) ex_fuel 0 /\
  reorder_world ex_mem ex_sb ex_s 1 (VPtr ex_pctx 0%Z) (VPtr ex_plr 0%Z) (VPtr ex_prl 0%Z) /\
  sets_world ex_mem ex_hi ex_fuel (VPtr ex_pctx 0%Z) (VPtr ex_plr 0%Z) (VPtr ex_prl 0%Z) (Some ex_ctx) (Some ex_lr) (Some ex_rl) /\
  (ex_hi <= ex_g)%nat /\ int_arr_at ex_mem ex_g (map Z.of_nat (seq 0 8)) /\ ints_ok (map Z.of_nat (seq 0 8)) /\ ~ In ex_g (reorder_blocks ex_sb) /\
  (uc_slen ex_s <= 8)%nat /\ (length ex_s + 2 <= ex_fuel)%nat /\
  cm_ok (dir_match ex_s (uc_chop ex_s) ex_raw) (uc_slen ex_s) /\
  find_ctx (Some ex_ctx) ex_s = 1%Z /\ ex_model = Some [0; 1; 2; 4; 3; 5; 6; 7]%nat /\
  ex_run = Some (Some (map VInt [0; 1; 2; 4; 3; 5; 6; 7]%Z)).
Proof. exact cmp18_nonvacuous. Qed.
