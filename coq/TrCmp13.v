(* TrCmp13.v -- C13, composition: lbuf_search of mot.c on the C text with NOTHING left on an oracle, literal path.

   TrSearchLit.tr_lbuf_search_lit has the scan (lbuf_search) and the matching (rstr_find, match_case, isword) on the C text, relative to
   what rstr_make answers (a struct rstr of the fast path somewhere behind the blocks of the call) and to rstr_free.  Here the call
   semantics answers X_rstr_make / X_rstr_free (extern indices because of `@extern mot.c rstr_make / rstr_free`) with THE TRANSLATED
   rstr_make / rstr_free of rstr.c (ext_is_make, ext_is_free; ext_link13 is the smallest such semantics): for every keyword string that
   the classifier of rstr.c accepts ([^][\<]literal[\>][$]; ignore-case from xic), TrRstrMake.tr_rstr_make_model builds exactly the
   struct the scan theorem asks for, and TrRstrMake.tr_rstr_free_simple frees it and the literal at the end.  Result: the call of
   lbuf_search returns what SearchDefs.lbuf_search_g returns with the matcher find_lit rs (RstrDefs.rstr_find: the least offset at
   which the anchored literal holds, TrSearchLit2.find_lit_least), *row / *off / *len hold the model's position, and of the blocks
   the call allocated the struct and the literal are freed (the cell of rstr_make's parameter `re` and lbuf_search's offs[2] stay
   behind: c2clite gives address-taken locals a block of their own that the term never frees).
   No oracle hypothesis of TrSearch.v is false of the real functions: find_ans is stated for the memories of one scan (smem), and the
   rstr_make hypothesis of tr_lbuf_search is about one call on one explicit memory. *)
From Coq Require Import List ZArith NArith Bool Lia Arith.
From NV Require Import Bytes GenConsts UcDefs RstrDefs CLite CLiteProps GenCFuncs CLiteTac CLiteExt TrLbufBase TrMot TrRstr.
From NV Require SearchDefs RstrProps TrRstrMake.
From NV Require Import TrSearch TrSearchLit.
Import ListNotations.
Local Open Scope Z_scope.

Definition ext_is_make (ext : nat -> list val -> mem -> CLite.res (val * mem)) (fuelM dM : nat) : Prop :=
  forall args m, ext X_rstr_make args m = callf cprog fuelM (S (S dM)) F_rstr_make args m.
Definition ext_is_free (ext : nat -> list val -> mem -> CLite.res (val * mem)) (fuelR dR : nat) : Prop :=
  forall args m, ext X_rstr_free args m = callf cprog fuelR (S dR) F_rstr_free args m.
Definition ext_link13 (fuelM dM fuelR dR : nat) : nat -> list val -> mem -> CLite.res (val * mem) :=
  fun f args m => if Nat.eqb f X_rstr_make then callf cprog fuelM (S (S dM)) F_rstr_make args m
                  else if Nat.eqb f X_rstr_free then callf cprog fuelR (S dR) F_rstr_free args m else Err EShape.
Lemma ext_link13_ok fuelM dM fuelR dR : ext_is_make (ext_link13 fuelM dM fuelR dR) fuelM dM /\ ext_is_free (ext_link13 fuelM dM fuelR dR) fuelR dR.
Proof.
  split; intros args m; unfold ext_link13.
  - rewrite Nat.eqb_refl. reflexivity.
  - destruct (Nat.eqb X_rstr_free X_rstr_make) eqn:E; [vm_compute in E; discriminate|]. rewrite Nat.eqb_refl. reflexivity.
Qed.

(* the literal of an accepted pattern is a piece of the pattern *)
Lemma simple_lit13 ic pat rs : rstr_simple ic pat = Some rs -> nonul pat ->
  nonul (r_str rs) /\ (length (r_str rs) <= length pat)%nat /\ r_icase rs = ic.
Proof.
  intros H Hn. destruct (RstrProps.rstr_simple_sound _ _ _ H) as (Ep & _ & Eic). split; [|split; [|exact Eic]].
  - rewrite Ep in Hn. unfold spat_string, spat_of in Hn. cbn [p_lit] in Hn. unfold nonul in Hn.
    apply Forall_app in Hn. destruct Hn as [_ Hn]. apply Forall_app in Hn. destruct Hn as [_ Hn]. apply Forall_app in Hn. exact (proj1 Hn).
  - rewrite Ep. unfold spat_string, spat_of. cbn [p_lit]. rewrite !app_length. lia.
Qed.

Theorem tr_lbuf_search_literal_full ext F D fuelM dM fuelR dR (m : mem) lb bln lbs lines br bo bl kb (kw : bytes) (ko : nat) rs dir r0 o0 xic vl :
  ext_is_make ext fuelM dM -> ext_is_free ext fuelR dR ->
  lbuf_at m lb bln lbs lines -> lines_small lines -> lines_fit lines -> (length lines + maxlen lines + 4 < F)%nat ->
  dir_ok dir -> Z.of_nat r0 <= 2147483647 -> Z.of_nat o0 < 2147483647 ->
  NoDup [br; bo; bl] -> (forall k, In k [br; bo; bl] -> ~ In k (lb :: bln :: lbs)) ->
  nth_error m br = Some [VInt (Z.of_nat r0)] -> nth_error m bo = Some [VInt (Z.of_nat o0)] -> nth_error m bl = Some [vl] ->
  cell_at m G_xic xic -> i32 xic ->
  (* the keyword: a C string, accepted by the classifier of rstr.c *)
  let flg := if xic =? 0 then 0 else 1 in
  let ic := nz (Z.land flg RE_ICASE) in
  str_at m kb kw -> nonul kw -> (ko <= length kw)%nat -> nth_error m TrRstrMake.G_meta = Some TrRstrMake.gb_meta ->
  Z.of_nat (length kw) < 2147483647 -> (length kw < fuelM)%nat -> (length kw < F)%nat ->
  rstr_simple ic (skipn ko kw) = Some rs ->
  let find := find_lit rs in
  let res := SearchDefs.lbuf_search_g (fm_of find) lines (0 <? dir) r0 o0 in
  res <> SearchDefs.SOOB ->
  let rb := S (S (length m)) in
  exists mf c, length c = 2%nat /\
    callx ext cprog F (S (S (S (S D)))) F_lbuf_search [VPtr lb 0; VPtr kb (Z.of_nat ko); VInt dir; VPtr br 0; VPtr bo 0; VPtr bl 0] m
    = Ok (VInt (sres_ret res), upd (upd mf (S rb) []) rb []) /\
    length mf = (length m + 4)%nat /\
    nth_error mf br = Some [VInt (sres_r res (Z.of_nat r0))] /\ nth_error mf bo = Some [VInt (sres_o res (Z.of_nat o0))] /\
    nth_error mf bl = Some [sres_l res vl] /\ nth_error mf (length m) = Some c /\
    (forall k, (k < length m)%nat -> k <> br -> k <> bo -> k <> bl -> nth_error mf k = nth_error m k).
Proof.
  intros Hmk Hfr R Hsm Hfit HF Hdir Hr0 Ho0 Hnd Hout Hmr Hmo Hml Hxic Ixic flg ic Hkw Hnk Hko Hmeta Hkm HfM HfF Hsim find res Hres rb.
  assert (Hns : nonul (skipn ko kw)) by (apply Forall_skipn'; exact Hnk).
  destruct (simple_lit13 ic (skipn ko kw) rs Hsim Hns) as (Hnl & Hll & Eic). rewrite skipn_length in Hll.
  set (ma := m ++ [[VUndef; VUndef]]).
  assert (La : length ma = S (length m)) by (unfold ma; rewrite app_length; cbn [length]; lia).
  assert (Lt : forall b (blk : block), nth_error m b = Some blk -> (b < length m)%nat) by (intros b blk H; apply nth_error_Some; congruence).
  assert (Hold : forall b, (b < length m)%nat -> nth_error ma b = nth_error m b) by (intros b Hb; apply nth_error_app1; exact Hb).
  assert (Hkwa : str_at ma kb kw) by (unfold str_at; rewrite Hold by (apply (Lt _ _ Hkw)); exact Hkw).
  assert (Hmetaa : nth_error ma TrRstrMake.G_meta = Some TrRstrMake.gb_meta) by (rewrite Hold by (apply (Lt _ _ Hmeta)); exact Hmeta).
  pose proof (TrRstrMake.tr_rstr_make_model ma kb kw ko flg ic rs dM fuelM Hkwa Hnk Hko Hmetaa Hkm HfM Hsim) as T.
  rewrite La in T. fold rb in T.
  set (m1 := ma ++ [[VPtr kb (Z.of_nat ko)];
                    rstr_block (S rb) (Z.land flg RE_ICASE) (b2z (r_lbeg rs)) (b2z (r_lend rs)) (b2z (r_wbeg rs)) (b2z (r_wend rs));
                    cstr_block (zb (r_str rs))]) in *.
  assert (L1 : length m1 = (length m + 4)%nat) by (unfold m1; rewrite app_length, La; cbn [length]; lia).
  assert (Ers : rs_of (r_str rs) (Z.land flg RE_ICASE) (b2z (r_lbeg rs)) (b2z (r_lend rs)) (b2z (r_wbeg rs)) (b2z (r_wend rs)) = rs).
  { unfold rs_of. rewrite !nz_b2z. fold ic. rewrite <- Eic. destruct rs; reflexivity. }
  assert (Ib : forall b : bool, int_ok (b2z b)) by (intros [|]; unfold int_ok; cbn; lia).
  assert (Iic : int_ok (Z.land flg RE_ICASE)).
  { change RE_ICASE with 1. destruct (TrRstrMake.land1_cases flg) as [E|E]; rewrite E; unfold int_ok; lia. }
  assert (Hrb1 : nth_error m1 rb = Some (rstr_block (S rb) (Z.land flg RE_ICASE) (b2z (r_lbeg rs)) (b2z (r_lend rs)) (b2z (r_wbeg rs)) (b2z (r_wend rs)))).
  { unfold m1, rb. rewrite nth_error_app2 by lia. rewrite La. replace (S (S (length m)) - S (length m))%nat with 1%nat by lia. reflexivity. }
  assert (Hbs1 : str_at m1 (S rb) (r_str rs)).
  { unfold str_at, m1, rb. rewrite nth_error_app2 by lia. rewrite La. replace (S (S (S (length m))) - S (length m))%nat with 2%nat by lia. reflexivity. }
  destruct (tr_lbuf_search_lit ext F D m lb bln lbs lines br bo bl kb (Z.of_nat ko) rb (S rb) (r_str rs) (Z.land flg RE_ICASE)
              (b2z (r_lbeg rs)) (b2z (r_lend rs)) (b2z (r_wbeg rs)) (b2z (r_wend rs)) dir r0 o0 xic vl m1
              R Hsm Hfit HF Hdir Hr0 Ho0 Hnd Hout Hmr Hmo Hml Hxic Ixic)
    as (mf & c & Lc & SM & E); try assumption; try apply Ib; try (unfold rb; lia); try (rewrite L1; lia).
  - rewrite Hmk. exact T.
  - intros k Hk. unfold m1, ma. apply nth_error_app1. rewrite app_length. cbn [length]. lia.
  - rewrite Ers. exact Hres.
  - rewrite Ers in SM, E. fold find res in SM, E.
    assert (Lbr : (br < length m)%nat) by (apply (Lt _ _ Hmr)).
    assert (Lbo : (bo < length m)%nat) by (apply (Lt _ _ Hmo)).
    assert (Lbl : (bl < length m)%nat) by (apply (Lt _ _ Hml)).
    pose proof (sm_other _ _ _ _ _ _ _ _ _ _ SM) as Hoth. pose proof (sm_len _ _ _ _ _ _ _ _ _ _ SM) as Hlen.
    assert (Hrbf : nth_error mf rb = Some (rstr_block (S rb) (Z.land flg RE_ICASE) (b2z (r_lbeg rs)) (b2z (r_lend rs)) (b2z (r_wbeg rs)) (b2z (r_wend rs))))
      by (rewrite Hoth by (unfold rb; lia); exact Hrb1).
    assert (Hbsf : nth_error mf (S rb) = Some (cstr_block (zb (r_str rs)))) by (rewrite Hoth by (unfold rb; lia); exact Hbs1).
    exists mf, c. split; [exact Lc|]. split.
    { rewrite E, Hfr.
      rewrite (TrRstrMake.tr_rstr_free_simple mf rb (S rb) _ _ _ _ _ _ dR fuelR Hrbf Hbsf); [reflexivity| |lia].
      unfold cstr_block. destruct (map VInt (zb (r_str rs))); discriminate. }
    split; [exact (eq_trans Hlen L1)|].
    split; [exact (sm_r _ _ _ _ _ _ _ _ _ _ SM)|]. split; [exact (sm_o _ _ _ _ _ _ _ _ _ _ SM)|]. split; [exact (sm_l _ _ _ _ _ _ _ _ _ _ SM)|].
    split; [exact (sm_offs _ _ _ _ _ _ _ _ _ _ SM)|].
    intros k Hk N1 N2 N3. rewrite Hoth by (try assumption; lia). unfold m1. rewrite nth_error_app1 by lia. apply Hold. exact Hk.
Qed.
Print Assumptions tr_lbuf_search_literal_full.
