(* ViInsDefs.v -- C08: insert mode with the autoindent option as a variable.
   ViDefs.v mirrors led.c led_input / vi.c vi_indents for xai = 1 (the default).  Here the option is a
   parameter [xai]: the three places of the C code that read it are
     led.c led_input : if (!xai) ai[0] = '\0';                         (after every input line)
     led.c led_input : while (xai && (post[n] == ' ' || ...)) n++; memmove(post, post + n, ...)
                       (after every typed newline the leading blanks of the text right of the
                        insertion point are removed FROM THE CALLER'S BUFFER: vi.c vi_input computes
                        the cursor as charcount(rep, post) - 1 with that shortened post)
     vi.c vi_indents : while (xai && ln && ( *ln is a blank ))
   and the interpreter of key programs is repeated over them ([exec_x]: commands of ViDefs.v plus
   ":se ai" / ":se noai").  ViInsProps.v proves that xai = true gives exactly the functions of ViDefs.v.
   Second half: the reference vocabulary of the cursor theorems (C08_insert_cursor_rule,
   C08_insert_split_cursor, C08_insert_split_buffer).  Only definitions. *)
From Coq Require Import List NArith ZArith Bool.
From NV Require Import Bytes UcDefs UcSpec MotDefs RegDefs ViDefs.
Import ListNotations.
Local Open Scope Z_scope.

(* led.c: led_input's loop *)
Fixpoint led_loop_x (xai : bool) (R : regs) (segs : list (list chr)) (pref post ai acc : list chr) (nls : nat) {struct segs}
  : list chr * list chr * nat :=
  match segs with
  | [] => (acc ++ post, post, nls)
  | seg :: rest =>
      let '(ln, ai) := led_line R (is_nil pref) seg ai in
      let sp := length (fst (span_blank ln)) in
      let last := is_nil rest in
      let use_ai := negb (Nat.eqb (length ln) sp) || negb (is_nil pref)
                    || (last && match post with c :: _ => negb (is_nlb c) | [] => false end) in
      let acc := acc ++ (if use_ai then ai else []) ++ pref ++ ln ++ (if last then [] else [nlc]) in
      let nls := (nls + length (filter is_nlb ln) + (if last then 0 else 1))%nat in
      let ai := if is_nil pref then ai ++ firstn (Nat.min sp (ai_max - length ai)) ln else ai in
      let ai := if xai then ai else [] in                                   (* if (!xai) ai[0] = '\0' *)
      if last then (acc ++ post, post, nls)
      else led_loop_x xai R rest [] (if xai then snd (span_blank post) else post) ai acc nls
  end.
Definition led_input_x (xai : bool) (R : regs) (pref post typed : list chr) : list chr * list chr * nat :=
  let (ai, pref') := span_blank_n ai_max pref in
  led_loop_x xai R (split_typed typed) pref' post ai [] 0%nat.
(* vi.c: vi_input *)
Definition vi_input_x (xai : bool) (R : regs) (pref post typed : list chr) : list chr * Z * Z * nat :=
  let '(rep, post', nls) := led_input_x xai R pref post typed in
  (rep, count_nl rep, Z.max 0 (charcount rep post' - 1), nls).
(* vi.c: vi_indents *)
Definition vi_indents_x (xai : bool) (ol : option line) : list chr := if xai then vi_indents ol else [].

(* vi.c: vi_change *)
Definition vi_change_x (xai : bool) (rows : Z) (b : buf) (R : regs) (s : vst) (ybuf : N) (g : region) (typed : list chr) : est :=
  let R' := reg_put R ybuf (flat (region_text b g)) (g_ln g) in
  let pref := if g_ln g then vi_indents_x xai (getl b (g_r1 g)) else sub_l (optl (getl b (g_r1 g))) 0 (g_o1 g) in
  let post := if g_ln g || (blen b =? 0) then [nlc] else sub_l (optl (getl b (g_r2 g))) (g_o2 g) (-1) in
  let '(rep, row, off, nls) := vi_input_x xai R' pref post typed in
  let top' := snd (nextlines rows nls (g_r1 g, v_top s)) in
  let b' := lbuf_edit b (Some rep) (g_r1 g) (g_r2 g + 1) in
  finish rows b' R' (vs_top (vs_pos s (g_r1 g + row - 1) off) top') true.
(* vi.c: vc_motion; only the change operator reads the option *)
Definition exec_op_x (xai : bool) (rows : Z) (e : est) (ybuf : N) (a1 : Z) (op : okey) (a2 : Z) (t : tgt) (typed : list chr) : option est :=
  let b := s_buf e in let s := s_vs e in let R := s_regs e in
  let o1 := ren_noeol (getl b (v_row s)) (v_off s) in
  match op with
  | Oc => match op_target b rows s a1 a2 t o1 with
          | TFuel => None
          | TFail cl cc => Some (finish rows b R (vs_mot s cl cc (v_pcol s)) false)
          | TOk k r2 o2 cl cc pc =>
              let s := vs_mot s cl cc pc in
              Some (vi_change_x xai rows b R s ybuf (vc_region b k (v_row s) o1 r2 o2) typed)
          end
  | _ => exec_op rows e ybuf a1 op a2 t typed
  end.
(* vi.c: vc_insert *)
Definition exec_insert_x (xai : bool) (rows : Z) (e : est) (k : ikey) (typed : list chr) : est :=
  let b := s_buf e in let s := s_vs e in let R := s_regs e in
  let oln := getl b (v_row s) in
  let xoff := match k with II => lbuf_indents b (v_row s) | IA => lbuf_eol b (v_row s) | _ => v_off s end in
  let xoff := ren_noeol oln xoff in
  let rt := match k with Io => nextlines rows 1 (v_row s, v_top s) | _ => (v_row s, v_top s) end in
  let off := match k with Ii | II => xoff | Ia | IA => xoff + 1 | _ => 0 end in
  let off := match oln with Some (c :: _) => if is_nlb c then 0 else off | _ => off end in
  let line_ins := match oln with Some _ => negb (is_oO k) | None => false end in
  let pref := if line_ins then sub_l (optl oln) 0 off else vi_indents_x xai oln in
  let post := if line_ins then sub_l (optl oln) off (-1) else [nlc] in
  let '(rep, row, off', nls) := vi_input_x xai R pref post typed in
  let (xrow, top') := nextlines rows nls rt in
  let b1 := if is_oO k && (blen b =? 0) then lbuf_edit b (Some [nlc]) 0 0 else b in
  let beg := xrow - row + 1 in
  let b' := lbuf_edit b1 (Some rep) beg (beg + (if is_oO k then 0 else 1)) in
  finish rows b' R (vs_top (vs_pos s xrow off') top') true.

(* key programs with the option: the commands of ViDefs.v, and ":se ai" / ":se noai" (vi(): ex_command, then
   mod = VC_ALL: vi_wfix and the column refreshed) *)
Inductive xcmd := XC (c : cmd) | XAi (on : bool).
Definition exec1_x (rows : Z) (c : xcmd) (st : est * bool) : option (est * bool) :=
  let (e, xai) := st in
  match c with
  | XAi on => Some (finish rows (s_buf e) (s_regs e) (s_vs e) true, on)
  | XC (COp reg a1 op a2 t typed) =>
      match exec_op_x xai rows e reg a1 op a2 t typed with Some e' => Some (e', xai) | None => None end
  | XC (CIns k typed) => Some (exec_insert_x xai rows e k typed, xai)
  | XC c => match exec1 rows c e with Some e' => Some (e', xai) | None => None end
  end.
Fixpoint exec_x (rows : Z) (cs : list xcmd) (st : est * bool) : option (est * bool) :=
  match cs with
  | [] => Some st
  | c :: r => match exec1_x rows c st with Some st' => exec_x rows r st' | None => None end
  end.
Definition exec_prog_x (b : buf) (rows : Z) (cs : list xcmd) : option (est * bool) := exec_x rows cs (init_est b, true).

(* ---------- reference vocabulary of the cursor theorems ---------- *)
(* the text after the last newline of a text (all of it when there is none) *)
Fixpoint last_line (t : list chr) : list chr :=
  match t with
  | [] => []
  | c :: r => if existsb is_nlb r then last_line r else if is_nlb c then r else t
  end.
Definition has_nl (t : list chr) : bool := existsb is_nlb t.
(* what is left of the text right of the insertion point when the input ends: its leading blanks go when a
   newline was typed under autoindent *)
Definition post_left (xai : bool) (typed post : list chr) : list chr :=
  if xai && has_nl typed then snd (span_blank post) else post.

(* typed text given as input lines: line 1 <Enter> line 2 <Enter> ... line n; also a text given as line bodies *)
Fixpoint join_nl (segs : list (list chr)) : list chr :=
  match segs with
  | [] => []
  | s :: r => match r with [] => s | _ => s ++ nlc :: join_nl r end
  end.
Definition blanks_of (ln : list chr) : list chr := fst (span_blank ln).
Definition all_blank (ln : list chr) : bool := forallb is_blankc ln.
(* the autoindent carried to the next input line: under autoindent the indentation so far plus (when nothing but it
   stands left of the typed text) the leading blanks of the line just typed, at most 127 bytes in all; none without *)
Definition ref_next_ai (xai pref_empty : bool) (ai ln : list chr) : list chr :=
  if xai then (if pref_empty then ai ++ firstn (Nat.min (length (blanks_of ln)) (ai_max - length ai)) ln else ai) else [].
(* the input lines 2..n (nothing stands left of them) as they go into the buffer: a line of blanks only gets no
   indentation, unless it is the last one and text other than the line terminator follows *)
Fixpoint ref_more_lines (xai : bool) (segs : list (list chr)) (ai post : list chr) : list (list chr) :=
  match segs with
  | [] => []
  | s :: r =>
      match r with
      | [] => [(if negb (all_blank s) || match post with c :: _ => negb (is_nlb c) | [] => false end then ai else []) ++ s]
      | _ => ((if negb (all_blank s) then ai else []) ++ s) :: ref_more_lines xai r (ref_next_ai xai true ai s) post
      end
  end.
(* an insert between pref and post that types the line s1, <Enter>, and the lines of [more] (at least one): the
   bodies of the lines that replace pref ++ post up to the insertion point's right side, and what is left of post *)
Definition ref_split (xai : bool) (pref post s1 : list chr) (more : list (list chr)) : list (list chr) * list chr :=
  let (ai, pref') := span_blank_n ai_max pref in
  let post' := if xai then snd (span_blank post) else post in
  (((if negb (all_blank s1) || negb (is_nil pref') then ai else []) ++ pref' ++ s1)
     :: ref_more_lines xai more (ref_next_ai xai (is_nil pref') ai s1) post', post').
(* the typed text / replacement characters of a program are encoded scalar values (as cmd_valid of ViDefs.v) *)
Definition xcmd_valid (c : xcmd) : Prop := match c with XC c => cmd_valid c | XAi _ => True end.
