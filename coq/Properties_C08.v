(* Properties_C08.v -- C08: vi operators, inserts, puts and registers.
   Statements only; every proof is `exact <lemma>`; Print Assumptions under each. *)
From Coq Require Import List NArith ZArith Bool.
From NV Require Import Bytes UcDefs UcSpec MotDefs MotProps MotWordProps RegDefs RegProps ViDefs ViProps ViExecProps ViTargetProps ViInsDefs ViInsProps.
Import ListNotations.
Local Open Scope N_scope.

(* C08_registers, clause 1: after reg_put into a lower-case, digit or the unnamed register (any name
   that is not upper case; the name 34 = double quote is written as 0 by the callers) reg_get
   returns exactly that text and line-wise flag *)
Theorem C08_registers_put_get : forall R c s ln, c_isupper c = false -> c <> 34 ->
  reg_get (reg_put R c s ln) c = Some (s, ln).
Proof. exact put_get_plain. Qed.
Print Assumptions C08_registers_put_get.

(* clause 2: an upper-case name appends to the lower-case register *)
Theorem C08_registers_append : forall R c s ln, c_isupper c = true ->
  reg_get (reg_put R c s ln) (c + 32) =
  Some ((match R (c + 32) with Some (b, _) => b | None => [] end) ++ s, ln).
Proof. exact put_get_upper. Qed.
Print Assumptions C08_registers_append.

(* clause 3: a line-wise or multi-line put into the unnamed or an alphabetic register shifts
   1 -> 2 -> ... -> 9 (an unset register leaves its successor alone, as reg.c does) and stores the text in 1 *)
Theorem C08_registers_rotate : forall R c s ln, rot_cond c s ln = true ->
  reg_put R c s ln 49 = Some (s, ln) /\
  forall d, 49 <= d <= 56 -> reg_put R c s ln (d + 1) = match R d with Some v => Some v | None => R (d + 1) end.
Proof. exact put_rotates. Qed.
Print Assumptions C08_registers_rotate.

(* clause 4: nothing else changes: every slot other than the (lower-cased) target and, when the
   rotation applies, the digits 1..9 keeps its value *)
Theorem C08_registers_frame : forall R c s ln x, x <> c_tolower c ->
  (rot_cond c s ln = true -> ~ (49 <= x <= 57)) -> reg_put R c s ln x = R x.
Proof. exact put_frame. Qed.
Print Assumptions C08_registers_frame.

(* ---------- C08_region: the region vc_motion hands to the operator ---------- *)
Local Open Scope Z_scope.
(* rows are ordered (r1 <= r2 = the cursor row and the target row) and the region is line-wise
   exactly when the motion is a line motion (target offset < 0) *)
Theorem C08_region_rows : forall b k r1 o1 r2 o2, let g := vc_region b k r1 o1 r2 o2 in
  g_r1 g = Z.min r1 r2 /\ g_r2 g = Z.max r1 r2 /\ g_ln g = (o2 <? 0).
Proof. exact vc_region_rows. Qed.
Print Assumptions C08_region_rows.

(* inside one line: exactly the span between cursor and target, smaller offset first; exclusive for
   exclusive motions; one character longer for f F t T e E % unless the larger end is already at the
   end of the line *)
Theorem C08_region_same_row : forall b k r o1 o2 l, buf_wf b -> getl b r = Some l -> 0 <= o2 -> off_ok l (Z.min o1 o2) ->
  let g := vc_region b k r o1 r o2 in
  g_ln g = false /\ g_r1 g = r /\ g_r2 g = r /\ g_o1 g = Z.min o1 o2 /\
  g_o2 g = if incl_key k && (Z.max o1 o2 <? slen l - 1) then ren_noeol (Some l) (Z.max o1 o2) + 1 else Z.max o1 o2.
Proof. exact vc_region_same_row. Qed.
Print Assumptions C08_region_same_row.

(* C08_region (full): for every state and every operator command whose motion succeeds (op_target is the
   motion part of vc_motion: any count pair, any motion key of the C07 model or the doubled operator), the
   region handed to the operator (vc_region, the value exec_op passes on) satisfies region_spec of ViDefs.v:
   line-wise (target offset -1) = the whole lines min..max of cursor row and target row; character-wise
   = from the earlier of cursor / target to the later one, exclusive, one character further for
   f F t T e E % unless the later end is at the end of its line; and (r1, o1) <= (r2, o2) *)
Theorem C08_region : forall b rows s a1 a2 t k r2 o2 cl cc pc, buf_wf b -> 0 <= v_off s ->
  let o1 := ren_noeol (getl b (v_row s)) (v_off s) in
  op_target b rows s a1 a2 t o1 = TOk k r2 o2 cl cc pc ->
  (0 <= o2 \/ o2 = -1) /\ region_spec b k (v_row s) o1 r2 o2 (vc_region b k (v_row s) o1 r2 o2).
Proof. exact exec_region. Qed.
Print Assumptions C08_region.
(* the same rule for arbitrary positions (not only those a motion can produce) *)
Theorem C08_region_rule : forall b k r1 o1 r2 o2, buf_wf b -> 0 <= o1 -> region_spec b k r1 o1 r2 o2 (vc_region b k r1 o1 r2 o2).
Proof. exact vc_region_spec. Qed.
Print Assumptions C08_region_rule.

(* ---------- C08_delete_yank_put ---------- *)
(* character-wise inside one line: the register holds exactly the region's text, the line becomes
   before ++ after, and putting that text back before offset o1 restores the buffer *)
Theorem C08_delete_yank_put_chars : forall b R y r o1 o2 l, getl b r = Some l -> line_wf l -> 0 <= o1 <= o2 -> o2 <= slen l - 1 ->
  c_isupper y = false -> y <> 34%N ->
  let g := mk_region r o1 r o2 false in
  let '(b', R') := vi_delete b R y g in
  reg_get R' y = Some (flat (sub_l l o1 o2), false) /\
  getl b' r = Some (sub_l l 0 o1 ++ sub_l l o2 (-1)) /\
  put_chars b' r o1 (sub_l l o1 o2) = b.
Proof. exact delete_put_chars. Qed.
Print Assumptions C08_delete_yank_put_chars.

(* line-wise: the register holds the lines' text with the line-wise flag, the lines are removed,
   and putting them back above row r1 restores the buffer *)
Theorem C08_delete_yank_put_lines : forall b R y r1 r2, 0 <= r1 <= r2 -> r2 < blen b -> c_isupper y = false -> y <> 34%N ->
  let g := mk_region r1 0 r2 0 true in
  let ls := rows_between b r1 (r2 + 1) in
  let '(b', R') := vi_delete b R y g in
  reg_get R' y = Some (flat (lbuf_region b r1 0 r2 (-1)), true) /\
  b' = firstn (Z.to_nat r1) b ++ skipn (Z.to_nat (r2 + 1)) b /\
  put_lines b' r1 ls = b.
Proof. exact delete_put_lines. Qed.
Print Assumptions C08_delete_yank_put_lines.

(* C08_delete_yank_put at the level of the interpreter [exec_op] / [exec_put], for all buffers, states,
   counts, motions and plain register names.
   yank: the buffer is unchanged and the register holds exactly the region's text with its line-wise flag *)
Theorem C08_yank_exec : forall rows e y a1 a2 t k r2 o2 cl cc pc e1, plain_reg y ->
  let b := s_buf e in let s := s_vs e in
  let o1 := ren_noeol (getl b (v_row s)) (v_off s) in
  op_target b rows s a1 a2 t o1 = TOk k r2 o2 cl cc pc ->
  let g := vc_region b k (v_row s) o1 r2 o2 in
  exec_op rows e y a1 Oy a2 t [] = Some e1 ->
  s_buf e1 = b /\ reg_get (s_regs e1) y = Some (flat (region_text b g), g_ln g).
Proof. exact yank_spec. Qed.
Print Assumptions C08_yank_exec.
(* line-wise delete (dd, dj, dG, ...): the register holds the lines' text, the lines are removed; when a line
   is left below them the cursor is on the row of the first deleted line and P of that register restores
   the buffer (through the bytes of the register: chop after flat) *)
Theorem C08_delete_put_lines_exec : forall rows e y a1 a2 t k r2 o2 cl cc pc e1, plain_reg y ->
  let b := s_buf e in let s := s_vs e in
  let o1 := ren_noeol (getl b (v_row s)) (v_off s) in
  buf_wf b -> buf_valid b ->
  op_target b rows s a1 a2 t o1 = TOk k r2 o2 cl cc pc ->
  let g := vc_region b k (v_row s) o1 r2 o2 in
  g_ln g = true -> 0 <= g_r1 g -> g_r2 g < blen b ->
  exec_op rows e y a1 Od a2 t [] = Some e1 ->
  reg_get (s_regs e1) y = Some (flat (concat (rows_between b (g_r1 g) (g_r2 g + 1))), true) /\
  s_buf e1 = firstn (Z.to_nat (g_r1 g)) b ++ skipn (Z.to_nat (g_r2 g + 1)) b /\
  (g_r2 g + 1 < blen b -> v_row (s_vs e1) = g_r1 g /\ s_buf (exec_put rows e1 y 0 false) = b).
Proof. exact delete_lines_spec. Qed.
Print Assumptions C08_delete_put_lines_exec.
(* character-wise delete over any number of lines (x, dw, d}, db across a line end, ...): the register holds
   exactly lbuf_region, the rows r1..r2 become the single line before ++ after, the cursor row is r1;
   when the cursor can stay at the start of the region (off_ok: not clamped by the end of the new line)
   and the region is not empty, P of that register restores the buffer.  The hypothesis
   g_o2 <= slen l2 - 1 (the region ends at or before the terminator of its last line) holds for every motion
   target of the repaired code; it is kept as a hypothesis because no theorem bounds the targets of all
   motions by lbuf_eol (before repo 27e5b4d it failed for d^ on a line without a non-blank) *)
Theorem C08_delete_put_chars_exec : forall rows e y a1 a2 t k r2 o2 cl cc pc e1 l1 l2, plain_reg y ->
  let b := s_buf e in let s := s_vs e in
  let o1 := ren_noeol (getl b (v_row s)) (v_off s) in
  buf_wf b -> buf_valid b -> 0 <= v_off s ->
  op_target b rows s a1 a2 t o1 = TOk k r2 o2 cl cc pc ->
  let g := vc_region b k (v_row s) o1 r2 o2 in
  g_ln g = false -> getl b (g_r1 g) = Some l1 -> getl b (g_r2 g) = Some l2 -> g_o2 g <= slen l2 - 1 ->
  exec_op rows e y a1 Od a2 t [] = Some e1 ->
  let nl := sub_l l1 0 (g_o1 g) ++ sub_l l2 (g_o2 g) (-1) in
  let txt := lbuf_region b (g_r1 g) (g_o1 g) (g_r2 g) (g_o2 g) in
  reg_get (s_regs e1) y = Some (flat txt, false) /\
  s_buf e1 = firstn (Z.to_nat (g_r1 g)) b ++ [nl] ++ skipn (Z.to_nat (g_r2 g + 1)) b /\
  v_row (s_vs e1) = g_r1 g /\
  (off_ok nl (g_o1 g) -> flat txt <> [] -> v_off (s_vs e1) = g_o1 g /\ s_buf (exec_put rows e1 y 0 false) = b).
Proof. exact delete_chars_spec. Qed.
Print Assumptions C08_delete_put_chars_exec.
(* every operator target is a position of the buffer: for a non-empty well-formed buffer and a valid cursor, a
   successful motion of an operator command is either a line motion (offset -1) or ends on an existing character
   (possibly the terminator) of an existing line -- for every motion key of the C07 model, count and state *)
Theorem C08_target_is_position : forall b rows s a1 a2 t k r2 o2 cl cc pc, buf_wf b -> b <> [] -> cursor_ok b (v_row s) (v_off s) ->
  op_target b rows s a1 a2 t (ren_noeol (getl b (v_row s)) (v_off s)) = TOk k r2 o2 cl cc pc ->
  o2 = -1 \/ (exists l, getl b r2 = Some l /\ 0 <= o2 < slen l).
Proof. exact op_target_vpos. Qed.
Print Assumptions C08_target_is_position.
(* hence C08_delete_put_chars_exec WITHOUT side conditions on the region: for every non-empty well-formed valid buffer,
   valid cursor, count pair, motion and plain register, a character-wise delete finds both rows of its region, the
   region ends at or before the terminator of its last line, and the four conclusions hold *)
Theorem C08_delete_put_chars_total : forall rows e y a1 a2 t k r2 o2 cl cc pc e1, plain_reg y ->
  let b := s_buf e in let s := s_vs e in
  let o1 := ren_noeol (getl b (v_row s)) (v_off s) in
  buf_wf b -> buf_valid b -> b <> [] -> cursor_ok b (v_row s) (v_off s) ->
  op_target b rows s a1 a2 t o1 = TOk k r2 o2 cl cc pc ->
  let g := vc_region b k (v_row s) o1 r2 o2 in
  g_ln g = false ->
  exec_op rows e y a1 Od a2 t [] = Some e1 ->
  exists l1 l2, getl b (g_r1 g) = Some l1 /\ getl b (g_r2 g) = Some l2 /\ g_o2 g <= slen l2 - 1 /\
  let nl := sub_l l1 0 (g_o1 g) ++ sub_l l2 (g_o2 g) (-1) in
  let txt := lbuf_region b (g_r1 g) (g_o1 g) (g_r2 g) (g_o2 g) in
  reg_get (s_regs e1) y = Some (ViDefs.flat txt, false) /\
  s_buf e1 = firstn (Z.to_nat (g_r1 g)) b ++ [nl] ++ skipn (Z.to_nat (g_r2 g + 1)) b /\
  v_row (s_vs e1) = g_r1 g /\
  (off_ok nl (g_o1 g) -> ViDefs.flat txt <> [] -> v_off (s_vs e1) = g_o1 g /\ s_buf (exec_put rows e1 y 0 false) = b).
Proof. exact delete_chars_total. Qed.
Print Assumptions C08_delete_put_chars_total.
(* ... and C08_delete_put_lines_exec without side conditions on the region: the rows of a line-wise region exist
   (counts that overrun are clamped), for every line motion or doubled operator with counts a1, a2 >= 0 *)
Theorem C08_delete_put_lines_total : forall rows e y a1 a2 t k r2 o2 cl cc pc e1, plain_reg y ->
  let b := s_buf e in let s := s_vs e in
  let o1 := ren_noeol (getl b (v_row s)) (v_off s) in
  buf_wf b -> buf_valid b -> b <> [] -> cursor_ok b (v_row s) (v_off s) -> 0 <= a1 -> 0 <= a2 ->
  op_target b rows s a1 a2 t o1 = TOk k r2 o2 cl cc pc ->
  let g := vc_region b k (v_row s) o1 r2 o2 in
  g_ln g = true ->
  exec_op rows e y a1 Od a2 t [] = Some e1 ->
  0 <= g_r1 g /\ g_r1 g <= g_r2 g /\ g_r2 g < blen b /\
  reg_get (s_regs e1) y = Some (ViDefs.flat (concat (rows_between b (g_r1 g) (g_r2 g + 1))), true) /\
  s_buf e1 = firstn (Z.to_nat (g_r1 g)) b ++ skipn (Z.to_nat (g_r2 g + 1)) b /\
  (g_r2 g + 1 < blen b -> v_row (s_vs e1) = g_r1 g /\ s_buf (exec_put rows e1 y 0 false) = b).
Proof. exact delete_lines_total. Qed.
Print Assumptions C08_delete_put_lines_total.
(* not covered by a theorem: p (put after) and counts on puts as a round trip, upper-case (appending)
   registers in the round trip, "u restores" (C04) *)

(* ---------- C08_utf8 (full for the modelled command set) ---------- *)
(* every program of modelled commands (motions, d y c < > g~ gu gU with any motion or doubled, x X D C s S Y ~,
   p P, J, r, i a I A o O with the insert-mode keys ^H DEL ^U ^W ^T ^D ^P ^R<reg> ^V<key> and newline) maps a state whose buffer
   lines are lists of encoded scalar values and whose registers hold valid UTF-8, together with typed text
   and replacement characters that are encoded scalar values, to such a state again; hence the bytes of
   every line and of every register are valid UTF-8 (UcSpec.valid, the C16 notion).  No well-formedness
   of the lines is needed.  The key after ^V is assumed to be an encoded scalar value like all typed text
   (^V followed by an arbitrary byte inserts raw bytes by design: the C16 exception).  Not covered (not
   modelled): ^K, the ! filter *)
Theorem C08_utf8 : forall rows cs e e', est_valid e -> Forall cmd_valid cs -> exec rows cs e = Some e' ->
  est_valid e' /\ Forall (fun l => valid (flat l)) (s_buf e') /\
  (forall c t ln, reg_get (s_regs e') c = Some (t, ln) -> valid t).
Proof. exact exec_utf8. Qed.
Print Assumptions C08_utf8.
(* the initial state of a program (no register set) over a valid buffer is such a state *)
Theorem C08_utf8_initial : forall b, buf_valid b -> est_valid (init_est b).
Proof. exact init_est_valid. Qed.
Print Assumptions C08_utf8_initial.
(* ... and so is the state made from any valid UTF-8 file image (cut into lines at the newline bytes, a missing
   last terminator added, every line cut into characters with uc_next) *)
Theorem C08_utf8_file : forall s, valid s -> est_valid (init_est (buf_of_bytes s)).
Proof. exact init_file_valid. Qed.
Print Assumptions C08_utf8_file.
(* the text that reaches a register from the character view is valid UTF-8 *)
Theorem C08_utf8_register : forall cs, line_valid cs -> valid (flat cs).
Proof. exact flat_valid. Qed.
Print Assumptions C08_utf8_register.
(* ---------- the repaired ^ target (finding of this check, repaired in /repo by 27e5b4d) ---------- *)
(* before the repair the target of ^ on a line without a non-blank was the position after the terminator, and
   d^ on an empty line deleted the LINE (corpus/C08-kf-caret.json).  The mirror of the repaired code: on the lines
   'a', '' (empty), 'b' the keys :2 d^ leave the three lines and put nothing but the empty text into the registers *)
Example C08_caret_target_fixed :
  let b := buf_of_bytes [97; 10; 10; 98; 10]%N in
  match exec_prog b 23 [CGoto 2; COp 0 0 Od 0 (TMot Kcaret) []] with
  | Some e => s_buf e = b /\ reg_get (s_regs e) 49 = None /\ reg_get (s_regs e) 34 = Some ([], false)
  | None => False
  end.
Proof. vm_compute. repeat split; reflexivity. Qed.

(* ---------- the state invariant of the modelled commands ---------- *)
(* every program of modelled commands keeps: valid UTF-8 (C08_utf8), every line well formed (exactly one newline
   character, at its end), and the cursor on an existing character of an existing line (C07's cursor_ok; (0,0) in
   the empty buffer) -- so the hypotheses of the per-command theorems below hold again after every command *)
Theorem C08_state_invariant : forall rows cs e e', est_inv e -> Forall cmd_valid cs -> exec rows cs e = Some e' -> est_inv e'.
Proof. exact exec_inv. Qed.
Print Assumptions C08_state_invariant.
Theorem C08_state_invariant_initial : forall b, buf_wf b -> buf_valid b -> est_inv (init_est b).
Proof. exact init_inv. Qed.
Print Assumptions C08_state_invariant_initial.

(* the interpreter is total on such states: no program of modelled commands with valid typed text ever hits the
   out-of-fuel result of the C07 scanners (also on the empty buffer), and it ends in such a state again -- the
   `= Some ...` hypotheses of the theorems of this file are always satisfiable *)
Theorem C08_exec_total : forall rows cs e, est_inv e -> Forall cmd_valid cs -> exists e', exec rows cs e = Some e' /\ est_inv e'.
Proof. exact exec_total. Qed.
Print Assumptions C08_exec_total.

(* ---------- C08_refines (PARTIAL) ---------- *)
(* Full statement aimed at (DESIGN section 6): for every program of x X D C s S Y J r ~ g~ gu gU < > p P and inserts,
   text, cursor and registers of the interpreter equal those of a smaller declarative reference.
   PROVED below, each for every well-formed buffer, valid cursor and count: x X D (C08_refines_x_X_D_partial), ~
   (C08_refines_tilde_partial), r (C08_refines_replace_partial), p P of one-line character-wise text and of
   line-wise text (C08_refines_put_chars_partial, C08_refines_put_lines_partial), i a with plain typed text
   (C08_refines_insert_plain_partial), Y (C08_refines_Y_partial), s C with plain typed text
   (C08_refines_s_C_plain_partial), S (C08_refines_S_plain_partial), o O (C08_refines_open_plain_partial), A (C08_refines_A_plain_partial), J of two lines (C08_refines_J_partial), g~~ guu gUU (C08_refines_case_lines_partial), >> << (C08_refines_shift_partial).  The references are the small functions ref_span, ref_line_delete,
   ref_tilde, ref_replace, ref_put_off, ref_put_row, ref_ins_off of ViDefs.v on the BODY of the cursor line.
   MISSING: J with a count above 2 and d c y g~ gu gU with arbitrary motions (< > with a motion other than the doubled key), I, inserts containing editing keys, newlines or only
   blanks (autoindent), puts of character-wise text containing a newline, and the composition over whole
   programs; the sticky column and the window top are not part of the statements.  Those commands are mirrored
   only and tied to the independent reference Ref8 and to the code by the correspondence run. *)
Theorem C08_refines_x_X_D_partial : forall rows e k y cnt e1 body, plain_reg y ->
  let b := s_buf e in let s := s_vs e in
  buf_wf b -> cursor_ok b (v_row s) (v_off s) -> getl b (v_row s) = Some (body ++ [nlc]) -> 0 <= cnt ->
  exec1 rows (lcmd k y cnt) e = Some e1 ->
  let '(a, z) := ref_span k (Z.max 1 cnt) (v_off s) (Z.of_nat (length body)) in
  let '(nb, del) := ref_line_delete body a z in
  s_buf e1 = set_row b (v_row s) [nb ++ [nlc]] 1 /\
  reg_get (s_regs e1) y = Some (flat del, false) /\
  v_row (s_vs e1) = v_row s /\ v_off (s_vs e1) = ren_noeol (Some (nb ++ [nlc])) a.
Proof. exact refines_line_deletes. Qed.
Print Assumptions C08_refines_x_X_D_partial.
(* ~ with a count: the case of [o, min (o+n) len) is flipped (ASCII letters only), registers untouched, the cursor
   goes to the end of the span (clamped to the last character) *)
Theorem C08_refines_tilde_partial : forall rows e cnt e1 body,
  let b := s_buf e in let s := s_vs e in
  buf_wf b -> cursor_ok b (v_row s) (v_off s) -> getl b (v_row s) = Some (body ++ [nlc]) -> 0 <= cnt ->
  exec1 rows (c_tilde cnt) e = Some e1 ->
  let z := Z.min (v_off s + Z.max 1 cnt) (Z.of_nat (length body)) in
  let nb := ref_tilde body (v_off s) z in
  s_buf e1 = set_row b (v_row s) [nb ++ [nlc]] 1 /\ s_regs e1 = s_regs e /\
  v_row (s_vs e1) = v_row s /\ v_off (s_vs e1) = ren_noeol (Some (nb ++ [nlc])) z.
Proof. exact refines_tilde. Qed.
Print Assumptions C08_refines_tilde_partial.
(* r<c> with a count (c not a newline): n characters from the cursor are replaced and the cursor goes to the last
   of them, when the line has n characters from the cursor on; otherwise nothing changes *)
Theorem C08_refines_replace_partial : forall rows e cnt cs e1 body,
  let b := s_buf e in let s := s_vs e in
  buf_wf b -> cursor_ok b (v_row s) (v_off s) -> getl b (v_row s) = Some (body ++ [nlc]) -> 0 <= cnt -> b0 cs <> 10%N ->
  exec1 rows (CReplace cnt cs) e = Some e1 ->
  let n := Z.max 1 cnt in let o := v_off s in
  s_regs e1 = s_regs e /\ v_row (s_vs e1) = v_row s /\
  if o + n <=? Z.of_nat (length body)
  then s_buf e1 = set_row b (v_row s) [ref_replace body o n cs ++ [nlc]] 1 /\ v_off (s_vs e1) = o + n - 1
  else s_buf e1 = b /\ v_off (s_vs e1) = o.
Proof. exact refines_replace. Qed.
Print Assumptions C08_refines_replace_partial.
(* p / P with a count of a character-wise register holding non-empty valid text without a newline: the text goes
   n times after (p, unless the line is empty) / before (P) the cursor character, the cursor lands on its last character *)
Theorem C08_refines_put_chars_partial : forall rows e y cnt after cs body,
  let b := s_buf e in let s := s_vs e in
  buf_wf b -> cursor_ok b (v_row s) (v_off s) -> getl b (v_row s) = Some (body ++ [nlc]) -> 0 <= cnt ->
  reg_get (s_regs e) y = Some (flat cs, false) -> line_valid cs -> cs <> [] -> Forall (fun c : chr => b0 c <> 10%N) cs ->
  let e1 := exec_put rows e y cnt after in
  let n := Z.to_nat (Z.max 1 cnt) in
  let off := ref_put_off body (v_off s) after in
  s_buf e1 = set_row b (v_row s) [firstn (Z.to_nat off) body ++ repeat_app n cs ++ skipn (Z.to_nat off) body ++ [nlc]] 1 /\
  s_regs e1 = s_regs e /\ v_row (s_vs e1) = v_row s /\ v_off (s_vs e1) = off + Z.of_nat (length cs) * Z.of_nat n - 1.
Proof. exact refines_put_chars. Qed.
Print Assumptions C08_refines_put_chars_partial.
(* p / P with a count of a line-wise register holding the well-formed valid lines ls: they go n times below (p) /
   above (P) the cursor row of a non-empty buffer; the cursor is on the first of them, at its indentation *)
Theorem C08_refines_put_lines_partial : forall rows e y cnt after ls l0,
  let b := s_buf e in let s := s_vs e in
  getl b (v_row s) = Some l0 ->
  reg_get (s_regs e) y = Some (flat (concat ls), true) -> buf_wf ls -> buf_valid ls -> ls <> [] ->
  let e1 := exec_put rows e y cnt after in
  let n := Z.to_nat (Z.max 1 cnt) in
  let r' := ref_put_row (v_row s) after in
  s_buf e1 = firstn (Z.to_nat r') b ++ repeat_app n ls ++ skipn (Z.to_nat r') b /\
  s_regs e1 = s_regs e /\ v_row (s_vs e1) = r' /\
  v_off (s_vs e1) = ren_noeol (getl (s_buf e1) r') (lbuf_indents (s_buf e1) r').
Proof. exact refines_put_lines. Qed.
Print Assumptions C08_refines_put_lines_partial.
(* i / a typing plain text (none of ^H DEL ^U ^W ^T ^D ^V ^R ^P, no newline) that contains a non-blank: exactly that text is inserted before
   (i) / after (a, unless the line is empty) the cursor character -- whatever the autoindent split of the line's
   leading blanks -- and the cursor lands on its last character *)
Theorem C08_refines_insert_plain_partial : forall rows e (append : bool) typed e1 body,
  let b := s_buf e in let s := s_vs e in
  buf_wf b -> cursor_ok b (v_row s) (v_off s) -> getl b (v_row s) = Some (body ++ [nlc]) ->
  forallb plain_key typed = true -> existsb (fun c => negb (is_blankc c)) typed = true ->
  exec1 rows (CIns (if append then Ia else Ii) typed) e = Some e1 ->
  let off := ref_ins_off body (v_off s) append in
  s_buf e1 = set_row b (v_row s) [firstn (Z.to_nat off) body ++ typed ++ skipn (Z.to_nat off) body ++ [nlc]] 1 /\
  s_regs e1 = s_regs e /\ v_row (s_vs e1) = v_row s /\ v_off (s_vs e1) = off + slen typed - 1.
Proof. exact refines_insert_plain. Qed.
Print Assumptions C08_refines_insert_plain_partial.
(* Y / yy with a count: the buffer and the cursor stay, the register holds the n lines from the cursor row (clamped
   to the last line), line-wise *)
Theorem C08_refines_Y_partial : forall rows e y cnt e1 l0, plain_reg y ->
  let b := s_buf e in let s := s_vs e in
  buf_wf b -> cursor_ok b (v_row s) (v_off s) -> getl b (v_row s) = Some l0 -> 0 <= cnt ->
  exec1 rows (c_Y y cnt) e = Some e1 ->
  let r2 := Z.min (v_row s + Z.max 1 cnt - 1) (blen b - 1) in
  s_buf e1 = b /\ reg_get (s_regs e1) y = Some (flat (concat (rows_between b (v_row s) (r2 + 1))), true) /\
  v_row (s_vs e1) = v_row s /\ v_off (s_vs e1) = v_off s.
Proof. exact refines_Y. Qed.
Print Assumptions C08_refines_Y_partial.
(* s (with a count) and C typing plain text that contains a non-blank: the span x / D would remove is replaced by
   exactly the typed text, the register holds the removed characters, the cursor lands on the last typed character *)
Theorem C08_refines_s_C_plain_partial : forall rows e (toend : bool) y cnt typed e1 body, plain_reg y ->
  let b := s_buf e in let s := s_vs e in
  buf_wf b -> cursor_ok b (v_row s) (v_off s) -> getl b (v_row s) = Some (body ++ [nlc]) -> 0 <= cnt ->
  forallb plain_key typed = true -> existsb (fun c => negb (is_blankc c)) typed = true ->
  exec1 rows (if toend then c_C y cnt typed else c_s y cnt typed) e = Some e1 ->
  let o := v_off s in
  let z := if toend then Z.of_nat (length body) else Z.min (o + Z.max 1 cnt) (Z.of_nat (length body)) in
  s_buf e1 = set_row b (v_row s) [firstn (Z.to_nat o) body ++ typed ++ skipn (Z.to_nat z) body ++ [nlc]] 1 /\
  reg_get (s_regs e1) y = Some (flat (firstn (Z.to_nat (z - o)) (skipn (Z.to_nat o) body)), false) /\
  v_row (s_vs e1) = v_row s /\ v_off (s_vs e1) = o + slen typed - 1.
Proof. exact refines_change_plain. Qed.
Print Assumptions C08_refines_s_C_plain_partial.
(* >> / << with a count: every line from the cursor row to row + n - 1 (clamped) gets one tab in front unless it is
   empty (>>) / loses its first character if that is a blank (<<) -- shift_line of ViDefs.v, a function of the
   line alone; registers untouched; the cursor goes to the first non-blank of the first line *)
Theorem C08_refines_shift_partial : forall rows e (right : bool) cnt e1 l0,
  let b := s_buf e in let s := s_vs e in
  buf_wf b -> cursor_ok b (v_row s) (v_off s) -> getl b (v_row s) = Some l0 -> 0 <= cnt ->
  exec1 rows (COp 0%N cnt (if right then Ogt else Olt) 0 TDbl []) e = Some e1 ->
  let r2 := Z.min (v_row s + Z.max 1 cnt - 1) (blen b - 1) in
  let b' := firstn (Z.to_nat (v_row s)) b ++ map (shift_line right) (rows_between b (v_row s) (r2 + 1)) ++ skipn (Z.to_nat (r2 + 1)) b in
  s_buf e1 = b' /\ s_regs e1 = s_regs e /\ v_row (s_vs e1) = v_row s /\
  v_off (s_vs e1) = ren_noeol (getl b' (v_row s)) (lbuf_indents b' (v_row s)).
Proof. exact refines_shift. Qed.
Print Assumptions C08_refines_shift_partial.
(* S / cc with a count, typing plain text that contains a non-blank: the n lines from the cursor row (clamped) become
   the single line <leading blanks of the first line> ++ typed text; the register holds the removed lines, line-wise;
   the cursor lands on the last typed character *)
Theorem C08_refines_S_plain_partial : forall rows e y cnt typed e1 l0, plain_reg y ->
  let b := s_buf e in let s := s_vs e in
  buf_wf b -> cursor_ok b (v_row s) (v_off s) -> getl b (v_row s) = Some l0 -> 0 <= cnt ->
  forallb plain_key typed = true -> existsb (fun c => negb (is_blankc c)) typed = true ->
  exec1 rows (c_S y cnt typed) e = Some e1 ->
  let r2 := Z.min (v_row s + Z.max 1 cnt - 1) (blen b - 1) in
  let ind := fst (span_blank l0) in
  s_buf e1 = firstn (Z.to_nat (v_row s)) b ++ [ind ++ typed ++ [nlc]] ++ skipn (Z.to_nat (r2 + 1)) b /\
  reg_get (s_regs e1) y = Some (ViDefs.flat (concat (rows_between b (v_row s) (r2 + 1))), true) /\
  v_row (s_vs e1) = v_row s /\ v_off (s_vs e1) = slen ind + slen typed - 1.
Proof. exact refines_S_plain. Qed.
Print Assumptions C08_refines_S_plain_partial.
(* o / O typing plain text that contains a non-blank: one new line <leading blanks of the cursor line> ++ typed text
   is opened below (o) / above (O) the cursor line; the cursor lands on its last typed character *)
Theorem C08_refines_open_plain_partial : forall rows e (below : bool) typed e1 l0,
  let b := s_buf e in let s := s_vs e in
  buf_wf b -> cursor_ok b (v_row s) (v_off s) -> getl b (v_row s) = Some l0 ->
  forallb plain_key typed = true -> existsb (fun c => negb (is_blankc c)) typed = true ->
  exec1 rows (CIns (if below then Io else IO) typed) e = Some e1 ->
  let r' := if below then v_row s + 1 else v_row s in
  let ind := fst (span_blank l0) in
  s_buf e1 = firstn (Z.to_nat r') b ++ [ind ++ typed ++ [nlc]] ++ skipn (Z.to_nat r') b /\
  s_regs e1 = s_regs e /\ v_row (s_vs e1) = r' /\ v_off (s_vs e1) = slen ind + slen typed - 1.
Proof. exact refines_open_plain. Qed.
Print Assumptions C08_refines_open_plain_partial.
(* A typing plain text that contains a non-blank: the text is appended to the body of the cursor line wherever the
   cursor was; the cursor lands on its last character *)
Theorem C08_refines_A_plain_partial : forall rows e typed e1 body,
  let b := s_buf e in let s := s_vs e in
  buf_wf b -> cursor_ok b (v_row s) (v_off s) -> getl b (v_row s) = Some (body ++ [nlc]) ->
  forallb plain_key typed = true -> existsb (fun c => negb (is_blankc c)) typed = true ->
  exec1 rows (CIns IA typed) e = Some e1 ->
  s_buf e1 = set_row b (v_row s) [body ++ typed ++ [nlc]] 1 /\
  s_regs e1 = s_regs e /\ v_row (s_vs e1) = v_row s /\ v_off (s_vs e1) = slen body + slen typed - 1.
Proof. exact refines_A_plain. Qed.
Print Assumptions C08_refines_A_plain_partial.
(* J (count 0, 1 or 2): the cursor line and the next one become body1 ++ spaces ++ (body2 without its leading blanks),
   with no space if body1 is empty, ends in a space, or the rest starts with ')', two spaces after a '.', else one
   (join_spaces of ViDefs.v, a function of the two texts); the cursor goes to the joint *)
Theorem C08_refines_J_partial : forall rows e cnt e1 body1 body2,
  let b := s_buf e in let s := s_vs e in
  buf_wf b -> cursor_ok b (v_row s) (v_off s) ->
  getl b (v_row s) = Some (body1 ++ [nlc]) -> getl b (v_row s + 1) = Some (body2 ++ [nlc]) -> 0 <= cnt <= 2 ->
  exec1 rows (CJoin cnt) e = Some e1 ->
  let rest := snd (span_blank body2) in
  let nb := body1 ++ repeat [32%N] (join_spaces body1 (rest ++ [nlc])) ++ rest in
  s_buf e1 = set_row b (v_row s) [nb ++ [nlc]] 2 /\ s_regs e1 = s_regs e /\
  v_row (s_vs e1) = v_row s /\ v_off (s_vs e1) = ren_noeol (Some (nb ++ [nlc])) (slen body1).
Proof. exact refines_J. Qed.
Print Assumptions C08_refines_J_partial.
(* g~~ / guu / gUU with a count: every character of the n lines from the cursor row (clamped) is mapped by case_chr (ASCII
   letters only; multi-byte characters untouched); registers untouched; the cursor goes to the first non-blank of the LAST
   line of the range *)
Theorem C08_refines_case_lines_partial : forall rows e (op : okey) cnt e1 l0, (op = Otilde \/ op = Ogu \/ op = OgU) ->
  let b := s_buf e in let s := s_vs e in
  buf_wf b -> cursor_ok b (v_row s) (v_off s) -> getl b (v_row s) = Some l0 -> 0 <= cnt ->
  exec1 rows (COp 0%N cnt op 0 TDbl []) e = Some e1 ->
  let r2 := Z.min (v_row s + Z.max 1 cnt - 1) (blen b - 1) in
  let b' := firstn (Z.to_nat (v_row s)) b ++ map (map (case_chr op)) (rows_between b (v_row s) (r2 + 1)) ++ skipn (Z.to_nat (r2 + 1)) b in
  s_buf e1 = b' /\ s_regs e1 = s_regs e /\ v_row (s_vs e1) = r2 /\
  v_off (s_vs e1) = ren_noeol (getl b' r2) (lbuf_indents b' r2).
Proof. exact refines_case_lines. Qed.
Print Assumptions C08_refines_case_lines_partial.
Local Open Scope N_scope.

Example C08_nonvacuous :
  let R := reg_put (reg_put (reg_put regs0 0 [97; 10] true) 97 [98] false) 65 [99; 10] false in
  reg_get R 97 = Some ([98; 99; 10], false) /\ reg_get R 49 = Some ([99; 10], false) /\ reg_get R 50 = Some ([97; 10], true) /\
  reg_get R 34 = Some ([97; 10], true).
Proof. vm_compute. repeat split; reflexivity. Qed.

(* the interpreter on a concrete program: w, dw, then P of register 1, on the two lines 'ab cd' and 'ef' -- the
   character-wise delete spans the line end (so register 1 is set as well), the buffer becomes 'ab ef',
   and P of register 1 restores it *)
Example C08_exec_nonvacuous :
  let b := buf_of_bytes [97; 98; 32; 99; 100; 10; 101; 102; 10] in
  (match exec_prog b 23 [CMot 0 Kw; COp 0 0 Od 0 (TMot Kw) []] with
   | Some e => Some (map flat (s_buf e), v_row (s_vs e), v_off (s_vs e), reg_get (s_regs e) 49, reg_get (s_regs e) 34)
   | None => None end)
  = Some ([[97; 98; 32; 101; 102; 10]], 0%Z, 3%Z, Some ([99; 100; 10], false), Some ([99; 100; 10], false)) /\
  (match exec_prog b 23 [CMot 0 Kw; COp 0 0 Od 0 (TMot Kw) []; CPut 49 0 false] with
   | Some e => Some (s_buf e) | None => None end) = Some b.
Proof. vm_compute. split; reflexivity. Qed.

(* ====================================================================================================== *)
(* Insert mode with the autoindent option as a variable (ViInsDefs.v): the cursor after inserts that contain *)
(* newlines.  led.c led_input removes the leading blanks of the text right of the insertion point from the   *)
(* caller's buffer after every typed newline (under autoindent) and vi.c vi_input counts the cursor against  *)
(* that shortened text; [post_left] is what is left of it.                                                   *)
(* ====================================================================================================== *)
Local Open Scope Z_scope.

(* with the option on (the default) the interpreter with the option is the interpreter of ViDefs.v: every theorem
   above about exec / exec_prog speaks about exec_x / exec_prog_x with autoindent on *)
Theorem C08_ai_on_is_exec : forall b rows cs,
  exec_prog_x b rows (map XC cs) = match exec_prog b rows cs with Some e' => Some (e', true) | None => None end.
Proof. exact exec_prog_x_true. Qed.
Print Assumptions C08_ai_on_is_exec.

(* the cursor rule of every insert / change, for ALL typed keys (editing keys, ^R of multi-line registers, any number of
   newlines), every text left (pref) and right (post) of the insertion point, autoindent on or off: the replacement
   text is head ++ post_left, where post_left is post without its leading blanks iff a newline was typed under
   autoindent; the reported row count is that of head ++ post_left and the reported cursor offset is that of the LAST
   CHARACTER OF THE LAST LINE OF head (0 when that line is empty) -- not an offset counted against the original post *)
Theorem C08_insert_cursor_rule : forall xai R pref post typed,
  exists head,
    fst (fst (fst (vi_input_x xai R pref post typed))) = head ++ post_left xai typed post /\
    snd (fst (fst (vi_input_x xai R pref post typed))) = count_nl head + count_nl (post_left xai typed post) /\
    snd (fst (vi_input_x xai R pref post typed)) = Z.max 0 (slen (last_line head) - 1).
Proof. exact vi_input_x_rule. Qed.
Print Assumptions C08_insert_cursor_rule.

(* typing the lines s1 <Enter> s2 <Enter> ... sn (n >= 2, plain keys: no editing key) between pref and post, for every
   pref without a newline (every split position of a line), every post (any amount of leading blanks), autoindent on
   or off: the replacement is the lines of the reference [ref_split] -- line 1 = pref ++ s1, line k = the inherited
   indentation ++ sk (no indentation for a line of blanks only, unless it is the last and text follows) -- joined by
   newlines and followed by post (without its leading blanks under autoindent); the cursor row is n - 1 plus the
   newlines of post, the cursor offset that of the last character of the last typed line INCLUDING its indentation
   (0 if empty); n - 1 lines were added to the window *)
Theorem C08_insert_split_input : forall xai R pref post s1 more,
  more <> [] -> forallb plain_key s1 = true -> Forall (fun s => forallb plain_key s = true) more ->
  Forall (fun c : chr => b0 c <> 10%N) pref ->
  vi_input_x xai R pref post (join_nl (s1 :: more)) =
    (join_nl (fst (ref_split xai pref post s1 more)) ++ (if xai then snd (span_blank post) else post),
     Z.of_nat (length more) + count_nl (if xai then snd (span_blank post) else post),
     Z.max 0 (slen (last (fst (ref_split xai pref post s1 more)) []) - 1),
     length more).
Proof. exact vi_input_x_split. Qed.
Print Assumptions C08_insert_split_input.

(* the leading blanks of the rest of the line: for any run of blanks bl in front of a rest that does not start with a blank *)
Theorem C08_insert_split_rest : forall (xai : bool) (bl rest : list chr),
  forallb is_blankc bl = true -> match rest with c :: _ => is_blankc c = false | [] => True end ->
  (if xai then snd (span_blank (bl ++ rest ++ [nlc])) else bl ++ rest ++ [nlc]) = if xai then rest ++ [nlc] else bl ++ rest ++ [nlc].
Proof. exact strip_blanks. Qed.
Print Assumptions C08_insert_split_rest.

(* i / a at EVERY cursor position of EVERY well-formed buffer, typing s1 <Enter> ... sn (plain keys), autoindent on or off:
   the cursor line is replaced by the lines of the reference, the last of them followed by the rest of the old line (without
   its leading blanks under autoindent); registers and option unchanged; the cursor is n - 1 rows further down, on the last
   character of the last typed line with its indentation (column 0 if that is empty) *)
Theorem C08_insert_split_buffer : forall xai rows e (append : bool) s1 more st1 body,
  let b := s_buf e in let s := s_vs e in
  buf_wf b -> cursor_ok b (v_row s) (v_off s) -> getl b (v_row s) = Some (body ++ [nlc]) ->
  more <> [] -> forallb plain_key s1 = true -> Forall (fun s => forallb plain_key s = true) more ->
  exec1_x rows (XC (CIns (if append then Ia else Ii) (join_nl (s1 :: more)))) (e, xai) = Some st1 ->
  let off := ref_ins_off body (v_off s) append in
  let post := skipn (Z.to_nat off) body ++ [nlc] in
  let ls := fst (ref_split xai (firstn (Z.to_nat off) body) post s1 more) in
  s_buf (fst st1) = set_row b (v_row s) (map (fun l => l ++ [nlc]) (removelast ls) ++ [last ls [] ++ (if xai then snd (span_blank post) else post)]) 1 /\
  s_regs (fst st1) = s_regs e /\ snd st1 = xai /\
  v_row (s_vs (fst st1)) = v_row s + Z.of_nat (length more) /\
  v_off (s_vs (fst st1)) = Z.max 0 (slen (last ls []) - 1).
Proof. exact insert_split_buffer. Qed.
Print Assumptions C08_insert_split_buffer.

(* the invariant and totality of C08_state_invariant / C08_exec_total / C08_utf8 for programs that switch the option
   anywhere (:se ai / :se noai): from a state with valid UTF-8, well-formed lines and a cursor on an existing character every
   program runs to the end (no out-of-fuel result) and ends in such a state *)
Theorem C08_state_invariant_ai : forall rows cs st, est_inv (fst st) -> Forall xcmd_valid cs ->
  exists st', exec_x rows cs st = Some st' /\ est_inv (fst st').
Proof. exact exec_x_total. Qed.
Print Assumptions C08_state_invariant_ai.

(* non-vacuity, on the line 'foo bar' with the cursor on the second o: a <Enter> X Y <ESC>.  With autoindent the line is
   split into 'foo' and 'XYbar' (the blank in front of bar goes) and the cursor is on Y (row 1, offset 1); without, into
   'foo' and 'XY bar', the cursor again on Y.  A cursor counted against the unshortened ' bar' would be column 0. *)
Example C08_insert_split_nonvacuous :
  let b := buf_of_bytes [102; 111; 111; 32; 98; 97; 114; 10]%N in
  let typed := [[10]; [88]; [89]]%N in
  (match exec_prog_x b 23 [XC (CMot 2 Kspace); XC (CIns Ia typed)] with
   | Some (e, _) => Some (map flat (s_buf e), v_row (s_vs e), v_off (s_vs e)) | None => None end)
  = Some ([[102; 111; 111; 10]; [88; 89; 98; 97; 114; 10]]%N, 1, 1) /\
  (match exec_prog_x b 23 [XAi false; XC (CMot 2 Kspace); XC (CIns Ia typed)] with
   | Some (e, _) => Some (map flat (s_buf e), v_row (s_vs e), v_off (s_vs e)) | None => None end)
  = Some ([[102; 111; 111; 10]; [88; 89; 32; 98; 97; 114; 10]]%N, 1, 1) /\
  ref_split true [[102]; [111]; [111]]%N [[32]; [98]; [97]; [114]; [10]]%N [] [[[88]; [89]]]%N
  = ([[[102]; [111]; [111]]; [[88]; [89]]]%N, [[98]; [97]; [114]; [10]]%N).
Proof. vm_compute. repeat split; reflexivity. Qed.

(* ---------- C08_registers on the C TEXT of reg.c (TrReg.v) ----------
   tools/c2clite.py translates reg_getraw, reg_get, reg_putraw, reg_put of /repo/reg.c and the tables
   `static char *bufs[256]; static int lnmode[256];` (blocks G_reg__bufs, G_lnmode) into CLite terms (GenCFuncs.v).
   TrReg.regs_at m pb lb R: the memory m represents the register file R of RegDefs.v (the model of the theorems above):
   cell c of bufs is NULL when R c = None, else it points to the start of a live heap block holding exactly the text and
   its terminator, lnmode[c] != 0 is the line-wise flag, two cells never share a block.  The three theorems below are
   stated for EVERY represented memory, every name 0..255, every terminated text, every int flag; `= Ok ...` means that
   no load, store, strlen, strcpy, strcat or free left its block or touched a freed one (CLite checks each access). *)
From NV Require CLite CLiteProps CLiteTac GenCFuncs TrReg.

(* reg_get(c, lnp), c not one of the computed names ; # ^ (they call snprintf: not translated): the returned pointer is
   cell c of bufs (cell 0 for the double quote), *lnp = lnmode[c] when lnp != NULL, nothing else changes *)
Theorem C08_tr_reg_get : forall m pb lb R c lnp d fuel,
  TrReg.regs_at m pb lb R -> (0 <= c < 256)%Z -> c <> 59%Z -> c <> 35%Z -> c <> 94%Z -> TrReg.lnp_ok m lnp ->
  CLite.callf GenCFuncs.cprog fuel (S (S d)) GenCFuncs.F_reg_get [CLite.VInt c; lnp] m
  = CLite.Ok (TrReg.cellp pb (Z.to_nat (TrReg.get_name c)), TrReg.ln_store m lnp (CLiteProps.nthz lb (TrReg.get_name c))).
Proof. exact TrReg.tr_reg_get. Qed.
Print Assumptions C08_tr_reg_get.

(* reg_putraw(c, s, ln): returns; the memory afterwards is putraw_mem: a fresh block with pre ++ s (pre = the text of the
   lower-case register when c is a capital), the old block of the register freed, the two table cells set; and that
   memory represents RegDefs.reg_putraw R c s (ln != 0) *)
Theorem C08_tr_reg_putraw : forall m pb lb R c bs (t : bytes) (o : nat) ln d fuel,
  TrReg.regs_at m pb lb R -> (0 <= c < 256)%Z -> CLiteProps.str_at m bs t -> nonul t -> (o <= length t)%nat ->
  bs <> GenCFuncs.G_reg__bufs -> bs <> GenCFuncs.G_lnmode -> CLiteTac.int_ok ln ->
  TrReg.str_fits (TrReg.pre_of R c ++ skipn o t) ->
  CLite.callf GenCFuncs.cprog fuel (S d) GenCFuncs.F_reg_putraw [CLite.VInt c; CLite.VPtr bs (Z.of_nat o); CLite.VInt ln] m
  = CLite.Ok (CLite.VUndef, TrReg.putraw_mem m pb lb (Z.to_nat (TrReg.lowz c)) (TrReg.pre_of R c ++ skipn o t) ln) /\
  TrReg.regs_at (TrReg.putraw_mem m pb lb (Z.to_nat (TrReg.lowz c)) (TrReg.pre_of R c ++ skipn o t) ln)
                (CLiteProps.upd pb (Z.to_nat (TrReg.lowz c)) (CLite.VPtr (length m) 0%Z))
                (CLiteProps.upd lb (Z.to_nat (TrReg.lowz c)) ln)
                (reg_putraw R (Z.to_N c) (skipn o t) (negb (ln =? 0)%Z)).
Proof.
  exact (fun m pb lb R c bs t o ln d fuel H Hc Hs Hn Ho N1 N2 Hl Hf =>
    conj (TrReg.tr_reg_putraw m pb lb R c bs t o ln d fuel H Hc Hs Hn Ho N1 N2 Hl Hf)
         (TrReg.putraw_mem_rep m pb lb R c (skipn o t) ln H Hc (Forall_skipn' _ _ _ Hn) Hl Hf)).
Qed.
Print Assumptions C08_tr_reg_putraw.

(* reg_put(c, s, ln), s in a block that is no register's: returns; the memory afterwards represents reg_put R c s (ln != 0)
   -- the reg_put of C08_registers_put_get / _append / _rotate / _frame above: capitals append, the shift 9 <- 8 <- .. <- 1
   and register 1 for the unnamed and the lettered registers when the text is line-wise or has a newline, the named
   register set -- and TrReg.fr relates the two memories: every block a register pointed to is still that register's,
   unchanged, or was freed (a second free would be an error, so: exactly once) and the register points elsewhere; every
   other old block is unchanged; every block allocated during the call is a register's or was freed again, except the one
   cell of the local i_ln (block length m) *)
Theorem C08_tr_reg_put : forall m pb lb R c bs (t : bytes) (o : nat) ln d fuel,
  TrReg.regs_at m pb lb R -> (0 <= c < 256)%Z -> CLiteProps.str_at m bs t -> nonul t -> (o <= length t)%nat ->
  bs <> GenCFuncs.G_reg__bufs -> bs <> GenCFuncs.G_lnmode ->
  (forall k o', (k < 256)%nat -> TrReg.cellp pb k <> CLite.VPtr bs o') ->
  CLiteTac.int_ok ln -> TrReg.str_fits (TrReg.pre_of R c ++ skipn o t) -> (9 <= fuel)%nat ->
  exists m' pb' lb',
    CLite.callf GenCFuncs.cprog fuel (S (S (S d))) GenCFuncs.F_reg_put [CLite.VInt c; CLite.VPtr bs (Z.of_nat o); CLite.VInt ln] m
    = CLite.Ok (CLite.VUndef, m') /\
    TrReg.regs_at m' pb' lb' (reg_put R (Z.to_N c) (skipn o t) (negb (ln =? 0)%Z)) /\
    TrReg.fr (length m) m pb m' pb' /\ (exists v, nth_error m' (length m) = Some [v]).
Proof. exact TrReg.tr_reg_put. Qed.
Print Assumptions C08_tr_reg_put.

(* a name outside 0..255 (and not EOF): isupper(c) is undefined in C, the error ECtype here -- the callers pass an unsigned
   char (REG(s) in ex.c, the key read in vi.c) *)
Theorem C08_tr_reg_putraw_badname : forall m c sp ln d fuel, (c < -1 \/ 255 < c)%Z -> sp <> CLite.VUndef ->
  CLite.callf GenCFuncs.cprog fuel (S d) GenCFuncs.F_reg_putraw [CLite.VInt c; sp; CLite.VInt ln] m = CLite.Err CLite.ECtype.
Proof. exact TrReg.tr_reg_putraw_badname. Qed.
Print Assumptions C08_tr_reg_putraw_badname.

(* non-vacuity: the zero-initialised globals represent the empty register file; and the translated reg_put RUNS: three
   line-wise stores ("one\n" into the unnamed register, "two\n" into a, "three\n" into the unnamed register) on the
   program's initial memory followed by the three texts; afterwards register 1 holds "three\n", 2 "two\n", 3 "one\n", the
   unnamed register "three\n", a "two\n" (TrReg.reg_text reads the block a cell of bufs points to) *)
Example C08_tr_reg_nonvacuous :
  TrReg.regs_at GenCFuncs.cglobals GenCFuncs.gb_reg__bufs (repeat 0%Z 256) regs0 /\
  let one := CLite.cstr_block [111; 110; 101; 10]%Z in
  let two := CLite.cstr_block [116; 119; 111; 10]%Z in
  let three := CLite.cstr_block [116; 104; 114; 101; 101; 10]%Z in
  let g := length GenCFuncs.cglobals in
  let m0 := (GenCFuncs.cglobals ++ [one; two; three])%list in
  let put c b m := match m with
                   | CLite.Ok (_, m) => CLite.callf GenCFuncs.cprog 12 4 GenCFuncs.F_reg_put [CLite.VInt c; CLite.VPtr b 0%Z; CLite.VInt 1%Z] m
                   | e => e end in
  match put 0%Z (g + 2)%nat (put 97%Z (g + 1)%nat (put 0%Z g (CLite.Ok (CLite.VUndef, m0)))) with
  | CLite.Ok (_, m3) => [TrReg.reg_text m3 49; TrReg.reg_text m3 50; TrReg.reg_text m3 51; TrReg.reg_text m3 52;
                         TrReg.reg_text m3 0; TrReg.reg_text m3 97]
  | CLite.Err _ => []
  end = [Some three; Some two; Some one; None; Some three; Some two].
Proof. split; [exact TrReg.regs_at_init|vm_compute; reflexivity]. Qed.

(* reg_done() (exit of the editor): every block a register points to is freed -- once: the cells are pairwise distinct and a
   second free of a block is an error of the semantics --, every other block is unchanged (free_cells: the blocks emptied one
   cell after the other); the cells of bufs keep their pointers *)
Theorem C08_tr_reg_done : forall m pb lb R d fuel, TrReg.regs_at m pb lb R -> (257 <= fuel)%nat ->
  CLite.callf GenCFuncs.cprog fuel (S d) GenCFuncs.F_reg_done [] m = CLite.Ok (CLite.VUndef, TrReg.free_cells pb m) /\
  (forall c b o, (c < 256)%nat -> TrReg.cellp pb c = CLite.VPtr b o -> nth_error (TrReg.free_cells pb m) b = Some []) /\
  (forall b, (forall c o, (c < 256)%nat -> TrReg.cellp pb c <> CLite.VPtr b o) -> nth_error (TrReg.free_cells pb m) b = nth_error m b).
Proof. exact TrReg.tr_reg_done. Qed.
Print Assumptions C08_tr_reg_done.

From NV Require TrViOpPure.

(* ====================================================================================================================== *)
(* The operators of vi.c on the C TEXT (translation round; tools/c2clite.d/99zzzzz_viops.list, coq/TrViOpPure.v, coq/TrViOp.v).
   Helpers that touch no buffer: swap, linecount (NULL: 0, else newlines + 1), charcount (the characters of text between its last
   newline in front of post and post: TrViOpPure.charcount_b), join_spaces (TrViOpPure.join_spaces_b: none after an empty text,
   after a blank or before ')', two after '.', else one). *)
Theorem C08_tr_swap : forall m ba bb x y d fuel, CLiteProps.cell_at m ba x -> CLiteProps.cell_at m bb y -> ba <> bb ->
  CLiteTac.int_ok x -> CLiteTac.int_ok y ->
  CLite.callf GenCFuncs.cprog fuel (S d) GenCFuncs.F_vi_swap [CLite.VPtr ba 0; CLite.VPtr bb 0] m
  = CLite.Ok (CLite.VUndef, CLiteProps.upd (CLiteProps.upd m ba [CLite.VInt y]) bb [CLite.VInt x]).
Proof. exact TrViOpPure.tr_swap. Qed.
Print Assumptions C08_tr_swap.
Theorem C08_tr_linecount : forall m b s d fuel, CLiteProps.str_at m b s -> Bytes.nonul s -> (Z.of_nat (length s) < 2147483647)%Z ->
  (TrViOpPure.nlcount s + 1 < fuel)%nat ->
  CLite.callf GenCFuncs.cprog fuel (S d) GenCFuncs.F_vi_linecount [CLite.VPtr b 0] m
  = CLite.Ok (CLite.VInt (TrViOpPure.vlinecount (Some s)), m).
Proof. exact TrViOpPure.tr_linecount. Qed.
Print Assumptions C08_tr_linecount.
Theorem C08_tr_linecount_null : forall m d fuel, (0 < fuel)%nat ->
  CLite.callf GenCFuncs.cprog fuel (S d) GenCFuncs.F_vi_linecount [CLite.VInt 0] m = CLite.Ok (CLite.VInt (TrViOpPure.vlinecount None), m).
Proof. exact TrViOpPure.tr_linecount_null. Qed.
Print Assumptions C08_tr_linecount_null.
Theorem C08_tr_charcount : forall m bt bp text post d fuel, CLiteProps.str_at m bt text -> CLiteProps.str_at m bp post ->
  Bytes.nonul text -> Bytes.nonul post -> (Z.of_nat (length text) <= 2147483647)%Z -> (Z.of_nat (length post) <= 2147483647)%Z ->
  (length text < fuel)%nat -> (length post < fuel)%nat ->
  CLite.callf GenCFuncs.cprog fuel (S (S (S d))) GenCFuncs.F_charcount [CLite.VPtr bt 0; CLite.VPtr bp 0] m
  = CLite.Ok (CLite.VInt (TrViOpPure.charcount_b text post), m).
Proof. exact TrViOpPure.tr_charcount. Qed.
Print Assumptions C08_tr_charcount.
Theorem C08_tr_join_spaces : forall m bp bn prev next o d fuel, CLiteProps.str_at m bp prev -> CLiteProps.str_at m bn next ->
  Bytes.nonul prev -> Bytes.nonul next -> (Z.of_nat (length prev) <= 2147483647)%Z -> (o <= length next)%nat ->
  CLite.callf GenCFuncs.cprog fuel (S d) GenCFuncs.F_join_spaces [CLite.VPtr bp 0; CLite.VPtr bn (Z.of_nat o)] m
  = CLite.Ok (CLite.VInt (TrViOpPure.join_spaces_b prev (skipn o next)), m).
Proof. exact TrViOpPure.tr_join_spaces. Qed.
Print Assumptions C08_tr_join_spaces.
(* the byte-level rule of join_spaces is the rule of the interpreter (ViDefs.join_spaces on characters) *)
Theorem C08_tr_join_spaces_model : forall prev next : list MotDefs.chr, Forall (fun c => c <> []) prev -> Forall (fun c => c <> []) next ->
  Bytes.nonul (ViDefs.flat prev) ->
  TrViOpPure.join_spaces_b (ViDefs.flat prev) (ViDefs.flat next) = Z.of_nat (ViDefs.join_spaces prev next).
Proof. exact TrViOpPure.join_spaces_model. Qed.
Print Assumptions C08_tr_join_spaces_model.
(* the translated helpers RUN: "a\nbc\n" has 3 = 2 + 1 lines; charcount("x\nyzP", "P") = 2; join_spaces("end.", "next") = 2,
   ("a ", "b") = 0, ("a", ")") = 0, ("a", "b") = 1, ("", "b") = 0; swap exchanges two cells *)
Example C08_tr_pure_run :
  let g := length GenCFuncs.cglobals in
  let str l := CLite.cstr_block l in
  let m0 := (GenCFuncs.cglobals ++ [str [97; 10; 98; 99; 10]; str [120; 10; 121; 122; 80]; str [80]; str [101; 110; 100; 46]; str [110; 101; 120; 116];
                                    str [97; 32]; str [41]; str []; [CLite.VInt 3]; [CLite.VInt 7]])%list%Z in
  let val r := match r with CLite.Ok (v, _) => Some v | CLite.Err _ => None end in
  val (CLite.callf GenCFuncs.cprog 20 4 GenCFuncs.F_vi_linecount [CLite.VPtr g 0%Z] m0) = Some (CLite.VInt 3) /\
  val (CLite.callf GenCFuncs.cprog 20 4 GenCFuncs.F_charcount [CLite.VPtr (g + 1) 0%Z; CLite.VPtr (g + 2) 0%Z] m0) = Some (CLite.VInt 2) /\
  val (CLite.callf GenCFuncs.cprog 20 4 GenCFuncs.F_join_spaces [CLite.VPtr (g + 3) 0%Z; CLite.VPtr (g + 4) 0%Z] m0) = Some (CLite.VInt 2) /\
  val (CLite.callf GenCFuncs.cprog 20 4 GenCFuncs.F_join_spaces [CLite.VPtr (g + 5) 0%Z; CLite.VPtr (g + 4) 0%Z] m0) = Some (CLite.VInt 0) /\
  val (CLite.callf GenCFuncs.cprog 20 4 GenCFuncs.F_join_spaces [CLite.VPtr (g + 2) 0%Z; CLite.VPtr (g + 6) 0%Z] m0) = Some (CLite.VInt 0) /\
  val (CLite.callf GenCFuncs.cprog 20 4 GenCFuncs.F_join_spaces [CLite.VPtr (g + 2) 0%Z; CLite.VPtr (g + 4) 0%Z] m0) = Some (CLite.VInt 1) /\
  val (CLite.callf GenCFuncs.cprog 20 4 GenCFuncs.F_join_spaces [CLite.VPtr (g + 7) 0%Z; CLite.VPtr (g + 4) 0%Z] m0) = Some (CLite.VInt 0) /\
  match CLite.callf GenCFuncs.cprog 20 4 GenCFuncs.F_vi_swap [CLite.VPtr (g + 8) 0%Z; CLite.VPtr (g + 9) 0%Z] m0 with
  | CLite.Ok (_, m1) => (nth_error m1 (g + 8), nth_error m1 (g + 9)) = (Some [CLite.VInt 7], Some [CLite.VInt 3])
  | CLite.Err _ => False end.
Proof. vm_compute. repeat split; reflexivity. Qed.

(* ---------------------------------------------------------------------------------------------------------------------- *)
(* lbuf_region, vi_yank, vi_delete on the C TEXT (coq/TrViOp.v).  The buffer is in memory as TrMot.lbuf_at says, reached through
   bufs[0].lb (TrViOp.ed_at).  The allocating callees are oracles (CLiteExt.callx) that return a FRESH block with the model's bytes
   (record TrViOp.oracles: uc_sub = UcDefs.uc_sub, uc_dup, uc_cat, lbuf_cp = the concatenated lines, the string builder sbuf_make .. sbuf_free);
   reg_put, lbuf_edit, vi_drawfix: one hypothesis per call, reg_put may change only blocks the register file owns (`own`) and
   lbuf_edit only blocks the line buffer owns (`lown`), both may allocate (TrViOp.rframe / eframe).
   * lbuf_region returns a fresh block with TrViOp.region_b: uc_sub of the one line, or the rest of line r1 ++ lines r1+1..r2-1 ++ the
     start of line r2; the three temporaries are freed.
   * vi_yank / vi_delete call reg_put(vi_ybuf, that block, lnmode) on the memory TrViOp.put_mem: the text is region_b of
     (r1, lnmode ? 0 : o1) .. (r2, lnmode ? -1 : o2); the block is freed afterwards.
   * vi_yank: 0 and the cursor untouched for a line-wise yank that starts on the cursor row; else xrow = r1, xoff = o1 (character-wise)
     or unchanged (line-wise), 1 is returned.
   * vi_delete line-wise: lbuf_edit(xb, NULL, r1, r2 + 1); character-wise: lbuf_edit(xb, line, r1, r2 + 1) where the block `line` holds
     (line r1 up to o1) ++ (line r2 from o2); then xrow = r1 clamped to the last line (TrViOp.del_row), xoff = lbuf_indents of the NEW
     buffer at r1 (line-wise) or o1; every temporary is freed; vi_drawfix(r1, r2, !lnmode, 0) sees that memory; 16 (VC_OK) is returned. *)
From NV Require CLiteExt TrMot TrViOp.
Local Close Scope Z_scope.
Local Close Scope N_scope.
Theorem C08_tr_lbuf_region : forall (ext : nat -> list CLite.val -> CLite.mem -> CLite.res (CLite.val * CLite.mem)) (fuel : nat),
       TrViOp.oracles ext ->
       forall (D : nat) (m : CLite.mem) (lb bln : nat) (lbs : list nat) (lines : list bytes) (r1 o1 r2 o2 : Z),
       TrViOp.ed_at m lb bln lbs lines ->
       (0 <= r1 + 1 <= 2147483647)%Z ->
       TrViOp.region_in lines r1 o1 r2 o2 ->
       CLiteExt.callx ext GenCFuncs.cprog fuel (S (S D)) GenCFuncs.F_lbuf_region (CLite.VPtr lb 0 :: CLite.VInt r1 :: CLite.VInt o1 :: CLite.VInt r2 :: CLite.VInt o2 :: nil) m =
       CLite.Ok (CLite.VPtr (length m) 0, m ++ CLite.cstr_block (CLiteProps.zb (TrViOp.region_b lines r1 o1 r2 o2)) :: TrViOp.rg_tail r1 r2).
Proof. exact TrViOp.tr_lbuf_region. Qed.
Print Assumptions C08_tr_lbuf_region.

Theorem C08_tr_vi_yank : forall (ext : nat -> list CLite.val -> CLite.mem -> CLite.res (CLite.val * CLite.mem)) (fuel : nat),
       TrViOp.oracles ext ->
       forall (own : nat -> Prop) (D : nat) (m : CLite.mem) (lb bln : nat) (lbs : list nat) (lines : list bytes) (r1 o1 r2 o2 ln y xr xo : Z)
         (u : CLite.val) (m2 : CLite.mem),
       TrViOp.ed_at m lb bln lbs lines ->
       (0 <= r1 + 1 <= 2147483647)%Z ->
       TrViOp.region_in lines r1 (TrViOp.op_o1 ln o1) r2 (TrViOp.op_o2 ln o2) ->
       CLiteProps.cell_at m GenCFuncs.G_vi_ybuf y ->
       CLiteProps.cell_at m GenCFuncs.G_xrow xr ->
       CLiteProps.cell_at m GenCFuncs.G_xoff xo ->
       CLiteTac.int_ok y ->
       CLiteTac.int_ok xr ->
       CLiteTac.int_ok xo ->
       CLiteTac.int_ok r1 ->
       CLiteTac.int_ok o1 ->
       (forall b : nat, own b -> b < length m) ->
       ~ own GenCFuncs.G_xrow ->
       ~ own GenCFuncs.G_xoff ->
       let M1 := TrViOp.put_mem m lines r1 o1 r2 o2 ln in
       ext GenCFuncs.X_reg_put (CLite.VInt y :: CLite.VPtr (length m) 0 :: CLite.VInt ln :: nil) M1 = CLite.Ok (u, m2) ->
       TrViOp.rframe own M1 m2 ->
       let m3 := CLiteProps.upd m2 (length m) nil in
       CLiteExt.callx ext GenCFuncs.cprog fuel (S (S (S (S D)))) GenCFuncs.F_vi_yank (CLite.VInt r1 :: CLite.VInt o1 :: CLite.VInt r2 :: CLite.VInt o2 :: CLite.VInt ln :: nil) m =
       (if TrViOp.yank_stay ln xr r1
        then CLite.Ok (CLite.VInt 0, m3)
        else CLite.Ok (CLite.VInt 1, CLiteProps.upd (CLiteProps.upd m3 GenCFuncs.G_xrow (CLite.VInt r1 :: nil)) GenCFuncs.G_xoff (CLite.VInt (if TrViOp.lnb ln then xo else o1) :: nil))).
Proof. exact TrViOp.tr_vi_yank. Qed.
Print Assumptions C08_tr_vi_yank.

Theorem C08_tr_vi_delete_lines : forall (ext : nat -> list CLite.val -> CLite.mem -> CLite.res (CLite.val * CLite.mem)) (fuel : nat),
       TrViOp.oracles ext ->
       forall (own lown : nat -> Prop) (D : nat) (m : CLite.mem) (lb bln : nat) (lbs : list nat) (lines : list bytes)
         (r1 o1 r2 o2 ln y xr xo : Z) (u : CLite.val) (m2 : CLite.mem),
       TrViOp.ed_at m lb bln lbs lines ->
       (0 <= r1 + 1 <= 2147483647)%Z ->
       CLiteTac.int_ok r2 /\ CLiteTac.int_ok (r2 + 1) ->
       TrViOp.region_in lines r1 (TrViOp.op_o1 ln o1) r2 (TrViOp.op_o2 ln o2) ->
       CLiteProps.cell_at m GenCFuncs.G_vi_ybuf y ->
       CLiteProps.cell_at m GenCFuncs.G_xrow xr ->
       CLiteProps.cell_at m GenCFuncs.G_xoff xo ->
       CLiteTac.int_ok y ->
       CLiteProps.str_at m GenCFuncs.G_lit__0 nil ->
       CLiteProps.str_at m GenCFuncs.G_lit_0a_1 (10%N :: nil) ->
       (forall b : nat, own b -> b < length m) ->
       (forall b : nat, In b (GenCFuncs.G_xrow :: GenCFuncs.G_xoff :: GenCFuncs.G_lit__0 :: GenCFuncs.G_lit_0a_1 :: GenCFuncs.G_bufs :: lb :: bln :: lbs) -> ~ own b) ->
       (forall b : nat, lown b -> b < length m) ->
       ~ lown GenCFuncs.G_xrow /\ ~ lown GenCFuncs.G_xoff ->
       ext GenCFuncs.X_reg_put (CLite.VInt y :: CLite.VPtr (length m) 0 :: CLite.VInt ln :: nil) (TrViOp.put_mem m lines r1 o1 r2 o2 ln) = CLite.Ok (u, m2) ->
       TrViOp.rframe own (TrViOp.put_mem m lines r1 o1 r2 o2 ln) m2 ->
       forall (u' : CLite.val) (m6 : CLite.mem) (bln' : nat) (lbs' : list nat) (lines' : list bytes) (ud : CLite.val) (m8 : CLite.mem),
       TrViOp.lnb ln = true ->
       ext GenCFuncs.X_lbuf_edit (CLite.VPtr lb 0 :: CLite.VInt 0 :: CLite.VInt r1 :: CLite.VInt (r2 + 1) :: nil) (TrViOp.del_mem5 m m2) = CLite.Ok (u', m6) ->
       TrViOp.eframe lown (TrViOp.del_mem5 m m2) m6 ->
       TrViOp.ed_cur m6 lb bln' lbs' lines' ->
       TrMot.maxlen lines' < fuel ->
       ext GenCFuncs.X_vi_drawfix (CLite.VInt r1 :: CLite.VInt r2 :: CLite.VInt 0 :: CLite.VInt 0 :: nil) (TrViOp.del_lines_mem r1 m2 m6 lines') = CLite.Ok (ud, m8) ->
       CLiteExt.callx ext GenCFuncs.cprog fuel (S (S (S (S D)))) GenCFuncs.F_vi_delete (CLite.VInt r1 :: CLite.VInt o1 :: CLite.VInt r2 :: CLite.VInt o2 :: CLite.VInt ln :: nil) m = CLite.Ok (CLite.VInt 16, m8).
Proof. exact TrViOp.tr_vi_delete_lines. Qed.
Print Assumptions C08_tr_vi_delete_lines.

Theorem C08_tr_vi_delete_chars : forall (ext : nat -> list CLite.val -> CLite.mem -> CLite.res (CLite.val * CLite.mem)) (fuel : nat),
       TrViOp.oracles ext ->
       forall (own lown : nat -> Prop) (D : nat) (m : CLite.mem) (lb bln : nat) (lbs : list nat) (lines : list bytes)
         (r1 o1 r2 o2 ln y xr xo : Z) (u : CLite.val) (m2 : CLite.mem),
       TrViOp.ed_at m lb bln lbs lines ->
       (0 <= r1 + 1 <= 2147483647)%Z ->
       CLiteTac.int_ok r2 /\ CLiteTac.int_ok (r2 + 1) ->
       TrViOp.region_in lines r1 (TrViOp.op_o1 ln o1) r2 (TrViOp.op_o2 ln o2) ->
       CLiteProps.cell_at m GenCFuncs.G_vi_ybuf y ->
       CLiteProps.cell_at m GenCFuncs.G_xrow xr ->
       CLiteProps.cell_at m GenCFuncs.G_xoff xo ->
       CLiteTac.int_ok y ->
       CLiteTac.int_ok o1 ->
       (forall b : nat, own b -> b < length m) ->
       (forall b : nat, In b (GenCFuncs.G_xrow :: GenCFuncs.G_xoff :: GenCFuncs.G_lit__0 :: GenCFuncs.G_lit_0a_1 :: GenCFuncs.G_bufs :: lb :: bln :: lbs) -> ~ own b) ->
       (forall b : nat, lown b -> b < length m) ->
       ~ lown GenCFuncs.G_xrow /\ ~ lown GenCFuncs.G_xoff ->
       ext GenCFuncs.X_reg_put (CLite.VInt y :: CLite.VPtr (length m) 0 :: CLite.VInt ln :: nil) (TrViOp.put_mem m lines r1 o1 r2 o2 ln) = CLite.Ok (u, m2) ->
       TrViOp.rframe own (TrViOp.put_mem m lines r1 o1 r2 o2 ln) m2 ->
       forall (u' : CLite.val) (m6 : CLite.mem) (bln' : nat) (lbs' : list nat) (lines' : list bytes) (ud : CLite.val) (m8 : CLite.mem),
       TrViOp.lnb ln = false ->
       TrViOp.sub_in (TrViOp.getb lines r1) 0 o1 ->
       TrViOp.sub_in (TrViOp.getb lines r2) o2 (-1) ->
       ext GenCFuncs.X_lbuf_edit (CLite.VPtr lb 0 :: CLite.VPtr (length m2 + 2) 0 :: CLite.VInt r1 :: CLite.VInt (r2 + 1) :: nil) (TrViOp.del_mem5c m lines r1 o1 r2 o2 m2) =
       CLite.Ok (u', m6) ->
       TrViOp.eframe lown (TrViOp.del_mem5c m lines r1 o1 r2 o2 m2) m6 ->
       TrViOp.ed_cur (CLiteProps.upd m6 (length m2 + 2) nil) lb bln' lbs' lines' ->
       ext GenCFuncs.X_vi_drawfix (CLite.VInt r1 :: CLite.VInt r2 :: CLite.VInt 1 :: CLite.VInt 0 :: nil) (TrViOp.del_chars_mem r1 o1 m2 m6 lines') = CLite.Ok (ud, m8) ->
       CLiteExt.callx ext GenCFuncs.cprog fuel (S (S (S (S D)))) GenCFuncs.F_vi_delete (CLite.VInt r1 :: CLite.VInt o1 :: CLite.VInt r2 :: CLite.VInt o2 :: CLite.VInt ln :: nil) m = CLite.Ok (CLite.VInt 16, m8).
Proof. exact TrViOp.tr_vi_delete_chars. Qed.
Print Assumptions C08_tr_vi_delete_chars.

Theorem C08_tr_vi_delete_lines_cursor : forall (r1 : Z) (m2 m6 : CLite.mem) (lines' : list bytes) (x0 o0 : Z),
       CLiteProps.cell_at m6 GenCFuncs.G_xrow x0 ->
       CLiteProps.cell_at m6 GenCFuncs.G_xoff o0 ->
       GenCFuncs.G_xrow < length m2 ->
       GenCFuncs.G_xoff < length m2 ->
       length m2 + 1 < length m6 ->
       CLiteProps.cell_at (TrViOp.del_lines_mem r1 m2 m6 lines') GenCFuncs.G_xrow (TrViOp.del_row r1 (Z.of_nat (length lines'))) /\
       CLiteProps.cell_at (TrViOp.del_lines_mem r1 m2 m6 lines') GenCFuncs.G_xoff (MotDefs.lbuf_indents (map MotDefs.chop lines') r1).
Proof. exact TrViOp.del_lines_mem_cur. Qed.
Print Assumptions C08_tr_vi_delete_lines_cursor.

Theorem C08_tr_vi_delete_chars_cursor : forall (r1 o1 : Z) (m2 m6 : CLite.mem) (lines' : list bytes) (x0 o0 : Z),
       CLiteProps.cell_at m6 GenCFuncs.G_xrow x0 ->
       CLiteProps.cell_at m6 GenCFuncs.G_xoff o0 ->
       GenCFuncs.G_xrow < length m2 ->
       GenCFuncs.G_xoff < length m2 ->
       length m2 + 2 < length m6 ->
       CLiteProps.cell_at (TrViOp.del_chars_mem r1 o1 m2 m6 lines') GenCFuncs.G_xrow (TrViOp.del_row r1 (Z.of_nat (length lines'))) /\
       CLiteProps.cell_at (TrViOp.del_chars_mem r1 o1 m2 m6 lines') GenCFuncs.G_xoff o1.
Proof. exact TrViOp.del_chars_mem_cur. Qed.
Print Assumptions C08_tr_vi_delete_chars_cursor.
(* non-vacuity: a memory with the three lines "ab\n" "cde\n" "f\n" satisfies ed_at; the translated vi_delete / vi_yank RUN on it with the
   concrete oracle TrViOp.ideal_ext (the allocating callees computed from memory as the record describes them; reg_put, lbuf_edit, vi_drawfix
   log tag :: integer arguments ++ text): result (value, xrow, xoff, logged calls) *)
Example C08_tr_viop_mem : forall xr xo : Z,
       TrViOp.ed_at (TrViOp.op_mem xr xo) (length GenCFuncs.cglobals) (length GenCFuncs.cglobals + 1)
         (length GenCFuncs.cglobals + 2 :: length GenCFuncs.cglobals + 3 :: length GenCFuncs.cglobals + 4 :: nil) TrViOp.op_lines.
Proof. exact TrViOp.op_mem_ed. Qed.

Example C08_tr_viop_run : let run := fun (f : nat) (args : list Z) (xr xo : Z) => TrViOp.op_show (CLiteExt.callx TrViOp.ideal_ext GenCFuncs.cprog 50 8 f (map CLite.VInt args) (TrViOp.op_mem xr xo)) in
       run GenCFuncs.F_vi_delete (0%Z :: 1%Z :: 1%Z :: 2%Z :: 0%Z :: nil) 1%Z 2%Z =
       Some
         (CLite.VInt 16, Some (CLite.VInt 0 :: nil), Some (CLite.VInt 1 :: nil),
          map CLite.VInt (1%Z :: 97%Z :: 0%Z :: 98%Z :: 10%Z :: 99%Z :: 100%Z :: nil)
          :: map CLite.VInt (2%Z :: 0%Z :: 2%Z :: 97%Z :: 101%Z :: 10%Z :: nil) :: map CLite.VInt (3%Z :: 0%Z :: 1%Z :: 1%Z :: 0%Z :: nil) :: nil) /\
       run GenCFuncs.F_vi_delete (1%Z :: 0%Z :: 2%Z :: 0%Z :: 1%Z :: nil) 1%Z 0%Z =
       Some
         (CLite.VInt 16, Some (CLite.VInt 1 :: nil), Some (CLite.VInt 0 :: nil),
          map CLite.VInt (1%Z :: 97%Z :: 1%Z :: 99%Z :: 100%Z :: 101%Z :: 10%Z :: 102%Z :: 10%Z :: nil)
          :: map CLite.VInt (2%Z :: 1%Z :: 3%Z :: nil) :: map CLite.VInt (3%Z :: 1%Z :: 2%Z :: 0%Z :: 0%Z :: nil) :: nil) /\
       run GenCFuncs.F_vi_yank (0%Z :: 1%Z :: 1%Z :: 2%Z :: 0%Z :: nil) 1%Z 2%Z =
       Some
         (CLite.VInt 1, Some (CLite.VInt 0 :: nil), Some (CLite.VInt 1 :: nil), map CLite.VInt (1%Z :: 97%Z :: 0%Z :: 98%Z :: 10%Z :: 99%Z :: 100%Z :: nil) :: nil) /\
       run GenCFuncs.F_vi_yank (1%Z :: 0%Z :: 2%Z :: 0%Z :: 1%Z :: nil) 1%Z 2%Z =
       Some
         (CLite.VInt 0, Some (CLite.VInt 1 :: nil), Some (CLite.VInt 2 :: nil),
          map CLite.VInt (1%Z :: 97%Z :: 1%Z :: 99%Z :: 100%Z :: 101%Z :: 10%Z :: 102%Z :: 10%Z :: nil) :: nil) /\
       run GenCFuncs.F_vi_yank (1%Z :: 0%Z :: 2%Z :: 0%Z :: 1%Z :: nil) 2%Z 1%Z =
       Some
         (CLite.VInt 1, Some (CLite.VInt 1 :: nil), Some (CLite.VInt 1 :: nil),
          map CLite.VInt (1%Z :: 97%Z :: 1%Z :: 99%Z :: 100%Z :: 101%Z :: 10%Z :: 102%Z :: 10%Z :: nil) :: nil).
Proof. exact TrViOp.op_run_examples. Qed.
Local Open Scope N_scope.
Local Open Scope Z_scope.

(* ---------------------------------------------------------------------------------------------------------------------- *)
(* The byte-level texts of the C theorems above ARE the texts of the interpreter ViDefs.v (coq/TrViOpModel.v; b = map chop lines is the
   character view of the buffer): uc_sub on the bytes = sub_l on the characters (offsets negative or at most the number of characters),
   the text handed to reg_put = flat (region_text b g) for a region record g whose rows exist and whose offsets lie within their lines,
   the line a character-wise delete hands to lbuf_edit = flat of the replacement text of ViDefs.vi_delete; under the same conditions the
   side conditions region_in / sub_in of the C theorems hold. *)
From NV Require TrViOpModel.
Local Close Scope Z_scope.
Local Close Scope N_scope.
Theorem C08_tr_uc_sub_model : forall (s : bytes) (b e : Z), nonul s -> TrViOpModel.off_ok (chop s) b -> TrViOpModel.off_ok (chop s) e -> UcDefs.uc_sub s b e = Some (flat (sub_l (chop s) b e)).
Proof. exact TrViOpModel.sub_model. Qed.
Print Assumptions C08_tr_uc_sub_model.

Theorem C08_tr_region_text_model : forall (lines : list bytes) (g : region) (ln : Z) (s1 s2 : bytes),
       Forall nonul lines ->
       TrViOp.getb lines (g_r1 g) = Some s1 ->
       TrViOp.getb lines (g_r2 g) = Some s2 ->
       TrViOpModel.off_ok (chop s1) (g_o1 g) ->
       TrViOpModel.off_ok (chop s2) (g_o2 g) ->
       g_ln g = TrViOp.lnb ln ->
       TrViOp.op_text lines (g_r1 g) (g_o1 g) (g_r2 g) (g_o2 g) ln = flat (region_text (map chop lines) g) /\
       TrViOp.region_in lines (g_r1 g) (TrViOp.op_o1 ln (g_o1 g)) (g_r2 g) (TrViOp.op_o2 ln (g_o2 g)).
Proof. exact TrViOpModel.op_text_model. Qed.
Print Assumptions C08_tr_region_text_model.

Theorem C08_tr_delete_line_model : forall (lines : list bytes) (g : region) (s1 s2 : bytes),
       Forall nonul lines ->
       TrViOp.getb lines (g_r1 g) = Some s1 ->
       TrViOp.getb lines (g_r2 g) = Some s2 ->
       TrViOpModel.off_ok (chop s1) (g_o1 g) ->
       TrViOpModel.off_ok (chop s2) (g_o2 g) ->
       TrViOp.del_pref lines (g_r1 g) (g_o1 g) ++ TrViOp.del_post lines (g_r2 g) (g_o2 g) =
       flat (sub_l (optl (getl (map chop lines) (g_r1 g))) 0 (g_o1 g) ++ sub_l (optl (getl (map chop lines) (g_r2 g))) (g_o2 g) (-1)) /\
       TrViOp.sub_in (TrViOp.getb lines (g_r1 g)) 0 (g_o1 g) /\ TrViOp.sub_in (TrViOp.getb lines (g_r2 g)) (g_o2 g) (-1).
Proof. exact TrViOpModel.del_line_model. Qed.
Print Assumptions C08_tr_delete_line_model.
Local Open Scope N_scope.
Local Open Scope Z_scope.

(* ---------------------------------------------------------------------------------------------------------------------- *)
(* vi_indents and vc_join on the C TEXT (coq/TrViOp2.v; same oracle vocabulary as above).
   * vi_indents(ln): a fresh block with the leading blanks and tabs of ln (TrViOp2.indents_b: nothing for NULL or when xai = 0).
   * vc_join (J): cnt = vi_arg1 <= 1 ? 2 : vi_arg1; 0 is returned and nothing is called when row xrow or row xrow + cnt - 1 does not exist;
     else the text handed to lbuf_edit is TrViOp2.join_res: the rows xrow .. xrow + cnt - 1 one after the other, each up to its newline, every row
     but the first without its leading blanks and with join_spaces' spaces in front (TrViOpPure.join_spaces_b = ViDefs.join_spaces:
     C08_tr_join_spaces_model), then "\n"; the range is (xrow, xrow + cnt); xoff = the number of characters in front of the last row joined;
     the builder is freed; vi_drawfix(xrow, xrow + cnt - 1, 1, 0); 16 is returned. *)
From NV Require TrViOp2.
Local Close Scope Z_scope.
Local Close Scope N_scope.
Theorem C08_tr_vi_indents : forall (ext : nat -> list CLite.val -> CLite.mem -> CLite.res (CLite.val * CLite.mem)) (fuel : nat),
       TrViOp.oracles ext ->
       forall (D : nat) (m : CLite.mem) (v : CLite.val) (os : option bytes) (xai : Z),
       TrViOp.sarg m v os ->
       CLiteProps.cell_at m GenCFuncs.G_xai xai ->
       CLiteTac.int_ok xai ->
       match os with
       | Some s => length s
       | None => 0
       end < fuel ->
       CLiteExt.callx ext GenCFuncs.cprog fuel (S (S D)) GenCFuncs.F_vi_indents (v :: nil) m = CLite.Ok (CLite.VPtr (length m) 0, m ++ CLite.cstr_block (CLiteProps.zb (TrViOp2.indents_b xai os)) :: nil).
Proof. exact TrViOp2.tr_vi_indents. Qed.
Print Assumptions C08_tr_vi_indents.

Theorem C08_tr_vc_join_fail : forall (ext : nat -> list CLite.val -> CLite.mem -> CLite.res (CLite.val * CLite.mem)) (fuel : nat),
       (nat -> Prop) ->
       forall (D : nat) (m : CLite.mem) (lb bln : nat) (lbs : list nat) (lines : list bytes) (a1 xr : Z),
       TrViOp.ed_at m lb bln lbs lines ->
       CLiteProps.cell_at m GenCFuncs.G_vi_arg1 a1 ->
       CLiteProps.cell_at m GenCFuncs.G_xrow xr ->
       CLiteTac.int_ok a1 ->
       CLiteTac.int_ok xr ->
       CLiteTac.int_ok (xr + TrViOp2.join_cnt a1) ->
       TrMot.rowidx lines xr = None \/ TrMot.rowidx lines (xr + TrViOp2.join_cnt a1 - 1) = None ->
       CLiteExt.callx ext GenCFuncs.cprog fuel (S (S (S (S D)))) GenCFuncs.F_vc_join nil m = CLite.Ok (CLite.VInt 0, m).
Proof. exact TrViOp2.tr_vc_join_fail. Qed.
Print Assumptions C08_tr_vc_join_fail.

Theorem C08_tr_vc_join : forall (ext : nat -> list CLite.val -> CLite.mem -> CLite.res (CLite.val * CLite.mem)) (fuel : nat),
       TrViOp.oracles ext ->
       forall (lown : nat -> Prop) (D : nat) (m : CLite.mem) (lb bln : nat) (lbs : list nat) (lines : list bytes) (a1 xr xo : Z) 
         (u' : CLite.val) (m6 : CLite.mem) (ud : CLite.val) (m8 : CLite.mem),
       TrViOp.ed_at m lb bln lbs lines ->
       CLiteProps.cell_at m GenCFuncs.G_vi_arg1 a1 ->
       CLiteProps.cell_at m GenCFuncs.G_xrow xr ->
       CLiteProps.cell_at m GenCFuncs.G_xoff xo ->
       CLiteTac.int_ok a1 ->
       let cnt := TrViOp2.join_cnt a1 in
       (0 <= xr)%Z ->
       (xr + cnt <= Z.of_nat (length lines))%Z ->
       (2 * xr + cnt <= 2147483647)%Z ->
       Forall TrViOp2.has_nl (TrViOp2.join_rows_of lines xr cnt) ->
       let R := TrViOp2.join_res lines xr cnt in
       (Z.of_nat (length (fst R)) + 2 <= 2147483647)%Z ->
       length (fst R) < fuel ->
       Z.to_nat cnt + TrMot.maxlen lines + 2 < fuel ->
       (forall b : nat, lown b -> b < length m) ->
       ~ lown GenCFuncs.G_xrow ->
       ~ lown GenCFuncs.G_xoff ->
       ext GenCFuncs.X_lbuf_edit (CLite.VPtr lb 0 :: CLite.VPtr (length m) 0 :: CLite.VInt xr :: CLite.VInt (xr + cnt) :: nil) (TrViOp2.join_mem9 m lines xr cnt) = CLite.Ok (u', m6) ->
       TrViOp.eframe lown (TrViOp2.join_mem9 m lines xr cnt) m6 ->
       ext GenCFuncs.X_vi_drawfix (CLite.VInt xr :: CLite.VInt (xr + cnt - 1) :: CLite.VInt 1 :: CLite.VInt 0 :: nil)
         (CLiteProps.upd (CLiteProps.upd m6 GenCFuncs.G_xoff (CLite.VInt (snd R) :: nil)) (length m) nil) = CLite.Ok (ud, m8) ->
       CLiteExt.callx ext GenCFuncs.cprog fuel (S (S (S (S D)))) GenCFuncs.F_vc_join nil m = CLite.Ok (CLite.VInt 16, m8).
Proof. exact TrViOp2.tr_vc_join. Qed.
Print Assumptions C08_tr_vc_join.

Example C08_tr_join_run : TrViOp2.join_show (CLiteExt.callx TrViOp.ideal_ext GenCFuncs.cprog 60 8 GenCFuncs.F_vc_join nil (TrViOp2.join_mem 3 0)) =
       Some
         (CLite.VInt 16, Some (CLite.VInt 8 :: nil),
          map CLite.VInt (2%Z :: 0%Z :: 3%Z :: 97%Z :: 98%Z :: 46%Z :: 32%Z :: 32%Z :: 99%Z :: 100%Z :: 32%Z :: 41%Z :: 101%Z :: 10%Z :: nil)
          :: map CLite.VInt (3%Z :: 0%Z :: 2%Z :: 1%Z :: 0%Z :: nil) :: nil) /\
       TrViOp2.join_show (CLiteExt.callx TrViOp.ideal_ext GenCFuncs.cprog 60 8 GenCFuncs.F_vc_join nil (TrViOp2.join_mem 0 1)) =
       Some
         (CLite.VInt 16, Some (CLite.VInt 5 :: nil),
          map CLite.VInt (2%Z :: 1%Z :: 3%Z :: 32%Z :: 32%Z :: 99%Z :: 100%Z :: 32%Z :: 41%Z :: 101%Z :: 10%Z :: nil)
          :: map CLite.VInt (3%Z :: 1%Z :: 2%Z :: 1%Z :: 0%Z :: nil) :: nil) /\
       TrViOp2.join_show (CLiteExt.callx TrViOp.ideal_ext GenCFuncs.cprog 60 8 GenCFuncs.F_vc_join nil (TrViOp2.join_mem 5 0)) = Some (CLite.VInt 0, Some (CLite.VInt 0 :: nil), nil) /\
       match CLiteExt.callx TrViOp.ideal_ext GenCFuncs.cprog 60 8 GenCFuncs.F_vi_indents (CLite.VPtr (length GenCFuncs.cglobals + 3) 0 :: nil) (TrViOp2.join_mem 0 0) with
       | CLite.Ok (v, m) => Some (TrViOp.rd0 m v)
       | CLite.Err _ => None
       end = Some (32%N :: 32%N :: nil).
Proof. exact TrViOp2.join_run_examples. Qed.
Local Open Scope N_scope.
Local Open Scope Z_scope.

(* ---------------------------------------------------------------------------------------------------------------------- *)
(* vc_put (p / P) on the C TEXT (coq/TrViOp3.v; same oracle vocabulary).  reg_get is an oracle with one hypothesis for the call: NULL, or a
   pointer to the register's text (in memory before the command) with the line-wise flag stored into the local lnmode (a one-cell block).
   cnt = MAX(1, vi_arg1) (TrViOp3.put_cnt).
   * unset register: snprintf(vi_msg, "yank buffer empty") and 0; empty text: 0; nothing is edited.
   * line-wise register, buffer not empty: the builder holds cnt copies of the text; p moves xrow down one row first; lbuf_edit(xb, that text,
     xrow, xrow); xoff = lbuf_indents of the NEW buffer at xrow; vi_drawfix(xrow, xrow, newlines + 1, 0); the builder is freed; 16.
   * character-wise register on an existing row: off = ren_noeol(line, xoff), one further for p unless the line is empty (TrViOp3.putc_off);
     the text handed to lbuf_edit is (line up to off) ++ cnt copies ++ (line from off) (TrViOp3.putc_text), the range (xrow, xrow + 1);
     xoff = off + uc_slen(text of the register) * cnt - 1; vi_drawfix(xrow, xrow, newlines of the new text, 0); 16.
   ren_noeol of ren.c runs as translated (re-proved in TrViOp3.v for a memory in which only the literal "" is required at its place). *)
From NV Require TrViOp3.
Local Close Scope Z_scope.
Local Close Scope N_scope.
Theorem C08_tr_vc_put_unset : forall (ext : nat -> list CLite.val -> CLite.mem -> CLite.res (CLite.val * CLite.mem)) (fuel : nat),
       (nat -> Prop) ->
       forall (D : nat) (m : CLite.mem) (cmd a1 y : Z) (lnm us : CLite.val) (ms : CLite.mem),
       CLiteProps.cell_at m GenCFuncs.G_vi_arg1 a1 ->
       CLiteProps.cell_at m GenCFuncs.G_vi_ybuf y ->
       CLiteTac.int_ok a1 ->
       CLiteTac.int_ok y ->
       ext GenCFuncs.X_reg_get (CLite.VInt y :: CLite.VPtr (length m) 0 :: nil) (m ++ (CLite.VUndef :: nil) :: nil) = CLite.Ok (CLite.VInt 0, m ++ (lnm :: nil) :: nil) ->
       ext GenCFuncs.X_snprintf (CLite.VPtr GenCFuncs.G_vi_msg 0 :: CLite.VInt 512 :: CLite.VPtr GenCFuncs.G_lit_79616e6b2062756666657220656d707479_17 0 :: nil) (m ++ (lnm :: nil) :: nil) =
       CLite.Ok (us, ms) -> CLiteExt.callx ext GenCFuncs.cprog fuel (S (S D)) GenCFuncs.F_vc_put (CLite.VInt cmd :: nil) m = CLite.Ok (CLite.VInt 0, ms).
Proof. exact TrViOp3.tr_vc_put_unset. Qed.
Print Assumptions C08_tr_vc_put_unset.

Theorem C08_tr_vc_put_empty : forall (ext : nat -> list CLite.val -> CLite.mem -> CLite.res (CLite.val * CLite.mem)) (fuel : nat),
       (nat -> Prop) ->
       forall (D : nat) (m : CLite.mem) (cmd a1 y : Z) (lnm : CLite.val) (rb : nat),
       CLiteProps.cell_at m GenCFuncs.G_vi_arg1 a1 ->
       CLiteProps.cell_at m GenCFuncs.G_vi_ybuf y ->
       CLiteTac.int_ok a1 ->
       CLiteTac.int_ok y ->
       ext GenCFuncs.X_reg_get (CLite.VInt y :: CLite.VPtr (length m) 0 :: nil) (m ++ (CLite.VUndef :: nil) :: nil) = CLite.Ok (CLite.VPtr rb 0, m ++ (lnm :: nil) :: nil) ->
       CLiteProps.str_at m rb nil -> CLiteExt.callx ext GenCFuncs.cprog fuel (S (S D)) GenCFuncs.F_vc_put (CLite.VInt cmd :: nil) m = CLite.Ok (CLite.VInt 0, m ++ (lnm :: nil) :: nil).
Proof. exact TrViOp3.tr_vc_put_empty. Qed.
Print Assumptions C08_tr_vc_put_empty.

Theorem C08_tr_vc_put_lines : forall (ext : nat -> list CLite.val -> CLite.mem -> CLite.res (CLite.val * CLite.mem)) (fuel : nat),
       TrViOp.oracles ext ->
       forall (lown : nat -> Prop) (D : nat) (m : CLite.mem) (lb bln : nat) (lbs : list nat) (lines : list bytes) (cmd a1 y lnm : Z) 
         (rb : nat) (txt : bytes) (xr xo : Z) (u' : CLite.val) (m6 : CLite.mem) (bln' : nat) (lbs' : list nat) (lines' : list bytes) 
         (ud : CLite.val) (m9 : CLite.mem),
       TrViOp.ed_cur m lb bln lbs lines ->
       lines <> nil ->
       CLiteProps.cell_at m GenCFuncs.G_vi_arg1 a1 ->
       CLiteProps.cell_at m GenCFuncs.G_vi_ybuf y ->
       CLiteProps.cell_at m GenCFuncs.G_xrow xr ->
       CLiteProps.cell_at m GenCFuncs.G_xoff xo ->
       CLiteTac.int_ok a1 ->
       CLiteTac.int_ok y ->
       CLiteTac.int_ok lnm ->
       CLiteTac.int_ok cmd ->
       CLiteTac.int_ok xr ->
       CLiteTac.int_ok (xr + 1) ->
       lnm <> 0%Z ->
       ext GenCFuncs.X_reg_get (CLite.VInt y :: CLite.VPtr (length m) 0 :: nil) (m ++ (CLite.VUndef :: nil) :: nil) = CLite.Ok (CLite.VPtr rb 0, m ++ (CLite.VInt lnm :: nil) :: nil) ->
       CLiteProps.str_at m rb txt ->
       nonul txt ->
       txt <> nil ->
       let rep := TrViOp3.put_rep a1 txt in
       let row := TrViOp3.put_row cmd xr in
       (Z.of_nat (length rep) < 2147483647)%Z ->
       TrViOpPure.nlcount rep + 1 < fuel ->
       Z.to_nat (TrViOp3.put_cnt a1) < fuel ->
       (forall b : nat, lown b -> b < length m) ->
       ~ lown GenCFuncs.G_xrow ->
       ~ lown GenCFuncs.G_xoff ->
       ext GenCFuncs.X_lbuf_edit (CLite.VPtr lb 0 :: CLite.VPtr (length m + 1) 0 :: CLite.VInt row :: CLite.VInt row :: nil) (TrViOp3.putl_mem4 m lnm cmd a1 xr txt) = CLite.Ok (u', m6) ->
       TrViOp.eframe lown (TrViOp3.putl_mem4 m lnm cmd a1 xr txt) m6 ->
       TrViOp.ed_cur m6 lb bln' lbs' lines' ->
       TrMot.maxlen lines' < fuel ->
       let v := MotDefs.lbuf_indents (map MotDefs.chop lines') row in
       ext GenCFuncs.X_vi_drawfix (CLite.VInt row :: CLite.VInt row :: CLite.VInt (Z.of_nat (TrViOpPure.nlcount rep) + 1) :: CLite.VInt 0 :: nil) (TrViOp3.putl_mem8 m m6 v) = CLite.Ok (ud, m9) ->
       CLiteExt.callx ext GenCFuncs.cprog fuel (S (S (S (S D)))) GenCFuncs.F_vc_put (CLite.VInt cmd :: nil) m = CLite.Ok (CLite.VInt 16, m9).
Proof. exact TrViOp3.tr_vc_put_lines. Qed.
Print Assumptions C08_tr_vc_put_lines.

Theorem C08_tr_vc_put_chars : forall (ext : nat -> list CLite.val -> CLite.mem -> CLite.res (CLite.val * CLite.mem)) (fuel : nat),
       TrViOp.oracles ext ->
       forall (lown : nat -> Prop) (D : nat) (m : CLite.mem) (lb bln : nat) (lbs : list nat) (lines : list bytes) (cmd a1 y : Z) 
         (rb : nat) (txt : bytes) (xr xo : Z) (u' : CLite.val) (m6 : CLite.mem) (ud : CLite.val) (m9 : CLite.mem),
       TrViOp.ed_cur m lb bln lbs lines ->
       (0 <= xr < Z.of_nat (length lines))%Z ->
       CLiteProps.cell_at m GenCFuncs.G_vi_arg1 a1 ->
       CLiteProps.cell_at m GenCFuncs.G_vi_ybuf y ->
       CLiteProps.cell_at m GenCFuncs.G_xrow xr ->
       CLiteProps.cell_at m GenCFuncs.G_xoff xo ->
       CLiteProps.str_at m GenCFuncs.G_lit__0 nil ->
       CLiteTac.int_ok a1 ->
       CLiteTac.int_ok y ->
       CLiteTac.int_ok cmd ->
       CLiteTac.int_ok xo ->
       ext GenCFuncs.X_reg_get (CLite.VInt y :: CLite.VPtr (length m) 0 :: nil) (m ++ (CLite.VUndef :: nil) :: nil) = CLite.Ok (CLite.VPtr rb 0, m ++ (CLite.VInt 0 :: nil) :: nil) ->
       CLiteProps.str_at m rb txt ->
       nonul txt ->
       txt <> nil ->
       let s := TrMot.nthl lines (Z.to_nat xr) in
       let off := TrViOp3.putc_off s cmd xo in
       let text := TrViOp3.putc_text s cmd xo a1 txt in
       TrViOp.sub_in (Some s) 0 off ->
       TrViOp.sub_in (Some s) off (-1) ->
       (Z.of_nat (length text) < 2147483647)%Z ->
       TrViOpPure.nlcount text + 1 < fuel ->
       Z.to_nat (TrViOp3.put_cnt a1) < fuel ->
       TrMot.maxlen lines < fuel ->
       length txt < fuel ->
       let v := (off + Z.of_nat (UcDefs.uc_slen txt) * TrViOp3.put_cnt a1 - 1)%Z in
       (Z.of_nat (UcDefs.uc_slen txt) * TrViOp3.put_cnt a1 <= 2147483647)%Z ->
       CLiteTac.int_ok v ->
       CLiteTac.int_ok (off + Z.of_nat (UcDefs.uc_slen txt) * TrViOp3.put_cnt a1) ->
       (forall b : nat, lown b -> b < length m) ->
       ~ lown GenCFuncs.G_xrow ->
       ~ lown GenCFuncs.G_xoff ->
       ~ lown rb ->
       ext GenCFuncs.X_lbuf_edit (CLite.VPtr lb 0 :: CLite.VPtr (length m + 1) 0 :: CLite.VInt xr :: CLite.VInt (xr + 1) :: nil) (TrViOp3.putc_mem5 m 0 text) = CLite.Ok (u', m6) ->
       TrViOp.eframe lown (TrViOp3.putc_mem5 m 0 text) m6 ->
       ext GenCFuncs.X_vi_drawfix (CLite.VInt xr :: CLite.VInt xr :: CLite.VInt (Z.of_nat (TrViOpPure.nlcount text)) :: CLite.VInt 0 :: nil) (TrViOp3.putl_mem8 m m6 v) = CLite.Ok (ud, m9) ->
       CLiteExt.callx ext GenCFuncs.cprog fuel (S (S (S (S (S (S D)))))) GenCFuncs.F_vc_put (CLite.VInt cmd :: nil) m = CLite.Ok (CLite.VInt 16, m9).
Proof. exact TrViOp3.tr_vc_put_chars. Qed.
Print Assumptions C08_tr_vc_put_chars.

Example C08_tr_put_run : let rb := CLite.VPtr (length GenCFuncs.cglobals + 5) 0 in
       let run :=
         fun (lnm cmd xr xo a1 : Z) (txt : list Z) =>
         TrViOp3.put_show (CLiteExt.callx (TrViOp3.put_ext rb lnm) GenCFuncs.cprog 60 10 GenCFuncs.F_vc_put (CLite.VInt cmd :: nil) (TrViOp3.put_mem_ex xr xo a1 txt)) in
       run 1%Z 112%Z 1%Z 0%Z 2%Z (88%Z :: 10%Z :: nil) =
       Some
         (CLite.VInt 16, Some (CLite.VInt 2 :: nil), Some (CLite.VInt 0 :: nil),
          map CLite.VInt (2%Z :: 2%Z :: 2%Z :: 88%Z :: 10%Z :: 88%Z :: 10%Z :: nil) :: map CLite.VInt (3%Z :: 2%Z :: 2%Z :: 3%Z :: 0%Z :: nil) :: nil) /\
       run 1%Z 80%Z 1%Z 0%Z 0%Z (88%Z :: 10%Z :: nil) =
       Some
         (CLite.VInt 16, Some (CLite.VInt 1 :: nil), Some (CLite.VInt 0 :: nil),
          map CLite.VInt (2%Z :: 1%Z :: 1%Z :: 88%Z :: 10%Z :: nil) :: map CLite.VInt (3%Z :: 1%Z :: 1%Z :: 2%Z :: 0%Z :: nil) :: nil) /\
       run 0%Z 112%Z 1%Z 1%Z 2%Z (120%Z :: 121%Z :: nil) =
       Some
         (CLite.VInt 16, Some (CLite.VInt 1 :: nil), Some (CLite.VInt 5 :: nil),
          map CLite.VInt (2%Z :: 1%Z :: 2%Z :: 99%Z :: 100%Z :: 120%Z :: 121%Z :: 120%Z :: 121%Z :: 101%Z :: 10%Z :: nil)
          :: map CLite.VInt (3%Z :: 1%Z :: 1%Z :: 1%Z :: 0%Z :: nil) :: nil) /\
       run 0%Z 80%Z 1%Z 1%Z 1%Z (120%Z :: 121%Z :: nil) =
       Some
         (CLite.VInt 16, Some (CLite.VInt 1 :: nil), Some (CLite.VInt 2 :: nil),
          map CLite.VInt (2%Z :: 1%Z :: 2%Z :: 99%Z :: 120%Z :: 121%Z :: 100%Z :: 101%Z :: 10%Z :: nil)
          :: map CLite.VInt (3%Z :: 1%Z :: 1%Z :: 1%Z :: 0%Z :: nil) :: nil) /\
       TrViOp3.put_show (CLiteExt.callx (TrViOp3.put_ext (CLite.VInt 0) 0) GenCFuncs.cprog 60 10 GenCFuncs.F_vc_put (CLite.VInt 112 :: nil) (TrViOp3.put_mem_ex 1 1 1 nil)) =
       Some (CLite.VInt 0, Some (CLite.VInt 1 :: nil), Some (CLite.VInt 1 :: nil), nil).
Proof. exact TrViOp3.put_run_examples. Qed.
Local Open Scope N_scope.
Local Open Scope Z_scope.

(* ---------------------------------------------------------------------------------------------------------------------- *)
(* vi_case (g~ gu gU) on the C TEXT (coq/TrViOp4.v).  The loop that converts the region text in place: for EVERY text in the block (block
   length m0, any blocks behind it), every offset o of the pointer and every key cmd, the loop ends with the block holding the bytes in front of o
   followed by TrViOp4.case_f of the rest: the first byte of every character (found with uc_next on the converted text) is converted when it
   is ASCII -- tolower for 'u', toupper for 'U', the other case for '~' (<ctype.h> in the C locale), nothing for another key; the stores are
   checked stores into the block.  Line-wise vi_case: the converted region text (TrViOp4.case_f of TrViOp.op_text) is handed to
   lbuf_edit(xb, region, r1, r2 + 1); xrow = r2, xoff = lbuf_indents of the NEW buffer at r2; region, pref = "" and post = "\n" are freed;
   vi_drawfix(r1, r2, r2 - r1 + 1, 0); 16.  (Character-wise vi_case, which goes through the string builder, is not proved on the C text.) *)
From NV Require TrViOp4.
Local Close Scope Z_scope.
Local Close Scope N_scope.
Theorem C08_tr_vi_case_loop : forall (ext : nat -> list CLite.val -> CLite.mem -> CLite.res (CLite.val * CLite.mem)) (fuel D : nat) (m0 tl : list CLite.block) (cmd : Z)
         (l0 l1 l2 l3 l4 l6 l7 l8 l11 : CLite.val) (k : nat) (cur : bytes) (o F : nat) (l10 : CLite.val),
       nonul cur ->
       length cur - o <= k ->
       o <= length cur ->
       k < F ->
       length cur < fuel ->
       exists (o' : Z) (l10' : CLite.val),
         CLite.exec (CLiteExt.callx ext GenCFuncs.cprog fuel (S (S (S D)))) F TrViOp4.vcase_loop
           {|
             CLite.locals := l0 :: l1 :: l2 :: l3 :: l4 :: CLite.VInt cmd :: l6 :: l7 :: l8 :: CLite.VPtr (length m0) (Z.of_nat o) :: l10 :: l11 :: nil;
             CLite.memm := m0 ++ CLite.cstr_block (CLiteProps.zb cur) :: tl
           |} =
         CLite.ONormal
           {|
             CLite.locals := l0 :: l1 :: l2 :: l3 :: l4 :: CLite.VInt cmd :: l6 :: l7 :: l8 :: CLite.VPtr (length m0) o' :: l10' :: l11 :: nil;
             CLite.memm := m0 ++ CLite.cstr_block (CLiteProps.zb (firstn o cur ++ TrViOp4.case_f k cmd (skipn o cur))) :: tl
           |}.
Proof. exact TrViOp4.vcase_loop_ok. Qed.
Print Assumptions C08_tr_vi_case_loop.

Theorem C08_tr_vi_case_lines : forall (ext : nat -> list CLite.val -> CLite.mem -> CLite.res (CLite.val * CLite.mem)) (fuel : nat),
       TrViOp.oracles ext ->
       forall (lown : nat -> Prop) (D : nat) (m : CLite.mem) (lb bln : nat) (lbs : list nat) (lines : list bytes) (r1 o1 r2 o2 ln cmd xr xo : Z)
         (u' : CLite.val) (m6 : CLite.mem) (bln' : nat) (lbs' : list nat) (lines' : list bytes) (ud : CLite.val) (m9 : CLite.mem),
       TrViOp.ed_at m lb bln lbs lines ->
       (0 <= r1 + 1 <= 2147483647)%Z ->
       CLiteTac.int_ok r2 ->
       CLiteTac.int_ok (r2 + 1) ->
       CLiteTac.int_ok (r2 - r1) ->
       CLiteTac.int_ok (r2 - r1 + 1) ->
       TrViOp.region_in lines r1 (TrViOp.op_o1 ln o1) r2 (TrViOp.op_o2 ln o2) ->
       TrViOp.lnb ln = true ->
       CLiteProps.cell_at m GenCFuncs.G_xrow xr ->
       CLiteProps.cell_at m GenCFuncs.G_xoff xo ->
       CLiteProps.str_at m GenCFuncs.G_lit__0 nil ->
       CLiteProps.str_at m GenCFuncs.G_lit_0a_1 (10%N :: nil) ->
       length (TrViOp.op_text lines r1 o1 r2 o2 ln) < fuel ->
       TrMot.maxlen lines' < fuel ->
       (forall b : nat, lown b -> b < length m) ->
       ~ lown GenCFuncs.G_xrow ->
       ~ lown GenCFuncs.G_xoff ->
       ext GenCFuncs.X_lbuf_edit (CLite.VPtr lb 0 :: CLite.VPtr (length m) 0 :: CLite.VInt r1 :: CLite.VInt (r2 + 1) :: nil) (TrViOp4.case_mem7 m lines r1 o1 r2 o2 ln cmd) =
       CLite.Ok (u', m6) ->
       TrViOp.eframe lown (TrViOp4.case_mem7 m lines r1 o1 r2 o2 ln cmd) m6 ->
       TrViOp.ed_cur m6 lb bln' lbs' lines' ->
       let v := MotDefs.lbuf_indents (map MotDefs.chop lines') r2 in
       ext GenCFuncs.X_vi_drawfix (CLite.VInt r1 :: CLite.VInt r2 :: CLite.VInt (r2 - r1 + 1) :: CLite.VInt 0 :: nil) (TrViOp4.case_mem8 m m6 r1 r2 v) = CLite.Ok (ud, m9) ->
       CLiteExt.callx ext GenCFuncs.cprog fuel (S (S (S (S D)))) GenCFuncs.F_vi_case (CLite.VInt r1 :: CLite.VInt o1 :: CLite.VInt r2 :: CLite.VInt o2 :: CLite.VInt ln :: CLite.VInt cmd :: nil) m =
       CLite.Ok (CLite.VInt 16, m9).
Proof. exact TrViOp4.tr_vi_case_lines. Qed.
Print Assumptions C08_tr_vi_case_lines.

Example C08_tr_case_run : let run := fun (args : list Z) (xr xo : Z) => TrViOp.op_show (CLiteExt.callx TrViOp.ideal_ext GenCFuncs.cprog 50 8 GenCFuncs.F_vi_case (map CLite.VInt args) (TrViOp.op_mem xr xo)) in
       run (1%Z :: 0%Z :: 1%Z :: 0%Z :: 1%Z :: 126%Z :: nil) 1%Z 2%Z =
       Some
         (CLite.VInt 16, Some (CLite.VInt 1 :: nil), Some (CLite.VInt 0 :: nil),
          map CLite.VInt (2%Z :: 1%Z :: 2%Z :: 67%Z :: 68%Z :: 69%Z :: 10%Z :: nil) :: map CLite.VInt (3%Z :: 1%Z :: 1%Z :: 1%Z :: 0%Z :: nil) :: nil) /\
       run (0%Z :: 0%Z :: 1%Z :: 0%Z :: 1%Z :: 85%Z :: nil) 0%Z 0%Z =
       Some
         (CLite.VInt 16, Some (CLite.VInt 1 :: nil), Some (CLite.VInt 0 :: nil),
          map CLite.VInt (2%Z :: 0%Z :: 2%Z :: 65%Z :: 66%Z :: 10%Z :: 67%Z :: 68%Z :: 69%Z :: 10%Z :: nil)
          :: map CLite.VInt (3%Z :: 0%Z :: 1%Z :: 2%Z :: 0%Z :: nil) :: nil) /\
       run (2%Z :: 0%Z :: 2%Z :: 0%Z :: 1%Z :: 117%Z :: nil) 2%Z 0%Z =
       Some
         (CLite.VInt 16, Some (CLite.VInt 2 :: nil), Some (CLite.VInt 0 :: nil),
          map CLite.VInt (2%Z :: 2%Z :: 3%Z :: 102%Z :: 10%Z :: nil) :: map CLite.VInt (3%Z :: 2%Z :: 2%Z :: 1%Z :: 0%Z :: nil) :: nil) /\
       TrViOp4.case_b 126 (97%N :: 195%N :: 169%N :: nil) = 65%N :: 195%N :: 169%N :: nil.
Proof. exact TrViOp4.case_run_examples. Qed.
Local Open Scope N_scope.
Local Open Scope Z_scope.

(* character-wise vi_case: pref = line r1 up to o1, post = line r2 from o2 (uc_sub), the builder gets pref ++ converted region ++ post, which is handed to
   lbuf_edit(xb, .., r1, r2 + 1); the builder is freed; xrow = r2, xoff = o2; region, pref, post freed; vi_drawfix(r1, r2, r2 - r1 + 1, 0); 16 *)
Local Close Scope Z_scope.
Local Close Scope N_scope.
Theorem C08_tr_vi_case_chars : forall (ext : nat -> list CLite.val -> CLite.mem -> CLite.res (CLite.val * CLite.mem)) (fuel : nat),
       TrViOp.oracles ext ->
       forall (lown : nat -> Prop) (D : nat) (m : CLite.mem) (lb bln : nat) (lbs : list nat) (lines : list bytes) (r1 o1 r2 o2 ln cmd xr xo : Z)
         (u' : CLite.val) (m6 : CLite.mem) (ud : CLite.val) (m9 : CLite.mem),
       TrViOp.ed_at m lb bln lbs lines ->
       (0 <= r1 + 1 <= 2147483647)%Z ->
       CLiteTac.int_ok r2 ->
       CLiteTac.int_ok (r2 + 1) ->
       CLiteTac.int_ok (r2 - r1) ->
       CLiteTac.int_ok (r2 - r1 + 1) ->
       CLiteTac.int_ok o2 ->
       TrViOp.region_in lines r1 (TrViOp.op_o1 ln o1) r2 (TrViOp.op_o2 ln o2) ->
       TrViOp.lnb ln = false ->
       TrViOp.sub_in (TrViOp.getb lines r1) 0 o1 ->
       TrViOp.sub_in (TrViOp.getb lines r2) o2 (-1) ->
       CLiteProps.cell_at m GenCFuncs.G_xrow xr ->
       CLiteProps.cell_at m GenCFuncs.G_xoff xo ->
       length (TrViOp.op_text lines r1 o1 r2 o2 ln) < fuel ->
       (forall b : nat, lown b -> b < length m) ->
       ~ lown GenCFuncs.G_xrow ->
       ~ lown GenCFuncs.G_xoff ->
       let p6 := length m + 1 + length (TrViOp.rg_tail r1 r2) in
       ext GenCFuncs.X_lbuf_edit (CLite.VPtr lb 0 :: CLite.VPtr (p6 + 2) 0 :: CLite.VInt r1 :: CLite.VInt (r2 + 1) :: nil) (TrViOp4.case_mem7c m lines r1 o1 r2 o2 ln cmd) =
       CLite.Ok (u', m6) ->
       TrViOp.eframe lown (TrViOp4.case_mem7c m lines r1 o1 r2 o2 ln cmd) m6 ->
       ext GenCFuncs.X_vi_drawfix (CLite.VInt r1 :: CLite.VInt r2 :: CLite.VInt (r2 - r1 + 1) :: CLite.VInt 0 :: nil) (TrViOp4.case_mem8c m m6 r1 r2 o2) = CLite.Ok (ud, m9) ->
       CLiteExt.callx ext GenCFuncs.cprog fuel (S (S (S (S D)))) GenCFuncs.F_vi_case (CLite.VInt r1 :: CLite.VInt o1 :: CLite.VInt r2 :: CLite.VInt o2 :: CLite.VInt ln :: CLite.VInt cmd :: nil) m =
       CLite.Ok (CLite.VInt 16, m9).
Proof. exact TrViOp4.tr_vi_case_chars. Qed.
Print Assumptions C08_tr_vi_case_chars.
Local Open Scope N_scope.
Local Open Scope Z_scope.
Example C08_tr_case_chars_run :
  TrViOp.op_show (CLiteExt.callx TrViOp.ideal_ext GenCFuncs.cprog 50 8 GenCFuncs.F_vi_case (map CLite.VInt [0; 1; 1; 2; 0; 126]%Z) (TrViOp.op_mem 0 1))
  = Some (CLite.VInt 16, Some [CLite.VInt 1], Some [CLite.VInt 2], [map CLite.VInt [2; 0; 2; 97; 66; 10; 67; 68; 101; 10]%Z; map CLite.VInt [3; 0; 1; 2; 0]%Z]).
Proof. exact TrViOp4.case_run_chars. Qed.

(* ---- lbuf_cp, the field o_cp of the record TrViOp.oracles (lbuf_region's middle rows; coq/TrLbufCp.v, coq/TrLbufCpUse.v; lbuf_cp itself:
   C04_tr_lbuf_cp in Properties_C04.v).  o_cp says `ext X_lbuf_cp [lb; b; e] m = fresh (cp_b lines b e) m`: the pointer is block `length m` and
   the new memory is m plus ONE block that holds exactly the string.  The real function does not do that, and C08_cp_not_exact proves it: for
   every oracle that answers X_lbuf_cp by running the translated lbuf_cp the answer is NEVER `fresh ...` -- block `length m` is the struct sbuf,
   freed before the return (an empty block in CLite's memory), the text is in a block behind it, that block is longer than the string (sbuf.c's
   capacity), and data blocks abandoned while the buffer grew stay behind as freed blocks.  C08_tr_cp_discharged is the strongest true variant
   (TrLbufCpUse.fresh_p): the answer is a pointer to the start of a block that did not exist in m and starts with exactly cp_b lines b e plus
   the terminator, every block of m is unchanged, block `length m` is freed.  Side conditions o_cp leaves out: the line count and end fit an int,
   the copy is at most 500 MB, one unit of loop fuel per row.  The theorems of TrViOp*.v that use o_cp (C08_tr_lbuf_region and what is built
   on it) therefore hold for the idealised allocator of the record, not literally for the translated lbuf_cp: their memory equations name
   block indices. *)
From NV Require CLite CLiteProps CLiteExt GenCFuncs TrLbufBase TrMot TrViOp TrLbufCp TrLbufCpUse.
Theorem C08_tr_cp_discharged : forall (ext : nat -> list CLite.val -> CLite.mem -> CLite.res (CLite.val * CLite.mem)) (fuel d : nat)
    (m : CLite.mem) (lb bln : nat) (lbs : list nat) (lines : list bytes) (b e : Z),
  (forall args m0, ext GenCFuncs.X_lbuf_cp args m0 = CLite.callf GenCFuncs.cprog fuel (S (S (S (S d)))) GenCFuncs.F_lbuf_cp args m0) ->
  TrMot.lbuf_at m lb bln lbs lines -> (0 <= b)%Z -> TrLbufBase.i32 e -> (Z.of_nat (length lines) <= 2147483647)%Z ->
  (Z.of_nat (length (TrViOp.cp_b lines b e)) <= 500000000)%Z -> (Z.to_nat (e - b) < fuel)%nat ->
  exists pb m' rest, ext GenCFuncs.X_lbuf_cp [CLite.VPtr lb 0%Z; CLite.VInt b; CLite.VInt e] m = CLite.Ok (CLite.VPtr pb 0%Z, m') /\
    nth_error m' pb = Some (CLite.cstr_block (CLiteProps.zb (TrViOp.cp_b lines b e)) ++ rest) /\
    (length m < pb < length m')%nat /\ nth_error m' (length m) = Some [] /\
    (forall k, (k < length m)%nat -> nth_error m' k = nth_error m k).
Proof. exact TrLbufCpUse.tr_cp_discharged_C08. Qed.
Print Assumptions C08_tr_cp_discharged.

Theorem C08_cp_not_exact : forall (ext : nat -> list CLite.val -> CLite.mem -> CLite.res (CLite.val * CLite.mem)) (fuel d : nat)
    (m : CLite.mem) (lb bln : nat) (lbs : list nat) (lines : list bytes) (b e : Z),
  (forall args m0, ext GenCFuncs.X_lbuf_cp args m0 = CLite.callf GenCFuncs.cprog fuel (S (S (S (S d)))) GenCFuncs.F_lbuf_cp args m0) ->
  TrMot.lbuf_at m lb bln lbs lines -> (0 <= b)%Z -> TrLbufBase.i32 e -> (Z.of_nat (length lines) <= 2147483647)%Z ->
  (Z.of_nat (length (TrViOp.cp_b lines b e)) <= 500000000)%Z -> (Z.to_nat (e - b) < fuel)%nat ->
  ext GenCFuncs.X_lbuf_cp [CLite.VPtr lb 0%Z; CLite.VInt b; CLite.VInt e] m <> TrViOp.fresh (TrViOp.cp_b lines b e) m.
Proof. exact TrLbufCpUse.cp_not_exact_C08. Qed.
Print Assumptions C08_cp_not_exact.

(* not vacuous, and the translated lbuf_cp RUNS on the buffer of C08_tr_region_run ("ab\n", "cde\n", "f\n"): lbuf_cp(xb, 1, 3) returns block
   length m + 1, which starts with "cde\nf\n" and the terminator = cp_b of rows 1..2 and is 128 cells long; block length m is freed; the blocks of m
   are unchanged; the memory satisfies TrMot.lbuf_at. *)
Example C08_tr_cp_runs :
  let m := TrViOp.op_mem 0 0 in let g := length GenCFuncs.cglobals in
  (match CLite.callf GenCFuncs.cprog 50 8 GenCFuncs.F_lbuf_cp [CLite.VPtr g 0%Z; CLite.VInt 1%Z; CLite.VInt 3%Z] m with
   | CLite.Ok (CLite.VPtr pb 0%Z, m') => pb = S (length m) /\ firstn 7 (nth pb m' []) = CLite.cstr_block (CLiteProps.zb (TrViOp.cp_b TrViOp.op_lines 1 3)) /\
       length (nth pb m' []) = 128%nat /\ nth_error m' (length m) = Some [] /\ firstn (length m) m' = m
   | _ => False
   end) /\
  TrMot.lbuf_at m g (g + 1) [g + 2; g + 3; g + 4]%nat TrViOp.op_lines /\
  (forall args m0, TrLbufCpUse.ext_cp 50 4 GenCFuncs.X_lbuf_cp args m0 = CLite.callf GenCFuncs.cprog 50 8 GenCFuncs.F_lbuf_cp args m0).
Proof.
  cbv zeta. split; [vm_compute; repeat split; reflexivity|]. split; [exact (TrViOp.ed_lb _ _ _ _ _ (TrViOp.op_mem_ed 0 0))|exact (TrLbufCpUse.ext_cp_is 50 4)].
Qed.

(* ---- vi_shift (`<` / `>`) on the translated C text (coq/TrViShift.v; whitelist tools/c2clite.d/99zzzzz_viops.list).  vi_shift calls lbuf_edit once per
   row INSIDE its loop, so lbuf_edit is an oracle with a SIMULATION hypothesis (TrViShift.edit_sim, the style of TrGlob.exec_oracle / TrCmp4.replace_sim):
   called on a memory that represents the lines with the text t in the newest block, for the row i that is line k, it returns a memory that represents
   edit_row lines t k (line k replaced by the lines of t; the buffer's blocks are existential on both sides), keeps the text block and the cursor cells;
   vi_drawfix likewise keeps the picture (draw_sim); the string builder is the record TrViOp.oracles.
   C08_tr_vi_shift: for every such oracle, every represented buffer and all rows r1, r2 (rows outside the buffer are skipped: `continue`), every dir: the
   run returns 16 = VC_ALL and the memory represents shift_rows_b dir (r2 - r1 + 1) r1 lines -- each row r1..r2 in turn gets lbuf_edit(xb, shift_b dir line, i, i + 1),
   shift_b: for dir > 0 a tab in front unless the line starts with the newline (an empty line is left alone), otherwise one leading blank or tab dropped --,
   xrow = r1, xoff = lbuf_indents of the NEW buffer at r1, vi_drawfix was called.  Side conditions: r1, r2 + 1, dir, r2 - r1 + 1 inside int, every buffer on the
   way has its sizes inside int (shift_small: a `>` makes a line one byte longer), fuel above the row count and the longest new line.
   C08_tr_shift_text_model: the text handed to lbuf_edit for a row is the interpreter's -- ViDefs.shift_line on the characters of the line, flattened
   (for a non-empty NUL-free line; the C text would put a tab in front of the EMPTY string, ViDefs.shift_line leaves [] alone: buffer lines end in a newline).
   Not proved: that shift_rows_b is ViDefs.shift_rows (lbuf_edit's effect on the line list, edit_row = split at newlines, is not bridged to ViDefs.lbuf_edit);
   that a total concrete oracle satisfies edit_sim (TrUndoEdit / TrCmp4Edit prove lbuf_edit in another memory picture) -- the run example uses an in-place edit. *)
From NV Require TrViShift.
Theorem C08_tr_vi_shift : forall (ext : nat -> list CLite.val -> CLite.mem -> CLite.res (CLite.val * CLite.mem)) (fuel : nat),
  TrViOp.oracles ext -> forall lb : nat, TrViShift.edit_sim ext lb -> TrViShift.draw_sim ext lb ->
  forall (D : nat) (m : CLite.mem) (bln : nat) (lbs : list nat) (lines : list bytes) (r1 r2 dir xr xo : Z),
  TrViOp.ed_cur m lb bln lbs lines -> CLiteProps.cell_at m GenCFuncs.G_xrow xr -> CLiteProps.cell_at m GenCFuncs.G_xoff xo ->
  CLiteTac.int_ok r1 -> CLiteTac.int_ok (r2 + 1) -> CLiteTac.int_ok dir -> CLiteTac.int_ok (r2 - r1) -> CLiteTac.int_ok (r2 - r1 + 1) ->
  let n := Z.to_nat (r2 - r1 + 1) in let lines' := TrViShift.shift_rows_b dir n r1 lines in
  TrViShift.shift_small dir n r1 lines -> (n < fuel)%nat -> (TrMot.maxlen lines' < fuel)%nat ->
  exists (m9 : CLite.mem) (bln' : nat) (lbs' : list nat),
    CLiteExt.callx ext GenCFuncs.cprog fuel (S (S (S (S D)))) GenCFuncs.F_vi_shift [CLite.VInt r1; CLite.VInt r2; CLite.VInt dir] m = CLite.Ok (CLite.VInt 16, m9) /\
    TrViOp.ed_cur m9 lb bln' lbs' lines' /\ CLiteProps.cell_at m9 GenCFuncs.G_xrow r1 /\
    CLiteProps.cell_at m9 GenCFuncs.G_xoff (MotDefs.lbuf_indents (map MotDefs.chop lines') r1).
Proof. exact TrViShift.tr_vi_shift. Qed.
Print Assumptions C08_tr_vi_shift.

Theorem C08_tr_shift_text_model : forall (dir : Z) (s : bytes), nonul s -> s <> [] ->
  ViDefs.flat (ViDefs.shift_line (0 <? dir)%Z (MotDefs.chop s)) = TrViShift.shift_b dir s.
Proof. exact TrViShift.shift_b_model. Qed.
Print Assumptions C08_tr_shift_text_model.

(* the translated vi_shift RUNS (vm_compute, lbuf_edit as an edit in place, the other callees as TrViOp.ideal_ext): `>` on rows 0..1 of "ab\n", "cde\n", "f\n"
   puts a tab in front of both, xrow = 0, xoff = 1, vi_drawfix(0, 1, 2, 0), 16; `<` on rows 0..2 of the result gives the original lines back, xoff = 0;
   `>` on rows 2..4 touches row 2 only; the premises of C08_tr_vi_shift about the memory and the model hold on the first run. *)
Example C08_tr_shift_runs :
  (let run args m := CLiteExt.callx TrViShift.shift_ext GenCFuncs.cprog 50 8 GenCFuncs.F_vi_shift (map CLite.VInt args) m in
   TrViShift.shift_show (run [0; 1; 1]%Z (TrViOp.op_mem 1 2))
     = Some (CLite.VInt 16, Some [CLite.VInt 0], Some [CLite.VInt 1], TrViShift.shift_rows_b 1 2 0 TrViOp.op_lines, [map CLite.VInt [3; 0; 1; 2; 0]%Z]) /\
   TrViShift.shift_rows_b 1 2 0 TrViOp.op_lines = [[9; 97; 98; 10]; [9; 99; 100; 101; 10]; [102; 10]]%N /\
   (match run [0; 1; 1]%Z (TrViOp.op_mem 1 2) with
    | CLite.Ok (_, m1) => option_map (fun x => fst x) (TrViShift.shift_show (run [0; 2; -1]%Z m1))
                          = Some (CLite.VInt 16, Some [CLite.VInt 0], Some [CLite.VInt 0], TrViOp.op_lines)
    | _ => False
    end) /\
   TrViShift.shift_rows_b (-1) 3 0 (TrViShift.shift_rows_b 1 2 0 TrViOp.op_lines) = TrViOp.op_lines /\
   option_map (fun x => snd (fst x)) (TrViShift.shift_show (run [2; 4; 1]%Z (TrViOp.op_mem 0 0))) = Some (TrViShift.shift_rows_b 1 3 2 TrViOp.op_lines) /\
   TrViShift.shift_rows_b 1 3 2 TrViOp.op_lines = [[97; 98; 10]; [99; 100; 101; 10]; [9; 102; 10]]%N) /\
  (TrViOp.ed_cur (TrViOp.op_mem 1 2) (length GenCFuncs.cglobals) (length GenCFuncs.cglobals + 1)
     [length GenCFuncs.cglobals + 2; length GenCFuncs.cglobals + 3; length GenCFuncs.cglobals + 4]%nat TrViOp.op_lines /\
   CLiteProps.cell_at (TrViOp.op_mem 1 2) GenCFuncs.G_xrow 1 /\ CLiteProps.cell_at (TrViOp.op_mem 1 2) GenCFuncs.G_xoff 2 /\
   TrViShift.shift_small 1 2 0 TrViOp.op_lines /\ (TrMot.maxlen (TrViShift.shift_rows_b 1 2 0 TrViOp.op_lines) < 50)%nat).
Proof. exact (conj TrViShift.shift_run_examples TrViShift.shift_run_premises). Qed.
