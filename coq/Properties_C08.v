(* Properties_C08.v -- C08: vi operators, inserts, puts and registers.
   Statements only; every proof is `exact <lemma>`; Print Assumptions under each. *)
From Coq Require Import List NArith ZArith Bool.
From NV Require Import Bytes UcDefs UcSpec MotDefs MotProps RegDefs RegProps ViDefs ViProps.
Import ListNotations.
Local Open Scope N_scope.

(* C08_registers, clause 1: after reg_put into a lower-case, digit or the unnamed register (any name
   that is not upper case; the name 34 = double quote is written as 0 by the callers) reg_get
   returns exactly that text and line-wise flag *)
Theorem C08_registers_put_get : forall R c s ln, c_isupper c = false -> c <> 34 ->
  reg_get (reg_put R c s ln) c = Some (s, ln).
Proof. exact put_get_plain. Qed.
Print Assumptions C08_registers_put_get.

(* clause 2: an upper-case name appends to the lower-case register *)
Theorem C08_registers_append : forall R c s ln, c_isupper c = true ->
  reg_get (reg_put R c s ln) (c + 32) =
  Some ((match R (c + 32) with Some (b, _) => b | None => [] end) ++ s, ln).
Proof. exact put_get_upper. Qed.
Print Assumptions C08_registers_append.

(* clause 3: a line-wise or multi-line put into the unnamed or an alphabetic register shifts
   1 -> 2 -> ... -> 9 (an unset register leaves its successor alone, as reg.c does) and stores the text in 1 *)
Theorem C08_registers_rotate : forall R c s ln, rot_cond c s ln = true ->
  reg_put R c s ln 49 = Some (s, ln) /\
  forall d, 49 <= d <= 56 -> reg_put R c s ln (d + 1) = match R d with Some v => Some v | None => R (d + 1) end.
Proof. exact put_rotates. Qed.
Print Assumptions C08_registers_rotate.

(* clause 4: nothing else changes: every slot other than the (lower-cased) target and, when the
   rotation applies, the digits 1..9 keeps its value *)
Theorem C08_registers_frame : forall R c s ln x, x <> c_tolower c ->
  (rot_cond c s ln = true -> ~ (49 <= x <= 57)) -> reg_put R c s ln x = R x.
Proof. exact put_frame. Qed.
Print Assumptions C08_registers_frame.

(* ---------- C08_region: the region vc_motion hands to the operator ---------- *)
Local Open Scope Z_scope.
(* rows are ordered (r1 <= r2 = the cursor row and the target row) and the region is line-wise
   exactly when the motion is a line motion (target offset < 0) *)
Theorem C08_region_rows : forall b k r1 o1 r2 o2, let g := vc_region b k r1 o1 r2 o2 in
  g_r1 g = Z.min r1 r2 /\ g_r2 g = Z.max r1 r2 /\ g_ln g = (o2 <? 0).
Proof. exact vc_region_rows. Qed.
Print Assumptions C08_region_rows.

(* inside one line: exactly the span between cursor and target, smaller offset first; exclusive for
   exclusive motions; one character longer for f F t T e E % unless the larger end is already at the
   end of the line *)
Theorem C08_region_same_row : forall b k r o1 o2 l, buf_wf b -> getl b r = Some l -> 0 <= o2 -> off_ok l (Z.min o1 o2) ->
  let g := vc_region b k r o1 r o2 in
  g_ln g = false /\ g_r1 g = r /\ g_r2 g = r /\ g_o1 g = Z.min o1 o2 /\
  g_o2 g = if incl_key k && (Z.max o1 o2 <? slen l - 1) then ren_noeol (Some l) (Z.max o1 o2) + 1 else Z.max o1 o2.
Proof. exact vc_region_same_row. Qed.
Print Assumptions C08_region_same_row.

(* ---------- C08_delete_yank_put ---------- *)
(* character-wise inside one line: the register holds exactly the region's text, the line becomes
   before ++ after, and putting that text back before offset o1 restores the buffer *)
Theorem C08_delete_yank_put_chars : forall b R y r o1 o2 l, getl b r = Some l -> line_wf l -> 0 <= o1 <= o2 -> o2 <= slen l - 1 ->
  c_isupper y = false -> y <> 34%N ->
  let g := mk_region r o1 r o2 false in
  let '(b', R') := vi_delete b R y g in
  reg_get R' y = Some (flat (sub_l l o1 o2), false) /\
  getl b' r = Some (sub_l l 0 o1 ++ sub_l l o2 (-1)) /\
  put_chars b' r o1 (sub_l l o1 o2) = b.
Proof. exact delete_put_chars. Qed.
Print Assumptions C08_delete_yank_put_chars.

(* line-wise: the register holds the lines' text with the line-wise flag, the lines are removed,
   and putting them back above row r1 restores the buffer *)
Theorem C08_delete_yank_put_lines : forall b R y r1 r2, 0 <= r1 <= r2 -> r2 < blen b -> c_isupper y = false -> y <> 34%N ->
  let g := mk_region r1 0 r2 0 true in
  let ls := rows_between b r1 (r2 + 1) in
  let '(b', R') := vi_delete b R y g in
  reg_get R' y = Some (flat (lbuf_region b r1 0 r2 (-1)), true) /\
  b' = firstn (Z.to_nat r1) b ++ skipn (Z.to_nat (r2 + 1)) b /\
  put_lines b' r1 ls = b.
Proof. exact delete_put_lines. Qed.
Print Assumptions C08_delete_yank_put_lines.

(* PARTIAL: the multi-line character-wise region (dw joining two lines), p as opposed to P, counts on
   puts, and "u restores" (C04) are not covered by the two theorems above; they are explored by the
   correspondence run only. *)

(* ---------- C08_utf8 (PARTIAL: delete, yank and put only) ---------- *)
(* on the character view every edit moves whole characters: delete and put keep every line a list of
   encoded scalar values, and the text that reaches a register is valid UTF-8 (flat_valid, with
   chars_cons of UcSegProps).  Missing: vi_case (ASCII-only case flip), vi_shift, vc_join,
   vc_replace and insert mode are not modelled in Coq. *)
Theorem C08_utf8_delete_partial : forall b R y g, buf_valid b -> buf_valid (fst (vi_delete b R y g)).
Proof. exact vi_delete_valid. Qed.
Print Assumptions C08_utf8_delete_partial.
Theorem C08_utf8_put_partial : forall b r off txt, buf_valid b -> line_valid txt -> buf_valid (put_chars b r off txt).
Proof. exact put_chars_valid. Qed.
Print Assumptions C08_utf8_put_partial.
Theorem C08_utf8_register_partial : forall cs, line_valid cs -> valid (flat cs).
Proof. exact flat_valid. Qed.
Print Assumptions C08_utf8_register_partial.
Local Open Scope N_scope.

Example C08_nonvacuous :
  let R := reg_put (reg_put (reg_put regs0 0 [97; 10] true) 97 [98] false) 65 [99; 10] false in
  reg_get R 97 = Some ([98; 99; 10], false) /\ reg_get R 49 = Some ([99; 10], false) /\ reg_get R 50 = Some ([97; 10], true) /\
  reg_get R 34 = Some ([97; 10], true).
Proof. vm_compute. repeat split; reflexivity. Qed.
