(* Properties_C08.v -- C08: vi operators, inserts, puts and registers.
   Statements only; every proof is `exact <lemma>`; Print Assumptions under each. *)
From Coq Require Import List NArith ZArith.
From NV Require Import Bytes UcDefs RegDefs RegProps.
Import ListNotations.
Local Open Scope N_scope.

(* C08_registers, clause 1: after reg_put into a lower-case, digit or the unnamed register (any name
   that is not upper case; the name 34 = double quote is written as 0 by the callers) reg_get
   returns exactly that text and line-wise flag *)
Theorem C08_registers_put_get : forall R c s ln, c_isupper c = false -> c <> 34 ->
  reg_get (reg_put R c s ln) c = Some (s, ln).
Proof. exact put_get_plain. Qed.
Print Assumptions C08_registers_put_get.

(* clause 2: an upper-case name appends to the lower-case register *)
Theorem C08_registers_append : forall R c s ln, c_isupper c = true ->
  reg_get (reg_put R c s ln) (c + 32) =
  Some ((match R (c + 32) with Some (b, _) => b | None => [] end) ++ s, ln).
Proof. exact put_get_upper. Qed.
Print Assumptions C08_registers_append.

(* clause 3: a line-wise or multi-line put into the unnamed or an alphabetic register shifts
   1 -> 2 -> ... -> 9 (an unset register leaves its successor alone, as reg.c does) and stores the text in 1 *)
Theorem C08_registers_rotate : forall R c s ln, rot_cond c s ln = true ->
  reg_put R c s ln 49 = Some (s, ln) /\
  forall d, 49 <= d <= 56 -> reg_put R c s ln (d + 1) = match R d with Some v => Some v | None => R (d + 1) end.
Proof. exact put_rotates. Qed.
Print Assumptions C08_registers_rotate.

(* clause 4: nothing else changes: every slot other than the (lower-cased) target and, when the
   rotation applies, the digits 1..9 keeps its value *)
Theorem C08_registers_frame : forall R c s ln x, x <> c_tolower c ->
  (rot_cond c s ln = true -> ~ (49 <= x <= 57)) -> reg_put R c s ln x = R x.
Proof. exact put_frame. Qed.
Print Assumptions C08_registers_frame.

Example C08_nonvacuous :
  let R := reg_put (reg_put (reg_put regs0 0 [97; 10] true) 97 [98] false) 65 [99; 10] false in
  reg_get R 97 = Some ([98; 99; 10], false) /\ reg_get R 49 = Some ([99; 10], false) /\ reg_get R 50 = Some ([97; 10], true) /\
  reg_get R 34 = Some ([97; 10], true).
Proof. vm_compute. repeat split; reflexivity. Qed.
