(* TrRset.v -- the two pure string scanners of /repo/rset.c are what their hand-written models say: running the
   CLite term that tools/c2clite.py generated from rset.c (GenCFuncs.v: cf_re_groupcount, cf_re_read) gives, for
   ALL NUL-free strings in memory, the value of the model (RsetDefs.gcount / re_groupcount_opt; SubstDefs.re_read_loop)
   -- and no checked load leaves the block of the string (bytes + terminator), no signed operation overflows,
   no fuel runs out, the memory is unchanged (re_groupcount).
   Nothing here depends on the proofs about regex.c (TrRegex.v): the small facts about brk_body are restated. *)
From Coq Require Import List ZArith NArith Bool Lia.
From NV Require Import Bytes GenConsts ReSyntax ReParse RsetDefs CLite CLiteProps GenCFuncs CLiteTac.
Import ListNotations.
Local Open Scope Z_scope.

(* ------------------------------------------------------------------ facts about one byte *)
Lemma rs_eq_0 : forall c, (c < 256)%N -> (sx c =? 0) = (c =? 0)%N.  Proof. byte_fact. Qed.
Lemma rs_eq_40 : forall c, (c < 256)%N -> (sx c =? 40) = (c =? 40)%N.  Proof. byte_fact. Qed.
Lemma rs_eq_41 : forall c, (c < 256)%N -> (sx c =? 41) = (c =? 41)%N.  Proof. byte_fact. Qed.
Lemma rs_eq_58 : forall c, (c < 256)%N -> (sx c =? 58) = (c =? 58)%N.  Proof. byte_fact. Qed.
Lemma rs_eq_61 : forall c, (c < 256)%N -> (sx c =? 61) = (c =? 61)%N.  Proof. byte_fact. Qed.
Lemma rs_eq_91 : forall c, (c < 256)%N -> (sx c =? 91) = (c =? 91)%N.  Proof. byte_fact. Qed.
Lemma rs_eq_92 : forall c, (c < 256)%N -> (sx c =? 92) = (c =? 92)%N.  Proof. byte_fact. Qed.
Lemma rs_eq_93 : forall c, (c < 256)%N -> (sx c =? 93) = (c =? 93)%N.  Proof. byte_fact. Qed.
Lemma rs_eq_94 : forall c, (c < 256)%N -> (sx c =? 94) = (c =? 94)%N.  Proof. byte_fact. Qed.
Lemma rs_z0 : forall c, (c < 256)%N -> (wrap I8 (Z.of_N c) =? 0) = (c =? 0)%N.  Proof. byte_fact. Qed.
Ltac fold_sx := repeat match goal with |- context [wrap I32 (wrap I8 (Z.of_N ?c))] => change (wrap I32 (wrap I8 (Z.of_N c))) with (sx c) end.

Lemma rs_nonul_nz s p : nonul s -> (p < length s)%nat -> (nthb s p =? 0)%N = false.
Proof.
  intros H Hp. unfold nonul in H. rewrite Forall_forall in H.
  assert (byte_ok (nthb s p)) as [Hb _] by (apply H; unfold nthb; apply nth_In; exact Hp).
  apply N.eqb_neq. lia.
Qed.
Lemma rs_nz_lt (s : bytes) p : nthb s p <> 0%N -> (p < length s)%nat.
Proof. intro H. destruct (Nat.lt_ge_cases p (length s)); [assumption|]. rewrite nthb_end in H by lia. congruence. Qed.
Lemma rs_eqb_lt (s : bytes) p k : (nthb s p =? N.pos k)%N = true -> (p < length s)%nat.
Proof. intro H. apply rs_nz_lt. apply N.eqb_eq in H. rewrite H. discriminate. Qed.
Lemma rs_hd0_skipn (s : bytes) o : hd0 (skipn o s) = nthb s o.
Proof. rewrite <- (Nat.add_0_r o) at 2. rewrite <- nthb_skipn. destruct (skipn o s); reflexivity. Qed.

(* ------------------------------------------------------------------ the bracket scan (as in regex.c's brk_len) *)
(* while (s[0] && s[0] != ']') s++;   -- how far it moves *)
Fixpoint span93 (r : bytes) : nat :=
  match r with [] => 0%nat | c :: r' => if (c =? 93)%N then 0%nat else S (span93 r') end.
Lemma span93_le r : (span93 r <= length r)%nat.
Proof. induction r as [|c r IH]; cbn; [lia|]. destruct (c =? 93)%N; lia. Qed.
Lemma brk_body_true r :
  brk_body true r = match skipn (span93 r) r with [] => span93 r | _ :: r' => S (span93 r + brk_body false r') end.
Proof.
  induction r as [|c r IH]; [reflexivity|]. cbn [brk_body span93]. destruct (c =? 93)%N; [reflexivity|].
  cbn [skipn]. rewrite IH. destruct (skipn (span93 r) r); reflexivity.
Qed.
Lemma brk_body_le inner r : (brk_body inner r <= length r)%nat.
Proof.
  revert inner; induction r as [|c r IH]; intro inner; cbn [brk_body length]; [lia|].
  pose proof (IH true); pose proof (IH false).
  destruct inner; [destruct (c =? 93)%N; lia|]. destruct (c =? 93)%N; [lia|]. destruct (_ && _); lia.
Qed.

(* the bracket branch of re_groupcount's loop *)
Definition rg_loop : stmt :=
  match fn_body cf_re_groupcount with SSeq _ (SSeq _ (SSeq w _)) => w | _ => SSkip end.
Definition rg_ret : stmt :=
  match fn_body cf_re_groupcount with SSeq _ (SSeq _ (SSeq _ r)) => r | _ => SSkip end.
Definition rg_brk : stmt :=
  match rg_loop with SWhile _ (SIf _ _ (SIf _ b _)) => b | _ => SSkip end.
Definition rg_outer : stmt :=
  match rg_brk with SSeq _ (SSeq _ (SSeq _ (SSeq w _))) => w | _ => SSkip end.
Definition rg_inner : stmt :=
  match rg_outer with SWhile _ (SSeq (SIf _ w _) _) => w | _ => SSkip end.

Ltac at_off q := replace (Z.of_nat q + 1 * 0) with (Z.of_nat q) by lia.

Lemma rg_inner_ok call m b s v1 v2 : str_at m b s -> nonul s ->
  forall j q fuel, span93 (skipn q s) = j -> (q <= length s)%nat -> (j < fuel)%nat ->
  exec call fuel rg_inner (mkst [VPtr b (Z.of_nat q); v1; v2] m)
  = ONormal (mkst [VPtr b (Z.of_nat (q + j)); v1; v2] m).
Proof.
  intros Hs Hnn. pose proof (nonul_lt256 s Hnn) as H256.
  induction j as [|j IH]; intros q fuel Hj Hp Hf; (destruct fuel as [|fuel]; [lia|]);
    unfold rg_inner, rg_outer, rg_brk, rg_loop; cbn [fn_body cf_re_groupcount]; rewrite exec_while; xstep;
    at_off q;
    rewrite (load_str m b s _ q Hs) by lia; xstep; fold_sx;
    pose proof (nthb_lt256 s q H256) as Hc; rewrite (rs_eq_0 _ Hc).
  - destruct (Nat.eq_dec q (length s)) as [E|E].
    + rewrite nthb_end by lia. cbn [N.eqb negb]. rewrite Nat.add_0_r. reflexivity.
    + rewrite rs_nonul_nz by (auto; lia). cbn [negb].
      rewrite (load_str m b s _ q Hs) by lia. xstep. fold_sx. rewrite (rs_eq_93 _ Hc).
      rewrite (skipn_cons_nthb s q) in Hj by lia. cbn [span93] in Hj.
      destruct (nthb s q =? 93)%N; [|discriminate]. cbn. rewrite Nat.add_0_r. reflexivity.
  - destruct (Nat.eq_dec q (length s)) as [E|E]; [rewrite skipn_end in Hj by lia; discriminate|].
    rewrite rs_nonul_nz by (auto; lia). cbn [negb].
    rewrite (load_str m b s _ q Hs) by lia. xstep. fold_sx. rewrite (rs_eq_93 _ Hc).
    rewrite (skipn_cons_nthb s q) in Hj by lia. cbn [span93] in Hj.
    destruct (nthb s q =? 93)%N; [discriminate|]. injection Hj as Hj. cbn [negb b2z]. xstep.
    replace (Z.of_nat q + 1) with (Z.of_nat (S q)) by lia.
    change (SWhile _ _) with rg_inner.
    rewrite (IH (S q) fuel) by (try lia; exact Hj).
    replace (S q + j)%nat with (q + S j)%nat by lia. reflexivity.
Qed.

Lemma rg_outer_ok call m b s v1 v2 : str_at m b s -> nonul s ->
  forall k q fuel, (length s - q <= k)%nat -> (q <= length s)%nat -> (k < fuel)%nat ->
  exec call fuel rg_outer (mkst [VPtr b (Z.of_nat q); v1; v2] m)
  = ONormal (mkst [VPtr b (Z.of_nat (q + brk_body false (skipn q s))); v1; v2] m).
Proof.
  intros Hs Hnn. pose proof (nonul_lt256 s Hnn) as H256.
  induction k as [|k IH]; intros q fuel Hk Hp Hf; (destruct fuel as [|fuel]; [lia|]);
    unfold rg_outer, rg_brk, rg_loop; cbn [fn_body cf_re_groupcount]; rewrite exec_while; xstep;
    at_off q;
    rewrite (load_str m b s _ q Hs) by lia; xstep; fold_sx;
    pose proof (nthb_lt256 s q H256) as Hc; rewrite (rs_eq_0 _ Hc).
  - assert (q = length s)%nat as E by lia. rewrite nthb_end by lia. rewrite skipn_end by lia.
    cbn. rewrite Nat.add_0_r. reflexivity.
  - destruct (Nat.eq_dec q (length s)) as [E|E].
    { rewrite nthb_end by lia. rewrite skipn_end by lia. cbn. rewrite Nat.add_0_r. reflexivity. }
    rewrite rs_nonul_nz by (auto; lia). cbn [negb].
    rewrite (load_str m b s _ q Hs) by lia. xstep. fold_sx. rewrite (rs_eq_93 _ Hc).
    rewrite (skipn_cons_nthb s q) by lia. cbn [brk_body]. rewrite rs_hd0_skipn.
    destruct (nthb s q =? 93)%N eqn:E93; cbn [negb b2z]; xstep.
    { rewrite Nat.add_0_r. reflexivity. }
    rewrite (load_str m b s _ q Hs) by lia. xstep. fold_sx. rewrite (rs_eq_91 _ Hc).
    assert (IH' := IH). unfold rg_outer, rg_brk, rg_loop in IH'; cbn [fn_body cf_re_groupcount] in IH'.
    pose proof (nthb_lt256 s (S q) H256) as Hc1.
    (* the tail of an iteration: if (s[0]) s++; then the loop again *)
    assert (Tail : forall q', (q < q' \/ q = q')%nat -> (q' <= length s)%nat ->
      forall r, r = (match skipn q' s with [] => q' | _ :: r' => S (q' + brk_body false r') end) ->
      match
        exec call (S fuel) (SIf (ELoad (Some I8) (EPtrAdd 1 (ELocal 0) (EConst 0))) (SExpr (EIncLocal true 0 None 1)) SSkip)
             (mkst [VPtr b (Z.of_nat q'); v1; v2] m)
      with
      | ONormal st2 | OContinue st2 => exec call fuel rg_outer st2
      | OBreak st2 => ONormal st2
      | o => o
      end = ONormal (mkst [VPtr b (Z.of_nat r); v1; v2] m)).
    { intros q' Hq' Hp' r ->. xstep. at_off q'.
      rewrite (load_str m b s _ q' Hs) by lia. xstep.
      rewrite (rs_z0 _ (nthb_lt256 s q' H256)).
      destruct (Nat.eq_dec q' (length s)) as [E'|E'].
      - rewrite nthb_end by lia. cbn [N.eqb negb]. xstep. rewrite (IH q' fuel) by lia.
        rewrite skipn_end by lia. cbn [brk_body]. rewrite Nat.add_0_r. reflexivity.
      - rewrite rs_nonul_nz by (auto; lia). cbn [negb]. xstep.
        replace (Z.of_nat q' + 1) with (Z.of_nat (S q')) by lia.
        rewrite (IH (S q') fuel) by lia.
        rewrite (skipn_cons_nthb s q') by lia. reflexivity. }
    unfold rg_outer, rg_brk, rg_loop in Tail; cbn [fn_body cf_re_groupcount] in Tail.
    (* the inner scan, when it is entered *)
    assert (Inner :
      match
        match exec call (S fuel) rg_inner (mkst [VPtr b (Z.of_nat q); v1; v2] m) with
        | ONormal st1 => exec call (S fuel) (SIf (ELoad (Some I8) (EPtrAdd 1 (ELocal 0) (EConst 0))) (SExpr (EIncLocal true 0 None 1)) SSkip) st1
        | o => o
        end
      with
      | ONormal st2 | OContinue st2 => exec call fuel rg_outer st2
      | OBreak st2 => ONormal st2
      | o => o
      end = ONormal (mkst [VPtr b (Z.of_nat (q + S (brk_body true (skipn (S q) s)))); v1; v2] m)).
    { pose proof (span93_le (skipn q s)) as Lj. rewrite skipn_length in Lj.
      rewrite (rg_inner_ok call m b s v1 v2 Hs Hnn _ q (S fuel) eq_refl) by lia.
      assert (Ej : span93 (skipn q s) = S (span93 (skipn (S q) s))).
      { rewrite (skipn_cons_nthb s q) by lia. cbn [span93]. rewrite E93. reflexivity. }
      apply (Tail (q + span93 (skipn q s))%nat); [left; lia|lia|].
      rewrite brk_body_true, skipn_skipn.
      replace (q + span93 (skipn q s))%nat with (S q + span93 (skipn (S q) s))%nat by lia.
      destruct (skipn (S q + span93 (skipn (S q) s)) s); lia. }
    unfold rg_inner, rg_outer, rg_brk, rg_loop in Inner; cbn [fn_body cf_re_groupcount] in Inner.
    assert (Plain :
      match
        exec call (S fuel) (SIf (ELoad (Some I8) (EPtrAdd 1 (ELocal 0) (EConst 0))) (SExpr (EIncLocal true 0 None 1)) SSkip)
             (mkst [VPtr b (Z.of_nat q); v1; v2] m)
      with
      | ONormal st2 | OContinue st2 => exec call fuel rg_outer st2
      | OBreak st2 => ONormal st2
      | o => o
      end = ONormal (mkst [VPtr b (Z.of_nat (q + S (brk_body false (skipn (S q) s)))); v1; v2] m)).
    { apply (Tail q); [right; reflexivity|lia|]. rewrite (skipn_cons_nthb s q) by lia. lia. }
    unfold rg_outer, rg_brk, rg_loop in Plain; cbn [fn_body cf_re_groupcount] in Plain.
    destruct (nthb s q =? 91)%N eqn:E91; cbn [andb] in *.
    2:{ exact Plain. }
    xstep.
    replace (Z.of_nat q + 1 * 1) with (Z.of_nat (S q)) by lia.
    rewrite (load_str m b s _ (S q) Hs) by lia. xstep. fold_sx. rewrite (rs_eq_58 _ Hc1).
    destruct (nthb s (S q) =? 58)%N eqn:E58; cbn [orb] in *.
    { exact Inner. }
    xstep.
    replace (Z.of_nat q + 1 * 1) with (Z.of_nat (S q)) by lia.
    rewrite (load_str m b s _ (S q) Hs) by lia. xstep. fold_sx. rewrite (rs_eq_61 _ Hc1).
    destruct (nthb s (S q) =? 61)%N eqn:E61; cbn [orb] in *.
    { exact Inner. }
    exact Plain.
Qed.

(* ------------------------------------------------------------------ the model, read at an offset of the string *)
(* the offset where brk_len's scan stops (on ']' when the bracket expression is closed) *)
Definition brk_stop (t : bytes) : nat :=
  let n1 := if (nthb t 1 =? 94)%N then 2%nat else 1%nat in
  let n2 := if (nthb t n1 =? 93)%N then S n1 else n1 in
  (n2 + brk_body false (skipn n2 t))%nat.
Lemma brk_closed_stop t : brk_closed t = (nthb t (brk_stop t) =? 93)%N.
Proof. reflexivity. Qed.
Lemma brk_len_stop t : brk_len t = if (nthb t (brk_stop t) =? 93)%N then S (brk_stop t) else brk_stop t.
Proof. reflexivity. Qed.

Lemma gcount_skip : forall k r n dep, (k <= length r)%nat -> gcount r k n dep = gcount (skipn k r) 0 n dep.
Proof.
  induction k as [|k IH]; intros r n dep H; [reflexivity|].
  destruct r as [|c r]; cbn [length] in H; [lia|]. cbn [gcount skipn]. apply IH. lia.
Qed.

Lemma gcount_at s p n dep : (p < length s)%nat ->
  gcount (skipn p s) 0 n dep =
  if (nthb s p =? 92)%N then (if Nat.eqb (S p) (length s) then None else gcount (skipn (S (S p)) s) 0 n dep)
  else if (nthb s p =? 91)%N then
    (if (nthb s (p + brk_stop (skipn p s)) =? 93)%N then gcount (skipn (S (p + brk_stop (skipn p s))) s) 0 n dep else None)
  else if (nthb s p =? 40)%N then gcount (skipn (S p) s) 0 (S n) (S dep)
  else if (nthb s p =? 41)%N then match dep with O => None | S d => gcount (skipn (S p) s) 0 n d end
  else gcount (skipn (S p) s) 0 n dep.
Proof.
  intro H. pose proof (skipn_cons_nthb s p H) as E.
  remember (skipn p s) as t eqn:Et. rewrite E. cbn [gcount].
  destruct (nthb s p =? 92)%N.
  { destruct (Nat.eqb_spec (S p) (length s)) as [L|L].
    - rewrite skipn_end by lia. reflexivity.
    - rewrite (skipn_cons_nthb s (S p)) by lia. reflexivity. }
  destruct (nthb s p =? 91)%N; [|reflexivity].
  rewrite <- E. rewrite brk_closed_stop, brk_len_stop.
  assert (Hn : nthb t (brk_stop t) = nthb s (p + brk_stop t)) by (rewrite Et at 1; apply nthb_skipn).
  rewrite Hn.
  destruct (nthb s (p + brk_stop t) =? 93)%N eqn:E93; [|reflexivity].
  pose proof (rs_eqb_lt _ _ _ E93) as Hlt.
  replace (S (brk_stop t) - 1)%nat with (brk_stop t) by lia.
  rewrite gcount_skip by (rewrite skipn_length; lia).
  rewrite skipn_skipn. rewrite Et at 1. rewrite Et at 1. repeat f_equal; lia.
Qed.

Definition gc_val (r : option nat) : val := VInt (match r with Some k => Z.of_nat k | None => -1 end).

(* ------------------------------------------------------------------ the bracket branch as a whole *)
Definition rg_brk_tail : stmt :=
  match rg_brk with SSeq _ (SSeq _ (SSeq _ (SSeq _ t))) => t | _ => SSkip end.

Lemma rg_brk_fin call m b s v1 v2 fuel q : str_at m b s -> nonul s -> (q <= length s)%nat -> (length s - q < fuel)%nat ->
  match exec call fuel rg_outer (mkst [VPtr b (Z.of_nat q); v1; v2] m) with
  | ONormal st => exec call fuel rg_brk_tail st
  | o => o
  end =
  let q3 := (q + brk_body false (skipn q s))%nat in
  if (nthb s q3 =? 93)%N then ONormal (mkst [VPtr b (Z.of_nat (S q3)); v1; v2] m)
  else OReturn (VInt (-1)) (mkst [VPtr b (Z.of_nat q3); v1; v2] m).
Proof.
  intros Hs Hnn Hq Hf. pose proof (nonul_lt256 s Hnn) as H256.
  rewrite (rg_outer_ok call m b s v1 v2 Hs Hnn (length s - q) q fuel) by lia.
  pose proof (brk_body_le false (skipn q s)) as Lb. rewrite skipn_length in Lb.
  cbv zeta. set (q3 := (q + brk_body false (skipn q s))%nat) in *.
  unfold rg_brk_tail, rg_brk, rg_loop; cbn [fn_body cf_re_groupcount]. xstep. at_off q3.
  rewrite (load_str m b s _ q3 Hs) by lia. xstep. fold_sx. rewrite (rs_eq_93 _ (nthb_lt256 s q3 H256)).
  destruct (nthb s q3 =? 93)%N; cbn [negb b2z]; xstep.
  - replace (Z.of_nat q3 + 1) with (Z.of_nat (S q3)) by lia. reflexivity.
  - reflexivity.
Qed.

Lemma rg_brk_ok call m b s v1 v2 fuel p : str_at m b s -> nonul s -> (p < length s)%nat -> (length s - p <= fuel)%nat ->
  exec call fuel rg_brk (mkst [VPtr b (Z.of_nat p); v1; v2] m) =
  let q3 := (p + brk_stop (skipn p s))%nat in
  if (nthb s q3 =? 93)%N then ONormal (mkst [VPtr b (Z.of_nat (S q3)); v1; v2] m)
  else OReturn (VInt (-1)) (mkst [VPtr b (Z.of_nat q3); v1; v2] m).
Proof.
  intros Hs Hnn Hp Hf. pose proof (nonul_lt256 s Hnn) as H256.
  pose proof (rg_brk_fin call m b s v1 v2 fuel) as Fin.
  unfold rg_brk_tail, rg_outer, rg_brk, rg_loop in Fin; cbn [fn_body cf_re_groupcount] in Fin.
  unfold brk_stop. rewrite !nthb_skipn, skipn_skipn.
  unfold rg_brk, rg_loop; cbn [fn_body cf_re_groupcount]. xstep.
  replace (Z.of_nat p + 1 + 1 * 0) with (Z.of_nat (p + 1)) by lia.
  rewrite (load_str m b s _ (p + 1)%nat Hs) by lia. xstep. fold_sx.
  rewrite (rs_eq_94 _ (nthb_lt256 s (p + 1) H256)).
  destruct (nthb s (p + 1) =? 94)%N eqn:E94; cbn [negb b2z]; xstep.
  - pose proof (rs_eqb_lt _ _ _ E94) as L1.
    replace (Z.of_nat p + 1 + 1 + 1 * 0) with (Z.of_nat (p + 2)) by lia.
    rewrite (load_str m b s _ (p + 2)%nat Hs) by lia. xstep. fold_sx.
    rewrite (rs_eq_93 _ (nthb_lt256 s (p + 2) H256)).
    destruct (nthb s (p + 2) =? 93)%N eqn:E93; cbn [negb b2z]; xstep.
    + pose proof (rs_eqb_lt _ _ _ E93) as L2.
      replace (Z.of_nat p + 1 + 1 + 1) with (Z.of_nat (p + 3)) by lia.
      rewrite (Fin (p + 3)%nat Hs Hnn) by lia. cbv zeta.
      replace (3 + p)%nat with (p + 3)%nat by lia.
      replace (p + (3 + brk_body false (skipn (p + 3) s)))%nat with (p + 3 + brk_body false (skipn (p + 3) s))%nat by lia.
      reflexivity.
    + replace (Z.of_nat p + 1 + 1) with (Z.of_nat (p + 2)) by lia.
      rewrite (Fin (p + 2)%nat Hs Hnn) by lia. cbv zeta.
      replace (2 + p)%nat with (p + 2)%nat by lia.
      replace (p + (2 + brk_body false (skipn (p + 2) s)))%nat with (p + 2 + brk_body false (skipn (p + 2) s))%nat by lia.
      reflexivity.
  - replace (Z.of_nat p + 1 + 1 * 0) with (Z.of_nat (p + 1)) by lia.
    rewrite (load_str m b s _ (p + 1)%nat Hs) by lia. xstep. fold_sx.
    rewrite (rs_eq_93 _ (nthb_lt256 s (p + 1) H256)).
    destruct (nthb s (p + 1) =? 93)%N eqn:E93; cbn [negb b2z]; xstep.
    + pose proof (rs_eqb_lt _ _ _ E93) as L2.
      replace (Z.of_nat p + 1 + 1) with (Z.of_nat (p + 2)) by lia.
      rewrite (Fin (p + 2)%nat Hs Hnn) by lia. cbv zeta.
      replace (2 + p)%nat with (p + 2)%nat by lia.
      replace (p + (2 + brk_body false (skipn (p + 2) s)))%nat with (p + 2 + brk_body false (skipn (p + 2) s))%nat by lia.
      reflexivity.
    + replace (Z.of_nat p + 1) with (Z.of_nat (p + 1)) by lia.
      rewrite (Fin (p + 1)%nat Hs Hnn) by lia. cbv zeta.
      replace (1 + p)%nat with (p + 1)%nat by lia.
      replace (p + (1 + brk_body false (skipn (p + 1) s)))%nat with (p + 1 + brk_body false (skipn (p + 1) s))%nat by lia.
      reflexivity.
Qed.

(* ------------------------------------------------------------------ re_groupcount: the main loop *)
Lemma rg_loop_ok call m b s fuel2 : str_at m b s -> nonul s -> Z.of_nat (length s) <= 2147483647 ->
  forall k p n dep fuel, (length s - p <= k)%nat -> (p <= length s)%nat -> (n <= p)%nat -> (dep <= p)%nat -> (k < fuel)%nat ->
  exists st',
  match exec call fuel rg_loop (mkst [VPtr b (Z.of_nat p); VInt (Z.of_nat n); VInt (Z.of_nat dep)] m) with
  | ONormal st1 => exec call fuel2 rg_ret st1
  | o => o
  end = OReturn (gc_val (gcount (skipn p s) 0 n dep)) st' /\ memm st' = m.
Proof.
  intros Hs Hnn Hmax. pose proof (nonul_lt256 s Hnn) as H256.
  assert (Exit : forall fuel n dep, fuel <> O ->
    exists st',
    match exec call fuel rg_loop (mkst [VPtr b (Z.of_nat (length s)); VInt (Z.of_nat n); VInt (Z.of_nat dep)] m) with
    | ONormal st1 => exec call fuel2 rg_ret st1
    | o => o
    end = OReturn (gc_val (gcount (skipn (length s) s) 0 n dep)) st' /\ memm st' = m).
  { intros fuel n dep Hf. destruct fuel as [|fuel]; [congruence|].
    unfold rg_loop, rg_ret; cbn [fn_body cf_re_groupcount]. rewrite exec_while. xstep.
    rewrite (load_str m b s _ (length s) Hs) by lia. xstep. rewrite nthb_end by lia.
    change (wrap I8 (Z.of_N 0) =? 0) with true. xstep.
    rewrite skipn_end by lia. cbn [gcount].
    destruct dep as [|dep]; [change (Z.of_nat 0 =? 0) with true|replace (Z.of_nat (S dep) =? 0) with false by (symmetry; apply Z.eqb_neq; lia)];
      cbn [negb Nat.eqb]; xstep; eexists; split; reflexivity. }
  induction k as [|k IH]; intros p n dep fuel Hk Hp Hn Hd Hf.
  { assert (p = length s) as -> by lia. apply Exit. lia. }
  destruct (Nat.eq_dec p (length s)) as [->|Hne]; [apply Exit; lia|].
  destruct fuel as [|fuel]; [lia|].
  rewrite (gcount_at s p n dep) by lia.
  pose proof (nthb_lt256 s p H256) as Hc.
  pose proof (rg_brk_ok call m b s (VInt (Z.of_nat n)) (VInt (Z.of_nat dep)) (S fuel) p Hs Hnn ltac:(lia) ltac:(lia)) as Brk.
  unfold rg_loop, rg_ret in *; cbn [fn_body cf_re_groupcount] in *.
  change (SSeq (SExpr (EIncLocal true 0 None 1)) (SSeq (SIf _ _ _) _)) with rg_brk.
  rewrite exec_while. xstep.
  rewrite (load_str m b s _ p Hs) by lia. xstep. rewrite (rs_z0 _ Hc), rs_nonul_nz by (auto; lia). xstep.
  at_off p. rewrite (load_str m b s _ p Hs) by lia. xstep. fold_sx. rewrite (rs_eq_92 _ Hc).
  destruct (nthb s p =? 92)%N eqn:E92; cbn [negb b2z]; xstep.
  { (* an escaped character *)
    replace (Z.of_nat p + 1 * 1) with (Z.of_nat (S p)) by lia.
    rewrite (load_str m b s _ (S p) Hs) by lia. xstep. rewrite (rs_z0 _ (nthb_lt256 s (S p) H256)).
    destruct (Nat.eqb_spec (S p) (length s)) as [L|L].
    - rewrite nthb_end by lia. cbn [N.eqb negb b2z]. xstep. eexists; split; reflexivity.
    - rewrite rs_nonul_nz by (auto; lia). cbn [negb b2z]. xstep.
      replace (Z.of_nat p + 1 * 2) with (Z.of_nat (S (S p))) by lia.
      destruct (IH (S (S p)) n dep fuel) as [st' [X Y]]; try lia.
      exists st'. split; [exact X|exact Y]. }
  at_off p. rewrite (load_str m b s _ p Hs) by lia. xstep. fold_sx. rewrite (rs_eq_91 _ Hc).
  destruct (nthb s p =? 91)%N eqn:E91; cbn [negb b2z]; xstep.
  { (* a bracket expression *)
    rewrite Brk. cbv zeta.
    destruct (nthb s (p + brk_stop (skipn p s)) =? 93)%N eqn:E93.
    - pose proof (rs_eqb_lt _ _ _ E93) as L.
      destruct (IH (S (p + brk_stop (skipn p s))) n dep fuel) as [st' [X Y]]; try lia.
      exists st'. split; [exact X|exact Y].
    - eexists; split; reflexivity. }
  (* an ordinary character *)
  at_off p. rewrite (load_str m b s _ p Hs) by lia. xstep. fold_sx. rewrite (rs_eq_40 _ Hc).
  destruct (nthb s p =? 40)%N eqn:E40; cbn [negb b2z]; xstep.
  { rewrite (chk_I32 (Z.of_nat n + 1)) by lia. xstep. rewrite (chk_I32 (Z.of_nat dep + 1)) by lia. xstep.
    at_off p. rewrite (load_str m b s _ p Hs) by lia. xstep. fold_sx. rewrite (rs_eq_41 _ Hc).
    replace (nthb s p =? 41)%N with false by (apply N.eqb_eq in E40; rewrite E40; reflexivity).
    cbn [negb b2z]. xstep.
    replace (Z.of_nat p + 1) with (Z.of_nat (S p)) by lia.
    replace (Z.of_nat n + 1) with (Z.of_nat (S n)) by lia. replace (Z.of_nat dep + 1) with (Z.of_nat (S dep)) by lia.
    destruct (IH (S p) (S n) (S dep) fuel) as [st' [X Y]]; try lia.
    exists st'. split; [exact X|exact Y]. }
  at_off p. rewrite (load_str m b s _ p Hs) by lia. xstep. fold_sx. rewrite (rs_eq_41 _ Hc).
  destruct (nthb s p =? 41)%N eqn:E41; cbn [negb b2z]; xstep.
  { rewrite (chk_I32 (Z.of_nat dep + -1)) by lia. xstep.
    destruct dep as [|dep].
    - change (Z.of_nat 0 + -1 <? 0) with true. cbn [negb b2z]. xstep. eexists; split; reflexivity.
    - replace (Z.of_nat (S dep) + -1 <? 0) with false by (symmetry; apply Z.ltb_ge; lia). cbn [negb b2z]. xstep.
      replace (Z.of_nat p + 1) with (Z.of_nat (S p)) by lia.
      replace (Z.of_nat (S dep) + -1) with (Z.of_nat dep) by lia.
      destruct (IH (S p) n dep fuel) as [st' [X Y]]; try lia.
      exists st'. split; [exact X|exact Y]. }
  replace (Z.of_nat p + 1) with (Z.of_nat (S p)) by lia.
  destruct (IH (S p) n dep fuel) as [st' [X Y]]; try lia.
  exists st'. split; [exact X|exact Y].
Qed.

(* THE THEOREM: for every NUL-free pattern in memory (any bytes 1..255, the length inside int) the translated
   re_groupcount returns the count of the model, or -1 where the model says None; the memory is unchanged;
   a result Ok also says that every load was inside the block of the string (bytes + terminator) *)
Theorem tr_re_groupcount m b s d fuel :
  str_at m b s -> nonul s -> Z.of_nat (length s) <= 2147483647 -> (length s < fuel)%nat ->
  callf cprog fuel (S d) F_re_groupcount [VPtr b 0] m
  = Ok (VInt (match re_groupcount_opt s with Some n => Z.of_nat n | None => -1 end), m).
Proof.
  intros Hs Hnn Hmax Hf. enter F_re_groupcount cf_re_groupcount. xstep.
  destruct (rg_loop_ok (callf cprog fuel d) m b s fuel Hs Hnn Hmax (length s) 0 0 0 fuel) as [st' [E1 E2]]; try lia.
  unfold rg_loop, rg_ret in E1; cbn [fn_body cf_re_groupcount] in E1.
  change (Z.of_nat 0) with 0 in E1. rewrite E1, E2. reflexivity.
Qed.

(* ================================================================== re_read (rset.c) *)
(* char *re_read(char **src): the model is SubstDefs.re_read / re_read_loop (C14; the same scan is modelled in
   ExDefs.v for C05/C06/C15 and in SearchDefs.v for C13).  What matters is WHICH bytes end up in the returned string and
   WHERE *src stops: a backslash followed by the delimiter drops the backslash, a backslash followed by anything else
   keeps both, the scan stops at the unescaped delimiter or at the terminator. *)
From NV Require SubstDefs.

Definition sc (c : N) : Z := wrap I8 (Z.of_N c).              (* the char that holds byte c *)
Definition cell (c : N) : val := VInt (sc c).

(* the text the model returns, and the offset where its scan stops (the unescaped delimiter, or the end) *)
Definition rr_txt (delim : N) (t : bytes) : bytes := fst (SubstDefs.re_read_loop delim t).
Fixpoint rr_stop (delim : N) (t : bytes) : nat :=
  match t with
  | [] => 0%nat
  | c :: t1 =>
    if (c =? delim)%N then 0%nat
    else if (c =? 92)%N then match t1 with [] => 1%nat | _ :: t2 => S (S (rr_stop delim t2)) end
    else S (rr_stop delim t1)
  end.
Lemma rr_txt_cons delim c t1 :
  rr_txt delim (c :: t1) =
  if (c =? delim)%N then []
  else if (c =? 92)%N then
    match t1 with
    | [] => [c]
    | d :: t2 => if (d =? delim)%N then d :: rr_txt delim t2 else 92%N :: d :: rr_txt delim t2
    end
  else c :: rr_txt delim t1.
Proof.
  unfold rr_txt. cbn [SubstDefs.re_read_loop]. destruct (c =? delim)%N; [reflexivity|].
  destruct (c =? 92)%N.
  - destruct t1 as [|d t2]; [reflexivity|]. destruct (SubstDefs.re_read_loop delim t2) as [t r].
    destruct (d =? delim)%N; reflexivity.
  - destruct (SubstDefs.re_read_loop delim t1) as [t r]. reflexivity.
Qed.
Lemma rr_stop_le delim : forall n t, (length t <= n)%nat -> (rr_stop delim t <= length t)%nat.
Proof.
  induction n as [|n IH]; intros t H; destruct t as [|c t1]; cbn [length] in *; try lia; cbn [rr_stop]; try lia.
  destruct (c =? delim)%N; [lia|]. destruct (c =? 92)%N.
  - destruct t1 as [|d t2]; cbn [length] in *; [lia|]. specialize (IH t2). lia.
  - specialize (IH t1). lia.
Qed.
(* the rest the model returns starts behind the position where the scan stopped *)
Lemma rr_rest delim : forall n t, (length t <= n)%nat ->
  snd (SubstDefs.re_read_loop delim t) = skipn (S (rr_stop delim t)) t.
Proof.
  induction n as [|n IH]; intros t H; destruct t as [|c t1]; cbn [length] in *; try lia; try reflexivity.
  cbn [SubstDefs.re_read_loop rr_stop]. destruct (c =? delim)%N; [reflexivity|].
  destruct (c =? 92)%N.
  - destruct t1 as [|d t2]; [reflexivity|]. cbn [length] in H. specialize (IH t2 ltac:(lia)).
    destruct (SubstDefs.re_read_loop delim t2) as [t r]. cbn [snd] in *.
    destruct (d =? delim)%N; cbn [snd]; exact IH.
  - specialize (IH t1 ltac:(lia)). destruct (SubstDefs.re_read_loop delim t1) as [t r]. exact IH.
Qed.
(* where the scan stops there is the delimiter or the end of the string *)
Lemma rr_stop_at delim : forall n t, (length t <= n)%nat ->
  rr_stop delim t = length t \/ nthb t (rr_stop delim t) = delim.
Proof.
  induction n as [|n IH]; intros t H; destruct t as [|c t1]; cbn [length] in *; try lia; try (left; reflexivity).
  cbn [rr_stop]. destruct (N.eqb_spec c delim) as [->|Hc]; [right; reflexivity|].
  destruct (c =? 92)%N.
  - destruct t1 as [|d t2]; [left; reflexivity|]. cbn [length] in *. destruct (IH t2 ltac:(lia)) as [E|E]; [left; lia|right; exact E].
  - destruct (IH t1 ltac:(lia)) as [E|E]; [left; lia|right; exact E].
Qed.

(* one step of the model at an offset of the string *)
Lemma rr_at delim s q : (q < length s)%nat ->
  rr_txt delim (skipn q s) =
  (if (nthb s q =? delim)%N then []
   else if (nthb s q =? 92)%N && negb (Nat.eqb (S q) (length s)) then
     (if (nthb s (S q) =? delim)%N then nthb s (S q) :: rr_txt delim (skipn (S (S q)) s)
      else 92%N :: nthb s (S q) :: rr_txt delim (skipn (S (S q)) s))
   else nthb s q :: rr_txt delim (skipn (S q) s)) /\
  rr_stop delim (skipn q s) =
  (if (nthb s q =? delim)%N then 0%nat
   else if (nthb s q =? 92)%N && negb (Nat.eqb (S q) (length s)) then S (S (rr_stop delim (skipn (S (S q)) s)))
   else S (rr_stop delim (skipn (S q) s))).
Proof.
  intro H. rewrite (skipn_cons_nthb s q H). rewrite rr_txt_cons. cbn [rr_stop].
  destruct (nthb s q =? delim)%N; [split; reflexivity|].
  destruct (nthb s q =? 92)%N eqn:E92; cbn [andb]; [|split; reflexivity].
  destruct (Nat.eqb_spec (S q) (length s)) as [L|L]; cbn [negb].
  - rewrite skipn_end by lia. split; reflexivity.
  - rewrite (skipn_cons_nthb s (S q)) by lia. split; reflexivity.
Qed.

(* a char promoted to int against an (unsigned char) delimiter below 128: equal exactly when the bytes are equal.
   (For a delimiter byte of 128..255 the comparison `*s != delim` of the C text is always true where char is signed: the
   scan would never stop at the delimiter; the theorems below are for delimiters below 128.) *)
Lemma sx_cases : forall c, (c < 256)%N -> sx c = if (c <? 128)%N then Z.of_N c else Z.of_N c - 256.
Proof. byte_fact. Qed.
Lemma sx_eq_delim c d : (c < 256)%N -> (d < 128)%N -> (sx c =? Z.of_N d) = (c =? d)%N.
Proof.
  intros Hc Hd. rewrite (sx_cases c Hc).
  destruct (N.ltb_spec c 128) as [L|L]; destruct (N.eqb_spec c d) as [E|E];
    match goal with |- (?a =? ?b) = _ => destruct (Z.eqb_spec a b) end; try reflexivity; exfalso; lia.
Qed.

Lemma load_cell_of (m : mem) bp (blk : block) op v : nth_error m bp = Some blk -> 0 <= op ->
  nth_error blk (Z.to_nat op) = Some v -> load m bp op = Ok v.
Proof. intros Hm Ho Hv. unfold load. rewrite Hm. destruct (Z.ltb_spec op 0); [lia|]. rewrite Hv. reflexivity. Qed.

Definition rr_loop : stmt :=
  match fn_body cf_re_read with SSeq _ (SSeq _ (SSeq _ (SSeq _ (SSeq w _)))) => w | _ => SSkip end.

(* ------------------------------------------------------------------ the scan of re_read against an ABSTRACT string buffer:
   `Rep m cs` = "block p of memory m is a live sbuf that holds the cells cs"; the three functions of sbuf.c that re_read
   calls are assumed to do what their names say (hypotheses H_make, H_chr, H_done; H_upd: a store into an older block does
   not disturb the buffer).  The section is closed below with the theorems of TrSbuf.v about the translated sbuf.c. *)
Section ReReadAbs.
  Variable call : nat -> list val -> mem -> res (val * mem).
  Variable m0 : mem.                          (* the memory at the call of re_read *)
  Variable p : nat.                           (* the block of the struct sbuf *)
  Variable Rep : mem -> list Z -> Prop.
  Variable BOUND : nat.                       (* the buffer can take so many cells without an int overflow in NEXTSZ *)
  (* the blocks that existed at the call are as they were *)
  Definition Frame (m : mem) : Prop := forall b', (b' < length m0)%nat -> nth_error m b' = nth_error m0 b'.
  Hypothesis H_make : exists m1, call F_sbuf_make [] m0 = Ok (VPtr p 0, m1) /\ Rep m1 [] /\ Frame m1.
  Hypothesis H_chr : forall m cs c, Rep m cs -> Frame m -> 0 <= c <= 255 -> (length cs < BOUND)%nat ->
    exists m', call F_sbuf_chr [VPtr p 0; VInt c] m = Ok (VUndef, m') /\ Rep m' (cs ++ [wrap I8 c]) /\ Frame m'.
  Hypothesis H_upd : forall m cs bb blk, Rep m cs -> (bb < length m0)%nat -> Rep (upd m bb blk) cs.
  Hypothesis H_done : forall m cs, Rep m cs ->
    exists bo m' tail, call F_sbuf_done [VPtr p 0] m = Ok (VPtr bo 0, m') /\
      nth_error m' bo = Some (map VInt cs ++ VInt 0 :: tail) /\ (length m0 <= bo)%nat /\
      forall b', (b' < length m0)%nat -> nth_error m' b' = nth_error m b'.

  Variable b : nat.
  Variable s : bytes.
  Hypothesis Hs : str_at m0 b s.
  Hypothesis Hnn : nonul s.

  Lemma frame_str m : Frame m -> str_at m b s.
  Proof.
    intro F. unfold str_at. rewrite F; [exact Hs|]. apply nth_error_Some. unfold str_at in Hs. congruence.
  Qed.

  Lemma rr_loop_ok vsrc delim : (delim < 128)%N -> delim <> 0%N ->
    forall k q mk acc fuel, (length s - q <= k)%nat -> (q <= length s)%nat -> Rep mk acc -> Frame mk ->
    (length acc + (length s - q) <= BOUND)%nat -> (k < fuel)%nat ->
    exists mk',
    exec call fuel rr_loop (mkst [vsrc; VPtr p 0; VPtr b (Z.of_nat q); VInt (Z.of_N delim)] mk)
    = ONormal (mkst [vsrc; VPtr p 0; VPtr b (Z.of_nat (q + rr_stop delim (skipn q s))); VInt (Z.of_N delim)] mk')
    /\ Rep mk' (acc ++ map sc (rr_txt delim (skipn q s))) /\ Frame mk'.
  Proof.
    intros Hd Hd0. pose proof (nonul_lt256 s Hnn) as H256.
    induction k as [|k IH]; intros q mk acc fuel Hk Hq HR HF Hb Hf; (destruct fuel as [|fuel]; [lia|]);
      pose proof (frame_str mk HF) as Hsk;
      unfold rr_loop; cbn [fn_body cf_re_read]; rewrite exec_while; xstep;
      rewrite (load_str mk b s _ q Hsk) by lia; xstep; fold_sx;
      pose proof (nthb_lt256 s q H256) as Hc; rewrite (rs_eq_0 _ Hc).
    - assert (q = length s) as -> by lia. rewrite nthb_end by lia. rewrite skipn_end by lia.
      cbn [N.eqb negb rr_stop map]. unfold rr_txt. cbn [SubstDefs.re_read_loop fst map].
      rewrite Nat.add_0_r, app_nil_r. exists mk. repeat split; assumption.
    - destruct (Nat.eq_dec q (length s)) as [->|Hne].
      { rewrite nthb_end by lia. rewrite skipn_end by lia.
        cbn [N.eqb negb rr_stop map]. unfold rr_txt. cbn [SubstDefs.re_read_loop fst map].
        rewrite Nat.add_0_r, app_nil_r. exists mk. repeat split; assumption. }
      rewrite rs_nonul_nz by (auto; lia). cbn [negb].
      rewrite (load_str mk b s _ q Hsk) by lia. xstep. fold_sx. rewrite (sx_eq_delim _ _ Hc Hd).
      destruct (rr_at delim s q ltac:(lia)) as [Et Eo]. rewrite Et, Eo. clear Et Eo.
      destruct (nthb s q =? delim)%N eqn:Edel; cbn [negb b2z]; xstep.
      { cbn [map]. rewrite Nat.add_0_r, app_nil_r. exists mk. repeat split; assumption. }
      at_off q. rewrite (load_str mk b s _ q Hsk) by lia. xstep. fold_sx. rewrite (rs_eq_92 _ Hc).
      pose proof (nthb_lt256 s (S q) H256) as Hc1.
      (* the common end of an iteration: sbuf_chr(sbuf, (unsigned char) *s++) at position q', then the loop again *)
      assert (Tail : forall q' mk1 acc1 r, (q <= q' < length s)%nat -> Rep mk1 acc1 -> Frame mk1 ->
        (length acc1 + (length s - q') <= BOUND)%nat -> r = (S q' + rr_stop delim (skipn (S q') s))%nat ->
        exists mk',
        match
          exec call (S fuel) (SExpr (ECall F_sbuf_chr [ELocal 1; ECast I32 (ECast U8 (ELoad (Some I8) (EIncLocal true 2 None 1)))]))
               (mkst [vsrc; VPtr p 0; VPtr b (Z.of_nat q'); VInt (Z.of_N delim)] mk1)
        with
        | ONormal st2 | OContinue st2 => exec call fuel rr_loop st2
        | OBreak st2 => ONormal st2
        | o => o
        end = ONormal (mkst [vsrc; VPtr p 0; VPtr b (Z.of_nat r); VInt (Z.of_N delim)] mk')
        /\ Rep mk' (acc1 ++ map sc (nthb s q' :: rr_txt delim (skipn (S q') s))) /\ Frame mk').
      { intros q' mk1 acc1 r Hq' HR1 HF1 Hb1 ->. pose proof (frame_str mk1 HF1) as Hs1. xstep.
        rewrite (load_str mk1 b s _ q' Hs1) by lia. xstep.
        rewrite wrap_byte_chain by (apply nthb_lt256; exact H256).
        pose proof (nthb_lt256 s q' H256) as Hcq.
        destruct (H_chr mk1 acc1 (Z.of_N (nthb s q')) HR1 HF1 ltac:(lia) ltac:(lia)) as (mk2 & Ec & HR2 & HF2).
        rewrite Ec. xstep. replace (Z.of_nat q' + 1) with (Z.of_nat (S q')) by lia.
        destruct (IH (S q') mk2 (acc1 ++ [wrap I8 (Z.of_N (nthb s q'))]) fuel) as (mk' & X & Y & W);
          try lia; try assumption; [rewrite app_length; cbn [length]; lia|].
        exists mk'. split; [exact X|]. split; [|exact W].
        cbn [map]. change (wrap I8 (Z.of_N (nthb s q'))) with (sc (nthb s q')) in Y.
        rewrite <- app_assoc in Y. exact Y. }
      unfold rr_loop in Tail; cbn [fn_body cf_re_read] in Tail.
      destruct (nthb s q =? 92)%N eqn:E92; cbn [negb b2z andb]; xstep.
      2:{ destruct (Tail q mk acc (q + S (rr_stop delim (skipn (S q) s)))%nat ltac:(lia) HR HF Hb ltac:(lia)) as (mk' & X & Y & W).
          exists mk'. split; [exact X|split; assumption]. }
      replace (Z.of_nat q + 1 * 1) with (Z.of_nat (S q)) by lia.
      rewrite (load_str mk b s _ (S q) Hsk) by lia. xstep. fold_sx. rewrite (rs_eq_0 _ Hc1).
      destruct (Nat.eqb_spec (S q) (length s)) as [L|L]; cbn [negb].
      { rewrite nthb_end by lia. cbn [N.eqb negb b2z]. xstep.
        destruct (Tail q mk acc (q + S (rr_stop delim (skipn (S q) s)))%nat ltac:(lia) HR HF Hb ltac:(lia)) as (mk' & X & Y & W).
        exists mk'. split; [exact X|split; assumption]. }
      rewrite rs_nonul_nz by (auto; lia). cbn [negb b2z]. xstep.
      replace (Z.of_nat q + 1) with (Z.of_nat (S q)) by lia.
      rewrite (load_str mk b s _ (S q) Hsk) by lia. xstep. fold_sx. rewrite (sx_eq_delim _ _ Hc1 Hd).
      destruct (nthb s (S q) =? delim)%N eqn:Ed1; cbn [negb b2z]; xstep.
      { (* an escaped delimiter: the backslash is dropped *)
        destruct (Tail (S q) mk acc (q + S (S (rr_stop delim (skipn (S (S q)) s))))%nat ltac:(lia) HR HF ltac:(lia) ltac:(lia)) as (mk' & X & Y & W).
        exists mk'. split; [exact X|split; assumption]. }
      (* a backslash before anything else: both are kept *)
      destruct (H_chr mk acc 92 HR HF ltac:(lia) ltac:(lia)) as (mk1 & Ec & HR1 & HF1).
      rewrite Ec. xstep.
      destruct (Tail (S q) mk1 (acc ++ [wrap I8 92]) (q + S (S (rr_stop delim (skipn (S (S q)) s))))%nat ltac:(lia) HR1 HF1) as (mk' & X & Y & W);
        [rewrite app_length; cbn [length]; lia|lia|].
      exists mk'. split; [|split; [|exact W]].
      + exact X.
      + change (wrap I8 92) with (sc 92%N) in Y. rewrite <- app_assoc in Y. exact Y.
  Qed.

  (* the whole body of re_read.  *src is cell op of block bp; it holds a pointer to offset o of the string. *)
  Theorem re_read_abs bp op (blk : block) o fuel :
    nth_error m0 bp = Some blk -> 0 <= op -> nth_error blk (Z.to_nat op) = Some (VPtr b (Z.of_nat o)) ->
    (o <= length s)%nat -> (nthb s o < 128)%N -> (length s <= BOUND)%nat -> (length s < fuel)%nat ->
    match SubstDefs.re_read (skipn o s) with
    | None => exec call fuel (fn_body cf_re_read) (mkst [VPtr bp op; VUndef; VUndef; VUndef] m0)
              = OReturn (VInt 0) (mkst [VPtr bp op; VUndef; VPtr b (Z.of_nat o + 1); VInt 0] m0)
    | Some (txt, rest) =>
        exists bo m' tail o' st',
        exec call fuel (fn_body cf_re_read) (mkst [VPtr bp op; VUndef; VUndef; VUndef] m0) = OReturn (VPtr bo 0) st' /\
        memm st' = m' /\
        nth_error m' bo = Some (map cell txt ++ VInt 0 :: tail) /\ (length m0 <= bo)%nat /\
        nth_error m' bp = Some (upd blk (Z.to_nat op) (VPtr b (Z.of_nat o'))) /\ (o' <= length s)%nat /\ skipn o' s = rest /\
        forall b', (b' < length m0)%nat -> b' <> bp -> nth_error m' b' = nth_error m0 b'
    end.
  Proof.
    intros Hbp Hop Hcell Ho Hd Hb Hf. pose proof (nonul_lt256 s Hnn) as H256.
    cbn [fn_body cf_re_read]. xstep.
    rewrite (load_cell_of m0 bp blk op _ Hbp Hop Hcell). xstep.
    rewrite (load_str m0 b s _ o Hs) by lia. xstep.
    rewrite wrap_byte_chain by (apply nthb_lt256; exact H256).
    destruct (Nat.eq_dec o (length s)) as [->|Hne].
    { rewrite nthb_end by lia. rewrite skipn_end by lia. cbn [SubstDefs.re_read]. cbn [Z.of_N Z.eqb negb b2z]. xstep. reflexivity. }
    rewrite (skipn_cons_nthb s o) by lia. cbn [SubstDefs.re_read].
    set (delim := nthb s o) in *.
    assert (Hd0 : delim <> 0%N) by (intro Z0; pose proof (rs_nonul_nz s o Hnn ltac:(lia)) as X; fold delim in X; rewrite Z0 in X; discriminate).
    replace (Z.of_N delim =? 0) with false by (symmetry; apply Z.eqb_neq; lia). cbn [negb b2z]. xstep.
    destruct H_make as (m1 & Em & HR1 & HF1). rewrite Em. xstep.
    replace (Z.of_nat o + 1) with (Z.of_nat (S o)) by lia.
    destruct (rr_loop_ok (VPtr bp op) delim Hd Hd0 (length s) (S o) m1 [] fuel) as (m2 & El & HR2 & HF2);
      try lia; try assumption; [cbn [length]; lia|].
    unfold rr_loop in El; cbn [fn_body cf_re_read] in El. rewrite El. clear El. xstep.
    cbn [app] in HR2.
    pose proof (rr_stop_le delim (length s) (skipn (S o) s) ltac:(rewrite skipn_length; lia)) as Lst. rewrite skipn_length in Lst.
    set (q' := (S o + rr_stop delim (skipn (S o) s))%nat) in *.
    pose proof (frame_str m2 HF2) as Hs2.
    rewrite (load_str m2 b s _ q' Hs2) by lia. xstep. fold_sx. rewrite (rs_eq_0 _ (nthb_lt256 s q' H256)).
    (* the store *src = ... into block bp of m2 *)
    assert (Hbp2 : nth_error m2 bp = Some blk) by (rewrite HF2; [exact Hbp|apply nth_error_Some; congruence]).
    assert (Hlt : (bp < length m0)%nat) by (apply nth_error_Some; congruence).
    assert (Hopl : 0 <= op < Z.of_nat (length blk)).
    { split; [exact Hop|]. assert (Z.to_nat op < length blk)%nat by (apply nth_error_Some; congruence). lia. }
    assert (Fin : forall o', (o' <= length s)%nat -> skipn o' s = snd (SubstDefs.re_read_loop delim (skipn (S o) s)) ->
      exists bo m3 m' tail,
      store m2 bp op (VPtr b (Z.of_nat o')) = Ok m3 /\ call F_sbuf_done [VPtr p 0] m3 = Ok (VPtr bo 0, m') /\
      nth_error m' bo = Some (map cell (rr_txt delim (skipn (S o) s)) ++ VInt 0 :: tail) /\ (length m0 <= bo)%nat /\
      nth_error m' bp = Some (upd blk (Z.to_nat op) (VPtr b (Z.of_nat o'))) /\
      forall b', (b' < length m0)%nat -> b' <> bp -> nth_error m' b' = nth_error m0 b').
    { intros o' Ho' Hrest. rewrite (store_ok m2 bp blk op _ Hbp2 Hopl).
      pose proof (H_upd m2 _ bp (upd blk (Z.to_nat op) (VPtr b (Z.of_nat o'))) HR2 Hlt) as HR3.
      destruct (H_done _ _ HR3) as (bo & m4 & tail & Ed & Hbo & Lbo & Hfr).
      exists bo, (upd m2 bp (upd blk (Z.to_nat op) (VPtr b (Z.of_nat o')))), m4, tail.
      split; [reflexivity|]. split; [exact Ed|].
      split; [rewrite Hbo; unfold cell; rewrite map_map; reflexivity|]. split; [exact Lbo|].
      assert (Hl2 : (length m0 <= length m2)%nat).
      { destruct (Nat.le_gt_cases (length m0) (length m2)) as [L|L]; [exact L|].
        exfalso. pose proof (HF2 (length m2) L) as X. rewrite (proj2 (nth_error_None m2 (length m2)) (le_n _)) in X.
        symmetry in X. apply nth_error_None in X. lia. }
      split.
      - rewrite Hfr by exact Hlt. apply mem_upd_same. lia.
      - intros b' Hb' Hne'. rewrite Hfr by exact Hb'. rewrite mem_upd_other by (try lia; exact Hne'). apply HF2. exact Hb'. }
    pose proof (rr_rest delim (length s) (skipn (S o) s) ltac:(rewrite skipn_length; lia)) as Hrest.
    rewrite skipn_skipn in Hrest.
    destruct (SubstDefs.re_read_loop delim (skipn (S o) s)) as [txt rest] eqn:Erl.
    assert (Etxt : rr_txt delim (skipn (S o) s) = txt) by (unfold rr_txt; rewrite Erl; reflexivity).
    cbn [snd] in *. rewrite Etxt in Fin.
    destruct (Nat.eq_dec q' (length s)) as [Eq|Eq].
    - rewrite nthb_end by lia. cbn [N.eqb negb]. xstep.
      destruct (Fin q' ltac:(lia)) as (bo & m3 & m' & tail & X1 & X2 & X3 & X4 & X5 & X6).
      { rewrite Hrest. rewrite !skipn_end by lia. reflexivity. }
      rewrite X1. xstep. rewrite X2. xstep.
      exists bo, m', tail, q'. eexists.
      split; [reflexivity|]. split; [reflexivity|]. split; [exact X3|]. split; [exact X4|]. split; [exact X5|]. split; [lia|]. split; [|exact X6].
      rewrite Hrest. rewrite !skipn_end by lia. reflexivity.
    - rewrite rs_nonul_nz by (auto; lia). cbn [negb]. xstep.
      replace (Z.of_nat q' + 1 * 1) with (Z.of_nat (S q')) by lia.
      destruct (Fin (S q') ltac:(lia)) as (bo & m3 & m' & tail & X1 & X2 & X3 & X4 & X5 & X6).
      { rewrite Hrest. f_equal. lia. }
      rewrite X1. xstep. rewrite X2. xstep.
      exists bo, m', tail, (S q'). eexists.
      split; [reflexivity|]. split; [reflexivity|]. split; [exact X3|]. split; [exact X4|]. split; [exact X5|]. split; [lia|]. split; [|exact X6].
      rewrite Hrest. f_equal. lia.
  Qed.
End ReReadAbs.

(* the interface of the section as one closed predicate: what re_read needs from sbuf_make / sbuf_chr / sbuf_done *)
Definition sbuf_iface (call : nat -> list val -> mem -> res (val * mem)) (m0 : mem) (p : nat)
    (Rep : mem -> list Z -> Prop) (BOUND : nat) : Prop :=
  (exists m1, call F_sbuf_make [] m0 = Ok (VPtr p 0, m1) /\ Rep m1 [] /\ Frame m0 m1) /\
  (forall m cs c, Rep m cs -> Frame m0 m -> 0 <= c <= 255 -> (length cs < BOUND)%nat ->
     exists m', call F_sbuf_chr [VPtr p 0; VInt c] m = Ok (VUndef, m') /\ Rep m' (cs ++ [wrap I8 c]) /\ Frame m0 m') /\
  (forall m cs bb blk, Rep m cs -> (bb < length m0)%nat -> Rep (upd m bb blk) cs) /\
  (forall m cs, Rep m cs ->
     exists bo m' tail, call F_sbuf_done [VPtr p 0] m = Ok (VPtr bo 0, m') /\
       nth_error m' bo = Some (map VInt cs ++ VInt 0 :: tail) /\ (length m0 <= bo)%nat /\
       forall b', (b' < length m0)%nat -> nth_error m' b' = nth_error m b').

(* THE THEOREM about the scan of re_read (relative to the string buffer): for every NUL-free string, every offset o where
   *src points, a delimiter byte below 128: NULL when *src is at the terminator (memory unchanged); otherwise the returned
   block starts with the cells of the model's text followed by the terminator, *src is moved to the offset o' with
   skipn o' s = the model's rest (behind the closing delimiter, or at the terminator), every older block other than the
   one of *src is unchanged -- and every load was inside the string and its terminator, no fuel ran out. *)
Theorem re_read_scan call m0 p Rep BOUND : sbuf_iface call m0 p Rep BOUND ->
  forall b (s : bytes) bp op (blk : block) o fuel,
  str_at m0 b s -> nonul s ->
  nth_error m0 bp = Some blk -> 0 <= op -> nth_error blk (Z.to_nat op) = Some (VPtr b (Z.of_nat o)) ->
  (o <= length s)%nat -> (nthb s o < 128)%N -> (length s <= BOUND)%nat -> (length s < fuel)%nat ->
  match SubstDefs.re_read (skipn o s) with
  | None => exec call fuel (fn_body cf_re_read) (mkst [VPtr bp op; VUndef; VUndef; VUndef] m0)
            = OReturn (VInt 0) (mkst [VPtr bp op; VUndef; VPtr b (Z.of_nat o + 1); VInt 0] m0)
  | Some (txt, rest) =>
      exists bo m' tail o' st',
      exec call fuel (fn_body cf_re_read) (mkst [VPtr bp op; VUndef; VUndef; VUndef] m0) = OReturn (VPtr bo 0) st' /\
      memm st' = m' /\
      nth_error m' bo = Some (map cell txt ++ VInt 0 :: tail) /\ (length m0 <= bo)%nat /\
      nth_error m' bp = Some (upd blk (Z.to_nat op) (VPtr b (Z.of_nat o'))) /\ (o' <= length s)%nat /\ skipn o' s = rest /\
      forall b', (b' < length m0)%nat -> b' <> bp -> nth_error m' b' = nth_error m0 b'
  end.
Proof.
  intros (Hm & Hc & Hu & Hd) b s bp op blk o fuel Hs Hnn. exact (re_read_abs call m0 p Rep BOUND Hm Hc Hu Hd b s Hs Hnn bp op blk o fuel).
Qed.

(* running the translated re_read (with the translated sbuf.c under it) on a concrete command string: block 0 holds the
   string, block 1 the pointer *src; the result is the returned string (cells up to the terminator) and the new *src *)
Fixpoint cells_to_nul (l : list val) : list Z :=
  match l with VInt 0 :: _ => [] | VInt z :: r => z :: cells_to_nul r | _ => [] end.
Definition rr_run (s : bytes) (fuel : nat) : option (option (list Z) * val) :=
  match callf cprog fuel 5 F_re_read [VPtr 1 0] [cstr_block (zb s); [VPtr 0 0]] with
  | Ok (VPtr bo 0, m') => Some (Some (cells_to_nul (nth bo m' [])), nth 0 (nth 1 m' []) VUndef)
  | Ok (VInt 0, m') => Some (None, nth 0 (nth 1 m' []) VUndef)
  | _ => None
  end.
