(* TrEcWriteCmd.v -- ec_write of /repo/ex.c on the C text, part 2: the write itself (pipe / lbuf_save), the head (path, the `x` shortcut,
   the address), and the whole function: `tr_ec_write` -- for every oracle, the run of the translated text IS `ecw_run`, the decision
   structure written out (which oracle is called on which memory with which arguments, which stores happen, what is returned). *)
From Coq Require Import List ZArith NArith Bool Lia.
From NV Require Import Bytes UndoDefs.
From NV Require Import CLite CLiteProps GenCFuncs CLiteTac CLiteExt TrLbufBase TrLbuf TrEcWrite.
Import ListNotations.
Local Open Scope Z_scope.

Definition has_byte (c : N) (s : bytes) : bool := match find_byte c s with Some _ => true | None => false end.
Lemma strchr0 m b s c z : z = Z.of_N c -> str_at m b s -> nonul s -> (c < 256)%N -> c <> 0%N ->
  do_builtin_m BStrchr [VPtr b 0; VInt z] m = Ok (match find_byte c s with Some k => VPtr b (Z.of_nat k) | None => VInt 0 end, m).
Proof. intros -> H Hn Hc Hc0. exact (builtin_strchr m b s 0 c H Hn (Nat.le_0_l _) Hc Hc0). Qed.
Definition ptr_val (v : val) : Prop := v = VInt 0 \/ exists b o, v = VPtr b o.
Definition is_null (v : val) : bool := match v with VInt 0 => true | _ => false end.

(* the locals of ec_write: loc cmd arg txt | msg path ibuf &beg &end ts err *)
Definition locs (vloc vcmd varg vtxt : val) (bm : nat) (qv l6 : val) (bb be : nat) (l9 l10 : val) : list val :=
  [vloc; vcmd; varg; vtxt; VPtr bm 0; qv; l6; VPtr bb 0; VPtr be 0; l9; l10].

Ltac inl := cbn [In]; repeat first [left; reflexivity | right].
Ltac r_own ext d fuel A P Q Np Nq :=
  match goal with |- context [eval _ e_own (mkst ?L ?mm)] => rewrite (eval_own ext d fuel L mm _ _ _ _ _ _ _ eq_refl A P Q Np Nq) end.
Ltac r_xb ext d fuel A :=
  match goal with |- context [eval _ e_xb (mkst ?L ?mm)] => rewrite (eval_xb ext d fuel L mm _ _ _ _ A) end.
Ltac r_int ext d fuel x F Ib :=
  match goal with |- context [eval _ (ELoad (Some I32) (ELocal x)) (mkst ?L ?mm)] => rewrite (eval_int_at ext d fuel L x _ _ mm eq_refl F Ib) end.

Section Write.
  Variable ext : nat -> list val -> mem -> res (val * mem).
  Variables (d fuel : nat).
  Variables (bl : nat) (ts n : Z) (bm bb be qb cb : nat) (path cmd : bytes) (b e : Z).
  Variables (vloc varg vtxt : val).
  Local Notation call := (callx ext cprog fuel (S (S (S d)))).
  Local Notation LL l6 l9 l10 := (locs vloc (VPtr cb 0) varg vtxt bm (VPtr qb 0) l6 bb be l9 l10).

  (* ---- the file: ts = !strcmp(ex_path(), path) ? bufs[0].mtime : 0; err = lbuf_save(xb, beg, end, path, !!strchr(cmd, '!'), ts);
     the mtime guard handed to lbuf_save is the buffer's stored mtime exactly when the target is the buffer's own path, the force flag is
     1 exactly when the command has a `!`; a non-NULL answer goes to ex_show and the function returns 1 -- nothing else happens *)
  Definition save_args (p : bytes) : list val :=
    [VPtr bl 0; VInt b; VInt e; VPtr qb 0; VInt (b2z (has_byte 33 cmd)); VInt (if same_str p path then wrap I64 ts else 0)].
  Lemma save_ok m gb pb p blk lb l6 l9 l10 r m5 : wview bl ts n bb be m gb pb p blk lb qb path b e -> str_at m cb cmd ->
    nonul p -> nonul path -> nonul cmd -> i32 b -> i32 e ->
    ext X_lbuf_save (save_args p) m = Ok (r, m5) -> ptr_val r ->
    let L9 := LL l6 (VInt (if same_str p path then wrap I64 ts else 0)) r in
    exec call fuel s_save (mkst (LL l6 l9 l10) m) =
    if is_null r then ONormal (mkst L9 m5)
    else match ext X_ex_show [r] m5 with Ok (_, m6) => OReturn (VInt 1) (mkst L9 m6) | Err x => OErr x end.
  Proof.
    intros V Hcmd Np Nq Nc Ib Ie He Hr L9. subst L9. unfold locs. pose proof V as [A P Q R N F G]. unfold s_save. rewrite exec_seq, exec_expr.
    cbn [eval]. r_own ext d fuel A P Q Np Nq.
    assert (Hforce : truth (match find_byte 33 cmd with Some k0 => VPtr cb (Z.of_nat k0) | None => VInt 0 end) = Ok (has_byte 33 cmd))
      by (unfold has_byte; destruct (find_byte 33 cmd); reflexivity).
    unfold save_args in He.
    destruct (same_str p path) eqn:Eown; xstep.
    1: unfold e_fld; xstep; rewrite (fld_load m G_bufs gb BUF_MTIME (VInt ts) _ (b0_blk _ _ _ _ _ A) (b0_mt _ _ _ _ _ A)) by reflexivity; xstep.
    2: change (wrap I64 0) with 0.
    all: r_xb ext d fuel A; xstep;
      unfold e_beg; r_int ext d fuel 7%nat F Ib; xstep;
      unfold e_end; r_int ext d fuel 8%nat G Ie; xstep;
      rewrite (strchr0 m cb cmd 33 33 eq_refl Hcmd Nc) by lia; xstep; rewrite Hforce; xstep; rewrite negb_involutive;
      rewrite callx_S, x_lbuf_save_none, He; xstep;
      destruct Hr as [Er|[rb [ro Er]]]; rewrite Er; cbn [is_null]; xstep; cbn [ptr_cmp]; xstep; try reflexivity;
      rewrite callx_S, x_ex_show_none; destruct (ext X_ex_show [VPtr rb ro] m5) as [[u m6]|x]; xstep; reflexivity.
  Qed.

  (* ---- the pipe: if (!path[1]) return 1; ibuf = lbuf_cp(xb, beg, end); ex_print(NULL); cmd_pipe(path + 1, ibuf, 0); free(ibuf);
     no store into bufs[0], no call of lbuf_save / lbuf_saved / lbuf_unsaved / mtime *)
  Lemma pipe_empty m l6 l9 l10 : str_at m qb path -> nonul path -> nthb path 0 = 33%N -> nthb path 1 = 0%N ->
    exec call fuel s_pipe (mkst (LL l6 l9 l10) m) = OReturn (VInt 1) (mkst (LL l6 l9 l10) m).
  Proof.
    intros Q Nq H0 H1. unfold s_pipe, locs, e_byte. rewrite exec_seq, exec_if. xstep.
    assert (Hl : (1 <= length path)%nat) by (destruct path; [discriminate|cbn; lia]).
    rewrite (load_str m qb path _ 1 Q) by (try reflexivity; lia). xstep. rewrite H1. reflexivity.
  Qed.
  Lemma pipe_ok m gb pb p blk lb l6 l9 l10 iv m5 u6 m6 u7 m7 u8 m8 : wview bl ts n bb be m gb pb p blk lb qb path b e ->
    nonul path -> i32 b -> i32 e -> nthb path 0 = 33%N -> nthb path 1 <> 0%N ->
    ext X_lbuf_cp [VPtr bl 0; VInt b; VInt e] m = Ok (iv, m5) -> ptr_val iv ->
    ext X_ex_print [VInt 0] m5 = Ok (u6, m6) -> ext X_cmd_pipe [VPtr qb 1; iv; VInt 0] m6 = Ok (u7, m7) ->
    do_builtin_m BFree [iv] m7 = Ok (u8, m8) ->
    exec call fuel s_pipe (mkst (LL l6 l9 l10) m) = ONormal (mkst (LL iv l9 l10) m8).
  Proof.
    intros V Nq Ib Ie H0 H1 E5 Hiv E6 E7 E8. pose proof V as [A P Q R N F G]. unfold s_pipe, locs, e_byte. rewrite exec_seq, exec_if. xstep.
    assert (Hl : (1 <= length path)%nat) by (destruct path; [discriminate|cbn; lia]).
    rewrite (load_str m qb path _ 1 Q) by (try reflexivity; lia). xstep.
    assert (Hc : (nthb path 1 < 256)%N) by (apply nthb_lt256, nonul_lt256; exact Nq).
    rewrite (c8_eq0 _ Hc). destruct (N.eqb_spec (nthb path 1) 0) as [X|_]; [contradiction|]. xstep.
    r_xb ext d fuel A. xstep. unfold e_beg. r_int ext d fuel 7%nat F Ib. xstep. unfold e_end. r_int ext d fuel 8%nat G Ie. xstep.
    rewrite callx_S, x_lbuf_cp_none, E5. xstep.
    destruct Hiv as [X|[ib [io X]]]; subst iv; xstep; rewrite callx_S, x_ex_print_none, E6; xstep;
      change (0 + 1 * 1) with 1; rewrite callx_S, x_cmd_pipe_none, E7; xstep; rewrite E8; xstep; reflexivity.
  Qed.
End Write.

(* ------------------------------------------------------------------ the head: path, the `x` shortcut, the address, the whole-buffer default *)
Section Head.
  Variable ext : nat -> list val -> mem -> res (val * mem).
  Variables (d fuel : nat).
  Local Notation call := (callx ext cprog fuel (S (S (S d)))).

  (* path = arg[0] ? ex_pathexpand(arg, 1) : ex_path(); *)
  Lemma path_ok m gb pb bl ts ab arg vloc vcmd vtxt bm l5 l6 bb be l9 l10 : buf0 m gb (VPtr pb 0) bl ts -> str_at m ab arg -> nonul arg ->
    exec call fuel s_path (mkst (locs vloc vcmd (VPtr ab 0) vtxt bm l5 l6 bb be l9 l10) m) =
    match arg with
    | [] => ONormal (mkst (locs vloc vcmd (VPtr ab 0) vtxt bm (VPtr pb 0) l6 bb be l9 l10) m)
    | _ :: _ => match ext X_ex_pathexpand [VPtr ab 0; VInt 1] m with
                | Ok (qv, m1) => ONormal (mkst (locs vloc vcmd (VPtr ab 0) vtxt bm qv l6 bb be l9 l10) m1)
                | Err x => OErr x
                end
    end.
  Proof.
    intros A Ha Na. unfold s_path, locs, e_byte. rewrite exec_expr. xstep.
    rewrite (load_str m ab arg _ 0 Ha) by (try reflexivity; lia). xstep.
    assert (Hc : (nthb arg 0 < 256)%N) by (apply nthb_lt256, nonul_lt256; exact Na).
    rewrite (sx_eq0 _ Hc). destruct arg as [|c arg']; cbn [nthb nth].
    - cbn [N.eqb negb]. xstep. rewrite (call_ex_path ext m gb pb bl ts _ fuel A). xstep. reflexivity.
    - inversion Na as [|? ? [Hc0 _] _]; subst. destruct (N.eqb_spec c 0) as [X|_]; [lia|]. xstep.
      rewrite callx_S, x_ex_pathexpand_none. destruct (ext X_ex_pathexpand [VPtr ab 0; VInt 1] m) as [[qv m1]|x]; xstep; reflexivity.
  Qed.

  (* if (cmd[0] == 'x' && !lbuf_modified(xb)) return 0;   -- lbuf_modified bumps the command counter of the buffer *)
  Definition bumped (blk : block) (lb : lbuf) : block := upd blk L_useq (VInt (useq lb + 1)).
  Lemma xclean_ok L m gb pv bl ts blk lb cb cmd : nth_error L 1 = Some (VPtr cb 0) -> buf0 m gb pv bl ts -> str_at m cb cmd -> nonul cmd ->
    lbuf_rep m bl blk lb -> lbuf_ints lb -> useq lb < 2147483647 ->
    exec call fuel s_xclean (mkst L m) =
    if (nthb cmd 0 =? 120)%N then
      if snd (lbuf_modified lb) then ONormal (mkst L (upd m bl (bumped blk lb))) else OReturn (VInt 0) (mkst L (upd m bl (bumped blk lb)))
    else ONormal (mkst L m).
  Proof.
    intros H1 A Hc Nc R Hints Hmax. unfold s_xclean, e_byte. rewrite exec_if. xstep. unfold get_local at 1. cbn [locals]. rewrite H1. xstep.
    rewrite (load_str m cb cmd _ 0 Hc) by (try reflexivity; lia). xstep.
    assert (Hc0 : (nthb cmd 0 < 256)%N) by (apply nthb_lt256, nonul_lt256; exact Nc).
    rewrite (sx_eq120 _ Hc0). destruct (nthb cmd 0 =? 120)%N; cbn [b2z Z.eqb negb]; xstep; [|reflexivity].
    rewrite (eval_xb ext d fuel L m gb pv bl ts A). xstep.
    destruct (tr_lbuf_modified m bl blk lb (S d) fuel R Hints Hmax) as [Hcall _]. cbv zeta in Hcall.
    rewrite (callx_mono ext _ _ _ _ _ _ _ Hcall). xstep. unfold bumped. destruct (snd (lbuf_modified lb)); xstep; reflexivity.
  Qed.

  (* if (ex_region(loc, &beg, &end) || path == NULL) return 1; *)
  Lemma region_ok L m lcb bb be qv rr m3 : nth_error L 0 = Some (VPtr lcb 0) -> nth_error L 5 = Some qv ->
    nth_error L 7 = Some (VPtr bb 0) -> nth_error L 8 = Some (VPtr be 0) -> ptr_val qv ->
    call F_ex_region [VPtr lcb 0; VPtr bb 0; VPtr be 0] m = Ok (VInt rr, m3) ->
    exec call fuel s_region (mkst L m) = if (rr =? 0) && negb (is_null qv) then ONormal (mkst L m3) else OReturn (VInt 1) (mkst L m3).
  Proof.
    intros H0 H5 H7 H8 Hq Hr. unfold s_region. rewrite exec_if. xstep. unfold get_local at 1. cbn [locals]. rewrite H0. xstep.
    unfold get_local at 1. cbn [locals]. rewrite H7. xstep. unfold get_local at 1. cbn [locals]. rewrite H8. xstep.
    rewrite Hr. xstep. destruct (rr =? 0); cbn [negb andb]; xstep; [|reflexivity].
    unfold get_local. cbn [locals]. rewrite H5. destruct Hq as [X|[qb [qo X]]]; subst qv; xstep; cbn [ptr_cmp is_null negb]; xstep; reflexivity.
  Qed.

  (* if (!loc[0]) { beg = 0; end = lbuf_len(xb); } *)
  Lemma whole_ok L m gb pv bl ts blk lcb loc bb be n x y : nth_error L 0 = Some (VPtr lcb 0) ->
    nth_error L 7 = Some (VPtr bb 0) -> nth_error L 8 = Some (VPtr be 0) ->
    buf0 m gb pv bl ts -> nth_error m bl = Some blk -> nth_error blk L_ln_n = Some (VInt n) -> i32 n -> str_at m lcb loc -> nonul loc ->
    nth_error m bb = Some [x] -> nth_error m be = Some [y] -> bb <> be -> bb <> G_bufs -> bb <> bl ->
    exec call fuel s_whole (mkst L m) = match loc with [] => ONormal (mkst L (upd (upd m bb [VInt 0]) be [VInt n])) | _ :: _ => ONormal (mkst L m) end.
  Proof.
    intros H0 H7 H8 A Hl Hn I_n Hs Nl Hb He Nbe Nbg Nbl. unfold s_whole, e_byte. rewrite exec_if. xstep. unfold get_local at 1. cbn [locals]. rewrite H0. xstep.
    rewrite (load_str m lcb loc _ 0 Hs) by (try reflexivity; lia). xstep.
    assert (Hc : (nthb loc 0 < 256)%N) by (apply nthb_lt256, nonul_lt256; exact Nl).
    rewrite (c8_eq0 _ Hc). destruct loc as [|c loc']; cbn [nthb nth].
    2:{ inversion Nl as [|? ? [Hc0 _] _]; subst. destruct (N.eqb_spec c 0) as [X|_]; [lia|]. xstep. reflexivity. }
    cbn [N.eqb negb]. xstep. unfold get_local at 1. cbn [locals]. rewrite H7. xstep. change (wrap I32 0) with 0.
    assert (Lb : (bb < length m)%nat) by (apply nth_error_Some; congruence).
    rewrite (store_ok m bb [x] 0 (VInt 0) Hb) by (cbn; lia). xstep. change (Z.to_nat 0) with 0%nat. change (upd [x] 0 (VInt 0)) with [VInt 0].
    set (m1 := upd m bb [VInt 0]).
    assert (A1 : buf0 m1 gb pv bl ts) by (apply (buf0_same m m1 _ _ _ _ A); unfold m1; apply mem_upd_other; [exact Lb|congruence]).
    assert (Hl1 : nth_error m1 bl = Some blk) by (unfold m1; rewrite mem_upd_other by (try exact Lb; congruence); exact Hl).
    unfold get_local at 1. cbn [locals]. rewrite H8. xstep.
    rewrite (eval_len ext d fuel L m1 gb pv bl ts blk n A1 Hl1 Hn I_n). xstep. rewrite wrap_I32_id by exact I_n.
    assert (He1 : nth_error m1 be = Some [y]) by (unfold m1; rewrite mem_upd_other by (try exact Lb; congruence); exact He).
    rewrite (store_ok m1 be [y] 0 (VInt n) He1) by (cbn; lia). xstep. reflexivity.
  Qed.
End Head.

(* ------------------------------------------------------------------ the whole function *)
Definition ret_of (o : outcome) : res (val * mem) :=
  match o with OReturn v st => Ok (v, memm st) | ONormal st => Ok (VUndef, memm st) | OErr x => Err x | _ => Err EShape end.

Lemma tail_run_imp ext bl n bm qb path b e K (Q Q' : Z -> mem -> Prop) m gb pb p blk lb : (forall r mf, Q r mf -> Q' r mf) ->
  tail_run ext bl n bm qb path b e K Q m gb pb p blk lb -> tail_run ext bl n bm qb path b e K Q' m gb pb p blk lb.
Proof.
  intros HQ H. unfold tail_run in *. intros u1 m1 u2 m2 E1 S1 E2 S2. specialize (H u1 m1 u2 m2 E1 S1 E2 S2).
  destruct (adopts p path).
  - intros u3 m3 E3 S3. apply (fin_run_imp ext bl n qb b e _ Q Q'); [exact HQ|]. apply (H u3 m3 E3 S3).
  - apply (fin_run_imp ext bl n qb b e _ Q Q'); [exact HQ|exact H].
Qed.

Section Cmd.
  Variable ext : nat -> list val -> mem -> res (val * mem).
  Variables (d fuel : nat).
  Variables (m0 : mem) (gb : block) (pb : nat) (p : bytes) (bl : nat) (blk : block) (lb : lbuf) (ts n : Z).
  Variables (cb : nat) (cmd : bytes) (ab : nat) (arg : bytes) (lcb : nat) (loc : bytes) (vtxt : val).
  Variable K : list nat.
  Local Notation bm := (length m0).
  Local Notation bb := (S (length m0)).
  Local Notation be := (S (S (length m0))).
  Local Notation callr := (callx ext cprog fuel (S (S (S d)))).
  (* the memory behind the three allocations of the frame: msg[128], beg, end -- indeterminate *)
  Definition frame_mem : mem := ((m0 ++ [repeat VUndef 128]) ++ [[VUndef]]) ++ [[VUndef]].
  (* what ex_region may change besides: everything of K but the two out-parameters *)
  Definition Kr : list nat := filter (fun x => negb (Nat.eqb x bb) && negb (Nat.eqb x be)) K.

  (* THE DECISION STRUCTURE OF ec_write, for an arbitrary "the function returns r and leaves mf" Q.  Every `ext X_f args m = Ok (v, m')`
     is a call of the oracle for f; `same_on K m m'` says that this call left the blocks of K alone. *)
  Definition write_run (Q : Z -> mem -> Prop) (qb : nat) (path : bytes) (blk1 : block) (lb1 : lbuf) (b e : Z) (m4 : mem) : Prop :=
    if (nthb path 0 =? 33)%N then
      (* a pipe: nothing is stored in bufs[0]; the tail finds the name not adopted and (unless the buffer is itself NAMED like this pipe)
         the path different from the buffer's: neither lbuf_saved nor lbuf_unsaved nor mtime *)
      if (nthb path 1 =? 0)%N then Q 1 m4
      else forall iv m5 u6 m6 u7 m7 u8 m8,
        ext X_lbuf_cp [VPtr bl 0; VInt b; VInt e] m4 = Ok (iv, m5) -> ptr_val iv -> same_on K m4 m5 ->
        ext X_ex_print [VInt 0] m5 = Ok (u6, m6) -> same_on K m5 m6 ->
        ext X_cmd_pipe [VPtr qb 1; iv; VInt 0] m6 = Ok (u7, m7) -> same_on K m6 m7 ->
        do_builtin_m BFree [iv] m7 = Ok (u8, m8) -> same_on K m7 m8 ->
        tail_run ext bl n bm qb path b e K Q m8 gb pb p blk1 lb1
    else
      (* a file: lbuf_save with the force flag of the command and the buffer's mtime as guard exactly for the own path; an error message:
         ex_show, return 1, nothing else; success: the tail *)
      forall r m5, ext X_lbuf_save (save_args bl ts qb path cmd b e p) m4 = Ok (r, m5) -> ptr_val r -> same_on K m4 m5 ->
        if is_null r then (adopts p path = true -> pb <> qb) -> tail_run ext bl n bm qb path b e K Q m5 gb pb p blk1 lb1
        else forall u m6, ext X_ex_show [r] m5 = Ok (u, m6) -> Q 1 m6.
  Definition region_run (Q : Z -> mem -> Prop) (qo : option (nat * bytes)) (blk1 : block) (lb1 : lbuf) (m2 : mem) : Prop :=
    forall rr m3, callr F_ex_region [VPtr lcb 0; VPtr bb 0; VPtr be 0] m2 = Ok (VInt rr, m3) ->
      if rr =? 0 then
        match qo with
        | None => Q 1 m3
        | Some (qb, path) =>
            forall b0 e0, nth_error m3 bb = Some [VInt b0] -> nth_error m3 be = Some [VInt e0] -> i32 b0 -> i32 e0 -> i32 (e0 - b0) ->
              same_on Kr m2 m3 ->
              match loc with
              | [] => write_run Q qb path blk1 lb1 0 n (upd (upd m3 bb [VInt 0]) be [VInt n])
              | _ :: _ => write_run Q qb path blk1 lb1 b0 e0 m3
              end
        end
      else Q 1 m3.
  Definition xclean_run (Q : Z -> mem -> Prop) (qo : option (nat * bytes)) (m1 : mem) : Prop :=
    if (nthb cmd 0 =? 120)%N then
      if snd (lbuf_modified lb) then region_run Q qo (bumped blk lb) (fst (lbuf_modified lb)) (upd m1 bl (bumped blk lb))
      else Q 0 (upd m1 bl (bumped blk lb))
    else region_run Q qo blk lb m1.
  Definition ecw_run (Q : Z -> mem -> Prop) : Prop :=
    match arg with
    | [] => xclean_run Q (Some (pb, p)) frame_mem
    | _ :: _ =>
        forall qv m1, ext X_ex_pathexpand [VPtr ab 0; VInt 1] frame_mem = Ok (qv, m1) -> same_on K frame_mem m1 ->
          match qv with
          | VInt 0 => xclean_run Q None m1
          | VPtr qb 0 => forall path, str_at m1 qb path -> nonul path -> Z.of_nat (length path) <= 2147483647 -> In qb K ->
                         ~ In qb [G_bufs; pb; bl; bb; be] -> xclean_run Q (Some (qb, path)) m1
          | _ => True
          end
    end.

  Local Notation LL qv l6 l9 l10 := (locs (VPtr lcb 0) (VPtr cb 0) (VPtr ab 0) vtxt bm qv l6 bb be l9 l10).
  Hypothesis Np : nonul p.
  Hypothesis Nc : nonul cmd.
  Hypothesis I_n : i32 n.

  Lemma write_if L m qb path : nth_error L 5 = Some (VPtr qb 0) -> str_at m qb path -> nonul path ->
    exec callr fuel s_write (mkst L m) = exec callr fuel (if (nthb path 0 =? 33)%N then s_pipe else s_save) (mkst L m).
  Proof.
    intros H5 Q Nq. unfold s_write, e_byte. rewrite exec_if. xstep. unfold get_local at 1. cbn [locals]. rewrite H5. xstep.
    rewrite (load_str m qb path _ 0 Q) by (try reflexivity; lia). xstep.
    assert (Hc : (nthb path 0 < 256)%N) by (apply nthb_lt256, nonul_lt256; exact Nq).
    rewrite (sx_eq33 _ Hc). destruct (nthb path 0 =? 33)%N; reflexivity.
  Qed.

  Lemma write_stage (Q : Z -> mem -> Prop) qb path blk1 lb1 b e m4 l6 l9 l10 :
    (forall r mf, ret_of (exec callr fuel (SSeq s_write s_tail) (mkst (LL (VPtr qb 0) l6 l9 l10) m4)) = Ok (VInt r, mf) -> Q r mf) ->
    wview bl ts n bb be m4 gb pb p blk1 lb1 qb path b e -> str_at m4 cb cmd ->
    wkeys bl bb be K pb qb blk1 lb1 -> wdist bl bb be pb qb blk1 lb1 ->
    nonul path -> lbuf_ints lb1 -> useq lb1 < 2147483647 -> i32 b -> i32 e -> i32 (e - b) -> Z.of_nat (length path) <= 2147483647 ->
    write_run Q qb path blk1 lb1 b e m4.
  Proof.
    intros HQ V Hcmd Hk Hd Nq Hints Hmax Ib Ie Ieb Hlen. pose proof V as [A P Qs R N F G]. unfold write_run.
    pose proof (write_if (LL (VPtr qb 0) l6 l9 l10) m4 qb path eq_refl Qs Nq) as Hif.
    destruct (N.eqb_spec (nthb path 0) 33) as [E0|E0].
    - destruct (N.eqb_spec (nthb path 1) 0) as [E1|E1].
      + apply HQ. rewrite exec_seq, Hif, (pipe_empty ext d fuel bm bb be qb cb path (VPtr lcb 0) (VPtr ab 0) vtxt m4 l6 l9 l10 Qs Nq E0 E1). reflexivity.
      + intros iv m5 u6 m6 u7 m7 u8 m8 E5 Hiv S5 E6 S6 E7 S7 E8 S8.
        pose proof (wview_same bl ts n bb be K m4 m5 _ _ _ _ _ _ _ _ _ V Hk S5) as V5.
        pose proof (wview_same bl ts n bb be K m5 m6 _ _ _ _ _ _ _ _ _ V5 Hk S6) as V6.
        pose proof (wview_same bl ts n bb be K m6 m7 _ _ _ _ _ _ _ _ _ V6 Hk S7) as V7.
        pose proof (wview_same bl ts n bb be K m7 m8 _ _ _ _ _ _ _ _ _ V7 Hk S8) as V8.
        assert (Hg : adopts p path = true -> pb <> qb).
        { unfold adopts. destruct p; [|discriminate]. rewrite E0. discriminate. }
        pose proof (tail_ok ext d fuel bl ts n bm bb be qb path b e (LL (VPtr qb 0) iv l9 l10) eq_refl eq_refl eq_refl eq_refl
                      K m8 gb pb p blk1 lb1 V8 Hk Hd Np Nq Hints Hmax I_n Ib Ie Ieb Hlen Hg) as Ht.
        revert Ht. apply tail_run_imp. intros r mf H. apply HQ.
        rewrite exec_seq, Hif, (pipe_ok ext d fuel bl ts n bm bb be qb cb path b e (VPtr lcb 0) (VPtr ab 0) vtxt m4 gb pb p blk1 lb1 l6 l9 l10 iv m5 u6 m6 u7 m7 u8 m8 V Nq Ib Ie E0 E1 E5 Hiv E6 E7 E8).
        rewrite H. reflexivity.
    - intros r m5 E5 Hr S5.
      pose proof (save_ok ext d fuel bl ts n bm bb be qb cb path cmd b e (VPtr lcb 0) (VPtr ab 0) vtxt m4 gb pb p blk1 lb1 l6 l9 l10 r m5 V Hcmd Np Nq Nc Ib Ie E5 Hr) as Hs.
      cbv zeta in Hs. destruct (is_null r) eqn:Enull.
      + intro Hg. pose proof (wview_same bl ts n bb be K m4 m5 _ _ _ _ _ _ _ _ _ V Hk S5) as V5.
        pose proof (tail_ok ext d fuel bl ts n bm bb be qb path b e (LL (VPtr qb 0) l6 (VInt (if same_str p path then wrap I64 ts else 0)) r) eq_refl eq_refl eq_refl eq_refl
                      K m5 gb pb p blk1 lb1 V5 Hk Hd Np Nq Hints Hmax I_n Ib Ie Ieb Hlen Hg) as Ht.
        revert Ht. apply tail_run_imp. intros r0 mf H. apply HQ. rewrite exec_seq, Hif, Hs. rewrite H. reflexivity.
      + intros u m6 E6. apply HQ. rewrite exec_seq, Hif, Hs, E6. reflexivity.
  Qed.

  (* ---- what the head needs of the memory (before the address is resolved: beg and end hold anything) and of the blocks *)
  Definition pkeys (qo : option (nat * bytes)) : list nat :=
    [G_bufs; pb; bl; cb; lcb; bb; be] ++ match qo with Some (qb, _) => [qb] | None => [] end.
  Record pre (m : mem) (blk1 : block) (lb1 : lbuf) (qo : option (nat * bytes)) : Prop := mk_pre {
    pr_b0 : buf0 m gb (VPtr pb 0) bl ts; pr_p : str_at m pb p; pr_rep : lbuf_rep m bl blk1 lb1;
    pr_cmd : str_at m cb cmd; pr_loc : str_at m lcb loc;
    pr_q : match qo with Some (qb, path) => str_at m qb path | None => True end;
    pr_bb : exists x, nth_error m bb = Some [x]; pr_be : exists y, nth_error m be = Some [y] }.
  Lemma pre_same m m' blk1 lb1 qo : pre m blk1 lb1 qo -> (forall x, In x (pkeys qo) -> nth_error m' x = nth_error m x) ->
    (hist lb1 <> [] -> forall bh, hist_ptr blk1 bh -> nth_error m' bh = nth_error m bh) -> pre m' blk1 lb1 qo.
  Proof.
    intros [A P R C Lc Qq [x Hx] [y Hy]] Hs Hh. unfold pkeys in Hs.
    assert (S1 : forall z, In z [G_bufs; pb; bl; cb; lcb; bb; be] -> nth_error m' z = nth_error m z) by (intros z Hz; apply Hs, in_or_app; left; exact Hz).
    constructor.
    - apply (buf0_same m m' _ _ _ _ A). apply S1. inl.
    - apply (str_at_same m m' _ _ P). apply S1. inl.
    - apply (rep_same m m' _ _ _ R); [apply S1; inl|exact Hh].
    - apply (str_at_same m m' _ _ C). apply S1. inl.
    - apply (str_at_same m m' _ _ Lc). apply S1. inl.
    - destruct qo as [[qb path]|]; [|exact I]. apply (str_at_same m m' _ _ Qq). apply Hs, in_or_app. right. left. reflexivity.
    - exists x. rewrite S1 by (inl). exact Hx.
    - exists y. rewrite S1 by (inl). exact Hy.
  Qed.
  Record side (blk1 : block) (lb1 : lbuf) (qo : option (nat * bytes)) : Prop := mk_side {
    sd_n : nth_error blk1 L_ln_n = Some (VInt n); sd_ints : lbuf_ints lb1; sd_max : useq lb1 < 2147483647;
    sd_keys : forall x, In x (pkeys qo) -> In x K;
    sd_hkeys : hist lb1 <> [] -> forall bh, hist_ptr blk1 bh -> In bh K;
    sd_nodup : NoDup [G_bufs; pb; bl; bb; be];
    sd_cb : ~ In cb [bl; bb; be]; sd_lcb : ~ In lcb [bl; bb; be];
    sd_hdist : hist lb1 <> [] -> forall bh, hist_ptr blk1 bh -> ~ In bh [G_bufs; pb; bb; be];
    sd_q : match qo with Some (qb, path) => nonul path /\ Z.of_nat (length path) <= 2147483647 /\ ~ In qb [G_bufs; bl; bb; be] | None => True end }.

  Lemma in_Kr x : In x K -> x <> bb -> x <> be -> In x Kr.
  Proof.
    intros Hx H1 H2. unfold Kr. apply filter_In. split; [exact Hx|].
    destruct (Nat.eqb_spec x bb); [contradiction|]. destruct (Nat.eqb_spec x be); [contradiction|]. reflexivity.
  Qed.
  Lemma upd2_other (m : mem) x (vb ve : block) : x <> bb -> x <> be -> (bb < length m)%nat -> (be < length m)%nat ->
    nth_error (upd (upd m bb vb) be ve) x = nth_error m x.
  Proof. intros H1 H2 L1 L2. rewrite mem_upd_other by (try (rewrite upd_length by exact L1; exact L2); exact H2). apply mem_upd_other; assumption. Qed.
  Lemma nodup5 (a b0 c d0 e0 : nat) : NoDup [a; b0; c; d0; e0] ->
    a <> b0 /\ a <> c /\ a <> d0 /\ a <> e0 /\ b0 <> c /\ b0 <> d0 /\ b0 <> e0 /\ c <> d0 /\ c <> e0 /\ d0 <> e0.
  Proof.
    intro H. inversion H as [|? ? H1 H2]; subst. inversion H2 as [|? ? H3 H4]; subst. inversion H4 as [|? ? H5 H6]; subst.
    inversion H6 as [|? ? H7 H8]; subst. cbn [In] in *. repeat split; intro X; subst; tauto.
  Qed.

  Definition qv_of (qo : option (nat * bytes)) : val := match qo with Some (qb, _) => VPtr qb 0 | None => VInt 0 end.

  Lemma region_stage (Q : Z -> mem -> Prop) qo blk1 lb1 m2 l6 l9 l10 :
    (forall r mf, ret_of (exec callr fuel (SSeq s_region (SSeq s_whole (SSeq s_write s_tail))) (mkst (LL (qv_of qo) l6 l9 l10) m2)) = Ok (VInt r, mf) -> Q r mf) ->
    pre m2 blk1 lb1 qo -> side blk1 lb1 qo -> nonul loc ->
    region_run Q qo blk1 lb1 m2.
  Proof.
    intros HQ Hpre Hside Nl. unfold region_run. intros rr m3 Hr.
    assert (Hqv : ptr_val (qv_of qo)) by (destruct qo as [[qb path]|]; [right; exists qb, 0; reflexivity|left; reflexivity]).
    pose proof (region_ok ext d fuel (LL (qv_of qo) l6 l9 l10) m2 lcb bb be (qv_of qo) rr m3 eq_refl eq_refl eq_refl eq_refl Hqv Hr) as Hreg.
    destruct (rr =? 0); cbn [andb] in Hreg.
    2:{ apply HQ. rewrite exec_seq, Hreg. reflexivity. }
    destruct qo as [[qb path]|]; cbn [qv_of is_null negb] in Hreg, HQ.
    2:{ apply HQ. rewrite exec_seq, Hreg. reflexivity. }
    intros b0 e0 Hb He Ib Ie Ieb Sr.
    destruct Hside as [Sn Sints Smax Skeys Shk Snd Scb Slcb Shd (Nq & Hlen & Hqd)].
    destruct (nodup5 _ _ _ _ _ Snd) as (D1 & D2 & D3 & D4 & D5 & D6 & D7 & D8 & D9 & D10).
    assert (Hpre3 : forall x, In x [G_bufs; pb; bl; cb; lcb; qb] -> nth_error m3 x = nth_error m2 x).
    { intros x Hx. apply Sr. apply in_Kr.
      - apply Skeys. unfold pkeys. clear - Hx. cbn [In app] in *. tauto.
      - intro X. subst x. cbn [In] in *. intuition congruence.
      - intro X. subst x. cbn [In] in *. intuition congruence. }
    assert (Hh3 : hist lb1 <> [] -> forall bh, hist_ptr blk1 bh -> nth_error m3 bh = nth_error m2 bh).
    { intros Hne bh Hp. apply Sr. apply in_Kr; [apply (Shk Hne bh Hp)| |]; intro X; subst bh; apply (Shd Hne _ Hp); inl. }
    destruct Hpre as [A P R C Lc Qq _ _].
    assert (A3 : buf0 m3 gb (VPtr pb 0) bl ts) by (apply (buf0_same m2 m3 _ _ _ _ A); apply Hpre3; inl).
    assert (P3 : str_at m3 pb p) by (apply (str_at_same m2 m3 _ _ P); apply Hpre3; inl).
    assert (Q3 : str_at m3 qb path) by (apply (str_at_same m2 m3 _ _ Qq); apply Hpre3; inl).
    assert (C3 : str_at m3 cb cmd) by (apply (str_at_same m2 m3 _ _ C); apply Hpre3; inl).
    assert (L3 : str_at m3 lcb loc) by (apply (str_at_same m2 m3 _ _ Lc); apply Hpre3; inl).
    assert (R3 : lbuf_rep m3 bl blk1 lb1) by (apply (rep_same m2 m3 _ _ _ R); [apply Hpre3; inl|exact Hh3]).
    assert (Hk : wkeys bl bb be K pb qb blk1 lb1).
    { split; [|exact Shk]. intros x Hx. apply Skeys. unfold pkeys. clear - Hx. cbn [In app] in *. tauto. }
    assert (Hd : wdist bl bb be pb qb blk1 lb1) by (split; [exact Snd|split; [exact Hqd|exact Shd]]).
    pose proof (whole_ok ext d fuel (LL (VPtr qb 0) l6 l9 l10) m3 gb (VPtr pb 0) bl ts blk1 lcb loc bb be n (VInt b0) (VInt e0)
                  eq_refl eq_refl eq_refl A3 (rep_blk _ _ _ _ R3) Sn I_n L3 Nl Hb He ltac:(lia) ltac:(congruence) ltac:(congruence)) as Hw.
    assert (Lbb : (bb < length m3)%nat) by (apply nth_error_Some; congruence).
    assert (Lbe : (be < length m3)%nat) by (apply nth_error_Some; congruence).
    destruct loc as [|c loc'].
    - set (m4 := upd (upd m3 bb [VInt 0]) be [VInt n]) in *.
      assert (Hoth : forall x, In x [G_bufs; pb; bl; cb; lcb; qb] -> nth_error m4 x = nth_error m3 x).
      { intros x Hx. unfold m4. apply upd2_other; try assumption; intro X; subst x; cbn [In] in *; intuition congruence. }
      assert (V4 : wview bl ts n bb be m4 gb pb p blk1 lb1 qb path 0 n).
      { constructor.
        - apply (buf0_same m3 m4 _ _ _ _ A3); apply Hoth; inl.
        - apply (str_at_same m3 m4 _ _ P3); apply Hoth; inl.
        - apply (str_at_same m3 m4 _ _ Q3); apply Hoth; inl.
        - apply (rep_same m3 m4 _ _ _ R3); [apply Hoth; inl|]. intros Hne bh Hp. unfold m4.
          apply upd2_other; try assumption; intro X; subst bh; apply (Shd Hne _ Hp); inl.
        - exact Sn.
        - unfold m4. rewrite mem_upd_other by (try (rewrite upd_length by exact Lbb; exact Lbe); lia). apply mem_upd_same. exact Lbb.
        - unfold m4. apply mem_upd_same. rewrite upd_length by exact Lbb. exact Lbe. }
      apply (write_stage Q qb path blk1 lb1 0 n m4 l6 l9 l10); try assumption.
      + intros r mf H. apply HQ. rewrite exec_seq, Hreg, exec_seq, Hw. exact H.
      + apply (str_at_same m3 m4 _ _ C3); apply Hoth; inl.
      + unfold i32. lia.
      + replace (n - 0) with n by lia. exact I_n.
    - assert (V3 : wview bl ts n bb be m3 gb pb p blk1 lb1 qb path b0 e0) by (constructor; assumption).
      apply (write_stage Q qb path blk1 lb1 b0 e0 m3 l6 l9 l10); try assumption.
      intros r mf H. apply HQ. rewrite exec_seq, Hreg, exec_seq, Hw. exact H.
  Qed.

  Lemma hist_ptr_bumped bh : length blk = LBUF_CELLS -> (hist_ptr (bumped blk lb) bh <-> hist_ptr blk bh).
  Proof.
    intro Hl. unfold hist_ptr, bumped. rewrite nth_error_upd_other by (try (rewrite Hl; unfold LBUF_CELLS, L_useq; lia); unfold L_hist, L_useq; lia). tauto.
  Qed.

  Lemma xclean_stage (Q : Z -> mem -> Prop) qo m1 l6 l9 l10 :
    (forall r mf, ret_of (exec callr fuel (SSeq s_xclean (SSeq s_region (SSeq s_whole (SSeq s_write s_tail)))) (mkst (LL (qv_of qo) l6 l9 l10) m1)) = Ok (VInt r, mf) -> Q r mf) ->
    pre m1 blk lb qo -> side blk lb qo -> useq lb < 2147483646 -> nonul loc ->
    xclean_run Q qo m1.
  Proof.
    intros HQ Hpre Hside Hmax2 Nl. unfold xclean_run. pose proof Hpre as [A P R C Lc Qq Hbb Hbe]. pose proof Hside as [Sn Sints Smax Skeys Shk Snd Scb Slcb Shd Sq].
    pose proof (xclean_ok ext d fuel (LL (qv_of qo) l6 l9 l10) m1 gb (VPtr pb 0) bl ts blk lb cb cmd eq_refl A C Nc R Sints Smax) as Hx.
    destruct (nthb cmd 0 =? 120)%N.
    2:{ apply (region_stage Q qo blk lb m1 l6 l9 l10); try assumption. intros r mf H. apply HQ. rewrite exec_seq, Hx. exact H. }
    destruct (tr_lbuf_modified m1 bl blk lb 0 0 R Sints Smax) as [_ R']. cbv zeta in R'. fold (bumped blk lb) in R'.
    destruct (snd (lbuf_modified lb)).
    2:{ apply HQ. rewrite exec_seq, Hx. reflexivity. }
    destruct (nodup5 _ _ _ _ _ Snd) as (D1 & D2 & D3 & D4 & D5 & D6 & D7 & D8 & D9 & D10).
    assert (Lbl : (bl < length m1)%nat) by (apply nth_error_Some; rewrite (rep_blk _ _ _ _ R); discriminate).
    pose proof (rep_len _ _ _ _ R) as Hlen.
    apply (region_stage Q qo (bumped blk lb) (fst (lbuf_modified lb)) (upd m1 bl (bumped blk lb)) l6 l9 l10); try assumption.
    - intros r mf H. apply HQ. rewrite exec_seq, Hx. exact H.
    - assert (Hoth : forall x, x <> bl -> nth_error (upd m1 bl (bumped blk lb)) x = nth_error m1 x) by (intros x Hx1; apply mem_upd_other; assumption).
      destruct Hbb as [xb Hxb]. destruct Hbe as [xe Hxe]. constructor.
      + apply (buf0_same m1 _ _ _ _ _ A). apply Hoth. congruence.
      + apply (str_at_same m1 _ _ _ P). apply Hoth. congruence.
      + exact R'.
      + apply (str_at_same m1 _ _ _ C). apply Hoth. intro X. apply Scb. rewrite X. inl.
      + apply (str_at_same m1 _ _ _ Lc). apply Hoth. intro X. apply Slcb. rewrite X. inl.
      + destruct qo as [[qb path]|]; [|exact I]. apply (str_at_same m1 _ _ _ Qq). apply Hoth. destruct Sq as (_ & _ & Hqd). intro X. apply Hqd. rewrite X. inl.
      + exists xb. rewrite Hoth by congruence. exact Hxb.
      + exists xe. rewrite Hoth by congruence. exact Hxe.
    - assert (Hh : hist (fst (lbuf_modified lb)) = hist lb) by reflexivity.
      constructor; try assumption.
      + unfold bumped. rewrite nth_error_upd_other by (try (rewrite Hlen; unfold LBUF_CELLS, L_useq; lia); unfold L_ln_n, L_useq; lia). exact Sn.
      + destruct Sints as (Hu & Hz & Hl & Hs & Hc & Hn). unfold lbuf_ints, i32 in *. cbn [lbuf_modified fst bump useq hist hist_u useq_zero useq_last]. repeat split; try tauto; lia.
      + cbn [lbuf_modified fst bump useq]. lia.
      + rewrite Hh. intros Hne bh Hp. apply (Shk Hne bh). apply (hist_ptr_bumped bh Hlen). exact Hp.
      + rewrite Hh. intros Hne bh Hp. apply (Shd Hne bh). apply (hist_ptr_bumped bh Hlen). exact Hp.
  Qed.

  (* ---- the call: three allocations, then the text *)
  Lemma ec_write_entry : callx ext cprog fuel (S (S (S (S d)))) F_ec_write [VPtr lcb 0; VPtr cb 0; VPtr ab 0; vtxt] m0
    = ret_of (exec callr fuel s_rest (mkst (LL VUndef VUndef VUndef VUndef) frame_mem)).
  Proof.
    rewrite callx_S. change (nth_error cprog F_ec_write) with (Some cf_ec_write). cbv beta iota.
    change (fn_nparams cf_ec_write) with 4%nat. change (fn_nlocals cf_ec_write) with 11%nat. rewrite ec_write_shape.
    cbn [length Nat.eqb Nat.sub repeat app s_frame]. rewrite exec_seq, exec_expr. xstep. rewrite malloc_ok by lia. xstep.
    rewrite malloc_ok by lia. xstep. rewrite malloc_ok by lia. xstep.
    rewrite !app_length. cbn [length]. replace (length m0 + 1)%nat with (S (length m0)) by lia. replace (S (length m0) + 1)%nat with (S (S (length m0))) by lia.
    unfold ret_of, frame_mem, locs. change (Z.to_nat 128) with 128%nat. change (Z.to_nat 1) with 1%nat. cbn [repeat].
    destruct (exec callr fuel s_rest _); reflexivity.
  Qed.

  Lemma frame_old x : (x < length m0)%nat -> nth_error frame_mem x = nth_error m0 x.
  Proof. intro H. unfold frame_mem. rewrite !nth_error_app1 by (rewrite ?app_length; cbn [length]; lia). reflexivity. Qed.
  Lemma frame_bb : nth_error frame_mem bb = Some [VUndef].
  Proof.
    unfold frame_mem. rewrite nth_error_app1 by (rewrite !app_length; cbn [length]; lia).
    replace (S (length m0)) with (length (m0 ++ [repeat VUndef 128])) by (rewrite app_length; cbn [length]; lia). apply nth_error_app_new.
  Qed.
  Lemma frame_be : nth_error frame_mem be = Some [VUndef].
  Proof.
    unfold frame_mem. replace (S (S (length m0))) with (length ((m0 ++ [repeat VUndef 128]) ++ [[VUndef]])) by (rewrite !app_length; cbn [length]; lia).
    apply nth_error_app_new.
  Qed.

  (* THE THEOREM: for every oracle, every memory that holds bufs[0] with its path string and its struct lbuf, the command, argument and
     address strings (in blocks of their own), every list K of blocks that contains them: the call of the translated ec_write follows
     `ecw_run` -- whatever the oracles answer, as long as they leave K alone *)
  Theorem tr_ec_write : buf0 m0 gb (VPtr pb 0) bl ts -> str_at m0 pb p -> lbuf_rep m0 bl blk lb -> nth_error blk L_ln_n = Some (VInt n) ->
    str_at m0 cb cmd -> str_at m0 ab arg -> str_at m0 lcb loc -> nonul arg -> nonul loc ->
    lbuf_ints lb -> useq lb < 2147483646 -> Z.of_nat (length p) <= 2147483647 ->
    (forall x, In x [G_bufs; pb; bl; cb; lcb; bb; be] -> In x K) -> (hist lb <> [] -> forall bh, hist_ptr blk bh -> In bh K) ->
    NoDup [G_bufs; pb; bl] -> cb <> bl -> lcb <> bl -> (hist lb <> [] -> forall bh, hist_ptr blk bh -> ~ In bh [G_bufs; pb]) ->
    ecw_run (fun r mf => callx ext cprog fuel (S (S (S (S d)))) F_ec_write [VPtr lcb 0; VPtr cb 0; VPtr ab 0; vtxt] m0 = Ok (VInt r, mf)).
  Proof.
    intros A P R Sn C Ha Lc Na Nl Hints Hmax Hlp HK HKh Hnd Hcb Hlcb Hhd.
    assert (Lt : forall x, In x [G_bufs; pb; bl; cb; lcb; ab] -> (x < length m0)%nat).
    { intros x Hx. apply nth_error_Some. unfold str_at in *. pose proof (b0_blk _ _ _ _ _ A). pose proof (rep_blk _ _ _ _ R).
      cbn [In] in Hx. destruct Hx as [<-|[<-|[<-|[<-|[<-|[<-|[]]]]]]]; congruence. }
    assert (Lth : hist lb <> [] -> forall bh, hist_ptr blk bh -> (bh < length m0)%nat) by (intros Hne bh Hp; exact (hist_ptr_lt bl m0 blk lb bh R Hp Hne)).
    assert (Hpre0 : pre frame_mem blk lb (Some (pb, p))).
    { constructor.
      - apply (buf0_same m0 _ _ _ _ _ A). apply frame_old, Lt. inl.
      - apply (str_at_same m0 _ _ _ P). apply frame_old, Lt. inl.
      - apply (rep_same m0 _ _ _ _ R); [apply frame_old, Lt; inl|]. intros Hne bh Hp. apply frame_old, (Lth Hne bh Hp).
      - apply (str_at_same m0 _ _ _ C). apply frame_old, Lt. inl.
      - apply (str_at_same m0 _ _ _ Lc). apply frame_old, Lt. inl.
      - apply (str_at_same m0 _ _ _ P). apply frame_old, Lt. inl.
      - exists VUndef. exact frame_bb.
      - exists VUndef. exact frame_be. }
    assert (Hnd5 : NoDup [G_bufs; pb; bl; bb; be]).
    { inversion Hnd as [|? ? H1 H2]; subst. inversion H2 as [|? ? H3 H4]; subst. inversion H4 as [|? ? H5 H6]; subst.
      pose proof (Lt G_bufs ltac:(inl)) as L1. pose proof (Lt pb ltac:(inl)) as L2. pose proof (Lt bl ltac:(inl)) as L3.
      clear - H1 H3 H5 L1 L2 L3. repeat constructor; cbn [In] in *; intuition lia. }
    assert (Hside : forall qo, (forall x, In x (pkeys qo) -> In x K) ->
              match qo with Some (qb, path) => nonul path /\ Z.of_nat (length path) <= 2147483647 /\ ~ In qb [G_bufs; bl; bb; be] | None => True end ->
              side blk lb qo).
    { intros qo Hk Hq. pose proof (Lt cb ltac:(inl)) as Lcb. pose proof (Lt lcb ltac:(inl)) as Llcb.
      constructor; [exact Sn|exact Hints|clear - Hmax; lia|exact Hk|exact HKh|exact Hnd5| | | |exact Hq].
      - clear - Lcb Hcb. cbn [In]. intros [X|[X|[X|[]]]]; [congruence|lia|lia].
      - clear - Llcb Hlcb. cbn [In]. intros [X|[X|[X|[]]]]; [congruence|lia|lia].
      - intros Hne bh Hp X. pose proof (Lth Hne bh Hp) as Lbh. cbn [In] in X.
        destruct X as [X|[X|[X|[X|[]]]]]; [apply (Hhd Hne bh Hp); rewrite X; inl|apply (Hhd Hne bh Hp); rewrite X; inl|clear - X Lbh; lia|clear - X Lbh; lia]. }
    assert (Hbuf : buf0 frame_mem gb (VPtr pb 0) bl ts) by exact (pr_b0 _ _ _ _ Hpre0).
    assert (Hargf : str_at frame_mem ab arg) by (apply (str_at_same m0 _ _ _ Ha); apply frame_old, Lt; inl).
    pose proof (path_ok ext d fuel frame_mem gb pb bl ts ab arg (VPtr lcb 0) (VPtr cb 0) vtxt bm VUndef VUndef bb be VUndef VUndef Hbuf Hargf Na) as Hpath.
    unfold ecw_run. destruct arg as [|c arg'].
    - apply (xclean_stage _ (Some (pb, p)) frame_mem VUndef VUndef VUndef); try assumption.
      + intros r mf H. rewrite ec_write_entry. unfold s_rest. rewrite exec_seq, Hpath. exact H.
      + apply Hside.
        * intros x Hx. unfold pkeys in Hx. apply in_app_or in Hx. destruct Hx as [Hx|[<-|[]]]; apply HK; [exact Hx|inl].
        * split; [exact Np|]. split; [exact Hlp|]. destruct (nodup5 _ _ _ _ _ Hnd5) as (D1 & D2 & D3 & D4 & D5 & D6 & D7 & _). cbn [In]. intuition congruence.
    - intros qv m1 E1 S1. rewrite E1 in Hpath.
      assert (Hpre1 : forall qo, (forall x, In x (pkeys qo) -> In x K) -> match qo with Some (qb, path) => str_at m1 qb path | None => True end -> pre m1 blk lb qo).
      { intros qo Hk Hq. assert (Hp1 : pre m1 blk lb None).
        { apply (pre_same frame_mem m1 blk lb None).
          - destruct Hpre0 as [A0 P0 R0 C0 L0 _ B0 E0]. constructor; try assumption. exact I.
          - intros x Hx. apply S1. unfold pkeys in Hx. rewrite app_nil_r in Hx. apply HK. exact Hx.
          - intros Hne bh Hp. apply S1. apply (HKh Hne bh Hp). }
        destruct Hp1 as [A1 P1 R1 C1 L1 _ B1 E1']. constructor; assumption. }
      destruct qv as [|z|qb qo]; [exact I| |].
      + destruct z; try exact I.
        apply (xclean_stage _ None m1 VUndef VUndef VUndef); try assumption.
        * intros r mf H. rewrite ec_write_entry. unfold s_rest. rewrite exec_seq, Hpath. exact H.
        * apply Hpre1; [|exact I]. intros x Hx. unfold pkeys in Hx. rewrite app_nil_r in Hx. apply HK. exact Hx.
        * apply Hside; [|exact I]. intros x Hx. unfold pkeys in Hx. rewrite app_nil_r in Hx. apply HK. exact Hx.
      + destruct qo; try exact I. intros path Hq Nq Hlen HqK Hqd.
        assert (Hk : forall x, In x (pkeys (Some (qb, path))) -> In x K).
        { intros x Hx. unfold pkeys in Hx. apply in_app_or in Hx. destruct Hx as [Hx|[<-|[]]]; [apply HK; exact Hx|exact HqK]. }
        apply (xclean_stage _ (Some (qb, path)) m1 VUndef VUndef VUndef); try assumption.
        * intros r mf H. rewrite ec_write_entry. unfold s_rest. rewrite exec_seq, Hpath. exact H.
        * apply Hpre1; assumption.
        * apply Hside; [exact Hk|]. split; [exact Nq|]. split; [exact Hlen|]. cbn [In] in *. tauto.
  Qed.
End Cmd.

(* ------------------------------------------------------------------ the empty address (`:w`, and `:wq` / `:x` through ec_quit, which passes ""):
   the hypothesis of region_run about the call of the translated ex_region is a FACT -- ex_region("", &beg, &end) stores xrow and
   xrow (+ 1) and answers whether xrow is outside the buffer; its local `loc` (address taken) is one more block behind the end *)
Lemma region_empty ext m gb pv bl ts blk n x lcb bb be vb ve d fuel :
  buf0 m gb pv bl ts -> nth_error m bl = Some blk -> nth_error blk L_ln_n = Some (VInt n) -> i32 n ->
  str_at m lcb [] -> str_at m G_lit_25_1 [37%N] -> cell_at m G_xrow x -> i32 x -> i32 (x + 1) ->
  nth_error m bb = Some [vb] -> nth_error m be = Some [ve] -> bb <> be ->
  ~ In bb [G_bufs; bl; G_xrow] -> ~ In be [G_bufs; bl; G_xrow] ->
  callx ext cprog fuel (S (S (S d))) F_ex_region [VPtr lcb 0; VPtr bb 0; VPtr be 0] m
  = Ok (VInt (b2z ((x <? 0) || (x >? n))), upd (upd (m ++ [[VPtr lcb 0]]) bb [VInt x]) be [VInt (if x =? n then x else x + 1)]).
Proof.
  intros A Hl Hn I_n Hloc Hpct Hx Ix Ix1 Hb He Nbe Nb Ne.
  assert (Lall : forall y, In y [G_bufs; bl; G_xrow; lcb; G_lit_25_1; bb; be] -> (y < length m)%nat).
  { intros y Hy. apply nth_error_Some. pose proof (b0_blk _ _ _ _ _ A). unfold str_at, cell_at in *. cbn [In] in Hy.
    destruct Hy as [<-|[<-|[<-|[<-|[<-|[<-|[<-|[]]]]]]]]; congruence. }
  enterx F_ex_region cf_ex_region. xstep. rewrite malloc_ok by lia. xstep. change (Z.to_nat 1) with 1%nat. cbn [repeat].
  rewrite (store_ok (m ++ [[VUndef]]) (length m) [VUndef] 0 (VPtr lcb 0)) by (try apply nth_error_app_new; cbn; lia). xstep.
  change (Z.to_nat 0) with 0%nat. change (upd [VUndef] 0 (VPtr lcb 0)) with [VPtr lcb 0]. rewrite upd_app_new.
  match goal with |- context [load ?mm (length m) 0] => remember mm as m2 eqn:Em2 end.
  assert (Old2 : forall y, (y < length m)%nat -> nth_error m2 y = nth_error m y) by (intros y Hy; subst m2; apply nth_error_app_old; exact Hy).
  assert (Hlp : load m2 (length m) 0 = Ok (VPtr lcb 0)) by (unfold load; subst m2; rewrite nth_error_app_new; reflexivity).
  rewrite Hlp. xstep.
  assert (Hloc2 : str_at m2 lcb []) by (apply (str_at_same m m2 _ _ Hloc), Old2, Lall; cbn; tauto).
  assert (Hpct2 : str_at m2 G_lit_25_1 [37%N]) by (apply (str_at_same m m2 _ _ Hpct), Old2, Lall; cbn; tauto).
  rewrite (w_strcmp m2 G_lit_25_1 [37%N] lcb [] Hpct2 Hloc2) by (repeat constructor; lia). xstep.
  change (str_cmp [37%N] []) with 1. xstep. rewrite Hlp. xstep.
  rewrite (load_str m2 lcb [] _ 0 Hloc2) by (try reflexivity; cbn; lia). xstep. cbn [nthb nth]. change (wrap I8 (Z.of_N 0)) with 0. xstep.
  assert (Hx2 : cell_at m2 G_xrow x) by (unfold cell_at; rewrite Old2 by (apply Lall; cbn; tauto); exact Hx).
  rewrite (load_cell m2 G_xrow x Hx2). xstep. repeat rewrite (wrap_I32_id x Ix).
  assert (Hb2 : nth_error m2 bb = Some [vb]) by (rewrite Old2 by (apply Lall; cbn; tauto); exact Hb).
  rewrite (store_ok m2 bb [vb] 0 (VInt x) Hb2) by (cbn; lia). xstep. change (Z.to_nat 0) with 0%nat. change (upd [vb] 0 (VInt x)) with [VInt x].
  assert (Lbb : (bb < length m2)%nat) by (apply nth_error_Some; congruence).
  match goal with |- context [mkst _ (upd m2 bb ?v)] => remember (upd m2 bb v) as m3 eqn:Em3 end.
  assert (Old3 : forall y, y <> bb -> nth_error m3 y = nth_error m2 y) by (intros y Hy; subst m3; apply mem_upd_other; assumption).
  assert (Hx3 : cell_at m3 G_xrow x) by (unfold cell_at; rewrite Old3 by (intro X; apply Nb; rewrite <- X; cbn; tauto); exact Hx2).
  assert (A3 : buf0 m3 gb pv bl ts).
  { apply (buf0_same m _ _ _ _ _ A). rewrite Old3 by (intro X; apply Nb; rewrite <- X; cbn; tauto). apply Old2, Lall. cbn; tauto. }
  assert (Hl3 : nth_error m3 bl = Some blk).
  { rewrite Old3 by (intro X; apply Nb; rewrite <- X; cbn; tauto). rewrite Old2 by (apply Lall; cbn; tauto). exact Hl. }
  rewrite (load_cell m3 G_xrow x Hx3). xstep. repeat rewrite (wrap_I32_id x Ix).
  rewrite (call_ex_lbuf ext m3 gb pv bl ts _ fuel A3). xstep. rewrite (call_lbuf_len ext m3 bl blk n _ fuel Hl3 Hn I_n). xstep.
  assert (He3 : nth_error m3 be = Some [ve]) by (rewrite Old3 by congruence; rewrite Old2 by (apply Lall; cbn; tauto); exact He).
  assert (Hfin : forall z, i32 z -> store m3 be 0 (VInt z) = Ok (upd m3 be [VInt z])).
  { intros z Iz. rewrite (store_ok m3 be [ve] 0 _ He3) by (cbn; lia). reflexivity. }
  assert (Lbe : (be < length m3)%nat) by (apply nth_error_Some; congruence).
  assert (Tail : forall z, i32 z ->
     eval (callx ext cprog fuel (S (S d)))
            (EOrElse (EBin OLt I32 (ELoad (Some I32) (EGlob G_xrow)) (EConst 0))
                     (EBin OGt I32 (ELoad (Some I32) (EGlob G_xrow)) (ECall F_lbuf_len [ECall F_ex_lbuf []])))
            (mkst [VPtr lcb 0; VPtr bb 0; VPtr be 0; VPtr (length m) 0; VInt 0; VUndef] (upd m3 be [VInt z]))
     = Ok (VInt (b2z ((x <? 0) || (x >? n))), mkst [VPtr lcb 0; VPtr bb 0; VPtr be 0; VPtr (length m) 0; VInt 0; VUndef] (upd m3 be [VInt z]))).
  { intros z Iz. remember (upd m3 be [VInt z]) as m4 eqn:Em4.
    assert (Old4 : forall y, y <> be -> nth_error m4 y = nth_error m3 y) by (intros y Hy; subst m4; apply mem_upd_other; assumption).
    assert (Hx4 : cell_at m4 G_xrow x) by (unfold cell_at; rewrite Old4 by (intro X; apply Ne; rewrite <- X; cbn; tauto); exact Hx3).
    assert (A4 : buf0 m4 gb pv bl ts) by (apply (buf0_same m3 _ _ _ _ _ A3); apply Old4; intro X; apply Ne; rewrite <- X; cbn; tauto).
    assert (Hl4 : nth_error m4 bl = Some blk) by (rewrite Old4 by (intro X; apply Ne; rewrite <- X; cbn; tauto); exact Hl3).
    xstep. rewrite (load_cell m4 G_xrow x Hx4). xstep. repeat rewrite (wrap_I32_id x Ix).
    destruct (x <? 0); cbn [orb b2z Z.eqb negb]; xstep; [reflexivity|].
    rewrite (load_cell m4 G_xrow x Hx4). xstep. repeat rewrite (wrap_I32_id x Ix).
    rewrite (call_ex_lbuf ext m4 gb pv bl ts _ fuel A4). xstep. rewrite (call_lbuf_len ext m4 bl blk n _ fuel Hl4 Hn I_n). xstep.
    rewrite Z.gtb_ltb. destruct (n <? x); reflexivity. }
  destruct (x =? n); cbn [b2z Z.eqb negb]; xstep.
  - rewrite (load_cell m3 G_xrow x Hx3). xstep. repeat rewrite (wrap_I32_id x Ix). rewrite (Hfin x Ix). cbn [bind locals memm]. rewrite exec_return. cbn [eval_opt]. rewrite (Tail x Ix). subst m3 m2. reflexivity.
  - rewrite (load_cell m3 G_xrow x Hx3). xstep. repeat rewrite (wrap_I32_id x Ix). rewrite (chk_I32 (x + 1) Ix1). xstep. repeat rewrite (wrap_I32_id (x + 1) Ix1). rewrite (Hfin (x + 1) Ix1). cbn [bind locals memm].
    rewrite exec_return. cbn [eval_opt]. rewrite (Tail (x + 1) Ix1). subst m3 m2. reflexivity.
Qed.
