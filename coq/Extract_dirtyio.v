(* Extract_dirtyio.v -- extraction of the C02 model with failing writes (DirtyIoDefs.v on top of DirtyDefs.v and IoDefs.v)
   to OCaml (ExtrOcamlBasic only). *)
From Coq Require Import List NArith ZArith Extraction ExtrOcamlBasic.
From NV Require Import UndoDefs DirtyDefs DirtyIoDefs DirtyAllDefs.
From NV Require IoDefs.
Definition all_types : nat * N * Z := (0%nat, 0%N, 0%Z).
Extraction "dirtyio_model.ml" all_types ebuf_open run_dop dirty_flag fwrite fec_quit fquit_loop frun fopen fe fpath fts
  IoDefs.fs_content IoDefs.fs_mtime
  ec_quit_n quit_n head_write nbuf_new nbuf_open nrun noccupied.
