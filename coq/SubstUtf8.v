(* SubstUtf8.v -- C14: a substitution keeps a valid UTF-8 line valid, given a matcher whose offsets
   lie on character boundaries. *)
From Coq Require Import List NArith ZArith Bool Lia ZifyBool ZifyNat ZifyN.
From NV Require Import Bytes UcDefs UcSpec UcProps UcSegProps SubstDefs SubstProps.
Import ListNotations.
Local Open Scope N_scope.

Lemma valid_app a b : valid a -> valid b -> valid (a ++ b).
Proof.
  intros (ca & Ha & ->) (cb & Hb & ->). exists (ca ++ cb). split; [now apply Forall_app|]. now rewrite chars_app.
Qed.
Lemma valid_nil : valid [].
Proof. exists []. split; [constructor|reflexivity]. Qed.
Lemma valid_chars l : Forall scalar l -> valid (chars l).
Proof. intro H. exists l. now split. Qed.

Lemma valid_encode c : scalar c -> valid (encode c).
Proof. intro H. exists [c]. split; [now constructor|]. cbn. now rewrite app_nil_r. Qed.

Lemma encode_cases c : scalar c ->
  (c < 128 /\ encode c = [c]) \/
  (128 <= c /\ exists d0 ds, encode c = d0 :: ds /\ 192 <= d0 /\ Forall (fun b => 128 <= b) ds).
Proof.
  intros Hs. unfold encode. destruct (c <? 128) eqn:E1; [left; split; [lia|reflexivity]|]. right. split; [lia|].
  destruct (c <? 2048); [|destruct (c <? 65536)]; eexists; eexists; (split; [reflexivity|]); split; try lia;
    repeat constructor; lia.
Qed.

Section Utf8.
  Variable find : bytes -> bool -> option (list grp).
  Variable rep : bytes.
  Variable gflag : bool.

  (* a group is unset or spans whole characters of the line chars l *)
  Definition wf_grp (l : list N) (g : grp) : Prop :=
    g = unset \/ exists a b, (a <= b)%nat /\ (b <= length l)%nat /\
                 g = (Z.of_nat (off_of l a), Z.of_nat (off_of l b)).
  Definition wf_find : Prop := forall l nb offs, Forall scalar l ->
    find (chars l) nb = Some offs -> Forall (wf_grp l) offs.

  Lemma off_of_split l a b : (a <= b)%nat -> off_of l b = (off_of l a + off_of (skipn a l) (b - a))%nat.
  Proof.
    intro H. unfold off_of. rewrite <- app_length, <- chars_app. f_equal. f_equal.
    rewrite <- (firstn_skipn a l) at 1. rewrite firstn_app, firstn_firstn, firstn_length.
    replace (Nat.min b a) with a by lia.
    destruct (Nat.le_gt_cases a (length l)).
    - replace (Nat.min a (length l)) with a by lia. reflexivity.
    - rewrite (skipn_all2 l) by lia. rewrite !firstn_nil. reflexivity.
  Qed.

  Lemma grp_text_valid l g t : Forall scalar l -> wf_grp l g -> grp_text (chars l) g = Some t -> valid t.
  Proof.
    intros Hl [->|(a & b & Hab & Hb & ->)] H.
    - cbn in H. inversion H. apply valid_nil.
    - unfold grp_text in H.
      destruct (Z.of_nat (off_of l b) - Z.of_nat (off_of l a) <? 0)%Z; [discriminate|].
      destruct (Z.of_nat (off_of l b) - Z.of_nat (off_of l a) =? 0)%Z; [inversion H; apply valid_nil|].
      destruct (_ || _); [discriminate|]. inversion H; subst t; clear H.
      rewrite Nat2Z.id, skipn_off_of.
      replace (Z.to_nat (Z.of_nat (off_of l b) - Z.of_nat (off_of l a))) with (off_of (skipn a l) (b - a)).
      2:{ rewrite (off_of_split l a b Hab). lia. }
      rewrite firstn_off_of. apply valid_chars. apply Forall_firstn', Forall_skipn', Hl.
  Qed.

  Lemma expand_pre pre s ln offs : Forall (fun b => b <> 92) pre ->
    expand (pre ++ s) ln offs = opt_app pre (expand s ln offs).
  Proof.
    induction 1 as [|c pre Hc Hp IH].
    - cbn. destruct (expand s ln offs); reflexivity.
    - cbn [app expand]. destruct (N.eqb_spec c 92); [contradiction|]. rewrite IH.
      destruct (expand s ln offs); reflexivity.
  Qed.

  Lemma nth_wf l offs k : Forall (wf_grp l) offs -> wf_grp l (nth k offs unset).
  Proof.
    intro H. destruct (Nat.lt_ge_cases k (length offs)).
    - rewrite Forall_forall in H. apply H, nth_In. assumption.
    - rewrite nth_overflow by assumption. now left.
  Qed.

  Lemma expand_valid l offs : Forall scalar l -> Forall (wf_grp l) offs ->
    forall n rs, (length rs <= n)%nat -> Forall scalar rs ->
    forall t, expand (chars rs) (chars l) offs = Some t -> valid t.
  Proof.
    intros Hl Ho. induction n as [|n IH]; intros rs Hn Hrs t H.
    { destruct rs; [|cbn in Hn; lia]. cbn in H. inversion H. apply valid_nil. }
    destruct rs as [|c rs1]; [cbn in H; inversion H; apply valid_nil|].
    inversion Hrs as [|? ? Hc Hrs1]; subst. rewrite chars_cons in H.
    destruct (N.eq_dec c 92) as [->|Hne].
    - (* a backslash *)
      change (encode 92) with [92] in H. cbn [app] in H.
      destruct rs1 as [|d rs2].
      { cbn in H. inversion H. change [92] with (encode 92). now apply valid_encode. }
      inversion Hrs1 as [|? ? Hd Hrs2]; subst. rewrite chars_cons in H.
      destruct (encode_cases d Hd) as [[Hlt Ed]|(Hge & d0 & ds & Ed & Hd0 & Hds)]; rewrite Ed in H.
      + cbn [app expand] in H. replace (92 =? 92) with true in H by reflexivity.
        destruct (is_digit d) eqn:Edig.
        * destruct (grp_text (chars l) (nth (N.to_nat (d - 48)) offs unset)) as [gt|] eqn:Eg; [|discriminate].
          destruct (expand (chars rs2) (chars l) offs) as [t2|] eqn:E2; [|discriminate].
          cbn in H. inversion H; subst t. apply valid_app.
          -- eapply grp_text_valid; [exact Hl|apply nth_wf, Ho|exact Eg].
          -- apply (IH rs2); [cbn in Hn; lia|assumption|exact E2].
        * destruct (expand (chars rs2) (chars l) offs) as [t2|] eqn:E2; [|discriminate].
          cbn in H. inversion H; subst t. apply (valid_app [d]).
          -- rewrite <- Ed. now apply valid_encode.
          -- apply (IH rs2); [cbn in Hn; lia|assumption|exact E2].
      + cbn [app expand] in H. replace (92 =? 92) with true in H by reflexivity.
        assert (Edig : is_digit d0 = false) by (unfold is_digit; lia). rewrite Edig in H.
        rewrite expand_pre in H by (eapply Forall_impl; [|exact Hds]; cbn; intros; lia).
        destruct (expand (chars rs2) (chars l) offs) as [t2|] eqn:E2; [|discriminate].
        cbn in H. inversion H; subst t. change (d0 :: ds ++ t2) with ((d0 :: ds) ++ t2). apply valid_app.
        -- rewrite <- Ed. now apply valid_encode.
        -- apply (IH rs2); [cbn in Hn; lia|assumption|exact E2].
    - (* any other character is copied *)
      assert (Hno : Forall (fun b => b <> 92) (encode c)).
      { destruct (encode_cases c Hc) as [[Hlt Ec]|(Hge & d0 & ds & Ec & Hd0 & Hds)]; rewrite Ec.
        - repeat constructor. exact Hne.
        - constructor; [lia|]. eapply Forall_impl; [|exact Hds]. cbn; intros; lia. }
      rewrite expand_pre in H by exact Hno.
      destruct (expand (chars rs1) (chars l) offs) as [t1|] eqn:E1; [|discriminate].
      cbn in H. inversion H; subst t. apply valid_app.
      + now apply valid_encode.
      + apply (IH rs1); [cbn in Hn; lia|assumption|exact E1].
  Qed.

  Lemma one_match_valid l rs offs o ln2 : Forall scalar l -> Forall scalar rs -> Forall (wf_grp l) offs ->
    one_match (chars rs) (chars l) offs = Some (o, ln2) ->
    valid o /\ exists l2, Forall scalar l2 /\ ln2 = chars l2.
  Proof.
    intros Hl Hrs Ho. unfold one_match.
    destruct (nth_wf l offs 0 Ho) as [->|(a & b & Hab & Hb & ->)]; [cbn; discriminate|].
    destruct (_ || _); [discriminate|].
    destruct (expand (chars rs) (chars l) offs) as [t|] eqn:Et; [|discriminate].
    assert (Ht : valid t) by (eapply (expand_valid l offs Hl Ho (length rs) rs); eauto).
    rewrite !Nat2Z.id, firstn_off_of, skipn_off_of.
    assert (Hpre : valid (chars (firstn a l))) by (apply valid_chars, Forall_firstn', Hl).
    assert (Hl2 : Forall scalar (skipn b l)) by (apply Forall_skipn', Hl).
    destruct (Z.of_nat (off_of l b) <=? Z.of_nat (off_of l a))%Z.
    - unfold step_char. destruct (skipn b l) as [|c0 l'] eqn:El.
      + cbn. discriminate.
      + inversion Hl2 as [|? ? Hc0 Hl']; subst. rewrite chars_cons.
        destruct (uc_len_code_encode c0 (chars l') Hc0) as [Hlen _]. rewrite Hlen.
        pose proof (encode_nonempty c0 Hc0) as Hne.
        replace (Nat.max 1 (length (encode c0))) with (length (encode c0)) by lia.
        rewrite app_length.
        destruct (length (encode c0) + length (chars l') <? length (encode c0))%nat eqn:E; [lia|].
        rewrite firstn_app_exact, skipn_app_exact. intro H. inversion H; subst o ln2. split.
        * apply valid_app; [exact Hpre|]. apply valid_app; [exact Ht|]. now apply valid_encode.
        * exists l'. now split.
    - intro H. inversion H; subst o ln2. split.
      + now apply valid_app.
      + exists (skipn b l). now split.
  Qed.

  Lemma scan_valid rs : wf_find -> Forall scalar rs ->
    forall fuel nb l out k, Forall scalar l ->
    scan find (chars rs) gflag fuel nb (chars l) = Some (Some (out, k)) -> valid out.
  Proof.
    intros Hwf Hrs. induction fuel as [|f IH]; intros nb l out k Hl H; [discriminate|]. cbn [scan] in H.
    destruct (find (chars l) nb) as [offs|] eqn:Ef.
    - specialize (Hwf l nb offs Hl Ef).
      destruct (one_match (chars rs) (chars l) offs) as [[o ln2]|] eqn:Em; [|discriminate].
      destruct (one_match_valid l rs offs o ln2 Hl Hrs Hwf Em) as (Hvo & l2 & Hl2 & ->).
      destruct (stops gflag (chars l2)).
      + inversion H; subst. apply valid_app; [exact Hvo|now apply valid_chars].
      + destruct (scan find (chars rs) gflag f true (chars l2)) as [[[o2 k2]|]|] eqn:Es; try discriminate.
        inversion H; subst. apply valid_app; [exact Hvo|]. eapply IH; eassumption.
    - inversion H; subst. now apply valid_chars.
  Qed.

  Theorem utf8_preserved cs rs new : wf_find -> Forall scalar cs -> Forall scalar rs ->
    subst_line find (chars rs) gflag (chars cs) = Changed new -> valid new.
  Proof.
    intros Hwf Hcs Hrs. unfold subst_line.
    destruct (scan find (chars rs) gflag (S (length (chars cs))) false (chars cs)) as [[[o [|k]]|]|] eqn:E; try discriminate.
    intro H. inversion H; subst. exact (scan_valid rs Hwf Hrs _ _ cs _ _ Hcs E).
  Qed.
End Utf8.
