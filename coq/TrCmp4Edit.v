(* TrCmp4Edit.v -- C04, the two halves composed (part 3): lbuf_edit on the translated C text with the translated lbuf_replace in
   place of the oracle (tr_lbuf_edit_full; lbuf_cp stays an oracle: cp_oracle of TrUndoOpt.v -- lbuf_cp is not translated), and
   the property-level corollary on the C text, tr_undo_inverts_edit: translated lbuf_edit, then translated lbuf_undo, then
   translated lbuf_redo -- the memory after the undo represents the ORIGINAL text (the line blocks hold the original lines
   byte for byte), the memory after the redo the edited text; for an edit that is the only one of its command (the record
   below it, if any, has another sequence number).
   The caller's text: a string block that is neither the struct, nor the log array, nor a log string, nor part of the line
   table (carried through lbuf_opt inside the table predicate: Tcb), shorter than 2 GB.  The capacity is carried the same way.
   The mark rows at the time lbuf_replace is entered are those lbuf_opt leaves (it copies row '^' to row '*'); TrUndoOpt.v
   proves that they are integers, not which, so the row_fits condition is stated on the memory lbuf_opt returns (Hmarks). *)
From Coq Require Import List ZArith NArith Bool Lia.
From NV Require Import Bytes GenConsts CLite CLiteProps GenCFuncs CLiteTac CLiteExt TrLbufBase UndoDefs UndoProps TrUndoBase TrUndo TrUndoOpt TrUndoEdit.
From NV Require Import TrLbufMarks TrSplice TrSpliceMarks TrSpliceAll TrSpliceModels TrCmp4Str TrCmp4Rep TrCmp4 TrCmp4Loop.
From NV Require IoDefs IoProps TrLbuf.
Import ListNotations.
Local Open Scope Z_scope.

(* the table predicate with two more facts that lbuf_opt must not lose: the caller's block is outside, the capacity *)
Definition Tcb (bb : option nat) (cap0 : nat) : Tpred := fun m cs fp t =>
  Tc m cs fp t /\ (forall b, bb = Some b -> ~ In b fp) /\ nth 3 cs VUndef = VInt (Z.of_nat cap0).
Lemma Tcb_frame bb cap0 : T_frame (Tcb bb cap0).
Proof. intros m m' cs fp t (H1 & H2 & H3) K. split; [apply (Tc_frame m m' cs fp t H1 K)|split; assumption]. Qed.
Lemma urep_weaken (T T' : Tpred) m bl blk bh hblk lb : (forall m cs fp t, T m cs fp t -> T' m cs fp t) ->
  urep T m bl blk bh hblk lb -> urep T' m bl blk bh hblk lb.
Proof.
  intros W [Hb L I Cn Rn Cq Ch Csz Cnn Cu Cz Cl Rg Hh Hl He Ho (fp & Ht & Hfp)]. constructor; try assumption.
  exists fp. split; [apply W; exact Ht|exact Hfp].
Qed.
Definition blk_of (v : val) : option nat := match v with VPtr b _ => Some b | _ => None end.

Section EditFull.
  Variable ext : nat -> list val -> mem -> res (val * mem).
  Variables (fuelR dR : nat).
  Hypothesis Hext : ext_is_replace ext fuelR dR.
  Variables (d fuel : nat).

  Theorem tr_lbuf_edit_full (m : mem) bl (blk : block) bh (hblk : block) lb (bufv : val) buf b e cap0 cap' :
    cp_oracle ext Tc bl -> urep Tc m bl blk bh hblk lb -> bufarg m bl bh bufv buf ->
    (forall bb o, bufv = VPtr bb o -> ~ In bb (log_blocks hblk 0 (length (hist lb)))) ->
    (forall bb o fp, bufv = VPtr bb o -> Tc m (tcells blk) fp (ln lb) -> ~ In bb fp) ->
    (forall bb s o, bufv = VPtr bb o -> str_at m bb s -> Z.of_nat (length s) + 2 <= 2147483647) ->
    (b <= e)%nat -> i31 e -> i31 (length (ln lb) + linecount buf) -> Z.of_nat (hist_sz lb) * 2 <= 2147483647 ->
    (length (hist lb) - hist_u lb < fuel)%nat -> (linecount buf < fuel)%nat -> (28 < fuel)%nat ->
    let b' := Nat.min b (length (ln lb)) in let e' := Nat.min e (length (ln lb)) in
    let need := Z.of_nat (length (ln lb)) + Z.of_nat (linecount buf) - Z.of_nat (e' - b') in
    nth_error blk L_ln_sz = Some (VInt (Z.of_nat cap0)) -> IoDefs.grow (IoDefs.grow_fuel need) need (Z.of_nat cap0) = Some cap' -> cap' <= 2147483647 ->
    (splice_fuel (length (ln lb)) (linecount buf) (e' - b') <= fuelR)%nat ->
    (* the mark rows lbuf_opt leaves fit *)
    (forall (m1 : mem) (blk1 : block),
       callx ext cprog fuel (S (S (S (S d)))) F_lbuf_opt [VPtr bl 0; bufv; VInt (Z.of_nat b'); VInt (Z.of_nat (e' - b'))] m = Ok (VUndef, m1) ->
       nth_error m1 bl = Some blk1 ->
       forall k, (k < 32)%nat -> exists z, nth_error blk1 k = Some (VInt z) /\ row_fits (Z.of_nat b') (Z.of_nat (e' - b')) (Z.of_nat (linecount buf)) z) ->
    if Nat.eqb b' e' && is_none buf
    then callx ext cprog fuel (S (S (S (S (S d))))) F_lbuf_edit [VPtr bl 0; bufv; VInt (Z.of_nat b); VInt (Z.of_nat e)] m = Ok (VUndef, m)
    else exists (m' : mem) (blk' : block) bh' (hblk' : block),
           callx ext cprog fuel (S (S (S (S (S d))))) F_lbuf_edit [VPtr bl 0; bufv; VInt (Z.of_nat b); VInt (Z.of_nat e)] m = Ok (VUndef, m') /\
           urep Tc m' bl blk' bh' hblk' (lbuf_edit lb buf b e).
  Proof.
    intros HC R Hbuf Hnb Hout Hlen2 Hbe Hie Hin Hsz2 Hf1 Hf2 Hf3 b' e' need Ccap Hgrow Hcap' HfR Hmarks.
    pose proof R as [Hb L I Cn Rn Cq Ch Csz Cnn Cu Cz Cl Rg Hh Hl He Ho Ht].
    set (n := length (ln lb)) in *.
    assert (Hbv : bufv = VInt 0 /\ buf = None \/ (exists bb o, bufv = VPtr bb o) /\ exists t, buf = Some t).
    { destruct buf as [t|]; [right|left; auto]. destruct Hbuf as (bb & s & o & -> & _). eauto. }
    assert (HcA : exec (callx ext cprog fuel (S (S (S (S d))))) fuel
               (SIf (EBin OGt I32 (ELocal 2) (ELoad (Some I32) (EPtrAdd 1 (ELocal 0) (EConst 66)))) (SExpr (ESetLocal 2 (ELoad (Some I32) (EPtrAdd 1 (ELocal 0) (EConst 66))))) SSkip)
               (mkst [VPtr bl 0; bufv; VInt (Z.of_nat b); VInt (Z.of_nat e)] m) = ONormal (mkst [VPtr bl 0; bufv; VInt (Z.of_nat b'); VInt (Z.of_nat e)] m)).
    { xstep. xfld Hb Cn. rewrite !(wrap_I32_id (Z.of_nat n)) by (unfold i31 in *; lia). unfold b'. fold n.
      destruct (Z.ltb_spec (Z.of_nat n) (Z.of_nat b)); xstep; [xfld Hb Cn; rewrite !(wrap_I32_id (Z.of_nat n)) by (unfold i31 in *; lia); rewrite Nat.min_r by lia|rewrite Nat.min_l by lia]; reflexivity. }
    assert (HcB : exec (callx ext cprog fuel (S (S (S (S d))))) fuel
               (SIf (EBin OGt I32 (ELocal 3) (ELoad (Some I32) (EPtrAdd 1 (ELocal 0) (EConst 66)))) (SExpr (ESetLocal 3 (ELoad (Some I32) (EPtrAdd 1 (ELocal 0) (EConst 66))))) SSkip)
               (mkst [VPtr bl 0; bufv; VInt (Z.of_nat b'); VInt (Z.of_nat e)] m) = ONormal (mkst [VPtr bl 0; bufv; VInt (Z.of_nat b'); VInt (Z.of_nat e')] m)).
    { xstep. xfld Hb Cn. rewrite !(wrap_I32_id (Z.of_nat n)) by (unfold i31 in *; lia). unfold e'. fold n.
      destruct (Z.ltb_spec (Z.of_nat n) (Z.of_nat e)); xstep; [xfld Hb Cn; rewrite !(wrap_I32_id (Z.of_nat n)) by (unfold i31 in *; lia); rewrite Nat.min_r by lia|rewrite Nat.min_l by lia]; reflexivity. }
    assert (Hb'e' : (b' <= e')%nat /\ (e' <= n)%nat) by (unfold b', e'; fold n; lia). destruct Hb'e' as (Hle & Hen).
    assert (Hedit : Nat.eqb b' e' && is_none buf = false -> lbuf_edit lb buf b e = lbuf_replace (lbuf_opt lb buf b' (e' - b')) buf b' (e' - b')).
    { intro X. unfold lbuf_edit. fold n b' e'. rewrite X. reflexivity. }
    assert (Htail : exists (m' : mem) (blk' : block) bh' (hblk' : block),
              exec (callx ext cprog fuel (S (S (S (S d))))) fuel
                (SSeq (SExpr (ECall F_lbuf_opt [ELocal 0; ELocal 1; ELocal 2; EBin OSub I32 (ELocal 3) (ELocal 2)]))
                      (SExpr (ECall X_lbuf_replace [ELocal 0; ELocal 1; ELocal 2; EBin OSub I32 (ELocal 3) (ELocal 2)])))
                (mkst [VPtr bl 0; bufv; VInt (Z.of_nat b'); VInt (Z.of_nat e')] m)
              = ONormal (mkst [VPtr bl 0; bufv; VInt (Z.of_nat b'); VInt (Z.of_nat e')] m') /\
              urep Tc m' bl blk' bh' hblk' (lbuf_replace (lbuf_opt lb buf b' (e' - b')) buf b' (e' - b'))).
    { assert (Hpn : i31 (b' + (e' - b'))) by (unfold i31 in *; lia).
      set (T2 := Tcb (blk_of bufv) cap0).
      assert (R0 : urep T2 m bl blk bh hblk lb).
      { constructor; try assumption. destruct Ht as (fp & HT & Hfp). exists fp. split; [|exact Hfp]. split; [exact HT|]. split.
        - intros bb Ebb. destruct bufv as [| |b0 o0]; cbn [blk_of] in Ebb; try discriminate. injection Ebb as ->. apply (Hout bb o0 fp eq_refl HT).
        - unfold tcells. cbn [nth]. apply hc_of_cell. exact Ccap. }
      assert (HC2 : cp_oracle ext T2 bl).
      { intros m0 blk0 bh0 hblk0 lb0 b0 e0 R00 He0. apply (HC m0 blk0 bh0 hblk0 lb0 b0 e0); [|exact He0].
        apply (urep_weaken T2 Tc); [|exact R00]. intros ? ? ? ? (X & _). exact X. }
      destruct (tr_lbuf_opt ext d fuel T2 (Tcb_frame _ _) m bl blk bh hblk lb bufv buf b' (e' - b')%nat HC2 R0 Hbuf Hnb Hpn Hsz2 Hf1 Hf2 Hf3)
        as (m1 & blk1 & bh1 & hblk1 & C1 & R1 & L1 & K1 & _ & _).
      assert (R1c : urep Tc m1 bl blk1 bh1 hblk1 (lbuf_opt lb buf b' (e' - b'))).
      { apply (urep_weaken T2 Tc); [|exact R1]. intros ? ? ? ? (X & _). exact X. }
      destruct (u_tab _ _ _ _ _ _ _ R1) as (fp1 & (HT1 & Hbb1 & Hcap1) & Hfp1). cbn [lbuf_opt ln] in HT1.
      (* the caller's text is still where it was *)
      assert (Harg : text_arg m1 bl fp1 bufv buf).
      { unfold text_arg. destruct buf as [t|]; cbn [bufarg txt is_null] in *; [|subst bufv; constructor].
        destruct Hbuf as (bb & s & o & -> & Hs & Hn & Hos & Hm & -> & N1 & N2). apply stp_ptr.
        - apply str_pstr. unfold str_at in *. rewrite K1; [exact Hs|apply nth_error_Some; congruence|].
          unfold owned. intros [X|[X|X]]; [congruence|congruence|apply (Hnb bb _ eq_refl X)].
        - exact Hn.
        - exact Hos.
        - apply (Hlen2 bb s _ eq_refl Hs).
        - intros [X|X]; [congruence|]. apply (Hbb1 bb eq_refl X). }
      assert (Hsp : splice_ok (lbuf_opt lb buf b' (e' - b')) buf b' (e' - b')).
      { unfold splice_ok. cbn [lbuf_opt ln]. fold n. split; [lia|exact Hin]. }
      assert (Hfits : fits blk1 (length (ln (lbuf_opt lb buf b' (e' - b')))) buf b' (e' - b') cap').
      { cbn [lbuf_opt ln]. fold n. split; [|split; [exists cap0; split|exact Hcap']].
        - apply (Hmarks m1 blk1 C1 (u_blk _ _ _ _ _ _ _ R1)).
        - apply (cell_of_hc blk1 67 _ (u_len _ _ _ _ _ _ _ R1) ltac:(lia)). unfold tcells in Hcap1. cbn [nth] in Hcap1. exact Hcap1.
        - exact Hgrow. }
      destruct (replace_sim m1 bl blk1 bh1 hblk1 _ fp1 bufv buf b' (e' - b')%nat cap' dR fuelR R1c HT1 (fun b0 Hb0 => proj1 (Hfp1 b0 Hb0)) Harg Hsp Hfits HfR)
        as (m2 & blk2 & fp2 & C2 & R2 & _).
      assert (C2x : ext X_lbuf_replace [VPtr bl 0; bufv; VInt (Z.of_nat b'); VInt (Z.of_nat (e' - b'))] m1 = Ok (VUndef, m2)) by (rewrite Hext; exact C2).
      exists m2, blk2, bh1, hblk1. split; [|exact R2].
      clear Hbuf Hnb Hout Hlen2 Harg R0 Hmarks.
      destruct Hbv as [(Ev & _)|((bb & o & Ev) & _)]; rewrite Ev in *;
        (xstep; (rewrite chk_I32 by (unfold i31 in *; lia)); xstep; replace (Z.of_nat e' - Z.of_nat b') with (Z.of_nat (e' - b')) by lia;
         rewrite C1; xstep; (rewrite chk_I32 by (unfold i31 in *; lia)); xstep; replace (Z.of_nat e' - Z.of_nat b') with (Z.of_nat (e' - b')) by lia;
         rewrite callx_S, x_lbuf_replace_none, C2x; reflexivity). }
    destruct (Nat.eqb b' e' && is_none buf) eqn:Ecase.
    - apply andb_prop in Ecase. destruct Ecase as (E1 & E2). apply Nat.eqb_eq in E1. destruct buf as [t|]; [discriminate|].
      cbn [bufarg] in Hbuf. subst bufv.
      rewrite callx_S. cbn [nth_error cprog F_lbuf_edit cf_lbuf_edit fn_nparams fn_nlocals fn_body length Nat.eqb Nat.sub repeat app].
      rewrite exec_seq, HcA, exec_seq, HcB.
      xstep. rewrite E1, Z.eqb_refl. xstep. reflexivity.
    - destruct Htail as (m' & blk' & bh' & hblk' & C & R'). exists m', blk', bh', hblk'. split; [|rewrite (Hedit eq_refl); exact R'].
      rewrite callx_S. cbn [nth_error cprog F_lbuf_edit cf_lbuf_edit fn_nparams fn_nlocals fn_body length Nat.eqb Nat.sub repeat app].
      rewrite exec_seq, HcA, exec_seq, HcB.
      rewrite exec_seq, exec_if. xcbn.
      apply andb_false_iff in Ecase.
      destruct Hbv as [(-> & ->)|((bb & o & ->) & (t & ->))].
      + destruct Ecase as [Ec|Ec]; [|discriminate]. apply Nat.eqb_neq in Ec.
        destruct (Z.eqb_spec (Z.of_nat b') (Z.of_nat e')); [lia|]. cbn [b2z negb truth bind Z.eqb]. rewrite exec_skip, C. reflexivity.
      + destruct (Z.eqb_spec (Z.of_nat b') (Z.of_nat e')); cbn [b2z negb truth bind Z.eqb]; rewrite exec_skip, C; reflexivity.
  Qed.
End EditFull.

(* ------------------------------------------------------------------ the model: undo inverts the one edit of a command, redo repeats it *)
Definition lone_edit (lb : lbuf) : Prop := hist_u lb = 0%nat \/ seq_at (hist lb) (hist_u lb - 1) <> useq lb.

Lemma edit_then_undo_redo lb buf b e : Forall line_wf (ln lb) -> (hist_u lb <= length (hist lb))%nat -> lone_edit lb ->
  let b' := Nat.min b (length (ln lb)) in let e' := Nat.min e (length (ln lb)) in
  (b <= e)%nat -> Nat.eqb b' e' && is_none buf = false ->
  let lb1 := lbuf_edit lb buf b e in
  exists lb2 lb3, lbuf_undo lb1 = Some lb2 /\ ln lb2 = ln lb /\ lbuf_redo lb2 = Some lb3 /\ ln lb3 = ln lb1 /\
    one_undo lb1 /\ one_redo lb2 /\ hist lb2 = hist lb1 /\ hist_u lb2 = hist_u lb /\ hist lb1 = firstn (hist_u lb) (hist lb) ++ [new_entry lb buf b' (e' - b')] /\
    hist_u lb1 = S (hist_u lb) /\ lb2 = undo1 lb1 /\ lb3 = redo1 lb2.
Proof.
  intros Hwf Hu Hlone b' e' Hbe Hcase lb1.
  set (n := length (ln lb)) in *. set (nd := (e' - b')%nat). set (u := hist_u lb) in *.
  assert (E1 : lb1 = edit_core lb buf b' nd) by (unfold lb1, lbuf_edit; fold n b' e'; rewrite Hcase; reflexivity).
  set (lo := new_entry lb buf b' nd).
  assert (Hh1 : hist lb1 = firstn u (hist lb) ++ [lo]) by (rewrite E1; reflexivity).
  assert (Hu1 : hist_u lb1 = S u) by (rewrite E1; reflexivity).
  assert (Lf : length (firstn u (hist lb)) = u) by (rewrite firstn_length; lia).
  assert (Hlo : nth u (hist lb1) dflt = lo) by (rewrite Hh1, app_nth2 by lia; rewrite Lf, Nat.sub_diag; reflexivity).
  assert (Hbn : (b' + nd <= n)%nat) by (unfold nd, b', e'; lia).
  (* the deleted lines, re-split, are the lines *)
  assert (Hdel : lines_opt (del lo) = slice (ln lb) b' nd).
  { unfold lo, new_entry. cbn [del]. destruct (Nat.eqb_spec nd 0) as [->|Hnz]; [unfold slice; reflexivity|].
    cbn [lines_opt]. unfold lbuf_cp. replace (b' + nd - b')%nat with nd by lia. apply lines_of_concat.
    unfold slice. apply Forall_firstn'. apply Forall_skipn'. exact Hwf. }
  set (lb2 := undo1 lb1).
  assert (Hln2 : ln lb2 = ln lb).
  { unfold lb2, undo1. rewrite Hu1. replace (S u - 1)%nat with u by lia. rewrite Hlo. cbn [lbuf_replace set_ln set_hu ln].
    rewrite Hdel. rewrite E1. rewrite edit_core_ln. unfold lo, new_entry. cbn [pos n_ins]. unfold linecount. apply replace_inverse. exact Hbn. }
  assert (Hh2 : hist lb2 = hist lb1) by reflexivity.
  assert (Hu2 : hist_u lb2 = u) by (unfold lb2, undo1; rewrite Hu1; cbn [lbuf_replace set_ln set_hu hist_u]; lia).
  assert (Hq : seq_at (hist lb1) u = useq lb) by (unfold seq_at; rewrite Hlo; reflexivity).
  assert (Hone : one_undo lb1).
  { split; [rewrite Hu1; lia|]. rewrite Hu1. destruct u as [|u0] eqn:Eu; [left; reflexivity|right].
    replace (S (S u0) - 2)%nat with u0 by lia. replace (S (S u0) - 1)%nat with (S u0) by lia. rewrite Hq.
    rewrite Hh1, seq_at_app1 by lia. rewrite seq_at_firstn by lia.
    assert (Xu : hist_u lb = S u0) by exact Eu.
    destruct Hlone as [X|X]; [lia|]. rewrite Xu in X. replace (S u0 - 1)%nat with u0 in X by lia. exact X. }
  assert (Hundo : lbuf_undo lb1 = Some lb2).
  { unfold lbuf_undo. rewrite Hu1. cbn [Nat.eqb]. replace (S u - 1)%nat with u by lia. f_equal. cbn [undo_loop].
    rewrite Hu1. change (Nat.ltb 0 (S u)) with true. cbn [andb]. replace (S u - 1)%nat with u by lia. rewrite Z.eqb_refl. fold lb2.
    destruct u as [|u0] eqn:Eu; [reflexivity|]. cbn [undo_loop]. rewrite Hu2. change (Nat.ltb 0 (S u0)) with true. cbn [andb].
    replace (S u0 - 1)%nat with u0 by lia. rewrite Hh2. destruct Hone as (_ & [X|X]); [lia|].
    rewrite Hu1 in X. replace (S (S u0) - 2)%nat with u0 in X by lia. replace (S (S u0) - 1)%nat with (S u0) in X by lia.
    destruct (Z.eqb_spec (seq_at (hist lb1) u0) (seq_at (hist lb1) (S u0))); [contradiction|reflexivity]. }
  set (lb3 := redo1 lb2).
  assert (Hln3 : ln lb3 = ln lb1).
  { unfold lb3, redo1. rewrite Hu2, Hh2, Hlo. cbn [lbuf_replace set_ln set_hu ln]. rewrite Hln2, E1, edit_core_ln. reflexivity. }
  assert (Hl1 : length (hist lb1) = S u) by (rewrite Hh1, app_length, Lf; cbn; lia).
  assert (Honer : one_redo lb2) by (split; [rewrite Hu2, Hh2, Hl1; lia|left; rewrite Hu2, Hh2, Hl1; reflexivity]).
  assert (Hredo : lbuf_redo lb2 = Some lb3).
  { unfold lbuf_redo. rewrite Hu2, Hh2, Hl1. destruct (Nat.eqb_spec u (S u)); [lia|]. f_equal.
    replace (S u - u)%nat with 1%nat by lia. cbn [redo_loop]. rewrite Hu2, Hh2, Hl1.
    destruct (Nat.ltb_spec u (S u)); [|lia]. cbn [andb]. rewrite Z.eqb_refl. reflexivity. }
  exists lb2, lb3. repeat (split; [assumption|]). split; reflexivity.
Qed.

(* ------------------------------------------------------------------ the corollary on the C text *)
Section Chain.
  Variable ext : nat -> list val -> mem -> res (val * mem).
  Variables (fuelR dR : nat).
  Hypothesis Hext : ext_is_replace ext fuelR dR.
  Variables (d fuel : nat).

  Theorem tr_undo_inverts_edit (m : mem) bl (blk : block) bh (hblk : block) lb (bufv : val) buf b e cap0 cap' :
    cp_oracle ext Tc bl -> urep Tc m bl blk bh hblk lb -> bufarg m bl bh bufv buf ->
    (forall bb o, bufv = VPtr bb o -> ~ In bb (log_blocks hblk 0 (length (hist lb)))) ->
    (forall bb o fp, bufv = VPtr bb o -> Tc m (tcells blk) fp (ln lb) -> ~ In bb fp) ->
    (forall bb s o, bufv = VPtr bb o -> str_at m bb s -> Z.of_nat (length s) + 2 <= 2147483647) ->
    (b <= e)%nat -> i31 e -> i31 (length (ln lb) + linecount buf) -> Z.of_nat (hist_sz lb) * 2 <= 2147483647 ->
    (length (hist lb) + 35 < fuel)%nat -> (linecount buf < fuel)%nat ->
    let b' := Nat.min b (length (ln lb)) in let e' := Nat.min e (length (ln lb)) in
    let need := Z.of_nat (length (ln lb)) + Z.of_nat (linecount buf) - Z.of_nat (e' - b') in
    nth_error blk L_ln_sz = Some (VInt (Z.of_nat cap0)) -> IoDefs.grow (IoDefs.grow_fuel need) need (Z.of_nat cap0) = Some cap' -> cap' <= 2147483647 ->
    (splice_fuel (length (ln lb)) (linecount buf) (e' - b') <= fuelR)%nat ->
    (forall (m1 : mem) (blk1 : block),
       callx ext cprog fuel (S (S (S (S d)))) F_lbuf_opt [VPtr bl 0; bufv; VInt (Z.of_nat b'); VInt (Z.of_nat (e' - b'))] m = Ok (VUndef, m1) ->
       nth_error m1 bl = Some blk1 ->
       forall k, (k < 32)%nat -> exists z, nth_error blk1 k = Some (VInt z) /\ row_fits (Z.of_nat b') (Z.of_nat (e' - b')) (Z.of_nat (linecount buf)) z) ->
    (* the edit is a change, the only one of its command, on well-formed lines *)
    Nat.eqb b' e' && is_none buf = false -> lone_edit lb -> Forall line_wf (ln lb) ->
    let lb1 := lbuf_edit lb buf b e in let lb2 := undo1 lb1 in
    undo_ok lb1 -> redo_ok lb2 ->
    (* marks, capacity and text length at the entry of the undo and of the redo, on the memories the run reaches *)
    (forall m1, callx ext cprog fuel (S (S (S (S (S d))))) F_lbuf_edit [VPtr bl 0; bufv; VInt (Z.of_nat b); VInt (Z.of_nat e)] m = Ok (VUndef, m1) ->
       let lo := nth (hist_u lb1 - 1) (hist lb1) dflt in step_ok fuelR bl m1 (length (ln lb1)) (del lo) (pos lo) (n_ins lo)) ->
    (forall m1 m2, callx ext cprog fuel (S (S (S (S (S d))))) F_lbuf_edit [VPtr bl 0; bufv; VInt (Z.of_nat b); VInt (Z.of_nat e)] m = Ok (VUndef, m1) ->
       callx ext cprog fuel (S (S (S (S d)))) F_lbuf_undo [VPtr bl 0] m1 = Ok (VInt 0, m2) ->
       let lo := nth (hist_u lb2) (hist lb2) dflt in step_ok fuelR bl m2 (length (ln lb2)) (ins lo) (pos lo) (n_del lo)) ->
    exists (m1 m2 m3 : mem) (blk2 blk3 : block) bh' (hblk' : block),
      callx ext cprog fuel (S (S (S (S (S d))))) F_lbuf_edit [VPtr bl 0; bufv; VInt (Z.of_nat b); VInt (Z.of_nat e)] m = Ok (VUndef, m1) /\
      callx ext cprog fuel (S (S (S (S d)))) F_lbuf_undo [VPtr bl 0] m1 = Ok (VInt 0, m2) /\
      callx ext cprog fuel (S (S (S (S d)))) F_lbuf_redo [VPtr bl 0] m2 = Ok (VInt 0, m3) /\
      urep Tc m2 bl blk2 bh' hblk' lb2 /\ ln lb2 = ln lb /\
      urep Tc m3 bl blk3 bh' hblk' (redo1 lb2) /\ ln (redo1 lb2) = edit_text (ln lb) buf b e.
  Proof.
    intros HC R Hbuf Hnb Hout Hlen2 Hbe Hie Hin Hsz2 Hf1 Hf2 b' e' need Ccap Hgrow Hcap' HfR Hmarks Hcase Hlone Hwf lb1 lb2 Hok1 Hok2 Hobs1 Hobs2.
    pose proof (u_rng _ _ _ _ _ _ _ R) as (_ & (Hu & _) & _).
    pose proof (tr_lbuf_edit_full ext fuelR dR Hext d fuel m bl blk bh hblk lb bufv buf b e cap0 cap' HC R Hbuf Hnb Hout Hlen2 Hbe Hie Hin Hsz2
                  ltac:(lia) Hf2 ltac:(lia) Ccap Hgrow Hcap' HfR Hmarks) as E.
    cbv zeta in E. fold b' e' in E. rewrite Hcase in E. destruct E as (m1 & blk1 & bh1 & hblk1 & C1 & R1). fold lb1 in R1.
    destruct (edit_then_undo_redo lb buf b e Hwf Hu Hlone Hbe Hcase) as (lb2' & lb3 & Hun & Hln2 & Hre & Hln3 & Hone & Honer & _ & _ & _ & Hu1 & E2 & E3).
    fold lb1 in Hun, Hln3, Hone, Hu1, E2. subst lb2'. fold lb2 in Hun, Hln2, Hre, Honer, E3. subst lb3.
    pose proof (tr_lbuf_undo_full ext fuelR dR Hext bl bh1 hblk1 d fuel m1 blk1 lb1 R1 Hok1
                  (undo_run_fits_one ext fuelR bl hblk1 d fuel m1 lb1 Hone (Hobs1 m1 C1)) ltac:(rewrite Hu1; lia)) as U.
    rewrite Hun in U. destruct U as (m2 & blk2 & C2 & R2).
    pose proof (tr_lbuf_redo_full ext fuelR dR Hext bl bh1 hblk1 d fuel m2 blk2 lb2 R2 Hok2
                  (redo_run_fits_one ext fuelR bl d fuel m2 lb2 Honer (Hobs2 m1 m2 C1 C2))) as V.
    rewrite Hre in V. destruct V as (m3 & blk3 & C3 & R3).
    { destruct Honer as (X & _). pose proof (u_rng _ _ _ _ _ _ _ R2) as (_ & (Y & Z) & _).
      assert (length (hist lb2) = S (hist_u lb)) by (change (hist lb2) with (hist lb1); unfold lb1, lbuf_edit; fold b' e'; rewrite Hcase; cbn [lbuf_replace set_ln lbuf_opt hist]; rewrite app_length, firstn_length; cbn [length]; lia).
      lia. }
    exists m1, m2, m3, blk2, blk3, bh1, hblk1. repeat (split; [assumption|]).
    rewrite Hln3. unfold lb1, lbuf_edit, edit_text. fold b' e'. rewrite Hcase. reflexivity.
  Qed.
End Chain.

(* ------------------------------------------------------------------ undo_ok / redo_ok of the chain follow from the ranges of the edit *)
Lemma undo_fits_one lb : one_undo lb ->
  (let lo := nth (hist_u lb - 1) (hist lb) dflt in splice_ok (set_hu lb (hist_u lb - 1)) (del lo) (pos lo) (n_ins lo)) -> undo_ok lb.
Proof.
  intros (Hu & Hone) Hok. unfold undo_ok. destruct (hist_u lb) as [|u] eqn:Eu; [lia|]. cbn [undo_fits]. rewrite Eu.
  change (Nat.ltb 0 (S u)) with true. cbn [andb]. rewrite Z.eqb_refl. split; [exact Hok|].
  destruct u as [|u]; [exact I|]. cbn [undo_fits].
  assert (H1 : hist_u (undo1 lb) = S u) by (unfold undo1; rewrite Eu; cbn [lbuf_replace set_ln set_hu hist_u]; lia).
  assert (H2 : hist (undo1 lb) = hist lb) by reflexivity.
  rewrite H1, H2. replace (S (S u) - 1)%nat with (S u) by lia.
  change (Nat.ltb 0 (S u)) with true. cbn [andb]. replace (S u - 1)%nat with u by lia.
  destruct Hone as [X|X]; [lia|]. replace (S (S u) - 2)%nat with u in X by lia. replace (S (S u) - 1)%nat with (S u) in X by lia.
  destruct (Z.eqb_spec (seq_at (hist lb) u) (seq_at (hist lb) (S u))); [contradiction|exact I].
Qed.
Lemma redo_fits_one lb : one_redo lb ->
  (let lo := nth (hist_u lb) (hist lb) dflt in splice_ok (set_hu lb (S (hist_u lb))) (ins lo) (pos lo) (n_del lo)) -> redo_ok lb.
Proof.
  intros (Hu & Hone) Hok. unfold redo_ok. destruct (length (hist lb) - hist_u lb)%nat as [|k] eqn:Ek; [lia|]. cbn [redo_fits].
  destruct (Nat.ltb_spec (hist_u lb) (length (hist lb))); [|lia]. cbn [andb]. rewrite Z.eqb_refl. split; [exact Hok|].
  destruct k as [|k]; [exact I|]. cbn [redo_fits].
  assert (H1 : hist_u (redo1 lb) = S (hist_u lb)) by reflexivity.
  assert (H2 : hist (redo1 lb) = hist lb) by reflexivity.
  rewrite H1, H2.
  destruct (Nat.ltb_spec (S (hist_u lb)) (length (hist lb))); [|exact I]. cbn [andb].
  destruct Hone as [X|X]; [lia|].
  destruct (Z.eqb_spec (seq_at (hist lb) (S (hist_u lb))) (seq_at (hist lb) (hist_u lb))); [contradiction|exact I].
Qed.

Lemma edit_undo_redo_ok lb buf b e : Forall line_wf (ln lb) -> (hist_u lb <= length (hist lb))%nat -> lone_edit lb ->
  let b' := Nat.min b (length (ln lb)) in let e' := Nat.min e (length (ln lb)) in
  (b <= e)%nat -> Nat.eqb b' e' && is_none buf = false -> i31 (length (ln lb) + linecount buf) ->
  let lb1 := lbuf_edit lb buf b e in undo_ok lb1 /\ redo_ok (undo1 lb1).
Proof.
  intros Hwf Hu Hlone b' e' Hbe Hcase Hi lb1.
  destruct (edit_then_undo_redo lb buf b e Hwf Hu Hlone Hbe Hcase) as (lb2 & lb3 & _ & Hln2 & _ & _ & Hone & Honer & Hh2 & Hu2 & Hh1 & Hu1 & E2 & _).
  fold b' e' lb1 in Hone, Hh2, Hh1, Hu1, E2. subst lb2.
  set (n := length (ln lb)) in *. set (nd := (e' - b')%nat) in *. set (u := hist_u lb) in *. set (lo := new_entry lb buf b' nd) in *.
  assert (Lf : length (firstn u (hist lb)) = u) by (rewrite firstn_length; lia).
  assert (Hlo : nth u (hist lb1) dflt = lo) by (rewrite Hh1, app_nth2 by lia; rewrite Lf, Nat.sub_diag; reflexivity).
  assert (Hbn : (b' + nd <= n)%nat) by (unfold nd, b', e'; lia).
  assert (Hl1 : length (ln lb1) = (n + linecount buf - nd)%nat).
  { unfold lb1, lbuf_edit. fold n b' e'. rewrite Hcase. cbn [lbuf_replace set_ln lbuf_opt ln]. fold nd. rewrite replace_length by (fold n; lia). reflexivity. }
  assert (Hdl : linecount (del lo) = nd).
  { unfold linecount, lo, new_entry. cbn [del]. destruct (Nat.eqb_spec nd 0) as [->|Hnz]; [reflexivity|].
    cbn [lines_opt]. unfold lbuf_cp. replace (b' + nd - b')%nat with nd by lia. rewrite lines_of_concat.
    - apply slice_length. fold n. lia.
    - unfold slice. apply Forall_firstn'. apply Forall_skipn'. exact Hwf. }
  split.
  - apply (undo_fits_one lb1 Hone). rewrite Hu1. replace (S u - 1)%nat with u by lia. rewrite Hlo. cbv zeta.
    unfold splice_ok. cbn [set_hu ln]. rewrite Hl1, Hdl. unfold lo, new_entry. cbn [pos n_ins]. unfold i31 in *. split; lia.
  - apply (redo_fits_one (undo1 lb1) Honer). rewrite Hu2, Hh2, Hlo. cbv zeta. unfold splice_ok. cbn [set_hu ln]. rewrite Hln2. fold n.
    unfold lo, new_entry. cbn [pos n_del ins]. split; [lia|exact Hi].
Qed.

(* the corollary with undo_ok / redo_ok derived *)
Theorem tr_undo_inverts_edit_ranges ext fuelR dR (Hext : ext_is_replace ext fuelR dR) d fuel (m : mem) bl (blk : block) bh (hblk : block) lb (bufv : val) buf b e cap0 cap' :
  cp_oracle ext Tc bl -> urep Tc m bl blk bh hblk lb -> bufarg m bl bh bufv buf ->
  (forall bb o, bufv = VPtr bb o -> ~ In bb (log_blocks hblk 0 (length (hist lb)))) ->
  (forall bb o fp, bufv = VPtr bb o -> Tc m (tcells blk) fp (ln lb) -> ~ In bb fp) ->
  (forall bb s o, bufv = VPtr bb o -> str_at m bb s -> Z.of_nat (length s) + 2 <= 2147483647) ->
  (b <= e)%nat -> i31 e -> i31 (length (ln lb) + linecount buf) -> Z.of_nat (hist_sz lb) * 2 <= 2147483647 ->
  (length (hist lb) + 35 < fuel)%nat -> (linecount buf < fuel)%nat ->
  let b' := Nat.min b (length (ln lb)) in let e' := Nat.min e (length (ln lb)) in
  let need := Z.of_nat (length (ln lb)) + Z.of_nat (linecount buf) - Z.of_nat (e' - b') in
  nth_error blk L_ln_sz = Some (VInt (Z.of_nat cap0)) -> IoDefs.grow (IoDefs.grow_fuel need) need (Z.of_nat cap0) = Some cap' -> cap' <= 2147483647 ->
  (splice_fuel (length (ln lb)) (linecount buf) (e' - b') <= fuelR)%nat ->
  (forall (m1 : mem) (blk1 : block),
     callx ext cprog fuel (S (S (S (S d)))) F_lbuf_opt [VPtr bl 0; bufv; VInt (Z.of_nat b'); VInt (Z.of_nat (e' - b'))] m = Ok (VUndef, m1) ->
     nth_error m1 bl = Some blk1 ->
     forall k, (k < 32)%nat -> exists z, nth_error blk1 k = Some (VInt z) /\ row_fits (Z.of_nat b') (Z.of_nat (e' - b')) (Z.of_nat (linecount buf)) z) ->
  Nat.eqb b' e' && is_none buf = false -> lone_edit lb -> Forall line_wf (ln lb) ->
  let lb1 := lbuf_edit lb buf b e in let lb2 := undo1 lb1 in
  (forall m1, callx ext cprog fuel (S (S (S (S (S d))))) F_lbuf_edit [VPtr bl 0; bufv; VInt (Z.of_nat b); VInt (Z.of_nat e)] m = Ok (VUndef, m1) ->
     let lo := nth (hist_u lb1 - 1) (hist lb1) dflt in step_ok fuelR bl m1 (length (ln lb1)) (del lo) (pos lo) (n_ins lo)) ->
  (forall m1 m2, callx ext cprog fuel (S (S (S (S (S d))))) F_lbuf_edit [VPtr bl 0; bufv; VInt (Z.of_nat b); VInt (Z.of_nat e)] m = Ok (VUndef, m1) ->
     callx ext cprog fuel (S (S (S (S d)))) F_lbuf_undo [VPtr bl 0] m1 = Ok (VInt 0, m2) ->
     let lo := nth (hist_u lb2) (hist lb2) dflt in step_ok fuelR bl m2 (length (ln lb2)) (ins lo) (pos lo) (n_del lo)) ->
  exists (m1 m2 m3 : mem) (blk2 blk3 : block) bh' (hblk' : block),
    callx ext cprog fuel (S (S (S (S (S d))))) F_lbuf_edit [VPtr bl 0; bufv; VInt (Z.of_nat b); VInt (Z.of_nat e)] m = Ok (VUndef, m1) /\
    callx ext cprog fuel (S (S (S (S d)))) F_lbuf_undo [VPtr bl 0] m1 = Ok (VInt 0, m2) /\
    callx ext cprog fuel (S (S (S (S d)))) F_lbuf_redo [VPtr bl 0] m2 = Ok (VInt 0, m3) /\
    urep Tc m2 bl blk2 bh' hblk' lb2 /\ ln lb2 = ln lb /\
    urep Tc m3 bl blk3 bh' hblk' (redo1 lb2) /\ ln (redo1 lb2) = edit_text (ln lb) buf b e.
Proof.
  intros HC R Hbuf Hnb Hout Hlen2 Hbe Hie Hin Hsz2 Hf1 Hf2 b' e' need Ccap Hgrow Hcap' HfR Hmarks Hcase Hlone Hwf lb1 lb2 Hobs1 Hobs2.
  pose proof (u_rng _ _ _ _ _ _ _ R) as (_ & (Hu & _) & _).
  destruct (edit_undo_redo_ok lb buf b e Hwf Hu Hlone Hbe Hcase Hin) as [O1 O2].
  exact (tr_undo_inverts_edit ext fuelR dR Hext d fuel m bl blk bh hblk lb bufv buf b e cap0 cap' HC R Hbuf Hnb Hout Hlen2 Hbe Hie Hin Hsz2 Hf1 Hf2
           Ccap Hgrow Hcap' HfR Hmarks Hcase Hlone Hwf O1 O2 Hobs1 Hobs2).
Qed.

(* ------------------------------------------------------------------ a sufficient condition for `fits` that does not mention the growth loop *)
Lemma grow_le : forall f need sz sz', 0 < sz -> IoDefs.grow f need sz = Some sz' -> sz' <= Z.max sz (2 * need).
Proof.
  induction f as [|f IH]; intros need sz sz' Hsz H; cbn [IoDefs.grow] in H; [discriminate|].
  destruct (Z.geb_spec need sz) as [G|G].
  - destruct (Z.eqb_spec sz 0); [lia|]. apply IH in H; lia.
  - injection H as <-. lia.
Qed.
Lemma fits_of_bounds (blk : block) n s p nd cap : (nd <= n)%nat ->
  (forall k, (k < 32)%nat -> exists z, nth_error blk k = Some (VInt z) /\ i32 z /\ z + Z.of_nat (linecount s) <= 2147483647) ->
  nth_error blk L_ln_sz = Some (VInt (Z.of_nat cap)) -> (0 < cap)%nat -> Z.of_nat cap <= 2147483647 ->
  2 * (Z.of_nat n + Z.of_nat (linecount s)) <= 2147483647 ->
  exists cap', fits blk n s p nd cap'.
Proof.
  intros Hnd Hmk Hc Hc0 Hcm Hn.
  set (need := Z.of_nat n + Z.of_nat (linecount s) - Z.of_nat nd).
  destruct (IoProps.grow_total need (Z.of_nat cap) ltac:(lia)) as (cap' & G & G1 & G2).
  exists cap'. split; [|split; [exists cap; split; [exact Hc|exact G]|]].
  - intros k Hk. destruct (Hmk k Hk) as (z & Hz & Iz & Bz). exists z. split; [exact Hz|]. split; [exact Iz|]. intro X. unfold i32 in *. lia.
  - assert (Hp : 0 < Z.of_nat cap) by lia. pose proof (grow_le _ _ _ _ Hp G). unfold need in *. lia.
Qed.
