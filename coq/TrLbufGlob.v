(* TrLbufGlob.v -- the per-line marks of the ex global command, /repo/lbuf.c lbuf_globset / lbuf_globget: the model
   (ExDefs.lbuf_globset / lbuf_globget: N.setbit / N.testbit / N.clearbit on the line's ln_glob bits) is what the C text says
   for the nesting depths 0..7, on the translated C text (GenCFuncs.v) run on a memory that holds the struct and the char
   array ln_glob; and what the C text does at deeper nesting (the bit does not fit the char). *)
From Coq Require Import List ZArith NArith Bool Lia.
From NV Require Import Bytes CLite CLiteProps GenCFuncs CLiteTac TrLbufBase.
From NV Require ExDefs.
Import ListNotations.
Local Open Scope Z_scope.

(* ------------------------------------------------------------------ lbuf_globset / lbuf_globget (C15) *)
(* ln_glob is a char array: the cell of a line holds the bits g < 256 of the model as a (signed) char *)
Definition sb (g : N) : Z := wrap I8 (Z.of_N g).
(* block bg holds, in cell i, the ln_glob bits of line i of the model (cells beyond the lines: anything) *)
Definition glob_rep (m : mem) (bg : nat) (gblk : block) (L : list ExDefs.line) : Prop :=
  nth_error m bg = Some gblk /\
  forall i x, nth_error L i = Some x -> (ExDefs.lgl x < 256)%N /\ nth_error gblk i = Some (VInt (sb (ExDefs.lgl x))).

(* 1 << dep computed in int *)
Lemma shl1_ok dep : (dep <= 30)%N ->
  (if (0 <=? Z.of_N dep) && (Z.of_N dep <? 32) then chk I32 (Z.shiftl 1 (Z.of_N dep)) else Err EOverflow) = Ok (2 ^ Z.of_N dep).
Proof.
  intro H. destruct (Z.leb_spec 0 (Z.of_N dep)); [|lia]. destruct (Z.ltb_spec (Z.of_N dep) 32); [|lia]. cbn [andb].
  rewrite Z.shiftl_mul_pow2 by lia. rewrite Z.mul_1_l. apply chk_I32.
  assert (0 < 2 ^ Z.of_N dep) by (apply Z.pow_pos_nonneg; lia).
  assert (2 ^ Z.of_N dep <= 2 ^ 30) by (apply Z.pow_le_mono_r; lia). change (2 ^ 30) with 1073741824 in *. lia.
Qed.

(* the char arithmetic, decided by trying every depth and every byte *)
Definition deps_lo : list N := [0; 1; 2; 3; 4; 5; 6; 7]%N.
Definition deps_hi : list N := [8; 9; 10; 11; 12; 13; 14; 15; 16; 17; 18; 19; 20; 21; 22; 23; 24; 25; 26; 27; 28; 29; 30]%N.
Definition sx32 (g : N) : Z := wrap I32 (wrap I8 (sb g)).      (* the stored char, loaded and promoted to int *)
Definition set_chk (dep g : N) : bool := (wrap I8 (wrap I8 (Z.lor (sx32 g) (2 ^ Z.of_N dep))) =? sb (N.setbit g dep)) && (N.setbit g dep <? 256)%N.
Definition get_chk (dep g : N) : bool :=
  (wrap I8 (wrap I8 (Z.land (sx32 g) (Z.lnot (2 ^ Z.of_N dep)))) =? sb (N.clearbit g dep)) &&
  Bool.eqb (0 <? Z.land (sx32 g) (2 ^ Z.of_N dep)) (N.testbit g dep) && (N.clearbit g dep <? 256)%N.
Definition set_hi_chk (dep g : N) : bool := wrap I8 (wrap I8 (Z.lor (sx32 g) (2 ^ Z.of_N dep))) =? sb g.
Definition get_hi_chk (dep g : N) : bool :=
  (wrap I8 (wrap I8 (Z.land (sx32 g) (Z.lnot (2 ^ Z.of_N dep)))) =? sb g) &&
  Bool.eqb (0 <? Z.land (sx32 g) (2 ^ Z.of_N dep)) (N.testbit g 7).
Lemma sweep2 (f : N -> N -> bool) (ds : list N) : forallb (fun dep => forallb (f dep) bytes256) ds = true ->
  forall dep g, In dep ds -> (g < 256)%N -> f dep g = true.
Proof.
  intros H dep g Hd Hg. rewrite forallb_forall in H. specialize (H dep Hd). rewrite forallb_forall in H.
  apply H. apply in_bytes256. exact Hg.
Qed.
Lemma in_lo dep : (dep <= 7)%N -> In dep deps_lo.
Proof. intro H. unfold deps_lo. cbn. lia. Qed.
Lemma in_hi dep : (8 <= dep <= 30)%N -> In dep deps_hi.
Proof.
  intro H. unfold deps_hi. cbn. lia.
Qed.
Lemma set_fact dep g : (dep <= 7)%N -> (g < 256)%N ->
  wrap I8 (wrap I8 (Z.lor (sx32 g) (2 ^ Z.of_N dep))) = sb (N.setbit g dep) /\ (N.setbit g dep < 256)%N.
Proof.
  intros Hd Hg. assert (set_chk dep g = true) as H by (apply (sweep2 set_chk deps_lo); [vm_compute; reflexivity|apply in_lo; exact Hd|exact Hg]).
  unfold set_chk in H. apply andb_true_iff in H. destruct H as [A B]. split; [apply Z.eqb_eq; exact A|apply N.ltb_lt; exact B].
Qed.
Lemma get_fact dep g : (dep <= 7)%N -> (g < 256)%N ->
  wrap I8 (wrap I8 (Z.land (sx32 g) (Z.lnot (2 ^ Z.of_N dep)))) = sb (N.clearbit g dep) /\
  (0 <? Z.land (sx32 g) (2 ^ Z.of_N dep)) = N.testbit g dep /\ (N.clearbit g dep < 256)%N.
Proof.
  intros Hd Hg. assert (get_chk dep g = true) as H by (apply (sweep2 get_chk deps_lo); [vm_compute; reflexivity|apply in_lo; exact Hd|exact Hg]).
  unfold get_chk in H. apply andb_true_iff in H. destruct H as [H C]. apply andb_true_iff in H. destruct H as [A B].
  split; [apply Z.eqb_eq; exact A|]. split; [apply eqb_prop; exact B|apply N.ltb_lt; exact C].
Qed.
Lemma set_hi_fact dep g : (8 <= dep <= 30)%N -> (g < 256)%N -> wrap I8 (wrap I8 (Z.lor (sx32 g) (2 ^ Z.of_N dep))) = sb g.
Proof. intros Hd Hg. apply Z.eqb_eq. apply (sweep2 set_hi_chk deps_hi); [vm_compute; reflexivity|apply in_hi; exact Hd|exact Hg]. Qed.
Lemma get_hi_fact dep g : (8 <= dep <= 30)%N -> (g < 256)%N ->
  wrap I8 (wrap I8 (Z.land (sx32 g) (Z.lnot (2 ^ Z.of_N dep)))) = sb g /\
  (0 <? Z.land (sx32 g) (2 ^ Z.of_N dep)) = N.testbit g 7.
Proof.
  intros Hd Hg. assert (get_hi_chk dep g = true) as H by (apply (sweep2 get_hi_chk deps_hi); [vm_compute; reflexivity|apply in_hi; exact Hd|exact Hg]).
  unfold get_hi_chk in H. apply andb_true_iff in H. destruct H as [A B]. split; [apply Z.eqb_eq; exact A|apply eqb_prop; exact B].
Qed.

(* the line table of the model after one line's bits were replaced *)
Lemma nth_error_upd_line k f (L : list ExDefs.line) i :
  nth_error (ExDefs.upd_line k f L) i = if Nat.eqb i k then option_map f (nth_error L i) else nth_error L i.
Proof.
  revert k i; induction L as [|a L IH]; intros k i; [destruct k, i; cbn; try reflexivity; destruct (Nat.eqb i k); reflexivity|].
  destruct k as [|k]; destruct i as [|i]; cbn [ExDefs.upd_line nth_error Nat.eqb option_map]; try reflexivity. apply IH.
Qed.
Lemma glob_rep_upd m bg gblk L pos x (h : N -> N) : glob_rep m bg gblk L -> nth_error L pos = Some x -> (h (ExDefs.lgl x) < 256)%N ->
  let gblk' := upd gblk pos (VInt (sb (h (ExDefs.lgl x)))) in
  glob_rep (upd m bg gblk') bg gblk' (ExDefs.upd_line pos (fun y => ExDefs.set_lgl y (h (ExDefs.lgl y))) L).
Proof.
  intros [Hg Hc] Hx Hg' gblk'. destruct (Hc pos x Hx) as [_ Hpc].
  assert (Hlen : (pos < length gblk)%nat) by (apply nth_error_Some; congruence).
  split; [apply mem_upd_same; apply nth_error_Some; congruence|].
  intros i y Hy. rewrite nth_error_upd_line in Hy. destruct (Nat.eqb_spec i pos) as [->|Hne].
  - rewrite Hx in Hy. cbn in Hy. injection Hy as <-. cbn [ExDefs.set_lgl ExDefs.lgl]. split; [exact Hg'|].
    apply nth_error_upd_same. exact Hlen.
  - unfold gblk'. rewrite nth_error_upd_other by assumption. apply Hc. exact Hy.
Qed.

(* lb->ln_glob[pos] |= 1 << dep, for the depths whose bit fits the char *)
Theorem tr_lbuf_globset m bl blk bg gblk (lb : ExDefs.lbuf) pos x dep d fuel :
  nth_error m bl = Some blk -> nth_error blk L_ln_glob = Some (VPtr bg 0) -> glob_rep m bg gblk (ExDefs.lns lb) ->
  nth_error (ExDefs.lns lb) pos = Some x -> (dep <= 7)%N ->
  let gblk' := upd gblk pos (VInt (sb (N.setbit (ExDefs.lgl x) dep))) in
  callf cprog fuel (S d) F_lbuf_globset [VPtr bl 0; VInt (Z.of_nat pos); VInt (Z.of_N dep)] m = Ok (VUndef, upd m bg gblk')
  /\ glob_rep (upd m bg gblk') bg gblk' (ExDefs.lns (ExDefs.lbuf_globset lb pos dep)).
Proof.
  intros Hb Hp R Hx Hdep gblk'. pose proof R as [Hg Hcells]. destruct (Hcells pos x Hx) as [H256 Hc].
  assert (Hlen : (pos < length gblk)%nat) by (apply nth_error_Some; congruence).
  split.
  - enter F_lbuf_globset cf_lbuf_globset. xstep. xfld Hb Hp. xfld Hb Hp. xpos.
    rewrite (fld_load m bg gblk pos _ _ Hg Hc eq_refl). xstep. rewrite shl1_ok by lia. xstep.
    fold (sx32 (ExDefs.lgl x)). rewrite (proj1 (set_fact dep _ Hdep H256)).
    rewrite (fld_store m bg gblk pos _ _ Hg Hlen eq_refl). reflexivity.
  - unfold ExDefs.lbuf_globset, ExDefs.with_lns. cbn [ExDefs.lns].
    apply (glob_rep_upd m bg gblk (ExDefs.lns lb) pos x (fun g => N.setbit g dep) R Hx). apply set_fact; assumption.
Qed.

(* int o = lb->ln_glob[pos] & (1 << dep); lb->ln_glob[pos] &= ~(1 << dep); return o > 0 *)
Theorem tr_lbuf_globget m bl blk bg gblk (lb : ExDefs.lbuf) pos x dep d fuel :
  nth_error m bl = Some blk -> nth_error blk L_ln_glob = Some (VPtr bg 0) -> glob_rep m bg gblk (ExDefs.lns lb) ->
  nth_error (ExDefs.lns lb) pos = Some x -> (dep <= 7)%N ->
  let gblk' := upd gblk pos (VInt (sb (N.clearbit (ExDefs.lgl x) dep))) in
  callf cprog fuel (S d) F_lbuf_globget [VPtr bl 0; VInt (Z.of_nat pos); VInt (Z.of_N dep)] m
    = Ok (VInt (b2z (snd (ExDefs.lbuf_globget lb pos dep))), upd m bg gblk')
  /\ glob_rep (upd m bg gblk') bg gblk' (ExDefs.lns (fst (ExDefs.lbuf_globget lb pos dep))).
Proof.
  intros Hb Hp R Hx Hdep gblk'. pose proof R as [Hg Hcells]. destruct (Hcells pos x Hx) as [H256 Hc].
  assert (Hlen : (pos < length gblk)%nat) by (apply nth_error_Some; congruence).
  destruct (get_fact dep _ Hdep H256) as (F1 & F2 & F3).
  unfold ExDefs.lbuf_globget. rewrite Hx. cbn [fst snd]. split.
  - enter F_lbuf_globget cf_lbuf_globget. xstep. xfld Hb Hp. xpos.
    rewrite (fld_load m bg gblk pos _ _ Hg Hc eq_refl). xstep. rewrite shl1_ok by lia. xstep.
    xfld Hb Hp. xfld Hb Hp. xpos. rewrite (fld_load m bg gblk pos _ _ Hg Hc eq_refl). xstep. rewrite shl1_ok by lia. xstep.
    fold (sx32 (ExDefs.lgl x)). rewrite F1.
    rewrite (fld_store m bg gblk pos _ _ Hg Hlen eq_refl). xstep. rewrite F2. reflexivity.
  - unfold ExDefs.with_lns. cbn [ExDefs.lns].
    apply (glob_rep_upd m bg gblk (ExDefs.lns lb) pos x (fun g => N.clearbit g dep) R Hx). exact F3.
Qed.

(* ---- what the C text does at nesting depths whose bit does not fit the char (a finding of this proof: the
   model's N.setbit has no such limit, the hypothesis dep <= 7 above cannot be dropped).
   8 <= dep <= 30: `ln_glob[pos] |= 1 << dep` is computed in int and truncated back to char: NOTHING is stored, the mark is lost;
   lbuf_globget returns whether the DEPTH-7 bit is set (a negative char sign-extends into every higher bit) and clears nothing --
   so `while (i < lbuf_len(xb) && !lbuf_globget(xb, i, xgdep)) i++` of ec_glob stops at the same line again and again;
   dep >= 31: 1 << dep is a signed overflow / a shift by the width or more (undefined behaviour). *)
Theorem tr_lbuf_globset_lost m bl blk bg gblk (lb : ExDefs.lbuf) pos x dep d fuel :
  nth_error m bl = Some blk -> nth_error blk L_ln_glob = Some (VPtr bg 0) -> glob_rep m bg gblk (ExDefs.lns lb) ->
  nth_error (ExDefs.lns lb) pos = Some x -> (8 <= dep <= 30)%N ->
  callf cprog fuel (S d) F_lbuf_globset [VPtr bl 0; VInt (Z.of_nat pos); VInt (Z.of_N dep)] m = Ok (VUndef, m).
Proof.
  intros Hb Hp R Hx Hdep. pose proof R as [Hg Hcells]. destruct (Hcells pos x Hx) as [H256 Hc].
  assert (Hlen : (pos < length gblk)%nat) by (apply nth_error_Some; congruence).
  enter F_lbuf_globset cf_lbuf_globset. xstep. xfld Hb Hp. xfld Hb Hp. xpos.
  rewrite (fld_load m bg gblk pos _ _ Hg Hc eq_refl). xstep. rewrite shl1_ok by lia. xstep.
  fold (sx32 (ExDefs.lgl x)). rewrite (set_hi_fact dep _ Hdep H256).
  rewrite (fld_store_same m bg gblk pos _ _ Hg Hc eq_refl). reflexivity.
Qed.
Theorem tr_lbuf_globget_high m bl blk bg gblk (lb : ExDefs.lbuf) pos x dep d fuel :
  nth_error m bl = Some blk -> nth_error blk L_ln_glob = Some (VPtr bg 0) -> glob_rep m bg gblk (ExDefs.lns lb) ->
  nth_error (ExDefs.lns lb) pos = Some x -> (8 <= dep <= 30)%N ->
  callf cprog fuel (S d) F_lbuf_globget [VPtr bl 0; VInt (Z.of_nat pos); VInt (Z.of_N dep)] m
    = Ok (VInt (b2z (ExDefs.glob_marked 7 x)), m).
Proof.
  intros Hb Hp R Hx Hdep. pose proof R as [Hg Hcells]. destruct (Hcells pos x Hx) as [H256 Hc].
  assert (Hlen : (pos < length gblk)%nat) by (apply nth_error_Some; congruence).
  destruct (get_hi_fact dep _ Hdep H256) as (F1 & F2).
  enter F_lbuf_globget cf_lbuf_globget. xstep. xfld Hb Hp. xpos.
  rewrite (fld_load m bg gblk pos _ _ Hg Hc eq_refl). xstep. rewrite shl1_ok by lia. xstep.
  xfld Hb Hp. xfld Hb Hp. xpos. rewrite (fld_load m bg gblk pos _ _ Hg Hc eq_refl). xstep. rewrite shl1_ok by lia. xstep.
  fold (sx32 (ExDefs.lgl x)). rewrite F1.
  rewrite (fld_store_same m bg gblk pos _ _ Hg Hc eq_refl). xstep. rewrite F2. reflexivity.
Qed.
Theorem tr_lbuf_globset_overflow m bl blk bg gblk (lb : ExDefs.lbuf) pos x dep d fuel :
  nth_error m bl = Some blk -> nth_error blk L_ln_glob = Some (VPtr bg 0) -> glob_rep m bg gblk (ExDefs.lns lb) ->
  nth_error (ExDefs.lns lb) pos = Some x -> (31 <= dep)%N ->
  callf cprog fuel (S d) F_lbuf_globset [VPtr bl 0; VInt (Z.of_nat pos); VInt (Z.of_N dep)] m = Err EOverflow.
Proof.
  intros Hb Hp R Hx Hdep. pose proof R as [Hg Hcells]. destruct (Hcells pos x Hx) as [H256 Hc].
  enter F_lbuf_globset cf_lbuf_globset. xstep. xfld Hb Hp. xfld Hb Hp. xpos.
  rewrite (fld_load m bg gblk pos _ _ Hg Hc eq_refl). xstep.
  destruct (Z.leb_spec 0 (Z.of_N dep)); [|lia]. destruct (Z.ltb_spec (Z.of_N dep) 32) as [L|L]; cbn [andb]; [|reflexivity].
  assert (dep = 31%N) as -> by lia. reflexivity.
Qed.
