# /verif/Makefile -- `make setup` builds everything the registered checks need, offline.
.PHONY: setup coq models clean manifest
setup: manifest coq models
manifest:
	python3 tools/mkmanifest.py
coq:
	python3 tools/translate.py /repo coq
	python3 tools/c2clite.py /repo coq
	sh tools/mkcoqproject.sh
	-$(MAKE) -C coq -k -j16
models: coq
	-python3 tools/build_models.py
clean:
	-$(MAKE) -C coq clean
	rm -rf build coq/Makefile coq/Makefile.conf coq/.Makefile.d coq/*_model.ml coq/*_model.mli
