(* drv_term.ml -- line-protocol driver of the extracted terminal emulator (coq/TermEmu.v).
   request:  run <rows> <cols> <hex stream> <cut,cut,...>
   answer:   one snapshot per cut offset (state after the first <cut> bytes), joined by '#':
             err r c top bot|cp,cp,...;cp,...;...      (one ';'-separated group per screen row)
   request:  wid <cp> -> width
   request:  wfix <h> <cols> <old top> <old left> <cursor row> <buffer lines> <cursor column> -> <top> <left>  (DrawDefs.wfix, fix_left)
   request:  put <c|l> <h> <top> <xrow> <count> <hex pref> <hex post> <hex register> <old row ids> <new row ids>
             (DrawPutDefs.vc_put_chars / vc_put_lines + put_screen: the rows are abstract -- integer ids; <old row ids> are the h rows
             shown before the put, <new row ids> what vi_drawrow draws for the rows top .. top+h-1 of the buffer after it)
   answer:   <r1> <r2> <n> <hex line>,<hex line>,...|<predicted row ids>     (the vi_drawfix arguments, the lines the text is cut into)
   request:  region <rows> <cols> <beg> <cnt> <reinit 0|1> <cached 0|1>
             (TermOutDefs: term_window(beg, cnt) on a fresh terminal, then -- reinit = 1 -- term_done(); term_init(); with term.c's
             term_window (cached = 0) or the variant that trusts the copy (cached = 1))
   answer:   <top> <bot> <err> <hex of the bytes written>     (the emulator's region afterwards)
   request:  geom <rows> <w_cnt> <id> -> <beg> <text rows>        (DrawSplitDefs.geom: what vi_switch(id) hands to term_window)
   request:  prompt <td> <hex keys | -> -> <td afterwards> <answered 0|1>     (DrawDirDefs.led_prompt on the keys typed at the prompt)
   request:  row <td> <xleft> <xcols> <hi 0|1> <match -1|0|1> <pos,wid,glyph;...| -> <cursor pos> [<cursor offset | -1>]
             (DrawDirDefs: dir_context under td of a line whose first byte has its high bit set (hi) and whose first matching
             direction-context pattern says <match> (0 = none); render_row = the cells led_render fills; vi_pos of <cursor pos>)
   answer:   <dir> <glyph or -1 per cell, comma separated>|<terminal column of the cursor> *)
let pr = Printf.printf
let ints s = List.map int_of_string (List.filter (fun w -> w <> "") (String.split_on_char ',' s))
let do_put mode h top xrow cnt pref post reg olds news =
  let c = if mode = "c" then vc_put_chars (nat_of_int xrow) (bytes_of_hex pref) (bytes_of_hex post) (bytes_of_hex reg) (nat_of_int cnt)
          else vc_put_lines (nat_of_int xrow) (bytes_of_hex reg) (nat_of_int cnt) in
  let news = Array.of_list (ints news) in
  let f i = let k = int_of_nat i - top in if k >= 0 && k < Array.length news then news.(k) else (-1) in
  let rows = put_screen (-2) f (nat_of_int top) (nat_of_int h) c (ints olds) in
  pr "%d %d %d %s|%s\n" (int_of_z c.p_r1) (int_of_z c.p_r2) (int_of_z c.p_n)
    (String.concat "," (List.map hex_of_bytes (text_lines c.p_text)))
    (String.concat "," (List.map string_of_int rows))

let snapshot b t =
  Buffer.add_string b (Printf.sprintf "%d %d %d %d %d|" (int_of_nat t.t_err) (int_of_nat t.t_r) (int_of_nat t.t_c)
                         (int_of_nat t.t_top) (int_of_nat t.t_bot));
  let first = ref true in
  List.iter (fun row ->
      if not !first then Buffer.add_char b ';';
      first := false;
      let f = ref true in
      List.iter (fun c -> if not !f then Buffer.add_char b ','; f := false;
                          Buffer.add_string b (string_of_int (int_of_n c))) row) t.t_cells

let do_run rows cols hex cuts =
  let n = if hex = "-" then 0 else String.length hex / 2 in
  let cuts = List.map (fun c -> min (max c 0) n) cuts in
  let t = ref (term_new (nat_of_int rows) (nat_of_int cols)) in
  let b = Buffer.create 4096 in
  let pos = ref 0 in
  let firstsnap = ref true in
  List.iter (fun cut ->
      while !pos < cut do
        let v = hexval hex.[2 * !pos] * 16 + hexval hex.[2 * !pos + 1] in
        t := feed !t (n_of_int v);
        incr pos
      done;
      if not !firstsnap then Buffer.add_char b '#';
      firstsnap := false;
      snapshot b !t) (List.sort compare cuts);
  print_string (Buffer.contents b); print_newline ()

let () =
  iter_lines (fun line ->
      (match words line with
       | ["run"; r; c; hex; cuts] ->
         do_run (int_of_string r) (int_of_string c) hex
           (List.map int_of_string (List.filter (fun w -> w <> "") (String.split_on_char ',' cuts)))
       | ["wfix"; h; cols; ptop; pleft; xrow; len; pos] ->
         (* model of vi_wfix and of the xleft rule: new top and left after a motion *)
         let z s = z_of_int (int_of_string s) in
         let (t, _) = wfix (z ptop) (z xrow) (z h) (z len) in
         pr "%d %d\n" (int_of_z t) (int_of_z (fix_left (z pleft) (z pos) (z cols)))
       | ["put"; mode; h; top; xrow; cnt; pref; post; reg; olds; news] ->
         do_put mode (int_of_string h) (int_of_string top) (int_of_string xrow) (int_of_string cnt) pref post reg olds news
       | ["region"; rows; cols; beg; cnt; re; cached] ->
         let n s = nat_of_int (int_of_string s) in
         let w = { win_beg = n beg; win_rows = n cnt } in
         let o1 = term_window_out (n rows) (n beg) (n cnt) in
         let o2 = if re = "1" then snd (reinit_out (cached = "1") (n rows) w) else [] in
         let t = run (run (term_new (n rows) (n cols)) o1) o2 in
         pr "%d %d %d %s\n" (int_of_nat t.t_top) (int_of_nat t.t_bot) (int_of_nat t.t_err) (hex_of_bytes (o1 @ o2))
       | ["geom"; rows; wcnt; id] ->
         let n s = nat_of_int (int_of_string s) in
         let (b, h) = geom (n rows) (n wcnt) (n id) in
         pr "%d %d\n" (int_of_nat b) (int_of_nat h)
       | ["prompt"; td; hex] ->
         let keys = if hex = "-" then [] else bytes_of_hex hex in
         let (s, r) = led_prompt [] [] { e_td = z_of_int (int_of_string td); e_keys = keys } in
         pr "%d %d\n" (int_of_z s.e_td) (match r with Some _ -> 1 | None -> 0)
       | "row" :: td :: left :: cols :: hi :: m :: chars :: cur :: rest ->
         (* optional 9th word: the cursor OFFSET -- the cursor position is then DrawCurDefs.cursor_pos (ren_cursor of the position of
            that character, the tail of vi() since 216c15e) over the positions of the characters; the newline at position n *)
         let z s = z_of_int (int_of_string s) in
         let cs = if chars = "-" then [] else
             List.map (fun t -> match ints t with
                 | [p; w; g] -> ((z_of_int p, z_of_int w), g)
                 | _ -> failwith "row") (String.split_on_char ';' chars) in
         let mm = match int_of_string m with 0 -> None | d -> Some (z_of_int d) in
         let l = { l_hi = (hi = "1"); l_match = mm; l_chars = cs } in
         let cells = render_row (z td) (z left) (z cols) l in
         let d = line_dir (z td) l in
         pr "%d %s|%d\n" (int_of_z d)
           (String.concat "," (List.map (fun c -> match c with Some g -> string_of_int g | None -> "-1") cells))
           (int_of_z (vi_pos d (match rest with
                                | [xoff] when int_of_string xoff >= 0 ->
                                  cursor_pos (List.map (fun c -> fst (fst c)) cs) (z_of_int (List.length cs)) (nat_of_int (int_of_string xoff))
                                | _ -> z cur) (z left) (z cols)))
       | ["wid"; c] -> pr "%d\n" (int_of_nat (cp_wid (n_of_int (int_of_string c))))
       | _ -> pr "error bad request\n");
      flush stdout)
