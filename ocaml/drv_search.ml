(* drv_search.ml -- line-protocol driver of the extracted C13 model (coq/SearchDefs.v).
   run <ic> <row> <off> <line,line,...(hex, with newline)> <cmd>...   cmd = /hex:cnt ?hex:cnt n:cnt N:cnt A:cnt Khex:1
     -> per command "ok row off soset so" joined by ';' (soset so = the remembered line offset after the
        command), or "unsupported" when a pattern is outside the reference matcher's subset.
        A pattern the reference matcher does not parse is outside the subset only if the compile chain of the
        code accepts it (Search4Defs.code_rcomp: rstr.c fast path, else the C10 model of rset_make / regcomp);
        a pattern that chain rejects is a malformed pattern, and the model's answer (not found, in place) stands.
        Khex = an ex command (:s :g) that leaves its pattern behind and does nothing else: ex_kwdset(pat, +1)
   find <ic> <kw> <subject> <notbol>  -> b e | none          (the reference matcher as the code calls it)
   occ <ic> <kw> <line>               -> the successive matches of the whole line (character offsets) *)
let pr = Printf.printf
let split c s = String.split_on_char c s

let parse_cmd w =
  match split ':' w with
  | [c; n] ->
    let n = nat_of_int (int_of_string n) in
    if c = "n" then (CNext, n) else if c = "N" then (CPrev, n) else if c = "A" then (CWord, n)
    else if c.[0] = '/' then (CSlash (bytes_of_hex (String.sub c 1 (String.length c - 1))), n)
    else (CQuest (bytes_of_hex (String.sub c 1 (String.length c - 1))), n)
  | _ -> failwith "cmd"

let is_k w = String.length w > 0 && w.[0] = 'K'
let k_pat w = match split ':' w with [c; _] -> bytes_of_hex (String.sub c 1 (String.length c - 1)) | _ -> failwith "cmd"

let do_run ic row off lines cmds =
  let ic = ic = "1" in
  let lb = if lines = "-" then [] else List.map bytes_of_hex (split ',' lines) in
  let st = ref sstate0 and r = ref (nat_of_int row) and o = ref (nat_of_int off) in
  let out = ref [] and unsup = ref false in
  List.iter (fun w ->
    let ((st1, ok), (r1, o1)) =
      if is_k w then ((ex_kwdset_fwd !st (k_pat w), false), (!r, !o))
      else let (c, n) = parse_cmd w in search_cmd (fm_suffix (ref_rfind ic)) ref_rcomp !st lb c n !r !o in
    st := st1; r := r1; o := o1;
    if st1.kwd <> [] && not (ref_rcomp st1.kwd) && code_rcomp ic st1.kwd then unsup := true;
    out := Printf.sprintf "%d %d %d %d %d" (if ok then 1 else 0) (int_of_nat r1) (int_of_nat o1)
             (if st1.soset then 1 else 0) (int_of_z st1.so) :: !out) cmds;
  if !unsup then pr "unsupported\n" else pr "%s\n" (String.concat ";" (List.rev !out))

let () =
  iter_lines (fun l ->
    match words l with
    | "run" :: ic :: row :: off :: lines :: cmds -> do_run ic (int_of_string row) (int_of_string off) lines cmds
    | ["find"; ic; kw; s; nb] ->
      let kw = bytes_of_hex kw in
      if not (ref_rcomp kw) then pr "unsupported\n" else
      (match ref_rfind (ic = "1") kw (bytes_of_hex s) (nb = "1") with
       | Some (b, e) -> pr "%d %d\n" (int_of_nat b) (int_of_nat e) | None -> pr "none\n")
    | ["occ"; ic; kw; s] ->
      let kw = bytes_of_hex kw and s = bytes_of_hex s in
      if not (ref_rcomp kw) then pr "unsupported\n" else
      pr "%s\n" (String.concat "," (List.map (fun (x, _) -> string_of_int (int_of_nat x))
                  (occ (ref_wfind (ic = "1") kw) (nat_of_int (List.length s + 1)) s O)))
    | _ -> pr "?\n")
