(* drv_vi.ml -- line-protocol driver of the extracted vi motion and register models.
   mot <rows> <texthex> <cmd>...   cmd = m:<count>:<keycode>[:<charhex>] | g:<n>
   answer: "<row> <off> <col> <top>" or "fuel" *)
let pr = Printf.printf
let key_of code arg =
  match Char.chr code with
  | 'h' -> Kh | 'l' -> Kl | 'j' -> Kj | 'k' -> Kk | '0' -> K0 | '^' -> Kcaret | '$' -> Kdollar | '|' -> Kbar
  | 'w' -> Kw | 'b' -> Kb | 'e' -> Ke | 'W' -> KW | 'B' -> KB | 'E' -> KE
  | 'f' -> Kf arg | 'F' -> KF arg | 't' -> Kt arg | 'T' -> KT arg | ';' -> Ksemi | ',' -> Kcomma
  | 'G' -> KG | '+' -> Kplus | '-' -> Kminus | '_' -> Kunder | '%' -> Kpct | '{' -> Klbrace | '}' -> Krbrace
  | 'H' -> KH | 'M' -> KM | 'L' -> KL | ' ' -> Kspace | '\b' -> Kbs
  | _ -> failwith "key"
let cmd_of w =
  match String.split_on_char ':' w with
  | ["g"; n] -> Goto (z_of_int (int_of_string n))
  | ["m"; c; k] -> Mot (z_of_int (int_of_string c), key_of (int_of_string k) [])
  | ["m"; c; k; a] -> Mot (z_of_int (int_of_string c), key_of (int_of_string k) (bytes_of_hex a))
  | _ -> failwith "cmd"
let () =
  iter_lines (fun l ->
    match words l with
    | "mot" :: rows :: text :: prog ->
        let b = buf_of_bytes (bytes_of_hex text) in
        (match run_prog b (z_of_int (int_of_string rows)) (List.map cmd_of prog) with
         | Some (_, s) -> pr "%d %d %d %d\n" (int_of_z s.v_row) (int_of_z s.v_off) (int_of_z s.v_col) (int_of_z s.v_top)
         | None -> pr "fuel\n")
    | "regs" :: puts ->
        (* regs <namehex>:<texthex>:<ln> ...  -> the revealed registers "" a b 1 2 3 4 as <texthex>:<ln> or x *)
        let r = List.fold_left (fun r w ->
          match String.split_on_char ':' w with
          | [c; s; ln] ->
              let cn = (match bytes_of_hex c with [x] -> x | _ -> N0) in
              reg_put r cn (bytes_of_hex s) (ln = "1")
          | _ -> r) regs0 puts in
        List.iter (fun c ->
          match reg_get r (n_of_int c) with
          | Some (s, ln) -> pr "%s:%d " (hex_of_bytes s) (if ln then 1 else 0)
          | None -> pr "x ") [0; 97; 98; 49; 50; 51; 52];
        pr "\n"
    | _ -> pr "?\n")
