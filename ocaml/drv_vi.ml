(* drv_vi.ml -- line-protocol driver of the extracted vi motion, register and operator models.
   mot <rows> <texthex> <cmd>...   cmd = m:<count>:<keycode>[:<charhex>] | g:<n>
   answer: "<row> <off> <col> <top>" or "fuel"
   op <rows> <texthex> <cmd>...    cmd = the two above |
       o:<reg>:<a1>:<opcode>:<a2>:<keycode or D>:<charhex>:<typedhex>   (opcode = code of d y c < > ~ u U)
       x:<reg>:<cnt>:<keycode of x X D Y ~>   |  ci:<reg>:<cnt>:<keycode of C s S>:<typedhex>
       p:<reg>:<cnt>:<0 P | 1 p>  |  j:<cnt>  |  r:<cnt>:<charhex>  |  i:<keycode of i a I A o O>:<typedhex>
   answer: "<row> <off> <col> <top> <texthex> <reg>..." for the registers "" a b c 1..9 (<texthex>:<ln> or x), or "fuel"
   opx <rows> <texthex> <cmd>...   the same through ViInsDefs.exec_prog_x; additional cmd  ai:<0|1>  (:se noai / :se ai) *)
let pr = Printf.printf
let key_of code arg =
  match Char.chr code with
  | 'h' -> Kh | 'l' -> Kl | 'j' -> Kj | 'k' -> Kk | '0' -> K0 | '^' -> Kcaret | '$' -> Kdollar | '|' -> Kbar
  | 'w' -> Kw | 'b' -> Kb | 'e' -> Ke | 'W' -> KW | 'B' -> KB | 'E' -> KE
  | 'f' -> Kf arg | 'F' -> KF arg | 't' -> Kt arg | 'T' -> KT arg | ';' -> Ksemi | ',' -> Kcomma
  | 'G' -> KG | '+' -> Kplus | '-' -> Kminus | '_' -> Kunder | '%' -> Kpct | '{' -> Klbrace | '}' -> Krbrace
  | 'H' -> KH | 'M' -> KM | 'L' -> KL | ' ' -> Kspace | '\b' -> Kbs
  | _ -> failwith "key"
let int = int_of_string
let zi s = z_of_int (int s)
let okey_of c = match Char.chr c with
  | 'd' -> Od | 'y' -> Oy | 'c' -> Oc | '<' -> Olt | '>' -> Ogt | '~' -> Otilde | 'u' -> Ogu | 'U' -> OgU
  | _ -> failwith "okey"
let ikey_of c = match Char.chr c with
  | 'i' -> Ii | 'a' -> Ia | 'I' -> II | 'A' -> IA | 'o' -> Io | 'O' -> IO | _ -> failwith "ikey"
let reg_of s = n_of_int (int s)
let typed s = chop (bytes_of_hex s)
let ecmd_of w =
  match String.split_on_char ':' w with
  | ["g"; n] -> CGoto (zi n)
  | ["m"; c; k] -> CMot (zi c, key_of (int k) [])
  | ["m"; c; k; a] -> CMot (zi c, key_of (int k) (bytes_of_hex a))
  | ["o"; reg; a1; op; a2; k; a; t] ->
      let tg = if k = "D" then TDbl else TMot (key_of (int k) (bytes_of_hex a)) in
      COp (reg_of reg, zi a1, okey_of (int op), zi a2, tg, typed t)
  | ["x"; reg; c; k] ->
      (match Char.chr (int k) with
       | 'x' -> c_x (reg_of reg) (zi c) | 'X' -> c_X (reg_of reg) (zi c) | 'D' -> c_D (reg_of reg) (zi c)
       | 'Y' -> c_Y (reg_of reg) (zi c) | '~' -> c_tilde (zi c) | _ -> failwith "x")
  | ["ci"; reg; c; k; t] ->
      (match Char.chr (int k) with
       | 'C' -> c_C (reg_of reg) (zi c) (typed t) | 's' -> c_s (reg_of reg) (zi c) (typed t)
       | 'S' -> c_S (reg_of reg) (zi c) (typed t) | _ -> failwith "ci")
  | ["p"; reg; c; a] -> CPut (reg_of reg, zi c, a = "1")
  | ["j"; c] -> CJoin (zi c)
  | ["r"; c; a] -> CReplace (zi c, bytes_of_hex a)
  | ["i"; k; t] -> CIns (ikey_of (int k), typed t)
  | _ -> failwith "ecmd"
let xcmd_of w =
  match String.split_on_char ':' w with
  | ["ai"; v] -> XAi (v = "1")
  | _ -> XC (ecmd_of w)
let pr_est e =
  let s = e.s_vs in
  pr "%d %d %d %d %s" (int_of_z s.v_row) (int_of_z s.v_off) (int_of_z s.v_col) (int_of_z s.v_top)
    (hex_of_bytes (List.concat (List.map flat e.s_buf)));
  List.iter (fun c ->
    match reg_get e.s_regs (n_of_int c) with
    | Some (t, ln) -> pr " %s:%d" (hex_of_bytes t) (if ln then 1 else 0)
    | None -> pr " x") [0; 97; 98; 99; 49; 50; 51; 52; 53; 54; 55; 56; 57];
  pr "\n"
let cmd_of w =
  match String.split_on_char ':' w with
  | ["g"; n] -> Goto (z_of_int (int_of_string n))
  | ["m"; c; k] -> Mot (z_of_int (int_of_string c), key_of (int_of_string k) [])
  | ["m"; c; k; a] -> Mot (z_of_int (int_of_string c), key_of (int_of_string k) (bytes_of_hex a))
  | _ -> failwith "cmd"
let () =
  iter_lines (fun l ->
    match words l with
    | "mot" :: rows :: text :: prog ->
        let b = buf_of_bytes (bytes_of_hex text) in
        (match run_prog b (z_of_int (int_of_string rows)) (List.map cmd_of prog) with
         | Some (_, s) -> pr "%d %d %d %d\n" (int_of_z s.v_row) (int_of_z s.v_off) (int_of_z s.v_col) (int_of_z s.v_top)
         | None -> pr "fuel\n")
    | "op" :: rows :: text :: prog ->
        let b = buf_of_bytes (bytes_of_hex text) in
        (match exec_prog b (z_of_int (int_of_string rows)) (List.map ecmd_of prog) with
         | Some e ->
             let s = e.s_vs in
             pr "%d %d %d %d %s" (int_of_z s.v_row) (int_of_z s.v_off) (int_of_z s.v_col) (int_of_z s.v_top)
               (hex_of_bytes (List.concat (List.map flat e.s_buf)));
             List.iter (fun c ->
               match reg_get e.s_regs (n_of_int c) with
               | Some (t, ln) -> pr " %s:%d" (hex_of_bytes t) (if ln then 1 else 0)
               | None -> pr " x") [0; 97; 98; 99; 49; 50; 51; 52; 53; 54; 55; 56; 57];
             pr "\n"
         | None -> pr "fuel\n")
    | "opx" :: rows :: text :: prog ->
        let b = buf_of_bytes (bytes_of_hex text) in
        (match exec_prog_x b (z_of_int (int_of_string rows)) (List.map xcmd_of prog) with
         | Some (e, _) -> pr_est e
         | None -> pr "fuel\n")
    | "regs" :: puts ->
        (* regs <namehex>:<texthex>:<ln> ...  -> the revealed registers "" a b c 1..9 as <texthex>:<ln> or x *)
        let r = List.fold_left (fun r w ->
          match String.split_on_char ':' w with
          | [c; s; ln] ->
              let cn = (match bytes_of_hex c with [x] -> x | _ -> N0) in
              reg_put r cn (bytes_of_hex s) (ln = "1")
          | _ -> r) regs0 puts in
        List.iter (fun c ->
          match reg_get r (n_of_int c) with
          | Some (s, ln) -> pr "%s:%d " (hex_of_bytes s) (if ln then 1 else 0)
          | None -> pr "x ") [0; 97; 98; 99; 49; 50; 51; 52; 53; 54; 55; 56; 57];
        pr "\n"
    | _ -> pr "?\n")
