(* drv_mot.ml -- line-protocol driver of the extracted vi motion model (C07).
   mot <rows> <texthex> <cmd>...
     cmd = m:<count>:<keycode>[:<charhex>]    MotDefs.Mot with the count as a number (MotDefs.step)
         | k:<digits>:<keycode>[:<charhex>]   the keys as typed: MotCountDefs.step_keys (vi_prefix reads the digits -- any number of
                                              them --, the key table, do_motion_z = do_motion without a unary count)
         | g:<n>                              the ex command :<n>
   answer: "<row> <off> <col> <top>", "fuel" (the model ran out of fuel), "undecided" (do_motion_z could not decide),
           "keys" (the typed keys are not one motion command, or keys were left over) *)
let pr = Printf.printf
let key_of code arg =
  match Char.chr code with
  | 'h' -> Kh | 'l' -> Kl | 'j' -> Kj | 'k' -> Kk | '0' -> K0 | '^' -> Kcaret | '$' -> Kdollar | '|' -> Kbar
  | 'w' -> Kw | 'b' -> Kb | 'e' -> Ke | 'W' -> KW | 'B' -> KB | 'E' -> KE
  | 'f' -> Kf arg | 'F' -> KF arg | 't' -> Kt arg | 'T' -> KT arg | ';' -> Ksemi | ',' -> Kcomma
  | 'G' -> KG | '+' -> Kplus | '-' -> Kminus | '_' -> Kunder | '%' -> Kpct | '{' -> Klbrace | '}' -> Krbrace
  | 'H' -> KH | 'M' -> KM | 'L' -> KL | ' ' -> Kspace | '\b' -> Kbs
  | _ -> failwith "key"
exception Stop of string
let bytes_of_string s = List.init (String.length s) (fun i -> n_of_int (Char.code s.[i]))
let () =
  iter_lines (fun l ->
    match words l with
    | "mot" :: rows :: text :: prog ->
        let b = buf_of_bytes (bytes_of_hex text) in
        let rows = z_of_int (int_of_string rows) in
        let one s w =
          let typed d k a =
            match step_keys b rows (bytes_of_string d @ [n_of_int (int_of_string k)] @ a) s with
            | KOk (s', []) -> s'
            | KOk (_, _) | KBad -> raise (Stop "keys")
            | KUndecided -> raise (Stop "undecided")
            | KFuel -> raise (Stop "fuel") in
          let run c = match step b rows c s with Some s' -> s' | None -> raise (Stop "fuel") in
          match String.split_on_char ':' w with
          | ["g"; n] -> run (Goto (z_of_int (int_of_string n)))
          | ["m"; c; k] -> run (Mot (z_of_int (int_of_string c), key_of (int_of_string k) []))
          | ["m"; c; k; a] -> run (Mot (z_of_int (int_of_string c), key_of (int_of_string k) (bytes_of_hex a)))
          | ["k"; d; k] -> typed d k []
          | ["k"; d; k; a] -> typed d k (bytes_of_hex a)
          | _ -> failwith "cmd" in
        (try
           let s = List.fold_left one init_vst prog in
           pr "%d %d %d %d\n" (int_of_z s.v_row) (int_of_z s.v_off) (int_of_z s.v_col) (int_of_z s.v_top)
         with Stop m -> pr "%s\n" m)
    | _ -> pr "?\n")
