(* drv_inq.ml -- line-protocol driver of the extracted C09 model (coq/InputQueue.v).
   expand <macro m> <macro n> <program>    each a comma-separated token list ("-" = empty):
       c<hex> change command, k<hex> other keys, d<n> = N. (0 = no count), e<n><r> = N@r (r = m n @)
     -> hex of the key stream that reached the command interpreter, or "clipped"
   capacity -> how many of 5000 pushes of a one-key command the queue takes
   virun <rows> <filehex> <keyshex>   the raw-key interpreter (coq/ViKeys.v vi_session) on a typed session
     -> "<row> <off> <col> <top> <texthex> <reg>..." (registers "" a b c 1..9 as <texthex>:<ln> or x; the answer
        format of the `op` request of drv_vi.ml), or "out" (a key outside the modelled command set, or the input
        ends inside a command), or "clipped" (a push did not fit / fuel)
   vitok <rows> <filehex> <keyshex>   token boundaries of the typed keys
     -> "<status> <kinds> <static> <dynamic>": status ok|out|clipped; kinds = one letter per command of the
        syntactic tokenisation (coq/ViKeys.v tokens; "-" if the keys do not tokenise); static = its boundaries
        (byte offsets, comma separated); dynamic = the offsets of the typed keys consumed whenever the loop of
        vi() (vi_session_trace) has drained the pushed keys *)
let pr = Printf.printf
let parse_tok w =
  let rest = String.sub w 1 (String.length w - 1) in
  match w.[0] with
  | 'c' -> TChange (bytes_of_hex rest)
  | 'k' -> TKeys (bytes_of_hex rest)
  | 'd' -> TDot (nat_of_int (int_of_string rest))
  | 'e' -> let r = rest.[String.length rest - 1] in
           TExec (nat_of_int (int_of_string (String.sub rest 0 (String.length rest - 1))), n_of_int (Char.code r))
  | _ -> failwith "tok"
let parse_list w = if w = "-" then [] else List.map parse_tok (String.split_on_char ',' w)
let show_state v =
  match v.vi_est with
  | None -> pr "out\n"
  | Some e ->
    let s = e.s_vs in
    pr "%d %d %d %d %s" (int_of_z s.v_row) (int_of_z s.v_off) (int_of_z s.v_col) (int_of_z s.v_top)
      (hex_of_bytes (List.concat (List.map flat e.s_buf)));
    List.iter (fun c ->
      match reg_get e.s_regs (n_of_int c) with
      | Some (t, ln) -> pr " %s:%d" (hex_of_bytes t) (if ln then 1 else 0)
      | None -> pr " x") [0; 97; 98; 99; 49; 50; 51; 52; 53; 54; 55; 56; 57];
    pr "\n"
let kind_of = function
  | KCmd (c, _) -> (match c with
      | CGoto _ | CMot _ -> 'm' | COp (_, _, Oc, _, _, _) -> 'c' | COp _ -> 'o' | CPut _ -> 'p' | CJoin _ -> 'j'
      | CReplace _ -> 'r' | CIns _ -> 'i')
  | KNop _ -> 'n' | KSkip -> 's' | KDot _ -> 'd' | KExec _ -> 'e' | KOut -> 'x'
let commas l = if l = [] then "-" else String.concat "," (List.map string_of_int l)
let () =
  iter_lines (fun l ->
    match words l with
    | ["expand"; m; n; p] ->
      let mm = parse_list m and nn = parse_list n in
      let macros r = let c = int_of_n r in
        if c = Char.code 'm' && m <> "-" then Some mm else if c = Char.code 'n' && n <> "-" then Some nn else None in
      (match tok_run (nat_of_int 100000) macros (parse_list p) with
       | Some s -> pr "%s\n" (hex_of_bytes s)
       | None -> pr "clipped\n")
    | ["virun"; rows; text; keys] ->
      let b = buf_of_bytes (bytes_of_hex text) in
      (match vi_session (z_of_int (int_of_string rows)) (nat_of_int 200000) b (bytes_of_hex keys) with
       | Some v -> show_state v
       | None -> pr "clipped\n")
    | ["vitok"; rows; text; keys] ->
      let b = buf_of_bytes (bytes_of_hex text) in
      let ks = bytes_of_hex keys in
      let total = List.length ks in
      let rec stat s pos kinds bounds =
        if s = [] then Some (List.rev kinds, List.rev bounds) else
        match next_command s with
        | Some (c, rest) -> let pos' = pos + (List.length s - List.length rest) in stat rest pos' (kind_of c :: kinds) (pos' :: bounds)
        | None -> None in
      let (kinds, sb) = match stat ks 0 [] [] with
        | Some (k, b) -> (String.init (List.length k) (List.nth k), commas b)
        | None -> ("-", "-") in
      let (tr, r) = vi_session_trace (z_of_int (int_of_string rows)) (nat_of_int 200000) b ks in
      let dyn = List.filter_map (fun (t, i) -> if int_of_nat i = 0 then Some (total - int_of_nat t) else None) tr in
      let status = match r with None -> "clipped" | Some v -> (match v.vi_est with None -> "out" | Some _ -> "ok") in
      pr "%s %s %s %s\n" status (if kinds = "" then "-" else kinds) sb (commas dyn)
    | ["capacity"] -> pr "%d\n" (int_of_nat (capacity_pushes (nat_of_int 5000)))
    | _ -> pr "?\n")
