(* drv_inq.ml -- line-protocol driver of the extracted C09 model (coq/InputQueue.v).
   expand <macro m> <macro n> <program>    each a comma-separated token list ("-" = empty):
       c<hex> change command, k<hex> other keys, d<n> = N. (0 = no count), e<n><r> = N@r (r = m n @)
     -> hex of the key stream that reached the command interpreter, or "clipped"
   capacity -> how many of 5000 pushes of a one-key command the queue takes *)
let pr = Printf.printf
let parse_tok w =
  let rest = String.sub w 1 (String.length w - 1) in
  match w.[0] with
  | 'c' -> TChange (bytes_of_hex rest)
  | 'k' -> TKeys (bytes_of_hex rest)
  | 'd' -> TDot (nat_of_int (int_of_string rest))
  | 'e' -> let r = rest.[String.length rest - 1] in
           TExec (nat_of_int (int_of_string (String.sub rest 0 (String.length rest - 1))), n_of_int (Char.code r))
  | _ -> failwith "tok"
let parse_list w = if w = "-" then [] else List.map parse_tok (String.split_on_char ',' w)
let () =
  iter_lines (fun l ->
    match words l with
    | ["expand"; m; n; p] ->
      let mm = parse_list m and nn = parse_list n in
      let macros r = let c = int_of_n r in
        if c = Char.code 'm' && m <> "-" then Some mm else if c = Char.code 'n' && n <> "-" then Some nn else None in
      (match tok_run (nat_of_int 100000) macros (parse_list p) with
       | Some s -> pr "%s\n" (hex_of_bytes s)
       | None -> pr "clipped\n")
    | ["capacity"] -> pr "%d\n" (int_of_nat (capacity_pushes (nat_of_int 5000)))
    | _ -> pr "?\n")
