(* drv_ex.ml -- line-protocol driver of the extracted ex model (coq/ExDefs.v).
   request:  run <wa 0|1> <file hex> <script hex> [<name hex>=<content hex> ...]
   answer:   F=<flags> X=<xrow> B=<buffer hex> W=<written hex or x> O=<items>
   request:  parse <line hex>      the loop of ExDefs.ex_exec without the execution: ex_loc, ex_cmd, ex_idx, ex_arg, the rest after ex_txt
   answer:   per command `<loc hex>,<cmd hex>,<S|O|U>,<arg hex>,<bytes consumed so far> ` (S: a command of the model, O: an excmds[]
             entry outside it -- the loop stops there, ExDefs hands "unknown" to ex_arg where C hands the entry's abbreviation --, U: unknown)
             items: L<hex> (printed line, without newline) N<int> (= output) M<k> (message kind) E<hex> (echo), comma separated
   The Section variables are instantiated here: the matcher is a loop-free pattern matcher (literal
   bytes, ".", "[set]", leading "^", trailing "$"; ASCII case-insensitive, as xic = 1), the filters are
   the four shell commands of DESIGN section 5 plus a table (command, input) -> output sent with the request:
   words `!<command hex>:<input hex, . = empty, - = none (r !cmd)>:<output hex>`. *)
let pr = Printf.printf
let ints_of_bytes l = List.map int_of_n l
let bytes_of_ints l = List.map n_of_int l
let string_of_bytes l = String.init (List.length l) (fun i -> Char.chr (List.nth l i))
let str_of l = let b = Buffer.create 16 in List.iter (fun c -> Buffer.add_char b (Char.chr (int_of_n c))) l; Buffer.contents b
let bytes_of_str s = List.init (String.length s) (fun i -> n_of_int (Char.code s.[i]))

(* ---- pattern elements ---- *)
type el = Chr of int | Any | Set of bool * int list
let lower c = if c >= 65 && c <= 90 then c + 32 else c
let parse_pat (p : int list) : (bool * el list * bool) option =
  let bol, p = match p with 94 :: r -> true, r | _ -> false, p in
  let rec go p acc =
    match p with
    | [] -> Some (List.rev acc, false)
    | [36] -> Some (List.rev acc, true)
    | 46 :: r -> go r (Any :: acc)
    | 92 :: c :: r -> go r (Chr c :: acc)
    | 91 :: r ->
      let neg, r = match r with 94 :: r' -> true, r' | _ -> false, r in
      let rec set r acc2 = match r with
        | [] -> None
        | 93 :: r' when acc2 <> [] -> Some (acc2, r')
        | a :: 45 :: b :: r' when b <> 93 -> set r' (List.init (max 0 (b - a + 1)) (fun i -> a + i) @ acc2)
        | c :: r' -> set r' (c :: acc2) in
      (match set r [] with None -> None | Some (s, r') -> go r' (Set (neg, s) :: acc))
    | c :: r -> if List.mem c [42; 43; 63; 40; 41; 123; 124] then None else go r (Chr c :: acc) in
  match go p [] with None -> None | Some (els, eol) -> Some (bol, els, eol)

let el_match e c = match e with
  | Chr x -> lower x = lower c
  | Any -> true
  | Set (neg, s) -> let m = List.exists (fun x -> lower x = lower c) s in if neg then not m else m

let rfind_i (pat : int list) (ln : int list) (notbol : bool) : (int * int) option =
  match parse_pat pat with
  | None -> None
  | Some (bol, els, eol) ->
    let a = Array.of_list ln in
    let n = Array.length a in
    let k = List.length els in
    let rec at i = function [] -> true | e :: r -> i < n && el_match e a.(i) && at (i + 1) r in
    let rec from s =
      if s + k > n then None
      else if bol && (s > 0 || notbol) then None
      else if at s els && (not eol || s + k = n) then Some (s, s + k)
      else from (s + 1) in
    from 0

let rvalid p = match parse_pat (ints_of_bytes p) with None -> false | Some _ -> true
let rfind p ln notbol =
  match rfind_i (ints_of_bytes p) (ints_of_bytes ln) notbol with
  | None -> None
  | Some (a, b) -> Some (nat_of_int a, nat_of_int b)

let filter cmd inp =
  let c = str_of cmd and s = str_of inp in
  match c with
  | "cat" -> Some inp
  | "sed d" -> Some []
  | "tr a-z A-Z" -> Some (bytes_of_str (String.uppercase_ascii s))
  | "sort" ->
    let ls = String.split_on_char '\n' s in
    let ls = match List.rev ls with "" :: r -> List.rev r | _ -> ls in
    let ls = List.sort compare ls in
    Some (bytes_of_str (String.concat "" (List.map (fun l -> l ^ "\n") ls)))
  | _ -> None

(* the external commands beyond the four: a table (command, input) -> output, computed by the harness (the reference ran the same
   command on the same bytes).  An input the table does not have = the model hands the command something else than the reference. *)
let strb l = let b = Buffer.create 256 in List.iter (fun c -> Buffer.add_char b (Char.chr (int_of_n c))) l; Buffer.contents b
let hexs s = let b = Buffer.create (2 * String.length s + 1) in String.iter (fun c -> Buffer.add_string b (Printf.sprintf "%02x" (Char.code c))) s; Buffer.contents b
let unhexs w = if w = "." || w = "-" then "" else String.init (String.length w / 2) (fun i -> Char.chr (hexval w.[2*i] * 16 + hexval w.[2*i+1]))
let hexb l = match l with [] -> "-" | _ -> hexs (strb l)
let missing = "<the model hands the command an input the reference did not>"
let pipe_table extra =
  List.filter_map (fun w ->
    if String.length w > 0 && w.[0] = '!' then
      match String.split_on_char ':' (String.sub w 1 (String.length w - 1)) with
      | [c; i; o] -> Some ((unhexs c, (if i = "-" then None else Some (unhexs i))), unhexs o)
      | _ -> None
    else None) extra
let filter_t tab cmd inp =
  let c = strb cmd and s = strb inp in
  match List.assoc_opt (c, Some s) tab with
  | Some o -> Some (bytes_of_str o)
  | None -> (match filter cmd inp with Some o -> Some o | None -> Some (bytes_of_str missing))
let cmdout_t tab cmd =
  match List.assoc_opt (strb cmd, None) tab with
  | Some o -> Some (bytes_of_str o)
  | None -> Some (bytes_of_str missing)

let out_item = function
  | OLine b -> "L" ^ hexb b
  | ONum z -> "N" ^ string_of_int (int_of_z z)
  | OMsg k -> "M" ^ string_of_int (int_of_n k)
  | OEcho b -> "E" ^ hex_of_bytes b

let do_run wa file script extra =
  let files = List.map (fun w -> match String.split_on_char '=' w with
                                 | [a; b] -> (str_of (bytes_of_hex a), bytes_of_hex b) | _ -> ("", [])) extra in
  let fdata = bytes_of_hex file in
  let files = ("f", fdata) :: files in
  let readfile p = List.assoc_opt (str_of p) files in
  let sc = str_of (bytes_of_hex script) in
  let lines = String.split_on_char '\n' sc in
  let lines = match List.rev lines with _ :: r -> List.rev r | [] -> [] in      (* what follows the last newline is never read as a line *)
  let input = List.map bytes_of_str lines in
  let s0 = init_st fdata input (wa = "1") in
  let tab = pipe_table extra in
  (* ExPipeDefs.ex_main_x = ExDefs.ex_main plus `rx` and `r !cmd` as the first command of a line *)
  let s = ex_main_x rvalid rfind (filter_t tab) (cmdout_t tab) readfile (bytes_of_str "f") (nat_of_int 100000) (nat_of_int 4000) s0 in
  let buf = lbuf_cp s.lb (nat_of_int 0) (nat_of_int (List.length s.lb.lns)) in
  pr "F=%d X=%d B=%s W=%s O=%s\n" (int_of_n s.flags) (int_of_z s.xrow) (hexb buf)
    (match s.written with None -> "x" | Some w -> hexb w)
    (String.concat "," (List.rev_map out_item s.out))

let hexd b = match b with [] -> "-" | _ -> hex_of_bytes b
let do_parse hex =
  let ln = bytes_of_hex hex in
  let total = List.length ln in
  let st0 = init_st [] [] false in
  let rec go ln n =
    if ln = [] || n = 0 then () else begin
      let (ln1, loc) = ex_loc ln in
      let (ln2, cmd) = ex_cmd ln1 in
      let idx = ex_idx cmd in
      let abbr = match idx with Some a -> a | None -> bytes_of_str "unknown" in
      let (ln3, arg) = ex_arg ln2 abbr in
      let ((ln4, _), _) = ex_txt ln3 abbr st0 in
      let kind = match idx with Some _ -> "S" | None -> if is_other cmd then "O" else "U" in
      pr "%s,%s,%s,%s,%d " (hexd loc) (hexd cmd) kind (hexd arg) (total - List.length ln4);
      if kind <> "O" then go ln4 (n - 1)
    end in
  if ln = [] then pr "-";
  go ln (total + 1);
  pr "\n"

let () =
  iter_lines (fun l ->
    match words l with
    | "run" :: wa :: file :: script :: extra -> (try do_run wa file script extra with Stack_overflow -> pr "F=1 X=0 B=- W=x O=\n")
    | ["parse"; h] -> do_parse h
    | _ -> pr "?\n")
