(* drv_io.ml -- line-protocol driver of the extracted read/write model (C01, C03).
   rw <chunks: hex,hex,...|-> <b> <e> <old hex|-> [<pos> <chunks2>]   (same request as harness/probe_io.c)
     -> n=<lines> file=<hex> text=<hex> cap=<1 if ln_n < ln_sz> pay=<payload sizes> sz=<n>
   sbuf <len,len,...>  -> n=<s_n> room=<1 if s_n + 1 <= s_sz>   (sizes logged, not compared) *)
let pr = Printf.printf
let split_on c s = if s = "-" || s = "" then [] else String.split_on_char c s
let zlt a b = int_of_z a < int_of_z b

let do_rw chunks b e old second =
  let cs = List.map bytes_of_hex (split_on ',' chunks) in
  let b = int_of_string b and e = int_of_string e in
  let lb1 = match lbuf_rd lbuf_make cs O O, second with
    | Some lb, Some (pos, c2) ->
      let p = nat_of_int (int_of_string pos) in
      lbuf_rd lb (List.map bytes_of_hex (split_on ',' c2)) p p
    | r, _ -> r in
  match lb1 with
  | None -> pr "outoffuel\n"
  | Some lb ->
    let lines = ln lb in
    let n = List.length lines in
    let e = if e < 0 then n else e in
    let w = lbuf_wr lines (nat_of_int b) (nat_of_int e) in
    let file = save_file lines (nat_of_int b) (nat_of_int e) (if old = "absent" then [] else bytes_of_hex old) in
    pr "n=%d file=%s text=%s cap=%d ovf=%b pay=%s sz=%d lnsz=%d\n" n (hex_of_bytes file)
      (hex_of_bytes (List.concat lines))
      (if n < int_of_z (ln_sz lb) then 1 else 0) (ovf w)
      (String.concat "," (List.map (fun p -> string_of_int (List.length p)) (outp w)))
      (int_of_nat (wsz w)) (int_of_z (ln_sz lb))

let do_sbuf lens =
  let sb = List.fold_left (fun sb l ->
      let l = int_of_string l in
      if l < 0 then sbuf_chr sb (n_of_int 97)
      else sbuf_mem sb (List.init l (fun _ -> n_of_int 97))) sbuf_make (split_on ',' lens) in
  let sb = sbuf_buf sb in
  pr "n=%d room=%d sz=%d\n" (int_of_z (sb_n sb)) (if int_of_z (sb_n sb) + 1 <= int_of_z (sb_sz sb) then 1 else 0) (int_of_z (sb_sz sb))

let () =
  iter_lines (fun l ->
    (match words l with
    | ["rw"; chunks; b; e; old] -> do_rw chunks b e old None
    | ["rw"; chunks; b; e; old; pos; c2] -> do_rw chunks b e old (Some (pos, c2))
    | ["sbuf"; lens] -> do_sbuf lens
    | _ -> pr "?\n");
    flush stdout)
