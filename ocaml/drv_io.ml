(* drv_io.ml -- line-protocol driver of the extracted read/write model (C01, C03).
   rw <chunks: hex,hex,...|-> <b> <e> <old hex|-> [<pos> <chunks2>]   (same request as harness/probe_io.c)
     -> n=<lines> file=<hex> text=<hex> cap=<1 if ln_n < ln_sz> pay=<payload sizes> sz=<n>
   sbuf <len,len,...>  -> n=<s_n> room=<1 if s_n + 1 <= s_sz>   (sizes logged, not compared) *)
let pr = Printf.printf
let split_on c s = if s = "-" || s = "" then [] else String.split_on_char c s
let zlt a b = int_of_z a < int_of_z b

let do_rw chunks b e old second =
  let cs = List.map bytes_of_hex (split_on ',' chunks) in
  let b = int_of_string b and e = int_of_string e in
  let lb1 = match lbuf_rd lbuf_make cs O O, second with
    | Some lb, Some (pos, c2) ->
      let (p, q) = match String.split_on_char ':' pos with
        | [a; b] -> (nat_of_int (int_of_string a), nat_of_int (int_of_string b))
        | _ -> (nat_of_int (int_of_string pos), nat_of_int (int_of_string pos)) in
      lbuf_rd lb (List.map bytes_of_hex (split_on ',' c2)) p q
    | r, _ -> r in
  match lb1 with
  | None -> pr "outoffuel\n"
  | Some lb ->
    let lines = ln lb in
    let n = List.length lines in
    let e = if e < 0 then n else e in
    let w = lbuf_wr lines (nat_of_int b) (nat_of_int e) in
    let file = save_file lines (nat_of_int b) (nat_of_int e) (if old = "absent" then [] else bytes_of_hex old) in
    pr "n=%d file=%s text=%s cap=%d ovf=%b pay=%s sz=%d lnsz=%d\n" n (hex_of_bytes file)
      (hex_of_bytes (List.concat lines))
      (if n < int_of_z (ln_sz lb) then 1 else 0) (ovf w)
      (String.concat "," (List.map (fun p -> string_of_int (List.length p)) (outp w)))
      (int_of_nat (wsz w)) (int_of_z (ln_sz lb))

let do_sbuf lens =
  let sb = List.fold_left (fun sb l ->
      let l = int_of_string l in
      if l < 0 then sbuf_chr sb (n_of_int 97)
      else sbuf_mem sb (List.init l (fun _ -> n_of_int 97))) sbuf_make (split_on ',' lens) in
  let sb = sbuf_buf sb in
  pr "n=%d room=%d sz=%d\n" (int_of_z (sb_n sb)) (if int_of_z (sb_n sb) + 1 <= int_of_z (sb_sz sb) then 1 else 0) (int_of_z (sb_sz sb))

(* sv cmd=<w|w!|wq|wq!|x|x!|xa|xa!|q|q!> rng=<b,e|-> tgt=<own|other> text=<hex> dirty=<0|1> own=<absent|hex> ownm=<n>
      rec=<n> other=<absent|hex> otherm=<n> sched=<o|e|sK,...|->
      [pre=<name@tgt@rng;...>]   earlier commands of the same session: name w | w! | pipe (= :w !cmd), rng b,e or -
      [nb=<k> b<i>text=<hex> b<i>dirty=<0|1> b<i>file=<absent|hex> b<i>m=<n> b<i>rec=<n> for i < k]   bufs[1..k] on paths 2..k+1
   -> q=<0|1> st=<ok|refused|failed> dirty=<0|1: some buffer is modified> own=<hex|absent> other=<hex|absent> gs=<hex|absent>;...
      used=<calls consumed> *)
let do_sv kvs =
  let get k = try List.assoc k kvs with Not_found -> "-" in
  let has_key k = List.mem_assoc k kvs in
  let cmd = get "cmd" in
  let has c = String.contains cmd c in
  let file k m = if get k = "absent" || not (has_key k) then [] else [(bytes_of_hex (get k), z_of_int (int_of_string (get m)))] in
  let nb = if has_key "nb" then int_of_string (get "nb") else 0 in
  let ks = List.init nb (fun i -> i) in
  let bk i k = Printf.sprintf "b%d%s" i k in
  let fs = List.map (fun f -> (O, f)) (file "own" "ownm") @ List.map (fun f -> (S O, f)) (file "other" "otherm")
           @ List.concat (List.map (fun i -> List.map (fun f -> (nat_of_int (i + 2), f)) (file (bk i "file") (bk i "m"))) ks) in
  let bf = { b_lines = split_lines (bytes_of_hex (get "text")); b_path = O; b_mtime = z_of_int (int_of_string (get "rec"));
             b_dirty = (get "dirty" = "1") } in
  let others = List.map (fun i ->
      { b_lines = split_lines (bytes_of_hex (get (bk i "text"))); b_path = nat_of_int (i + 2);
        b_mtime = z_of_int (int_of_string (get (bk i "rec"))); b_dirty = (get (bk i "dirty") = "1") }) ks in
  let sch = List.map (fun w -> if w = "o" then OOk else if w = "e" then OErr
                        else OShort (nat_of_int (int_of_string (String.sub w 1 (String.length w - 1))))) (split_on ',' (get "sched")) in
  let now = z_of_int 200 in
  let path_of t = if t = "other" then S O else O in
  let rng_of r = match split_on ',' r with [b; e] -> Some (nat_of_int (int_of_string b), nat_of_int (int_of_string e)) | _ -> None in
  (* the earlier commands of the session *)
  let (bf, fs, sch) = List.fold_left (fun (bf, fs, sch) c ->
      match String.split_on_char '@' c with
      | [name; tgt; r] when name <> "pipe" ->
        let (((_, bf'), fs'), r') = ec_write now false (String.contains name '!') (rng_of r) (path_of tgt) bf fs sch in (bf', fs', r')
      | _ -> (bf, fs, sch)) (bf, fs, sch) (split_on ';' (get "pre")) in
  let (q, st, bufs', fs', r) =
    if cmd = "w" || cmd = "w!" then
      let (((st, bf'), fs'), r) = ec_write now false (has '!') (rng_of (get "rng")) (path_of (get "tgt")) bf fs sch in (false, st, bf' :: others, fs', r)
    else
      let ((((q, st), bufs'), fs'), r) = ec_quit now (cmd.[0] = 'w' || cmd.[0] = 'x') (cmd.[0] = 'x') (has 'a') (has '!') (bf :: others) fs sch in
      (q, st, bufs', fs', r) in
  let show p = match fs_content fs' p with Some c -> hex_of_bytes c | None -> "absent" in
  pr "q=%d st=%s dirty=%d own=%s other=%s gs=%s used=%d\n" (if q then 1 else 0)
    (match st with SOk -> "ok" | SRefused -> "refused" | SFailed -> "failed")
    (if List.exists (fun b -> b.b_dirty) bufs' then 1 else 0) (show O) (show (S O))
    (if nb = 0 then "-" else String.concat ";" (List.map (fun i -> show (nat_of_int (i + 2))) ks)) (List.length sch - List.length r)

(* gs names=<k> links=<a>b,...|- files=<n>:<hex>:<m>,...|- steps=<step>;<step>;...
   one editor session on the names 0..k-1 (links: a is a symbolic link to b; files: regular files with their time
   stamps), one buffer, foreign writers between the commands (coq/IoLinkDefs.v).  Steps (fields separated by @):
     E@<name>                   ec_edit_l: load the buffer from the name
     T@<hex>                    the buffer is edited: its text becomes <hex>, modified
     W@<x|!|x!|->@<name>@<b,e|->  ec_write_l (x = the command is :x)
     Q@<q|wq|x|xa>[!]           ec_quit_l over this one buffer
     F@w@<name>@<hex>@<stamp> | F@r@<name>@<hex>@<stamp> | F@t@<name>@<stamp> | F@d@<name>   foreign write through links /
                                rename over the name / touch / unlink
   Editor writes stamp files with 200.  Steps after a quit are ignored.
   -> q=<0|1> st=<status of the last W/Q> dirty=<0|1> rec=<recorded stamp> dir=<L<target>|<hex>|absent>,... for every name *)
let do_gs kvs =
  let get k = try List.assoc k kvs with Not_found -> "-" in
  let ios = int_of_string in
  let nn = ios (get "names") in
  let lk = List.map (fun w -> match String.split_on_char '>' w with
      | [a; b] -> (nat_of_int (ios a), nat_of_int (ios b)) | _ -> failwith "links") (split_on ',' (get "links")) in
  let fs = List.map (fun w -> match String.split_on_char ':' w with
      | [n; h; m] -> (nat_of_int (ios n), (bytes_of_hex h, z_of_int (ios m))) | _ -> failwith "files") (split_on ',' (get "files")) in
  let now = z_of_int 200 in
  let rng_of r = match split_on ',' r with [b; e] -> Some (nat_of_int (ios b), nat_of_int (ios e)) | _ -> None in
  let bf0 = { b_lines = []; b_path = O; b_mtime = z_of_int (-1); b_dirty = false } in
  let (lk, fs, bf, q, st) = List.fold_left (fun (lk, fs, bf, q, st) step ->
      if q then (lk, fs, bf, q, st) else
      match String.split_on_char '@' step with
      | ["E"; n] -> (lk, fs, ec_edit_l lk fs (nat_of_int (ios n)), q, st)
      | ["T"; h] -> (lk, fs, { bf with b_lines = split_lines (bytes_of_hex h); b_dirty = true }, q, st)
      | ["W"; fl; n; r] ->
        let (((st', bf'), fs'), _) = ec_write_l now (String.contains fl 'x') (String.contains fl '!') (rng_of r) lk (nat_of_int (ios n)) bf fs [] in
        (lk, fs', bf', false, st')
      | ["Q"; c] ->
        let has ch = String.contains c ch in
        let ((((q', st'), bufs'), fs'), _) = ec_quit_l now (c.[0] = 'w' || c.[0] = 'x') (c.[0] = 'x') (has 'a') (has '!') lk [bf] fs [] in
        (lk, fs', (match bufs' with b :: _ -> b | [] -> bf), q', st')
      | ["F"; "w"; n; h; m] -> let (lk', fs') = foreign (lk, fs) (FWrite (nat_of_int (ios n), bytes_of_hex h, z_of_int (ios m))) in (lk', fs', bf, q, st)
      | ["F"; "r"; n; h; m] -> let (lk', fs') = foreign (lk, fs) (FReplace (nat_of_int (ios n), bytes_of_hex h, z_of_int (ios m))) in (lk', fs', bf, q, st)
      | ["F"; "t"; n; m] -> let (lk', fs') = foreign (lk, fs) (FTouch (nat_of_int (ios n), z_of_int (ios m))) in (lk', fs', bf, q, st)
      | ["F"; "d"; n] -> let (lk', fs') = foreign (lk, fs) (FRemove (nat_of_int (ios n))) in (lk', fs', bf, q, st)
      | _ -> failwith ("gs step " ^ step)) (lk, fs, bf0, false, SOk) (split_on ';' (get "steps")) in
  let show i = let p = nat_of_int i in
    match lk_get lk p with
    | Some t -> Printf.sprintf "L%d" (int_of_nat t)
    | None -> (match fs_content fs p with Some c -> hex_of_bytes c | None -> "absent") in
  pr "q=%d st=%s dirty=%d rec=%d dir=%s\n" (if q then 1 else 0)
    (match st with SOk -> "ok" | SRefused -> "refused" | SFailed -> "failed")
    (if bf.b_dirty then 1 else 0) (int_of_z bf.b_mtime) (String.concat "," (List.init nn show))

(* ts names=<k> links=<a>b,...|- files=<n>:<hex>:<m>,...|- steps=<step>;<step>;...
   one editor session over the buffer table (coq/IoTableDefs.v).  <arg> = - (none) | % | # | <name>.  Steps:
     E@<arg>@<0|1>               ec_edit_t (1 = with !); the first one loads the file named on the command line
     T@<hex>                     the current buffer is edited: its text becomes <hex>, modified
     P@<hex>                     the current buffer is edited: the line <hex> is put in front, modified
     W@<x|!|x!|->@<arg>@<b,e|->  ec_write_t
     Q@<q|wq|x|xa>[!]@<arg>      ec_quit_t
     F@...                       foreign operations as for gs
   -> q=<0|1> st=<status of the last E/W/Q> dirty=<0|1: some buffer is modified> pcur=<name> palt=<name|-> (current and
      alternate path right before the last W/Q step) table=<name>:<recorded stamp>:<dirty>,... dir=... *)
let do_ts kvs =
  let get k = try List.assoc k kvs with Not_found -> "-" in
  let ios = int_of_string in
  let nn = ios (get "names") in
  let lk = List.map (fun w -> match String.split_on_char '>' w with
      | [a; b] -> (nat_of_int (ios a), nat_of_int (ios b)) | _ -> failwith "links") (split_on ',' (get "links")) in
  let fs = List.map (fun w -> match String.split_on_char ':' w with
      | [n; h; m] -> (nat_of_int (ios n), (bytes_of_hex h, z_of_int (ios m))) | _ -> failwith "files") (split_on ',' (get "files")) in
  let now = z_of_int 200 in
  let rng_of r = match split_on ',' r with [b; e] -> Some (nat_of_int (ios b), nat_of_int (ios e)) | _ -> None in
  let arg_of a = if a = "-" || a = "" then ANone else if a = "%" then ACur else if a = "#" then AAlt else AName (nat_of_int (ios a)) in
  let (lk, fs, tb, q, st, prev) = List.fold_left (fun (lk, fs, tb, q, st, prev) step ->
      if q then (lk, fs, tb, q, st, prev) else
      match String.split_on_char '@' step with
      | ["E"; a; bang] -> let (st', tb') = ec_edit_t (bang = "1") lk fs (arg_of a) tb in (lk, fs, tb', q, st', prev)
      | ["T"; h] ->
        (match tb with
         | b0 :: rest -> (lk, fs, { b0 with b_lines = split_lines (bytes_of_hex h); b_dirty = true } :: rest, q, st, prev)
         | [] -> (lk, fs, tb, q, st, prev))
      | ["P"; h] ->
        (match tb with
         | b0 :: rest -> (lk, fs, { b0 with b_lines = bytes_of_hex h :: b0.b_lines; b_dirty = true } :: rest, q, st, prev)
         | [] -> (lk, fs, tb, q, st, prev))
      | ["W"; fl; a; r] ->
        let (((st', tb'), fs'), _) = ec_write_t now (String.contains fl 'x') (String.contains fl '!') (rng_of r) lk (arg_of a) tb fs [] in
        (lk, fs', tb', false, st', tb)
      | ["Q"; c; a] ->
        let has ch = String.contains c ch in
        let ((((q', st'), tb'), fs'), _) = ec_quit_t now (c.[0] = 'w' || c.[0] = 'x') (c.[0] = 'x') (has 'a') (has '!') lk (arg_of a) tb fs [] in
        (lk, fs', tb', q', st', tb)
      | ["F"; "w"; n; h; m] -> let (lk', fs') = foreign (lk, fs) (FWrite (nat_of_int (ios n), bytes_of_hex h, z_of_int (ios m))) in (lk', fs', tb, q, st, prev)
      | ["F"; "r"; n; h; m] -> let (lk', fs') = foreign (lk, fs) (FReplace (nat_of_int (ios n), bytes_of_hex h, z_of_int (ios m))) in (lk', fs', tb, q, st, prev)
      | ["F"; "t"; n; m] -> let (lk', fs') = foreign (lk, fs) (FTouch (nat_of_int (ios n), z_of_int (ios m))) in (lk', fs', tb, q, st, prev)
      | ["F"; "d"; n] -> let (lk', fs') = foreign (lk, fs) (FRemove (nat_of_int (ios n))) in (lk', fs', tb, q, st, prev)
      | _ -> failwith ("ts step " ^ step)) (lk, fs, [], false, SOk, []) (split_on ';' (get "steps")) in
  let show i = let p = nat_of_int i in
    match lk_get lk p with
    | Some t -> Printf.sprintf "L%d" (int_of_nat t)
    | None -> (match fs_content fs p with Some c -> hex_of_bytes c | None -> "absent") in
  let nm k = match List.nth_opt prev k with Some b -> string_of_int (int_of_nat b.b_path) | None -> "-" in
  pr "q=%d st=%s dirty=%d pcur=%s palt=%s table=%s dir=%s\n" (if q then 1 else 0)
    (match st with SOk -> "ok" | SRefused -> "refused" | SFailed -> "failed")
    (if List.exists (fun b -> b.b_dirty) tb then 1 else 0) (nm 0) (nm 1)
    (String.concat "," (List.map (fun b -> Printf.sprintf "%d:%d:%d" (int_of_nat b.b_path) (int_of_z b.b_mtime) (if b.b_dirty then 1 else 0)) tb))
    (String.concat "," (List.init nn show))

(* aw names=<k> files=<n>:<hex>:<m>,...|- args=<n>,<n>... fault=<step index>:<n>:<e|s>:<count>|- steps=<step>;<step>;...
   (fault: the editor command at that step runs under the schedule n x OOk, then OErr or OShort count)
   one editing history with the autowrite option (coq/IoAwDefs.v step bufs_modified), the editor started on args[0].  Steps:
     S@<0|1>                     :se noaw / :se aw
     P@<hex>                     the current buffer is edited: the line <hex> is put in front, modified
     F@...                       foreign operations as for gs
     W@<x|!|x!|->@<arg>          :w :x [!] [path]
     Q@<q|wq|x|xa>[!]@<arg>      :q :wq :x :xa
     E@<arg>@<0|1>               :e [!] [path]
     N                           :n  (the next of args, if there is one; the position moves when ec_edit returned 0)
     B@<id>@<0|1>                :b [!] <id>  (ids are given in the order of loading, from 1)
     X                           :!cmd  (a command that touches none of the names)
     -                           nothing (a step the model does not see)
   -> one word per step: <current name>:<quit 0|1>:<status of the step>:<name state>,<name state>,... *)
let do_aw kvs =
  let get k = try List.assoc k kvs with Not_found -> "-" in
  let ios = int_of_string in
  let nn = ios (get "names") in
  let fs = List.map (fun w -> match String.split_on_char ':' w with
      | [n; h; m] -> (nat_of_int (ios n), (bytes_of_hex h, z_of_int (ios m))) | _ -> failwith "files") (split_on ',' (get "files")) in
  let args = List.map ios (split_on ',' (get "args")) in
  let now = z_of_int 200 in
  let arg_of a = if a = "-" || a = "" then ANone else if a = "%" then ACur else if a = "#" then AAlt else AName (nat_of_int (ios a)) in
  let s0 = start [] fs (nat_of_int (List.hd args)) in
  let cur s = match s.e_tb with (b, _) :: _ -> int_of_nat b.b_path | [] -> -1 in
  let note ids s = if List.mem_assoc (cur s) ids then ids else ids @ [(cur s, List.length ids + 1)] in
  let show s i = match fs_content s.e_fs (nat_of_int i) with Some c -> hex_of_bytes c | None -> "absent" in
  let word s = Printf.sprintf "%d:%d:%s:%s" (cur s) (if s.e_quit then 1 else 0)
      (match s.e_st with SOk -> "ok" | SRefused -> "refused" | SFailed -> "failed") (String.concat "," (List.init nn (show s))) in
  let fault = match String.split_on_char ':' (get "fault") with
    | [i; n; k; a] -> Some (ios i, List.init (ios n) (fun _ -> OOk) @ [if k = "e" then OErr else OShort (nat_of_int (ios a))])
    | _ -> None in
  let (_, _, _, out) = List.fold_left (fun (s, ids, npos, out) stp ->
      let sch = match fault with Some (i, l) when i = List.length out -> l | _ -> [] in
      let run1 c = step bufs_modified s c in
      let (s', npos') = match String.split_on_char '@' stp with
        | ["S"; v] -> (run1 (ASet (v = "1")), npos)
        | ["P"; h] -> (match s.e_tb with
            | (b0, _) :: _ -> (run1 (AText (bytes_of_hex h :: b0.b_lines)), npos)
            | [] -> (s, npos))
        | ["F"; "w"; n; h; m] -> (run1 (AForeign (FWrite (nat_of_int (ios n), bytes_of_hex h, z_of_int (ios m)))), npos)
        | ["F"; "r"; n; h; m] -> (run1 (AForeign (FReplace (nat_of_int (ios n), bytes_of_hex h, z_of_int (ios m)))), npos)
        | ["F"; "t"; n; m] -> (run1 (AForeign (FTouch (nat_of_int (ios n), z_of_int (ios m)))), npos)
        | ["F"; "d"; n] -> (run1 (AForeign (FRemove (nat_of_int (ios n)))), npos)
        | ["W"; fl; a] -> (run1 (AWrite (now, String.contains fl 'x', String.contains fl '!', None, arg_of a, sch)), npos)
        | ["Q"; c; a] ->
          let has ch = String.contains c ch in
          (run1 (AQuit (now, (c.[0] = 'w' || c.[0] = 'x'), (c.[0] = 'x'), has 'a', has '!', arg_of a, sch)), npos)
        | ["E"; a; bang] -> (run1 (AEdit (now, bang = "1", arg_of a, sch)), npos)
        | ["N"] ->
          (match List.nth_opt args (npos + 1) with
           | Some n -> let s' = run1 (AEdit (now, false, AName (nat_of_int n), sch)) in
             (s', if s'.e_st = SOk && not s.e_quit then npos + 1 else npos)
           | None -> (s, npos))
        | ["B"; id; bang] ->
          let slot = let rec find i = function
              | [] -> 1000
              | (b, _) :: r -> (match List.assoc_opt (int_of_nat b.b_path) ids with
                  | Some k when k = ios id -> i | _ -> find (i + 1) r) in find 0 s.e_tb in
          (run1 (ABuffer (now, bang = "1", nat_of_int slot, sch)), npos)
        | ["X"] -> (run1 (AExec (now, [], sch)), npos)
        | ["-"] -> (s, npos)
        | _ -> failwith ("aw step " ^ stp) in
      (s', note ids s', npos', word s' :: out)) (s0, note [] s0, 0, []) (split_on ';' (get "steps")) in
  pr "%s\n" (String.concat " " (List.rev out))

let () =
  iter_lines (fun l ->
    (match words l with
    | "aw" :: kvs -> do_aw (List.map (fun w -> match String.index_opt w '=' with
        | Some i -> (String.sub w 0 i, String.sub w (i + 1) (String.length w - i - 1)) | None -> (w, "")) kvs)
    | ["rw"; chunks; b; e; old] -> do_rw chunks b e old None
    | ["rw"; chunks; b; e; old; pos; c2] -> do_rw chunks b e old (Some (pos, c2))
    | ["sbuf"; lens] -> do_sbuf lens
    | "gs" :: kvs -> do_gs (List.map (fun w -> match String.index_opt w '=' with
        | Some i -> (String.sub w 0 i, String.sub w (i + 1) (String.length w - i - 1)) | None -> (w, "")) kvs)
    | "ts" :: kvs -> do_ts (List.map (fun w -> match String.index_opt w '=' with
        | Some i -> (String.sub w 0 i, String.sub w (i + 1) (String.length w - i - 1)) | None -> (w, "")) kvs)
    | "sv" :: kvs -> do_sv (List.map (fun w -> match String.index_opt w '=' with
        | Some i -> (String.sub w 0 i, String.sub w (i + 1) (String.length w - i - 1)) | None -> (w, "")) kvs)
    | _ -> pr "?\n");
    flush stdout)
