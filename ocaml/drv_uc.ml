(* drv_uc.ml -- line-protocol driver of the extracted uc.c model (same protocol as harness/probe_uc.c) *)
let pr = Printf.printf
let rec nth0 l i = match l with [] -> N0 | x :: r -> if i = 0 then x else nth0 r (i - 1)

let do_sweep lo hi =
  for c = lo to hi do
    if not (c >= 0xd800 && c <= 0xdfff) then begin
      let cn = n_of_int c in
      let b = encode cn @ [n_of_int 65] in
      pr "%d %d %d %d %d %d %s\n" c (int_of_nat (uc_len b)) (int_of_n (uc_code b)) (int_of_nat (uc_end b))
        (int_of_nat (uc_next b)) (int_of_nat (uc_slen b)) (hex_of_bytes (uc_cput cn))
    end
  done

let do_str hex =
  let s = bytes_of_hex hex in
  let len = List.length s in
  let n = int_of_nat (uc_slen s) in
  pr "slen=%d chop=" n;
  List.iter (fun o -> pr "%d," (int_of_nat o)) (uc_chop s);
  pr " chr=";
  for i = -1 to n + 1 do
    match uc_chr s (z_of_int i) with Some o -> pr "%d," (int_of_nat o) | None -> pr "x,"
  done;
  pr " off=";
  for i = 0 to len do pr "%d," (int_of_nat (uc_off s (nat_of_int i))) done;
  pr " len=";
  for i = 0 to len do pr "%d," (int_of_nat (uc_len (skipn i s))) done;
  pr " code=";
  for i = 0 to len do pr "%d," (int_of_n (uc_code (skipn i s))) done;
  pr " end=";
  for i = 0 to len do pr "%d," (int_of_nat (uc_end (skipn i s))) done;
  pr " next=";
  for i = 0 to len do pr "%d," (int_of_nat (uc_next (skipn i s))) done;
  pr " beg=";
  for i = 0 to len do pr "%d," (int_of_nat (uc_beg (List.rev (firstn i s)) (nth0 s i))) done;
  pr " prev=";
  for i = 0 to len do pr "%d," (int_of_nat (uc_prev (List.rev (firstn i s)))) done;
  pr " kind=";
  for i = 0 to len do pr "%d," (int_of_n (uc_kind (skipn i s))) done;
  pr " cls=";
  for i = 0 to len do
    let t = skipn i s in
    let b x = if x then 1 else 0 in
    pr "%d," (b (uc_isspace t) lor (b (uc_isprint t) lsl 1) lor (b (uc_isalpha t) lsl 2) lor (b (uc_isdigit t) lsl 3))
  done;
  pr " sub=";
  if n <= 6 then
    for b = -1 to n do for e = -1 to n do
      (match uc_sub s (z_of_int b) (z_of_int e) with Some r -> pr "%s," (hex_of_bytes r) | None -> pr "x,")
    done done;
  pr "\n"

(* sub / cat / mem: the allocating helpers (UcMemDefs.v), same answers as harness/probe_uc.c *)
let hexs l = hex_of_bytes l
let do_sub hex b e =
  let s = bytes_of_hex hex in
  (match uc_sub_t s (z_of_int b) (z_of_int e) with Some r -> pr "%s\n" (hexs r) | None -> pr "x\n")
let do_cat h1 h2 = pr "%s\n" (hexs (uc_cat (bytes_of_hex h1) (bytes_of_hex h2)))
let do_mem hex =
  let s = bytes_of_hex hex in
  let len = List.length s in
  pr "dup=%s last=%d trim=%s keep=1 comb=" (hexs (uc_dup s)) (int_of_nat (uc_lastline s)) (hexs (uc_trim s));
  for i = 0 to len do pr "%d" (if uc_iscomb (skipn i s) then 1 else 0) done;
  pr "\n"

let () =
  iter_lines (fun l ->
    match words l with
    | ["sweep"; lo; hi] -> do_sweep (int_of_string lo) (int_of_string hi)
    | ["str"; h] -> do_str h
    | ["sub"; h; b; e] -> do_sub h (int_of_string b) (int_of_string e)
    | ["cat"; h1; h2] -> do_cat h1 h2
    | ["mem"; h] -> do_mem h
    | _ -> pr "?\n")
