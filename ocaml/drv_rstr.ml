(* drv_rstr.ml -- line-protocol driver of the extracted rstr.c model and the simple-pattern spec
   (same requests as harness/probe_rstr.c):
     f <hexpat> <hexline> <flags>   -> path=<s|g> find=<rc>[:so,eo:so1,eo1:so2,eo2] spec=<rc>[:so,eo]
     sw <hexpat> <maxlen> <alphabet> -> path=<s|g> R=<2 chars per case> S=<2 chars per case> *)
let pr = Printf.printf
let b36 v = if v < 0 || v > 35 then '?' else if v < 10 then Char.chr (48 + v) else Char.chr (87 + v)

let res_str = function
  | Found (so, eo) -> Printf.sprintf "0:%d,%d" (int_of_z so) (int_of_z eo)
  | NotFound -> "-1"
  | OOB -> "oob"

let do_find hpat hline flags =
  let pat = bytes_of_hex hpat and line = bytes_of_hex hline in
  let ic = flags land 1 <> 0 and notbol = flags land 2 <> 0 and noteol = flags land 4 <> 0 in
  match rstr_make pat ic with
  | General -> pr "path=g\n"
  | Simple rs ->
    let r = rstr_find rs line notbol noteol in
    let grp = match r with
      | Found (so, eo) ->
        String.concat "" (List.map (fun (a, b) -> Printf.sprintf ":%d,%d" (int_of_z a) (int_of_z b))
                            (rstr_groups (nat_of_int 3) so eo))
      | _ -> "" in
    let n = List.length line in
    let spec =
      if n > 0 && int_of_n (List.nth line (n - 1)) = 10 then
        res_str (spec_res (spat_of rs) ic notbol (firstn (n - 1) line))
      else "na" in
    pr "path=s find=%s%s spec=%s\n" (match r with Found _ -> "0" | NotFound -> "-1" | OOB -> "oob") grp spec

let split_commas s = List.filter (fun w -> w <> "") (String.split_on_char ',' s)

let do_sweep hpat maxlen alphaspec =
  let pat = bytes_of_hex hpat in
  let alpha = Array.of_list (List.map bytes_of_hex (split_commas alphaspec)) in
  let na = Array.length alpha in
  let mkcontent n idx =
    let d = Array.make (max n 1) 0 in
    let r = ref idx in
    for i = n - 1 downto 0 do d.(i) <- !r mod na; r := !r / na done;
    let l = ref [] in
    for i = n - 1 downto 0 do l := alpha.(d.(i)) @ !l done;
    !l in
  match rstr_make pat false, rstr_make pat true with
  | Simple rs0, Simple rs1 ->
    let buf = Buffer.create 65536 in
    let code = function
      | Found (so, eo) -> Buffer.add_char buf (b36 (int_of_z so)); Buffer.add_char buf (b36 (int_of_z eo))
      | NotFound -> Buffer.add_string buf "--"
      | OOB -> Buffer.add_string buf "@@" in
    pr "path=s";
    for pass = 0 to 1 do
      Buffer.clear buf;
      for ic = 0 to 1 do
        let rs = if ic = 0 then rs0 else rs1 in
        for fl = 0 to 3 do
          let notbol = fl land 1 <> 0 and noteol = fl land 2 <> 0 in
          for n = 0 to maxlen do
            let cnt = ref 1 in
            for _ = 1 to n do cnt := !cnt * na done;
            for idx = 0 to !cnt - 1 do
              let content = mkcontent n idx in
              if pass = 0 then code (rstr_find rs (content @ [n_of_int 10]) notbol noteol)
              else code (spec_res (spat_of rs) (ic = 1) notbol content)
            done
          done
        done
      done;
      pr "%s%s" (if pass = 0 then " R=" else " S=") (Buffer.contents buf)
    done;
    pr "\n"
  | _ -> pr "path=g\n"

let () =
  iter_lines (fun l ->
    (match words l with
     | ["f"; p; s; fl] -> do_find p s (int_of_string fl)
     | ["sw"; p; n; a] -> do_sweep p (int_of_string n) a
     | _ -> pr "?\n");
    flush stdout)
