(* drv_bufs.ml -- line-protocol driver of the extracted buffer-table model (C20).
   (a command token LN/tok/tok/... is one `|`-joined command line, run by ex_line)
   request:  H nfiles (name lines)* nargs name* ncmds cmd*      (names/lines hex, lines comma separated)
   answer:   per command the canonical events joined by '|' ('.' = none), commands separated by ' ',
             then ';' and the final file system as name=lines *)
let split c s = String.split_on_char c s
let lines_of w = if w = "-" then [] else List.map bytes_of_hex (split ',' w)
let addr w = if w = "-" then None else Some (z_of_int (int_of_string w))
let b01 w = w = "1"

let rec parse_cmd tok =
  if String.length tok > 3 && String.sub tok 0 3 = "LN/" then
    (* a command line c1|c2|...: the sub-tokens are separated by '/' *)
    let subs = List.map parse_cmd (split '/' (String.sub tok 3 (String.length tok - 3))) in
    if List.for_all (function `C _ | `P _ -> true | _ -> false) subs
    then `L (List.map (function `C c | `P c -> c | _ -> assert false) subs) else `Bad
  else
  match split ':' tok with
  | ["E"; bang; ew; pt; p] ->
      let a = (match pt with "lit" -> PLit (bytes_of_hex p) | "alt" -> PAlt | "cur" -> PCur | _ -> PNone) in
      `C (CEdit (b01 bang, b01 ew, a))
  | ["BL"] -> `C CBufList | ["BD"] -> `C CBufDel | ["BR"] -> `C CBufRenum
  | ["BI"; n] -> `C (CBufId (z_of_int (int_of_string n)))
  | ["B+"] -> `C CBufNext | ["B-"] -> `C CBufPrev
  | ["BA"; k] -> `C (CBufAlias (nat_of_int (int_of_string k)))
  | ["N"] -> `C CNext | ["P"] -> `C CPrev
  | ["Q"; b] -> `C (CQuit (b01 b))
  | ["W"; b; p] -> `C (CWrite (b01 b, if p = "-" then None else Some (bytes_of_hex p)))
  | ["SW"; b] -> `C (CSetWa (b01 b))
  | ["OA"; a; ls] -> `C (COp (OAppend (addr a, lines_of ls)))
  | ["OD"; a] -> `C (COp (ODelete (addr a)))
  | ["OS"; a; t] -> `C (COp (OSubst (addr a, bytes_of_hex t)))
  | ["OU"] -> `C (COp OUndo) | ["OR"] -> `C (COp ORedo)
  | ["O="] -> `C (COp OEq) | ["O%"] -> `P (COp OPrintAll)
  | ["OP"; n] -> `C (COp (OPrintAt (z_of_int (int_of_string n))))
  | ["AL"] -> `Alive
  | _ -> `Bad

let alias i = if i = 0 then "%" else if i = 1 then "#" else if i = 2 then "^" else "_"
let show_ev printall e =
  match e with
  | EvRead -> ["R"]
  | EvMsg _ -> []
  | EvList l ->
      ["L" ^ String.concat "," (List.map (fun (((id, i), p), d) ->
         Printf.sprintf "%d.%s.%s.%d" (int_of_z id) (alias (int_of_nat i)) (hex_of_bytes p) (if d then 1 else 0)) l)]
  | EvOut o ->
      (match o with
       | [ONum n] -> [Printf.sprintf "=%d" (int_of_z n)]
       | [] -> if printall then ["T"] else []
       | _ -> ["T" ^ String.concat "," (List.map (function OLine l -> hex_of_bytes l | ONum n -> string_of_int (int_of_z n)) o)])

let do_hist ws =
  let ws = ref ws in
  let next () = match !ws with w :: r -> ws := r; w | [] -> "" in
  let nf = int_of_string (next ()) in
  let files = List.init nf (fun _ -> let n = next () in let l = next () in (bytes_of_hex n, lines_of l)) in
  let na = int_of_string (next ()) in
  let args = List.init na (fun _ -> bytes_of_hex (next ())) in
  let nc = int_of_string (next ()) in
  let (s0, _) = c_init files args in
  let s = ref s0 in
  let out = Buffer.create 256 in
  for k = 1 to nc do
    let tok = next () in
    let evs =
      if !s.xquit then []
      else match parse_cmd tok with
        | `C c -> let (s1, evs) = c_command !s c in s := s1; List.concat_map (show_ev false) evs
        | `P c -> let (s1, evs) = c_command !s c in s := s1; List.concat_map (show_ev true) evs
        | `L cs -> let (s1, evs) = c_line !s cs in s := s1;
                   (* a line is observed only through "some file was read" *)
                   if List.exists (function EvRead -> true | _ -> false) evs then ["R"] else []
        | `Alive -> ["A"]
        | `Bad -> ["?"] in
    if k > 1 then Buffer.add_char out ' ';
    Buffer.add_string out (if evs = [] then "." else String.concat "|" evs)
  done;
  Buffer.add_char out ';';
  List.iter (fun (p, c) ->
    Buffer.add_string out (Printf.sprintf " %s=%s" (hex_of_bytes p)
      (if c = [] then "-" else String.concat "," (List.map hex_of_bytes c)))) !s.fs;
  print_string (Buffer.contents out); print_newline ()

let () =
  iter_lines (fun l ->
    match words l with
    | "H" :: r -> (try do_hist r with e -> Printf.printf "! %s\n" (Printexc.to_string e))
    | _ -> print_string "?\n")
