(* drv_subst.ml -- line-protocol driver of the extracted ec_substitute model (C14).
     pre <hexkwd|none> <hexrep> <hextail>      tail = the command text after the command name "s"
        -> arg=<hex> pat=<hex|none> kwd=<hex|none> rep=<hex> g=<0|1> rest=<hex>
           (ex_arg, re_read twice, remembered pattern / replacement: pat = what is compiled, none = error return)
     run <g> <hexrep> <hexline> <table>        table = words k.nb=so,eo,so1,eo1,... as printed by probe_rstr tb
        -> U | C <hexnewline> | OOB | FUEL
     ef <hexpat> <icase> <hexline>             the MODEL of the matcher (SubstEngineDefs.engine_find = rstr_make / rstr_find over
        RstrDefs / RsetDefs / ReVM at the recursion limit NDEPT) on every suffix of the line with and without RE_NOTBOL
        -> path=<s|g|x> <k>.<nb>=<so>,<eo>,<so1>,<eo1>,... cut=<n>      (the line probe_rstr tb prints for /repo's matcher) *)
let pr = Printf.printf
let hexo = function None -> "none" | Some b -> hex_of_bytes b
let ohex w = if w = "none" then None else Some (bytes_of_hex w)

let do_pre kwd rep tail =
  let (arg, rest) = ex_arg_s (bytes_of_hex tail) in
  let st = { st_kwd = ohex kwd; st_rep = bytes_of_hex rep } in
  let ((st', pat), g) = subst_setup st arg in
  pr "arg=%s pat=%s kwd=%s rep=%s g=%d rest=%s\n" (hex_of_bytes arg) (hexo pat) (hexo st'.st_kwd)
    (hex_of_bytes st'.st_rep) (if g then 1 else 0) (hex_of_bytes rest)

let do_run g rep line table =
  let line = bytes_of_hex line in
  let len = List.length line in
  let tbl = Hashtbl.create 64 in
  List.iter (fun w ->
    match String.split_on_char '=' w with
    | [key; v] ->
      let nums = List.map int_of_string (String.split_on_char ',' v) in
      let rec pairs = function a :: b :: r -> (z_of_int a, z_of_int b) :: pairs r | _ -> [] in
      Hashtbl.replace tbl key (pairs nums)
    | _ -> ()) table;
  let find ln nb =
    let k = len - List.length ln in
    Hashtbl.find_opt tbl (Printf.sprintf "%d.%d" k (if nb then 1 else 0)) in
  match subst_line find (bytes_of_hex rep) (g = "1") line with
  | Unchanged -> pr "U\n"
  | Changed b -> pr "C %s\n" (hex_of_bytes b)
  | SOOB -> pr "OOB\n"
  | SFuel -> pr "FUEL\n"

let do_ef pat ic line =
  let pat = bytes_of_hex pat and line = bytes_of_hex line in
  let ic = (ic = "1") in
  let (tbl, cuts) = engine_table engine_depth ic pat line in
  pr "path=%c" (Char.chr (int_of_n (engine_path ic pat)));
  List.iter (fun ((k, nb), g) ->
    pr " %d.%d=%s" (int_of_nat k) (if nb then 1 else 0)
      (String.concat "," (List.map (fun (a, b) -> Printf.sprintf "%d,%d" (int_of_z a) (int_of_z b)) g))) tbl;
  pr " cut=%d\n" (int_of_n cuts)

let () =
  iter_lines (fun l ->
    (match words l with
     | ["pre"; k; r; t] -> do_pre k r t
     | "run" :: g :: r :: ln :: table -> do_run g r ln table
     | ["ef"; p; ic; ln] -> do_ef p ic ln
     | _ -> pr "?\n");
    flush stdout)
