(* drv_subst.ml -- line-protocol driver of the extracted ec_substitute model (C14).
     pre <hexkwd|none> <hexrep> <hextail>      tail = the command text after the command name "s"
        -> arg=<hex> pat=<hex|none> kwd=<hex|none> rep=<hex> g=<0|1> rest=<hex>
           (ex_arg, re_read twice, remembered pattern / replacement: pat = what is compiled, none = error return)
     run <g> <hexrep> <hexline> <table>        table = words k.nb=so,eo,so1,eo1,... as printed by probe_rstr tb
        -> U | C <hexnewline> | OOB | FUEL
     ef <hexpat> <icase> <hexline>             the MODEL of the matcher (SubstEngineDefs.engine_find = rstr_make / rstr_find over
        RstrDefs / RsetDefs / ReVM at the recursion limit NDEPT) on every suffix of the line with and without RE_NOTBOL
        -> path=<s|g|x> <k>.<nb>=<so>,<eo>,<so1>,<eo1>,... cut=<n>      (the line probe_rstr tb prints for /repo's matcher)
     hd <hexkwd|-> <dir> <hexrep> <row> <icase> <hexloc> <hextail> <hexline>...       the head of ec_substitute with its ADDRESS
        (SubstAddrDefs.subst_head: ex_region incl. the searches of /re/ ?re? addresses -- matcher = engine_find, the model of
        rstr_make / rstr_find --, THEN the command's own pattern and replacement); state = xkwd, xkwddir, xrep, xrow; lines with their newline
        -> bad=<0|1|fuel> beg=<row> end=<row> kwd=<hex|none> dir=<d> row=<n> rep=<hex> g=<0|1> pat=<hex|none> arg=<hex> rest=<hex> *)
let pr = Printf.printf
let hexo = function None -> "none" | Some b -> hex_of_bytes b
let ohex w = if w = "none" then None else Some (bytes_of_hex w)

let do_pre kwd rep tail =
  let (arg, rest) = ex_arg_s (bytes_of_hex tail) in
  let st = { st_kwd = ohex kwd; st_rep = bytes_of_hex rep } in
  let ((st', pat), g) = subst_setup st arg in
  pr "arg=%s pat=%s kwd=%s rep=%s g=%d rest=%s\n" (hex_of_bytes arg) (hexo pat) (hexo st'.st_kwd)
    (hex_of_bytes st'.st_rep) (if g then 1 else 0) (hex_of_bytes rest)

let do_run g rep line table =
  let line = bytes_of_hex line in
  let len = List.length line in
  let tbl = Hashtbl.create 64 in
  List.iter (fun w ->
    match String.split_on_char '=' w with
    | [key; v] ->
      let nums = List.map int_of_string (String.split_on_char ',' v) in
      let rec pairs = function a :: b :: r -> (z_of_int a, z_of_int b) :: pairs r | _ -> [] in
      Hashtbl.replace tbl key (pairs nums)
    | _ -> ()) table;
  let find ln nb =
    let k = len - List.length ln in
    Hashtbl.find_opt tbl (Printf.sprintf "%d.%d" k (if nb then 1 else 0)) in
  match subst_line find (bytes_of_hex rep) (g = "1") line with
  | Unchanged -> pr "U\n"
  | Changed b -> pr "C %s\n" (hex_of_bytes b)
  | SOOB -> pr "OOB\n"
  | SFuel -> pr "FUEL\n"

let do_ef pat ic line =
  let pat = bytes_of_hex pat and line = bytes_of_hex line in
  let ic = (ic = "1") in
  let (tbl, cuts) = engine_table engine_depth ic pat line in
  pr "path=%c" (Char.chr (int_of_n (engine_path ic pat)));
  List.iter (fun ((k, nb), g) ->
    pr " %d.%d=%s" (int_of_nat k) (if nb then 1 else 0)
      (String.concat "," (List.map (fun (a, b) -> Printf.sprintf "%d,%d" (int_of_z a) (int_of_z b)) g))) tbl;
  pr " cut=%d\n" (int_of_n cuts)

let do_hd kwd dir rep row ic loc tail lines =
  let ic = (ic = "1") in
  let (arg, rest) = ex_arg_s (bytes_of_hex tail) in
  let k = { k_kwd = bytes_of_hex kwd; k_dir = z_of_int (int_of_string dir); k_rep = bytes_of_hex rep; k_row = z_of_int (int_of_string row) } in
  let valid p = int_of_n (engine_path ic p) <> 120 in
  let find p ln nb = engine_find engine_depth ic p ln nb in
  let buf = List.map bytes_of_hex lines in
  let show k' bad b e pat g =
    pr "bad=%s beg=%d end=%d kwd=%s dir=%d row=%d rep=%s g=%d pat=%s arg=%s rest=%s\n" bad b e
      (if int_of_z k'.k_dir = 0 then "none" else hex_of_bytes k'.k_kwd) (int_of_z k'.k_dir) (int_of_z k'.k_row) (hex_of_bytes k'.k_rep)
      (if g then 1 else 0) (hexo pat) (hex_of_bytes arg) (hex_of_bytes rest) in
  match subst_head valid find buf (bytes_of_hex loc) arg k with
  | None -> show k "fuel" 0 0 None false
  | Some (k', None) -> show k' "1" 0 0 None false
  | Some (k', Some (((b, e), pat), g)) -> show k' "0" (int_of_z b) (int_of_z e) (Some pat) g

let () =
  iter_lines (fun l ->
    (match words l with
     | ["pre"; k; r; t] -> do_pre k r t
     | "run" :: g :: r :: ln :: table -> do_run g r ln table
     | ["ef"; p; ic; ln] -> do_ef p ic ln
     | "hd" :: k :: d :: r :: row :: ic :: loc :: tail :: lines -> do_hd k d r row ic loc tail lines
     | _ -> pr "?\n");
    flush stdout)
