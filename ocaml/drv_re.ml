(* drv_re.ml -- line-protocol driver of the extracted regex.c / rset.c model (same protocol as
   harness/probe_re.c).
   R <rset flags> <nsub> <pat,pat,...> <eflags:line,...>   ->  rej | big res=<n> | oob site=<s> | nofuel
                                                               | ok n=<emitted> res=<reserve> | <case> ...
   case: set=<i> g=<so>.<eo>,... cut=<n>  |  oob site=<s> cut=<n>  |  nofuel cut=<n>
   U ...  the same with an (in practice) unbounded recursion depth: the reference for priority
   D ...  the same with the DOCUMENTED depth 256 (a constant of the specification, not GenConsts.NDEPT)
   C <pat,pat,...>   ->  compile only, whatever the size (length computed in Z, nothing emitted): rej | ok n= res=
   T <pat,pat,...>   ->  the parse tree of the combined pattern as an S-expression (for the oracle)
   S <pat,pat,...>   ->  shape=1|0: the executable check RsetDefs.rset_shape (hypothesis of C10_rset_index)
   Q <op> <op> ...   ->  a sequence of calls in one process, run by the THREADED model ReStateDefs.session_gen (the static
                         flag re_bad of regex.c is explicit state; it also survives from one Q line to the next, as in the
                         probe process): M<flg>:<pat,...> ("~" = NULL entry) | G:<pat> | F<slot>:<nsub>:<eflg>:<line>;
                         answers joined by " ; ":  rej | ok n=<emitted> | none | set=.. g=.. cut=.. | oob site=.. | nofuel *)
let pr = Printf.printf
let maxres = match Sys.getenv_opt "PROBE_RE_MAXRES" with Some s -> int_of_string s | None -> 200000
let site_name = function SUcLen -> "uclen" | SUcDec -> "ucdec" | SBrace -> "brace" | SOther -> "other"
let split_on c s = List.filter (fun w -> w <> "") (String.split_on_char c s)
let big_depth = nat_of_int 100000

let rec tree_str t =
  let rep mn mx = Printf.sprintf "%d %d" (int_of_z mn) (int_of_z mx) in
  match t with
  | NNil -> "nil"
  | NAtom (a, mn, mx) ->
    let a' = (match a with
      | AChr s -> "chr:" ^ hex_of_bytes s | AAny -> "any" | ABrk s -> "brk:" ^ hex_of_bytes s
      | ABeg -> "beg" | AEnd -> "end" | AWBeg -> "wbeg" | AWEnd -> "wend") in
    Printf.sprintf "(atom %s %s)" a' (rep mn mx)
  | NGrp (x, g, mn, mx) -> Printf.sprintf "(grp %d %s %s)" (int_of_nat g) (rep mn mx) (tree_str x)
  | NCat (x, y) -> Printf.sprintf "(cat %s %s)" (tree_str x) (tree_str y)
  | NAlt (x, y) -> Printf.sprintf "(alt %s %s)" (tree_str x) (tree_str y)

let pats_of w = List.map (fun h -> Some (bytes_of_hex h)) (split_on ',' w)

let do_tree w =
  match parse_pat (rset_pattern (pats_of w)) with
  | Ok (Some t, _) -> pr "%s\n" (tree_str (fst (grpnum t (S O))))
  | Ok (None, _) -> pr "rej\n"
  | OOB s -> pr "oob site=%s\n" (site_name s)
  | NoFuel -> pr "nofuel\n"

(* rset_make's and regcomp's rejections that are decided before the size of the program is looked at:
   a pattern that is not self-contained (re_groupcount = -1), the flag re_bad, an unconsumed rest *)
let early_reject pats wrapped rest =
  List.exists (fun p -> match re_groupcount_opt p with None -> true | Some _ -> false) (somes pats)
  || parse_bad wrapped || rest <> []

let do_comp w =
  let pats = pats_of w in
  let wrapped = rset_pattern pats in
  if List.exists (fun p -> match re_groupcount_opt p with None -> true | Some _ -> false) (somes pats) then pr "rej\n" else
  match parse_pat wrapped with
  | OOB s -> pr "oob site=%s\n" (site_name s)
  | NoFuel -> pr "nofuel\n"
  | Ok (None, _) -> pr "rej\n"
  | Ok (Some _, rest) when early_reject pats wrapped rest -> pr "rej\n"
  | Ok (Some t, _) ->
    let res = int_of_z (count t) + 3 in
    let ninst = int_of_z nINST in
    if ninst >= 0 && res >= ninst then pr "rej\n"
    else pr "ok n=%d res=%d\n" (int_of_z (zlen t) + 3) res

let do_rset depth flg nsub patw casew =
  let pats = pats_of patw in
  let wrapped = rset_pattern pats in
  if List.exists (fun p -> match re_groupcount_opt p with None -> true | Some _ -> false) (somes pats) then pr "rej\n" else
  match parse_pat wrapped with
  | OOB s -> pr "oob site=%s\n" (site_name s)
  | NoFuel -> pr "nofuel\n"
  | Ok (None, _) -> pr "rej\n"
  | Ok (Some _, rest) when early_reject pats wrapped rest -> pr "rej\n"
  | Ok (Some t, _) ->
    let res = int_of_z (count t) + 3 in
    if res > maxres then pr "big res=%d\n" res
    else
      match rset_make pats (z_of_int flg) with
      | OOB s -> pr "oob site=%s\n" (site_name s)
      | NoFuel -> pr "nofuel\n"
      | Ok None -> pr "rej\n"
      | Ok (Some rs) ->
        pr "ok n=%d res=%d" (int_of_nat (length rs.rs_prog.code)) (int_of_z rs.rs_prog.reserve);
        List.iter (fun c ->
          let (ef, lh) = (match String.index_opt c ':' with
            | Some i -> (int_of_string (String.sub c 0 i), String.sub c (i + 1) (String.length c - i - 1))
            | None -> (int_of_string c, "-")) in
          let line = bytes_of_hex lh in
          let (r, cut) = rset_find_d depth rs line (nat_of_int nsub) (z_of_int ef) in
          (match r with
           | Ok (set, g) ->
             pr " | set=%d" (int_of_z set);
             if int_of_z set >= 0 then begin
               pr " g=";
               List.iteri (fun i (so, eo) -> pr "%s%d.%d" (if i > 0 then "," else "") (int_of_z so) (int_of_z eo)) g
             end
           | OOB s -> pr " | oob site=%s" (site_name s)
           | NoFuel -> pr " | nofuel");
          pr " cut=%d" (int_of_n cut)) (split_on ',' casew);
        pr "\n"

(* ---- sessions ---- *)
let flag = ref false       (* re_bad of this process *)

let parse_op w =
  let n = String.length w in
  let after i = String.sub w (i + 1) (n - i - 1) in
  match w.[0] with
  | 'M' ->
    let i = String.index w ':' in
    let flg = int_of_string (String.sub w 1 (i - 1)) in
    let pats = List.map (fun h -> if h = "~" then None else Some (bytes_of_hex h)) (split_on ',' (after i)) in
    OMake (pats, z_of_int flg)
  | 'G' -> OComp (bytes_of_hex (after 1))
  | 'F' ->
    (match String.split_on_char ':' (String.sub w 1 (n - 1)) with
     | [sl; nsub; ef; line] -> OFind (nat_of_int (int_of_string sl), bytes_of_hex line, nat_of_int (int_of_string nsub), z_of_int (int_of_string ef))
     | _ -> failwith "bad F")
  | _ -> failwith "bad op"

let obs_str = function
  | BMake (Ok (Some rs)) -> Printf.sprintf "ok n=%d" (int_of_nat (length rs.rs_prog.code))
  | BComp (Ok (Some p)) -> Printf.sprintf "ok n=%d" (int_of_nat (length p.code))
  | BMake (Ok None) | BComp (Ok None) -> "rej"
  | BMake (OOB s) | BComp (OOB s) -> "oob site=" ^ site_name s
  | BMake NoFuel | BComp NoFuel -> "nofuel"
  | BNone -> "none"
  | BFind (r, cut) ->
    (match r with
     | Ok (set, g) ->
       Printf.sprintf "set=%d%s" (int_of_z set)
         (if int_of_z set >= 0 then " g=" ^ String.concat "," (List.map (fun (so, eo) -> Printf.sprintf "%d.%d" (int_of_z so) (int_of_z eo)) g) else "")
     | OOB s -> "oob site=" ^ site_name s
     | NoFuel -> "nofuel") ^ Printf.sprintf " cut=%d" (int_of_n cut)

let do_session ws =
  match (try Some (List.map parse_op ws) with _ -> None) with
  | None -> pr "?\n"
  | Some ops ->
    let (os, st) = session_gen true depth ops [] !flag in
    flag := st;
    pr "%s\n" (String.concat " ; " (List.map obs_str os))

let () =
  iter_lines (fun l ->
    (match words l with
     | ["R"; f; n; p; c] -> do_rset depth (int_of_string f) (int_of_string n) p c
     | ["U"; f; n; p; c] -> do_rset big_depth (int_of_string f) (int_of_string n) p c
     | ["D"; f; n; p; c] -> do_rset (nat_of_int 256) (int_of_string f) (int_of_string n) p c
     | ["T"; p] -> do_tree p
     | ["C"; p] -> do_comp p
     | ["S"; p] -> pr "shape=%d\n" (if rset_shape (pats_of p) then 1 else 0)
     | "Q" :: ws -> do_session ws
     | _ -> pr "?\n");
    flush stdout)
