(* drv_undobufs.ml -- line-protocol driver of the extracted multi-buffer undo model (UndoBufsDefs.v: the buffer table
   of ex.c with the edit log of lbuf.c in every slot).
   request:  nfiles (name content)* nargs name* then the command lines; every command line starts with the word L,
             its commands follow as words:
               E:bang:ew:lit:<name> | E:bang:ew:alt:- | E:bang:ew:cur:- | E:bang:ew:none:-
               BL | BI:<n> | B+ | B- | BA:<k> | N | P | Q:<bang> | SW:<b>
               X:<hex>    one lbuf_edit call replacing the whole text of the current buffer by <hex> (- = empty)
               U | R      lbuf_undo / lbuf_redo
   answer:   per command line  <id of the current buffer>:<text of the current buffer, hex>   (or <id>:none), space separated;
             a line that is not executed because the editor has quit answers  quit *)
let split c s = String.split_on_char c s
let b01 w = w = "1"
let lines_of_bytes (bs : n list) : n list list =
  (* file content as the list of its lines without the newline (a last line without newline is a line) *)
  let nl = n_of_int 10 in
  let rec go cur acc = function
    | [] -> List.rev (if cur = [] then acc else List.rev cur :: acc)
    | c :: r -> if c = nl then go [] (List.rev cur :: acc) r else go (c :: cur) acc r in
  go [] [] bs
let big = nat_of_int 1000000
let parse_cmd tok =
  match split ':' tok with
  | ["E"; bang; ew; pt; p] ->
      let a = (match pt with "lit" -> PLit (bytes_of_hex p) | "alt" -> PAlt | "cur" -> PCur | _ -> PNone) in
      Some (CEdit (b01 bang, b01 ew, a))
  | ["BL"] -> Some CBufList
  | ["BI"; n] -> Some (CBufId (z_of_int (int_of_string n)))
  | ["B+"] -> Some CBufNext | ["B-"] -> Some CBufPrev
  | ["BA"; k] -> Some (CBufAlias (nat_of_int (int_of_string k)))
  | ["N"] -> Some CNext | ["P"] -> Some CPrev
  | ["Q"; b] -> Some (CQuit (b01 b))
  | ["SW"; b] -> Some (CSetWa (b01 b))
  | ["X"; h] -> Some (edits_cmd [((Some (bytes_of_hex h), O), big)] view0)
  | ["U"] -> Some (undo_cmd view0)
  | ["R"] -> Some (redo_cmd view0)
  | _ -> None

let () = iter_lines (fun l ->
  let ws = ref (words l) in
  let next () = match !ws with w :: r -> ws := r; w | [] -> "" in
  try
    let nf = int_of_string (next ()) in
    let files = List.init nf (fun _ -> let n = next () in let c = next () in (bytes_of_hex n, lines_of_bytes (bytes_of_hex c))) in
    let na = int_of_string (next ()) in
    let args = List.init na (fun _ -> bytes_of_hex (next ())) in
    (* the rest: L cmd cmd L cmd ... *)
    let lines = ref [] and cur = ref None and bad = ref false in
    let flush () = (match !cur with Some cs -> lines := List.rev cs :: !lines | None -> ()) in
    List.iter (fun w ->
      if w = "L" then (flush (); cur := Some [])
      else match parse_cmd w, !cur with
        | Some c, Some cs -> cur := Some (c :: cs)
        | _ -> bad := true) !ws;
    flush ();
    if !bad then print_string "bad-request\n" else begin
      let (s0, _) = u_init files args in
      let s = ref s0 in
      let out = List.map (fun cs ->
        if xquit !s then "quit" else begin
          let (s', _) = u_line !s cs in
          s := s';
          Printf.sprintf "%d:%s" (int_of_z (cur_id_of s'))
            (match cur_text s' with Some t -> hex_of_bytes (List.concat t) | None -> "none")
        end) (List.rev !lines) in
      print_string (String.concat " " out ^ "\n")
    end
  with _ -> print_string "bad-request\n")
