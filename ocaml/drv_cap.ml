(* drv_cap.ml -- line-protocol driver of the extracted C05 capacity models (same protocol and
   answers as harness/probe_exparse.c) *)
let pr = Printf.printf
let err_name = function OobRd -> "OobRd" | OobWr -> "OobWr" | NoFuel -> "NoFuel" | Ok _ -> "ok"

let show_parsed l =
  if l = [] then pr "-";
  List.iter (fun p -> pr "%s,%s,%d,%s,%d " (hex_of_bytes p.p_loc) (hex_of_bytes p.p_cmd) (int_of_z p.p_idx)
                        (hex_of_bytes p.p_arg) (int_of_nat p.p_next)) l;
  pr "\n"

let do_parse hex =
  match ex_exec (bytes_of_hex hex) with
  | TooLong -> pr "toolong\n"
  | Parsed (Ok l) -> show_parsed l
  | Parsed e -> pr "%s\n" (err_name e)

(* what the three scanners would do to EXLEN-byte buffers if the guard were not there *)
let do_unguarded hex =
  match ex_exec_unguarded (bytes_of_hex hex) with
  | Ok l -> show_parsed l
  | e -> pr "%s\n" (err_name e)

let do_exec hex =
  match ex_exec (bytes_of_hex hex) with
  | TooLong -> pr "toolong\n"
  | Parsed (Ok _) -> pr "parsed\n"
  | Parsed e -> pr "%s\n" (err_name e)

let no_mark _ = None
let no_search _ _ i = (None, i)

let do_region len xrow hex =
  let len = z_of_int len in
  match ex_region len (ex_lineno len no_mark no_search) (bytes_of_hex hex) (z_of_int xrow) with
  | Ok (RFail, x) -> pr "fail xrow=%d\n" (int_of_z x)
  | Ok (ROk (b, e), x) -> pr "ok %d %d xrow=%d\n" (int_of_z b) (int_of_z e) (int_of_z x)
  | e -> pr "%s\n" (err_name e)

let do_scan f hex =
  let s = bytes_of_hex hex in
  if List.length s >= int_of_nat excap then pr "toolong\n" else
  match f s O (newbuf excap) with
  | Ok (i, w) -> pr "%s %d\n" (hex_of_bytes (wstr w)) (int_of_nat i)
  | e -> pr "%s\n" (err_name e)

(* cutword/ex_plus write the terminator last: wstr drops it; ex_plus may return without writing *)
let plus s i w =
  match ex_plus s i w with
  | Ok (j, w') -> if fst w' = [] then Ok (j, ([N0], snd w')) else Ok (j, w')
  | e -> e

let do_term ops =
  let t = ref t_init in
  List.iter (fun o ->
    let empty () = int_of_z !t.ibuf_pos >= int_of_z !t.ibuf_cnt in
    let step op = (match t_step !t op with Ok t' -> t := t' | e -> pr "%s " (err_name e)) in
    let show () = pr "%d,%d,%d " (int_of_z !t.ibuf_pos) (int_of_z !t.ibuf_cnt) (int_of_z !t.icmd_pos) in
    match o.[0] with
    | 'p' -> step (TPush (z_of_int (int_of_string (String.sub o 1 (String.length o - 1))))); show ()
    | 'r' -> if empty () then pr "E " else (step (TRead None); pr "107:"; show ())
    | 'R' -> let e = empty () in step (TRead (Some (z_of_int 1))); pr "%d:" (if e then 122 else 107); show ()
    | 'c' -> pr "%d:" (int_of_z !t.icmd_pos); step TCmd; show ()
    | _ -> ()) ops;
  pr "\n"

let () =
  iter_lines (fun l ->
    match words l with
    | ["parse"; h] -> do_parse h
    | ["unguarded"; h] -> do_unguarded h
    | ["exec"; h] -> do_exec h
    | ["region"; len; xrow; h] -> do_region (int_of_string len) (int_of_string xrow) h
    | ["plus"; h] -> do_scan plus h
    | ["cut"; h] -> do_scan cutword h
    | "term" :: ops -> do_term ops
    | _ -> pr "?\n")
