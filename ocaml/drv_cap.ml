(* drv_cap.ml -- line-protocol driver of the extracted C05 capacity models (same protocol and
   answers as harness/probe_exparse.c) *)
let pr = Printf.printf
let err_name = function OobRd -> "OobRd" | OobWr -> "OobWr" | NoFuel -> "NoFuel" | Ok _ -> "ok"

let show_parsed l =
  if l = [] then pr "-";
  List.iter (fun p -> pr "%s,%s,%d,%s,%d " (hex_of_bytes p.p_loc) (hex_of_bytes p.p_cmd) (int_of_z p.p_idx)
                        (hex_of_bytes p.p_arg) (int_of_nat p.p_next)) l;
  pr "\n"

let do_parse hex =
  match ex_exec (bytes_of_hex hex) with
  | TooLong -> pr "toolong\n"
  | Parsed (Ok l) -> show_parsed l
  | Parsed e -> pr "%s\n" (err_name e)

(* what the three scanners would do to EXLEN-byte buffers if the guard were not there *)
let do_unguarded hex =
  match ex_exec_unguarded (bytes_of_hex hex) with
  | Ok l -> show_parsed l
  | e -> pr "%s\n" (err_name e)

let do_exec hex =
  match ex_exec (bytes_of_hex hex) with
  | TooLong -> pr "toolong\n"
  | Parsed (Ok _) -> pr "parsed\n"
  | Parsed e -> pr "%s\n" (err_name e)

let no_mark _ = None
let no_search _ _ i = (None, i)

let do_region len xrow hex =
  let len = z_of_int len in
  match ex_region len (ex_lineno len no_mark no_search) (bytes_of_hex hex) (z_of_int xrow) with
  | Ok (RFail, x) -> pr "fail xrow=%d\n" (int_of_z x)
  | Ok (ROk (b, e), x) -> pr "ok %d %d xrow=%d\n" (int_of_z b) (int_of_z e) (int_of_z x)
  | e -> pr "%s\n" (err_name e)

let do_scan f hex =
  let s = bytes_of_hex hex in
  if List.length s >= int_of_nat excap then pr "toolong\n" else
  match f s O (newbuf excap) with
  | Ok (i, w) -> pr "%s %d\n" (hex_of_bytes (wstr w)) (int_of_nat i)
  | e -> pr "%s\n" (err_name e)

(* cutword/ex_plus write the terminator last: wstr drops it; ex_plus may return without writing *)
let plus s i w =
  match ex_plus s i w with
  | Ok (j, w') -> if fst w' = [] then Ok (j, ([N0], snd w')) else Ok (j, w')
  | e -> e

let do_term ops =
  let t = ref t_init in
  List.iter (fun o ->
    let empty () = int_of_z !t.ibuf_pos >= int_of_z !t.ibuf_cnt in
    let step op = (match t_step !t op with Ok t' -> t := t' | e -> pr "%s " (err_name e)) in
    let show () = pr "%d,%d,%d " (int_of_z !t.ibuf_pos) (int_of_z !t.ibuf_cnt) (int_of_z !t.icmd_pos) in
    match o.[0] with
    | 'p' -> step (TPush (z_of_int (int_of_string (String.sub o 1 (String.length o - 1))))); show ()
    | 'r' -> if empty () then pr "E " else (step (TRead None); pr "107:"; show ())
    | 'R' -> let e = empty () in step (TRead (Some (z_of_int 1))); pr "%d:" (if e then 122 else 107); show ()
    | 'c' -> pr "%d:" (int_of_z !t.icmd_pos); step TCmd; show ()
    | _ -> ()) ops;
  pr "\n"


(* ---- second part: tables (CapDefs2.v) ---- *)
let ints_of s = if s = "-" then [] else List.map int_of_string (String.split_on_char ',' s)
let show_ints l = if l = [] then "-" else String.concat "," (List.map string_of_int l)

let do_regx hex =
  match rEG (bytes_of_hex hex) with Ok c -> pr "%d\n" (int_of_z c) | e -> pr "%s\n" (err_name e)

let do_reg c lnnl pre =
  let pre = ints_of pre in
  let present i = List.mem (int_of_z i) pre in
  match reg_put present (z_of_int c) (lnnl <> 0) with
  | Ok l -> pr "%s\n" (show_ints (List.sort_uniq compare (pre @ List.map int_of_z l)))
  | e -> pr "%s\n" (err_name e)

let do_get c pre =
  let pre = ints_of pre in
  match reg_get (fun i -> List.mem (int_of_z i) pre) (z_of_int c) with
  | Ok b -> pr "%d\n" (if b then 1 else 0)
  | e -> pr "%s\n" (err_name e)

let do_mark m =
  let m = z_of_int m in
  match lbuf_mark m, lbuf_jump (fun _ -> true) m true with
  | Ok l, Ok (Some i) -> pr "%d 0 5 7 %s\n" (int_of_z (markidx m)) (show_ints (List.sort_uniq compare (List.map int_of_z l)))
  | Ok l, Ok None -> pr "%d 1 -1 -1 %s\n" (int_of_z (markidx m)) (show_ints (List.sort_uniq compare (List.map int_of_z l)))
  | (Ok _, e) -> pr "%s\n" (err_name e)
  | (e, _) -> pr "%s\n" (err_name e)

let path_arg w = if w = "-" then None else if w = "e" then Some [] else Some (bytes_of_hex w)
let do_pexp clamp sp cur alt hex =
  match ex_pathexpand_gen (path_arg cur) (path_arg alt) (sp <> 0) clamp (bytes_of_hex hex) with
  | Ok None -> pr "null\n"
  | Ok (Some s) -> pr "%s\n" (hex_of_bytes s)
  | e -> pr "%s\n" (err_name e)

let show_tab t = String.concat "" (List.map (fun b -> if b then "1" else "0") t)
let do_bufs last ops =
  let t = ref b_init in
  let dead = ref false in
  List.iter (fun o ->
    if not !dead then begin
      let op = match o.[0] with
        | 'o' -> (match bufs_findroom_gen (z_of_int last) !t with Ok i -> pr "%d:" (int_of_z i) | e -> pr "%s:" (err_name e)); BOpen
        | 's' -> BSwitch (z_of_int (int_of_string (String.sub o 1 (String.length o - 1))))
        | _ -> BShift in
      match b_run_gen (z_of_int last) !t [op] with
      | Ok t' -> t := t'; pr "%s " (show_tab t')
      | e -> pr "%s " (err_name e); dead := true
    end) ops;
  pr "\n"

(* vi_buf: r = vi_read, b = vi_back; answers shape-ok and the pending count after every call *)
let do_vibuf ops =
  let l = List.map (fun o -> if o = "b" then VBack else VRead) ops in
  pr "%s " (if back_after_read false l then "shaped" else "unshaped");
  (match vb_run Z0 l with Ok n -> pr "%d\n" (int_of_z n) | e -> pr "%s\n" (err_name e))

let do_render strict ctx cbeg cend cols =
  let cols = List.map (fun c -> match String.split_on_char ':' c with
                                | [p; w] -> (z_of_int (int_of_string p), z_of_int (int_of_string w)) | _ -> (Z0, Z0)) cols in
  match led_render_off (z_of_int ctx) (z_of_int cbeg) (z_of_int cend) strict cols with
  | Ok off -> pr "%s\n" (show_ints (List.map int_of_z off))
  | e -> pr "%s\n" (err_name e)

(* ---- third part: insert-mode helper buffers (CapDefs3.v) ---- *)
let do_help mode hex =
  match vi_help_tag_gen mode (bytes_of_hex hex) with
  | Ok None -> pr "none\n"
  | Ok (Some t) -> pr "tag %s\n" (hex_of_bytes t)
  | e -> pr "%s\n" (err_name e)

(* trim <hex>: uc_trim on the string; cutstore <size> <hex>: snprintf into size bytes, then uc_trim *)
let show_str = function
  | Ok t -> pr "%s\n" (hex_of_bytes t)
  | e -> pr "%s\n" (err_name e)
let do_trim hex = show_str (uc_trim (bytes_of_hex hex))
let do_cutstore size hex = show_str (cut_store (nat_of_int size) (bytes_of_hex hex))

(* repl <rep hex> <line hex> <o0> ... <o31>: ex.c replace() on the group offsets (CapDefs4.v); the bytes it appends *)
let do_repl rep ln offs = show_str (replace (bytes_of_hex rep) (bytes_of_hex ln) (List.map (fun w -> z_of_int (int_of_string w)) offs))

(* ai <k> ops: t = ^T, d = ^D, l<sp>:<pref empty 0/1>:<xai 0/1> = a finished line; answers strlen(ai) after the
   initial fill and after every operation *)
let do_ai k ops =
  match ai_init (z_of_int k) with
  | Ok n ->
    pr "%d" (int_of_z n);
    let len = ref n in
    let dead = ref false in
    List.iter (fun o ->
      if not !dead then begin
        let op = match o.[0] with
          | 't' -> AiTab
          | 'd' -> AiDel
          | _ -> (match String.split_on_char ':' (String.sub o 1 (String.length o - 1)) with
                  | [sp; pe; xa] -> AiLine (z_of_int (int_of_string sp), pe <> "0", xa <> "0")
                  | _ -> AiDel) in
        match ai_step !len op with
        | Ok l -> len := l; pr " %d" (int_of_z l)
        | e -> pr " %s" (err_name e); dead := true
      end) ops;
    pr "\n"
  | e -> pr "%s\n" (err_name e)

let () =
  iter_lines (fun l ->
    match words l with
    | ["parse"; h] -> do_parse h
    | ["unguarded"; h] -> do_unguarded h
    | ["exec"; h] -> do_exec h
    | ["region"; len; xrow; h] -> do_region (int_of_string len) (int_of_string xrow) h
    | ["plus"; h] -> do_scan plus h
    | ["cut"; h] -> do_scan cutword h
    | "term" :: ops -> do_term ops
    | ["regx"; h] -> do_regx h
    | ["reg"; c; lnnl; pre] -> do_reg (int_of_string c) (int_of_string lnnl) pre
    | ["get"; c; pre] -> do_get (int_of_string c) pre
    | ["mark"; m] -> do_mark (int_of_string m)
    | ["pexp"; sp; cur; alt; h] -> do_pexp true (int_of_string sp) cur alt h
    | ["pexp-noclamp"; sp; cur; alt; h] -> do_pexp false (int_of_string sp) cur alt h
    | "bufs" :: ops -> do_bufs 1 ops
    | "bufs-nolast" :: ops -> do_bufs 0 ops
    | "vibuf" :: ops -> do_vibuf ops
    | "rendermodel" :: strict :: ctx :: cbeg :: cend :: cols ->
      do_render (strict <> "0") (int_of_string ctx) (int_of_string cbeg) (int_of_string cend) cols
    | ["help"; h] -> do_help CutBytes h
    | ["help-nocut"; h] -> do_help CutNone h
    | ["help-chars"; h] -> do_help CutChars h
    | "ai" :: k :: ops -> do_ai (int_of_string k) ops
    | ["trim"; h] -> do_trim h
    | ["cutstore"; n; h] -> do_cutstore (int_of_string n) h
    | "repl" :: rep :: ln :: offs -> do_repl rep ln offs
    | _ -> pr "?\n")
