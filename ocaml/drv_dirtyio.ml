(* drv_dirtyio.ml -- line-protocol driver of the extracted C02 model with failing writes (coq/DirtyIoDefs.v).
   Request:  F <cmd> <sched> <buf0> <buf1> ...
     cmd    q | wq | x | xa | w | R<b>,<e>   (R = write of lines b..e-1, 0-based, to the own path), each optionally followed by !
     sched  '-' (every call succeeds) or a comma separated list over  o (success) | e (error) | s<k> (short write of k bytes):
            one outcome per open / write / close call of the command, in program order
     buf    <flag>:<hex text>   the table in slot order; flag 1 = reported modified.  Buffer i has path i, recorded stamp 5,
            and its file exists with stamp 5.
   Answer:  <ok|refused|failed> <quit|stay> <path of the current buffer afterwards> <flags afterwards, by path> *)
let pr = Printf.printf

let mk_buf i w =
  match String.split_on_char ':' w with
  | [f; h] ->
      let text = bytes_of_hex h in
      let e = ebuf_open text in
      let e = if f = "1" then run_dop e (DEdit (Some text, O, nat_of_int 1000000)) else e in
      { fe = e; fpath = nat_of_int i; fts = z_of_int 5 }
  | _ -> { fe = ebuf_open []; fpath = nat_of_int i; fts = z_of_int 5 }

let parse_sched s =
  if s = "-" then [] else
  List.map (fun w ->
    if w = "o" then OOk else if w = "e" then OErr
    else OShort (nat_of_int (int_of_string (String.sub w 1 (String.length w - 1)))))
    (String.split_on_char ',' s)

let st_name = function SOk -> "ok" | SRefused -> "refused" | SFailed -> "failed"

let answer st q t =
  let cur = match t with f :: _ -> int_of_nat f.fpath | [] -> -1 in
  let n = List.length t in
  let flags = String.concat "" (List.init n (fun i ->
    match List.filter (fun f -> int_of_nat f.fpath = i) t with
    | f :: _ -> if dirty_flag f.fe then "1" else "0"
    | [] -> "?")) in
  pr "%s %s %d %s\n" (st_name st) (if q then "quit" else "stay") cur flags

let () = iter_lines (fun l ->
  match words l with
  | "F" :: cmd :: sched :: bufs when bufs <> [] ->
      let t = List.mapi mk_buf bufs in
      let fs = List.mapi (fun i _ -> (nat_of_int i, ([n_of_int 111; n_of_int 10], z_of_int 5))) bufs in
      let sch = parse_sched sched in
      let now = z_of_int 9 in
      let n = String.length cmd in
      let bang = n > 0 && cmd.[n - 1] = '!' in
      let base = if bang then String.sub cmd 0 (n - 1) else cmd in
      let wr rng =
        (match t with
         | f0 :: rest ->
             let (((st, f0'), _), _) = fwrite now false bang rng O f0 fs sch in
             answer st false (f0' :: rest)
         | [] -> pr "\n") in
      let qt w x a =
        let ((((q, st), t'), _), _) = fec_quit now w x a bang O t fs sch in
        answer st q t' in
      (match base with
       | "q" -> qt false false false
       | "wq" -> qt true false false
       | "x" -> qt true true false
       | "xa" -> qt true true true
       | "w" -> wr None
       | _ when String.length base > 1 && base.[0] = 'R' ->
           (match String.split_on_char ',' (String.sub base 1 (String.length base - 1)) with
            | [b; e] -> wr (Some (nat_of_int (int_of_string b), nat_of_int (int_of_string e)))
            | _ -> pr "bad\n")
       | _ -> pr "bad\n")
  | _ -> pr "\n")
