(* drv_dirtyio.ml -- line-protocol driver of the extracted C02 model with failing writes (coq/DirtyIoDefs.v).
   Request:  F <cmd> <sched> <buf0> <buf1> ...
     cmd    q | wq | x | xa | w | R<b>,<e>   (R = write of lines b..e-1, 0-based, to the own path), each optionally followed by !
     sched  '-' (every call succeeds) or a comma separated list over  o (success) | e (error) | s<k> (short write of k bytes):
            one outcome per open / write / close call of the command, in program order
     buf    <flag>:<hex text>   the table in slot order; flag 1 = reported modified.  Buffer i has path i, recorded stamp 5,
            and its file exists with stamp 5.
   Answer:  <ok|refused|failed> <quit|stay> <path of the current buffer afterwards> <flags afterwards, by path>
   Request:  A <cmd> <slot0> <slot1> ...      (coq/DirtyAllDefs.v: ec_quit_n, every save of a path succeeds)
     cmd    q | wq | x | xa, optionally followed by !
     slot   n0 | n1 | u0 | u1 | -   a buffer with a name / the buffer without a name (at most one), not reported / reported modified; - = empty slot
   Answer:  quit | stay <slot (before the command) of the buffer that is current afterwards> <names handed to lbuf_save by the loop: slot numbers, u = the empty path> *)
let pr = Printf.printf

let mk_buf i w =
  match String.split_on_char ':' w with
  | [f; h] ->
      let text = bytes_of_hex h in
      let e = ebuf_open text in
      let e = if f = "1" then run_dop e (DEdit (Some text, O, nat_of_int 1000000)) else e in
      { fe = e; fpath = nat_of_int i; fts = z_of_int 5 }
  | _ -> { fe = ebuf_open []; fpath = nat_of_int i; fts = z_of_int 5 }

let parse_sched s =
  if s = "-" then [] else
  List.map (fun w ->
    if w = "o" then OOk else if w = "e" then OErr
    else OShort (nat_of_int (int_of_string (String.sub w 1 (String.length w - 1)))))
    (String.split_on_char ',' s)

let st_name = function SOk -> "ok" | SRefused -> "refused" | SFailed -> "failed"

let answer st q t =
  let cur = match t with f :: _ -> int_of_nat f.fpath | [] -> -1 in
  let n = List.length t in
  let flags = String.concat "" (List.init n (fun i ->
    match List.filter (fun f -> int_of_nat f.fpath = i) t with
    | f :: _ -> if dirty_flag f.fe then "1" else "0"
    | [] -> "?")) in
  pr "%s %s %d %s\n" (st_name st) (if q then "quit" else "stay") cur flags

let mk_nbuf i w =
  let x = [n_of_int 120; n_of_int 10] in
  let ed f = nrun f [NBump; NEdit (Some x, O, O); NBump] in
  match w with
  | "n0" -> Some (nbuf_open [n_of_int 111; n_of_int 10] (nat_of_int i))
  | "n1" -> Some (ed (nbuf_open [n_of_int 111; n_of_int 10] (nat_of_int i)))
  | "u0" -> Some nbuf_new
  | "u1" -> Some (ed nbuf_new)
  | _ -> None

let answer_all cmd slots =
  let n = String.length cmd in
  let bang = n > 0 && cmd.[n - 1] = '!' in
  let base = if bang then String.sub cmd 0 (n - 1) else cmd in
  let c = match base with "q" -> Some CQ | "wq" -> Some CWq | "x" -> Some CX | "xa" -> Some CXa | _ -> None in
  match c with
  | None -> pr "bad\n"
  | Some c ->
      let tab = List.mapi mk_nbuf slots in
      let (((t', q), cl), _) = ec_quit_n c bang WOwn tab [] in
      let nm = function Some p -> string_of_int (int_of_nat p) | None -> "u" in
      let calls = String.concat "," (List.map nm cl) in
      if q then pr "quit %s\n" calls
      else
        let cur = match noccupied t' with f :: _ -> f.nname | [] -> None in
        let idx = match cur with
          | Some p -> int_of_nat p
          | None -> (let rec find i = function [] -> -1 | w :: r -> if w = "u0" || w = "u1" then i else find (i + 1) r in find 0 slots) in
        pr "stay %d %s\n" idx calls

let () = iter_lines (fun l ->
  match words l with
  | "A" :: cmd :: slots when slots <> [] -> answer_all cmd slots
  | "F" :: cmd :: sched :: bufs when bufs <> [] ->
      let t = List.mapi mk_buf bufs in
      let fs = List.mapi (fun i _ -> (nat_of_int i, ([n_of_int 111; n_of_int 10], z_of_int 5))) bufs in
      let sch = parse_sched sched in
      let now = z_of_int 9 in
      let n = String.length cmd in
      let bang = n > 0 && cmd.[n - 1] = '!' in
      let base = if bang then String.sub cmd 0 (n - 1) else cmd in
      let wr rng =
        (match t with
         | f0 :: rest ->
             let (((st, f0'), _), _) = fwrite now false bang rng O f0 fs sch in
             answer st false (f0' :: rest)
         | [] -> pr "\n") in
      let qt w x a =
        let ((((q, st), t'), _), _) = fec_quit now w x a bang O t fs sch in
        answer st q t' in
      (match base with
       | "q" -> qt false false false
       | "wq" -> qt true false false
       | "x" -> qt true true false
       | "xa" -> qt true true true
       | "w" -> wr None
       | _ when String.length base > 1 && base.[0] = 'R' ->
           (match String.split_on_char ',' (String.sub base 1 (String.length base - 1)) with
            | [b; e] -> wr (Some (nat_of_int (int_of_string b), nat_of_int (int_of_string e)))
            | _ -> pr "bad\n")
       | _ -> pr "bad\n")
  | _ -> pr "\n")
