(* drv_undo.ml -- line-protocol driver of the extracted lbuf.c edit-log model
   (same protocol as harness/probe_undo.c) *)
let pr = Printf.printf

let show lb rc =
  pr "%d,%d,%s" rc (if modified_flag lb then 1 else 0) (hex_of_bytes (List.concat lb.ln))

let parse_edit o =
  (* E<b>,<e>,<t> *)
  let body = String.sub o 1 (String.length o - 1) in
  match String.split_on_char ',' body with
  | [b; e; t] ->
      let buf = if t = "N" then None else Some (bytes_of_hex t) in
      (buf, nat_of_int (int_of_string b), nat_of_int (int_of_string e))
  | _ -> (None, O, O)

(* refusal logic: "Q f0 f1 .." / "G f0 f1 .." -- a table of buffers, slot i tagged i, flagged
   modified iff fi = 1; answers "quit" / "stay <tag of the new current buffer>" resp. "refused" / "pass" *)
let mk_buf i f =
  let e = ebuf_open [n_of_int (65 + i); n_of_int 10] in
  if f = "1" then run_dop e (DEdit (None, O, S O)) else e
let tag e = match e.disk with (c :: _) :: _ -> int_of_n c - 65 | _ -> -1
(* the table is bufs[NBUFS] (NSLOTS slots, the observed buffers first, the rest empty): ec_quit_tab is the array loop of
   ec_quit; the list scan ec_quit must agree with it (C02_quit_table_is_scan) *)
let do_quit fs =
  let l = List.mapi mk_buf fs in
  if List.length l > int_of_nat nSLOTS then pr "overflow %d\n" (int_of_nat nSLOTS) else
  let (t, q) = ec_quit_tab false (full_table l) in
  let (t2, q2) = ec_quit false l in
  let cur = match t with Some b :: _ -> tag b | _ -> -1 in
  let cur2 = match t2 with b :: _ -> tag b | [] -> -1 in
  if q <> q2 || ((not q) && cur <> cur2) || List.length t <> int_of_nat nSLOTS then pr "model-inconsistent\n"
  else if q then pr "quit\n" else pr "stay %d\n" cur
let do_guard fs =
  let (_, r) = guard_current false (List.mapi mk_buf fs) in
  pr "%s\n" (if r then "refused" else "pass")

(* "GE f0 f1 .." = :e without a file name (ec_edit_noarg; the file holds the ghost disk of the current buffer); "GO f0 f1 .." = :e % /
   :e <own path> (ec_edit_own); both without `!`: "refused" or "pass <modified flag of the current buffer afterwards>" *)
let do_edit_self own fs =
  let bufs = List.mapi mk_buf fs in
  let file = match bufs with b :: _ -> List.concat b.disk | [] -> [] in
  let (t, r) = if own then ec_edit_own false bufs else ec_edit_noarg false file bufs in
  if r then pr "refused\n"
  else pr "pass %d\n" (match t with b :: _ -> if dirty_flag b then 1 else 0 | [] -> -1)

let () = iter_lines (fun l ->
  match words l with
  | "Q" :: fs -> do_quit fs
  | "G" :: fs -> do_guard fs
  | "GE" :: fs -> do_edit_self false fs
  | "GO" :: fs -> do_edit_self true fs
  | ["N"] -> pr "%d\n" (int_of_nat nSLOTS)
  | [] -> pr "\n"
  | init :: ops ->
      (* "@" = the buffer of an editor started without a file name: lbuf_make; lbuf_saved(lb, 0)  (DirtyDefs.ebuf_new) *)
      let lb = if init = "@" then ebuf_new.lb
               else lbuf_saved (lbuf_edit lbuf_make (Some (bytes_of_hex init)) O O) true in
      let lb = ref lb in
      List.iteri (fun i o ->
        let rc =
          match o.[0] with
          | 'E' -> let (buf, b, e) = parse_edit o in lb := lbuf_edit !lb buf b e; 0
          | 'M' -> let (l', f) = lbuf_modified !lb in lb := l'; if f then 1 else 0
          | 'U' -> (match lbuf_undo !lb with None -> 1 | Some l' -> lb := l'; 0)
          | 'R' -> (match lbuf_redo !lb with None -> 1 | Some l' -> lb := l'; 0)
          | 'S' -> lb := lbuf_saved !lb false; 0
          | 'K' -> lb := lbuf_saved !lb true; 0
          | 'P' -> lb := lbuf_unsaved !lb; 0
          | _ -> 0 in
        if i > 0 then pr " ";
        show !lb rc) ops;
      pr "\n")
