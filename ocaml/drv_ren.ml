(* drv_ren.ml -- line-protocol driver of the extracted ren.c / dir.c / shaping models (same
   protocol and output as harness/probe_ren.c; the `ren` request carries two more words: the answer
   of the context matcher and the trace of the mark matcher recorded by the probe). *)
let pr = Printf.printf
let ios = int_of_string
let zi = z_of_int and iz = int_of_z and ni = nat_of_int and inat = int_of_nat

let enc c =
  let b = if c < 0x80 then [c]
    else if c < 0x800 then [0xc0 lor (c lsr 6); 0x80 lor (c land 0x3f)]
    else if c < 0x10000 then [0xe0 lor (c lsr 12); 0x80 lor ((c lsr 6) land 0x3f); 0x80 lor (c land 0x3f)]
    else [0xf0 lor (c lsr 18); 0x80 lor ((c lsr 12) land 0x3f); 0x80 lor ((c lsr 6) land 0x3f); 0x80 lor (c land 0x3f)] in
  List.map n_of_int b

(* trace records: (b, e, ctx, flg, found, subs) *)
let parse_trace w =
  if w = "-" then [] else
  List.map (fun r ->
    match List.map ios (String.split_on_char ',' r) with
    | b :: e :: ctx :: flg :: found :: subs -> (b, e, ctx, flg, found, subs)
    | _ -> failwith "trace") (String.split_on_char ';' w)

let miss = ref false
let flagbad = ref false

(* the matcher the model is run with is the EXTRACTED raw_of over the recorded answers (the one the
   theorem C18_permutation_checked speaks about); the wrapper only notes a call that was not
   recorded and a difference in the RE_NOT* flags *)
let mk_tr trace =
  List.map (fun (b, e, ctx, _, found, subs) ->
    (((ni b, ni e), zi ctx), (if found < 0 then None else Some (ni found, List.map zi subs)))) trace

let mk_raw trace tr =
  fun b e ctx flg ->
    let b' = inat b and e' = inat e and ctx' = iz ctx and flg' = iz flg in
    (match List.find_opt (fun (b0, e0, c0, _, _, _) -> b' = b0 && e' = e0 && c0 = ctx') trace with
     | None -> miss := true
     | Some (_, _, _, flg0, _, _) -> if flg0 <> flg' then flagbad := true);
    raw_of tr b e ctx flg

let do_ren full hex order td lim ctxf tracew =
  let s = bytes_of_hex hex in
  let trace = parse_trace tracew in
  miss := false; flagbad := false;
  let tr = mk_tr trace in
  let raw = mk_raw trace tr in
  let xtd = zi td and cf = zi ctxf in
  let dr = dr_of xtd cf raw in
  let o = { xorder = zi order; xlim = zi lim } in
  let n = inat (uc_slen s) in
  let chrs = uc_chop s in
  let dctx = dir_context s xtd cf in
  pr " dctx=%d dm=" (iz dctx);
  if trace = [] then pr "-";
  (* the hypothesis of the C18 theorems (cm_ok), decided by the extracted matcher_ok on this case *)
  let bad = not (matcher_ok s tr) in
  List.iter (fun (b, e, ctx, _, _, _) ->
    match dir_match s chrs raw (ni b) (ni e) (zi ctx) with
    | None -> pr "x;"
    | Some m ->
      let rb = inat m.r_beg and re = inat m.r_end and cb = inat m.c_beg and ce = inat m.c_end in
      pr "%d,%d,%d,%d,%d,%d;" rb re cb ce (iz m.c_dir) (if m.c_rec then 1 else 0)) trace;
  let ident = List.init n (fun i -> ni i) in
  pr " ord=";
  (match dir_reorder s xtd cf raw ident with
   | None -> pr "FUEL"
   | Some ord -> List.iter (fun i -> pr "%d," (inat i)) ord);
  (* the order array ren_position lays the line out with (RenOrdDefs.ren_order: dir_reorder's result when the line is
     within linelimit in CHARACTERS and the order option asks for it, the identity otherwise) *)
  pr " rord=";
  List.iter (fun i -> pr "%d," (inat i)) (ren_order dr o s);
  if full then begin
  let pos = ren_position dr o s in
  let posa = Array.of_list (List.map iz pos) in
  let total = if Array.length posa > n then posa.(n) else -99 in
  pr " pos="; Array.iter (fun p -> pr "%d," p) posa;
  pr " cw=";
  for i = 0 to n - 1 do pr "%d," (iz (ren_cwid (chr_at s chrs (ni i)) (zi posa.(i)))) done;
  pr " wid=%d" (iz (ren_wid dr o s));
  pr " rpos=";
  for i = 0 to n + 1 do pr "%d," (iz (ren_pos dr o s (zi i))) done;
  pr " noeol=";
  for i = -1 to n + 1 do pr "%d," (iz (ren_noeol s (zi i))) done;
  let ranges = if total <= 80 then [(-2, total + 2)] else [(-2, 6); (total - 6, total + 2)] in
  pr " cols=";
  List.iter (fun (lo, hi) ->
    for p = lo to hi do
      let zp = zi p in
      pr "%d:%d:%d:%d:%d:%d:%d:%d:%d," p (inat (ren_off dr o s zp)) (iz (ren_cursor dr o s zp))
        (iz (ren_next dr o s zp (zi 1))) (iz (ren_next dr o s zp (zi (-1))))
        (iz (pos_next pos (ni n) zp false)) (iz (pos_next pos (ni n) zp true))
        (iz (pos_prev pos (ni n) zp false)) (iz (pos_prev pos (ni n) zp true))
    done) ranges
  end;
  if !miss then pr " ORACLE-MISS";
  if !flagbad then pr " FLAG-MISMATCH";
  if bad then pr " MATCHER-NOT-OK";
  pr "\n"

let shres = function ShNone -> "x" | ShFuel -> "FUEL" | ShOut b -> hex_of_bytes b

let do_shape hex shape =
  let s = bytes_of_hex hex in
  let n = inat (uc_slen s) in
  let chrs = Array.of_list (uc_chop s) in
  pr "sh=";
  for i = 0 to n - 1 do pr "%s," (shres (uc_shape s chrs.(i))) done;
  pr " tr=";
  for i = 0 to n - 1 do pr "%s," (shres (ren_translate s chrs.(i) (shape <> 0))) done;
  pr " comb=";
  for i = 0 to n - 1 do pr "%d" (if uc_iscomb (skipn (inat chrs.(i)) s) then 1 else 0) done;
  pr "\n"

let bi b = if b then 1 else 0
let ob = function Some b -> bi b | None -> 9     (* 9 = out of fuel *)

(* the width-class answers of the model for code point c (same text as the probe's wclass_of) *)
let wclass_of c =
  let b = enc c @ [n_of_int 65] in
  let zc = zi c in
  let (ph, _) = ren_placeholder b in
  Printf.sprintf "%d %d %d %d %d %d %d %d %s" (bi (uc_isdw zc)) (bi (uc_iszw zc)) (ob (tfind zc bchars))
    (iz (uc_wid b)) (bi (uc_isbell b)) (bi (uc_iscomb b)) (iz (ren_cwid b (zi 0))) (iz (ren_cwid b (zi 5)))
    (match ph with Some d -> hex_of_bytes d | None -> "x")

let do_wsweep lo hi =
  for c = lo to hi do pr "%d %s\n" c (wclass_of c) done

(* wclass lo hi: the same function printed as maximal runs.  The model is evaluated at both ends and
   in the middle of every piece between two consecutive break points (the extracted class_bounds =
   every bound a / b+1 of the four range tables, the placeholder code points, the thresholds, every
   code point up to 0x100, the encoding-length boundaries); inside a piece no table bound lies, so
   the model's answers are constant there (theorem C17_width_class_runs).  A piece whose three evaluations differ is evaluated code point by code point. *)
let do_wclass lo hi =
  if lo > hi then pr "-\n" else begin
    let bp = Hashtbl.create 4096 in
    let add x = if x > lo && x <= hi then Hashtbl.replace bp x () in
    List.iter (fun x -> add (iz x)) class_bounds;     (* the extracted list C17_width_class_runs speaks about *)
    List.iter (fun ((src, _), _) -> let c = int_of_n (uc_code src) in add c; add (c + 1)) placeholders;
    add (iz dw_min); add (iz zw_min);
    for c = 0 to 0x100 do add c done;
    List.iter add [0x800; 0x10000; 0xd800; 0xe000; 0x110000];
    let starts = lo :: List.sort compare (Hashtbl.fold (fun k () l -> k :: l) bp []) in
    let runs = ref [] in                    (* (start, end, class), last first *)
    let push s e v =
      match !runs with
      | (s0, _, v0) :: r when v0 = v -> runs := (s0, e, v0) :: r
      | _ -> runs := (s, e, v) :: !runs in
    let rec pieces = function
      | [] -> ()
      | s :: rest ->
        let e = (match rest with [] -> hi | s' :: _ -> s' - 1) in
        let v = wclass_of s in
        if e = s || (wclass_of e = v && wclass_of ((s + e) / 2) = v) then push s e v
        else for c = s to e do push c c (wclass_of c) done;
        pieces rest in
    pieces starts;
    List.iter (fun (s, e, v) -> pr "%d-%d:%s;" s e v) (List.rev !runs);
    pr "\n"
  end

let cs_sets () =
  let extra = [0; 0x41; 0x20; 0x64b; 0x670; 0x600; 0x6f0; 0xfe8e; 0xfeff; 0x200e] in
  let cs = ref [] and nb = ref [] in
  List.iter (fun (c, (((s, i), m), f)) ->
    let c = iz c and s = iz s and i = iz i and m = iz m and f = iz f in
    cs := c :: !cs; nb := c :: !nb;
    List.iter (fun x -> if x <> 0 then cs := x :: !cs) [s; i; m; f]) achars;
  List.iter (fun x -> cs := x :: !cs; nb := x :: !nb) extra;
  (List.rev !cs, List.rev !nb)

let do_cssweep () =
  let (cs, nb) = cs_sets () in
  List.iter (fun c ->
    pr "%d:" c;
    List.iter (fun p -> List.iter (fun n -> pr "%d," (iz (uc_cshape (zi c) (zi p) (zi n)))) nb) nb;
    pr "\n") cs;
  List.iter (fun p ->
    pr "j%d:" p;
    List.iter (fun n -> pr "%d" (bi (can_join (zi p) (zi n)))) nb;
    pr "\n") nb

let index_of r =
  let rec go i = function [] -> -1 | x :: l -> if x = r then i else go (i + 1) l in go 0 achars

let do_fasweep () =
  for c = 0 to 0x110000 do
    match find_achar_o (zi c) with
    | None -> pr "%d:FUEL," c
    | Some None -> ()
    | Some (Some r) -> pr "%d:%d," c (index_of r)
  done;
  pr "\n"

let () =
  iter_lines (fun l ->
    (match words l with
     | ["ren"; h; o; td; lim; cf; tr] -> do_ren true h (ios o) (ios td) (ios lim) (ios cf) tr
     | ["dir"; h; o; td; lim; cf; tr] -> do_ren false h (ios o) (ios td) (ios lim) (ios cf) tr
     | ["shape"; h; x] -> do_shape h (ios x)
     | ["wsweep"; lo; hi] -> do_wsweep (ios lo) (ios hi)
     | ["wclass"; lo; hi] -> do_wclass (ios lo) (ios hi)
     | ["cssweep"] -> do_cssweep ()
     | ["fasweep"] -> do_fasweep ()
     | _ -> pr "?\n");
    flush stdout)
