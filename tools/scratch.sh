#!/bin/sh
# scratch.sh <outdir> [asan]  : build /repo working tree (with -DNEATVI_VERIF) into <outdir>
OUT=$1; MODE=${2:-plain}; REPO=${REPO:-/repo}
mkdir -p "$OUT" && cd "$REPO" || exit 2
if [ "$MODE" = asan ]; then
  CC=clang; FL="-O1 -g -fsanitize=address,undefined -fno-sanitize=nonnull-attribute,signed-integer-overflow,pointer-overflow -fno-sanitize-recover=undefined -fno-omit-frame-pointer -DNEATVI_VERIF"
else
  CC=cc; FL="-O1 -g -DNEATVI_VERIF"
fi
for f in vi ex lbuf mot sbuf ren dir syn reg led uc term rset rstr regex cmd tag conf; do
  ( $CC $FL -w -c $f.c -o "$OUT/$f.o" || echo FAIL $f ) &
done
wait
$CC $FL -o "$OUT/vi" "$OUT"/*.o
