#!/usr/bin/env python3
"""c2clite.py <repo> <coqdir>

Translates a whitelist of C functions of /repo into terms of the deep embedding coq/CLite.v and
writes coq/GenCFuncs.v.  clang is the parser (`-Xclang -ast-dump=json`); this script only prints
the tree it is given: every implicit conversion is an explicit ECast, every pointer addition
carries its scale, every integer operation the C type it is computed in.  What the terms MEAN is
fixed in CLite.v.  The hand-written models are proved equal to these terms in coq/Tr*.v, for all
inputs, so a change of one of these functions breaks a proof obligation.

A function that uses a construct outside the subset (switch, goto, struct copies, ...) or that no longer
exists is emitted as a STUB (an empty function) with the reason in a comment and on stdout: the
theorems about that function then no longer check -- which the property that owns them reports -- while
the theorems about the other functions are not disturbed.
"""
import sys, os, json, subprocess, re

REPO = sys.argv[1] if len(sys.argv) > 1 else '/repo'
COQ = sys.argv[2] if len(sys.argv) > 2 else os.path.join(os.path.dirname(os.path.dirname(os.path.abspath(__file__))), 'coq')

# the whitelist: tools/c2clite.d/*.list in file-name order, one "file.c function [coq-name]" per line.
# New functions are appended (a later list file or the end of a list), so that the indices F_* and the
# theorems already proved about earlier functions are not disturbed.
LISTDIR = os.path.join(os.path.dirname(os.path.abspath(__file__)), 'c2clite.d')


KEEP_EXTERN = set()      # (file, C name): see @extern below
LATE = {}                # Coq name -> rank: see @late below


def read_lists():
    out = []
    late_file = None
    for fn in sorted(os.listdir(LISTDIR)):
        if not fn.endswith('.list'):
            continue
        for line in open(os.path.join(LISTDIR, fn)):
            line = line.split('#')[0].split()
            if not line:
                continue
            if line[0] == '@extern':
                # "@extern file.c cname": the calls to cname written in file.c stay calls to the untranslated index X_cname
                # although cname is translated (theorems about file.c's functions stated relative to an oracle keep their form)
                if len(line) != 3:
                    die('%s: bad line %r' % (fn, line))
                KEEP_EXTERN.add((line[1], line[2]))
                continue
            if line[0] == '@late':
                # the functions listed BEHIND this line in the same list file are translated after every other function (not together
                # with the earlier functions of their C file), so that the global blocks G_* and extern indices X_* they bring along
                # are appended at the end and the indices of the other groups do not move.  "@late N" (N = 1, 2, ...; plain @late is
                # rank 0): the late groups are translated in rank order, so a list file added after 99zz_glob / 99zzz_dir takes a
                # higher rank than every existing one and what IT brings along lands behind theirs, whatever its file name is
                late_file = fn
                late_rank = int(line[1]) if len(line) > 1 else 0
                continue
            if len(line) not in (2, 3):
                die('%s: bad line %r' % (fn, line))
            out.append((line[0], line[1], line[2] if len(line) == 3 else line[1]))
            if late_file == fn:
                LATE[out[-1][2]] = late_rank
    names = [c for _, _, c in out]
    if len(set(names)) != len(names):
        die('duplicate Coq names in the whitelist')
    return out


FUNCS = read_lists()          # (file, C name, Coq name)
BUILTINS = {'isspace': 'BIsspace', 'isdigit': 'BIsdigit', 'isalpha': 'BIsalpha', 'isupper': 'BIsupper', 'islower': 'BIslower',
            'isalnum': 'BIsalnum', 'isprint': 'BIsprint', 'tolower': 'BTolower', 'toupper': 'BToupper',
            'strlen': 'BStrlen', 'strchr': 'BStrchr', 'strcmp': 'BStrcmp', 'strncmp': 'BStrncmp', 'strrchr': 'BStrrchr',
            'strcpy': 'BStrcpy', 'atoi': 'BAtoi', 'strcat': 'BStrcat'}


class Unsupported(Exception):
    pass


def die(msg):
    print('c2clite.py: ' + msg)
    sys.exit(2)


def ast_docs(path, filt):
    r = subprocess.run(['clang', '-fsyntax-only', '-w', '-D__NO_CTYPE', '-I', REPO, '-Xclang', '-ast-dump=json',
                        '-Xclang', '-ast-dump-filter=' + filt, path], stdout=subprocess.PIPE, stderr=subprocess.PIPE, text=True)
    if r.returncode != 0:
        die('clang failed on %s: %s' % (path, r.stderr[-1500:]))
    txt, dec, i, docs = r.stdout, json.JSONDecoder(), 0, []
    while i < len(txt):
        while i < len(txt) and txt[i] in ' \n\r\t':
            i += 1
        if i >= len(txt):
            break
        if txt[i] != '{':
            j = txt.find('\n', i)
            i = j + 1 if j >= 0 else len(txt)
            continue
        d, j = dec.raw_decode(txt, i)
        docs.append(d)
        i = j
    return docs


# ---------------------------------------------------------------- types
INT_TYPES = {
    'char': 'I8', 'signed char': 'I8', 'unsigned char': 'U8', 'short': 'I16', 'unsigned short': 'U16',
    'int': 'I32', 'unsigned int': 'U32', 'unsigned': 'U32', 'long': 'I64', 'unsigned long': 'U64',
    'long long': 'I64', 'unsigned long long': 'U64', 'size_t': 'U64', 'ssize_t': 'I64',
}
INT_BYTES = {'I8': 1, 'U8': 1, 'I16': 2, 'U16': 2, 'I32': 4, 'U32': 4, 'I64': 8, 'U64': 8}


def qt(node):
    t = node.get('type', {})
    return (t.get('desugaredQualType') or t.get('qualType') or '').replace('const ', '').replace('static ', '').strip()


class Types:
    def __init__(self):
        self.structs = {}     # name -> [(field, type string)]
        self.loader = None    # called with a struct name that is not known yet
        self.typedefs = None  # name -> underlying type string (or None)

    def parse(self, s):
        """-> ('int', ity) | ('ptr', elem) | ('arr', elem, n) | ('struct', name) | ('void',) | ('fn',)"""
        s = s.strip()
        if s.endswith(')') and '(' in s and not s.endswith('*)'):
            return ('fn',)
        m = re.match(r'^(.*?)\s*\[(\d*)\](.*)$', s)
        if m and not m.group(1).rstrip().endswith(')'):
            # T[a][b] : outermost dimension first
            inner = (m.group(1) + m.group(3)).strip()
            n = int(m.group(2)) if m.group(2) else None
            return ('arr', self.parse(inner), n)
        if s.endswith('*'):
            return ('ptr', self.parse(s[:-1]))
        m = re.match(r'^(.*)\(\*\)\[(\d+)\]$', s)
        if m:   # pointer to array: int (*)[2]
            return ('ptr', ('arr', self.parse(m.group(1)), int(m.group(2))))
        if s in INT_TYPES:
            return ('int', INT_TYPES[s])
        if s.startswith('struct '):
            return ('struct', s[7:].strip())
        if s == 'void':
            return ('void',)
        if self.typedefs is not None and re.match(r'^[A-Za-z_][A-Za-z0-9_]*$', s):
            u = self.typedefs(s)
            if u and u != s:
                return self.parse(u)
        if re.match(r'^[^()]*\(\*\)\s*\(.*\)$', s):
            # pointer to function (the ec field of ex.c's excmds[]): one cell; the only supported use is the indirect call (see CallExpr)
            return ('ptr', ('fn',))
        raise Unsupported('type %r' % s)

    def cells(self, t):
        if t[0] in ('int', 'ptr'):
            return 1
        if t[0] == 'arr':
            if t[2] is None:
                raise Unsupported('size of incomplete array')
            return t[2] * self.cells(t[1])
        if t[0] == 'struct':
            return sum(self.cells(self.parse(ft)) for _, ft in self.struct(t[1]))
        raise Unsupported('cells of %r' % (t,))

    def bytes_(self, t):
        if t[0] == 'int':
            return INT_BYTES[t[1]]
        if t[0] == 'ptr':
            return 8
        if t[0] == 'arr':
            return t[2] * self.bytes_(t[1])
        if t[0] == 'struct':
            # x86-64 SysV layout: each field aligned to its alignment, the whole to the largest alignment
            off = 0
            for _, ft in self.struct(t[1]):
                f = self.parse(ft)
                a = self.align_(f)
                off = (off + a - 1) // a * a + self.bytes_(f)
            a = self.align_(t)
            return (off + a - 1) // a * a
        raise Unsupported('sizeof %r' % (t,))

    def align_(self, t):
        if t[0] == 'int':
            return INT_BYTES[t[1]]
        if t[0] == 'ptr':
            return 8
        if t[0] == 'arr':
            return self.align_(t[1])
        if t[0] == 'struct':
            return max([self.align_(self.parse(ft)) for _, ft in self.struct(t[1])] or [1])
        raise Unsupported('alignment of %r' % (t,))

    def struct(self, name):
        if name not in self.structs and self.loader:
            self.loader(name)
        if name not in self.structs:
            raise Unsupported('struct %s not found' % name)
        return self.structs[name]

    def field(self, sname, fname):
        off = 0
        for f, ft in self.struct(sname):
            if f == fname:
                return off, self.parse(ft)
            off += self.cells(self.parse(ft))
        raise Unsupported('field %s.%s' % (sname, fname))


# ---------------------------------------------------------------- printing
def Z(n):
    return '(%d)' % n if n < 0 else '%d' % n


def opt(x):
    return 'None' if x is None else '(Some %s)' % x


class Fn:
    """translation of one function body"""

    def __init__(self, tr, decl):
        self.tr, self.decl = tr, decl
        self.locals = {}        # clang id -> index
        self.nparams = 0
        self.inmem = {}         # clang id -> type: locals that live in a block of their own (arrays, address taken);
                                # the local slot then holds the pointer to that block
        self.statics = {}       # clang id -> global name (static locals)
        self.addr_taken = set()
        self.find_addr_taken(decl)

    def find_addr_taken(self, n):
        if not isinstance(n, dict):
            return
        if n.get('kind') == 'UnaryOperator' and n.get('opcode') == '&':
            x = n['inner'][0]
            while x.get('kind') == 'ParenExpr':
                x = x['inner'][0]
            if x.get('kind') == 'DeclRefExpr' and x['referencedDecl']['kind'] in ('VarDecl', 'ParmVarDecl'):
                self.addr_taken.add(x['referencedDecl']['id'])
        for c in n.get('inner', []):
            self.find_addr_taken(c)

    def local(self, node):
        return self.locals[node['id']]

    def newlocal(self, node):
        self.locals[node['id']] = len(self.locals)

    # ---- lvalues: ('local', idx, type) | ('mem', addr_expr, type)
    def lvalue(self, n):
        k = n['kind']
        T = self.tr.types
        if k == 'ParenExpr':
            return self.lvalue(n['inner'][0])
        if k == 'DeclRefExpr':
            rd = n['referencedDecl']
            t = T.parse(qt(n))
            if rd['kind'] in ('VarDecl', 'ParmVarDecl'):
                if rd['id'] in self.statics:
                    return ('mem', '(EGlob %s)' % self.statics[rd['id']], t)
                if rd['id'] in self.inmem:
                    return ('mem', '(ELocal %d)' % self.locals[rd['id']], t)
                if rd['id'] in self.locals:
                    return ('local', self.locals[rd['id']], t)
                return ('mem', '(EGlob %s)' % self.tr.global_of(rd), t)
            raise Unsupported('reference to %s %s' % (rd['kind'], rd.get('name')))
        if k == 'UnaryOperator' and n['opcode'] == '*':
            return ('mem', self.rv(n['inner'][0]), T.parse(qt(n)))
        if k == 'ArraySubscriptExpr':
            a, i = n['inner']
            ta = T.parse(qt(a))
            if ta[0] != 'ptr':
                a, i = i, a
                ta = T.parse(qt(a))
            if ta[0] != 'ptr':
                raise Unsupported('subscript of a non-pointer')
            et = T.parse(qt(n))
            return ('mem', '(EPtrAdd %s %s %s)' % (Z(T.cells(et)), self.rv(a), self.rv(i)), et)
        if k == 'MemberExpr':
            base = n['inner'][0]
            if n.get('isArrow'):
                bt = T.parse(qt(base))
                if bt[0] != 'ptr' or bt[1][0] != 'struct':
                    raise Unsupported('-> on a non-struct pointer')
                addr, sname = self.rv(base), bt[1][1]
            else:
                lv = self.lvalue(base)
                if lv[0] != 'mem' or lv[2][0] != 'struct':
                    raise Unsupported('. on something that is not a struct in memory')
                addr, sname = lv[1], lv[2][1]
            off, ft = T.field(sname, n['name'])
            return ('mem', addr if off == 0 else '(EPtrAdd 1 %s (EConst %d))' % (addr, off), ft)
        raise Unsupported('lvalue %s' % k)

    def load(self, lv):
        kind, a, t = lv
        if t[0] == 'arr':          # array-to-pointer decay: the address itself
            if kind != 'mem':
                raise Unsupported('local array')
            return a
        if kind == 'local':
            return '(ELocal %d)' % a
        if t[0] == 'int':
            return '(ELoad (Some %s) %s)' % (t[1], a)
        if t[0] == 'ptr':
            return '(ELoad None %s)' % a
        raise Unsupported('load of %r' % (t,))

    def pure(self, n):
        """no side effect and no call anywhere inside"""
        k = n.get('kind')
        if k in ('CallExpr', 'CompoundAssignOperator'):
            return False
        if k == 'UnaryOperator' and n['opcode'] in ('++', '--'):
            return False
        if k == 'BinaryOperator' and n['opcode'] == '=':
            return False
        return all(self.pure(c) for c in n.get('inner', []) if c)

    def ity(self, n):
        t = self.tr.types.parse(qt(n))
        if t[0] != 'int':
            raise Unsupported('integer type expected, got %r' % (t,))
        return t[1]

    @staticmethod
    def fn_designator(n):
        while n['kind'] == 'ParenExpr':
            n = n['inner'][0]
        return (n['kind'] == 'ImplicitCastExpr' and n.get('castKind') == 'FunctionToPointerDecay'
                and n['inner'][0]['kind'] == 'DeclRefExpr' and n['inner'][0].get('referencedDecl', {}).get('kind') == 'FunctionDecl')

    @staticmethod
    def null_const(n):
        while n['kind'] in ('ParenExpr', 'ImplicitCastExpr') and n.get('castKind', 'NullToPointer') in ('NullToPointer', 'IntegralCast'):
            n = n['inner'][0]
        return n['kind'] == 'IntegerLiteral' and n.get('value') == '0'

    BIN = {'+': 'OAdd', '-': 'OSub', '*': 'OMul', '/': 'ODiv', '%': 'ORem', '&': 'OAnd', '|': 'OOr', '^': 'OXor',
           '<<': 'OShl', '>>': 'OShr', '<': 'OLt', '<=': 'OLe', '>': 'OGt', '>=': 'OGe', '==': 'OEq', '!=': 'ONe'}

    def binop(self, op, n, a, b, ea, eb):
        """op applied to operand nodes a, b (already converted by clang) whose translations are ea, eb; n = result node type source"""
        T = self.tr.types
        ta, tb = T.parse(qt(a)), T.parse(qt(b))
        if op in ('<', '<=', '>', '>=', '==', '!='):
            if ta[0] == 'ptr' or tb[0] == 'ptr':
                return '(EPtrCmp %s %s %s)' % (self.BIN[op], ea, eb)
            return '(EBin %s %s %s %s)' % (self.BIN[op], ta[1], ea, eb)
        if ta[0] == 'ptr' and tb[0] == 'ptr':
            if op != '-':
                raise Unsupported('pointer %s pointer' % op)
            return '(EPtrDiff %s %s %s)' % (Z(T.cells(ta[1])), ea, eb)
        if ta[0] == 'ptr':
            if op not in '+-':
                raise Unsupported('pointer %s int' % op)
            # `void * + n` (GNU C: sizeof(void) == 1, what gcc and clang compile): one cell per byte, i.e. the
            # pointer is taken to point to char data (lbuf.c write_fully: buf + nw)
            sc = 1 if ta[1] == ('void',) else T.cells(ta[1])
            return '(EPtrAdd %s %s %s)' % (Z(sc if op == '+' else -sc), ea, eb)
        if tb[0] == 'ptr':
            if op != '+':
                raise Unsupported('int %s pointer' % op)
            return '(EPtrAdd %s %s %s)' % (Z(T.cells(tb[1])), eb, ea)
        rt = T.parse(n) if isinstance(n, str) else T.parse(qt(n))
        if op in ('<<', '>>'):
            return '(EBin %s %s %s %s)' % (self.BIN[op], ta[1], ea, eb)
        return '(EBin %s %s %s %s)' % (self.BIN[op], rt[1], ea, eb)

    # ---- rvalues
    def rv(self, n):
        k = n['kind']
        T = self.tr.types
        if k == 'ParenExpr':
            return self.rv(n['inner'][0])
        if k == 'IntegerLiteral':
            return '(EConst %s)' % Z(int(n['value']))
        if k == 'CharacterLiteral':
            return '(EConst %s)' % Z(int(n['value']))
        if k in ('ImplicitCastExpr', 'CStyleCastExpr'):
            ck, sub = n['castKind'], n['inner'][0]
            if ck == 'LValueToRValue':
                return self.load(self.lvalue(sub))
            if ck == 'ArrayToPointerDecay':
                if sub['kind'] == 'StringLiteral':
                    return '(EGlob %s)' % self.tr.literal(sub)
                lv = self.lvalue(sub)
                if lv[0] != 'mem':
                    raise Unsupported('decay of a local array')
                return lv[1]
            if ck == 'IntegralCast':
                return '(ECast %s %s)' % (self.ity(n), self.rv(sub))
            if ck == 'BitCast' and self.callee_name(sub) in ('malloc', 'calloc'):
                # T *p = malloc(bytes): a fresh block of bytes * cells(T) / sizeof(T) cells
                t = T.parse(qt(n))
                if t[0] != 'ptr':
                    raise Unsupported('malloc cast to a non-pointer')
                if self.callee_name(sub) == 'calloc':
                    raise Unsupported('calloc')
                return '(EBuiltin BMalloc [%s])' % self.cells_of_bytes(self.rv(self.call_args(sub)[0]), t[1])
            if ck in ('NoOp', 'BitCast'):
                return self.rv(sub)
            if ck == 'NullToPointer':
                return '(EConst 0)'
            if ck == 'ToVoid':
                return self.rv(sub)
            raise Unsupported('cast kind %s' % ck)
        if k == 'UnaryOperator':
            op, sub = n['opcode'], n['inner'][0]
            if op == '-':
                return '(EUn ONeg %s %s)' % (self.ity(n), self.rv(sub))
            if op == '~':
                return '(EUn OBNot %s %s)' % (self.ity(n), self.rv(sub))
            if op == '+':
                return self.rv(sub)
            if op == '!':
                return '(ELNot %s)' % self.rv(sub)
            if op == '&':
                lv = self.lvalue(sub)
                if lv[0] != 'mem':
                    raise Unsupported('address of a local')
                return lv[1]
            if op in ('++', '--'):
                lv = self.lvalue(sub)
                sign = 1 if op == '++' else -1
                post = 'true' if n.get('isPostfix') else 'false'
                if lv[0] == 'local':
                    if lv[2][0] == 'int':
                        return '(EIncLocal %s %d (Some %s) %s)' % (post, lv[1], lv[2][1], Z(sign))
                    if lv[2][0] == 'ptr':
                        return '(EIncLocal %s %d None %s)' % (post, lv[1], Z(sign * T.cells(lv[2][1])))
                if lv[0] == 'mem':
                    if lv[2][0] == 'int':
                        return '(EIncMem %s (Some %s) %s %s)' % (post, lv[2][1], Z(sign), lv[1])
                    if lv[2][0] == 'ptr':
                        return '(EIncMem %s None %s %s)' % (post, Z(sign * T.cells(lv[2][1])), lv[1])
                raise Unsupported('++/-- on an object of type %r' % (lv[2],))
            if op == '*':
                return self.load(self.lvalue(n))
            raise Unsupported('unary %s' % op)
        if k == 'BinaryOperator':
            op = n['opcode']
            a, b = n['inner']
            if op == ',':
                return '(EComma %s %s)' % (self.rv(a), self.rv(b))
            if op == '&&':
                return '(EAndAlso %s %s)' % (self.rv(a), self.rv(b))
            if op == '||':
                return '(EOrElse %s %s)' % (self.rv(a), self.rv(b))
            if op == '=':
                lv = self.lvalue(a)
                if lv[2][0] == 'struct':
                    return self.struct_copy(lv, b)
                return self.assign(lv, self.rv(b))
            if op in ('>', '!=') and self.fn_designator(a) and self.null_const(b):
                # `f > 0` / `f != 0` on a function designator (ex.c lbuf_save: `mtime > 0` tests the function mtime, not a
                # time stamp): the address of a function is never null
                return '(EConst 1)'
            return self.binop(op, n, a, b, self.rv(a), self.rv(b))
        if k == 'CompoundAssignOperator':
            op = n['opcode'][:-1]
            a, b = n['inner']
            lv = self.lvalue(a)
            if lv[0] == 'mem' and not self.pure(a):
                raise Unsupported('compound assignment through an address with side effects')
            cur = self.load(lv)
            if lv[2][0] == 'ptr':
                if op not in '+-':
                    raise Unsupported('pointer %s=' % op)
                sc = T.cells(lv[2][1])
                return self.assign(lv, '(EPtrAdd %s %s %s)' % (Z(sc if op == '+' else -sc), cur, self.rv(b)))
            lt = lv[2][1]
            ct = T.parse(n['computeLHSType'].get('desugaredQualType') or n['computeLHSType']['qualType'])[1]
            rt = T.parse(n['computeResultType'].get('desugaredQualType') or n['computeResultType']['qualType'])[1]
            x = cur if ct == lt else '(ECast %s %s)' % (ct, cur)
            if op in ('<<', '>>'):
                e = '(EBin %s %s %s %s)' % (self.BIN[op], ct, x, self.rv(b))
            else:
                e = '(EBin %s %s %s %s)' % (self.BIN[op], rt, x, self.rv(b))
            if rt != lt:
                e = '(ECast %s %s)' % (lt, e)
            return self.assign(lv, e)
        if k == 'ConditionalOperator':
            c, a, b = n['inner']
            return '(ECond %s %s %s)' % (self.rv(c), self.rv(a), self.rv(b))
        if k == 'CallExpr':
            callee, args = n['inner'][0], n['inner'][1:]
            while callee['kind'] in ('ImplicitCastExpr', 'ParenExpr'):
                callee = callee['inner'][0]
            if callee['kind'] == 'MemberExpr' and T.parse(qt(callee)) == ('ptr', ('fn',)):
                # an indirect call through a function-pointer field of an object in memory (excmds[idx].ec(loc, cmd, arg, txt)): CLite has
                # no function values, so it is printed as a call to the oracle index X_indirect (CLiteExt.callx) with the ADDRESS of the
                # pointer cell as an extra first argument; such cells are VUndef in the initial memory and no store to them is translated
                lvc = self.lvalue(callee)
                if lvc[0] != 'mem':
                    raise Unsupported('indirect call')
                return '(ECall %s [%s])' % (self.tr.extern('indirect'), '; '.join([lvc[1]] + [self.rv(a) for a in args]))
            if callee['kind'] != 'DeclRefExpr' or callee['referencedDecl']['kind'] != 'FunctionDecl':
                raise Unsupported('indirect call')
            name = callee['referencedDecl']['name']
            al = '[' + '; '.join(self.rv(a) for a in args) + ']'
            coq = self.tr.resolve(name)
            if coq is not None:
                return '(ECall F_%s %s)' % (coq, al)
            if name in BUILTINS:
                return '(EBuiltin %s %s)' % (BUILTINS[name], al)
            if name == 'free':
                return '(EBuiltin BFree %s)' % al
            if name in ('memcpy', 'memmove', 'memset'):
                # the byte count becomes a cell count, by the pointee type of the destination before its cast to void *
                d = args[0]
                while d['kind'] in ('ImplicitCastExpr', 'CStyleCastExpr', 'ParenExpr') and d.get('castKind', 'BitCast') in ('BitCast', 'NoOp') and T.parse(qt(d)) == ('ptr', ('void',)):
                    d = d['inner'][0]
                td = T.parse(qt(d))
                if td[0] != 'ptr' or td[1][0] == 'void':
                    raise Unsupported('%s with an untyped destination' % name)
                cnt = self.cells_of_bytes(self.rv(args[2]), td[1])
                if name == 'memset' and td[1][0] == 'int' and INT_BYTES[td[1][1]] > 1:
                    # an array of multi-byte integers: a cell is one integer, so it gets the value the repeated fill byte spells
                    # in that type (memset(int *, 0xff, n): -1).  Only for a constant fill byte; 0 stays the plain BMemset
                    c = args[1]
                    while c['kind'] in ('ImplicitCastExpr', 'ParenExpr', 'ConstantExpr'):
                        c = c['inner'][0]
                    if c['kind'] not in ('IntegerLiteral', 'CharacterLiteral'):
                        raise Unsupported('memset on an integer array with a fill byte that is not a literal')
                    byte = int(c['value']) & 255
                    if byte:
                        k = INT_BYTES[td[1][1]]
                        v = int.from_bytes(bytes([byte]) * k, 'little', signed=td[1][1].startswith('I'))
                        return '(EBuiltin BMemsetI [%s; (EConst %s); %s])' % (self.rv(args[0]), Z(v), cnt)
                b = {'memcpy': 'BMemcpy', 'memmove': 'BMemmove', 'memset': 'BMemset'}[name]
                return '(EBuiltin %s [%s; %s; %s])' % (b, self.rv(args[0]), self.rv(args[1]), cnt)
            if name == 'malloc':
                raise Unsupported('malloc whose result is not cast to a typed pointer at once')
            return '(ECall %s %s)' % (self.tr.extern(name), al)
        if k == 'UnaryExprOrTypeTraitExpr':
            if n.get('name') != 'sizeof':
                raise Unsupported(n.get('name', 'trait'))
            if 'argType' in n:
                t = T.parse(n['argType'].get('desugaredQualType') or n['argType']['qualType'])
            else:
                t = T.parse(qt(n['inner'][0]))
            return '(EConst %d)' % T.bytes_(t)
        if k in ('DeclRefExpr', 'ArraySubscriptExpr', 'MemberExpr'):
            raise Unsupported('lvalue %s used as a value without conversion' % k)
        raise Unsupported('expression %s' % k)

    def struct_copy(self, lv, src):
        """*dst = *src for structs: all cells copied (memcpy of the struct's cells)"""
        while src.get('kind') in ('ParenExpr',) or (src.get('kind') == 'ImplicitCastExpr' and src.get('castKind') in ('LValueToRValue', 'NoOp')):
            src = src['inner'][0]
        sl = self.lvalue(src)
        if lv[0] != 'mem' or sl[0] != 'mem' or sl[2] != lv[2]:
            raise Unsupported('struct assignment between objects that are not both in memory')
        return '(EBuiltin BMemcpy [%s; %s; (EConst %d)])' % (lv[1], sl[1], self.tr.types.cells(lv[2]))

    def callee_name(self, n):
        while n.get('kind') in ('ParenExpr',):
            n = n['inner'][0]
        if n.get('kind') != 'CallExpr':
            return None
        c = n['inner'][0]
        while c['kind'] in ('ImplicitCastExpr', 'ParenExpr'):
            c = c['inner'][0]
        if c['kind'] == 'DeclRefExpr' and c['referencedDecl']['kind'] == 'FunctionDecl':
            return c['referencedDecl']['name']
        return None

    def call_args(self, n):
        while n.get('kind') in ('ParenExpr',):
            n = n['inner'][0]
        return n['inner'][1:]

    def cells_of_bytes(self, e, t):
        """the expression e counts bytes of objects of type t: the same count in cells"""
        T = self.tr.types
        c, b = T.cells(t), T.bytes_(t)
        if c == b:
            return e
        x = e if c == 1 else '(EBin OMul U64 %s (EConst %d))' % (e, c)
        return '(EBin ODiv U64 %s (EConst %d))' % (x, b)

    def assign(self, lv, e):
        kind, a, t = lv
        if kind == 'local':
            return '(ESetLocal %d %s)' % (a, e)
        if t[0] == 'int':
            return '(EStore (Some %s) %s %s)' % (t[1], a, e)
        if t[0] == 'ptr':
            return '(EStore None %s %s)' % (a, e)
        raise Unsupported('assignment to %r' % (t,))

    # ---- statements
    def seq(self, l):
        l = [x for x in l if x != 'SSkip']
        if not l:
            return 'SSkip'
        r = l[-1]
        for x in reversed(l[:-1]):
            r = '(SSeq %s %s)' % (x, r)
        return r

    def st(self, n):
        if not n or 'kind' not in n:
            return 'SSkip'
        k = n['kind']
        if k == 'CompoundStmt':
            return self.seq([self.st(c) for c in n.get('inner', [])])
        if k == 'NullStmt':
            return 'SSkip'
        if k == 'DeclStmt':
            out = []
            for d in n['inner']:
                if d['kind'] != 'VarDecl':
                    raise Unsupported('declaration %s' % d['kind'])
                t = self.tr.types.parse(qt(d))
                if d.get('storageClass') == 'static':
                    # a static local is a global with a mangled name
                    self.statics[d['id']] = self.tr.global_of(d, mangled='%s__%s' % (self.decl['name'], d['name']), node=d)
                    continue
                if t[0] in ('arr', 'struct') or d['id'] in self.addr_taken:
                    # lives in a fresh block of its own; the local slot holds the pointer to it
                    init_struct = None
                    if d.get('inner') and t[0] == 'struct':
                        init_struct = d['inner'][0]
                        if init_struct.get('kind') == 'InitListExpr':
                            raise Unsupported('initializer list of the local struct %s' % d.get('name'))
                    elif d.get('inner') and t[0] != 'int' and t[0] != 'ptr':
                        raise Unsupported('initializer of the local aggregate %s' % d.get('name'))
                    self.newlocal(d)
                    self.inmem[d['id']] = t
                    out.append('(SExpr (ESetLocal %d (EBuiltin BMalloc [(EConst %d)])))' % (self.local(d), self.tr.types.cells(t)))
                    if init_struct is not None:
                        out.append('(SExpr %s)' % self.struct_copy(('mem', '(ELocal %d)' % self.local(d), t), init_struct))
                        continue
                    if d.get('inner'):
                        out.append('(SExpr %s)' % self.assign(('mem', '(ELocal %d)' % self.local(d), t), self.rv(d['inner'][0])))
                    continue
                if t[0] not in ('int', 'ptr'):
                    raise Unsupported('local %s of type %r' % (d.get('name'), t))
                self.newlocal(d)
                if d.get('inner'):
                    out.append('(SExpr (ESetLocal %d %s))' % (self.local(d), self.rv(d['inner'][0])))
            return self.seq(out)
        if k == 'IfStmt':
            parts = n['inner']
            c, a = parts[0], parts[1]
            b = parts[2] if len(parts) > 2 else None
            return '(SIf %s %s %s)' % (self.rv(c), self.st(a), self.st(b))
        if k == 'WhileStmt':
            c, b = n['inner']
            return '(SWhile %s %s)' % (self.rv(c), self.st(b))
        if k == 'DoStmt':
            b, c = n['inner']
            return '(SDoWhile %s %s)' % (self.st(b), self.rv(c))
        if k == 'ForStmt':
            init, _cv, c, inc, b = n['inner']
            i = self.st(init) if init and 'kind' in init else 'SSkip'
            ce = '(Some %s)' % self.rv(c) if c and 'kind' in c else 'None'
            ie = '(Some %s)' % self.rv(inc) if inc and 'kind' in inc else 'None'
            return self.seq([i, '(SFor %s %s %s)' % (ce, ie, self.st(b))])
        if k == 'ReturnStmt':
            if n.get('inner'):
                return '(SReturn (Some %s))' % self.rv(n['inner'][0])
            return '(SReturn None)'
        if k == 'BreakStmt':
            return 'SBreak'
        if k == 'ContinueStmt':
            return 'SContinue'
        if k == 'SwitchStmt':
            return self.switch(n)
        if k in ('GotoStmt', 'LabelStmt', 'CaseStmt', 'DefaultStmt'):
            raise Unsupported('statement %s' % k)
        return '(SExpr %s)' % self.rv(n)

    def const_int(self, n):
        """value of an integer constant expression (case labels)"""
        k = n.get('kind')
        if 'value' in n and k in ('ConstantExpr', 'IntegerLiteral', 'CharacterLiteral'):
            return int(n['value'])
        if k in ('ParenExpr', 'ImplicitCastExpr', 'CStyleCastExpr', 'ConstantExpr'):
            return self.const_int(n['inner'][0])
        if k == 'UnaryOperator' and n['opcode'] in ('-', '~', '+'):
            v = self.const_int(n['inner'][0])
            return {'-': -v, '~': ~v, '+': v}[n['opcode']]
        if k == 'BinaryOperator' and n['opcode'] in ('+', '-', '*', '&', '|', '^', '<<', '>>'):
            a, b = self.const_int(n['inner'][0]), self.const_int(n['inner'][1])
            return {'+': a + b, '-': a - b, '*': a * b, '&': a & b, '|': a | b, '^': a ^ b, '<<': a << b, '>>': a >> b}[n['opcode']]
        raise Unsupported('case label that is not a simple constant (%s)' % k)

    def switch(self, n):
        parts = [c for c in n['inner'] if c]
        cond, body = parts[0], parts[-1]
        if body.get('kind') != 'CompoundStmt':
            raise Unsupported('switch whose body is not a block')
        segs = []       # [labels, [statements]]
        for c in body.get('inner', []):
            labs = []
            while c.get('kind') in ('CaseStmt', 'DefaultStmt'):
                if c['kind'] == 'CaseStmt':
                    if len(c['inner']) != 2:
                        raise Unsupported('case range')
                    labs.append('(Some %s)' % Z(self.const_int(c['inner'][0])))
                    c = c['inner'][1]
                else:
                    labs.append('None')
                    c = c['inner'][0]
            if labs:
                segs.append([labs, [c]])
            elif segs:
                segs[-1][1].append(c)
            elif c.get('kind') == 'DeclStmt':
                raise Unsupported('declaration before the first case of a switch')
        out = []
        for labs, sts in segs:
            out.append('([%s], %s)' % ('; '.join(labs), self.seq([self.st(x) for x in sts])))
        return '(SSwitch %s [%s])' % (self.rv(cond), '; '.join(out))

    def translate(self):
        body = None
        for c in self.decl.get('inner', []):
            if c['kind'] == 'ParmVarDecl':
                self.newlocal(c)
                self.nparams += 1
            elif c['kind'] == 'CompoundStmt':
                body = c
        pre = []
        for c in self.decl.get('inner', []):
            if c['kind'] == 'ParmVarDecl' and c['id'] in self.addr_taken:
                # a parameter whose address is taken: copied at entry into a fresh block of its own (like an
                # address-taken local); the parameter's slot keeps the value passed, a new slot holds the pointer
                t = self.tr.types.parse(qt(c))
                if t[0] not in ('int', 'ptr'):
                    raise Unsupported('address of the parameter %s of type %r' % (c.get('name'), t))
                i = self.locals[c['id']]
                j = len(self.locals)
                self.locals[('param', c['id'])] = i
                self.locals[c['id']] = j
                self.inmem[c['id']] = t
                pre.append('(SExpr (ESetLocal %d (EBuiltin BMalloc [(EConst %d)])))' % (j, self.tr.types.cells(t)))
                pre.append('(SExpr %s)' % self.assign(('mem', '(ELocal %d)' % j, t), '(ELocal %d)' % i))
        s = self.seq(pre + [self.st(body)])
        return self.nparams, len(self.locals), s


class Translator:
    def __init__(self):
        self.types = Types()
        self.index = {c: i for i, (_, _, c) in enumerate(FUNCS)}
        self.byfile = {(f, n): c for f, n, c in FUNCS}
        self.externs = []
        self.types.loader = self.load_struct
        self.types.typedefs = self.typedef_of
        self.tdcache = {}
        self.stubs = {}          # Coq name -> why the function could not be translated
        self.globals = []        # (name, coq block text)
        self.gindex = {}
        self.gowner = {}         # name of a file-level variable -> (file that defines it, is it static)
        self.gvars = {}          # file-level cache: name -> VarDecl node
        self.cur_file = None

    def resolve(self, cname):
        """Coq name of the translated function a call to `cname` in the current file reaches, or None"""
        if (self.cur_file, cname) in KEEP_EXTERN:
            return None
        if (self.cur_file, cname) in self.byfile:
            return self.byfile[(self.cur_file, cname)]
        cands = [(f, c) for (f, n), c in self.byfile.items() if n == cname]
        if len(cands) > 1:      # a static function of another file is not visible from this one (uc_len of regex.c)
            cands = [(f, c) for f, c in cands if not self.is_static_fn(f, cname)]
        return cands[0][1] if len(cands) == 1 else None

    def is_static_fn(self, f, cname):
        if not hasattr(self, 'staticfn'):
            self.staticfn = {}
        if (f, cname) not in self.staticfn:
            st = False
            for d in ast_docs(os.path.join(REPO, f), cname):
                if d.get('kind') == 'FunctionDecl' and d.get('name') == cname and any(c.get('kind') == 'CompoundStmt' for c in d.get('inner', [])):
                    st = d.get('storageClass') == 'static'
            self.staticfn[(f, cname)] = st
        return self.staticfn[(f, cname)]

    def extern(self, cname):
        """a function that is not translated: calling it is the error EShape (no such index in cprog)"""
        if cname not in self.externs:
            self.externs.append(cname)
        return 'X_' + cname

    def typedef_of(self, name):
        if name not in self.tdcache:
            self.tdcache[name] = None
            if self.cur_file:
                for d in ast_docs(os.path.join(REPO, self.cur_file), name):
                    if d.get('kind') == 'TypedefDecl' and d.get('name') == name:
                        t = d.get('type', {})
                        self.tdcache[name] = (t.get('desugaredQualType') or t.get('qualType') or '').replace('const ', '').strip()
                        if self.tdcache[name] == name and t.get('qualType', '').startswith('struct '):
                            # typedef struct { ... } name;  -- clang calls the anonymous record 'struct name'
                            self.tdcache[name] = t['qualType'].replace('const ', '').strip()
        return self.tdcache[name]

    def load_struct(self, name):
        for d in ast_docs(os.path.join(REPO, self.cur_file), name):
            if d.get('kind') == 'RecordDecl' and d.get('name') == name and d.get('completeDefinition'):
                self.types.structs[name] = [(c['name'], qt(c)) for c in d.get('inner', []) if c['kind'] == 'FieldDecl']
        if name not in self.types.structs:
            # typedef struct { ... } name;  -- the record has no name of its own: find it through the typedef's ownedTagDecl
            r = subprocess.run(['clang', '-fsyntax-only', '-w', '-D__NO_CTYPE', '-I', REPO, '-Xclang', '-ast-dump=json',
                                os.path.join(REPO, self.cur_file)], stdout=subprocess.PIPE, stderr=subprocess.PIPE, text=True)
            if r.returncode == 0:
                top = json.loads(r.stdout).get('inner', [])     # node ids are only meaningful inside one dump
                rid = None
                for d in top:
                    if d.get('kind') == 'TypedefDecl' and d.get('name') == name:
                        for c in d.get('inner', []):
                            rid = rid or c.get('ownedTagDecl', {}).get('id')
                for d in top:
                    if rid and d.get('kind') == 'RecordDecl' and d.get('id') == rid and d.get('completeDefinition'):
                        self.types.structs[name] = [(c['name'], qt(c)) for c in d.get('inner', []) if c['kind'] == 'FieldDecl']

    def literal(self, node):
        v = node['value']          # a C literal text with quotes
        m = re.match(r'^"(.*)"$', v, re.S)
        if not m:
            raise Unsupported('string literal %r' % v)
        raw = m.group(1)
        out, i = [], 0
        b = raw.encode('utf-8')
        esc = {'n': 10, 't': 9, 'r': 13, 'v': 11, 'f': 12, '\\': 92, '"': 34, "'": 39, 'a': 7, 'b': 8, '0': 0, '?': 63}
        while i < len(b):
            if b[i] == 92:
                e = chr(b[i + 1])
                if e == 'x':
                    j = i + 2
                    while j < len(b) and chr(b[j]) in '0123456789abcdefABCDEF':
                        j += 1
                    out.append(int(b[i + 2:j], 16) & 255)
                    i = j
                elif e in '01234567':
                    j = i + 1
                    while j < len(b) and j < i + 4 and chr(b[j]) in '01234567':
                        j += 1
                    out.append(int(b[i + 1:j], 8) & 255)
                    i = j
                elif e in esc:
                    out.append(esc[e])
                    i += 2
                else:
                    raise Unsupported('escape \\%s' % e)
            else:
                out.append(b[i])
                i += 1
        name = 'lit_' + ''.join('%02x' % c for c in out)[:40] + '_%d' % len(out)
        if name not in self.gindex:
            self.gindex[name] = len(self.globals)
            self.globals.append((name, 'cstr_block [%s]' % '; '.join(str(c) for c in out)))
        return 'G_' + name

    def global_of(self, rd, mangled=None, node=None):
        name = mangled or rd['name']
        if name in self.gindex:
            own = self.gowner.get(name)
            if mangled or own is None or not own[1] or own[0] == self.cur_file:
                return 'G_' + name
            # the block of that name is a file-level static of ANOTHER file (bufs of ex.c / bufs of reg.c): the object
            # meant here is a different one, named <file>__<name>
            name = '%s__%s' % (self.cur_file[:-2], rd['name'])
            if name in self.gindex:
                return 'G_' + name
        # find the definition (with its initializer if it has one) in the current file
        vd = node
        zero = None
        if vd is None:
            # the current file first, then (for an extern declaration) the file that defines it
            cands = [self.cur_file] + sorted(f for f in os.listdir(REPO) if f.endswith('.c') and f != self.cur_file and
                                             re.search(r'^[A-Za-z_][^\n;(]*\b%s\b[^\n;(]*[;=]' % re.escape(rd['name']),
                                                       open(os.path.join(REPO, f), errors='replace').read(), re.M))
            for cf in cands:
                for d in ast_docs(os.path.join(REPO, cf), rd['name']):
                    if d.get('kind') == 'VarDecl' and d.get('name') == rd['name'] and d.get('storageClass') != 'extern':
                        if cf != self.cur_file and d.get('storageClass') == 'static':
                            continue
                        if name not in self.gowner:
                            self.gowner[name] = (cf, d.get('storageClass') == 'static')
                        if d.get('inner') and any(c.get('kind') not in (None,) for c in d['inner']):
                            vd = d
                        elif zero is None:
                            zero = d
                if vd is not None or zero is not None:
                    break
        if vd is None or not vd.get('inner'):
            z = vd or zero
            if z is None:
                raise Unsupported('global %s is not defined in %s' % (name, self.cur_file))
            # a definition without initializer: zero-initialised
            t = self.types.parse(qt(z))
            self.gindex[name] = len(self.globals)
            self.globals.append((name, 'repeat (VInt 0) %d' % self.types.cells(t)))
            return 'G_' + name
        t = self.types.parse(qt(vd))
        cells = []        # ints, or Coq text of a value (pointer to a literal block)

        def flat(n, t):
            k = n['kind']
            if k == 'InitListExpr':
                subs = n.get('inner', [])
                if t[0] == 'arr':
                    for s in subs:
                        flat(s, t[1])
                    want = t[2]
                    if want is not None and len(subs) < want:
                        for _ in range((want - len(subs)) * self.types.cells(t[1])):
                            cells.append(0)
                elif t[0] == 'struct':
                    fs = self.types.struct(t[1])
                    for s, (_, ft) in zip(subs, fs):
                        flat(s, self.types.parse(ft))
                    for _, ft in fs[len(subs):]:
                        for _ in range(self.types.cells(self.types.parse(ft))):
                            cells.append(0)
                else:
                    flat(subs[0], t)
            elif k == 'StringLiteral':
                if t[0] == 'ptr':
                    cells.append('VPtr %s 0' % self.literal(n))
                else:
                    raise Unsupported('a char array initialised by a string in global %s' % name)
            elif k in ('ImplicitCastExpr', 'ParenExpr', 'CStyleCastExpr', 'ConstantExpr'):
                flat(n['inner'][0], t)
            elif k in ('IntegerLiteral', 'CharacterLiteral'):
                cells.append(int(n['value']))
            elif k == 'UnaryOperator' and n['opcode'] == '-':
                m = len(cells)
                flat(n['inner'][0], t)
                cells[m] = -cells[m]
            elif k == 'UnaryOperator' and n['opcode'] == '+':
                flat(n['inner'][0], t)
            elif k == 'ImplicitValueInitExpr':
                for _ in range(self.types.cells(t)):
                    cells.append(0)
            elif k == 'DeclRefExpr' and n.get('referencedDecl', {}).get('kind') == 'FunctionDecl' and t == ('ptr', ('fn',)):
                cells.append('VUndef')      # a function address has no CLite value (see the indirect call in CallExpr)
            else:
                raise Unsupported('initializer %s of global %s' % (k, name))
        flat(vd['inner'][0], t)
        self.gindex[name] = len(self.globals)
        if all(isinstance(c, int) for c in cells):
            self.globals.append((name, 'map VInt [%s]' % '; '.join(Z(c) for c in cells)))
        else:
            self.globals.append((name, '[%s]' % '; '.join(('VInt %s' % Z(c)) if isinstance(c, int) else c for c in cells)))
        return 'G_' + name

    def run(self):
        out = []
        by_file = {}
        for f, fn, coq in FUNCS:
            if coq not in LATE:
                by_file.setdefault(f, []).append((fn, coq))
        for rank in sorted(set(LATE.values())):
            for f, fn, coq in FUNCS:
                if LATE.get(coq) == rank:
                    by_file.setdefault(f + '\0late' + (str(rank) if rank else ''), []).append((fn, coq))
        bodies = {}
        for f, fns in by_file.items():
            f = f.split('\0')[0]
            self.cur_file = f
            for fn, coq in fns:
                decl = None
                for d in ast_docs(os.path.join(REPO, f), fn):
                    if d.get('kind') == 'FunctionDecl' and d.get('name') == fn and any(c.get('kind') == 'CompoundStmt' for c in d.get('inner', [])):
                        decl = d
                if decl is None:
                    # the function is gone: a stub, so that only the theorems about IT break (not every property that imports GenCFuncs)
                    self.stubs[coq] = 'function %s not found in %s' % (fn, f)
                    bodies[coq] = (0, 0, 'SSkip')
                    continue
                try:
                    bodies[coq] = Fn(self, decl).translate()
                except Unsupported as e:
                    self.stubs[coq] = '%s:%s uses a construct outside the translated subset: %s' % (f, fn, e)
                    bodies[coq] = (0, 0, 'SSkip')
        w = out.append
        w('(* GENERATED by tools/c2clite.py from %s -- do not edit.  One CLite term per C function. *)' % ', '.join(sorted(set(k.split('\0')[0] for k in by_file))))
        w('From Coq Require Import List ZArith.')
        w('From NV Require Import CLite.')
        w('Import ListNotations.')
        w('Local Open Scope Z_scope.')
        w('')
        for i, (_, _, coq) in enumerate(FUNCS):
            w('Definition F_%s : nat := %d%%nat.' % (coq, i))
        w('')
        for i, name in enumerate(self.externs):
            w('Definition X_%s : nat := %d%%nat.   (* not translated: a call is the error EShape *)' % (name, 5000 + i))
        w('')
        for i, (name, _) in enumerate(self.globals):
            w('Definition G_%s : nat := %d%%nat.' % (name, i))
        w('')
        for name, txt in self.globals:
            w('Definition gb_%s : block := %s.' % (name, txt))
        w('Definition cglobals : mem := [%s].' % '; '.join('gb_' + n for n, _ in self.globals))
        w('')
        for f, cn, fn in FUNCS:
            np, nl, s = bodies[fn]
            w('(* %s: %s%s *)' % (f, cn, '  -- NOT TRANSLATED (stub): ' + self.stubs[fn].replace('*)', '* )') if fn in self.stubs else ''))
            w('Definition cf_%s : cfunc := mkfn %d %d' % (fn, np, nl))
            w('  %s.' % s)
        w('')
        w('Definition cprog : list cfunc := [%s].' % '; '.join('cf_' + fn for _, _, fn in FUNCS))
        text = '\n'.join(out) + '\n'
        path = os.path.join(COQ, 'GenCFuncs.v')
        old = open(path).read() if os.path.exists(path) else None
        if old != text:
            with open(path, 'w') as f:
                f.write(text)
        print('c2clite.py: %d functions, %d global blocks -> %s%s' % (len(FUNCS), len(self.globals), path, '' if old != text else ' (unchanged)'))
        for c, why in self.stubs.items():
            print('c2clite.py: STUB %s: %s' % (c, why))


if __name__ == '__main__':
    Translator().run()
