#!/usr/bin/env python3
"""Regenerate the generated tail of DESIGN.md (everything after the marker line): the table of
seeded breaking changes (from seeded/*/meta.json), the list of repaired defects and known findings
(from KNOWN_FINDINGS.txt), and the per-property implementation notes (design.d/Cxx.md verbatim)."""
import os, json, glob, re
V = os.path.dirname(os.path.dirname(os.path.abspath(__file__)))
MARK = '<!-- GENERATED TAIL: tools/mkdesign.py rewrites everything below this line -->'


def main():
    p = os.path.join(V, 'DESIGN.md')
    s = open(p).read()
    head = s.split(MARK)[0].rstrip('\n') + '\n\n' + MARK + '\n\n'
    out = []
    # status per property
    import sys
    sys.path.insert(0, os.path.join(V, 'tools'))
    import vlib
    out.append('## 12. Status per property (generated from manifest.d/*.json and coq/Properties_Cxx.v)\n')
    out.append('For each property: the deciding technique, the theorems of `Properties_Cxx.v` (names ending in `_partial` '
               'carry the full statement in a comment and say what is missing; `_refuted` theorems exhibit a witness), '
               'and the claim as registered in MANIFEST.json.\n')
    for l in open(os.path.join(V, 'properties.jsonl')):
        if not l.strip():
            continue
        pr = json.loads(l)
        pid = pr['id']
        f = os.path.join(V, 'manifest.d', pid + '.json')
        out.append('### %s %s\n' % (pid, pr['title']))
        if not os.path.exists(f):
            out.append('not claimed.\n')
            continue
        m = json.load(open(f))
        try:
            thms = vlib.theorems_of('Properties_%s.v' % pid)
        except Exception:
            thms = []
        part = [t for t in thms if t.endswith('_partial')]
        ref = [t for t in thms if t.endswith('_refuted')]
        out.append('* technique: %s' % m.get('technique', ''))
        out.append('* theorems (%d; %d partial, %d refutation witnesses): %s' % (len(thms), len(part), len(ref), ', '.join('`%s`' % t for t in thms)))
        out.append('* Coq files: %s' % ', '.join('`%s`' % x for x in vlib.coq_deps('Properties_%s.v' % pid)))
        out.append('* claim: %s' % m.get('text', ''))
        out.append('* trusted / assumed: %s\n' % m.get('note', ''))
    # translation tie
    out.append('## 12a. Functions proved equal to the translated C text (generated from tools/c2clite.d/*.list and coq/Properties_Cxx.v)\n')
    out.append('`tools/c2clite.py` translates these functions of `/repo` into CLite terms (`coq/GenCFuncs.v`) on every run; the theorems named in the '
               'last column (statements in `coq/Properties_Cxx.v`, proofs in `coq/Tr*.v`) say that running the translated text returns what the '
               'hand-written model says, for all inputs, with every memory access checked.  A function without a theorem is translated '
               '(it can be called by the others) but not yet proved against a model.\n')
    out.append('| list | C file | function | theorems that mention it |')
    out.append('|---|---|---|---|')
    props = {}
    for f in sorted(glob.glob(os.path.join(V, 'coq', 'Properties_C*.v'))):
        props[os.path.basename(f)[11:14]] = open(f).read()
    ld = os.path.join(V, 'tools', 'c2clite.d')
    nfun = nproved = 0
    for lf in sorted(os.listdir(ld)):
        if not lf.endswith('.list'):
            continue
        for line in open(os.path.join(ld, lf)):
            w = line.split('#')[0].split()
            if len(w) < 2 or w[0].startswith('@'):
                continue
            coq = w[2] if len(w) > 2 else w[1]
            hits = []
            for pid, txt in sorted(props.items()):
                for m in re.finditer(r'(?:Theorem|Lemma|Corollary)\s+(\w+)\s*:(.*?)(?=\nProof\.)', txt, re.S):
                    if re.search(r'\bF_%s\b' % re.escape(coq), m.group(2)):
                        hits.append(m.group(1))
            nfun += 1
            nproved += 1 if hits else 0
            out.append('| %s | %s | %s | %s |' % (lf, w[0], w[1] + (' (as %s)' % coq if coq != w[1] else ''), ', '.join('`%s`' % h for h in hits[:8]) + (' …' if len(hits) > 8 else '')))
    out.append('')
    out.append('%d functions are translated on every run, %d of them have at least one theorem against a model.\n' % (nfun, nproved))
    # seeded changes
    out.append('## 13. Seeded breaking changes and which check catches them (generated)\n')
    out.append('Each change was written by a fresh sub-agent that saw only the property text and a scratch worktree, '
               'then confirmed by `tools/seedtest.py` in scratch copies of `/repo` HEAD: it applies, compiles, the 60 tests '
               'still pass, its own demonstration fails with it and passes without it.  `check` = outcome of the registered '
               'quick check run against the patched copy (`NEATVI_REPO`).  A `patch.diff` applies to the `/repo` commit named in its '
               '`meta.json` (`repo_head`: the HEAD it was confirmed against); later `fix:` commits moved the context of a few of them '
               '(C01d, C02e, C04b, C05d, C14d, C15f do not apply to the final HEAD unchanged; C03i was rebased, the original is kept as '
               '`patch-on-268c549.diff`).\n')
    out.append('| seed | property | needs to manifest (from its README) | tests pass | demo fails | check outcome | first report |')
    out.append('|---|---|---|---|---|---|---|')
    for d in sorted(glob.glob(os.path.join(V, 'seeded', '*'))):
        mp = os.path.join(d, 'meta.json')
        if not os.path.exists(mp):
            continue
        m = json.load(open(mp))
        need = ' '.join(m.get('needs_to_manifest', '').split())[:260].replace('|', '\\|')
        det = m.get('detected_by', {})
        outcome = []
        what = ''
        for pid, r in det.items():
            ls = r.get('lines', [])
            if any(l.startswith('VIOLATION') and 'no-failing-input-found' not in l for l in ls):
                outcome.append('%s: VIOLATION with failing input' % pid)
            elif any(l.startswith('VIOLATION') for l in ls):
                outcome.append('%s: VIOLATION no-failing-input-found' % pid)
            else:
                outcome.append('%s: MISSED (rc=%s)' % (pid, r.get('rc')))
            what = what or r.get('first_what', '')
        out.append('| %s | %s | %s | %s | %s | %s | %s |' % (
            m.get('seed_id'), m.get('breaks_property'), need, 'yes' if m.get('tests_pass_with_patch') else 'NO',
            'yes' if m.get('demo_on_patched_rc') else 'NO', '; '.join(outcome), what.replace('|', '\\|')[:160]))
    out.append('')
    # findings
    out.append('## 14. Defects of the unchanged tree: repaired (`fix:` commits) and recorded (generated from KNOWN_FINDINGS.txt)\n')
    fixed, finds = [], []
    for line in open(os.path.join(V, 'KNOWN_FINDINGS.txt')):
        line = line.strip()
        if line.startswith('fixed:'):
            fixed.append(line[6:].strip())
        elif line.startswith('finding:'):
            finds.append(line[8:].strip())
    out.append('Repaired (each is one minimal unguarded `fix:` commit in `/repo`; its input is in `corpus/` and must pass):\n')
    for f in fixed:
        out.append('* ' + f)
    out.append('\nRecorded as known findings (printed as `KNOWN-FINDING:` by the owning check; every other violation is still reported):\n')
    for f in finds:
        out.append('* ' + f)
    if not finds:
        out.append('* (none)')
    out.append('')
    # per-property notes
    out.append('## Appendix F. Per-property implementation notes (design.d/*.md, verbatim)\n')
    for f in sorted(glob.glob(os.path.join(V, 'design.d', 'C*.md'))):
        pid = os.path.basename(f)[:-3]
        body = open(f).read().strip()
        body = re.sub(r'^#', '###', body, flags=re.M) if body.startswith('#') else body
        out.append('### F.%s\n' % pid)
        out.append(body)
        out.append('')
    open(p, 'w').write(head + '\n'.join(out) + '\n')
    print('DESIGN.md: tail regenerated (%d seeded, %d fixed, %d findings)' % (len(glob.glob(os.path.join(V, 'seeded', '*', 'meta.json'))), len(fixed), len(finds)))


if __name__ == '__main__':
    main()
