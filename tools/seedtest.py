#!/usr/bin/env python3
"""seedtest.py <src-dir-with-patch.diff-demo.sh-README> <seed-id e.g. C16a> <property id> [more property ids…]

Confirms a seeded breaking change in scratch copies of /repo HEAD (never in /repo itself):
  1. the unmodified tree: demo passes;
  2. with the patch: it applies, compiles, the 60 tests still pass, the demo fails;
  3. runs the registered quick check(s) of the given properties against the patched copy
     (NEATVI_REPO=<copy>) and records whether they print VIOLATION.
Then stores everything as /verif/seeded/<seed-id>/ (patch.diff, demo.sh, README, meta.json).
"""
import sys, os, subprocess, shutil, json, tempfile, time

V = os.path.dirname(os.path.dirname(os.path.abspath(__file__)))


def sh(cmd, **kw):
    return subprocess.run(cmd, stdout=subprocess.PIPE, stderr=subprocess.STDOUT, text=True, errors='replace', **kw)


def main():
    src, sid, pids = sys.argv[1], sys.argv[2], sys.argv[3:]
    base = tempfile.mkdtemp(prefix='nvseed.', dir='/var/tmp')
    clean, mut = os.path.join(base, 'clean'), os.path.join(base, 'mut')
    meta = {'seed_id': sid, 'breaks_property': pids[0], 'checks_run': pids, 'repo_head': sh(['git', '-C', '/repo', 'rev-parse', '--short', 'HEAD']).stdout.strip()}
    try:
        for d in (clean, mut):
            os.makedirs(d)
            subprocess.run('git -C /repo archive HEAD | tar -x -C %s' % d, shell=True, check=True)
        r = sh(['git', 'apply', '--verbose', os.path.abspath(os.path.join(src, 'patch.diff'))], cwd=mut)
        if r.returncode != 0:
            r = sh(['patch', '-p1', '-i', os.path.abspath(os.path.join(src, 'patch.diff'))], cwd=mut)
        meta['patch_applies'] = r.returncode == 0
        if r.returncode != 0:
            print('patch does not apply:\n' + r.stdout)
            return 2
        for d in (clean, mut):
            r = sh(['make', '-s', '-j8', 'vi'], cwd=d)
            if r.returncode != 0:
                print('build failed in %s:\n%s' % (d, r.stdout[-2000:]))
                meta['compiles'] = False
                return 2
        meta['compiles'] = True
        demo = os.path.abspath(os.path.join(src, 'demo.sh'))
        r1 = sh(['sh', demo, clean], timeout=600)
        r2 = sh(['sh', demo, mut], timeout=600)
        meta['demo_on_clean_rc'] = r1.returncode
        meta['demo_on_patched_rc'] = r2.returncode
        meta['demo_on_patched_tail'] = r2.stdout[-600:]
        r = sh(['sh', os.path.join(V, 'tools', 'baseline.sh'), mut], timeout=900)
        meta['tests_with_patch'] = r.stdout.strip().split('\n')[-1]
        meta['tests_pass_with_patch'] = r.returncode == 0
        print('demo clean rc=%d, demo patched rc=%d, tests: %s' % (r1.returncode, r2.returncode, meta['tests_with_patch']))
        for f in ('vi',):
            pass
        sh(['make', '-s', 'clean'], cwd=mut)
        meta['detected_by'] = {}
        for pid in pids:
            t0 = time.time()
            env = dict(os.environ, NEATVI_REPO=mut, VERIF_SEED=os.environ.get('VERIF_SEED', '1'), VERIF_EVIDENCE_DIR=os.path.join(base, 'evidence'))
            r = sh([sys.executable, os.path.join(V, 'tools', 'check.py'), pid, '--tier', 'quick'], cwd=V, env=env, timeout=3000)
            lines = [l for l in r.stdout.split('\n') if l.startswith('VIOLATION') or l.startswith('KNOWN-FINDING')]
            what = ''
            for l in lines:
                if l.startswith('VIOLATION') and 'replay=' in l:
                    p = l.split('replay=')[1].split()[0]
                    try:
                        what = str(json.load(open(p)).get('what', ''))[:300]
                        os.makedirs(os.path.join(V, 'seeded', sid), exist_ok=True)
                        shutil.copy(p, os.path.join(V, 'seeded', sid, 'replay_found_by_%s.json' % pid))
                    except Exception:
                        pass
                    break
            meta['detected_by'][pid] = {'rc': r.returncode, 'lines': lines[:6], 'first_what': what, 'wall_s': round(time.time() - t0, 1)}
            print('check %s on patched copy: rc=%d %s | %s' % (pid, r.returncode, lines[:2], what))
        # restore evidence of the unchanged tree for these properties is the caller's business
        out = os.path.join(V, 'seeded', sid)
        os.makedirs(out, exist_ok=True)
        for f in ('patch.diff', 'demo.sh', 'README'):
            if os.path.exists(os.path.join(src, f)):
                shutil.copy(os.path.join(src, f), out)
        meta['needs_to_manifest'] = open(os.path.join(src, 'README')).read()[:1500] if os.path.exists(os.path.join(src, 'README')) else ''
        meta['what_was_run'] = 'tools/seedtest.py: git archive of /repo HEAD into two scratch copies; patch applied to one; make; demo.sh on both; tools/baseline.sh (60 tests) on the patched copy; NEATVI_REPO=<patched copy> python3 tools/check.py <id> --tier quick'
        json.dump(meta, open(os.path.join(out, 'meta.json'), 'w'), indent=1)
        return 0
    finally:
        shutil.rmtree(base, ignore_errors=True)


if __name__ == '__main__':
    sys.exit(main())
