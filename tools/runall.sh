#!/bin/sh
# run every registered quick check once, sequentially; print rc, wall time, verdict lines
cd "$(dirname "$0")/.." || exit 2
for p in $(python3 -c "import json;print(' '.join(c['property_id'] for c in json.load(open('MANIFEST.json'))['checks']))"); do
  [ -n "$1" ] && case " $* " in *" $p "*) ;; *) continue;; esac
  t0=$(date +%s)
  timeout 1800 python3 tools/check.py $p --tier ${VERIF_TIER:-quick} > /tmp/runall_$p.log 2>&1
  rc=$?
  t1=$(date +%s)
  echo "$p rc=$rc $((t1-t0))s $(grep -c '^VIOLATION' /tmp/runall_$p.log) violations; $(grep '^KNOWN-FINDING' /tmp/runall_$p.log | cut -c1-60 | tr '\n' ';')"
done
