#!/usr/bin/env python3
"""check.py <Cxx> [--tier quick|thorough] [--replay file]

One invocation = build /repo's working tree, regenerate the generated Coq files, re-check the
theorems of Properties_<Cxx>.v, run the correspondence between the extracted model and the
implementation, evaluate the property oracle on the implementation, print the verdict and write
evidence/<Cxx>.json.  See DESIGN.md section 1.
"""
import sys, os, argparse, importlib, traceback, time
sys.path.insert(0, os.path.dirname(os.path.abspath(__file__)))
import vlib

TRUSTED = [
    'Coq 8.16.1 kernel incl. vm_compute (no native_compute)',
    'axioms: none declared; Print Assumptions output of every theorem is recorded in coverage.print_assumptions',
    'extraction: ExtrOcamlBasic only (bool, option, unit, list, prod, sumbool, sumor, andb, orb); nat/positive/N/Z stay inductive; no Extract Constant of ours',
    'OCaml 4.13.1 ocamlopt and the line-protocol drivers under /verif/ocaml',
    'tools/translate.py (regenerates constants and tables from /repo on every run)',
    'the correspondence harness: C probes under /verif/harness compiled against /repo, Python generators and canonicalisers',
    'functions are hand-modelled, tied to the C code by the correspondence check only (DESIGN.md section 5)',
]


def main():
    ap = argparse.ArgumentParser()
    ap.add_argument('pid')
    ap.add_argument('--tier', default=os.environ.get('VERIF_TIER', 'quick'))
    ap.add_argument('--replay')
    a = ap.parse_args()
    pid = a.pid
    seed = int(os.environ.get('VERIF_SEED', '1') or 1)
    tier = a.tier if a.tier in ('quick', 'thorough') else 'quick'
    res = vlib.Result(pid, tier, seed)
    mod = importlib.import_module('props.' + pid.lower())
    vlib.ALLOWED_AXIOMS |= set(getattr(mod, 'ALLOWED_AXIOMS', []))
    checker_cmd = 'python3 tools/check.py %s --tier %s  (translate.py; make -C coq Properties_%s.vo; coqc Print Assumptions; model_%s vs probe)' % (
        pid, tier, pid, getattr(mod, 'GROUP', '?'))
    # 1. translate
    ok, log = vlib.translate()
    if not ok:
        res.broken_ties.append('translator: ' + log[-1500:])
    # 1b. the function translator, for the properties whose theorems speak about the translated C text
    if 'GenCFuncs.v' in vlib.coq_deps('Properties_%s.v' % pid):
        ok, log = vlib.translate_funcs()
        res.extra['c2clite'] = log.strip()[-300:]
        if not ok:
            res.broken_ties.append('function translator (c2clite.py): ' + log[-1500:])
    # 2. prove
    forb = vlib.scan_forbidden(pid)
    res.proof['forbidden'] = forb
    res.extra['coq_files_scanned'] = vlib.coq_deps('Properties_%s.v' % pid)
    ok, log = vlib.coq_make(['Properties_%s.vo' % pid])
    res.proof['ok'] = ok
    res.proof['log'] = log
    try:
        res.proof['theorems'] = vlib.theorems_of('Properties_%s.v' % pid)
    except Exception as e:
        res.broken_ties.append('cannot read Properties file: %s' % e)
    if ok:
        try:
            thms, assum, out = vlib.print_assumptions(pid)
            if assum is None:
                res.proof['ok'] = False
                res.proof['log'] += '\nPrint Assumptions failed:\n' + out[-2000:]
            else:
                res.proof['assumptions'] = assum
        except Exception as e:
            res.proof['ok'] = False
            res.proof['log'] += '\nPrint Assumptions failed: %s' % e
    # 3-5. build implementation, correspondence, oracle
    try:
        ctx = Ctx(res, tier, seed, a.replay)
        mod.run(ctx)
    except vlib.BuildError as e:
        # /repo does not compile: nothing can be said about behaviour; report as broken tie
        res.broken_ties.append('build: %s' % e)
    except Exception:
        res.broken_ties.append('harness exception: ' + traceback.format_exc()[-3000:])
    if tier == 'thorough' and res.proof['ok'] and os.environ.get('VERIF_COQCHK', '1') == '1':
        try:
            r = vlib.sh(['coqchk', '-silent', '-o', '-Q', vlib.COQ, 'NV', 'NV.Properties_%s' % pid], timeout=3000)
            res.extra['coqchk'] = {'rc': r.returncode, 'tail': r.stdout[-1500:]}
            if r.returncode != 0:
                res.proof['ok'] = False
                res.proof['log'] += '\ncoqchk failed:\n' + r.stdout[-2000:]
        except Exception as e:
            res.extra['coqchk'] = {'error': str(e)}
    rc = vlib.finish(res, checker_cmd, TRUSTED + getattr(mod, 'TRUSTED', []))
    sys.exit(rc)


class Ctx:
    def __init__(self, res, tier, seed, replay):
        self.res, self.tier, self.seed, self.replay = res, tier, seed, replay
        self.rng = vlib.Rng(seed)
        self.quick = tier == 'quick'

    def model(self, group):
        exe, log = vlib.ensure_model(group)
        if exe is None:
            self.res.broken_ties.append('extraction/build of model_%s failed: %s' % (group, log[-1500:]))
        return exe


if __name__ == '__main__':
    try:
        main()
    except SystemExit:
        raise
    except BaseException:
        # the machinery itself broke (import error, harness bug, interrupted build): the property is
        # no longer shown to hold by this run -- say so in the agreed form instead of dying silently
        pid = sys.argv[1] if len(sys.argv) > 1 else '?'
        tb = traceback.format_exc()
        try:
            p = vlib.write_replay(pid, 1, {'kind': 'the check itself failed to run to completion; no input found on which the implementation violates the property',
                                          'property': pid, 'harness_exception': tb[-4000:]})
        except Exception:
            p = '/dev/null'
        print('VIOLATION property=%s replay=%s no-failing-input-found' % (pid, p))
        sys.stderr.write(tb)
        sys.exit(1)
