#!/bin/sh
# Regenerate coq/_CoqProject (every *.v in coq/) and the coq_makefile Makefile when the file list changed.
cd "${1:-$(dirname "$0")/../coq}" || exit 2
{
  echo "-Q . NV"
  echo "-arg -w -arg -notation-overridden,-deprecated-hint-without-locality,-deprecated-instance-without-locality,-extraction-opaque-accessed,-extraction"
  ls *.v | LC_ALL=C sort
} > _CoqProject.new
if ! cmp -s _CoqProject.new _CoqProject || [ ! -f Makefile ]; then
  mv _CoqProject.new _CoqProject
  coq_makefile -f _CoqProject -o Makefile >/dev/null || exit 2
else
  rm -f _CoqProject.new
fi
