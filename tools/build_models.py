#!/usr/bin/env python3
"""Build every extracted-model driver (ocaml/drv_<group>.ml) into build/model_<group>."""
import os, sys, glob
sys.path.insert(0, os.path.dirname(os.path.abspath(__file__)))
import vlib
bad = 0
for drv in sorted(glob.glob(os.path.join(vlib.VERIF, 'ocaml', 'drv_*.ml'))):
    g = os.path.basename(drv)[4:-3]
    exe, log = vlib.ensure_model(g)
    print('model_%s: %s' % (g, 'ok' if exe else 'FAILED\n' + log[-2000:]))
    bad += exe is None
sys.exit(1 if bad else 0)
