#!/usr/bin/env python3
"""harmlesstest.py <dir-with-patch.diff-README> <id> [property ids…]

Runs the registered quick checks against a scratch copy of /repo HEAD with a BEHAVIOUR-PRESERVING
patch applied (NEATVI_REPO=<copy>).  Every check must stay silent (exit 0, no VIOLATION line);
an alarm here is a false alarm of the machinery.  Stores /verif/seeded/harmless-<id>/
(patch.diff, README, meta.json)."""
import sys, os, subprocess, shutil, json, tempfile, time
V = os.path.dirname(os.path.dirname(os.path.abspath(__file__)))


def sh(cmd, **kw):
    return subprocess.run(cmd, stdout=subprocess.PIPE, stderr=subprocess.STDOUT, text=True, **kw)


def main():
    src, hid = sys.argv[1], sys.argv[2]
    pids = sys.argv[3:] or [c['property_id'] for c in json.load(open(os.path.join(V, 'MANIFEST.json')))['checks']]
    base = tempfile.mkdtemp(prefix='nvharm.', dir='/var/tmp')
    mut = os.path.join(base, 'mut')
    out = os.path.join(V, 'seeded', 'harmless-' + hid)
    meta = {'id': 'harmless-' + hid, 'kind': 'behaviour-preserving change: every check must stay silent',
            'repo_head': sh(['git', '-C', '/repo', 'rev-parse', '--short', 'HEAD']).stdout.strip(), 'checks': {}}
    try:
        os.makedirs(mut)
        subprocess.run('git -C /repo archive HEAD | tar -x -C %s' % mut, shell=True, check=True)
        r = sh(['git', 'apply', os.path.abspath(os.path.join(src, 'patch.diff'))], cwd=mut)
        if r.returncode != 0:
            r = sh(['patch', '-p1', '-i', os.path.abspath(os.path.join(src, 'patch.diff'))], cwd=mut)
        if r.returncode != 0:
            print('patch does not apply: ' + r.stdout[-500:])
            return 2
        r = sh(['sh', os.path.join(V, 'tools', 'baseline.sh'), mut], timeout=900)
        meta['tests_pass_with_patch'] = r.returncode == 0
        alarms = 0
        for pid in pids:
            t0 = time.time()
            env = dict(os.environ, NEATVI_REPO=mut, VERIF_SEED=os.environ.get('VERIF_SEED', '1'), VERIF_EVIDENCE_DIR=os.path.join(base, 'evidence'))
            r = sh([sys.executable, os.path.join(V, 'tools', 'check.py'), pid, '--tier', 'quick'], cwd=V, env=env, timeout=3000)
            lines = [l for l in r.stdout.split('\n') if l.startswith('VIOLATION')]
            what = ''
            if lines and 'replay=' in lines[0]:
                p = lines[0].split('replay=')[1].split()[0]
                try:
                    d = json.load(open(p))
                    what = str(d.get('what') or d.get('kind') or '')[:300]
                    os.makedirs(out, exist_ok=True)
                    shutil.copy(p, os.path.join(out, 'false_alarm_%s.json' % pid))
                except Exception:
                    pass
            meta['checks'][pid] = {'rc': r.returncode, 'violation_lines': lines[:3], 'what': what, 'wall_s': round(time.time() - t0, 1)}
            if r.returncode != 0 or lines:
                alarms += 1
                print('%s: %s ALARM rc=%d %s | %s' % (hid, pid, r.returncode, lines[:1], what))
        meta['false_alarms'] = alarms
        os.makedirs(out, exist_ok=True)
        for f in ('patch.diff', 'README'):
            if os.path.exists(os.path.join(src, f)):
                shutil.copy(os.path.join(src, f), out)
        json.dump(meta, open(os.path.join(out, 'meta.json'), 'w'), indent=1)
        print('%s: %d checks run, %d alarms, tests %s' % (hid, len(pids), alarms, 'pass' if meta['tests_pass_with_patch'] else 'FAIL'))
        return 0
    finally:
        shutil.rmtree(base, ignore_errors=True)


if __name__ == '__main__':
    sys.exit(main())
