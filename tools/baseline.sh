#!/bin/sh
# Build a scratch copy of /repo's working tree WITHOUT -DNEATVI_VERIF and run its test suite.
# usage: baseline.sh [repo]    exit 0 iff all 60 tests print OK
REPO=${1:-/repo}
D=$(mktemp -d /var/tmp/nvbase.XXXXXX) || exit 2
trap 'rm -rf "$D"' EXIT
( cd "$REPO" && tar --exclude=.git --exclude='*.o' --exclude=./vi -cf - . ) | tar -xf - -C "$D"
cd "$D" || exit 2
make -s clean >/dev/null 2>&1
make -s -j16 vi >/dev/null 2>"$D/.build.err" || { cat "$D/.build.err"; echo "BUILD FAILED"; exit 2; }
# the suite uses fixed names under /tmp; serialise concurrent runs
exec 9>/var/tmp/nvbase.lock
flock 9
timeout -k 5 180 sh test.sh > "$D/.out" 2>&1
rc=$?
ok=$(grep -c ': OK$' "$D/.out")
echo "tests OK: $ok  rc=$rc"
[ $rc -eq 0 ] && [ "$ok" -eq 60 ] || { tail -20 "$D/.out"; exit 1; }
exit 0
