"""Shared machinery of the neatvi verification checks (see DESIGN.md sections 1, 4).

Everything a registered command needs lives under /verif; scratch builds of /repo go to a
fresh directory under /var/tmp that is removed on exit.
"""
import os, sys, json, time, subprocess, shutil, tempfile, re, hashlib, atexit, fcntl

VERIF = os.path.dirname(os.path.dirname(os.path.abspath(__file__)))
REPO = os.environ.get('NEATVI_REPO', '/repo')
COQ = os.path.join(VERIF, 'coq')
BUILD = os.path.join(VERIF, 'build')
EVID = os.environ.get('VERIF_EVIDENCE_DIR') or os.path.join(VERIF, 'evidence')   # seed tests redirect it
if os.path.realpath(REPO) != '/repo':
    # a run against a scratch copy of the repository (mutation / seed testing) regenerates the
    # generated Coq files from that copy: it works on a private copy of coq/ and build/ so that
    # concurrent checks of /repo itself are not disturbed
    _priv = tempfile.mkdtemp(prefix='nvpriv.', dir='/var/tmp' if os.path.isdir('/var/tmp') else None)
    atexit.register(lambda: shutil.rmtree(_priv, ignore_errors=True))
    shutil.copytree(COQ, os.path.join(_priv, 'coq'), symlinks=True)
    if os.path.isdir(BUILD):
        shutil.copytree(BUILD, os.path.join(_priv, 'build'), symlinks=True, ignore=shutil.ignore_patterns('.coq.lock'))
    COQ = os.path.join(_priv, 'coq')
    BUILD = os.path.join(_priv, 'build')
    if not os.environ.get('VERIF_EVIDENCE_DIR'):
        # evidence of a run against a scratch copy never overwrites the evidence of the real tree
        EVID = '/var/tmp/nvscratch-evidence'
GUARD = 'NEATVI_VERIF'
REPO_OBJS = ['vi', 'ex', 'lbuf', 'mot', 'sbuf', 'ren', 'dir', 'syn', 'reg', 'led', 'uc',
             'term', 'rset', 'rstr', 'regex', 'cmd', 'tag', 'conf']
ASAN_FLAGS = ['-fsanitize=address,undefined',
              '-fno-sanitize=nonnull-attribute,signed-integer-overflow,pointer-overflow',
              '-fno-sanitize-recover=undefined', '-fno-omit-frame-pointer']

# ---------------------------------------------------------------------------------------------
# one PRNG state per run (SplitMix64), so that every random choice replays from VERIF_SEED


class Rng:
    M = (1 << 64) - 1

    def __init__(self, seed):
        # hash the seed: consecutive seeds must give unrelated streams (seed*GAMMA would make seed k+1
        # the stream of seed k shifted by one draw)
        self.s = int(hashlib.sha256(b'nv-seed-%d' % seed).hexdigest()[:16], 16)

    def next(self):
        self.s = (self.s + 0x9E3779B97F4A7C15) & self.M
        z = self.s
        z = ((z ^ (z >> 30)) * 0xBF58476D1CE4E5B9) & self.M
        z = ((z ^ (z >> 27)) * 0x94D049BB133111EB) & self.M
        return z ^ (z >> 31)

    def below(self, n):
        return self.next() % n if n > 0 else 0

    def range(self, a, b):          # inclusive
        return a + self.below(b - a + 1)

    def choice(self, xs):
        return xs[self.below(len(xs))]

    def chance(self, num, den):
        return self.below(den) < num

    def fork(self, tag):
        h = int(hashlib.sha256(('%d/%s' % (self.s, tag)).encode()).hexdigest()[:16], 16)
        return Rng(h)

    def shuffle(self, xs):
        for i in range(len(xs) - 1, 0, -1):
            j = self.below(i + 1)
            xs[i], xs[j] = xs[j], xs[i]


# ---------------------------------------------------------------------------------------------
# scratch directory

_tmp = None


def tmpdir():
    global _tmp
    if _tmp is None:
        base = '/var/tmp' if os.path.isdir('/var/tmp') else tempfile.gettempdir()
        _tmp = tempfile.mkdtemp(prefix='nvchk.', dir=base)
        atexit.register(lambda: shutil.rmtree(_tmp, ignore_errors=True))
    return _tmp


def sh(cmd, **kw):
    kw.setdefault('stdout', subprocess.PIPE)
    kw.setdefault('stderr', subprocess.STDOUT)
    kw.setdefault('text', True)
    return subprocess.run(cmd, **kw)


# ---------------------------------------------------------------------------------------------
# building the implementation from /repo's working tree


class BuildError(Exception):
    pass


def _cc(asan):
    return 'clang' if asan else 'cc'


def _flags(asan):
    f = ['-O1', '-g', '-w', '-D' + GUARD]
    if asan:
        f += ASAN_FLAGS
    return f


def build_repo_objs(asan=False, skip=()):
    """Compile /repo/*.c (working tree) into <tmp>/obj[-asan]; returns dir.  vi.c is compiled
    with -Dmain=neatvi_main in a second object (vi_nomain.o) for probes."""
    out = os.path.join(tmpdir(), 'obj-asan' if asan else 'obj')
    if os.path.isdir(out):
        return out
    os.makedirs(out)
    procs = []
    for o in REPO_OBJS:
        src = os.path.join(REPO, o + '.c')
        procs.append((o, subprocess.Popen([_cc(asan)] + _flags(asan) + ['-c', src, '-o', os.path.join(out, o + '.o')],
                                          stdout=subprocess.PIPE, stderr=subprocess.STDOUT, text=True)))
    procs.append(('vi_nomain', subprocess.Popen([_cc(asan)] + _flags(asan) + ['-Dmain=neatvi_main', '-c', os.path.join(REPO, 'vi.c'),
                                                                             '-o', os.path.join(out, 'vi_nomain.o')],
                                                stdout=subprocess.PIPE, stderr=subprocess.STDOUT, text=True)))
    errs = []
    for o, p in procs:
        outp, _ = p.communicate()
        if p.returncode != 0:
            errs.append('%s.c: %s' % (o, outp[-2000:]))
    if errs:
        raise BuildError('compiling /repo failed:\n' + '\n'.join(errs))
    return out


def build_vi(asan=False):
    out = build_repo_objs(asan)
    exe = os.path.join(out, 'vi')
    if not os.path.exists(exe):
        r = sh([_cc(asan)] + _flags(asan) + ['-o', exe] + [os.path.join(out, o + '.o') for o in REPO_OBJS])
        if r.returncode != 0:
            raise BuildError('linking vi failed:\n' + r.stdout[-2000:])
    return exe


def build_probe(name, includes=(), asan=False, extra=()):
    """Build harness/probe_<name>.c against /repo's current sources.  `includes` lists the repo
    modules the probe #includes textually (to reach statics); their objects are left out of the
    link.  vi.o is replaced by vi_nomain.o."""
    out = build_repo_objs(asan)
    exe = os.path.join(out, 'probe_' + name)
    if os.path.exists(exe):
        return exe
    objs = [os.path.join(out, (o if o != 'vi' else 'vi_nomain') + '.o') for o in REPO_OBJS if o not in includes]
    src = os.path.join(VERIF, 'harness', 'probe_%s.c' % name)
    r = sh([_cc(asan)] + _flags(asan) + ['-I', REPO, '-I', os.path.join(VERIF, 'harness'), '-o', exe, src] + objs + list(extra))
    if r.returncode != 0:
        raise BuildError('building probe_%s failed:\n%s' % (name, r.stdout[-3000:]))
    return exe


# ---------------------------------------------------------------------------------------------
# Coq side


def translate_funcs():
    """tools/c2clite.py: the whitelisted C functions of REPO as CLite terms (coq/GenCFuncs.v)."""
    r = sh([sys.executable, os.path.join(VERIF, 'tools', 'c2clite.py'), REPO, COQ])
    return r.returncode == 0, r.stdout


def coq_lock():
    os.makedirs(BUILD, exist_ok=True)
    f = open(os.path.join(BUILD, '.coq.lock'), 'w')
    fcntl.flock(f, fcntl.LOCK_EX)
    return f


def translate():
    r = sh([sys.executable, os.path.join(VERIF, 'tools', 'translate.py'), REPO, COQ])
    return r.returncode == 0, r.stdout


def coq_make(targets, timeout=2400):
    """Full .vo build of the given targets (and what they depend on) under the lock."""
    lock = coq_lock()
    try:
        r = sh(['sh', os.path.join(VERIF, 'tools', 'mkcoqproject.sh'), COQ])
        if r.returncode != 0:
            return False, 'mkcoqproject failed: ' + r.stdout
        try:
            r = sh(['make', '-k', '-j16'] + list(targets), cwd=COQ, timeout=timeout)
        except subprocess.TimeoutExpired as e:
            return False, 'coq build timed out after %ds' % timeout
        return r.returncode == 0, r.stdout
    finally:
        lock.close()


FORBIDDEN = re.compile(r'\b(Admitted|admit|Axiom|Axioms|Parameter|Parameters|Conjecture|Conjectures|Hypothesis|Hypotheses|Variable|Variables)\b'
                       r'|Unset\s+Guard|bypass_check|type-in-type|impredicative-set|Admit\s+Obligations')


def strip_comments(src):
    out = []
    depth = 0
    i = 0
    n = len(src)
    while i < n:
        if src.startswith('(*', i):
            depth += 1
            i += 2
        elif src.startswith('*)', i) and depth > 0:
            depth -= 1
            i += 2
        else:
            if depth == 0:
                out.append(src[i])
            i += 1
    return ''.join(out)


def coq_deps(root):
    """Transitive closure of the NV files a .v file imports (From NV Require Import/Export ...)."""
    seen, todo = [], [root]
    while todo:
        fn = todo.pop()
        if fn in seen or not os.path.exists(os.path.join(COQ, fn)):
            continue
        seen.append(fn)
        src = strip_comments(open(os.path.join(COQ, fn)).read())
        for m in re.finditer(r'From\s+NV\s+Require\s+(?:Import|Export)?\s*([^.]*)\.', src):
            for name in m.group(1).split():
                todo.append(name + '.v')
        for m in re.finditer(r'Require\s+(?:Import|Export)?\s+((?:NV\.[A-Za-z0-9_]+\s*)+)\.', src):
            for name in m.group(1).split():
                todo.append(name[3:] + '.v')
    return seen


def scan_forbidden(pid=None):
    """No Admitted/admit/Axiom/Parameter/...; Variable/Hypothesis only inside a Section.  Scans the
    files Properties_<pid>.v depends on (all of coq/ when pid is None)."""
    bad = []
    files = sorted(os.listdir(COQ)) if pid is None else sorted(coq_deps('Properties_%s.v' % pid))
    for fn in files:
        if not fn.endswith('.v'):
            continue
        src = strip_comments(open(os.path.join(COQ, fn)).read())
        # strip string literals
        src = re.sub(r'"[^"]*"', '""', src)
        depth = 0
        for ln, line in enumerate(src.split('\n'), 1):
            if re.match(r'\s*Section\b', line):
                depth += 1
            if re.match(r'\s*End\b', line) and depth > 0:
                depth -= 1
            for m in FORBIDDEN.finditer(line):
                w = m.group(0)
                if w.split()[0] in ('Variable', 'Variables', 'Hypothesis', 'Hypotheses') and depth > 0:
                    continue
                bad.append('%s:%d: %s' % (fn, ln, w))
    return bad


def theorems_of(propfile):
    src = strip_comments(open(os.path.join(COQ, propfile)).read())
    return re.findall(r'^\s*(?:Theorem|Corollary)\s+([A-Za-z0-9_\']+)', src, re.M)


ALLOWED_AXIOMS = set()      # the development is meant to be closed; see DESIGN.md section 5


def print_assumptions(pid):
    """Re-load the compiled Properties_<pid> and ask the kernel for the axioms of every theorem."""
    mod = 'Properties_%s' % pid
    thms = theorems_of(mod + '.v')
    d = os.path.join(tmpdir(), 'assum_' + pid)
    os.makedirs(d, exist_ok=True)
    fn = os.path.join(d, 'Assum.v')
    with open(fn, 'w') as f:
        f.write('From NV Require Import %s.\n' % mod)
        for t in thms:
            f.write('Goal True. idtac "@@THM %s". exact I. Qed.\nPrint Assumptions %s.\n' % (t, t))
    r = sh(['coqc', '-Q', COQ, 'NV', fn], cwd=d, timeout=600)
    res = {}
    if r.returncode != 0:
        return thms, None, r.stdout
    cur = None
    for line in r.stdout.split('\n'):
        if line.startswith('@@THM '):
            cur = line[6:].strip()
            res[cur] = []
        elif cur is not None and line.strip():
            res[cur].append(line.rstrip())
    return thms, res, r.stdout


def ensure_model(group):
    """Extraction happens when Extract_<group>.v is compiled (it writes <group>_model.ml into
    coq/); the OCaml driver (ocaml/conv.ml.in + ocaml/drv_<group>.ml behind `open <Group>_model`)
    is rebuilt when the extracted code or the driver is newer than the executable."""
    ok, log = coq_make(['Extract_%s.vo' % group])
    if not ok:
        return None, log
    ml = os.path.join(COQ, '%s_model.ml' % group)
    exe = os.path.join(BUILD, 'model_' + group)
    drv = os.path.join(VERIF, 'ocaml', 'drv_%s.ml' % group)
    conv = os.path.join(VERIF, 'ocaml', 'conv.ml.in')
    newest = max(os.path.getmtime(ml), os.path.getmtime(drv), os.path.getmtime(conv))
    if not os.path.exists(exe) or os.path.getmtime(exe) < newest:
        lock = coq_lock()
        try:
            bd = os.path.join(BUILD, 'ml_' + group)
            shutil.rmtree(bd, ignore_errors=True)
            os.makedirs(bd)
            for f in (ml, ml + 'i'):
                shutil.copy(f, bd)
            with open(os.path.join(bd, 'main.ml'), 'w') as f:
                f.write('open %s_model\n' % group.capitalize())
                f.write(open(conv).read())
                f.write('\n# 1 "drv_%s.ml"\n' % group)
                f.write(open(drv).read())
            r = sh(['ocamlfind', 'ocamlopt', '-O3', '-w', '-a', '-o', exe + '.tmp',
                    '%s_model.mli' % group, '%s_model.ml' % group, 'main.ml'], cwd=bd)
            if r.returncode != 0:
                return None, r.stdout
            os.replace(exe + '.tmp', exe)
        finally:
            lock.close()
    return exe, log


# ---------------------------------------------------------------------------------------------
# line-protocol helpers (probe and model speak the same protocol: one request per line, one
# answer per line; byte strings are hex)


def hx(b):
    return b.hex() if b else '-'


def unhx(s):
    return b'' if s == '-' else bytes.fromhex(s)


def run_lines(exe, lines, timeout=600, env=None):
    inp = '\n'.join(lines) + '\n'
    r = subprocess.run([exe], input=inp, stdout=subprocess.PIPE, stderr=subprocess.PIPE, text=True, timeout=timeout, env=env)
    return r.returncode, r.stdout.split('\n')[:-1] if r.stdout.endswith('\n') else r.stdout.split('\n'), r.stderr


# ---------------------------------------------------------------------------------------------
# running the real editor (built from /repo's working tree by build_vi)

from concurrent.futures import ThreadPoolExecutor


def pmap(f, xs, workers=16):
    """Parallel map preserving order (threads; the work is in child processes)."""
    with ThreadPoolExecutor(max_workers=workers) as ex:
        return list(ex.map(f, xs))


_case_n = [0]
_case_lock = __import__('threading').Lock()


def case_dir():
    with _case_lock:
        _case_n[0] += 1
        n = _case_n[0]
    d = os.path.join(tmpdir(), 'case%d' % n)
    os.makedirs(d)
    return d


class RunOut:
    """Outcome of one run of the editor: rc (None = timed out), stdout bytes, stderr bytes,
    files = {name: bytes or None} read back after the run, wall seconds."""
    def __init__(self, rc, out, err, files, wall, timed_out):
        self.rc, self.out, self.err, self.files, self.wall, self.timed_out = rc, out, err, files, wall, timed_out

    def crashed(self):
        return self.timed_out or self.rc is None or self.rc < 0 or self.rc >= 100 or b'ERROR: AddressSanitizer' in self.err or b'runtime error:' in self.err


def _die_with_parent():
    """preexec_fn: the child gets SIGKILL when the harness process dies (an ex session whose input ends without a quit
    command spins in ex() for ever: without this a killed check run leaves such editors behind, each on a core)."""
    try:
        import ctypes
        ctypes.CDLL(None).prctl(1, 9)       # PR_SET_PDEATHSIG, SIGKILL
    except Exception:
        pass


def run_editor(exe, args, stdin_bytes, files=None, readback=(), timeout=10, env=None, keep=False):
    """Run the editor in a fresh directory.  files: {name: bytes} created first; args: argv after
    the executable (file names relative to the directory); readback: names to read afterwards.
    The process gets its own session (term_suspend's kill(0, SIGSTOP) cannot stop the harness)."""
    d = case_dir()
    for name, data in (files or {}).items():
        if '/' in name:
            os.makedirs(os.path.dirname(os.path.join(d, name)), exist_ok=True)      # a file below a sub-directory of the case directory
        with open(os.path.join(d, name), 'wb') as f:
            f.write(data)
    e = {'PATH': '/usr/bin:/bin', 'HOME': d, 'EXINIT': '', 'TERM': 'xterm', 'LINES': '24', 'COLUMNS': '80',
         'ASAN_OPTIONS': 'detect_leaks=0:abort_on_error=0:exitcode=101', 'UBSAN_OPTIONS': 'halt_on_error=1:exitcode=102:print_stacktrace=1'}
    if env:
        e.update(env)
    t0 = time.time()
    timed_out = False
    p = subprocess.Popen([exe] + list(args), stdin=subprocess.PIPE, stdout=subprocess.PIPE, stderr=subprocess.PIPE,
                         cwd=d, env=e, start_new_session=True, preexec_fn=_die_with_parent)
    try:
        out, err = p.communicate(stdin_bytes, timeout=timeout)
        rc = p.returncode
    except subprocess.TimeoutExpired:
        try:
            os.killpg(p.pid, 9)
        except Exception:
            p.kill()
        out, err = p.communicate()
        rc = None
        timed_out = True
    got = {}
    for name in readback:
        fp = os.path.join(d, name)
        got[name] = open(fp, 'rb').read() if os.path.exists(fp) else None
    if not keep:
        shutil.rmtree(d, ignore_errors=True)
    return RunOut(rc, out, err, got, time.time() - t0, timed_out)


def run_ex(exe, script, files=None, args=None, readback=(), timeout=10, env=None):
    """vi -s -e <args> < script   (script: bytes; should end in a quit command)."""
    return run_editor(exe, ['-s', '-e'] + list(args or []), script, files, readback, timeout, env)


def run_vi(exe, keys, files=None, args=None, readback=(), rows=24, cols=80, timeout=10, env=None):
    """vi -v <args> with the key bytes on stdin; stdout is the terminal byte stream."""
    e = {'LINES': str(rows), 'COLUMNS': str(cols)}
    if env:
        e.update(env)
    return run_editor(exe, ['-v'] + list(args or []), keys, files, readback, timeout, e)


def shrink(items, fails, max_steps=400):
    """Delta debugging on a list: returns a (locally) minimal sublist on which fails(sub) is
    still true.  fails must be deterministic."""
    items = list(items)
    n = 2
    steps = 0
    while len(items) >= 2 and steps < max_steps:
        chunk = max(1, len(items) // n)
        reduced = False
        for i in range(0, len(items), chunk):
            cand = items[:i] + items[i + chunk:]
            steps += 1
            if cand and fails(cand):
                items = cand
                n = max(n - 1, 2)
                reduced = True
                break
        if not reduced:
            if chunk == 1:
                break
            n = min(n * 2, len(items))
    return items


# ---------------------------------------------------------------------------------------------
# known findings


def known_findings(pid):
    out = []
    p = os.path.join(VERIF, 'KNOWN_FINDINGS.txt')
    if not os.path.exists(p):
        return out
    for line in open(p):
        line = line.strip()
        if not line.startswith('finding:'):
            continue
        m = re.match(r'finding:\s+property=(\S+)\s+id=(\S+)\s+(.*)$', line)
        if m and pid in m.group(1).split(','):
            out.append({'id': m.group(2), 'text': m.group(3)})
    return out


# ---------------------------------------------------------------------------------------------
# result object, verdict and evidence


class Result:
    def __init__(self, pid, tier, seed):
        self.pid, self.tier, self.seed = pid, tier, seed
        self.t0 = time.time()
        self.evaluations = 0
        self.nontrivial = set()
        self.rule = ''
        self.samples = []
        self.violations = []          # spec violated by the implementation: dict(what, input, expected, observed, replay)
        self.disagreements = []       # model vs implementation (correspondence): dict(...)
        self.known = {}               # KF id -> description of what fails (printed once each)
        self.proof = {'ok': None, 'log': '', 'theorems': [], 'assumptions': {}, 'forbidden': []}
        self.broken_ties = []         # translator failures, build failures of the proof
        self.extra = {}
        self.assumptions = []
        self.level = 'proof'
        self.distribution = {}
        self._listed = None

    def count(self, key, n=1):
        self.distribution[key] = self.distribution.get(key, 0) + n

    def sample(self, x, limit=6):
        if len(self.samples) < limit:
            self.samples.append(x)

    def violation(self, v, kf=None):
        """Record that the implementation violates the property on v['input'].  kf names the
        known finding whose call-site classifier recognised this root cause (the caller decides
        that); it only suppresses the alarm if KNOWN_FINDINGS.txt lists it for this property."""
        if kf is not None:
            if self._listed is None:
                self._listed = {k['id']: k['text'] for k in known_findings(self.pid)}
            if kf in self._listed:
                if kf not in self.known:
                    self.known[kf] = v.get('what', '')
                self.count('known finding ' + kf)
                return False
        if len(self.violations) < 20:
            self.violations.append(v)
        return True

    def disagree(self, d):
        if len(self.disagreements) < 20:
            self.disagreements.append(d)

    def nontriv(self, key):
        self.nontrivial.add(key if isinstance(key, (str, bytes, int, tuple)) else json.dumps(key, sort_keys=True))


def write_replay(pid, n, obj):
    d = os.path.join(EVID, 'replay')
    os.makedirs(d, exist_ok=True)
    p = os.path.join(d, '%s-%d.json' % (pid, n))
    with open(p, 'w') as f:
        json.dump(obj, f, indent=1, default=lambda o: o.hex() if isinstance(o, (bytes, bytearray)) else str(o))
    return p


def finish(res, checker_cmd, trusted_base):
    """Print KNOWN-FINDING / VIOLATION lines, write the evidence file, return the exit code."""
    pid = res.pid
    lines = []
    rc = 0
    for kid, what in sorted(res.known.items()):
        lines.append('KNOWN-FINDING: property=%s %s %s' % (pid, kid, what))
    n = 0
    proof_broken = (res.proof['ok'] is False) or bool(res.broken_ties) or bool(res.proof['forbidden'])
    bad_axioms = []
    for t, ax in (res.proof.get('assumptions') or {}).items():
        if ax and not (len(ax) == 1 and 'Closed under the global context' in ax[0]):
            names = [a.split(':')[0].strip() for a in ax if ':' in a and not a.startswith(' ')]
            extra = [a for a in names if a not in ALLOWED_AXIOMS]
            if extra:
                bad_axioms.append((t, extra))
    if bad_axioms:
        proof_broken = True
    for v in res.violations[:5]:
        n += 1
        p = write_replay(pid, n, dict(v, kind='implementation violates the property', property=pid, seed=res.seed, tier=res.tier))
        lines.append('VIOLATION property=%s replay=%s' % (pid, p))
        rc = 1
    if not res.violations and (proof_broken or res.disagreements):
        n += 1
        obj = {'kind': 'proof obligation or correspondence no longer checks; no input found on which the implementation violates the property',
               'property': pid, 'seed': res.seed, 'tier': res.tier,
               'broken_proof': None if not proof_broken else {
                   'theorems': res.proof['theorems'], 'log_tail': res.proof['log'][-3000:],
                   'forbidden_tokens': res.proof['forbidden'], 'unexpected_axioms': bad_axioms,
                   'broken_ties': res.broken_ties},
               'correspondence_disagreements': res.disagreements[:5]}
        p = write_replay(pid, n, obj)
        lines.append('VIOLATION property=%s replay=%s no-failing-input-found' % (pid, p))
        rc = 1
    nthm = len(res.proof['theorems'])
    discharged = nthm if (res.proof['ok'] and not bad_axioms and not res.proof['forbidden']) else 0
    cov = {
        'obligations': max(nthm, 1), 'discharged': discharged,
        'checker_cmd': checker_cmd, 'trusted_base': trusted_base,
        'theorems': res.proof['theorems'],
        'print_assumptions': {t: (a if a else ['<not printed>']) for t, a in (res.proof.get('assumptions') or {}).items()},
        'evaluations': res.evaluations, 'distinct_nontrivial': len(res.nontrivial),
        'rule': res.rule, 'samples': res.samples if res.samples else ['<none>'],
        'input_distribution': res.distribution,
        'correspondence_disagreements': len(res.disagreements),
        'known_findings_reproduced': sorted(res.known.keys()),
    }
    cov.update(res.extra)
    ev = {'property_id': pid, 'tier': res.tier, 'seed': res.seed, 'level': res.level,
          'coverage': cov, 'assumptions': res.assumptions, 'wall_s': round(time.time() - res.t0, 2),
          'violations': len(res.violations) + (1 if (rc and not res.violations) else 0)}
    os.makedirs(EVID, exist_ok=True)
    with open(os.path.join(EVID, pid + '.json'), 'w') as f:
        json.dump(ev, f, indent=1, default=lambda o: o.hex() if isinstance(o, (bytes, bytearray)) else str(o))
    for l in lines:
        print(l)
    sys.stdout.flush()
    return rc
