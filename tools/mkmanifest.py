#!/usr/bin/env python3
"""Assemble /verif/MANIFEST.json from manifest.d/Cxx.json fragments (one per claimed property)
and manifest.d/not_applicable.json (reasons for properties not claimed).  Properties with
neither a fragment nor a reason are listed as not claimed yet."""
import json, os, sys
V = os.path.dirname(os.path.dirname(os.path.abspath(__file__)))
props = [json.loads(l)['id'] for l in open(os.path.join(V, 'properties.jsonl')) if l.strip()]
na = {}
p = os.path.join(V, 'manifest.d', 'not_applicable.json')
if os.path.exists(p):
    na = json.load(open(p))
checks, nal, engines = [], [], {}
for pid in props:
    f = os.path.join(V, 'manifest.d', pid + '.json')
    if os.path.exists(f):
        d = json.load(open(f))
        c = {
            'property_id': pid,
            'quick_cmd': 'python3 tools/check.py %s --tier quick' % pid,
            'thorough_cmd': 'python3 tools/check.py %s --tier thorough' % pid,
            'evidence_file': 'evidence/%s.json' % pid,
            'replay_cmd_template': 'python3 tools/check.py %s --replay {path}' % pid,
            'engine': d.get('engine', 'coq+' + d.get('group', '?')),
            'level_claimed': {'category': d.get('category', 'proof'), 'text': d['text'], 'design_ref': d.get('design_ref', 'DESIGN.md section 6, ' + pid)},
            'level_note': d['note'],
            'technique': d['technique'],
        }
        checks.append(c)
        g = d.get('group', '?')
        engines.setdefault(g, []).append(pid)
    else:
        nal.append({'property_id': pid, 'reason': na.get(pid, 'not claimed yet: the check for this property has not been built in this round (see DESIGN.md section 11)')})
m = {
    'version': 1,
    'setup_cmd': 'make -C /verif setup',
    'hooks': {
        'guard': 'NEATVI_VERIF',
        'enable': 'checks compile /repo/*.c themselves with -DNEATVI_VERIF into a scratch directory (tools/vlib.py build_repo_objs); the repository Makefile is not used',
        'baseline_off_cmd': 'sh /verif/tools/baseline.sh /repo',
        'source_commits': ['87b7724'],
        'add_only': True,
    },
    'engines': [{'name': 'coq+' + g, 'path': 'coq/ (models, theorems), ocaml/drv_%s.ml (extracted model driver), harness/ (C probes against /repo), tools/props/' % g,
                 'serves_properties': ps, 'kind_free_text': 'Coq 8.16.1 theorems about a Gallina model; model tied to /repo by generated tables (tools/translate.py) and by a correspondence run of the extracted model against the code'} for g, ps in sorted(engines.items())],
    'checks': checks,
    'notes': 'Every check: translate tables from /repo -> re-check Properties_<id>.v (full .vo build, Print Assumptions) -> extracted model vs implementation -> property oracle on the implementation. See DESIGN.md.',
    'not_applicable': nal,
}
json.dump(m, open(os.path.join(V, 'MANIFEST.json'), 'w'), indent=1)
print('MANIFEST.json: %d checks, %d not claimed' % (len(checks), len(nal)))
