"""c2clite_cover.py [repo]: tries to translate EVERY function definition of the repository with tools/c2clite.py and prints, per file, which ones are inside the translated subset and why the others are not (coverage report, not part of any check)."""
import sys, os, re, json, subprocess, importlib.util
sys.argv=['c2clite.py', sys.argv[1] if len(sys.argv) > 1 else '/repo', '/var/tmp']
spec=importlib.util.spec_from_file_location('c2', os.path.join(os.path.dirname(os.path.abspath(__file__)), 'c2clite.py')); c2=importlib.util.module_from_spec(spec); spec.loader.exec_module(c2)
files=['uc.c','rstr.c','regex.c','rset.c','ren.c','dir.c','lbuf.c','sbuf.c','mot.c','reg.c','term.c','led.c','ex.c','vi.c','cmd.c','syn.c','tag.c','conf.c']
tot=ok=0
for f in files:
    txt=open(os.path.join(c2.REPO, f)).read()
    names=re.findall(r'^(?:static\s+)?[A-Za-z_][A-Za-z0-9_ \*]*?\b([A-Za-z_][A-Za-z0-9_]*)\s*\([^;{]*\)\s*\n\{', txt, re.M)
    good=[];bad=[]
    for n in names:
        tr=c2.Translator(); tr.cur_file=f
        decl=None
        for d in c2.ast_docs(os.path.join(c2.REPO, f), n):
            if d.get('kind')=='FunctionDecl' and d.get('name')==n and any(c.get('kind')=='CompoundStmt' for c in d.get('inner',[])): decl=d
        if decl is None: bad.append((n,'notfound')); continue
        try:
            c2.Fn(tr,decl).translate(); good.append((n, tr.externs))
        except c2.Unsupported as e:
            bad.append((n,str(e)[:60]))
        except SystemExit:
            bad.append((n,'die'))
        except Exception as e:
            bad.append((n,'EXC '+repr(e)[:60]))
    tot+=len(names); ok+=len(good)
    print('==',f,len(good),'/',len(names))
    print('  ok:', ' '.join(n+('['+','.join(x)+']' if x else '') for n,x in good))
    print('  no:', '; '.join('%s(%s)'%b for b in bad))
print(ok,'/',tot)
