"""C08 -- vi operators, inserts, puts and registers transform text per the reference model.

Implementation side: the real binary in vi mode: keys = program of 1..12 commands, then a marker
inserted at the cursor (`i@<ESC>`), `:w! out`; then every observed register is revealed by
putting it into a fresh copy of a two-character buffer (`:e! rv`, `"xp`, `:w! r_x`), which shows
its contents and its line-wise flag without disturbing the registers.
Oracle: `Ref8` -- an independent Python reference of the operator / insert / put / register
semantics on top of the motion reference of C07 (region = exactly the span between cursor and
motion target; exclusive, inclusive for f F t T e E %, line-wise for line motions).
Correspondence: the extracted Coq interpreter (coq/ViDefs.v exec_prog, `op` request of ocaml/drv_vi.ml)
runs every program and must show the same text, cursor and registers as the binary; in addition the
extracted register model (coq/RegDefs.v) replays the register traffic of every program (which text
was put into which register with which flag) and must agree with the revealed registers.
"""
import json, os, glob
import vlib
from props import c07

GROUP = 'vi'
TRUSTED = ['tools/props/c08.py class Ref8 (on top of c07.Ref): independent Python reference of the operator, insert-mode, put and register semantics']

MARK = '@'
ESC = '\x1b'
BLANK = ' \t'
REVEAL = ['', 'a', 'b', 'c', '1', '2', '3', '4', '5', '6', '7', '8', '9']


def split_lines(text):
    if text == '':
        return []
    parts = text.split('\n')
    if text.endswith('\n'):
        parts.pop()
    return parts


def kind_of(ch):
    k = c07.cls(ch)
    return {'n': 0, 's': 0, 'w': 1, 'p': 2}[k]


def sub(s, b, e):
    """uc_sub on a line string that includes its terminator."""
    n = len(s)
    b = n if b < 0 else min(b, n)
    e = n if e < 0 else min(e, n)
    return s[b:e] if b <= e else ''


def led_line(typed, ai='', pref_empty=False, regs=None):
    """The text of one input line after the editing keys ^H DEL ^W ^U, ^V x (literal), ^P / ^R x (register text),
    and the autoindent after ^T ^D."""
    ln = ''
    pend = 0
    for ch in typed:
        if pend == 1:                             # the key after ^V, literally
            ln += ch
            pend = 0
        elif pend == 2:                           # the register name after ^R
            v = regs('' if ch == '"' else ch) if regs else None
            if v:
                ln += v[0]
            pend = 0
        elif ch in '\x08\x7f':
            ln = ln[:-1]
        elif ch == '\x15':
            ln = ''
        elif ch == '\x14':                       # ^T: one more tab of autoindent
            if len(ai) < 127:
                ai += '\t'
        elif ch == '\x04':                       # ^D: one byte less autoindent; without any, the first typed blank goes
            if ai:
                ai = ai[:-1]
            elif pref_empty and ln[:1] in (' ', '\t') and ln:
                ln = ln[1:]
        elif ch == '\x16':
            pend = 1
        elif ch == '\x12':
            pend = 2
        elif ch == '\x10':                       # ^P: the unnamed register
            v = regs('') if regs else None
            if v:
                ln += v[0]
        elif ch == '\x17':
            if ln:
                r = len(ln) - 1
                while r > 0 and ln[r] in c07.SPACES:
                    r -= 1
                kind = kind_of(ln[r]) if r > 0 else 0
                while r > 0 and kind_of(ln[r - 1]) == kind:
                    r -= 1
                ln = ln[:r]
        else:
            ln += ch
    return ln, ai


def led_input(pref, post, typed, regs=None, xai=True):
    """Insert mode (autoindent option xai): returns the replacement text, post as left at the end (after a typed
    newline its leading blanks are dropped under autoindent; the cursor is counted against THAT text), and the
    number of lines the input added (see DESIGN Appendix D)."""
    k = 0
    while k < len(pref) and k < 127 and pref[k] in BLANK:
        k += 1
    ai, pref = pref[:k], pref[k:]
    out = ''
    nls = 0
    segs = typed.split('\n')
    for idx, seg in enumerate(segs):
        last = idx == len(segs) - 1
        ln, ai = led_line(seg, ai, not pref, regs)
        nls += ln.count('\n') + (0 if last else 1)
        sp = 0
        while sp < len(ln) and ln[sp] in BLANK:
            sp += 1
        if ln[sp:] or pref or (last and post and post[0] != '\n'):
            out += ai
        out += pref + ln + ('' if last else '\n')
        if not pref:
            ai = (ai + ln[:sp])[:127]
        if not xai:
            ai = ''
        if last:
            break
        pref = ''
        if xai:
            post = post.lstrip(BLANK)
    return out + post, post, nls


def _tr_upper(t):
    return ''.join(chr(ord(c) - 32) if 'a' <= c <= 'z' else c for c in t)


def _lines(t):
    return t.split('\n')[:-1] if t.endswith('\n') else (t.split('\n') if t else [])


# the ! filter: shell commands with a locale-independent, deterministic effect, and what they compute
FILTERS = {
    'tr a-z A-Z': _tr_upper,
    'cat': lambda t: t,
    'sed 1d': lambda t: ''.join(l + '\n' for l in _lines(t)[1:]),
    'sed p': lambda t: ''.join(l + '\n' + l + '\n' for l in _lines(t)),
    'tac': lambda t: ''.join(l + '\n' for l in reversed(_lines(t))),
    'true': lambda t: '',
    'printf x': lambda t: 'x',
    'echo é; cat': lambda t: 'é\n' + t,
}


class Ref8(c07.Ref):
    def __init__(self, lines, rows):
        super().__init__(list(lines), rows)
        self.regs = {}
        self.ai = True            # the autoindent option (:se ai / :se noai)
        self.traffic = []         # (register name, text, linewise) of every reg_put, for the register model

    # -- buffer helpers
    def reindex(self):
        self.flat = ''.join(l + '\n' for l in self.L)
        self.C = ''.join(c07.cls(c) for c in self.flat)
        self.starts = []
        p = 0
        for l in self.L:
            self.starts.append(p)
            p += len(l) + 1

    def full(self, r):
        return self.L[r] + '\n' if 0 <= r < len(self.L) else None

    def edit(self, text, beg, end):
        self.L[beg:end] = split_lines(text) if text is not None else []
        self.reindex()

    def noeol(self, r, o):
        if not (0 <= r < len(self.L)):
            return 0 if o >= 0 else o
        n = len(self.L[r]) + 1
        if o >= n:
            o = max(0, n - 1)
        if o > 0 and o == n - 1:
            o -= 1
        return o

    def indents_raw(self, r):
        if not (0 <= r < len(self.L)):
            return 0
        ln = self.L[r]
        k = 0
        while k < len(ln) and ln[k] in c07.SPACES:
            k += 1
        return k if k < len(ln) else len(ln) + 1

    def eol(self, r):
        return len(self.L[r]) if 0 <= r < len(self.L) else 0

    def finish(self, mod):
        n = len(self.L)
        if self.r < 0 or self.r >= n:
            self.r = n - 1 if n else 0
        self.fix_top()
        self.o = self.noeol(self.r, self.o)
        if mod and n:
            self.xcol = self.off2col(self.r, self.o)
        elif mod:
            self.xcol = 0

    # -- registers
    def reg_put(self, c, s, ln):
        self.traffic.append((c, s, ln))
        R = self.regs
        if (ln or '\n' in s) and (c == '' or (c.isascii() and c.isalpha())):
            for i in range(8, 0, -1):
                if str(i) in R:
                    R[str(i + 1)] = R[str(i)]
            R['1'] = (s, ln)
        if c.isascii() and c.isupper():
            pre = R[c.lower()][0] if c.lower() in R else ''
            R[c.lower()] = (pre + s, ln)
        else:
            R[c] = (s, ln)

    def reg_get(self, c):
        return self.regs.get('' if c == '"' else c)

    # -- region
    def region_text(self, r1, o1, r2, o2):
        if r1 == r2:
            return sub(self.full(r1), o1, o2)
        return sub(self.full(r1), o1, -1) + ''.join(self.full(i) for i in range(r1 + 1, r2)) + sub(self.full(r2), 0, o2)

    def vc_region(self, a1, a2, op, mkey, marg):
        """None = the command fails; else (r1, o1, r2, o2, lnmode)."""
        cnt = (a1 or 1) * (a2 or 1)
        has = bool(a1 or a2)
        n = len(self.L)
        r1 = r2 = self.r
        o1 = o2 = self.noeol(self.r, self.o)
        if mkey == 'DBL':
            r2, o2 = max(0, min(r1 + cnt - 1, n - 1)), None
        else:
            t = self.target(cnt if has else 0, mkey, marg, has=has)
            if t is None:
                return None
            r2, o2 = t
            if mkey == '^' and o2 is not None:
                o2 = min(o2, self.eol(r2))      # the target of ^ is a position of the line, at most its terminator (repo 27e5b4d)
        lnmode = o2 is None
        if lnmode:
            o1, o2 = 0, self.eol(r2)
        if r1 > r2:
            r1, r2, o1, o2 = r2, r1, o2, o1
        if r1 == r2 and o1 > o2:
            o1, o2 = o2, o1
        o1 = self.noeol(r1, o1)
        if not lnmode and mkey in 'fFtTeE%;,'[:7] and mkey != 'DBL':
            if o2 < self.eol(r2):
                o2 = self.noeol(r2, o2) + 1
        return r1, o1, r2, o2, lnmode

    # -- commands
    def operator(self, reg, a1, op, a2, mkey, marg=None, text=''):
        if not self.L:
            # the empty buffer: only commands that read no line are defined here
            if op in ('<', '>'):
                self.finish(0)
                return
        reg_ = self.vc_region(a1, a2, op, mkey, marg)
        if reg_ is None:
            self.finish(0)
            return
        r1, o1, r2, o2, ln = reg_
        n = len(self.L)
        if op in ('<', '>'):
            for i in range(r1, r2 + 1):
                if 0 <= i < len(self.L):
                    l = self.L[i]
                    if op == '>':
                        self.L[i] = ('\t' + l) if l != '' else l
                    else:
                        self.L[i] = l[1:] if l[:1] in (' ', '\t') and l else l
            self.reindex()
            self.r = r1
            self.o = self.indents_raw(r1)
            self.finish(1)
            return
        if not self.L:
            region = ''
        else:
            region = self.region_text(r1, 0 if ln else o1, r2, -1 if ln else o2)
        if op == 'y':
            self.reg_put(reg, region, ln)
            moved = not (ln and self.r == r1)
            self.r = r1
            if not ln:
                self.o = o1
            self.finish(1 if moved else 0)  # the sticky column is refreshed unless a line-wise yank leaves the cursor row alone (repo aba50d5, b5c2072)
            return
        if op == 'd':
            self.reg_put(reg, region, ln)
            if self.L:
                if not ln:
                    self.edit(sub(self.full(r1), 0, o1) + sub(self.full(r2), o2, -1), r1, r2 + 1)
                else:
                    self.edit(None, r1, r2 + 1)
            self.r = r1
            self.o = self.indents_raw(r1) if ln else o1
            self.finish(1)
            return
        if op == 'c':
            self.reg_put(reg, region, ln)
            if self.L:
                if ln:
                    l1 = self.L[r1]
                    k = 0
                    while k < len(l1) and l1[k] in BLANK:
                        k += 1
                    pref, post = (l1[:k] if self.ai else ''), '\n'
                else:
                    pref, post = sub(self.full(r1), 0, o1), sub(self.full(r2), o2, -1)
            else:
                pref, post = '', '\n'       # the empty buffer: the input ends the (new) first line
            self.r = r1
            rep, post2, nls = led_input(pref, post, text, self.regs.get, self.ai)
            self.nextline(nls)                  # every line added scrolls the window as it is typed
            self.edit(rep, r1, r2 + 1 if self.L or True else 0)
            row = rep.count('\n') + 1
            self.r = r1 + row - 1 - 1
            self.o = self.input_off(rep, post2)
            self.finish(1)
            return
        if op in ('g~', 'gu', 'gU'):
            if not self.L:
                self.finish(1)
                return

            def conv(ch):
                if ord(ch) > 0x7f:
                    return ch
                if op == 'gu':
                    return ch.lower()
                if op == 'gU':
                    return ch.upper()
                return ch.upper() if ch.islower() else ch.lower()
            new = ''.join(conv(ch) for ch in region)
            if not ln:
                self.edit(sub(self.full(r1), 0, o1) + new + sub(self.full(r2), o2, -1), r1, r2 + 1)
            else:
                self.edit(new, r1, r2 + 1)
            self.r = r2
            self.o = self.indents_raw(r2) if ln else o2
            self.finish(1)
            return
        raise ValueError(op)

    def pipe(self, a1, a2, mkey, marg, cmd):
        """! with a motion: the lines of the region are replaced by the output of the command; the cursor stays"""
        reg_ = self.vc_region(a1, a2, '!', mkey, marg)
        if reg_ is None:
            self.finish(0)
            return
        r1, o1, r2, o2, ln = reg_
        if mkey in ('{', '}') and 0 <= r2 < len(self.L) and self.L[r2] == '' and r1 < r2:
            r2 -= 1
        n = len(self.L)
        text = ''.join(self.full(i) for i in range(r1, r2 + 1) if 0 <= i < n)
        rep = FILTERS[cmd](text)
        beg, end = min(r1, n), min(r2 + 1, n)
        self.L[beg:end] = split_lines(rep)
        self.reindex()
        self.finish(1)

    def nextline(self, n):
        """vi_nextline while typing: the cursor row goes down; at the bottom row of the window the window scrolls with it"""
        for _ in range(n):
            if self.r == self.top + self.rows - 1:
                self.top += 1
            self.r += 1

    def input_off(self, rep, post):
        """vi_input: offset of the last typed character in the last line of the replacement."""
        if len(rep) < len(post):
            return 0
        head = rep[:len(rep) - len(post)]
        nl = head.rfind('\n') + 1
        off = len(rep[nl:]) - len(post) - 1
        return max(off, 0)

    def insert(self, key, text):
        L = self.L
        have = bool(L)
        ln = self.full(self.r) if have else None
        if key == 'I':
            self.o = self.indents_raw(self.r)
        if key == 'A':
            self.o = self.eol(self.r)
        self.o = self.noeol(self.r, self.o) if have else 0
        nextlines = 0
        if key == 'o':
            self.nextline(1)
        off = self.o if key in 'iI' else self.o + 1 if key in 'aA' else 0
        if ln is not None and ln[0] == '\n':
            off = 0
        if ln is not None and key not in 'oO':
            pref, post = sub(ln, 0, off), sub(ln, off, -1)
        else:
            k = 0
            while ln is not None and k < len(ln) and ln[k] in BLANK:
                k += 1
            pref, post = (ln[:k] if ln is not None and self.ai else ''), '\n'
        rep, post2, nls = led_input(pref, post, text, self.regs.get, self.ai)
        self.nextline(nls)
        if key in 'oO' and not L:
            self.edit('\n', 0, 0)
        row = rep.count('\n') + 1 - 1
        beg = self.r - row + 1
        self.edit(rep, beg, beg + (0 if key in 'oO' else 1))
        self.o = self.input_off(rep, post2)
        self.finish(1)

    def simple(self, reg, cnt, key):
        if key == 'x':
            return self.operator(reg, cnt, 'd', 0, ' ')
        if key == 'X':
            return self.operator(reg, cnt, 'd', 0, '\b')
        if key == 'D':
            return self.operator(reg, cnt, 'd', 0, '$')
        if key == 'Y':
            return self.operator(reg, cnt, 'y', 0, 'DBL')
        if key == '~':
            return self.operator(reg, cnt, 'g~', 0, ' ')
        if key in 'pP':
            return self.put(reg, cnt, key)
        if key == 'J':
            return self.join(cnt)
        raise ValueError(key)

    def put(self, reg, cnt, key):
        cnt = max(1, cnt)
        v = self.reg_get(reg)
        if v is None or v[0] == '':
            self.finish(0)
            return
        buf, ln = v
        if ln:
            if not self.L:
                self.edit('\n', 0, 0)
            if key == 'p':
                self.r += 1
            self.edit(buf * cnt, self.r, self.r)
            self.o = self.indents_raw(self.r)
        else:
            l = self.full(self.r) if self.r < len(self.L) else '\n'
            lo = self.noeol(self.r, self.o) if self.r < len(self.L) else 0
            off = lo + (1 if (l[0] != '\n' and key == 'p') else 0)
            self.edit(sub(l, 0, off) + buf * cnt + sub(l, off, -1), self.r, self.r + 1)
            self.o = off + len(buf) * cnt - 1
        self.finish(1)

    def join(self, cnt):
        cnt = 2 if cnt <= 1 else cnt
        beg, end = self.r, self.r + cnt
        if not self.L or end - 1 >= len(self.L):
            self.finish(0)
            return
        acc = ''
        off = 0
        for i in range(beg, end):
            l = self.L[i]
            if i > beg:
                l = l.lstrip(BLANK)
            spaces = 0
            if i > beg and acc:
                if acc[-1] == ' ' or l[:1] == ')':
                    spaces = 0
                else:
                    spaces = 2 if acc[-1] == '.' else 1
            off = len(acc)
            acc += ' ' * spaces + l
        self.edit(acc + '\n', beg, end)
        self.o = off
        self.finish(1)

    def replace(self, cnt, ch):
        cnt = max(1, cnt)
        if not self.L:
            self.finish(0)
            return
        l = self.L[self.r]
        off = self.noeol(self.r, self.o)
        if off + cnt > len(l):
            self.finish(0)
            return
        self.edit(l[:off] + ch * cnt + l[off + cnt:] + '\n', self.r, self.r + 1)
        if ch == '\n':                  # r<newline>: the characters become line breaks, the cursor goes to the last new line
            self.r += cnt
            self.o = 0
        else:
            self.o = off + cnt - 1
        self.finish(1)

    def run8(self, prog):
        for c in prog:
            k = c[0]
            if k == 'g':
                self.goto(c[1])
            elif k == 'm':
                self.motion(c[1], c[2], c[3] if len(c) > 3 else None)
            elif k == 'op':
                _, reg, a1, op, a2, mkey, marg, text = c
                self.operator(reg, a1, op, a2, mkey, marg, text)
            elif k == 'x':
                self.simple(c[1], c[2], c[3])
            elif k == 'r':
                self.replace(c[1], c[2])
            elif k == 'ci':
                _, reg, cnt, key, text = c
                if key == 'C':
                    self.operator(reg, cnt, 'c', 0, '$', None, text)
                elif key == 's':
                    self.operator(reg, cnt, 'c', 0, ' ', None, text)
                else:
                    self.operator(reg, cnt, 'c', 0, 'DBL', None, text)
            elif k == 'i':
                self.insert(c[1], c[2])
            elif k == 'pipe':
                self.pipe(c[1], c[2], c[3], c[4], c[5])
            elif k == 'ai':                     # :se ai / :se noai -- an ex command: window and column are refreshed
                self.ai = bool(c[1])
                self.finish(1)
            else:
                raise ValueError(k)
            if not self.L and (self.r, self.o) != (0, 0):
                self.r = self.o = 0

    def goto(self, n):
        if self.L and 1 <= n <= len(self.L):
            self.r, self.o = n - 1, 0
            self.finish(1)

    def motion(self, cnt, key, arg=None):
        # motions do not recompute the column through finish(); reuse the C07 landing
        return super().motion(cnt, key, arg)


# ------------------------------------------------------------------------------------------
# keys

def regpfx(reg):
    return ('"' + reg) if reg else ''


def cnts(n):
    return str(n) if n else ''


def keys_of(prog):
    out = ''
    for c in prog:
        k = c[0]
        if k == 'g':
            out += ':%d\n' % c[1]
        elif k == 'm':
            out += cnts(c[1]) + c[2] + (c[3] if len(c) > 3 else '')
        elif k == 'op':
            _, reg, a1, op, a2, mkey, marg, text = c
            mk = op[-1] if mkey == 'DBL' else mkey
            out += regpfx(reg) + cnts(a1) + op + cnts(a2) + mk + (marg or '')
            if op == 'c':
                out += text + ESC
        elif k == 'x':
            out += regpfx(c[1]) + cnts(c[2]) + c[3]
        elif k == 'r':
            out += cnts(c[1]) + 'r' + c[2]
        elif k == 'ci':
            out += regpfx(c[1]) + cnts(c[2]) + c[3] + c[4] + ESC
        elif k == 'i':
            out += c[1] + c[2] + ESC
        elif k == 'ai':
            out += ':se ai\n' if c[1] else ':se noai\n'
        elif k == 'pipe':
            _, a1, a2, mkey, marg, cmd = c
            out += cnts(a1) + '!' + cnts(a2) + ('!' if mkey == 'DBL' else mkey) + (marg or '') + cmd + '\n'
    return out.encode('utf-8')


RV = 'XY\n'


def observe(exe, text, rows, prog):
    keys = keys_of(prog) + b'i' + MARK.encode() + b'\x1b:w! out\n'
    names = []
    for nm in REVEAL:
        fn = 'r_' + (nm or 'un')
        names.append(fn)
        keys += b':e! v' + fn.encode() + b'\n' + regpfx(nm).encode() + b'p:w! ' + fn.encode() + b'\n'
    keys += b':q!\n'
    files = {'f': text.encode('utf-8')}
    for fn in names:
        files['v' + fn] = RV.encode()
    r = vlib.run_vi(exe, keys, files=files, args=['f'], readback=['out'] + names, rows=rows, cols=80, timeout=20)
    if r.timed_out or r.crashed():
        r = vlib.run_vi(exe, keys, files=files, args=['f'], readback=['out'] + names, rows=rows, cols=80, timeout=60)
        if r.timed_out:
            return ('bad', 'editor hangs (timeout reproduced with a 60 s limit)')
        if r.crashed():
            return ('bad', 'editor crashed: rc=%s %s' % (r.rc, r.err[-300:]))
    out = r.files.get('out')
    if out is None:
        return ('bad', 'no file written')
    try:
        s = out.decode('utf-8')
        regs = {nm: (r.files.get(fn).decode('utf-8') if r.files.get(fn) is not None else None) for nm, fn in zip(REVEAL, names)}
    except UnicodeDecodeError:
        return ('bad', 'a written file is not valid UTF-8: %s' % out.hex())
    return ('ok', s, regs)


def render(L, r, o, regs):
    """What the observation protocol shows for a final state: the written file with the marker at the
    cursor, and each revealed register put after the X of "XY"."""
    L = list(L)
    if not L:
        out = MARK + '\n'
    else:
        r = min(max(r, 0), len(L) - 1)
        l = L[r]
        L[r] = l[:o] + MARK + l[o:]
        out = ''.join(x + '\n' for x in L)
    shown = {}
    for nm in REVEAL:
        v = regs.get(nm)
        if v is None or v[0] == '':
            shown[nm] = RV
        elif v[1]:
            shown[nm] = RV + ''.join(x + '\n' for x in split_lines(v[0]))
        else:
            shown[nm] = ''.join(x + '\n' for x in split_lines('X' + v[0] + 'Y\n'))
    return out, shown


def expected(text, rows, prog):
    ref = Ref8(c07.lines_of(text), rows - 1)
    ref.run8(prog)
    out, regs = render(ref.L, ref.r, ref.o, ref.regs)
    return out, regs, ref


# ------------------------------------------------------------------------------------------
# the extracted Coq interpreter (coq/ViDefs.v exec_prog through the `op` request of ocaml/drv_vi.ml)

def hxs(s):
    return vlib.hx(s.encode('utf-8'))


def regnum(reg):
    return ord(reg) if reg else 0


def has_pipe(prog):
    return any(c[0] == 'pipe' for c in prog)


def model_req(text, rows, prog):
    """the `op` request; programs with the ! filter are outside the Coq interpreter: an empty program is sent instead"""
    if has_pipe(prog):
        prog = []
    # programs that set the autoindent option go through ViInsDefs.exec_prog_x (`opx`), the others through ViDefs.exec_prog
    w = ['opx' if any(c[0] == 'ai' for c in prog) else 'op', str(rows - 1), hxs(text)]
    for c in prog:
        k = c[0]
        if k == 'g':
            w.append('g:%d' % c[1])
        elif k == 'm':
            w.append('m:%d:%d' % (c[1], ord(c[2])) + (':' + hxs(c[3]) if len(c) > 3 and c[3] else ''))
        elif k == 'op':
            _, reg, a1, op, a2, mkey, marg, text_ = c
            w.append('o:%d:%d:%d:%d:%s:%s:%s' % (regnum(reg), a1, ord(op[-1]), a2, 'D' if mkey == 'DBL' else str(ord(mkey)),
                                                 hxs(marg or ''), hxs(text_)))
        elif k == 'x':
            if c[3] in 'pP':
                w.append('p:%d:%d:%d' % (regnum(c[1]), c[2], 1 if c[3] == 'p' else 0))
            elif c[3] == 'J':
                w.append('j:%d' % c[2])
            else:
                w.append('x:%d:%d:%d' % (regnum(c[1]), c[2], ord(c[3])))
        elif k == 'r':
            w.append('r:%d:%s' % (c[1], hxs(c[2])))
        elif k == 'ci':
            w.append('ci:%d:%d:%d:%s' % (regnum(c[1]), c[2], ord(c[3]), hxs(c[4])))
        elif k == 'i':
            w.append('i:%d:%s' % (ord(c[1]), hxs(c[2])))
        elif k == 'ai':
            w.append('ai:%d' % (1 if c[1] else 0))
        else:
            raise ValueError(k)
    return ' '.join(w)


MODEL_REGS = ['', 'a', 'b', 'c', '1', '2', '3', '4', '5', '6', '7', '8', '9']


def model_shown(line):
    """Parse one answer of the `op` request and render it like an observation; None = out of fuel / error."""
    w = line.split()
    if len(w) != 5 + len(MODEL_REGS):
        return None
    row, off = int(w[0]), int(w[1])
    text = vlib.unhx(w[4]).decode('utf-8', 'replace')
    regs = {}
    for nm, x in zip(MODEL_REGS, w[5:]):
        if x != 'x':
            t, ln = x.split(':')
            regs[nm] = (vlib.unhx(t).decode('utf-8', 'replace'), ln == '1')
    return render(c07.lines_of(text), row, off, regs) + ((int(w[2]), int(w[3])),)


# ------------------------------------------------------------------------------------------
# generation

SAFE_MOT = list('hl0^$wbeWBEjk+-_G{}HML |')          # never fail (c needs that: its text would run as commands)
ANY_MOT = SAFE_MOT + ['f', 'F', 't', 'T', ';', ',', '%']
TYPED = ['a', 'b', 'xy', ' ', ' ', 'Q', '.', ')', 'é', '中', '\t', 'w_1', '-', 'foo bar', '  ']
EDITKEYS = ['\x08', '\x17', '\x15', '\n', '\x08', '\x17', '\x15', '\n', '\x14', '\x04', '\x7f',
            '\x10', '\x10', '\x12a', '\x12"', '\x121', '\x12b', '\x12A', '\x16x', '\x16\t', '\x16\x08', '\x16\x17']


def gen_typed(rng):
    n = rng.choice([0, 1, 1, 2, 3, 5])
    out = ''
    for _ in range(n):
        out += rng.choice(EDITKEYS) if rng.chance(1, 5) else rng.choice(TYPED)
    return out


def gen_reg(rng):
    t = rng.below(10)
    if t < 5:
        return ''
    return rng.choice(['a', 'b', 'A', 'B', 'a', 'A', 'c', 'C', '1', '2', '5', '9'])


def gen_cnt(rng):
    t = rng.below(10)
    if t < 6:
        return 0
    if t < 9:
        return rng.range(1, 4)
    return rng.choice([9, 12, 99])


def gen_mot(rng, text, safe):
    key = rng.choice(SAFE_MOT if safe else ANY_MOT)
    arg = None
    if key in 'fFtT':
        chars = [c for c in text if c != '\n']
        arg = rng.choice(chars) if chars and rng.chance(5, 6) else 'q'
    return key, arg


def gen_pipe(rng, text):
    if rng.chance(1, 4):
        mkey, marg = 'DBL', None
    elif rng.chance(1, 3):
        mkey, marg = rng.choice(['}', '}', '{']), None   # a paragraph: the empty line that ends it is left out
    else:
        mkey, marg = gen_mot(rng, text, True)           # a failing motion would leave the command line to be run as keys
    a1, a2 = gen_cnt(rng), (gen_cnt(rng) if rng.chance(1, 3) else 0)
    if mkey == '0' or a1 * a2 > 99:
        a2 = 0
    return ['pipe', a1, a2, mkey, marg, rng.choice(sorted(FILTERS))]


def gen_cmd(rng, text):
    t = rng.below(20)
    if t < 3 and rng.chance(1, 4):
        return gen_pipe(rng, text)
    if t < 3:
        m = c07.gen_motion(rng, text)
        return m
    if t < 9:
        op = rng.choice(['d', 'd', 'd', 'y', 'y', 'c', 'c', '<', '>', 'g~', 'gu', 'gU'])
        if rng.chance(1, 4):
            mkey, marg = 'DBL', None
        else:
            mkey, marg = gen_mot(rng, text, op == 'c')
        a1, a2 = gen_cnt(rng), (gen_cnt(rng) if rng.chance(1, 2) else 0)
        if mkey == '0':
            a2 = 0
        if a1 * a2 > 99:
            a2 = 0
        return ['op', gen_reg(rng), a1, op, a2, mkey, marg, gen_typed(rng) if op == 'c' else '']
    if t < 14:
        key = rng.choice(['x', 'x', 'X', 'D', 'Y', '~', 'p', 'p', 'P', 'P', 'J'])
        return ['x', gen_reg(rng) if key != 'J' and key != '~' else '', gen_cnt(rng), key]
    if t < 15:
        return ['r', gen_cnt(rng), rng.choice(['z', 'é', '中', ' ', 'z', 'é', '\n'])]
    if t < 17:
        return ['ci', gen_reg(rng), gen_cnt(rng), rng.choice(['C', 's', 'S']), gen_typed(rng)]
    return ['i', rng.choice(list('iaIAoO')), gen_typed(rng)]


MBTYPED = ['é', '中', 'éé', '中a', 'я€', 'Ａ', '\U00010400', 'aé', 'é b', 'ああ', '한x']


def gen_mbtyped(rng):
    out = ''
    for _ in range(rng.range(1, 3)):
        out += rng.choice(MBTYPED) if rng.chance(3, 4) else rng.choice(TYPED + ['\n', '\x08'])
    return out


def gen_insertish(rng, text):
    """an insert-type command whose typed text is mostly multi-byte (the cursor after it is counted in characters)"""
    t = rng.below(6)
    if t < 3:
        return ['i', rng.choice(list('iaIAoO')), gen_mbtyped(rng)]
    if t < 5:
        return ['ci', gen_reg(rng), gen_cnt(rng), rng.choice(['C', 's', 'S']), gen_mbtyped(rng)]
    mkey, marg = gen_mot(rng, text, True)
    return ['op', gen_reg(rng), gen_cnt(rng), 'c', 0, mkey if rng.chance(3, 4) else 'DBL', marg, gen_mbtyped(rng)]


def gen_relative(rng):
    """a command that acts at the cursor: shows where the previous command left it"""
    t = rng.below(8)
    if t < 3:
        return ['x', gen_reg(rng), gen_cnt(rng), rng.choice(['x', 'x', 'X', '~', 'D'])]
    if t < 4:
        return ['r', 0, rng.choice(['z', 'é'])]
    if t < 6:
        return ['x', gen_reg(rng), 0, rng.choice(['p', 'P'])]
    return ['m', rng.choice([0, 1, 2]), rng.choice(['h', 'l', 'j', 'k', 'w', 'b'])]


def gen_spanning_delete(rng, text):
    """deletes and yanks whose region is line-wise or crosses a line end character-wise (register 1 and the shift 1 -> 9)"""
    t = rng.below(10)
    reg = rng.choice(['', '', '', 'a', 'b', 'A', 'c', 'C'])
    op = rng.choice(['d', 'd', 'd', 'y'])
    if t < 3:
        return [['op', reg, rng.choice([0, 0, 1, 2, 3]), op, 0, 'DBL', None, '']]
    if t < 5:
        return [['op', reg, rng.choice([0, 0, 1, 2]), op, 0, rng.choice(['j', 'k', '+', '-', 'G', '_', 'H', 'L']), None, '']]
    pre = [['m', 0, '$']] if rng.chance(2, 3) else []
    if t < 8:                 # from the last character of a line: w W } cross the line end, the region contains a newline
        return pre + [['op', reg, rng.choice([0, 0, 1, 2, 3]), op, 0, rng.choice(['w', 'w', 'W', '}', 'e', 'E']), None, '']]
    pre = [['m', 0, rng.choice(['0', '^'])]] if rng.chance(2, 3) else []
    return pre + [['op', reg, rng.choice([0, 0, 1, 2]), op, 0, rng.choice(['b', 'B', '{', 'b']), None, '']]


def gen_start(rng, ls, prog):
    if ls and rng.chance(2, 3):
        r = rng.below(len(ls))
        prog.append(['g', r + 1])
        if ls[r] and rng.chance(2, 3):
            prog.append(['m', rng.range(1, max(1, len(ls[r]))), ' '])


def gen_pair_ops(rng, text):
    """operators whose target is the matching bracket (also on an earlier / later line) or a backward F / T:
    the cursor is first put on a bracket of the ORIGINAL text, so that c% cannot fail"""
    ls = c07.lines_of(text)
    spots = [(r, o) for r, l in enumerate(ls) for o, ch in enumerate(l) if ch in '()[]{}']
    prog = []
    if not spots:
        return [gen_cmd(rng, text)]
    r, o = rng.choice(spots)
    prog.append(['g', r + 1])
    if o:
        prog.append(['m', o, ' '])
    op = rng.choice(['d', 'd', 'd', 'y', 'y', 'c', 'g~', 'gU', '<', '>'])
    if op == 'c' and c07.Ref(ls, 23).pair(r, o) is None:
        op = 'd'              # an unbalanced bracket: % fails, and a failing c would run its text as commands
    prog.append(['op', gen_reg(rng), 0, op, 0, '%', None, gen_typed(rng) if op == 'c' else ''])
    for _ in range(rng.range(0, 3)):
        t = rng.below(4)
        if t == 0:
            prog.append(c07.gen_motion(rng, text))
        elif t == 1:
            prog.append(['m', rng.choice([0, 0, 1, 2]), rng.choice('fFtT'), rng.choice('()[]{}')])
        else:
            op = rng.choice(['d', 'y', 'g~', 'gu'])
            key = rng.choice(['%', '%', 'F', 'T'])
            arg = rng.choice('([{ a') if key in 'FT' else None
            prog.append(['op', gen_reg(rng), 0, op, 0, key, arg, ''])
    if rng.chance(1, 2):
        prog.append(['x', rng.choice(['', '1', 'a']), 0, rng.choice(['p', 'P'])])
    return prog


def gen_indent_text(rng):
    """lines whose leading blanks are around the 127 bytes the autoindent buffer of insert mode can hold"""
    ls = []
    for _ in range(rng.range(1, 3)):
        k = rng.choice([125, 126, 127, 128, 129, 140])
        ind = ' ' * k if rng.chance(2, 3) else ('\t' * (k // 2) + ' ' * (k - k // 2))
        ls.append(ind + rng.choice(['x', 'ab c', '', 'é']))
        if rng.chance(1, 3):
            ls.append(c07.gen_line(rng))
    return '\n'.join(ls) + '\n'


def gen_indent_prog(rng, text):
    ls = c07.lines_of(text)
    prog = []
    for _ in range(rng.range(1, 3)):
        prog.append(['g', rng.below(len(ls)) + 1])
        t = rng.below(5)
        typed = rng.choice(['a', 'a\nb', '\x14a', '\x14\x14b\nc', '\x04a', ' \nz', 'é\n\ny', ''])
        if t < 2:
            prog.append(['i', rng.choice('oOoA'), typed])
        elif t < 4:
            prog.append(['ci', '', 0, rng.choice('SC'), typed])
        else:
            prog.append(['op', '', rng.choice([0, 2]), 'c', 0, 'DBL', None, typed])
        if rng.chance(1, 2):
            prog.append(gen_relative(rng))
    return prog


def gen_case_text(rng):
    """U+200C is replaced by U+200B: once an edit brings a ZWNJ to the start of a line, conf.h's dircontexts make that line
    right-to-left (h l and the columns reverse), which is outside the left-to-right scope of the motion model and of the reference"""
    t = rng.below(40)
    if t < 6:
        text = c07.gen_pair_text(rng)
    elif t < 8:
        text = gen_indent_text(rng)
    else:
        text = c07.gen_text(rng, 6)
    return text.replace('\u200c', '\u200b')


def gen_prog(rng, text):
    ls = c07.lines_of(text)
    prog = []
    if any(ch in text for ch in '()[]{}') and rng.chance(1, 3):
        return gen_pair_ops(rng, text)
    if len(text) > 120 and any(len(l) - len(l.lstrip(' \t')) > 120 for l in ls) and rng.chance(3, 4):
        return gen_indent_prog(rng, text)
    gen_start(rng, ls, prog)
    shape = rng.below(20)
    if shape < 3:
        # several line / multi-line deletes, then puts from the numbered registers
        for _ in range(rng.range(2, 7)):
            prog += gen_spanning_delete(rng, text)
            if rng.chance(1, 3):
                prog.append(c07.gen_motion(rng, text))
        for _ in range(rng.range(1, 4)):
            prog.append(['x', rng.choice(list('123456789')), rng.choice([0, 0, 0, 1, 2, 3]), rng.choice(['p', 'P'])])
            if rng.chance(1, 3):
                prog.append(gen_cmd(rng, text))
    elif shape < 6:
        # an insert with multi-byte text, then a command relative to the cursor it leaves
        for _ in range(rng.range(1, 3)):
            prog.append(gen_insertish(rng, text))
            for _ in range(rng.range(1, 2)):
                prog.append(gen_relative(rng))
    elif shape < 8:
        # a character-wise yank that moves the cursor back, then j / k (sticky column), then an edit at the cursor
        prog.append(['m', rng.choice([0, 2, 3]), rng.choice(['w', 'e', '$', 'l', 'W'])])
        key = rng.choice(['b', 'h', '0', '^', 'B', 'F', 'T', '|'])
        chars = [c for c in text if c != '\n']
        arg = (rng.choice(chars) if chars else 'q') if key in 'FT' else None
        prog.append(['op', gen_reg(rng), gen_cnt(rng) if key != '0' else 0, 'y', 0, key, arg, ''])
        prog.append(['m', rng.choice([0, 1, 2]), rng.choice(['j', 'k'])])
        prog.append(gen_relative(rng))
    else:
        for _ in range(rng.choice([1, 1, 2, 2, 3, 4, 6, 9, 12])):
            prog.append(gen_cmd(rng, text))
    return prog


# ------------------------------------------------------------------------------------------
# stream "split": <Enter> typed INSIDE a line -- in front of, inside and behind runs of blanks and tabs -- by every
# insert-type command, with autoindent on and off, then a command that shows where the cursor was left.
# (led.c led_input drops the leading blanks of the text right of the insertion point from the CALLER's buffer after a
# newline under autoindent; vi.c vi_input counts the cursor against that buffer.)

SPLIT_WORDS = ['foo', 'x', 'ab', 'é', '中b', 'key', 'v.', '(a)', 'w_1', 'éé']
SPLIT_RUNS = [' ', '  ', '\t', ' \t', '\t ', '   ', '\t\t', ' \t ']
SPLIT_SEGS = ['', '', 'X', 'ab', 'XY', ' ', '  y', '\tz', 'é', '中', ' ', '\t', 'q ', 'a b', ' \t', 'xyz']
SPLIT_EDIT = ['\x14', '\x04', '\x08', '\x17', '\x15', '\x16x', '\x14\x14', '\x04\x04', '\x7f', '\x10']
SPLIT_MOT = ['w', 'e', 'l', 'h', 'b', '$', '0', '^', 'W', 'E', 'B', ' ', '|']      # never fail


def gen_split_line(rng):
    """words separated by runs of blanks and tabs; sometimes indented, sometimes ending in blanks, empty or blanks only"""
    t = rng.below(14)
    if t == 0:
        return ''
    if t == 1:
        return rng.choice(SPLIT_RUNS)
    s = rng.choice(SPLIT_RUNS) if rng.chance(1, 3) else ''
    n = rng.range(1, 3)
    for i in range(n):
        s += rng.choice(SPLIT_WORDS)
        if i < n - 1 or rng.chance(1, 4):
            s += rng.choice(SPLIT_RUNS)
    return s


def gen_split_typed(rng, enters=None):
    """typed text with 1..3 <Enter> keys; the input lines are short words, blanks, nothing; now and then an editing key"""
    n = enters if enters is not None else rng.range(1, 3)
    segs = []
    for _ in range(n + 1):
        seg = rng.choice(SPLIT_SEGS)
        if rng.chance(1, 7):
            k = rng.below(len(seg) + 1)
            seg = seg[:k] + rng.choice(SPLIT_EDIT) + seg[k:]
        segs.append(seg)
    return '\n'.join(segs)


def split_offsets(line, pick):
    """offsets of the line next to a blank (the cursor on a blank, or just in front of one)"""
    return [o for o in range(len(line)) if line[o] in BLANK or (o + 1 < len(line) and line[o + 1] in BLANK)]


def gen_split_cmd(rng, typed):
    t = rng.below(14)
    if t < 6:
        return ['i', rng.choice('iaiaIA'), typed]
    if t < 7:
        return ['i', rng.choice('oO'), typed]
    if t < 10:
        return ['ci', rng.choice(['', '', 'a']), rng.choice([0, 0, 1, 2, 3]), rng.choice('sssCS'), typed]
    if t < 11:
        return ['op', '', rng.choice([0, 0, 2]), 'c', 0, 'DBL', None, typed]
    mkey = rng.choice(SPLIT_MOT)
    return ['op', rng.choice(['', '', 'b']), rng.choice([0, 0, 2, 3]) if mkey != '0' else 0, 'c', 0, mkey, None, typed]


def gen_split_reveal(rng):
    """what follows the insert: nothing (the marker of the observation shows the cursor) or one command at the cursor"""
    t = rng.below(12)
    if t < 3:
        return []
    if t < 4:
        return [['i', 'i', 'M']]
    if t < 5:
        return [['x', '', rng.choice([0, 0, 2]), rng.choice('xX')]]
    if t < 7:
        return [['x', '', 0, rng.choice('pP')]]
    if t < 8:
        return [['m', rng.choice([0, 1, 2]), rng.choice('jk')], ['x', '', 0, 'x']]         # the sticky column
    if t < 9:
        return [['x', '', 0, rng.choice('~D')]]
    if t < 10:
        return [['r', 0, 'z']]
    return [gen_split_cmd(rng, gen_split_typed(rng, rng.choice([0, 1])))]


def gen_split_case(rng):
    ls = [gen_split_line(rng) for _ in range(rng.range(1, 3))]
    if rng.chance(1, 4):
        ls.insert(rng.below(len(ls) + 1), c07.gen_line(rng).replace('‌', '​'))
    text = '\n'.join(ls) + '\n'
    ls = c07.lines_of(text)
    prog = [['ai', 0 if rng.chance(2, 5) else 1]]
    if rng.chance(1, 8):                             # something in the unnamed register for ^P and the puts
        prog += [['g', rng.below(len(ls)) + 1], ['op', '', 0, 'y', 0, rng.choice(['w', 'DBL', '$']), None, '']]
    for _ in range(rng.choice([1, 1, 1, 2])):
        r = rng.below(len(ls)) if ls else 0
        line = ls[r] if ls else ''
        if ls:
            prog.append(['g', r + 1])
        near = split_offsets(line, rng)
        if line:
            o = rng.choice(near) if near and rng.chance(1, 2) else rng.below(len(line))
            if o:
                prog.append(['m', o, ' '])
        prog.append(gen_split_cmd(rng, gen_split_typed(rng)))
        prog += gen_split_reveal(rng)
        if rng.chance(1, 10):
            prog.append(['ai', rng.below(2)])
    return {'text': text, 'rows': rng.choice([24, 24, 6]), 'prog': prog}


SPLIT_LINES_X = ['foo bar', 'key \t value', 'ab  éé', '  in  dent ', '\tt\t\tu', 'a b', ' ', 'x', '']
SPLIT_TYPED_X = ['\n', '\nXY', 'ab\ncd', ' \n', '\n  z', 'p\n\nq', '\n\n', 'a\n \nb', '\t\n\n\nc', '\x14\nk']


def gen_split_exhaustive():
    """every offset of a few lines with blank runs x every insert-type command x typed texts with 1..3 newlines x ai on/off
    (thorough tier)"""
    cases = []
    for line in SPLIT_LINES_X:
        for o in range(max(1, len(line))):
            for typed in SPLIT_TYPED_X:
                for ai in (1, 0):
                    cmds = [['i', k, typed] for k in 'iaIAoO'] + [['ci', '', 0, 's', typed], ['ci', '', 2, 's', typed], ['ci', '', 0, 'C', typed],
                            ['ci', '', 0, 'S', typed], ['op', '', 0, 'c', 0, 'w', None, typed], ['op', '', 0, 'c', 0, 'e', None, typed]]
                    for cmd in cmds:
                        if cmd[0] == 'i' and cmd[1] in 'IAoO' and o:
                            continue                    # these do not depend on the offset
                        prog = [['ai', ai], ['g', 2]] + ([['m', o, ' ']] if o else []) + [cmd]
                        cases.append({'text': 'up\n' + line + '\n  down\n', 'rows': 24, 'prog': prog})
    return cases


def check_case(exe, c):
    text, rows, prog = c['text'], c['rows'], c['prog']
    ob = observe(exe, text, rows, prog)
    c['_obs'] = ob if ob[0] == 'ok' else None
    if ob[0] != 'ok':
        return {'what': ob[1], 'expected': 'file and registers written'}, None
    _, out, regs = ob
    try:
        want_out, want_regs, ref = expected(text, rows, prog)
    except Exception as e:          # a bug of the reference is a broken check, not a finding
        import traceback
        return {'what': 'reference raised %r' % e, 'trace': traceback.format_exc()[-800:], 'refbug': True}, None
    bad = None
    if out != want_out:
        rest_w, rest_o = want_out.replace(MARK, ''), out.replace(MARK, '')
        what = 'text after the program differs from the reference' if rest_w != rest_o else 'cursor after the program differs from the reference'
        bad = {'what': what, 'expected': want_out, 'observed': out}
    else:
        for nm in REVEAL:
            if regs[nm] != want_regs[nm]:
                bad = {'what': 'register %s differs from the reference (revealed by putting it after X of "XY")' % (nm or 'unnamed'),
                       'expected': want_regs[nm], 'observed': regs[nm]}
                break
    return bad, ref


def clean(c):
    return {k: v for k, v in c.items() if not k.startswith('_')}


def model_regs(model, traffic):
    """Replay the register traffic through the extracted reg.c model; returns {name: (text, ln) or None}."""
    req = ['regs'] + ['%s:%s:%d' % ((c.encode('utf-8').hex() or '00'), vlib.hx(s.encode('utf-8')), 1 if ln else 0) for c, s, ln in traffic]
    return ' '.join(req)


def run(ctx):
    res, rng = ctx.res, ctx.rng
    exe = vlib.build_vi()
    model = ctx.model('vi')
    res.rule = ('one case = (text, window rows, program of motions/operators/inserts/puts); compared: written text, marker position, '
                'thirteen revealed registers (unnamed a b c 1..9) incl. their line-wise flag, against the reference Ref8 and against the extracted Coq interpreter; non-trivial = the program changes the '
                'text or a register; distinct = distinct (text, rows, keys)')
    cases = []
    if ctx.replay:
        rp = json.load(open(ctx.replay))
        cases.append({'text': rp['input']['text'], 'rows': rp['input']['rows'], 'prog': rp['input']['prog']})
    else:
        for fn in sorted(glob.glob(os.path.join(vlib.VERIF, 'corpus', 'C08-*.json'))):
            for c in json.load(open(fn)):
                cases.append({'text': c['text'], 'rows': c['rows'], 'prog': c['prog']})
        n = 3000 if ctx.quick else 100000
        for i in range(n):
            text = gen_case_text(rng)
            cases.append({'text': text, 'rows': rng.choice([24, 24, 24, 6]), 'prog': gen_prog(rng, text)})
        nsplit = 0
        for i in range(1500 if ctx.quick else 30000):
            cases.append(gen_split_case(rng))
            nsplit += 1
        if not ctx.quick:
            xs = gen_split_exhaustive()
            cases += xs
            nsplit += len(xs)
        res.count('cases of the split stream (newline typed inside a line, ai on/off)', nsplit)
    res.count('cases', len(cases))
    obs = vlib.pmap(lambda c: check_case(exe, c), cases)
    # the Coq interpreter on every case: text, cursor and registers against the implementation
    if model:
        oreqs = [model_req(c['text'], c['rows'], c['prog']) for c in cases]
        rc, mout, err = vlib.run_lines(model, oreqs, timeout=3000)
        if rc != 0 or len(mout) != len(oreqs):
            res.disagree({'what': 'model driver failed on op requests: rc=%d, %d answers for %d requests' % (rc, len(mout), len(oreqs)), 'stderr': err[-500:]})
        else:
            ndis = 0
            for c, line in zip(cases, mout):
                ob = c.get('_obs')
                if ob is None:
                    continue
                if has_pipe(c['prog']):
                    res.count('not in the Coq interpreter (! filter)')
                    continue
                sh = model_shown(line)
                res.count('model answers' if sh else 'model out of fuel')
                if sh is None:
                    res.disagree({'what': 'the Coq interpreter gave no state (%s)' % line[:40], 'input': clean(c)})
                    continue
                m_out, m_regs, _ = sh
                if m_out != ob[1] or any(m_regs[nm] != ob[2][nm] for nm in REVEAL):
                    ndis += 1
                    if ndis <= 5:
                        bad = [nm or 'unnamed' for nm in REVEAL if m_regs[nm] != ob[2][nm]]
                        res.disagree({'what': 'Coq interpreter (ViDefs.exec_prog) and implementation differ in ' +
                                      ('text/cursor' if m_out != ob[1] else 'registers ' + ','.join(bad)),
                                      'input': dict(clean(c), keys=keys_of(c['prog']).decode('utf-8', 'replace')),
                                      'implementation': {'out': ob[1], 'regs': {k: v for k, v in ob[2].items() if v != RV}},
                                      'model': {'out': m_out, 'regs': {k: v for k, v in m_regs.items() if v != RV}}})
            res.extra['model_vs_implementation_differences'] = ndis
    # register model: replay the traffic of every case
    reqs, idx = [], []
    for i, (c, (bad, ref)) in enumerate(zip(cases, obs)):
        if ref is not None and not bad:
            reqs.append(model_regs(model, ref.traffic))
            idx.append(i)
    if model and reqs:
        rc, mout, err = vlib.run_lines(model, reqs, timeout=1500)
        if rc != 0 or len(mout) != len(reqs):
            res.disagree({'what': 'model driver failed: rc=%d, %d answers for %d requests' % (rc, len(mout), len(reqs)), 'stderr': err[-500:]})
        else:
            for i, line in zip(idx, mout):
                ref = obs[i][1]
                want = []
                for nm in REVEAL:
                    v = ref.regs.get(nm)
                    want.append('%s:%d' % (vlib.hx(v[0].encode('utf-8')), 1 if v[1] else 0) if v else 'x')
                if line.split() != want:
                    res.disagree({'what': 'register model and implementation (as revealed) differ', 'input': cases[i],
                                  'implementation': want, 'model': line.split()})
    nviol = 0
    for c, (bad, ref) in zip(cases, obs):
        res.evaluations += 1
        inp = {'text': c['text'], 'rows': c['rows'], 'prog': c['prog'], 'keys': keys_of(c['prog']).decode('utf-8', 'replace')}
        for m in c['prog']:
            res.count('cmd ' + ('!' if m[0] == 'pipe' else m[0] if m[0] not in ('op', 'x', 'ci', 'i') else (m[3] if m[0] in ('op', 'x', 'ci') else m[1])))
        if ref is not None and (ref.traffic or ''.join(x + '\n' for x in ref.L) != c07.norm_text(c['text'])):
            res.nontriv(json.dumps(inp, sort_keys=True))
        if bad:
            if bad.get('refbug'):
                res.disagree(dict(bad, input=inp))
                continue
            if bad.get('kf'):
                kf = bad.pop('kf')
                bad['input'] = inp
                res.violation(bad, kf=kf)
                continue
            if nviol < 3:
                nviol += 1
                small = shrink_case(exe, c)
                bad2, _ = check_case(exe, small)
                if bad2 and not bad2.get('refbug') and not bad2.get('kf'):
                    bad, inp = bad2, {'text': small['text'], 'rows': small['rows'], 'prog': small['prog'],
                                      'keys': keys_of(small['prog']).decode('utf-8', 'replace')}
            bad['input'] = inp
            res.violation(bad)
    for c in cases[:3000:600]:
        res.sample({'text': c['text'], 'rows': c['rows'], 'keys': keys_of(c['prog']).decode('utf-8', 'replace')})


def shrink_case(exe, c):
    def fails_prog(p):
        bad, _ = check_case(exe, dict(c, prog=p))
        return bool(bad) and not bad.get('refbug') and not bad.get('kf')
    prog = vlib.shrink(c['prog'], fails_prog, max_steps=60)
    c = dict(c, prog=prog)
    ls = c['text'].split('\n')

    def fails_text(l):
        bad, _ = check_case(exe, dict(c, text='\n'.join(l)))
        return bool(bad) and not bad.get('refbug') and not bad.get('kf')
    if len(ls) > 2:
        c = dict(c, text='\n'.join(vlib.shrink(ls, fails_text, max_steps=40)))
    return c
