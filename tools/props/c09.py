"""C09 -- repeat, macro and count: `.`, `@r` and N-fold equal retyping.

A relation between TWO runs of the real binary (vi mode): program P containing `.` / `N.` / `@r` /
`N@r` / `@@` versus P' in which every such site is replaced by the keys it stands for (the keys of
the most recent change command including count and register prefix; the register's contents),
computed by the generator that produced P.  Written file, cursor (marker) and registers (put at the
end of the buffer) must coincide.  The extracted model (coq/InputQueue.v) is run on the same
programs: its expansion of P into the key stream that reaches the command interpreter must equal
P' (the model knows nothing of the generator's bookkeeping: it records and pushes as term.c/vi.c do,
with a syntax-directed tokenizer for command boundaries).

Tokenizer correspondence (coq/ViKeys.v, requests `vitok` / `virun` of ocaml/drv_inq.ml): the extracted
tokenizer + raw-key interpreter (next_command, vi_exec = ViDefs.exec1 after the tokenizer, run by the
loop of InputQueue.v) is RUN on the raw key bytes of programs over the modelled command set.  For a
sample of programs every prefix of the typed keys -- ending at a token boundary or INSIDE a token --
followed by <ESC> i#%#<ESC> G"ap G"bp Gp :w! out must leave, on the real editor, the file the model
computes for the same keys (at a boundary: the text after that many commands; inside a token: the
pending keys are swallowed by ESC, or the insert ends there).  Programs with . / N. / @r / @@ are run
whole (model against binary, and model(P) against model(retyped P)); the keys of C08's generated
programs must be read by the tokenizer as exactly the commands C08's driver builds from their JSON form
(`op` request of the vi model); `c` + a failing motion leaves the typed text to run as commands.
"""
import json
import vlib

GROUP = 'inq'
TRUSTED = ['the generator\'s own bookkeeping of "keys of the most recent change" (programs are generated command by command, '
           'each change command in a context where its motion succeeds, so that key consumption is syntax-directed)']

ESC = '\x1b'
MARK = '#%#'
BASE = ['alpha beta gamma delta epsilon zeta eta theta iota kappa',
        'one two three four five six seven eight nine ten',
        'éclair 中文 über naïve café señor smörgås façade',
        'the quick brown fox jumps over the lazy dog again',
        'lorem ipsum dolor sit amet consectetur adipiscing elit sed do',
        'aa bb cc dd ee ff gg hh ii jj kk',
        'x1 y2 z3 w4 v5 u6 t7 s8 r9 q0',
        'red green blue cyan magenta yellow black white grey pink',
        'last line of the file is here and it is long enough']
TEXTS = ['Z', 'xy', 'é中', 'new text', 'a b', 'ü-ö', 'Q9', '.', 'w.', 'tab\there', '中文 é']
TAIL = 'mz:$pu a\n:$pu b\n:$pu\n:$pu .\n:$pu 1\n:$pu 2\n`zi' + MARK + ESC + ':w! out\n:q!\n'


def change_atom(rng, safe_only=False):
    """one change command: (keys, kind)"""
    cnt = rng.choice(['', '', '', '2', '3', '4'])
    reg = rng.choice(['', '', '', '"a', '"b'])
    txt = rng.choice(TEXTS)
    t = rng.below(30)
    mot = rng.choice(['w', 'e', 'l', '2w', 'w', 'e', '$', 'fe', 'tt', 'j'])
    pre = (reg + cnt) if rng.chance(1, 2) else (cnt + reg)
    if t == 0:
        return pre + 'x', 'x'
    if t == 1:
        return pre + 'X', 'X'
    if t == 2:
        return pre + 'dd', 'dd'
    if t == 3:
        return pre + 'd' + mot, 'd'
    if t == 4:
        return pre + 'yy', 'yy'
    if t == 5:
        return pre + 'y' + rng.choice(['w', 'e', '$', 'j']), 'y'
    if t == 6:
        return cnt + 'r' + rng.choice('QZé'), 'r'
    if t == 7:
        return cnt + '~', '~'
    if t == 8:
        return cnt + 'J', 'J'
    if t == 9:
        return pre + 'c' + rng.choice(['w', 'e', '2w', 'w']) + txt + ESC, 'c'
    if t == 10:
        return pre + 'cc' + txt + ESC, 'cc'
    if t == 11:
        return cnt + 's' + txt + ESC, 's'
    if t == 12:
        return reg + 'S' + txt + ESC, 'S'
    if t == 13:
        return reg + 'C' + txt + ESC, 'C'
    if t == 14:
        return reg + 'D', 'D'
    if t == 15:
        return pre + 'Y', 'Y'
    if t in (16, 17, 18):
        return cnt + rng.choice('iaIA') + txt + ESC, 'insert'
    if t == 19:
        return cnt + rng.choice('oO') + txt + ESC, 'open'
    if t == 20:
        return cnt + 'a' + txt + ESC, 'insert'
    if t == 21:
        return reg + cnt + rng.choice('pP'), 'put'
    if t == 22:
        return cnt + rng.choice(['>>', '<<', '>j', '<j']), 'shift'
    if t == 23:
        return cnt + rng.choice(['g~', 'gu', 'gU']) + rng.choice(['w', 'e', '$', 'l']), 'case'
    if t == 24:
        return cnt + '!!' + rng.choice(['tr a-z A-Z', 'sort', 'cat', 'tr e E']) + '\n', 'filter'
    if t == 25:
        return 'd/' + rng.choice(['the', 'e', 'four', 'o']) + '\n', 'd/'
    if t == 26:
        return 'd' + cnt + 'w' if cnt else 'dw', 'd'
    if t == 27:
        return (cnt or '2') + 'd' + '2w', 'd'
    if t == 28:
        return 'i' + rng.choice(TEXTS) + '\n' + rng.choice(TEXTS) + ESC, 'insert'
    return 'A ' + txt + ESC, 'insert'


MOD_MOTIONS = ['j', 'k', 'w', 'b', '0', '$', 'l', 'h', '+', '-', '2G', '3G', '1G', 'e', '2w', '4G0', '5G', 'fa', ';', '^', '3|', 'W', 'B', 'E',
               '}', '{', 'H', 'L', 'M', 'tb', 'Fe', ',', '_', '2l', 'G', '%', ' ', '\x7f']


def mod_change_atom(rng):
    """a change command inside the command set of coq/ViKeys.v (no ! filter, no search target)"""
    while True:
        k, kind = change_atom(rng)
        if kind not in ('filter', 'd/'):
            return k, kind


def motion_atom(rng):
    return rng.choice(['j', 'k', 'w', 'b', '0', '$', 'l', 'h', '+', '-', '2G', '3G', '1G', 'e', '2w', '4G0', '5G', 'u', 'ma', "'a",
                       '/e\n', 'fa', ';', '^', '1G', '3|'])


class Expander:
    """P -> P': what the property says the program stands for"""

    def __init__(self, macros):
        self.macros = macros        # name -> list of atoms
        self.rep = None
        self.last_reg = None
        self.depth = 0

    def atoms(self, atoms):
        out = ''
        for a in atoms:
            out += self.atom(a)
        return out

    def atom(self, a):
        k = a[0]
        if k == 'change':
            self.rep = a[1]
            return a[1]
        if k == 'keys':
            return a[1]
        if k == 'dot':
            n = a[1]
            return (self.rep or '') * max(1, n)
        if k == 'exec':
            n, r = a[1], a[2]
            if r == '@':
                r = self.last_reg
            if r is None or r not in self.macros:
                return ''
            self.last_reg = r
            out = ''
            self.depth += 1
            if self.depth < 6:
                for i in range(max(1, n)):
                    out += self.atoms(self.macros[r])
            self.depth -= 1
            return out
        raise ValueError(k)


def raw(atoms):
    out = ''
    for a in atoms:
        k = a[0]
        if k in ('change', 'keys'):
            out += a[1]
        elif k == 'dot':
            out += (str(a[1]) if a[1] else '') + '.'
        elif k == 'exec':
            out += (str(a[1]) if a[1] else '') + '@' + a[2]
    return out


IBUF_SIZE = 4096     # sizeof(ibuf), term.c (the model's IBUFSZ is regenerated from it; the classifier below only needs the number)


def nbytes(atoms):
    return len(raw(atoms).encode('utf-8'))


def clip_site(case):
    """Reference for KF-PUSH-CLIP, computed from the INPUT alone: the first `.` / `@r` site of the program whose copies do not fit into the
    key queue at the moment it runs (count x bytes of the pushed keys > sizeof(ibuf) - ibuf_cnt), or None.  The queue is simulated on atoms:
    keys typed at the terminal are read one by one with the queue drained, each such read sets ibuf_cnt = 1; keys that come out of the queue
    do not lower ibuf_cnt (the read part is reclaimed only when the queue has drained, 098bcee); a site pushes count copies in front."""
    macros = case['macros']
    queue = []                      # atoms still unread in ibuf
    tin = list(case['atoms'])       # atoms still to be typed
    cnt = 0                         # ibuf_cnt
    rep = None
    last_reg = None
    steps = 0
    while queue or tin:
        steps += 1
        if steps > 200000:
            return None
        if queue:
            a = queue.pop(0)
        else:
            a = tin.pop(0)
            if nbytes([a]) > 0:
                cnt = 1             # the last typed key left ibuf_cnt = ibuf_pos = 1
        k = a[0]
        if k == 'change':
            rep = a
            continue
        if k == 'keys':
            continue
        if k == 'dot':
            body = [rep] if rep is not None else []
        else:
            r = a[2] if a[2] != '@' else last_reg
            if r is None or r not in macros:
                continue
            last_reg = r
            body = list(macros[r])
        n = max(1, a[1])
        need = n * nbytes(body)
        room = IBUF_SIZE - cnt
        if need > room:
            return {'site': raw([a]), 'count': n, 'bytes_per_copy': nbytes(body), 'room': room}
        queue = body * n + queue
        cnt += need
    return None


def has_nested(case):
    return any(a[0] in ('dot', 'exec') for m in case['macros'].values() for a in m)


def gen_case(rng, kind, modelled=False):
    """modelled=True: only commands that coq/ViKeys.v tokenises and coq/ViDefs.v interprets"""
    change_atom_ = mod_change_atom if modelled else change_atom
    motion_atom_ = (lambda r: r.choice(MOD_MOTIONS)) if modelled else motion_atom
    macros = {}
    atoms = []
    nmac = 0 if kind == 'dot' else rng.choice([1, 1, 2])
    for name in ['m', 'n'][:nmac]:
        body = []
        for j in range(rng.choice([1, 2, 2, 3])):
            t = rng.below(10)
            if t < 6:
                k = change_atom_(rng)[0]
                while '\n' in k:
                    k = change_atom_(rng)[0]
                body.append(['change', k])
            elif t < 8:
                k = motion_atom_(rng)
                while '\n' in k:
                    k = motion_atom_(rng)
                body.append(['keys', k])
            elif kind == 'nested' and t == 8:
                body.append(['dot', rng.choice([0, 0, 2])])
            elif kind == 'nested' and name == 'm' and nmac == 2:
                body.append(['exec', rng.choice([0, 0, 2]), 'n'])
            else:
                body.append(['keys', rng.choice(['j', 'w', '0', 'k', 'e'])])
        if kind == 'nested' and not any(a[0] in ('dot', 'exec') for a in body):
            body.append(['dot', 0])
        macros[name] = body
    atoms.append(['keys', rng.choice(['1G', '2G', '1Gw', '2Gw', '3G', '4Gww', '1G'])])
    n = rng.choice([2, 3, 3, 4, 5, 6])
    have = False
    for j in range(n):
        t = rng.below(12)
        if t < 4 or not have:
            atoms.append(['change', change_atom_(rng)[0]])
            have = True
        elif t < 6:
            atoms.append(['keys', motion_atom_(rng)])
        elif t < 9 or not macros:
            atoms.append(['dot', rng.choice([0, 0, 0, 2, 3, 4])])
            if rng.chance(1, 2):
                atoms.append(['keys', motion_atom_(rng)])
        elif t < 11:
            atoms.append(['exec', rng.choice([0, 0, 2, 3]), rng.choice(list(macros.keys()) + (['@'] if any(a[0] == 'exec' for a in atoms) else []))])
        elif modelled:
            atoms.append(['change', rng.choice(['"ayw', '"byy', 'yw', '"Ayw'])])      # yanks are members of the repeatable set
        else:
            atoms.append(['keys', rng.choice([':3y .\n', ':2y a\n', ':4y b\n', ':5y .\n'])])
    if not any(a[0] in ('dot', 'exec') for a in atoms):
        atoms.append(['dot', rng.choice([0, 2])])
    text = list(BASE)
    rng.shuffle(text)
    return {'text': text, 'macros': macros, 'atoms': atoms, 'kind': kind}


def long_macro(nbytes):
    """a macro of exactly nbytes bytes made of many short commands"""
    units = [['change', 'ia' + ESC], ['keys', 'l'], ['change', 'rZ'], ['keys', 'l'], ['change', 'x'], ['keys', 'l'],
             ['change', 'ib' + ESC], ['change', 'rQ'], ['keys', 'l'], ['change', 'x'], ['change', 'dw'], ['keys', 'w']]
    body = []
    n = 0
    i = 0
    while nbytes - n >= 4:
        u = units[i % len(units)]
        if u[1] == 'dw' and i % 5:
            u = ['keys', 'l']
        body.append(u)
        n += len(u[1])
        i += 1
    while n < nbytes:
        body.append(['change', 'x'] if nbytes - n == 1 else ['keys', 'l'])
        n += 1
    return body


def grid_cases():
    """every change command x prefixes x repeat counts 1..4 x contexts, `.` typed at the terminal"""
    out = []
    cmds = ['x', 'X', 'dd', 'dw', 'd2w', 'de', 'd$', 'D', 'yy', 'yw', 'Y', 'rQ', '~', 'J', 'cwZ9' + ESC, 'ccé中' + ESC, 'sxy' + ESC,
            'Snew' + ESC, 'Cend' + ESC, 'iZ' + ESC, 'aé' + ESC, 'Iw.' + ESC, 'A 中' + ESC, 'oline' + ESC, 'Oline' + ESC,
            'p', 'P', '>>', '<<', 'g~w', 'guw', 'gUe', '!!tr a-z A-Z\n', 'dfe', 'dte', 'd/o\n', 'ia\nb' + ESC, '>j', 'g~$']
    ctxs = ['1G', '2Gw', '3Gww']
    for ci, c in enumerate(cmds):
        for pi, pre in enumerate(['', '2', '"a', '"a2', '3"b']):
            if pre.startswith('"') or '"' in pre:
                if c[0] not in 'xXdDyYcsSCpP':
                    continue
            for n in [0, 2, 3, 4]:
                ctx = ctxs[(ci + pi + n) % 3]
                atoms = [['keys', ctx], ['keys', 'yw' if c in ('p', 'P') else ''], ['change', pre + c], ['keys', ['j', 'w', '+'][(ci + n) % 3]], ['dot', n],
                         ['keys', 'j0'], ['dot', 0]]
                out.append({'text': list(BASE), 'macros': {}, 'atoms': atoms, 'kind': 'grid'})
    return out


def special_cases():
    out = []
    # `.` replays the recorded keystrokes, not register `.`
    out.append({'text': list(BASE), 'macros': {}, 'kind': 'special',
                'atoms': [['keys', '1G'], ['change', 'x'], ['keys', ':3y .\n'], ['dot', 0], ['keys', 'j'], ['dot', 2]]})
    out.append({'text': list(BASE), 'macros': {}, 'kind': 'special',
                'atoms': [['keys', '2G'], ['change', '2dw'], ['keys', ':5y .\n:1\n'], ['dot', 3]]})
    # a change executed from a macro becomes the repeat command
    for body in [[['change', 'dw']], [['change', 'rZ'], ['keys', 'l'], ['change', 'x']], [['change', 'cwTYPED' + ESC]], [['change', '"a2dd']],
                 [['change', '3x']], [['change', 'A!' + ESC]], [['keys', 'w'], ['change', 'cw中é' + ESC], ['keys', 'w']]]:
        for n in [0, 2]:
            out.append({'text': list(BASE), 'macros': {'m': body}, 'kind': 'special',
                        'atoms': [['keys', '1G'], ['change', 'x'], ['keys', 'w'], ['exec', 0, 'm'], ['keys', 'j0'], ['dot', n], ['keys', 'w'], ['exec', n, '@']]})
    # DESIGN section 9 row 16 (repaired by fixes/C09-term-push-front.patch)
    out.append({'text': ['abcdef'] + BASE[1:], 'macros': {'m': [['dot', 0], ['change', 'iZ' + ESC]]}, 'kind': 'nested',
                'atoms': [['keys', '1G'], ['change', 'x'], ['exec', 0, 'm']]})
    out.append({'text': list(BASE), 'macros': {'m': [['change', 'x'], ['exec', 0, 'n'], ['change', 'rQ']], 'n': [['keys', 'w'], ['change', 'dw']]}, 'kind': 'nested',
                'atoms': [['keys', '2G'], ['exec', 2, 'm'], ['dot', 0]]})
    # long registers: @r / N@r / @@ with 300 .. 1200 bytes, totals up to just below the 4096-byte queue
    for nbytes, cnt in [(300, 0), (511, 0), (512, 0), (750, 0), (1200, 0), (300, 13), (511, 8), (512, 7), (750, 5), (1023, 4), (1200, 3)]:
        body = long_macro(nbytes)
        out.append({'text': list(BASE), 'macros': {'m': body}, 'kind': 'longreg', 'timeout': 90,
                    'atoms': [['keys', '1G'], ['change', 'x'], ['exec', cnt, 'm'], ['keys', 'j0'], ['dot', 0]]})
    for nbytes, cnt in [(512, 0), (750, 2), (1200, 2)]:
        out.append({'text': list(BASE), 'macros': {'m': long_macro(nbytes)}, 'kind': 'longreg', 'timeout': 90,
                    'atoms': [['keys', '2G'], ['exec', 0, 'm'], ['keys', 'j0'], ['exec', cnt, '@'], ['dot', 2]]})
    # long recorded command just below the recording buffer; many repeats within the queue
    long_txt = 'ab' * 2030
    out.append({'text': list(BASE), 'macros': {}, 'kind': 'capacity',
                'atoms': [['keys', '1G'], ['change', 'i' + long_txt + ESC], ['keys', 'j'], ['dot', 0]]})
    out.append({'text': ['a' * 6000] + BASE[1:], 'macros': {}, 'kind': 'capacity',
                'atoms': [['keys', '1G'], ['change', 'x'], ['dot', 4000]]})
    return out


# ---------------------------------------------------------------------------------------------


def setup_keys(case):
    """load the macro lines (appended to the file) into registers m, n (character mode)"""
    k = ''
    base = len(case['text'])
    for i, name in enumerate(sorted(case['macros'])):
        k += '%dG0"%sy$' % (base + 1 + i, name)
    return k


def file_of(case):
    lines = list(case['text'])
    for name in sorted(case['macros']):
        lines.append(raw(case['macros'][name]))
    return ''.join(l + '\n' for l in lines).encode('utf-8')


def ok_bytes(s):
    return '\x1a' not in s and '\x00' not in s


def run_keys(exe, case, keys, timeout=20):
    kb = (setup_keys(case) + keys + TAIL).encode('utf-8')
    r = vlib.run_vi(exe, kb, files={'f': file_of(case)}, args=['f'], readback=['out'], timeout=timeout)
    if r.timed_out:
        r = vlib.run_vi(exe, kb, files={'f': file_of(case)}, args=['f'], readback=['out'], timeout=3 * timeout)
    if r.timed_out:
        return 'hang'
    if r.crashed() or r.files.get('out') is None:
        r2 = vlib.run_vi(exe, kb, files={'f': file_of(case)}, args=['f'], readback=['out'], timeout=timeout)
        if r2.crashed() or r2.files.get('out') is None:
            return 'crash rc=%s' % r2.rc
        r = r2
    return r.files['out']


def pair(exe, case):
    p = raw(case['atoms'])
    q = Expander(case['macros']).atoms(case['atoms'])
    if not ok_bytes(p) or not ok_bytes(q):
        return None
    t = case.get('timeout', 20)
    return (p, q, run_keys(exe, case, p, t), run_keys(exe, case, q, t))


def model_request(case):
    """tokens for the model: every atom of the program and of the macros with its kind"""
    def enc(atoms):
        w = []
        for a in atoms:
            if a[0] == 'change':
                w.append('c' + vlib.hx(a[1].encode('utf-8')))
            elif a[0] == 'keys':
                if a[1]:
                    w.append('k' + vlib.hx(a[1].encode('utf-8')))
            elif a[0] == 'dot':
                w.append('d%d' % a[1])
            else:
                w.append('e%d%s' % (a[1], a[2]))
        return ','.join(w) or '-'
    return 'expand %s %s %s' % (enc(case['macros'].get('m', [])), enc(case['macros'].get('n', [])), enc(case['atoms']))


def load_corpus():
    import glob, os
    out = []
    for p in sorted(glob.glob(os.path.join(vlib.VERIF, 'corpus', 'C09-*.json'))):
        for c in json.load(open(p)).get('cases', []):
            c['kind'] = c.get('kind', 'corpus')
            out.append(c)
    return out

# ---------------------------------------------------------------------------------------------
# the tokenizer of coq/ViKeys.v against the real editor

TOK_ROWS = 24
TOK_SUFFIX = ESC + 'i' + MARK + ESC + 'G"apG"bpGp'       # all inside the modelled command set
TOK_FAILING_C = [   # `c` + a motion that fails: the typed text runs as commands
    (['alpha beta gamma', 'second (line) here'], 'cfZxx' + ESC + 'w.'),
    (['alpha beta gamma', 'second (line) here'], 'w"a2cTQjx' + ESC + 'p'),
    (['alpha beta gamma', 'second (line) here'], 'c;llD' + ESC),
    (['alpha beta gamma', 'second (line) here'], 'wc%0x' + ESC + 'jf(c%[]' + ESC + '.'),
    (['alpha beta gamma', 'second (line) here'], 'c200%jdd' + ESC),
    (['alpha beta gamma', 'second (line) here'], 'xcfZ.2.' + ESC + 'x'),
]
TOK_HAND = [       # every grammar position at least once
    '"a3dw"b2yyj"ap"bP3J2rZ4~x2X', '2"adw3"byej"aPD"bp', 'd2fad3tex;d,', '2d3wyGggg~~3guuj2gUU>>3<<>j<k',
    'cwnew' + ESC + 'w.2ccz' + ESC + 'j3sq' + ESC + 'SS S' + ESC + 'Cend' + ESC, 'ia\nb' + ESC + 'Ax\x08y\x17zz' + ESC + 'ofoo\x15bar' + ESC + 'O\x14t\x04' + ESC,
    'iq\x16\x09w' + ESC + '"ayiw"aywi\x12a\x10' + ESC, 'rédfé2rZtéFd', 'mad\'ay`ax', "3\x1bd\x1bg\x1bgqf\x1br\x1b@\x1bx\"a\"bx3\"a4x",
    '5|d0d^d$d_d+d-dHdMdLd{d}d%dhdld d\x7fdjdkdBdEdWdbdedw', 'y2jp3Gd2ku', ':3\ndd:1\nP',
]


def tok_file(text):
    return ''.join(l + '\n' for l in text).encode('utf-8')


def tok_real(exe, fileb, keys):
    kb = keys + b':w! out\n:q!\n'
    r = vlib.run_vi(exe, kb, files={'f': fileb}, args=['f'], readback=['out'], rows=TOK_ROWS, timeout=20)
    if r.timed_out:
        r = vlib.run_vi(exe, kb, files={'f': fileb}, args=['f'], readback=['out'], rows=TOK_ROWS, timeout=60)
        if r.timed_out:
            return 'hang'
    if r.crashed() or r.files.get('out') is None:
        r = vlib.run_vi(exe, kb, files={'f': fileb}, args=['f'], readback=['out'], rows=TOK_ROWS, timeout=20)
        if r.crashed() or r.files.get('out') is None:
            return 'crash rc=%s' % r.rc
    return r.files['out']


def tok_model_text(line):
    """text of a `virun` answer; None = outside the model / clipped"""
    w = line.split()
    if len(w) < 5:
        return None
    return vlib.unhx(w[4])


def tok_check(ctx, exe, model):
    """the tokenizer correspondence (see the module docstring)"""
    res, rng = ctx.res, ctx.rng
    suffix = TOK_SUFFIX.encode('utf-8')
    progs = []          # (file bytes, key bytes, kind, cut?)
    for text, keys in TOK_FAILING_C:
        progs.append((tok_file(text), keys.encode('utf-8'), 'failing-c', True))
    for keys in TOK_HAND:
        progs.append((tok_file(BASE), ('2Gw' + keys).encode('utf-8'), 'hand', True))
    ncut = 14 if ctx.quick else 150
    nwhole = 60 if ctx.quick else 1500
    for i in range(ncut + nwhole):
        c = gen_case(rng, rng.choice(['dot', 'macro', 'nested']), modelled=True)
        p = setup_keys(c) + raw(c['atoms'])
        if not ok_bytes(p):
            continue
        progs.append((file_of(c), p.encode('utf-8'), 'generated', i < ncut))
    # 1. token boundaries
    rc, tout, err = vlib.run_lines(model, ['vitok %d %s %s' % (TOK_ROWS - 1, vlib.hx(f), vlib.hx(k)) for f, k, _, _ in progs], timeout=900)
    if rc != 0 or len(tout) != len(progs):
        res.disagree({'what': 'model driver failed on vitok: rc=%s, %d answers for %d requests' % (rc, len(tout), len(progs)), 'stderr': err[-800:]})
        return
    runs = []           # (prog index, cut offset, kind of cut, key bytes)
    kinds = {}
    for i, ((f, k, kind, cut), line) in enumerate(zip(progs, tout)):
        w = line.split()
        status, letters, stat, dyn = w[0], w[1], w[2], w[3]
        res.count('tokenizer: program ' + kind + ' ' + status)
        for ch in letters if letters != '-' else '':
            kinds[ch] = kinds.get(ch, 0) + 1
        bounds = set(int(x) for x in dyn.split(',')) if dyn != '-' else set()
        if kind == 'hand' and status == 'ok' and letters != '-' and 'd' not in letters and 'e' not in letters and stat != dyn:
            res.disagree({'what': 'tokenizer: the boundaries of the syntactic tokenisation differ from those of the loop on a program without . and @',
                          'input': k.decode('utf-8', 'replace'), 'model': [stat, dyn]})
        runs.append((i, len(k), 'whole', k + suffix))
        if cut:
            cuts = [p for p in range(1, len(k)) if (k[p] & 0xC0) != 0x80]      # never inside a multi-byte character: typed text is valid UTF-8 (the property's quantifier)
            inner = [p for p in cuts if p not in bounds]
            if len(inner) > 24:
                rng.shuffle(inner)
                inner = inner[:24]
            for p in sorted(set(inner) | (bounds & set(cuts))):
                runs.append((i, p, 'boundary' if p in bounds else 'inside', k[:p] + suffix))
    res.extra['tokenizer kinds'] = kinds
    rc, mout, err = vlib.run_lines(model, ['virun %d %s %s' % (TOK_ROWS - 1, vlib.hx(progs[i][0]), vlib.hx(kb)) for i, _, _, kb in runs], timeout=1800)
    if rc != 0 or len(mout) != len(runs):
        res.disagree({'what': 'model driver failed on virun: rc=%s, %d answers for %d requests' % (rc, len(mout), len(runs)), 'stderr': err[-800:]})
        return
    todo = [j for j, m in enumerate(mout) if tok_model_text(m) is not None]
    real = vlib.pmap(lambda j: tok_real(exe, progs[runs[j][0]][0], runs[j][3]), todo)
    ndis = 0
    for j, out in zip(todo, real):
        i, p, ck, kb = runs[j]
        res.evaluations += 1
        res.count('tokenizer: cut ' + ck)
        want = tok_model_text(mout[j])
        if ck != 'whole' or progs[i][2] != 'generated':
            res.nontriv(json.dumps(['tok', progs[i][1].decode('utf-8', 'replace'), p]))
        if out != want:
            ndis += 1
            if ndis <= 5:
                res.disagree({'what': 'tokenizer correspondence: after the first %d typed keys (%s) + ESC the file differs from the text of the raw-key model' % (p, ck),
                              'input': {'file': progs[i][0].decode('utf-8', 'replace'), 'keys': progs[i][1].decode('utf-8', 'replace'), 'cut': p},
                              'implementation': out if isinstance(out, str) else out.decode('utf-8', 'replace')[-500:],
                              'model': want.decode('utf-8', 'replace')[-500:]})
    for j, m in enumerate(mout):
        if tok_model_text(m) is None:
            res.count('tokenizer: cut skipped (model: ' + m.split()[0] + ')')
    if ndis:
        res.extra['tokenizer differences'] = ndis
    # 2. the failing-c programs: the loop must have split the text into commands (more boundaries than a `c` + text would give)
    for (f, k, kind, _), line in zip(progs, tout):
        if kind == 'failing-c':
            w = line.split()
            nb = len(w[3].split(','))
            if w[0] != 'ok' or nb < 4:
                res.disagree({'what': 'tokenizer: c + failing motion not split into commands', 'input': k.decode('utf-8', 'replace'), 'model': line})
    # 3. model(P) = model(retyped P) on generated programs with . / @ (the theorems, evaluated)
    reqs, meta = [], []
    for n in range(40 if ctx.quick else 600):
        c = gen_case(rng, rng.choice(['dot', 'macro', 'nested']), modelled=True)
        pk = setup_keys(c) + raw(c['atoms'])
        qk = setup_keys(c) + Expander(c['macros']).atoms(c['atoms'])
        if not ok_bytes(pk) or not ok_bytes(qk):
            continue
        for kk in (pk, qk):
            reqs.append('virun %d %s %s' % (TOK_ROWS - 1, vlib.hx(file_of(c)), vlib.hx(kk.encode('utf-8'))))
        meta.append((c, pk, qk))
    rc, eout, err = vlib.run_lines(model, reqs, timeout=900)
    if rc == 0 and len(eout) == len(reqs):
        for n, (c, pk, qk) in enumerate(meta):
            a, b = eout[2 * n], eout[2 * n + 1]
            res.count('tokenizer: model P vs retyped ' + ('compared' if tok_model_text(a) is not None else 'skipped (' + a.split()[0] + ')'))
            if tok_model_text(a) is not None and a != b:
                res.disagree({'what': 'raw-key model: the program with ./@ and the retyped program end differently in the model', 'input': c, 'P': pk, 'retyped': qk,
                              'model': [a[:300], b[:300]]})
    else:
        res.disagree({'what': 'model driver failed on virun (P vs retyped): rc=%s' % rc, 'stderr': err[-800:]})
    # 4. the keys of C08's programs are read as the commands C08's driver builds from the JSON form
    vimodel = ctx.model('vi')
    if vimodel:
        from props import c08
        cases = []
        for n in range(300 if ctx.quick else 5000):
            text = c08.gen_case_text(rng)
            prog = c08.gen_prog(rng, text)
            if c08.has_pipe(prog):
                continue
            kb = c08.keys_of(prog)
            if b'\x1a' in kb or b'\x00' in kb:
                continue
            cases.append((text, prog, kb))
        rc1, o1, e1 = vlib.run_lines(vimodel, [c08.model_req(t, TOK_ROWS, p) for t, p, _ in cases], timeout=900)
        rc2, o2, e2 = vlib.run_lines(model, ['virun %d %s %s' % (TOK_ROWS - 1, vlib.hx(t.encode('utf-8')), vlib.hx(kb)) for t, _, kb in cases], timeout=900)
        if rc1 != 0 or rc2 != 0 or len(o1) != len(cases) or len(o2) != len(cases):
            res.disagree({'what': 'model drivers failed on the C08 round trip: rc=%s/%s' % (rc1, rc2), 'stderr': (e1 + e2)[-800:]})
        else:
            nd = 0
            for (t, prog, kb), a, b in zip(cases, o1, o2):
                res.evaluations += 1
                res.count('tokenizer: C08 program round trip')
                if a != b and a != 'fuel':
                    nd += 1
                    if nd <= 3:
                        res.disagree({'what': 'tokenizer: the keys of a C08 program are not read as the commands of its JSON form (ViDefs.exec_prog vs vi_session)',
                                      'input': {'text': t, 'prog': prog, 'keys': kb.decode('utf-8', 'replace')}, 'model': [a[:300], b[:300]]})
    else:
        res.count('tokenizer: C08 round trip skipped (vi model not built)')


def run(ctx):
    res = ctx.res
    rng = ctx.rng
    exe = vlib.build_vi()
    model = ctx.model('inq')
    res.rule = ('one case = file x program P with `.` / N. / @r / N@r / @@ sites x the retyped program P\' ; both are run on the real binary; '
                'compared: written file (text), cursor marker, registers a b " . 1 2 put at the end.  non-trivial = P differs from P\' and the '
                'program changes the text; distinct = distinct (file, P)')
    if ctx.replay:
        rp = json.load(open(ctx.replay))
        todo = [rp['input']] if isinstance(rp.get('input'), dict) else []
    else:
        todo = load_corpus() + special_cases()
        g = grid_cases()
        if ctx.quick:
            g = [c for i, c in enumerate(g) if (i + ctx.seed) % 3 == 0]
        todo += g
        for i in range(500 if ctx.quick else 15000):
            todo.append(gen_case(rng, rng.choice(['dot', 'dot', 'macro', 'macro', 'nested'])))
    res.count('pairs', len(todo))
    results = vlib.pmap(lambda c: pair(exe, c), todo)

    mout = None
    if model:
        rc, mout, err = vlib.run_lines(model, [model_request(c) for c in todo] + ['capacity'], timeout=900)
        if rc != 0 or len(mout) != len(todo) + 1:
            res.disagree({'what': 'model driver failed: rc=%s, %d answers for %d requests' % (rc, len(mout), len(todo) + 1), 'stderr': err[-800:]})
            mout = None

    def fails(case):
        r = pair(exe, case)
        return r is not None and r[2] != r[3]

    nviol = 0
    for i, (case, r) in enumerate(zip(todo, results)):
        if r is None:
            res.count('skipped (forbidden byte)')
            continue
        res.evaluations += 1
        p, q, a, b = r
        res.count('kind ' + case['kind'])
        for at in case['atoms']:
            res.count('site ' + at[0]) if at[0] in ('dot', 'exec') else None
        if any(ord(ch) > 127 for ch in p):
            res.count('multi-byte keys')
        if p != q and isinstance(a, bytes) and a != file_of(case):
            res.nontriv(json.dumps([case['text'][:2], p]))
        if i % 499 == 0:
            res.sample({'P': p, 'retyped': q, 'same': a == b})
        over = clip_site(case)
        if over is not None:
            res.count('over-capacity programs (count x length > room of the key queue)')
        if mout is not None:
            want = vlib.hx(q.encode('utf-8'))
            if mout[i] != want and not (over is not None and mout[i] == 'clipped'):
                res.disagree({'what': 'model expansion of P differs from the retyped program', 'input': case, 'P': p, 'retyped': q,
                              'model': vlib.unhx(mout[i]).decode('utf-8', 'replace') if mout[i] not in ('?', '') else mout[i]})
        if (isinstance(a, str) or isinstance(b, str) or a != b) and over is not None:
            # KNOWN_FINDINGS.txt KF-PUSH-CLIP: recognised from the input (clip_site), not from the way the runs differ
            res.violation({'what': 'count x length of the keys pushed by N. / N@r exceeds the free room of the 4096-byte key queue: term_push drops the '
                                   'tail, the program runs fewer (or a truncated last) copies than the retyped one (first: %s, %d x %d bytes, room %d)'
                                   % (over['site'], over['count'], over['bytes_per_copy'], over['room']),
                           'input': case, 'P': p}, kf='KF-PUSH-CLIP') and res.count('KF-PUSH-CLIP not listed: reported as violation')
            continue
        if isinstance(a, str) or isinstance(b, str) or a != b:
            if nviol < 3 and not ctx.replay and len(case['atoms']) > 2:
                small = vlib.shrink(case['atoms'], lambda at: fails(dict(case, atoms=at)))
                case = dict(case, atoms=small)
                r2 = pair(exe, case)
                if r2 is not None:
                    p, q, a, b = r2
            nviol += 1
            res.violation({'what': 'the program with ./@ and the retyped program end differently (file, cursor marker or registers)',
                           'input': case, 'P': p, 'retyped': q,
                           'expected': {'out': b if isinstance(b, str) else b.decode('utf-8', 'replace')[-600:]},
                           'observed': {'out': a if isinstance(a, str) else a.decode('utf-8', 'replace')[-600:]},
                           'replay_cmd': 'python3 tools/check.py C09 --replay <this file>'})
    if model and not ctx.replay:
        tok_check(ctx, exe, model)
    # capacity: the model's clip against the real queue: `x` then 5000. on a 6000-character line
    if mout is not None and not ctx.replay:
        pushes = int(mout[-1])
        case = {'text': ['a' * 6000] + BASE[1:], 'macros': {}}
        out = run_keys(exe, case, '1Gx5000.', timeout=60)
        got = None
        if isinstance(out, bytes):
            got = 6000 - len(out.split(b'\n')[0].replace(MARK.encode(), b''))
        res.evaluations += 1
        res.extra['capacity'] = {'model_pushes': pushes, 'characters_deleted_by_x_5000dot': got}
        if got != 1 + pushes:
            res.disagree({'what': 'capacity: x then 5000. deleted %s characters, the model clips the pushes to %d' % (got, pushes), 'input': '1Gx5000.'})
